package main

import (
	"fmt"
	"go/ast"
	"os"
	"path/filepath"
	"regexp"
	"sort"
	"strings"
)

const (
	fHandler = "module/x/mhub2/keeper/external_event_handler.go"
	fVote    = "module/x/mhub2/keeper/external_event_vote.go"
	fPool    = "module/x/mhub2/keeper/pool.go"
	fBatch   = "module/x/mhub2/keeper/batch.go"
	fKeeper  = "module/x/mhub2/keeper/keeper.go"
	fMsg     = "module/x/mhub2/keeper/msg_server.go"
	fAbci    = "module/x/mhub2/abci.go"
	fGenesis = "module/x/mhub2/types/genesis.go"
	fTypes   = "module/x/mhub2/types/types.go"
	fEvent   = "module/x/mhub2/types/external_event.go"
	fKey     = "module/x/mhub2/types/key.go"
	fOutTx   = "module/x/mhub2/types/outgoing_tx.go"
	fSigner  = "module/x/mhub2/types/ethereum_signer.go"
	fKGen    = "module/x/mhub2/keeper/genesis.go"
	fQuery   = "module/x/mhub2/keeper/grpc_query.go"
	fOAtt    = "module/x/oracle/keeper/attestation.go"
	fOHand   = "module/x/oracle/keeper/attestation_handler.go"
	fOKeeper = "module/x/oracle/keeper/keeper.go"
	fOAbci   = "module/x/oracle/abci.go"
	fOGen    = "module/x/oracle/keeper/genesis.go"
	fOMsg    = "module/x/oracle/keeper/msg_server.go"
	fOTypesG = "module/x/oracle/types/genesis.go"
	fMinter  = "minter-connector/minter/minter.go"
	fCommand = "minter-connector/command/command.go"
	fConnMain = "minter-connector/cmd/mhub-minter-connector/main.go"
	fSol     = "solidity/contracts/Hub2.sol"
)

func extractHub() {
	// --- event handler: what is minted for a TransferToChainEvent
	if fd := findFunc(fHandler, "ExternalEventProcessor", "Handle"); fd != nil {
		if cc := typeCase(fd.Body, "TransferToChainEvent"); cc != nil {
			vals := kvValues(cc, "SendToHubEvent", "Amount")
			firstOr("ttc_mint_hub", vals, 0)
			firstOr("ttc_mint_other", vals, 1)
			firstOr("ttc_fee_guard", ifConds(cc, "IsLT"), 0)
			var ca []string
			for _, c := range callsTo(cc, "createSendToExternal") {
				for _, a := range c.Args {
					ca = append(ca, src(a))
				}
			}
			set("ttc_create_args", strings.Join(ca, " | "))
		} else {
			miss("ttc_mint_hub")
		}
		if cc := typeCase(fd.Body, "*types.SendToHubEvent"); cc != nil {
			var l []string
			for _, c := range callsTo(cc, "NewCoin") {
				l = append(l, src(c))
			}
			set("sth_coin", strings.Join(l, " | "))
			var m []string
			for _, c := range callsTo(cc, "ConvertFromExternalValue") {
				m = append(m, src(c))
			}
			set("sth_convert", strings.Join(m, " | "))
		}
	} else {
		miss("ttc_mint_hub")
	}
	// --- staking hooks: every method of keeper.Hooks with the statements of its body
	if f := parse("module/x/mhub2/keeper/hooks.go"); f != nil {
		var l []string
		for _, d := range f.Decls {
			fd, ok := d.(*ast.FuncDecl)
			if !ok || fd.Recv == nil || len(fd.Recv.List) == 0 || fd.Body == nil {
				continue
			}
			if src(fd.Recv.List[0].Type) != "Hooks" {
				continue
			}
			var st []string
			for _, x := range fd.Body.List {
				st = append(st, src(x))
			}
			l = append(l, fd.Name.Name+"{"+strings.Join(st, "; ")+"}")
		}
		sort.Strings(l)
		set("staking_hooks", strings.Join(l, " | "))
	} else {
		miss("staking_hooks")
	}
	// --- vote threshold and tally
	if fd := findFunc(fGenesis, "", "EventVoteRecordPowerThreshold"); fd != nil {
		firstOr("vote_threshold_expr", returns(fd), 0)
	} else {
		miss("vote_threshold_expr")
	}
	if fd := findFunc(fVote, "Keeper", "TryEventVoteRecord"); fd != nil {
		firstOr("try_cmp", ifConds(fd.Body, "requiredPower"), 0)
		firstOr("try_accepted_guard", ifConds(fd.Body, "Accepted"), 0)
		firstOr("try_order_guard", ifConds(fd.Body, "lastEventNonce"), 0)
		// order of the writes before the handler call
		var order []string
		for _, n := range collect(fd.Body, func(n ast.Node) bool { _, ok := n.(*ast.CallExpr); return ok }) {
			s := src(n.(*ast.CallExpr).Fun)
			for _, want := range []string{"setLastObservedEventNonce", "SetLastObservedExternalBlockHeight", "setExternalEventVoteRecord", "processExternalEvent"} {
				if strings.HasSuffix(s, want) {
					order = append(order, want)
				}
			}
		}
		set("try_write_order", strings.Join(order, ","))
		var power []string
		for _, c := range callsTo(fd.Body, "GetLastValidatorPower") {
			power = append(power, src(c))
		}
		for _, c := range callsTo(fd.Body, "EventVoteRecordPowerThreshold") {
			power = append(power, src(c))
		}
		set("try_power_sources", strings.Join(power, " | "))
	} else {
		miss("try_cmp")
	}
	if fd := findFunc(fVote, "Keeper", "processExternalEvent"); fd != nil {
		s := src(fd.Body)
		set("process_has_recover", fmt.Sprint(strings.Contains(s, "recover()")))
		set("process_uses_cache_ctx", fmt.Sprint(strings.Contains(s, "CacheContext()")))
	} else {
		miss("process_has_recover")
	}
	if fd := findFunc(fVote, "Keeper", "recordEventVote"); fd != nil {
		firstOr("record_contiguity", ifConds(fd.Body, "expectedNonce"), 0)
		var app []string
		for _, c := range callsTo(fd.Body, "append") {
			app = append(app, src(c))
		}
		set("record_vote_append", strings.Join(app, " | "))
	} else {
		miss("record_contiguity")
	}
	if fd := findFunc(fAbci, "", "eventVoteRecordTally"); fd != nil {
		firstOr("tally_gate", ifConds(fd.Body, "GetLastObservedEventNonce"), 0)
	} else {
		miss("tally_gate")
	}
	if fd := findFunc(fMsg, "Keeper", "getSignerValidator"); fd != nil {
		set("signer_conds", strings.Join(ifConds(fd.Body, ""), " | "))
	} else {
		miss("signer_conds")
	}
	// --- abci
	if fd := findFunc(fAbci, "", "BeginBlocker"); fd != nil {
		var order []string
		for _, n := range collect(fd.Body, func(n ast.Node) bool { _, ok := n.(*ast.CallExpr); return ok }) {
			s := src(n.(*ast.CallExpr).Fun)
			if !strings.Contains(s, ".") {
				order = append(order, s)
			}
		}
		set("begin_order", strings.Join(order, ","))
		set("begin_conds", strings.Join(ifConds(fd.Body, ""), " | "))
	} else {
		miss("begin_order")
	}
	if fd := findFunc(fAbci, "", "EndBlocker"); fd != nil {
		var order []string
		for _, n := range collect(fd.Body, func(n ast.Node) bool { _, ok := n.(*ast.CallExpr); return ok }) {
			s := src(n.(*ast.CallExpr).Fun)
			if !strings.Contains(s, ".") {
				order = append(order, s)
			}
		}
		set("end_order", strings.Join(order, ","))
	} else {
		miss("end_order")
	}
	if fd := findFunc(fAbci, "", "cleanupTimedOutBatchTxs"); fd != nil {
		firstOr("batch_timeout_cond", ifConds(fd.Body, "Timeout"), 0)
		var hs []string
		for _, c := range callsTo(fd.Body, "GetLastObservedExternalBlockHeight") {
			hs = append(hs, src(c))
		}
		set("batch_timeout_height_src", strings.Join(hs, " | "))
	} else {
		miss("batch_timeout_cond")
	}
	if fd := findFunc(fAbci, "", "createBatchTxs"); fd != nil {
		firstOr("create_batch_period", ifConds(fd.Body, "BlockHeight"), 0)
		var a []string
		for _, c := range callsTo(fd.Body, "BuildBatchTx") {
			a = append(a, src(c))
		}
		set("create_batch_call", strings.Join(a, " | "))
		set("create_batch_sorts", fmt.Sprint(len(callsTo(fd.Body, "sort.Strings")) > 0))
	} else {
		miss("create_batch_period")
	}
	if fd := findFunc(fAbci, "", "refundExpiredTxs"); fd != nil {
		conds := ifConds(fd.Body, "")
		set("expiry_conds", strings.Join(conds, " | "))
	} else {
		miss("expiry_conds")
	}
	if fd := findFunc(fAbci, "", "createSignerSetTxs"); fd != nil {
		var asg []string
		for _, n := range collect(fd.Body, func(n ast.Node) bool { a, ok := n.(*ast.AssignStmt); return ok && len(a.Lhs) == 1 && src(a.Lhs[0]) == "shouldCreate" }) {
			asg = append(asg, src(n.(*ast.AssignStmt).Rhs[0]))
		}
		firstOr("signerset_should_create", asg, 0)
		firstOr("signerset_nil_cond", ifConds(fd.Body, "nil"), 0)
	} else {
		miss("signerset_should_create")
	}
	if fd := findFunc(fAbci, "", "pruneSignerSetTxs"); fd != nil {
		set("prune_conds", strings.Join(ifConds(fd.Body, ""), " | "))
	}
	// --- batch
	set("batch_tx_size", constDecl(fBatch, "BatchTxSize"))
	if fd := findFunc(fBatch, "Keeper", "BuildBatchTx"); fd != nil {
		var stop []string
		for _, n := range collect(fd.Body, func(n ast.Node) bool { _, ok := n.(*ast.FuncLit); return ok }) {
			stop = append(stop, returns(&ast.FuncDecl{Body: n.(*ast.FuncLit).Body})...)
		}
		set("build_batch_stop", strings.Join(stop, " | "))
		set("build_batch_conds", strings.Join(ifConds(fd.Body, ""), " | "))
		set("build_batch_nonce", strings.Join(kvValues(fd.Body, "BatchTx", "BatchNonce"), " | "))
		set("build_batch_txs", strings.Join(kvValues(fd.Body, "BatchTx", "Transactions"), " | "))
		set("build_batch_token", strings.Join(kvValues(fd.Body, "BatchTx", "ExternalTokenId"), " | "))
	} else {
		miss("build_batch_stop")
	}
	if fd := findFunc(fBatch, "Keeper", "batchTxExecuted"); fd != nil {
		firstOr("executed_cancel_cond", ifConds(fd.Body, "BatchNonce"), 0)
		firstOr("executed_minter_guard", ifConds(fd.Body, `"minter"`), 0)
		set("executed_conds", strings.Join(ifConds(fd.Body, ""), " | "))
		var asg []string
		for _, n := range collect(fd.Body, func(n ast.Node) bool { a, ok := n.(*ast.AssignStmt); return ok && len(a.Lhs) == 1 }) {
			a := n.(*ast.AssignStmt)
			l := src(a.Lhs[0])
			if l == "amount" || l == "toRefund" || l == "averageFeePaid" || l == "feeLeft" || l == "record.ExternalFee" || l == "fee" {
				asg = append(asg, l+" := "+src(a.Rhs[0]))
			}
		}
		set("executed_arith", strings.Join(asg, " | "))
	} else {
		miss("executed_cancel_cond")
	}
	if fd := findFunc(fBatch, "Keeper", "CancelBatchTx"); fd != nil {
		set("cancel_batch_conds", strings.Join(ifConds(fd.Body, ""), " | "))
	}
	if fd := findFunc(fPool, "Keeper", "iterateUnbatchedSendToExternalsByCoin"); fd != nil {
		var p []string
		for _, c := range callsTo(fd.Body, "prefix.NewStore") {
			p = append(p, src(c))
		}
		set("pool_by_coin_prefix", strings.Join(p, " | "))
		set("pool_by_coin_reverse", fmt.Sprint(len(callsTo(fd.Body, "ReverseIterator")) > 0))
	}
	if fd := findFunc(fPool, "Keeper", "cancelSendToExternal"); fd != nil {
		set("cancel_conds", strings.Join(ifConds(fd.Body, ""), " | "))
		var asg []string
		for _, n := range collect(fd.Body, func(n ast.Node) bool { a, ok := n.(*ast.AssignStmt); return ok && len(a.Lhs) == 1 && strings.HasPrefix(src(a.Lhs[0]), "totalToRefund") }) {
			asg = append(asg, src(n.(*ast.AssignStmt).Rhs[0]))
		}
		set("cancel_refund_arith", strings.Join(asg, " | "))
		var lookups []string
		for _, c := range callsTo(fd.Body, "getUnbatchedSendToExternals") {
			lookups = append(lookups, src(c))
		}
		set("cancel_lookup", strings.Join(lookups, " | "))
		// order of the effects: the entry leaves the pool only after the refund has been minted and routed
		var order []string
		for _, n := range collect(fd.Body, func(n ast.Node) bool { _, ok := n.(*ast.CallExpr); return ok }) {
			s := src(n.(*ast.CallExpr).Fun)
			for _, want := range []string{"MintCoins", "SendCoinsFromModuleToAccount", "createSendToExternal", "SetTxStatus", "deleteUnbatchedSendToExternal", "setUnbatchedSendToExternal", "BurnCoins"} {
				if strings.HasSuffix(s, "."+want) {
					order = append(order, want)
				}
			}
		}
		set("cancel_call_order", strings.Join(order, ","))
	} else {
		miss("cancel_conds")
	}
	// the token table is searched by exact match (chain and id / denom / numeric id): an id that only resembles a listed one is unknown
	{
		var l []string
		for _, name := range []string{"ExternalIdToTokenInfoLookup", "DenomToTokenInfoLookup", "TokenIdToTokenInfoLookup"} {
			if fd := findFunc(fKeeper, "Keeper", name); fd != nil {
				l = append(l, name+": "+strings.Join(ifConds(fd.Body, ""), " ; "))
			} else {
				l = append(l, name+": <missing>")
			}
		}
		set("token_lookup_conds", strings.Join(l, " | "))
	}
	if fd := findFunc(fPool, "Keeper", "createSendToExternal"); fd != nil {
		var order []string
		for _, n := range collect(fd.Body, func(n ast.Node) bool { _, ok := n.(*ast.CallExpr); return ok }) {
			s := src(n.(*ast.CallExpr).Fun)
			for _, want := range []string{"DenomToTokenInfoLookup", "SendCoinsFromAccountToModule", "BurnCoins", "incrementLastSendToExternalIDKey", "setUnbatchedSendToExternal"} {
				if strings.HasSuffix(s, want) {
					order = append(order, want)
				}
			}
		}
		set("create_order", strings.Join(order, ","))
		var asg []string
		for _, n := range collect(fd.Body, func(n ast.Node) bool { a, ok := n.(*ast.AssignStmt); return ok && len(a.Lhs) == 1 }) {
			a := n.(*ast.AssignStmt)
			l := src(a.Lhs[0])
			if strings.HasPrefix(l, "converted") || l == "totalAmount" {
				asg = append(asg, l+" := "+src(a.Rhs[0]))
			}
		}
		set("create_arith", strings.Join(asg, " | "))
	} else {
		miss("create_order")
	}
	if fd := findFunc(fMsg, "msgServer", "SendToExternal"); fd != nil {
		var asg []string
		for _, n := range collect(fd.Body, func(n ast.Node) bool { a, ok := n.(*ast.AssignStmt); return ok && len(a.Lhs) == 1 && src(a.Lhs[0]) == "commission" }) {
			asg = append(asg, src(n.(*ast.AssignStmt).Rhs[0]))
		}
		firstOr("send_commission", asg, 0)
		var ca []string
		for _, c := range callsTo(fd.Body, "createSendToExternal") {
			for _, a := range c.Args {
				ca = append(ca, src(a))
			}
		}
		set("send_create_args", strings.Join(ca, " | "))
	} else {
		miss("send_commission")
	}
	// --- governance cold-storage transfer: what is minted, where to, and the outgoing transfer it becomes
	if fd := findFunc(fKeeper, "Keeper", "ColdStorageTransfer"); fd != nil {
		var st []string
		for _, c := range callsTo(fd.Body, "MintCoins") {
			st = append(st, src(c))
		}
		for _, c := range callsTo(fd.Body, "SendCoinsFromModuleToAccount") {
			st = append(st, src(c))
		}
		for _, n := range collect(fd.Body, func(n ast.Node) bool { a, ok := n.(*ast.AssignStmt); return ok && len(a.Lhs) == 1 && src(a.Lhs[0]) == "vouchers" }) {
			st = append(st, src(n))
		}
		set("cold_mint", strings.Join(st, " | "))
		var ca []string
		for _, c := range callsTo(fd.Body, "createSendToExternal") {
			for i, a := range c.Args {
				if i == 7 { // the transaction hash (digest of the proposal's bytes) is not part of the model
					continue
				}
				ca = append(ca, src(a))
			}
		}
		set("cold_create_args", strings.Join(ca, " | "))
		var other []string // any further bank or pool call would be a second effect
		for _, n := range collect(fd.Body, func(n ast.Node) bool { _, ok := n.(*ast.CallExpr); return ok }) {
			f := src(n.(*ast.CallExpr).Fun)
			if strings.HasPrefix(f, "k.") && !strings.HasPrefix(f, "k.get") && f != "k.GetColdStorageAddr" {
				other = append(other, f)
			}
		}
		set("cold_calls", strings.Join(other, " | "))
	} else {
		miss("cold_mint")
	}
	if fd := findFunc(fKeeper, "Keeper", "GetColdStorageAddr"); fd != nil {
		var l []string
		for _, n := range collect(fd.Body, func(n ast.Node) bool { _, ok := n.(*ast.CaseClause); return ok }) {
			cc := n.(*ast.CaseClause)
			var b []string
			for _, x := range cc.Body {
				b = append(b, src(x))
			}
			var k []string
			for _, x := range cc.List {
				k = append(k, src(x))
			}
			l = append(l, strings.Join(k, ",")+" => "+strings.Join(b, "; "))
		}
		set("cold_addrs", strings.Join(l, " | "))
	} else {
		miss("cold_addrs")
	}
	if fd := findFunc(fKeeper, "", "convertDecimals"); fd != nil {
		set("convert_body", src(fd.Body))
	} else {
		miss("convert_body")
	}
	if fd := findFunc(fKeeper, "Keeper", "GetCommissionForHolder"); fd != nil {
		var cases []string
		for _, n := range collect(fd.Body, func(n ast.Node) bool { _, ok := n.(*ast.CaseClause); return ok }) {
			cc := n.(*ast.CaseClause)
			var l []string
			for _, e := range cc.List {
				l = append(l, src(e))
			}
			for _, r := range cc.Body {
				l = append(l, src(r))
			}
			cases = append(cases, strings.Join(l, " => "))
		}
		set("commission_tiers", strings.Join(cases, " | "))
		var d []string
		for _, n := range collect(fd.Body, func(n ast.Node) bool { a, ok := n.(*ast.AssignStmt); return ok && len(a.Lhs) == 1 && strings.HasPrefix(src(a.Lhs[0]), "discount") }) {
			d = append(d, src(n))
		}
		set("commission_discounts", strings.Join(d, " | "))
	} else {
		miss("commission_tiers")
	}
	if fd := findFunc(fKeeper, "Keeper", "CurrentSignerSet"); fd != nil {
		var asg []string
		for _, n := range collect(fd.Body, func(n ast.Node) bool { a, ok := n.(*ast.AssignStmt); return ok && len(a.Lhs) == 1 && strings.HasSuffix(src(a.Lhs[0]), ".Power") }) {
			asg = append(asg, src(n.(*ast.AssignStmt).Rhs[0]))
		}
		firstOr("signerset_normalise", asg, 0)
		set("signerset_member_cond", strings.Join(ifConds(fd.Body, ""), " | "))
		var srcs []string
		for _, c := range callsTo(fd.Body, "GetBondedValidatorsByPower") {
			srcs = append(srcs, src(c))
		}
		set("signerset_source", strings.Join(srcs, " | "))
	} else {
		miss("signerset_normalise")
	}
	if fd := findFunc(fTypes, "ExternalSigners", "Sort"); fd != nil {
		set("signer_sort_body", src(fd.Body))
	} else {
		miss("signer_sort_body")
	}
	if fd := findFunc(fTypes, "ExternalSigners", "PowerDiff"); fd != nil {
		firstOr("powerdiff_return", returns(fd), 0)
	}
	if fd := findFunc(fTypes, "", "NewSignerSetTx"); fd != nil {
		set("new_signerset_sorts", fmt.Sprint(len(callsTo(fd.Body, "members.Sort")) > 0))
	}
	// --- msg server: confirmations and delegate keys
	if fd := findFunc(fMsg, "msgServer", "SubmitTxConfirmation"); fd != nil {
		set("confirm_conds", strings.Join(ifConds(fd.Body, ""), " | "))
	} else {
		miss("confirm_conds")
	}
	if fd := findFunc(fMsg, "msgServer", "SetDelegateKeys"); fd != nil {
		set("delegate_conds", strings.Join(ifConds(fd.Body, ""), " | "))
		set("delegate_signmsg", strings.Join(kvValues(fd.Body, "DelegateKeysSignMsg", "ValidatorAddress"), "|")+" ; "+strings.Join(kvValues(fd.Body, "DelegateKeysSignMsg", "Nonce"), "|"))
		var order []string
		for _, n := range collect(fd.Body, func(n ast.Node) bool { _, ok := n.(*ast.CallExpr); return ok }) {
			s := src(n.(*ast.CallExpr).Fun)
			for _, want := range []string{"SetOrchestratorValidatorAddress", "setValidatorExternalAddress", "setExternalOrchestratorAddress", "ValidateEthereumSignature"} {
				if strings.HasSuffix(s, want) {
					order = append(order, want)
				}
			}
		}
		set("delegate_writes", strings.Join(order, ","))
	} else {
		miss("delegate_conds")
	}
	// --- key prefixes (iota order)
	if f := parse(fKey); f != nil {
		var names []string
		for _, d := range f.Decls {
			gd, ok := d.(*ast.GenDecl)
			if !ok {
				continue
			}
			isIota := false
			for _, s := range gd.Specs {
				vs, ok := s.(*ast.ValueSpec)
				if !ok {
					continue
				}
				for _, v := range vs.Values {
					if strings.Contains(src(v), "iota") {
						isIota = true
					}
				}
				if isIota {
					for _, n := range vs.Names {
						names = append(names, n.Name)
					}
				}
			}
		}
		set("key_prefix_order", strings.Join(names, ","))
		for _, fn := range []string{"MakeSendToExternalKey", "MakeExternalSignatureKey", "MakeExternalEventVoteRecordKey", "MakeBatchTxKey", "MakeSignerSetTxKey", "MakeOutgoingTxKey"} {
			if fd := findFunc(fKey, "", fn); fd != nil {
				firstOr("key_"+fn, returns(fd), 0)
			} else {
				miss("key_" + fn)
			}
		}
	}
	// --- checkpoints and signatures
	for _, r := range []struct{ recv, name string }{{"SignerSetTx", "ckpt_signerset"}, {"BatchTx", "ckpt_batch"}, {"ContractCallTx", "ckpt_call"}} {
		if fd := findFunc(fOutTx, r.recv, "GetCheckpoint"); fd != nil {
			var args []string
			for _, n := range collect(fd.Body, func(n ast.Node) bool { a, ok := n.(*ast.AssignStmt); return ok && len(a.Lhs) == 1 && src(a.Lhs[0]) == "args" }) {
				if cl, ok := n.(*ast.AssignStmt).Rhs[0].(*ast.CompositeLit); ok {
					for _, e := range cl.Elts {
						args = append(args, src(e))
					}
				}
			}
			set(r.name+"_args", strings.Join(args, " | "))
			var conv []string
			for _, c := range callsTo(fd.Body, "big.NewInt") {
				conv = append(conv, src(c))
			}
			set(r.name+"_intconv", strings.Join(conv, " | "))
			var lits []string
			for _, n := range collect(fd.Body, func(n ast.Node) bool { b, ok := n.(*ast.BasicLit); return ok && strings.HasPrefix(b.Value, `"`) }) {
				lits = append(lits, n.(*ast.BasicLit).Value)
			}
			set(r.name+"_literals", strings.Join(lits, " "))
			// how the fixed-size arguments are filled: `var x [32]T` declarations and copy(...) calls
			var cps []string
			for _, c := range callsTo(fd.Body, "copy") {
				cps = append(cps, src(c))
			}
			set(r.name+"_copies", strings.Join(cps, " | "))
			var decls []string
			for _, n := range collect(fd.Body, func(n ast.Node) bool { d, ok := n.(*ast.DeclStmt); return ok && strings.Contains(src(d), "[32]") }) {
				decls = append(decls, src(n))
			}
			set(r.name+"_fixed_decls", strings.Join(decls, " | "))
			firstOr(r.name+"_pack", func() []string {
				var l []string
				for _, c := range callsTo(fd.Body, "packCall") {
					l = append(l, src(c))
				}
				return l
			}(), 0)
		} else {
			miss(r.name + "_args")
		}
	}
	if fd := findFunc(fOutTx, "", "packCall"); fd != nil {
		firstOr("packcall_return", returns(fd), 0)
	}
	set("sig_prefix", constDecl(fSigner, "signaturePrefix"))
	if fd := findFunc(fSigner, "", "ValidateEthereumSignature"); fd != nil {
		set("sig_validate_conds", strings.Join(ifConds(fd.Body, ""), " | "))
	}
	for _, n := range []string{"BatchTxCheckpointABIJSON", "SignerSetTxCheckpointABIJSON", "ContractCallTxABIJSON"} {
		raw := constDecl("module/x/mhub2/types/abi_json.go", n)
		ts := regexp.MustCompile(`"type":\s*"([a-z0-9\[\]]+)"`).FindAllStringSubmatch(raw, -1)
		var l []string
		inputs := raw
		if i := strings.Index(raw, `"inputs"`); i >= 0 {
			inputs = raw[i:]
			if j := strings.Index(inputs, `]`); j >= 0 {
				// up to the closing bracket of inputs: find the first "]" that is followed (after spaces) by , or }
			}
		}
		_ = ts
		for _, m := range regexp.MustCompile(`"name":\s*"(_[A-Za-z]+)",\s*"type":\s*"([a-z0-9\[\]]+)"`).FindAllStringSubmatch(inputs, -1) {
			l = append(l, m[1]+":"+m[2])
		}
		set("abi_"+n, strings.Join(l, ","))
	}
	// --- genesis export / import
	if fd := findFunc(fKGen, "", "ExportGenesis"); fd != nil {
		var keys []string
		for _, n := range collect(fd.Body, func(n ast.Node) bool { _, ok := n.(*ast.CompositeLit); return ok }) {
			cl := n.(*ast.CompositeLit)
			if cl.Type != nil && (strings.Contains(src(cl.Type), "ExternalState") || strings.Contains(src(cl.Type), "GenesisState")) {
				for _, el := range cl.Elts {
					if kv, ok := el.(*ast.KeyValueExpr); ok {
						keys = append(keys, src(kv.Key))
					}
				}
			}
		}
		set("genesis_exported", strings.Join(keys, ","))
	} else {
		miss("genesis_exported")
	}
	if fd := findFunc(fKGen, "", "InitGenesis"); fd != nil {
		used := map[string]bool{}
		for _, n := range collect(fd.Body, func(n ast.Node) bool { _, ok := n.(*ast.SelectorExpr); return ok }) {
			s := src(n)
			if strings.HasPrefix(s, "externalState.") || strings.HasPrefix(s, "data.") {
				used[s] = true
			}
		}
		var l []string
		for k := range used {
			l = append(l, k)
		}
		sort.Strings(l)
		set("genesis_imported", strings.Join(l, ","))
		// what the observed external height (and the other counters) are set from
		var hs []string
		for _, want := range []string{"SetLastObservedExternalBlockHeight", "setLastObservedEventNonce", "setLastOutgoingBatchNonce", "setOutgoingSequence"} {
			for _, c := range callsTo(fd.Body, want) {
				hs = append(hs, src(c))
			}
		}
		set("genesis_import_counters", strings.Join(hs, " | "))
		// the order of the state writes (source order, consecutive repeats folded): `SetOutgoingTx` stamps every imported
		// outgoing transaction with the next sequence number, so the sequence counter has to be in place before them
		var ord []string
		for _, n := range collect(fd.Body, func(n ast.Node) bool { _, ok := n.(*ast.CallExpr); return ok }) {
			f := src(n.(*ast.CallExpr).Fun)
			if !(strings.HasPrefix(f, "k.set") || strings.HasPrefix(f, "k.Set")) {
				continue
			}
			if len(ord) == 0 || ord[len(ord)-1] != f {
				ord = append(ord, f)
			}
		}
		set("genesis_import_order", strings.Join(ord, " | "))
	} else {
		miss("genesis_imported")
	}
	// --- queries
	for _, q := range []string{"SignerSetTxConfirmations", "BatchTxConfirmations"} {
		if fd := findFunc(fQuery, "Keeper", q); fd != nil {
			set("query_"+q+"_signer", strings.Join(kvValues(fd.Body, "Confirmation", "ExternalSigner"), " | "))
		} else {
			miss("query_" + q + "_signer")
		}
	}
	for _, q := range []string{"UnsignedSignerSetTxs", "UnsignedBatchTxs"} {
		if fd := findFunc(fQuery, "Keeper", q); fd != nil {
			set("query_"+q+"_conds", strings.Join(ifConds(fd.Body, ""), " | "))
		}
	}
}

func extractHashes() {
	for _, r := range []struct{ recv, name string }{
		{"SendToHubEvent", "hash_sth"}, {"TransferToChainEvent", "hash_ttc"}, {"BatchExecutedEvent", "hash_bex"},
		{"ContractCallExecutedEvent", "hash_cce"}, {"SignerSetTxExecutedEvent", "hash_sse"}} {
		fd := findFunc(fEvent, r.recv, "Hash")
		if fd == nil {
			miss(r.name)
			continue
		}
		var comps []string
		for _, c := range callsTo(fd.Body, "bytes.Join") {
			if len(c.Args) > 0 {
				if cl, ok := c.Args[0].(*ast.CompositeLit); ok {
					for _, e := range cl.Elts {
						comps = append(comps, src(e))
					}
				}
			}
		}
		set(r.name, strings.Join(comps, " | "))
		if vfd := findFunc(fEvent, r.recv, "Validate"); vfd != nil {
			set(strings.Replace(r.name, "hash_", "validate_", 1), strings.Join(ifConds(vfd.Body, ""), " | "))
		}
	}
	if fd := findFunc(fTypes, "ExternalSigners", "Hash"); fd != nil {
		var w []string
		for _, c := range callsTo(fd.Body, "out.Write") {
			w = append(w, src(c))
		}
		set("hash_signers", strings.Join(w, " | ")+" ; sorts="+fmt.Sprint(len(callsTo(fd.Body, "b.Sort")) > 0))
	}
}

func extractOracle() {
	set("oracle_threshold", constDeclVar(fOTypesG, "AttestationVotesPowerThreshold"))
	if fd := findFunc(fOAbci, "", "EndBlocker"); fd != nil {
		firstOr("oracle_epoch_period", ifConds(fd.Body, "BlockHeight"), 0)
	} else {
		miss("oracle_epoch_period")
	}
	if fd := findFunc(fOAtt, "Keeper", "tryAttestation"); fd != nil {
		set("oracle_try_conds", strings.Join(ifConds(fd.Body, ""), " | "))
		var asg []string
		for _, n := range collect(fd.Body, func(n ast.Node) bool { a, ok := n.(*ast.AssignStmt); return ok && len(a.Lhs) == 1 && src(a.Lhs[0]) == "requiredPower" }) {
			asg = append(asg, src(n.(*ast.AssignStmt).Rhs[0]))
		}
		firstOr("oracle_required", asg, 0)
	} else {
		miss("oracle_try_conds")
	}
	if fd := findFunc(fOAtt, "Keeper", "voteForAttestation"); fd != nil {
		set("oracle_vote_body", src(fd.Body))
	} else {
		miss("oracle_vote_body")
	}
	if fd := findFunc(fOHand, "AttestationHandler", "Handle"); fd != nil {
		set("oracle_handle_conds", strings.Join(ifConds(fd.Body, ""), " | "))
		var asg []string
		for _, n := range collect(fd.Body, func(n ast.Node) bool { a, ok := n.(*ast.AssignStmt); return ok && len(a.Lhs) == 1 && src(a.Lhs[0]) == "calculatedPrice" }) {
			asg = append(asg, src(n.(*ast.AssignStmt).Rhs[0]))
		}
		set("oracle_median", strings.Join(asg, " | "))
	} else {
		miss("oracle_handle_conds")
	}
	if fd := findFunc(fOKeeper, "Keeper", "GetNormalizedValPowers"); fd != nil {
		var asg []string
		for _, n := range collect(fd.Body, func(n ast.Node) bool { a, ok := n.(*ast.AssignStmt); return ok && len(a.Lhs) == 1 && strings.HasPrefix(src(a.Lhs[0]), "bridgeValidators[address]") }) {
			asg = append(asg, src(n.(*ast.AssignStmt).Rhs[0]))
		}
		firstOr("oracle_normalise", asg, 0)
	}
	if fd := findFunc(fOKeeper, "Keeper", "ProcessCurrentEpoch"); fd != nil {
		var order []string
		for _, n := range collect(fd.Body, func(n ast.Node) bool { _, ok := n.(*ast.CallExpr); return ok }) {
			s := src(n.(*ast.CallExpr).Fun)
			for _, want := range []string{"setCurrentEpoch", "tryAttestation", "deletePriceClaim", "deleteHoldersClaim", "DeleteAttestation"} {
				if strings.HasSuffix(s, want) {
					order = append(order, want)
				}
			}
		}
		set("oracle_epoch_order", strings.Join(order, ","))
	}
	if fd := findFunc(fOMsg, "msgServer", "PriceClaim"); fd != nil {
		set("oracle_price_conds", strings.Join(ifConds(fd.Body, ""), " | "))
	}
	if fd := findFunc(fOGen, "", "ExportGenesis"); fd != nil {
		set("oracle_genesis_exported", strings.Join(func() []string {
			var keys []string
			for _, n := range collect(fd.Body, func(n ast.Node) bool { _, ok := n.(*ast.CompositeLit); return ok }) {
				cl := n.(*ast.CompositeLit)
				if cl.Type != nil && strings.Contains(src(cl.Type), "GenesisState") {
					for _, el := range cl.Elts {
						if kv, ok := el.(*ast.KeyValueExpr); ok {
							keys = append(keys, src(kv.Key))
						}
					}
				}
			}
			return keys
		}(), ","))
	}
	if fd := findFunc(fOGen, "", "InitGenesis"); fd != nil {
		var c []string
		for _, ce := range callsTo(fd.Body, "setCurrentEpoch") {
			c = append(c, src(ce))
		}
		set("oracle_genesis_epoch", strings.Join(c, " | "))
	}
}

func constDeclVar(rel, name string) string { return constDecl(rel, name) }

func extractConnector() {
	if fd := findFunc(fMinter, "", "GetLatestMinterBlockAndNonce"); fd != nil {
		set("conn_resync_conds", strings.Join(ifConds(fd.Body, ""), " | "))
		var sets []string
		for _, n := range collect(fd.Body, func(n ast.Node) bool { _, ok := n.(*ast.CallExpr); return ok }) {
			s := src(n)
			if strings.HasPrefix(s, "ctx.Set") || s == "ctx.Commit()" {
				sets = append(sets, s)
			}
		}
		set("conn_resync_writes", strings.Join(sets, " ; "))
	} else {
		miss("conn_resync_conds")
	}
	if fd := findFunc(fConnMain, "", "relayMinterEvents"); fd != nil {
		set("conn_relay_conds", strings.Join(ifConds(fd.Body, ""), " | "))
		var sets []string
		for _, n := range collect(fd.Body, func(n ast.Node) bool { _, ok := n.(*ast.CallExpr); return ok }) {
			s := src(n)
			if strings.HasPrefix(s, "ctx.Set") || s == "ctx.Commit()" {
				sets = append(sets, s)
			}
		}
		set("conn_relay_writes", strings.Join(sets, " ; "))
	} else {
		miss("conn_relay_conds")
	}
	// --- the Minter side: which transaction is sent to the multisig, with which weights and signatures
	for _, fn := range []string{"relayBatches", "relayValsets"} {
		name := "conn_" + strings.ToLower(fn[5:])
		if fd := findFunc(fConnMain, "", fn); fd != nil {
			set(name+"_conds", strings.Join(ifConds(fd.Body, ""), " | "))
			var ws, calls []string
			for _, n := range collect(fd.Body, func(n ast.Node) bool { _, ok := n.(*ast.AssignStmt); return ok }) {
				a := n.(*ast.AssignStmt)
				if len(a.Lhs) == 1 && src(a.Lhs[0]) == "weight" {
					ws = append(ws, src(a.Rhs[0]))
				}
			}
			for _, n := range collect(fd.Body, func(n ast.Node) bool { _, ok := n.(*ast.CallExpr); return ok }) {
				c := src(n)
				if strings.HasPrefix(c, "sort.Slice(") || strings.HasPrefix(c, "tx.SetNonce(") && strings.HasSuffix(c, ".SetSignatureType(transaction.SignatureTypeMulti)") || strings.HasPrefix(c, "tx.SetPayload(") {
					calls = append(calls, c)
				}
			}
			set(name+"_weight", strings.Join(ws, " | "))
			set(name+"_calls", strings.Join(calls, " | "))
		} else {
			miss(name + "_conds")
		}
	}
	set("conn_threshold", constDecl(fConnMain, "threshold"))
	if fd := findFunc(fCommand, "Command", "ValidateAndComplete"); fd != nil {
		set("cmd_conds", strings.Join(ifConds(fd.Body, ""), " | "))
		var cases []string
		for _, n := range collect(fd.Body, func(n ast.Node) bool { _, ok := n.(*ast.CaseClause); return ok }) {
			var l []string
			for _, e := range n.(*ast.CaseClause).List {
				l = append(l, src(e))
			}
			cases = append(cases, strings.Join(l, ","))
		}
		set("cmd_cases", strings.Join(cases, " | "))
	} else {
		miss("cmd_conds")
	}
}

func extractSolidity() {
	b, err := os.ReadFile(filepath.Join(repo, fSol))
	if err != nil {
		miss("sol_make_checkpoint")
		return
	}
	s := string(b)
	// strip comments
	s = regexp.MustCompile(`(?s)/\*.*?\*/`).ReplaceAllString(s, "")
	s = regexp.MustCompile(`//[^\n]*`).ReplaceAllString(s, "")
	norm := func(x string) string { return strings.TrimSpace(regexp.MustCompile(`\s+`).ReplaceAllString(x, " ")) }
	fn := func(name string) string {
		i := strings.Index(s, "function "+name+"(")
		if i < 0 {
			return ""
		}
		j := strings.Index(s[i+1:], "\n\tfunction ")
		if j < 0 {
			j = strings.Index(s[i+1:], "\n\tconstructor")
		}
		if j < 0 {
			return s[i:]
		}
		return s[i : i+1+j]
	}
	encodes := func(body string) []string {
		var out []string
		idx := 0
		for {
			i := strings.Index(body[idx:], "abi.encode(")
			if i < 0 {
				break
			}
			st := idx + i + len("abi.encode(")
			depth := 1
			k := st
			for k < len(body) && depth > 0 {
				if body[k] == '(' {
					depth++
				} else if body[k] == ')' {
					depth--
				}
				k++
			}
			out = append(out, norm(body[st:k-1]))
			idx = k
		}
		return out
	}
	requires := func(body string) []string {
		var out []string
		idx := 0
		for {
			i := strings.Index(body[idx:], "require(")
			if i < 0 {
				break
			}
			st := idx + i + len("require(")
			depth := 1
			k := st
			for k < len(body) && depth > 0 {
				if body[k] == '(' {
					depth++
				} else if body[k] == ')' {
					depth--
				}
				k++
			}
			r := norm(body[st : k-1])
			if j := strings.LastIndex(r, `, "`); j >= 0 {
				r = r[:j]
			}
			out = append(out, strings.TrimRight(norm(r), ", "))
			idx = k
		}
		return out
	}
	mc := fn("makeCheckpoint")
	if mc == "" {
		miss("sol_make_checkpoint")
	} else {
		set("sol_make_checkpoint", strings.Join(encodes(mc), " ; "))
		m := regexp.MustCompile(`methodName = (0x[0-9a-fA-F]+)`).FindStringSubmatch(mc)
		if m != nil {
			set("sol_checkpoint_method", m[1])
		} else {
			miss("sol_checkpoint_method")
		}
	}
	sb := fn("submitBatch")
	if sb == "" {
		miss("sol_submit_batch_encode")
	} else {
		set("sol_submit_batch_encode", strings.Join(encodes(sb), " ; "))
		set("sol_submit_batch_requires", strings.Join(requires(sb), " | "))
		hdr := sb[:strings.Index(sb, ")")]
		set("sol_submit_batch_params", norm(hdr[strings.Index(hdr, "(")+1:]))
	}
	uv := fn("updateValset")
	if uv == "" {
		miss("sol_update_valset_requires")
	} else {
		set("sol_update_valset_requires", strings.Join(requires(uv), " | "))
		hdr := uv[:strings.Index(uv, ")")]
		set("sol_update_valset_params", norm(hdr[strings.Index(hdr, "(")+1:]))
	}
	lc := fn("submitLogicCall")
	if lc != "" {
		set("sol_logic_call_encode", strings.Join(encodes(lc), " ; "))
	}
	cv := fn("checkValidatorSignatures")
	if cv == "" {
		miss("sol_check_sigs_requires")
	} else {
		set("sol_check_sigs_requires", strings.Join(requires(cv), " | "))
		var ifs []string
		for _, m := range regexp.MustCompile(`if \(([^\n]*)\) \{`).FindAllStringSubmatch(cv, -1) {
			ifs = append(ifs, norm(m[1]))
		}
		set("sol_check_sigs_ifs", strings.Join(ifs, " | "))
	}
	vs := fn("verifySig")
	if vs != "" {
		m := regexp.MustCompile(`abi\.encodePacked\(([^;]*)\)\)`).FindStringSubmatch(vs)
		if m != nil {
			set("sol_verify_prefix", norm(m[1]))
		}
	}
	tt := fn("transferToChain")
	if tt == "" {
		miss("sol_transfer_lock")
	} else {
		m := regexp.MustCompile(`safeTransferFrom\(([^;]*)\);`).FindStringSubmatch(tt)
		if m != nil {
			set("sol_transfer_lock", norm(m[1]))
		} else {
			miss("sol_transfer_lock")
		}
		e := regexp.MustCompile(`(?s)emit TransferToChainEvent\((.*?)\);`).FindStringSubmatch(tt)
		if e != nil {
			set("sol_transfer_event", norm(e[1]))
		}
	}
}

// extractSites lists the order-/runtime-sensitive constructs of the consensus code (C06) and
// the store operations reachable from iterator callbacks (C05).
func extractSites() {
	dirs := []string{"module/x/mhub2", "module/x/mhub2/keeper", "module/x/mhub2/types", "module/x/oracle", "module/x/oracle/keeper", "module/x/oracle/types"}
	var mapRanges, sorts, floats, gos, times []string
	for _, d := range dirs {
		ents, _ := os.ReadDir(filepath.Join(repo, d))
		for _, e := range ents {
			n := e.Name()
			if !strings.HasSuffix(n, ".go") || strings.HasSuffix(n, "_test.go") || strings.Contains(n, ".pb.") || n == "test_common.go" {
				continue
			}
			rel := filepath.Join(d, n)
			f := parse(rel)
			if f == nil {
				continue
			}
			for _, decl := range f.Decls {
				fd, ok := decl.(*ast.FuncDecl)
				if !ok || fd.Body == nil {
					continue
				}
				// local map-typed identifiers: declared via make(map...), map literal, or known map-returning calls
				mapVars := map[string]bool{}
				ast.Inspect(fd.Body, func(x ast.Node) bool {
					switch a := x.(type) {
					case *ast.AssignStmt:
						for i, r := range a.Rhs {
							rs := src(r)
							if strings.HasPrefix(rs, "make(map[") || strings.HasPrefix(rs, "map[") || strings.Contains(rs, "GetExternalEventVoteRecordMapping") ||
								strings.Contains(rs, "GetNormalizedValPowers") || strings.Contains(rs, "GetAttestationMapping") || strings.Contains(rs, "GetExternalSignatures") {
								if i < len(a.Lhs) {
									mapVars[src(a.Lhs[i])] = true
								}
							}
						}
					case *ast.ValueSpec:
						if a.Type != nil && strings.HasPrefix(src(a.Type), "map[") {
							for _, nm := range a.Names {
								mapVars[nm.Name] = true
							}
						}
					}
					return true
				})
				if fd.Type.Results != nil {
					for _, r := range fd.Type.Results.List {
						if strings.HasPrefix(src(r.Type), "map[") {
							for _, nm := range r.Names {
								mapVars[nm.Name] = true
							}
						}
					}
				}
				ast.Inspect(fd.Body, func(x ast.Node) bool {
					switch a := x.(type) {
					case *ast.RangeStmt:
						if mapVars[src(a.X)] {
							mapRanges = append(mapRanges, fmt.Sprintf("%s:%s:%s", n, fd.Name.Name, src(a.X)))
						}
					case *ast.CallExpr:
						fs := src(a.Fun)
						if fs == "sort.Slice" || fs == "sort.Strings" || fs == "sort.SliceStable" {
							sorts = append(sorts, fmt.Sprintf("%s:%s:%s", n, fd.Name.Name, fs))
						}
						if strings.HasPrefix(fs, "time.Now") || strings.HasPrefix(fs, "rand.") {
							times = append(times, fmt.Sprintf("%s:%s:%s", n, fd.Name.Name, fs))
						}
						if fs == "float64" || strings.HasPrefix(fs, "math.Abs") {
							floats = append(floats, fmt.Sprintf("%s:%s", n, fd.Name.Name))
						}
					case *ast.GoStmt:
						gos = append(gos, fmt.Sprintf("%s:%s", n, fd.Name.Name))
					}
					return true
				})
			}
		}
	}
	uniq := func(l []string) string {
		m := map[string]bool{}
		var o []string
		for _, x := range l {
			if !m[x] {
				m[x] = true
				o = append(o, x)
			}
		}
		sort.Strings(o)
		return strings.Join(o, " ")
	}
	set("det_map_ranges", uniq(mapRanges))
	set("det_sorts", uniq(sorts))
	set("det_floats", uniq(floats))
	set("det_goroutines", uniq(gos))
	set("det_time_rand", uniq(times))

	// iterator callbacks: for each call of an Iterate* function with a func literal, the names of
	// keeper methods called inside the literal
	var nested []string
	for _, rel := range []string{fAbci, fBatch, fPool, fKeeper, fVote, fQuery} {
		f := parse(rel)
		if f == nil {
			continue
		}
		for _, decl := range f.Decls {
			fd, ok := decl.(*ast.FuncDecl)
			if !ok || fd.Body == nil {
				continue
			}
			ast.Inspect(fd.Body, func(x ast.Node) bool {
				ce, ok := x.(*ast.CallExpr)
				if !ok {
					return true
				}
				fs := src(ce.Fun)
				if !(strings.Contains(fs, "Iterate") || strings.Contains(fs, "iterate")) {
					return true
				}
				for _, a := range ce.Args {
					fl, ok := a.(*ast.FuncLit)
					if !ok {
						continue
					}
					var inner []string
					ast.Inspect(fl.Body, func(y ast.Node) bool {
						if c2, ok := y.(*ast.CallExpr); ok {
							s := src(c2.Fun)
							if strings.HasPrefix(s, "k.") {
								inner = append(inner, strings.TrimPrefix(s, "k."))
							}
						}
						return true
					})
					sort.Strings(inner)
					nested = append(nested, fmt.Sprintf("%s:%s[%s]", filepath.Base(rel), fd.Name.Name, strings.Join(inner, ",")))
				}
				return true
			})
		}
	}
	set("lock_iter_callbacks", uniq(nested))

	// functions that open a store iterator, directly or through same-package callees
	lockFiles := []string{fAbci, fBatch, fPool, fKeeper, fVote, fQuery, fMsg, fHandler, "module/x/mhub2/keeper/tx_status.go", "module/x/mhub2/keeper/tx_fee_record.go", "module/x/mhub2/keeper/hooks.go", fKGen}
	calls := map[string]map[string]bool{}
	opens := map[string]bool{}
	bodies := map[string]*ast.FuncDecl{}
	for _, rel := range lockFiles {
		f := parse(rel)
		if f == nil {
			continue
		}
		for _, decl := range f.Decls {
			fd, ok := decl.(*ast.FuncDecl)
			if !ok || fd.Body == nil {
				continue
			}
			name := fd.Name.Name
			bodies[name] = fd
			calls[name] = map[string]bool{}
			ast.Inspect(fd.Body, func(y ast.Node) bool {
				c2, ok := y.(*ast.CallExpr)
				if !ok {
					return true
				}
				fs := src(c2.Fun)
				if strings.HasSuffix(fs, ".Iterator") || strings.HasSuffix(fs, ".ReverseIterator") || strings.Contains(fs, "FilteredPaginate") {
					opens[name] = true
				}
				if i := strings.LastIndex(fs, "."); i >= 0 {
					calls[name][fs[i+1:]] = true
				} else {
					calls[name][fs] = true
				}
				return true
			})
		}
	}
	for changed := true; changed; {
		changed = false
		for n, cs := range calls {
			if opens[n] {
				continue
			}
			for c := range cs {
				if opens[c] && bodies[c] != nil {
					opens[n] = true
					changed = true
				}
			}
		}
	}
	var openers []string
	for n := range opens {
		openers = append(openers, n)
	}
	set("lock_iterator_openers", uniq(openers))
	// iterator callbacks that (transitively) open another iterator
	var bad []string
	for _, rel := range lockFiles {
		f := parse(rel)
		if f == nil {
			continue
		}
		for _, decl := range f.Decls {
			fd, ok := decl.(*ast.FuncDecl)
			if !ok || fd.Body == nil {
				continue
			}
			ast.Inspect(fd.Body, func(x ast.Node) bool {
				ce, ok := x.(*ast.CallExpr)
				if !ok {
					return true
				}
				fs := src(ce.Fun)
				callee := fs
				if i := strings.LastIndex(fs, "."); i >= 0 {
					callee = fs[i+1:]
				}
				if !opens[callee] {
					return true
				}
				for _, a := range ce.Args {
					fl, ok := a.(*ast.FuncLit)
					if !ok {
						continue
					}
					ast.Inspect(fl.Body, func(y ast.Node) bool {
						if c2, ok := y.(*ast.CallExpr); ok {
							s2 := src(c2.Fun)
							in := s2
							if i := strings.LastIndex(s2, "."); i >= 0 {
								in = s2[i+1:]
							}
							if opens[in] && bodies[in] != nil {
								bad = append(bad, fmt.Sprintf("%s:%s->%s", filepath.Base(rel), fd.Name.Name, in))
							}
						}
						return true
					})
				}
				return true
			})
		}
	}
	set("lock_nested_iterators", uniq(bad))
	// explicit iterator loops (for ; iter.Valid(); iter.Next()) whose body opens an iterator
	var badLoops []string
	for name, fd := range bodies {
		ast.Inspect(fd.Body, func(x ast.Node) bool {
			fs, ok := x.(*ast.ForStmt)
			if !ok || fs.Cond == nil || !strings.Contains(src(fs.Cond), ".Valid()") {
				return true
			}
			ast.Inspect(fs.Body, func(y ast.Node) bool {
				if c2, ok := y.(*ast.CallExpr); ok {
					s2 := src(c2.Fun)
					in := s2
					if i := strings.LastIndex(s2, "."); i >= 0 {
						in = s2[i+1:]
					}
					if opens[in] && bodies[in] != nil {
						badLoops = append(badLoops, name+"->"+in)
					}
				}
				return true
			})
			return true
		})
	}
	set("lock_nested_iterator_loops", uniq(badLoops))
}

// derived emits interpreted definitions used as parameters of the model.
func derived() string {
	var b strings.Builder
	// what the TransferToChainEvent handler mints
	mint := func(s string) string {
		switch s {
		case "event.Amount.Add(event.Fee)":
			return "some true"
		case "event.Amount":
			return "some false"
		}
		return "none"
	}
	fmt.Fprintf(&b, "/-- `some true`: the handler mints Amount+Fee; `some false`: it mints Amount; `none`: shape not recognised. -/\n")
	fmt.Fprintf(&b, "def ttcMintHub? : Option Bool := %s\n", mint(facts["ttc_mint_hub"]))
	fmt.Fprintf(&b, "def ttcMintOther? : Option Bool := %s\n", mint(facts["ttc_mint_other"]))
	fmt.Fprintf(&b, "def ttcMintsAmountPlusFee : Bool := (ttcMintHub?.getD true) || (ttcMintOther?.getD true)\n")
	num, add, den := "0", "0", "1"
	if m := regexp.MustCompile(`^sdk\.NewInt\((\d+)\)\.Mul\(totalPower\)\.Quo\(sdk\.NewInt\((\d+)\)\)$`).FindStringSubmatch(facts["vote_threshold_expr"]); m != nil {
		num, den = m[1], m[2]
	}
	if m := regexp.MustCompile(`^sdk\.NewInt\((\d+)\)\.Mul\(totalPower\)\.Add\(sdk\.NewInt\((\d+)\)\)\.Quo\(sdk\.NewInt\((\d+)\)\)$`).FindStringSubmatch(facts["vote_threshold_expr"]); m != nil {
		num, add, den = m[1], m[2], m[3]
	}
	fmt.Fprintf(&b, "def voteThresholdNum : Int := %s\ndef voteThresholdAdd : Int := %s\ndef voteThresholdDen : Int := %s\n", num, add, den)
	onum, oadd, oden := "0", "0", "1"
	if m := regexp.MustCompile(`^sdk\.NewInt\((\d+)\)$`).FindStringSubmatch(facts["oracle_threshold"]); m != nil {
		onum = m[1]
	}
	if m := regexp.MustCompile(`^types\.AttestationVotesPowerThreshold\.Mul\(totalPower\)\.Quo\(sdk\.NewInt\((\d+)\)\)$`).FindStringSubmatch(facts["oracle_required"]); m != nil {
		oden = m[1]
	}
	if m := regexp.MustCompile(`^types\.AttestationVotesPowerThreshold\.Mul\(totalPower\)\.Add\(sdk\.NewInt\((\d+)\)\)\.Quo\(sdk\.NewInt\((\d+)\)\)$`).FindStringSubmatch(facts["oracle_required"]); m != nil {
		oadd, oden = m[1], m[2]
	}
	fmt.Fprintf(&b, "def oracleThresholdNum : Int := %s\ndef oracleThresholdAdd : Int := %s\ndef oracleThresholdDen : Int := %s\n", onum, oadd, oden)
	return b.String()
}
