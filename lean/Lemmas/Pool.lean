/-
  Helpers for C10 (batches) and C12 (cancellation / expiry): byte-string order, keyed sorted
  lists, selection for a batch, structure of `cancelSte`.
-/
import Mhub2.Votes
import Mhub2.Step
import Lemmas.Bank
namespace Mhub2

deriving instance ReflBEq, LawfulBEq for Ste

/-! ### Byte-lexicographic order -/

theorem bytesLt_cons (a b : Nat) (as bs : Bytes) :
    bytesLt (a :: as) (b :: bs) = if a < b then true else if b < a then false else bytesLt as bs := by
  rw [bytesLt]

theorem bytesLt_irrefl (a : Bytes) : bytesLt a a = false := by
  induction a with
  | nil => rfl
  | cons x xs ih => simp [bytesLt, ih]

theorem bytesLt_asymm : ∀ {a b : Bytes}, bytesLt a b = true → bytesLt b a = false
  | [], [], h => by simp [bytesLt] at h
  | [], _ :: _, _ => by simp [bytesLt]
  | _ :: _, [], h => by simp [bytesLt] at h
  | x :: xs, y :: ys, h => by
    unfold bytesLt at h ⊢
    by_cases h1 : x < y
    · have : ¬ y < x := by omega
      simp [h1, this]
    · by_cases h2 : y < x
      · simp [h1, h2] at h
      · simp only [h1, h2, if_false] at h ⊢
        exact bytesLt_asymm h

theorem bytesLt_trans : ∀ {a b c : Bytes}, bytesLt a b = true → bytesLt b c = true → bytesLt a c = true
  | [], [], _, h, _ => by simp [bytesLt] at h
  | [], _ :: _, [], _, h => by simp [bytesLt] at h
  | [], _ :: _, _ :: _, _, _ => by simp [bytesLt]
  | _ :: _, [], _, h, _ => by simp [bytesLt] at h
  | _ :: _, _ :: _, [], _, h => by simp [bytesLt] at h
  | x :: xs, y :: ys, z :: zs, h1, h2 => by
    unfold bytesLt at h1 h2 ⊢
    by_cases hxy : x < y
    · by_cases hyz : y < z
      · have : x < z := by omega
        simp [this]
      · by_cases hzy : z < y
        · simp [hyz, hzy] at h2
        · have : x < z := by omega
          simp [this]
    · by_cases hyx : y < x
      · simp [hxy, hyx] at h1
      · simp only [hxy, hyx, if_false] at h1
        have hxy' : x = y := by omega
        subst hxy'
        by_cases hxz : x < z
        · simp [hxz]
        · by_cases hzx : z < x
          · simp [hxz, hzx] at h2
          · simp only [hxz, hzx, if_false] at h2 ⊢
            exact bytesLt_trans h1 h2

/-- Trichotomy: two byte strings neither of which is smaller are equal. -/
theorem bytesLt_total : ∀ {a b : Bytes}, bytesLt a b = false → bytesLt b a = false → a = b
  | [], [], _, _ => rfl
  | [], _ :: _, h, _ => by simp [bytesLt] at h
  | _ :: _, [], _, h => by simp [bytesLt] at h
  | x :: xs, y :: ys, h1, h2 => by
    unfold bytesLt at h1 h2
    by_cases hxy : x < y
    · simp [hxy] at h1
    · by_cases hyx : y < x
      · simp [hyx] at h2
      · simp only [hxy, hyx, if_false] at h1 h2
        have : x = y := by omega
        subst this
        rw [bytesLt_total h1 h2]

theorem bytesLt_ne {a b : Bytes} (h : bytesLt a b = true) : a ≠ b := by
  intro e; subst e; rw [bytesLt_irrefl] at h; cases h

/-- A common prefix does not influence the comparison. -/
theorem bytesLt_append_left (p x y : Bytes) : bytesLt (p ++ x) (p ++ y) = bytesLt x y := by
  induction p with
  | nil => rfl
  | cons a p ih =>
    show bytesLt (a :: (p ++ x)) (a :: (p ++ y)) = _
    rw [bytesLt_cons]
    simp [ih]

/-- Comparison of concatenations whose first parts have equal length is lexicographic on the
    pair of parts. -/
theorem bytesLt_append_eqlen : ∀ (x y a b : Bytes), x.length = y.length →
    bytesLt (x ++ a) (y ++ b) =
      (if bytesLt x y then true else if bytesLt y x then false else bytesLt a b)
  | [], [], a, b, _ => by simp [bytesLt]
  | [], _ :: _, _, _, h => by simp at h
  | _ :: _, [], _, _, h => by simp at h
  | x :: xs, y :: ys, a, b, h => by
    have hl : xs.length = ys.length := by simpa using h
    show bytesLt (x :: (xs ++ a)) (y :: (ys ++ b)) = _
    rw [bytesLt_cons, bytesLt_cons, bytesLt_cons]
    by_cases hxy : x < y
    · simp [hxy]
    · by_cases hyx : y < x
      · simp [hxy, hyx]
      · simp only [hxy, hyx, if_false]
        exact bytesLt_append_eqlen xs ys a b hl

theorem beBytes_length (w n : Nat) : (beBytes w n).length = w := by
  induction w generalizing n with
  | zero => rfl
  | succ w ih => simp [beBytes, ih]

/-- Fixed-width big-endian encodings compare like the numbers they encode. -/
theorem bytesLt_beBytes : ∀ (w n m : Nat), n < 256 ^ w → m < 256 ^ w →
    bytesLt (beBytes w n) (beBytes w m) = decide (n < m)
  | 0, n, m, hn, hm => by
    have : n = 0 := by simpa using hn
    have : m = 0 := by simpa using hm
    subst_vars; rfl
  | w + 1, n, m, hn, hm => by
    have hn' : n / 256 < 256 ^ w := by
      rw [Nat.pow_succ] at hn; exact Nat.div_lt_of_lt_mul (by rw [Nat.mul_comm]; exact hn)
    have hm' : m / 256 < 256 ^ w := by
      rw [Nat.pow_succ] at hm; exact Nat.div_lt_of_lt_mul (by rw [Nat.mul_comm]; exact hm)
    unfold beBytes
    rw [bytesLt_append_eqlen _ _ _ _ (by simp [beBytes_length]),
      bytesLt_beBytes w _ _ hn' hm', bytesLt_beBytes w _ _ hm' hn']
    by_cases h1 : n / 256 < m / 256
    · have : n < m := by omega
      simp [h1, this]
    · by_cases h2 : m / 256 < n / 256
      · have : ¬ n < m := by omega
        simp [h1, h2, this]
      · simp only [h1, h2, decide_false]
        rw [bytesLt_cons]
        by_cases h3 : n % 256 < m % 256
        · have : n < m := by omega
          simp [h3, this]
        · have : ¬ n < m := by omega
          by_cases h4 : m % 256 < n % 256 <;> simp [h3, h4, this, bytesLt]

theorem beBytes_inj {w n m : Nat} (hn : n < 256 ^ w) (hm : m < 256 ^ w)
    (h : beBytes w n = beBytes w m) : n = m := by
  have h1 := bytesLt_beBytes w n m hn hm
  have h2 := bytesLt_beBytes w m n hm hn
  rw [h, bytesLt_irrefl] at h1
  rw [h, bytesLt_irrefl] at h2
  have : ¬ n < m := by simpa using h1.symm
  have : ¬ m < n := by simpa using h2.symm
  omega

theorem fill32_be8_length (f i : Nat) : (fill32 f ++ be8 i).length = 40 := by
  simp [fill32, be8, beBytes_length]

/-- `fill32 fee ++ be8 id` compares like the pair `(fee, id)`. -/
theorem bytesLt_fee_id {f f' i i' : Nat} (hf : f < 2 ^ 256) (hf' : f' < 2 ^ 256)
    (hi : i < 2 ^ 64) (hi' : i' < 2 ^ 64) :
    bytesLt (fill32 f ++ be8 i) (fill32 f' ++ be8 i') = true ↔ f < f' ∨ (f = f' ∧ i < i') := by
  have e32 : (256 : Nat) ^ 32 = 2 ^ 256 := by decide
  have e8 : (256 : Nat) ^ 8 = 2 ^ 64 := by decide
  unfold fill32 be8
  rw [bytesLt_append_eqlen _ _ _ _ (by simp [beBytes_length]),
    bytesLt_beBytes 32 f f' (by omega) (by omega), bytesLt_beBytes 32 f' f (by omega) (by omega),
    bytesLt_beBytes 8 i i' (by omega) (by omega)]
  by_cases h1 : f < f'
  · simp [h1]
  · by_cases h2 : f' < f
    · have : f ≠ f' := by omega
      simp [h1, h2, this]
    · have : f = f' := by omega
      simp [this]

theorem isPrefix_append (p x : Bytes) : isPrefix p (p ++ x) = true := by
  induction p with
  | nil => cases x <;> rfl
  | cons a p ih =>
    show isPrefix (a :: p) (a :: (p ++ x)) = true
    simp [isPrefix, ih]

/-! ### Lists kept sorted by a byte key -/

section Keyed
variable {α : Type} (key : α → Bytes)

/-- Strictly ascending by `key` w.r.t. `bytesLt`. -/
def KeySorted (l : List α) : Prop := l.Pairwise fun a b => bytesLt (key a) (key b) = true

/-- Keys pairwise distinct. -/
def KeysDistinct (l : List α) : Prop := l.Pairwise fun a b => key a ≠ key b

theorem KeySorted.distinct {l : List α} (h : KeySorted key l) : KeysDistinct key l :=
  List.Pairwise.imp (fun hab => bytesLt_ne hab) h

theorem KeysDistinct.eq_of_mem {l : List α} (h : KeysDistinct key l) {a b : α}
    (ha : a ∈ l) (hb : b ∈ l) (hk : key a = key b) : a = b := by
  induction l with
  | nil => cases ha
  | cons x xs ih =>
    rw [KeysDistinct, List.pairwise_cons] at h
    rcases List.mem_cons.mp ha with rfl | ha' <;> rcases List.mem_cons.mp hb with rfl | hb'
    · rfl
    · exact absurd hk (h.1 _ hb')
    · exact absurd hk.symm (h.1 _ ha')
    · exact ih h.2 ha' hb'

theorem eraseByKey_sublist (k : Bytes) (l : List α) : (eraseByKey key k l).Sublist l := by
  induction l with
  | nil => exact List.Sublist.refl _
  | cons y ys ih =>
    unfold eraseByKey
    split
    · exact List.sublist_cons_self y ys
    · exact ih.cons_cons y

theorem mem_of_mem_eraseByKey {k : Bytes} {l : List α} {u : α} (h : u ∈ eraseByKey key k l) : u ∈ l :=
  (eraseByKey_sublist key k l).subset h

theorem mem_eraseByKey_of_ne {k : Bytes} {l : List α} {u : α} (h : u ∈ l) (hk : key u ≠ k) :
    u ∈ eraseByKey key k l := by
  induction l with
  | nil => cases h
  | cons y ys ih =>
    unfold eraseByKey
    rcases List.mem_cons.mp h with rfl | h'
    · have : (key u == k) = false := by simpa using hk
      simp [this]
    · split
      · exact h'
      · exact List.mem_cons_of_mem _ (ih h')

theorem eraseByKey_eq_filter {k : Bytes} {l : List α} (h : KeysDistinct key l) :
    eraseByKey key k l = l.filter fun y => !(key y == k) := by
  induction l with
  | nil => rfl
  | cons y ys ih =>
    rw [KeysDistinct, List.pairwise_cons] at h
    unfold eraseByKey
    by_cases hy : key y = k
    · subst hy
      simp only [beq_self_eq_true, if_true, List.filter_cons, Bool.not_true]
      symm
      simp only [Bool.false_eq_true, if_false]
      rw [List.filter_eq_self]
      intro a ha
      have := h.1 a ha
      simpa using fun e => this e.symm
    · have : (key y == k) = false := by simpa using hy
      simp only [this, List.filter_cons, Bool.not_false, if_true]
      simp [ih h.2]

theorem eraseByKey_sorted {k : Bytes} {l : List α} (h : KeySorted key l) :
    KeySorted key (eraseByKey key k l) :=
  List.Pairwise.sublist (eraseByKey_sublist key k l) h

theorem eraseByKey_distinct {k : Bytes} {l : List α} (h : KeysDistinct key l) :
    KeysDistinct key (eraseByKey key k l) :=
  List.Pairwise.sublist (eraseByKey_sublist key k l) h

/-- After erasing `k` from a list with distinct keys no entry with key `k` is left. -/
theorem not_mem_eraseByKey {k : Bytes} {l : List α} (h : KeysDistinct key l) {u : α}
    (hu : u ∈ eraseByKey key k l) : key u ≠ k := by
  rw [eraseByKey_eq_filter key h, List.mem_filter] at hu
  simpa using hu.2

theorem mem_insertByKey_cases {x u : α} {l : List α} (h : u ∈ insertByKey key x l) : u = x ∨ u ∈ l := by
  induction l with
  | nil => simp [insertByKey] at h; exact Or.inl h
  | cons y ys ih =>
    unfold insertByKey at h
    split at h
    · rcases List.mem_cons.mp h with rfl | h'
      · exact Or.inl rfl
      · exact Or.inr h'
    · split at h
      · rcases List.mem_cons.mp h with rfl | h'
        · exact Or.inr (List.mem_cons_self)
        · rcases ih h' with e | m
          · exact Or.inl e
          · exact Or.inr (List.mem_cons_of_mem _ m)
      · rcases List.mem_cons.mp h with rfl | h'
        · exact Or.inl rfl
        · exact Or.inr (List.mem_cons_of_mem _ h')

/-- Inserting `x` keeps every entry whose key differs from the key of `x`. -/
theorem mem_insertByKey_of_ne {x u : α} {l : List α} (h : u ∈ l) (hk : key u ≠ key x) :
    u ∈ insertByKey key x l := by
  induction l with
  | nil => cases h
  | cons y ys ih =>
    unfold insertByKey
    split
    · exact List.mem_cons_of_mem _ h
    · rename_i h1
      split
      · rcases List.mem_cons.mp h with rfl | h'
        · exact List.mem_cons_self
        · exact List.mem_cons_of_mem _ (ih h')
      · rename_i h2
        have hxy : key x = key y :=
          bytesLt_total (by simpa using h1) (by simpa using h2)
        rcases List.mem_cons.mp h with rfl | h'
        · exact absurd hxy.symm hk
        · exact List.mem_cons_of_mem _ h'

theorem insertByKey_sorted {x : α} {l : List α} (h : KeySorted key l) :
    KeySorted key (insertByKey key x l) := by
  induction l with
  | nil => simp [insertByKey, KeySorted]
  | cons y ys ih =>
    rw [KeySorted, List.pairwise_cons] at h
    unfold insertByKey
    split
    · rename_i h1
      rw [KeySorted, List.pairwise_cons]
      refine ⟨?_, List.pairwise_cons.mpr h⟩
      intro a ha
      rcases List.mem_cons.mp ha with rfl | ha'
      · exact h1
      · exact bytesLt_trans h1 (h.1 a ha')
    · rename_i h1
      split
      · rename_i h2
        rw [KeySorted, List.pairwise_cons]
        refine ⟨?_, ih h.2⟩
        intro a ha
        rcases mem_insertByKey_cases key ha with rfl | ha'
        · exact h2
        · exact h.1 a ha'
      · rename_i h2
        have hxy : key x = key y :=
          bytesLt_total (by simpa using h1) (by simpa using h2)
        rw [KeySorted, List.pairwise_cons]
        refine ⟨?_, h.2⟩
        intro a ha
        rw [hxy]; exact h.1 a ha

end Keyed

/-- Pool keys pairwise distinct. -/
def PoolKeysDistinct (pool : List Ste) : Prop := KeysDistinct poolKey pool

/-- The pool is strictly ascending by `poolKey` w.r.t. the byte order `bytesLt` (the store's
    iteration order). -/
def PoolSorted (pool : List Ste) : Prop := KeySorted poolKey pool

theorem PoolSorted.keysDistinct {pool : List Ste} (h : PoolSorted pool) : PoolKeysDistinct pool :=
  KeySorted.distinct poolKey h

/-- Pool ids pairwise distinct: an id names one entry. -/
def PoolIdsDistinct (pool : List Ste) : Prop := ∀ u ∈ pool, ∀ v ∈ pool, u.id = v.id → u = v

/-! ### Frames -/

theorem chain_setChain_other (h : Hub) {c c' : String} (s : ChainSt) (hne : c ≠ c') :
    (h.setChain c s).chain c' = h.chain c' := by
  simp [Hub.chain, Hub.setChain, alGet_alSet_other _ _ _ _ hne]

@[simp] theorem setStatus_chain (h : Hub) (tx : String) (st : Nat) (o : String) (c : String) :
    (h.setStatus tx st o).chain c = h.chain c := rfl

/-- Marking a list of transfers only touches the status table. -/
theorem foldl_setStatus_frame (st : Nat) (l : List Ste) (h : Hub) :
    ∃ tbl, l.foldl (fun h s => h.setStatus s.txHash st "") h = { h with status := tbl } := by
  induction l generalizing h with
  | nil => exact ⟨h.status, rfl⟩
  | cons x xs ih =>
    obtain ⟨tbl, e⟩ := ih (h.setStatus x.txHash st "")
    exact ⟨tbl, by rw [List.foldl_cons, e]; rfl⟩

/-! ### Batch selection and `buildBatch` -/

theorem mem_selectForBatch {pool : List Ste} {tok : String} {maxN : Nat} {t : Ste}
    (h : t ∈ selectForBatch pool tok maxN) : t ∈ pool ∧ t.extToken = tok := by
  unfold selectForBatch at h
  have h := List.mem_of_mem_take h
  rw [List.mem_reverse, List.mem_filter] at h
  refine ⟨h.1, ?_⟩
  have := h.2
  simp only [Bool.and_eq_true, beq_iff_eq] at this
  exact this.2

theorem buildBatch_none {h h' : Hub} {chain tok : String} {maxN : Nat}
    (hb : h.buildBatch chain tok maxN = (h', none)) :
    h' = h ∧ selectForBatch (h.chain chain).pool tok maxN = [] := by
  unfold Hub.buildBatch at hb
  simp only at hb
  split at hb
  · rename_i he
    simp only [Prod.mk.injEq, and_true] at hb
    exact ⟨hb.symm, by simpa using he⟩
  · simp at hb

theorem buildBatch_some {h h' : Hub} {chain tok : String} {maxN : Nat} {b : Batch}
    (hb : h.buildBatch chain tok maxN = (h', some b)) :
    selectForBatch (h.chain chain).pool tok maxN ≠ [] ∧
    b.txs = selectForBatch (h.chain chain).pool tok maxN ∧ b.extToken = tok ∧
    b.nonce = (h.chain chain).lastBatchNonce + 1 ∧ b.seq = (h.chain chain).outSeq + 1 ∧
    b.height = h.height ∧
    (h'.chain chain).pool =
      (selectForBatch (h.chain chain).pool tok maxN).foldl
        (fun p s => eraseByKey poolKey (poolKey s) p) (h.chain chain).pool ∧
    (h'.chain chain).lastBatchNonce = (h.chain chain).lastBatchNonce + 1 ∧
    (h'.chain chain).outSeq = (h.chain chain).outSeq + 1 ∧
    (h'.chain chain).batches = insertByKey batchKey b (h.chain chain).batches ∧
    (h'.chain chain).lastSteId = (h.chain chain).lastSteId ∧
    (∀ c', chain ≠ c' → h'.chain c' = h.chain c') ∧
    h'.bal = h.bal ∧ h'.supply = h.supply := by
  unfold Hub.buildBatch at hb
  simp only at hb
  split at hb
  · simp at hb
  · rename_i hne
    simp only [Prod.mk.injEq, Option.some.injEq] at hb
    obtain ⟨h1, h2⟩ := hb
    obtain ⟨tbl, e⟩ := foldl_setStatus_frame stBatchCreated
      (selectForBatch (h.chain chain).pool tok maxN) h
    rw [e] at h1 h2
    subst h1 h2
    refine ⟨by simpa using hne, rfl, rfl, rfl, rfl, rfl, ?_, ?_, ?_, ?_, ?_, ?_, rfl, rfl⟩
    · rw [chain_setChain]
    · rw [chain_setChain]
    · rw [chain_setChain]
    · rw [chain_setChain]
    · rw [chain_setChain]
    · intro c' hne'
      rw [chain_setChain_other _ _ hne']; rfl


/-! ### Structure of `cancelSte` -/

/-- The entry `cancelSendToExternal` finds for an id. -/
def Hub.cancelLookup (h : Hub) (chain : String) (id : Nat) : Option Ste :=
  ((h.chain chain).pool.reverse.filter (fun s => s.id == id)).getLast?

/-- Mint `total` of `denom` and credit it to `acc` (nothing happens for a zero amount). -/
def Hub.refundCredit (h : Hub) (acc denom : String) (total : Int) : Hub :=
  let hMint : Hub :=
    if total == 0 then h else { h with supply := alSet h.supply denom (h.supplyOf denom + total) }
  if total == 0 then hMint else hMint.credit acc denom total

/-- Last step of a cancellation: mark refunded, delete the pool entry. -/
def Hub.cancelFinish (h' : Hub) (chain : String) (s : Ste) : Hub :=
  let h' := h'.setStatus s.txHash stRefunded ""
  let c' := h'.chain chain
  h'.setChain chain { c' with pool := eraseByKey poolKey (poolKey s) c'.pool }

theorem cancelSte_eq (h : Hub) (chain : String) (id : Nat) (sender : String) :
    h.cancelSte chain id sender =
      match h.cancelLookup chain id with
      | none => (h, some (.fail "id not found in send to external pool"))
      | some s =>
        if sender != s.sender then (h, some (.fail "can't cancel a message you didn't send"))
        else if h.refundValue chain s < 0 then (h, some (.panic "negative coin amount"))
        else if s.refundChain == "" then
          ((h.refundCredit moduleAcc (h.denomOfTokenId s.tokenId) (h.refundValue chain s)).cancelFinish chain s, none)
        else if s.refundChain == "hub" then
          ((h.refundCredit sender (h.denomOfTokenId s.tokenId) (h.refundValue chain s)).cancelFinish chain s, none)
        else
          match (h.refundCredit tempAddr (h.denomOfTokenId s.tokenId) (h.refundValue chain s)).createSte
              s.refundChain tempAddr s.refundAddr (h.denomOfTokenId s.tokenId) (h.refundValue chain s) 0 0 "#" "" "" with
          | .error e => (h.refundCredit tempAddr (h.denomOfTokenId s.tokenId) (h.refundValue chain s), some e)
          | .ok (h2, _) => (h2.cancelFinish chain s, none) := by
  rfl

theorem refundCredit_frame (h : Hub) (acc denom : String) (total : Int) :
    ∃ bal supply, h.refundCredit acc denom total = { h with bal := bal, supply := supply } := by
  unfold Hub.refundCredit
  by_cases ht : total = 0
  · exact ⟨h.bal, h.supply, by simp [ht]⟩
  · exact ⟨_, _, by simp only [ht, beq_iff_eq, if_false, Hub.credit]; rfl⟩

theorem refundCredit_balance (h : Hub) (acc denom : String) (total : Int) :
    (h.refundCredit acc denom total).balance acc denom = h.balance acc denom + total := by
  unfold Hub.refundCredit
  by_cases ht : total = 0
  · simp [ht]
  · simp [ht, Hub.credit, Hub.balance]

theorem refundCredit_balance_other (h : Hub) {acc denom acc' denom' : String} (total : Int)
    (hne : (acc, denom) ≠ (acc', denom')) :
    (h.refundCredit acc denom total).balance acc' denom' = h.balance acc' denom' := by
  unfold Hub.refundCredit
  by_cases ht : total = 0
  · simp [ht]
  · simp [ht, Hub.credit, Hub.balance, alGet_alSet_other _ _ _ _ hne]

theorem refundCredit_supply (h : Hub) (acc denom : String) (total : Int) :
    (h.refundCredit acc denom total).supplyOf denom = h.supplyOf denom + total := by
  unfold Hub.refundCredit
  by_cases ht : total = 0
  · simp [ht]
  · simp [ht, Hub.credit, Hub.supplyOf]

theorem refundCredit_supply_other (h : Hub) {acc denom denom' : String} (total : Int)
    (hne : denom ≠ denom') :
    (h.refundCredit acc denom total).supplyOf denom' = h.supplyOf denom' := by
  unfold Hub.refundCredit
  by_cases ht : total = 0
  · simp [ht]
  · simp [ht, Hub.credit, Hub.supplyOf, alGet_alSet_other _ _ _ _ hne]

theorem cancelFinish_pool (h : Hub) (chain : String) (s : Ste) :
    ((h.cancelFinish chain s).chain chain).pool = eraseByKey poolKey (poolKey s) (h.chain chain).pool := by
  unfold Hub.cancelFinish
  simp only [chain_setChain, setStatus_chain]

theorem cancelFinish_chain_other (h : Hub) {chain c' : String} (s : Ste) (hne : chain ≠ c') :
    (h.cancelFinish chain s).chain c' = h.chain c' := by
  unfold Hub.cancelFinish
  simp only [chain_setChain_other _ _ hne, setStatus_chain]

@[simp] theorem cancelFinish_bal (h : Hub) (chain : String) (s : Ste) :
    (h.cancelFinish chain s).bal = h.bal := rfl
@[simp] theorem cancelFinish_supply (h : Hub) (chain : String) (s : Ste) :
    (h.cancelFinish chain s).supply = h.supply := rfl
@[simp] theorem cancelFinish_time (h : Hub) (chain : String) (s : Ste) :
    (h.cancelFinish chain s).time = h.time := rfl
@[simp] theorem cancelFinish_params (h : Hub) (chain : String) (s : Ste) :
    (h.cancelFinish chain s).params = h.params := rfl
theorem cancelFinish_lastSteId (h : Hub) (chain : String) (s : Ste) :
    ((h.cancelFinish chain s).chain chain).lastSteId = (h.chain chain).lastSteId := by
  unfold Hub.cancelFinish
  simp only [chain_setChain, setStatus_chain]

theorem cancelLookup_some {h : Hub} {chain : String} {id : Nat} {s : Ste}
    (hl : h.cancelLookup chain id = some s) : s ∈ (h.chain chain).pool ∧ s.id = id := by
  unfold Hub.cancelLookup at hl
  have := List.mem_of_getLast? hl
  rw [List.mem_filter, List.mem_reverse] at this
  exact ⟨this.1, by simpa using this.2⟩

theorem cancelLookup_none {h : Hub} {chain : String} {id : Nat}
    (hl : h.cancelLookup chain id = none) : ∀ s ∈ (h.chain chain).pool, s.id ≠ id := by
  unfold Hub.cancelLookup at hl
  rw [List.getLast?_eq_none_iff] at hl
  intro s hs hid
  have : s ∈ List.filter (fun s => s.id == id) (h.chain chain).pool.reverse := by
    rw [List.mem_filter, List.mem_reverse]; exact ⟨hs, by simpa using hid⟩
  rw [hl] at this; cases this

/-- The entry written by `createSte`. -/
def Hub.newSte (h : Hub) (chain sender recipient : String) (tok : TokenInfo) (amount fee comm : Int)
    (txHash refundChain refundAddr : String) : Ste :=
  { id := (h.chain chain).lastSteId + 1, sender := sender, recipient := recipient, tokenId := tok.id,
    extToken := tok.extId,
    amount := h.toExternal chain tok.extId amount,
    fee := h.toExternal chain tok.extId fee,
    comm := h.toExternal chain tok.extId comm,
    chain := chain, txHash := txHash, createdAt := h.time,
    refundAddr := refundAddr, refundChain := refundChain }

theorem createSte_ok {h h' : Hub} {chain sender rcp denom tx rc ra : String} {amount fee comm : Int} {n : Nat}
    (hc : h.createSte chain sender rcp denom amount fee comm tx rc ra = .ok (h', n)) :
    ∃ tok hb, h.tokenByDenom chain denom = some tok ∧
      h.burnFrom sender denom (amount + fee + comm) = .ok hb ∧
      n = (hb.chain chain).lastSteId + 1 ∧
      h' = hb.setChain chain { hb.chain chain with
              lastSteId := n,
              pool := insertByKey poolKey (hb.newSte chain sender rcp tok amount fee comm tx rc ra)
                        (hb.chain chain).pool } := by
  unfold Hub.createSte at hc
  simp only [bind, Except.bind] at hc
  split at hc
  · rename_i tok htok
    split at hc
    · simp at hc
    · rename_i hb hhb
      simp only [pure, Except.pure, Except.ok.injEq, Prod.mk.injEq] at hc
      exact ⟨tok, hb, htok, hhb, hc.2.symm, by rw [← hc.1, ← hc.2]; rfl⟩
  · simp [failM] at hc


/-- Shape of a successful `cancelSte`. -/
theorem cancelSte_none {h h' : Hub} {chain sender : String} {id : Nat}
    (hc : h.cancelSte chain id sender = (h', none)) :
    ∃ s, h.cancelLookup chain id = some s ∧ sender = s.sender ∧ 0 ≤ h.refundValue chain s ∧
      ((s.refundChain = "" ∧
          h' = (h.refundCredit moduleAcc (h.denomOfTokenId s.tokenId) (h.refundValue chain s)).cancelFinish chain s) ∨
       (s.refundChain = "hub" ∧
          h' = (h.refundCredit sender (h.denomOfTokenId s.tokenId) (h.refundValue chain s)).cancelFinish chain s) ∨
       (s.refundChain ≠ "" ∧ s.refundChain ≠ "hub" ∧ ∃ h2 n,
          (h.refundCredit tempAddr (h.denomOfTokenId s.tokenId) (h.refundValue chain s)).createSte
            s.refundChain tempAddr s.refundAddr (h.denomOfTokenId s.tokenId) (h.refundValue chain s) 0 0 "#" "" ""
            = .ok (h2, n) ∧
          h' = h2.cancelFinish chain s)) := by
  rw [cancelSte_eq] at hc
  split at hc
  · simp at hc
  · rename_i s hs
    refine ⟨s, hs, ?_⟩
    split at hc
    · simp at hc
    · rename_i hsender
      have hsender : sender = s.sender := by simpa using hsender
      split at hc
      · simp at hc
      · rename_i hneg
        refine ⟨hsender, by omega, ?_⟩
        split at hc
        · rename_i hrc
          simp only [Prod.mk.injEq, and_true] at hc
          exact Or.inl ⟨by simpa using hrc, hc.symm⟩
        · rename_i hrc
          split at hc
          · rename_i hrc2
            simp only [Prod.mk.injEq, and_true] at hc
            exact Or.inr (Or.inl ⟨by simpa using hrc2, hc.symm⟩)
          · rename_i hrc2
            split at hc
            · simp at hc
            · rename_i h2 n hcr
              simp only [Prod.mk.injEq, and_true] at hc
              exact Or.inr (Or.inr ⟨by simpa using hrc, by simpa using hrc2, h2, n, hcr, hc.symm⟩)

/-- A failing `cancelSte` leaves every chain state, the clock and the parameters alone. -/
theorem cancelSte_some {h h' : Hub} {chain sender : String} {id : Nat} {e : Err}
    (hc : h.cancelSte chain id sender = (h', some e)) :
    h'.cs = h.cs ∧ h'.time = h.time ∧ h'.params = h.params := by
  rw [cancelSte_eq] at hc
  split at hc
  · simp only [Prod.mk.injEq] at hc; rw [← hc.1]; exact ⟨rfl, rfl, rfl⟩
  · split at hc
    · simp only [Prod.mk.injEq] at hc; rw [← hc.1]; exact ⟨rfl, rfl, rfl⟩
    · split at hc
      · simp only [Prod.mk.injEq] at hc; rw [← hc.1]; exact ⟨rfl, rfl, rfl⟩
      · split at hc
        · simp at hc
        · split at hc
          · simp at hc
          · split at hc
            · simp only [Prod.mk.injEq] at hc
              rw [← hc.1]
              generalize hd : Hub.denomOfTokenId h _ = d
              generalize hv : Hub.refundValue h chain _ = v
              obtain ⟨b, su, e⟩ := refundCredit_frame h tempAddr d v
              rw [e]; exact ⟨rfl, rfl, rfl⟩
            · simp at hc


theorem burnFrom_frame {h h' : Hub} {acc d : String} {amt : Int} (hm : h.burnFrom acc d amt = .ok h') :
    ∃ bal supply, h' = { h with bal := bal, supply := supply } := by
  unfold Hub.burnFrom at hm
  split at hm
  · simp [failM] at hm
  · split at hm
    · simp [failM] at hm
    · simp only [Except.ok.injEq] at hm
      exact ⟨_, _, hm.symm⟩

theorem createSte_batches {h h' : Hub} {chain sender rcp denom tx rc ra : String} {amount fee comm : Int}
    {n : Nat} (hc : h.createSte chain sender rcp denom amount fee comm tx rc ra = .ok (h', n)) :
    (h'.chain chain).batches = (h.chain chain).batches := by
  obtain ⟨tok, hb, _, hburn, _, he⟩ := createSte_ok hc
  obtain ⟨bal, sup, hfr⟩ := burnFrom_frame hburn
  subst hfr
  subst he
  rw [chain_setChain]; rfl

/-- What `createSte` does to the chain states: one insertion into the pool of `chain`, the id
    counter of `chain` advanced by one, every other chain untouched. -/
theorem createSte_chains {h h' : Hub} {chain sender rcp denom tx rc ra : String} {amount fee comm : Int}
    {n : Nat} (hc : h.createSte chain sender rcp denom amount fee comm tx rc ra = .ok (h', n)) :
    ∃ new : Ste, new.id = (h.chain chain).lastSteId + 1 ∧ new.recipient = rcp ∧ new.sender = sender ∧
      new.refundChain = rc ∧ new.refundAddr = ra ∧ new.txHash = tx ∧ new.chain = chain ∧
      (∃ tok, h.tokenByDenom chain denom = some tok ∧ new.extToken = tok.extId ∧ new.tokenId = tok.id ∧
        new.amount = h.toExternal chain tok.extId amount ∧ new.fee = h.toExternal chain tok.extId fee ∧
        new.comm = h.toExternal chain tok.extId comm) ∧
      (h'.chain chain).pool = insertByKey poolKey new (h.chain chain).pool ∧
      (h'.chain chain).lastSteId = (h.chain chain).lastSteId + 1 ∧
      (h'.chain chain).lastBatchNonce = (h.chain chain).lastBatchNonce ∧
      (h'.chain chain).outSeq = (h.chain chain).outSeq ∧
      (∀ c', chain ≠ c' → h'.chain c' = h.chain c') ∧
      h'.time = h.time ∧ h'.params = h.params ∧
      h.burnFrom sender denom (amount + fee + comm) = .ok { h' with cs := h.cs } := by
  obtain ⟨tok, hb, htok, hburn, hn, he⟩ := createSte_ok hc
  obtain ⟨bal, sup, hfr⟩ := burnFrom_frame hburn
  subst hfr
  subst he
  refine ⟨Hub.newSte { h with bal := bal, supply := sup } chain sender rcp tok amount fee comm tx rc ra,
    rfl, rfl, rfl, rfl, rfl, rfl, rfl, ⟨tok, htok, rfl, rfl, rfl, rfl, rfl⟩, ?_, ?_, ?_, ?_, ?_, rfl, rfl, ?_⟩
  · rw [chain_setChain]; rfl
  · rw [chain_setChain, hn]; rfl
  · rw [chain_setChain]; rfl
  · rw [chain_setChain]; rfl
  · intro c' hne; rw [chain_setChain_other _ _ hne]; rfl
  · rw [hburn]; rfl


theorem refundCredit_chain (h : Hub) (acc denom : String) (total : Int) (c : String) :
    (h.refundCredit acc denom total).chain c = h.chain c := by
  obtain ⟨b, su, e⟩ := refundCredit_frame h acc denom total
  rw [e]; rfl

theorem refundCredit_time_params (h : Hub) (acc denom : String) (total : Int) :
    (h.refundCredit acc denom total).time = h.time ∧ (h.refundCredit acc denom total).params = h.params := by
  obtain ⟨b, su, e⟩ := refundCredit_frame h acc denom total
  rw [e]; exact ⟨rfl, rfl⟩

/-- What a successful `cancelSte` does to the pool of `chain`: the entry's key is erased; only a
    refund routed to `chain` itself inserts a new entry (with the next id) first. -/
theorem cancelSte_none_pool {h h' : Hub} {chain sender : String} {id : Nat}
    (hc : h.cancelSte chain id sender = (h', none)) :
    ∃ s, h.cancelLookup chain id = some s ∧ sender = s.sender ∧
      h'.time = h.time ∧ h'.params = h.params ∧
      (((s.refundChain = "" ∨ s.refundChain = "hub" ∨ s.refundChain ≠ chain) ∧
          (h'.chain chain).pool = eraseByKey poolKey (poolKey s) (h.chain chain).pool ∧
          (h'.chain chain).lastSteId = (h.chain chain).lastSteId) ∨
       (s.refundChain = chain ∧ s.refundChain ≠ "" ∧ s.refundChain ≠ "hub" ∧
          ∃ new : Ste, new.id = (h.chain chain).lastSteId + 1 ∧
            (h'.chain chain).pool =
              eraseByKey poolKey (poolKey s) (insertByKey poolKey new (h.chain chain).pool) ∧
            (h'.chain chain).lastSteId = (h.chain chain).lastSteId + 1)) := by
  obtain ⟨s, hl, hsnd, _, hcases⟩ := cancelSte_none hc
  refine ⟨s, hl, hsnd, ?_⟩
  rcases hcases with ⟨hrc, he⟩ | ⟨hrc, he⟩ | ⟨hrc1, hrc2, h2, n, hcr, he⟩
  · subst he
    refine ⟨(refundCredit_time_params _ _ _ _).1, (refundCredit_time_params _ _ _ _).2, Or.inl ⟨Or.inl hrc, ?_, ?_⟩⟩
    · rw [cancelFinish_pool, refundCredit_chain]
    · rw [cancelFinish_lastSteId, refundCredit_chain]
  · subst he
    refine ⟨(refundCredit_time_params _ _ _ _).1, (refundCredit_time_params _ _ _ _).2,
      Or.inl ⟨Or.inr (Or.inl hrc), ?_, ?_⟩⟩
    · rw [cancelFinish_pool, refundCredit_chain]
    · rw [cancelFinish_lastSteId, refundCredit_chain]
  · subst he
    obtain ⟨new, hid, _, _, _, _, _, _, _, hpool, hlast, _, _, hother, htime, hparams, _⟩ := createSte_chains hcr
    refine ⟨by rw [cancelFinish_time, htime]; exact (refundCredit_time_params _ _ _ _).1,
      by rw [cancelFinish_params, hparams]; exact (refundCredit_time_params _ _ _ _).2, ?_⟩
    by_cases hsame : s.refundChain = chain
    · right
      refine ⟨hsame, hrc1, hrc2, new, ?_, ?_, ?_⟩
      · rw [hid, refundCredit_chain, hsame]
      · rw [cancelFinish_pool, ← hsame, hpool, refundCredit_chain]
      · rw [cancelFinish_lastSteId, ← hsame, hlast, refundCredit_chain]
    · left
      refine ⟨Or.inr (Or.inr hsame), ?_, ?_⟩
      · rw [cancelFinish_pool, hother chain hsame, refundCredit_chain]
      · rw [cancelFinish_lastSteId, hother chain hsame, refundCredit_chain]


theorem toExternal_zero (h : Hub) (c e : String) : h.toExternal c e 0 = 0 := by
  unfold Hub.toExternal
  split
  · rfl
  · simp [toExt, convertDecimals]

theorem refundCredit_tokens (h : Hub) (acc denom : String) (total : Int) :
    (h.refundCredit acc denom total).tokens = h.tokens := by
  obtain ⟨b, su, e⟩ := refundCredit_frame h acc denom total
  rw [e]

theorem strBytes_fill32_length (t : String) (f : Nat) :
    (strBytes t ++ fill32 f).length = (strBytes t).length + 32 := by
  simp [fill32, beBytes_length]

/-- Equal pool keys have equal id bytes. -/
theorem poolKey_eq_be8 {a b : Ste} (h : poolKey a = poolKey b) : be8 a.id = be8 b.id := by
  unfold poolKey at h
  have hl := congrArg List.length h
  simp only [List.length_append, be8, fill32, beBytes_length] at hl
  exact (List.append_inj h (by simp only [List.length_append, fill32, beBytes_length]; omega)).2

theorem poolKey_ne_of_id {a b : Ste} (ha : a.id < 2 ^ 64) (hb : b.id < 2 ^ 64) (hne : a.id ≠ b.id) :
    poolKey a ≠ poolKey b := by
  intro h
  have e8 : (256 : Nat) ^ 8 = 2 ^ 64 := by decide
  exact hne (beBytes_inj (w := 8) (by omega) (by omega) (poolKey_eq_be8 h))


/-! ### The expiry loop -/

/-- The expiry test of `refundExpiredTxs` (strict). -/
def Hub.expired (h : Hub) (s : Ste) : Bool :=
  decide (s.createdAt * 1000 + h.params.outgoingTimeoutMs < h.time * 1000)

/-- One attempted refund of the expiry loop: plain failures are swallowed, panics abort. -/
def Hub.expiryStep (chain : String) (h : Hub) (s : Ste) : M Hub :=
  match h.cancelSte chain s.id s.sender with
  | (h', none) => pure h'
  | (h', some (.fail _)) => pure h'
  | (_, some e) => .error e

def Hub.expiryStepAll (chain : String) (h : Hub) (s : Ste) : M Hub :=
  if s.createdAt * 1000 + h.params.outgoingTimeoutMs < h.time * 1000 then h.expiryStep chain s else pure h

theorem refundExpired_eq (h : Hub) (chain : String) :
    h.refundExpired chain = (h.chain chain).pool.reverse.foldlM (Hub.expiryStepAll chain) h := rfl

theorem expiryStep_ok {h h1 : Hub} {chain : String} {s : Ste} (hs : h.expiryStep chain s = .ok h1) :
    h.cancelSte chain s.id s.sender = (h1, none) ∨ ∃ e, h.cancelSte chain s.id s.sender = (h1, some e) := by
  unfold Hub.expiryStep at hs
  split at hs
  · rename_i h' heq
    simp only [pure, Except.pure, Except.ok.injEq] at hs
    subst hs; exact Or.inl heq
  · rename_i h' m heq
    simp only [pure, Except.pure, Except.ok.injEq] at hs
    subst hs; exact Or.inr ⟨_, heq⟩
  · simp at hs

theorem expiryStep_time_params {h h1 : Hub} {chain : String} {s : Ste} (hs : h.expiryStep chain s = .ok h1) :
    h1.time = h.time ∧ h1.params = h.params := by
  rcases expiryStep_ok hs with hc | ⟨e, hc⟩
  · obtain ⟨_, _, _, ht, hp, _⟩ := cancelSte_none_pool hc
    exact ⟨ht, hp⟩
  · exact (cancelSte_some hc).2

theorem foldlM_expiry_filter (chain : String) (h : Hub) (l : List Ste) (h0 : Hub)
    (ht : h0.time = h.time) (hp : h0.params = h.params) :
    l.foldlM (Hub.expiryStepAll chain) h0 = (l.filter h.expired).foldlM (Hub.expiryStep chain) h0 := by
  induction l generalizing h0 with
  | nil => rfl
  | cons s l ih =>
    rw [List.foldlM_cons, List.filter_cons]
    unfold Hub.expiryStepAll Hub.expired
    rw [ht, hp]
    by_cases hexp : s.createdAt * 1000 + h.params.outgoingTimeoutMs < h.time * 1000
    · simp only [hexp, if_true, decide_true, List.foldlM_cons]
      cases hs : h0.expiryStep chain s with
      | error e => rfl
      | ok h1 =>
        obtain ⟨ht1, hp1⟩ := expiryStep_time_params hs
        exact ih h1 (by rw [ht1, ht]) (by rw [hp1, hp])
    · simp only [hexp, if_false, decide_false]
      exact ih h0 ht hp


/-- Invariant of the expiry loop w.r.t. a pool entry `u` that is not cancelled: the pool stays in
    store order, ids stay below the id counter, the counter has room for `n` more refund entries
    before wrapping in 8 bytes, and `u` is still there. -/
structure ExpInv (chain : String) (u : Ste) (n : Nat) (h0 : Hub) : Prop where
  sorted : PoolSorted (h0.chain chain).pool
  bounded : ∀ v ∈ (h0.chain chain).pool, v.id ≤ (h0.chain chain).lastSteId
  room : (h0.chain chain).lastSteId + n < 2 ^ 64
  mem : u ∈ (h0.chain chain).pool

theorem expiryStep_inv {chain : String} {u s : Ste} {n : Nat} {h0 h1 : Hub}
    (hinv : ExpInv chain u (n + 1) h0) (hne : s.id ≠ u.id) (hs : h0.expiryStep chain s = .ok h1) :
    ExpInv chain u n h1 := by
  obtain ⟨hsorted, hbound, hroom, hmem⟩ := hinv
  rcases expiryStep_ok hs with hc | ⟨e, hc⟩
  · obtain ⟨s', hl, _, _, _, hcases⟩ := cancelSte_none_pool hc
    obtain ⟨hs'mem, hs'id⟩ := cancelLookup_some hl
    have hkey : poolKey u ≠ poolKey s' := by
      intro hk
      have := KeysDistinct.eq_of_mem poolKey (KeySorted.distinct poolKey hsorted) hmem hs'mem hk
      rw [this] at hne; exact hne hs'id.symm
    rcases hcases with ⟨_, hp, hlast⟩ | ⟨_, _, _, new, hnew, hp, hlast⟩
    · refine ⟨?_, ?_, ?_, ?_⟩
      · rw [hp]; exact eraseByKey_sorted poolKey hsorted
      · intro v hv; rw [hp] at hv; rw [hlast]
        exact hbound v (mem_of_mem_eraseByKey poolKey hv)
      · rw [hlast]; omega
      · rw [hp]; exact mem_eraseByKey_of_ne poolKey hmem hkey
    · refine ⟨?_, ?_, ?_, ?_⟩
      · rw [hp]; exact eraseByKey_sorted poolKey (insertByKey_sorted poolKey hsorted)
      · intro v hv; rw [hp] at hv; rw [hlast]
        rcases mem_insertByKey_cases poolKey (mem_of_mem_eraseByKey poolKey hv) with e | hv'
        · rw [e, hnew]; omega
        · have := hbound v hv'; omega
      · rw [hlast]; omega
      · rw [hp]
        refine mem_eraseByKey_of_ne poolKey (mem_insertByKey_of_ne poolKey hmem ?_) hkey
        have := hbound u hmem
        exact poolKey_ne_of_id (by omega) (by omega) (by omega)
  · have hcs := (cancelSte_some hc).1
    have hch : h1.chain chain = h0.chain chain := by simp only [Hub.chain, hcs]
    exact ⟨by rw [hch]; exact hsorted, by rw [hch]; exact hbound, by rw [hch]; omega, by rw [hch]; exact hmem⟩

theorem foldlM_expiry_inv {chain : String} {u : Ste} (l : List Ste) {h0 h' : Hub}
    (hinv : ExpInv chain u l.length h0) (hne : ∀ s ∈ l, s.id ≠ u.id)
    (hok : l.foldlM (Hub.expiryStep chain) h0 = .ok h') : ExpInv chain u 0 h' := by
  induction l generalizing h0 with
  | nil =>
    simp only [List.foldlM_nil, pure, Except.pure, Except.ok.injEq] at hok
    subst hok; exact hinv
  | cons s l ih =>
    rw [List.foldlM_cons] at hok
    cases hs : h0.expiryStep chain s with
    | error e => rw [hs] at hok; simp [bind, Except.bind] at hok
    | ok h1 =>
      rw [hs] at hok
      exact ih (expiryStep_inv hinv (hne s List.mem_cons_self) hs)
        (fun s' hs' => hne s' (List.mem_cons_of_mem _ hs')) hok


/-! ### Erasing a selection -/

theorem foldl_eraseByKey_eq_filter {α : Type} (key : α → Bytes) (sel l : List α)
    (hd : KeysDistinct key l) :
    sel.foldl (fun p s => eraseByKey key (key s) p) l =
      l.filter fun u => !(sel.any fun s => key u == key s) := by
  induction sel generalizing l with
  | nil =>
    simp only [List.foldl_nil, List.any_nil, Bool.not_false]
    exact (List.filter_eq_self.mpr (fun _ _ => rfl)).symm
  | cons t sel ih =>
    rw [List.foldl_cons, ih _ (eraseByKey_distinct key hd), eraseByKey_eq_filter key hd,
      List.filter_filter]
    apply List.filter_congr
    intro u _
    simp only [List.any_cons, Bool.not_or, Bool.and_comm]

theorem foldl_eraseByKey_eq_filter_mem {α : Type} [BEq α] [LawfulBEq α] (key : α → Bytes) (sel l : List α)
    (hd : KeysDistinct key l) (hsub : ∀ t ∈ sel, t ∈ l) :
    sel.foldl (fun p s => eraseByKey key (key s) p) l = l.filter fun u => decide (u ∉ sel) := by
  rw [foldl_eraseByKey_eq_filter key sel l hd]
  apply List.filter_congr
  intro u hu
  by_cases hmem : u ∈ sel
  · have : (sel.any fun s => key u == key s) = true := by
      rw [List.any_eq_true]; exact ⟨u, hmem, by simp⟩
    simp [this, hmem]
  · have : (sel.any fun s => key u == key s) = false := by
      rw [List.any_eq_false]
      intro s hs hk
      have hk : key u = key s := by simpa using hk
      exact hmem (by rw [KeysDistinct.eq_of_mem key hd hu (hsub s hs) hk]; exact hs)
    simp [this, hmem]


/-! ### The selection takes the top of the token's key range -/

/-- The filter applied by `selectForBatch`. -/
def batchFilter (tok : String) (s : Ste) : Bool :=
  isPrefix (strBytes tok) (poolKey s) && s.extToken == tok

theorem poolKey_assoc (s : Ste) :
    poolKey s = strBytes s.extToken ++ (fill32 s.fee.natAbs ++ be8 s.id) := by
  unfold poolKey; rw [List.append_assoc]

theorem batchFilter_of_token {tok : String} {s : Ste} (h : s.extToken = tok) : batchFilter tok s = true := by
  unfold batchFilter
  rw [poolKey_assoc, h, isPrefix_append]
  simp

theorem selectForBatch_eq (pool : List Ste) (tok : String) (maxN : Nat) :
    selectForBatch pool tok maxN =
      ((pool.filter (batchFilter tok)).drop ((pool.filter (batchFilter tok)).length - maxN)).reverse := by
  unfold selectForBatch
  rw [List.take_reverse]
  rfl

theorem selectForBatch_length (pool : List Ste) (tok : String) (maxN : Nat) :
    (selectForBatch pool tok maxN).length = min maxN (pool.filter (batchFilter tok)).length := by
  rw [selectForBatch_eq, List.length_reverse, List.length_drop]
  omega

/-- Everything of the token that is left behind has a smaller key than everything selected. -/
theorem selectForBatch_lt {pool : List Ste} {tok : String} {maxN : Nat} {t u : Ste}
    (hs : PoolSorted pool) (ht : t ∈ selectForBatch pool tok maxN)
    (hu : u ∈ pool) (hutok : u.extToken = tok) (hun : u ∉ selectForBatch pool tok maxN) :
    bytesLt (poolKey u) (poolKey t) = true := by
  rw [selectForBatch_eq] at ht hun
  rw [List.mem_reverse] at ht hun
  have hF : KeySorted poolKey (pool.filter (batchFilter tok)) := List.Pairwise.filter _ hs
  have huF : u ∈ pool.filter (batchFilter tok) := List.mem_filter.mpr ⟨hu, batchFilter_of_token hutok⟩
  generalize pool.filter (batchFilter tok) = F at *
  generalize F.length - maxN = k at *
  rw [← List.take_append_drop k F] at hF huF
  rcases List.mem_append.mp huF with h1 | h1
  · exact (List.pairwise_append.mp hF).2.2 u h1 t ht
  · exact absurd h1 hun

/-- If the batch is not full, nothing of the token is left behind. -/
theorem selectForBatch_all {pool : List Ste} {tok : String} {maxN : Nat} {u : Ste}
    (hlen : (selectForBatch pool tok maxN).length < maxN)
    (hu : u ∈ pool) (hutok : u.extToken = tok) : u ∈ selectForBatch pool tok maxN := by
  have hl := selectForBatch_length pool tok maxN
  have hk : (pool.filter (batchFilter tok)).length - maxN = 0 := by omega
  rw [selectForBatch_eq, hk, List.drop_zero, List.mem_reverse]
  exact List.mem_filter.mpr ⟨hu, batchFilter_of_token hutok⟩

/-- Key order of two entries of the same token is the order of `(fee, id)`. -/
theorem poolKey_lt_iff {u t : Ste} (htok : u.extToken = t.extToken)
    (hfu : 0 ≤ u.fee ∧ u.fee < 2 ^ 256) (hft : 0 ≤ t.fee ∧ t.fee < 2 ^ 256)
    (hiu : u.id < 2 ^ 64) (hit : t.id < 2 ^ 64) :
    bytesLt (poolKey u) (poolKey t) = true ↔ u.fee < t.fee ∨ (u.fee = t.fee ∧ u.id < t.id) := by
  rw [poolKey_assoc, poolKey_assoc, htok, bytesLt_append_left,
    bytesLt_fee_id (by omega) (by omega) hiu hit]
  omega


/-! ### Strings as bytes, insertion sort, `eraseDups` -/

theorem byteArray_toList_loop (bs : ByteArray) (i : Nat) (r : List UInt8) :
    ByteArray.toList.loop bs i r = r.reverse ++ bs.data.toList.drop i := by
  induction hn : bs.size - i generalizing i r with
  | zero =>
    unfold ByteArray.toList.loop
    have : ¬ i < bs.size := by omega
    have hd : bs.data.toList.drop i = [] := by
      apply List.drop_eq_nil_of_le
      have : bs.data.toList.length = bs.size := by simp
      omega
    simp [this, hd]
  | succ n ih =>
    unfold ByteArray.toList.loop
    have hi : i < bs.size := by omega
    simp only [hi, if_true]
    rw [ih (i + 1) _ (by omega)]
    have hi' : i < bs.data.toList.length := by simpa using hi
    rw [List.drop_eq_getElem_cons hi']
    have : bs.get! i = bs.data.toList[i] := by
      cases bs with
      | mk d =>
        simp [ByteArray.get!]
        have : i < d.size := hi
        simp [getElem!_pos, this]
    rw [this]
    simp

theorem byteArray_toList (bs : ByteArray) : bs.toList = bs.data.toList := by
  unfold ByteArray.toList
  rw [byteArray_toList_loop]; simp

theorem strBytes_inj {a b : String} (h : strBytes a = strBytes b) : a = b := by
  unfold strBytes at h
  rw [List.map_inj_right (fun x y hxy => UInt8.toNat_inj.mp hxy)] at h
  rw [byteArray_toList, byteArray_toList, Array.toList_inj] at h
  exact String.toByteArray_inj.mp (ByteArray.ext h)

section Isort
variable {α : Type} (lt : α → α → Bool)

theorem isort_cons (x : α) (l : List α) : isort lt (x :: l) = insSorted lt x (isort lt l) := rfl

theorem mem_insSorted {x y : α} {l : List α} : y ∈ insSorted lt x l ↔ y = x ∨ y ∈ l := by
  induction l with
  | nil => simp [insSorted]
  | cons z zs ih =>
    unfold insSorted
    split
    · simp
    · simp only [List.mem_cons, ih]
      constructor
      · rintro (h | h | h)
        · exact Or.inr (Or.inl h)
        · exact Or.inl h
        · exact Or.inr (Or.inr h)
      · rintro (h | h | h)
        · exact Or.inr (Or.inl h)
        · exact Or.inl h
        · exact Or.inr (Or.inr h)

theorem mem_isort {y : α} {l : List α} : y ∈ isort lt l ↔ y ∈ l := by
  induction l with
  | nil => simp [isort]
  | cons x xs ih => rw [isort_cons, mem_insSorted, ih, List.mem_cons]

theorem insSorted_nodup {x : α} {l : List α} (hx : x ∉ l) (hl : l.Nodup) : (insSorted lt x l).Nodup := by
  induction l with
  | nil => simp [insSorted]
  | cons z zs ih =>
    rw [List.nodup_cons] at hl
    unfold insSorted
    split
    · exact List.nodup_cons.mpr ⟨hx, List.nodup_cons.mpr hl⟩
    · have hxz : x ≠ z := fun e => hx (by rw [e]; exact List.mem_cons_self)
      have hxzs : x ∉ zs := fun m => hx (List.mem_cons_of_mem _ m)
      refine List.nodup_cons.mpr ⟨?_, ih hxzs hl.2⟩
      rw [mem_insSorted]
      rintro (e | m)
      · exact hxz e.symm
      · exact hl.1 m

theorem isort_nodup {l : List α} (hl : l.Nodup) : (isort lt l).Nodup := by
  induction l with
  | nil => simp [isort]
  | cons x xs ih =>
    rw [List.nodup_cons] at hl
    rw [isort_cons]
    exact insSorted_nodup lt (by rw [mem_isort]; exact hl.1) (ih hl.2)

/-- Output of the insertion sort: no later element is smaller than an earlier one. -/
theorem insSorted_sorted (hasymm : ∀ a b, lt a b = true → lt b a = false)
    (htrans : ∀ a b c, lt a b = true → lt b c = true → lt a c = true)
    {x : α} {l : List α} (hl : l.Pairwise fun a b => lt b a = false) :
    (insSorted lt x l).Pairwise fun a b => lt b a = false := by
  induction l with
  | nil => simp [insSorted]
  | cons z zs ih =>
    rw [List.pairwise_cons] at hl
    unfold insSorted
    split
    · rename_i hxz
      refine List.pairwise_cons.mpr ⟨?_, List.pairwise_cons.mpr hl⟩
      intro a ha
      rcases List.mem_cons.mp ha with rfl | ha'
      · exact hasymm _ _ hxz
      · cases hax : lt a x with
        | false => rfl
        | true => have := htrans _ _ _ hax hxz; rw [hl.1 a ha'] at this; cases this
    · rename_i hxz
      refine List.pairwise_cons.mpr ⟨?_, ih hl.2⟩
      intro a ha
      rcases (mem_insSorted lt).mp ha with rfl | ha'
      · simpa using hxz
      · exact hl.1 a ha'

theorem isort_sorted (hasymm : ∀ a b, lt a b = true → lt b a = false)
    (htrans : ∀ a b c, lt a b = true → lt b c = true → lt a c = true) (l : List α) :
    (isort lt l).Pairwise fun a b => lt b a = false := by
  induction l with
  | nil => simp [isort]
  | cons x xs ih => rw [isort_cons]; exact insSorted_sorted lt hasymm htrans ih

end Isort

theorem nodup_eraseDups_aux {α : Type} [BEq α] [LawfulBEq α] :
    ∀ (n : Nat) (l : List α), l.length ≤ n → l.eraseDups.Nodup
  | 0, l, h => by
    have : l = [] := List.eq_nil_of_length_eq_zero (by omega)
    subst this; simp
  | n + 1, [], _ => by simp
  | n + 1, a :: as, h => by
    rw [List.eraseDups_cons, List.nodup_cons]
    constructor
    · rw [List.mem_eraseDups, List.mem_filter]
      simp
    · apply nodup_eraseDups_aux n
      have := List.length_filter_le (fun b => !b == a) as
      simp only [List.length_cons] at h
      omega

theorem nodup_eraseDups {α : Type} [BEq α] [LawfulBEq α] (l : List α) : l.eraseDups.Nodup :=
  nodup_eraseDups_aux l.length l (Nat.le_refl _)


/-- The token ids `createBatches` iterates over. -/
def batchTokenIds (pool : List Ste) : List String :=
  isort (fun a b => bytesLt (strBytes a) (strBytes b)) (pool.map (·.extToken)).eraseDups

theorem createBatches_eq (h : Hub) (chain : String) :
    h.createBatches chain =
      if h.height % 2 == 0 then
        (batchTokenIds (h.chain chain).pool).foldl (fun h id => (h.buildBatch chain id 100).1) h
      else h := rfl


/-! ### Functions that do not consume batch nonces or sequence numbers -/

/-- `u` is a transfer held by the chain state: in the pool or in a stored batch. -/
def ChainSt.Has (c : ChainSt) (u : Ste) : Prop := u ∈ c.pool ∨ ∃ b ∈ c.batches, u ∈ b.txs

/-- No id of a held transfer is ahead of the chain's id counter, and an id names one transfer. -/
def ChainSt.IdsBounded (c : ChainSt) : Prop :=
  (∀ u, c.Has u → u.id ≤ c.lastSteId) ∧ (∀ u v, c.Has u → c.Has v → u.id = v.id → u = v)

/-- Holding fewer transfers (with a counter that did not go back) keeps the ids well formed. -/
theorem ChainSt.IdsBounded.mono {a b : ChainSt} (hsub : ∀ u, b.Has u → a.Has u)
    (hle : a.lastSteId ≤ b.lastSteId) (ha : a.IdsBounded) : b.IdsBounded :=
  ⟨fun u hu => Nat.le_trans (ha.1 u (hsub u hu)) hle,
   fun u v hu hv e => ha.2 u v (hsub u hu) (hsub v hv) e⟩

/-- Adding one transfer under the next id keeps the ids well formed. -/
theorem ChainSt.IdsBounded.fresh {a b : ChainSt} {new : Ste}
    (hsub : ∀ u, b.Has u → u = new ∨ a.Has u) (hid : new.id = a.lastSteId + 1)
    (hl : b.lastSteId = a.lastSteId + 1) (ha : a.IdsBounded) : b.IdsBounded := by
  refine ⟨?_, ?_⟩
  · intro u hu
    rcases hsub u hu with e | h'
    · rw [e, hid, hl]; exact Nat.le_refl _
    · rw [hl]; exact Nat.le_succ_of_le (ha.1 u h')
  · intro u v hu hv e
    rcases hsub u hu with eu | hu' <;> rcases hsub v hv with ev | hv'
    · rw [eu, ev]
    · have := ha.1 v hv'; rw [eu, hid] at e; omega
    · have := ha.1 u hu'; rw [ev, hid] at e; omega
    · exact ha.2 u v hu' hv' e

/-- A stored batch as `buildBatch … 100` makes them: non-empty, at most 100 transfers, all of the
    batch's token. -/
def Batch.WF (b : Batch) : Prop :=
  b.txs ≠ [] ∧ b.txs.length ≤ 100 ∧ ∀ t ∈ b.txs, t.extToken = b.extToken

def ChainSt.BatchesWF (c : ChainSt) : Prop := ∀ b ∈ c.batches, b.WF

/-- `b` has the batch nonce and outgoing sequence of `a`, is in store order if `a` is, has
    its ids below the id counter if `a` has, and stores no batch that `a` does not store. -/
def ChainSt.Quiet (a b : ChainSt) : Prop :=
  b.lastBatchNonce = a.lastBatchNonce ∧ b.outSeq = a.outSeq ∧ (PoolSorted a.pool → PoolSorted b.pool) ∧
    (a.IdsBounded → b.IdsBounded) ∧ (∀ x ∈ b.batches, x ∈ a.batches)

/-- No chain's batch nonce or outgoing sequence moved, and pools stay in store order. -/
def Hub.Quiet (h h' : Hub) : Prop := ∀ c, (h.chain c).Quiet (h'.chain c)

theorem ChainSt.Quiet.refl (a : ChainSt) : a.Quiet a := ⟨rfl, rfl, id, id, fun _ h => h⟩
theorem Hub.Quiet.refl (h : Hub) : h.Quiet h := fun _ => ChainSt.Quiet.refl _
theorem Hub.Quiet.trans {a b c : Hub} (h1 : a.Quiet b) (h2 : b.Quiet c) : a.Quiet c := by
  intro ch
  obtain ⟨a1, a2, a3, a4, a5⟩ := h1 ch
  obtain ⟨b1, b2, b3, b4, b5⟩ := h2 ch
  exact ⟨by rw [b1, a1], by rw [b2, a2], fun hs => b3 (a3 hs), fun hs => b4 (a4 hs),
    fun x hx => a5 x (b5 x hx)⟩

theorem quiet_of_cs {h h' : Hub} (e : h'.cs = h.cs) : h.Quiet h' := by
  intro c
  have : h'.chain c = h.chain c := by simp only [Hub.chain, e]
  rw [this]; exact ChainSt.Quiet.refl _

theorem quiet_setChain {h : Hub} {c : String} {s : ChainSt} (hq : (h.chain c).Quiet s) :
    h.Quiet (h.setChain c s) := by
  intro c'
  by_cases e : c = c'
  · subst e; rw [chain_setChain]; exact hq
  · rw [chain_setChain_other _ _ e]; exact ChainSt.Quiet.refl _

theorem quiet_foldlM {α : Type} {f : Hub → α → M Hub}
    (hf : ∀ (h : Hub) a h', f h a = .ok h' → h.Quiet h') :
    ∀ (l : List α) (h h' : Hub), l.foldlM f h = .ok h' → h.Quiet h'
  | [], h, h', hok => by
    simp only [List.foldlM_nil, pure, Except.pure, Except.ok.injEq] at hok
    subst hok; exact Hub.Quiet.refl _
  | a :: l, h, h', hok => by
    rw [List.foldlM_cons] at hok
    cases hs : f h a with
    | error e => rw [hs] at hok; simp [bind, Except.bind] at hok
    | ok h1 =>
      rw [hs] at hok
      exact (hf h a h1 hs).trans (quiet_foldlM hf l h1 h' hok)

theorem quiet_foldl {α : Type} {f : Hub → α → Hub} (hf : ∀ (h : Hub) a, h.Quiet (f h a)) :
    ∀ (l : List α) (h : Hub), h.Quiet (l.foldl f h)
  | [], _ => Hub.Quiet.refl _
  | a :: l, h => (hf h a).trans (quiet_foldl hf l (f h a))

theorem quiet_mintTo {h h' : Hub} {acc d : String} {amt : Int} (hm : h.mintTo acc d amt = .ok h') :
    h.Quiet h' := quiet_of_cs (mintTo_ok hm).2.2.2.1

theorem quiet_setStatus (h : Hub) (tx : String) (st : Nat) (o : String) : h.Quiet (h.setStatus tx st o) :=
  quiet_of_cs rfl

theorem quiet_createSte {h h' : Hub} {chain sender rcp denom tx rc ra : String} {amount fee comm : Int}
    {n : Nat} (hc : h.createSte chain sender rcp denom amount fee comm tx rc ra = .ok (h', n)) :
    h.Quiet h' := by
  obtain ⟨new, hid, _, _, _, _, _, _, _, hpool, hlast, hbn, hseq, hother, _⟩ := createSte_chains hc
  have hbat := createSte_batches hc
  intro c
  by_cases e : chain = c
  · subst e
    refine ⟨hbn, hseq, fun hs => by rw [hpool]; exact insertByKey_sorted poolKey hs, ?_,
      fun x hx => by rw [hbat] at hx; exact hx⟩
    refine ChainSt.IdsBounded.fresh (new := new) ?_ hid hlast
    rintro u (hu | ⟨b, hbm, hu⟩)
    · rw [hpool] at hu
      rcases mem_insertByKey_cases poolKey hu with e | hu'
      · exact Or.inl e
      · exact Or.inr (Or.inl hu')
    · rw [hbat] at hbm
      exact Or.inr (Or.inr ⟨b, hbm, hu⟩)
  · rw [hother c e]; exact ChainSt.Quiet.refl _

theorem quiet_cancelFinish (h : Hub) (chain : String) (s : Ste) : h.Quiet (h.cancelFinish chain s) := by
  unfold Hub.cancelFinish
  refine (quiet_setStatus h s.txHash stRefunded "").trans (quiet_setChain ?_)
  exact ⟨rfl, rfl, fun hs => eraseByKey_sorted poolKey hs,
    ChainSt.IdsBounded.mono (fun u hu => hu.elim
      (fun hp => Or.inl (mem_of_mem_eraseByKey poolKey hp)) Or.inr) (Nat.le_refl _), fun _ h => h⟩

theorem quiet_refundCredit (h : Hub) (acc denom : String) (total : Int) :
    h.Quiet (h.refundCredit acc denom total) := by
  obtain ⟨b, su, e⟩ := refundCredit_frame h acc denom total
  rw [e]; exact quiet_of_cs rfl

theorem quiet_cancelSte {h h' : Hub} {chain sender : String} {id : Nat} {e : Option Err}
    (hc : h.cancelSte chain id sender = (h', e)) : h.Quiet h' := by
  cases e with
  | some e => exact quiet_of_cs (cancelSte_some hc).1
  | none =>
    obtain ⟨s, _, _, _, hcases⟩ := cancelSte_none hc
    rcases hcases with ⟨_, he⟩ | ⟨_, he⟩ | ⟨_, _, h2, n, hcr, he⟩
    · subst he; exact (quiet_refundCredit _ _ _ _).trans (quiet_cancelFinish _ _ _)
    · subst he; exact (quiet_refundCredit _ _ _ _).trans (quiet_cancelFinish _ _ _)
    · subst he
      exact ((quiet_refundCredit _ _ _ _).trans (quiet_createSte hcr)).trans (quiet_cancelFinish _ _ _)

theorem quiet_cancelMsg {h h' : Hub} {sender chain : String} {id : Nat}
    (hc : h.cancelMsg sender chain id = .ok h') : h.Quiet h' := by
  unfold Hub.cancelMsg at hc
  split at hc
  · simp [failM] at hc
  · split at hc
    · simp [failM] at hc
    · split at hc
      · rename_i h'' heq
        simp only [Except.ok.injEq] at hc
        subst hc; exact quiet_cancelSte heq
      · simp at hc

set_option linter.unusedSimpArgs false in
theorem quiet_sendToExternal {h h' : Hub} {sender chain rcp denom tx : String} {amount fee : Int} {id : Nat}
    (hok : h.sendToExternal sender chain rcp denom amount fee tx = .ok (h', id)) : h.Quiet h' := by
  unfold Hub.sendToExternal at hok
  simp only [bind, Except.bind] at hok
  split at hok <;> try (simp [failM] at hok)
  split at hok <;> try (simp [failM] at hok)
  split at hok <;> try (simp [failM] at hok)
  split at hok
  · split at hok <;> try (simp [panicM] at hok)
    split at hok <;> try (simp [panicM] at hok)
    exact quiet_createSte hok
  · simp [failM] at hok

theorem mem_foldl_insertByKey {α : Type} (key : α → Bytes) (l p : List α) {u : α}
    (hu : u ∈ l.foldl (fun p s => insertByKey key s p) p) : u ∈ l ∨ u ∈ p := by
  induction l generalizing p with
  | nil => exact Or.inr hu
  | cons x xs ih =>
    rcases ih _ hu with h1 | h1
    · exact Or.inl (List.mem_cons_of_mem _ h1)
    · rcases mem_insertByKey_cases key h1 with e | h2
      · exact Or.inl (by rw [e]; exact List.mem_cons_self)
      · exact Or.inr h2

theorem foldl_insertByKey_sorted {α : Type} (key : α → Bytes) (l p : List α) (hs : KeySorted key p) :
    KeySorted key (l.foldl (fun p s => insertByKey key s p) p) := by
  induction l generalizing p with
  | nil => exact hs
  | cons x xs ih => exact ih _ (insertByKey_sorted key hs)

theorem quiet_cancelBatch {h h' : Hub} {chain tok : String} {nonce : Nat}
    (hok : h.cancelBatch chain tok nonce = .ok h') : h.Quiet h' := by
  unfold Hub.cancelBatch at hok
  split at hok
  · simp [panicM] at hok
  · split at hok
    · simp [panicM] at hok
    · rename_i b hfind
      have hbmem : b ∈ (h.chain chain).batches := by
        unfold Hub.findBatch at hfind
        exact List.mem_of_find?_eq_some hfind
      simp only [Except.ok.injEq] at hok
      subst hok
      refine quiet_setChain ⟨rfl, rfl, fun hs => foldl_insertByKey_sorted poolKey _ _ hs, ?_,
        fun x hx => mem_of_mem_eraseByKey batchKey hx⟩
      refine ChainSt.IdsBounded.mono ?_ (Nat.le_refl _)
      rintro u (hu | ⟨x, hx, hu⟩)
      · rcases mem_foldl_insertByKey poolKey _ _ hu with hu' | hu'
        · exact Or.inr ⟨b, hbmem, hu'⟩
        · exact Or.inl hu'
      · exact Or.inr ⟨x, mem_of_mem_eraseByKey batchKey hx, hu⟩

theorem quiet_cleanup {h h' : Hub} {chain : String}
    (hok : h.cleanupTimedOutBatches chain = .ok h') : h.Quiet h' := by
  unfold Hub.cleanupTimedOutBatches at hok
  refine quiet_foldlM ?_ _ _ _ hok
  intro h b h1 hs
  split at hs
  · exact quiet_cancelBatch hs
  · simp only [pure, Except.pure, Except.ok.injEq] at hs; subst hs; exact Hub.Quiet.refl _

theorem quiet_prune (h : Hub) (chain : String) : h.Quiet (h.pruneSignerSets chain) := by
  unfold Hub.pruneSignerSets
  simp only
  split
  · exact Hub.Quiet.refl _
  · split
    · exact Hub.Quiet.refl _
    · exact quiet_setChain ⟨rfl, rfl, id, id, fun _ h => h⟩

theorem quiet_refundExpired {h h' : Hub} {chain : String}
    (hok : h.refundExpired chain = .ok h') : h.Quiet h' := by
  rw [refundExpired_eq] at hok
  refine quiet_foldlM ?_ _ _ _ hok
  intro h s h1 hs
  unfold Hub.expiryStepAll at hs
  split at hs
  · rcases expiryStep_ok hs with hc | ⟨e, hc⟩
    · exact quiet_cancelSte hc
    · exact quiet_cancelSte hc
  · simp only [pure, Except.pure, Except.ok.injEq] at hs; subst hs; exact Hub.Quiet.refl _



/-! ### `batchExecuted` in pieces -/

def Hub.bexCancelOlder (h : Hub) (chain : String) (b : Batch) : M Hub :=
  if chain != "minter" then
    ((h.chain chain).batches.reverse.filter fun o => o.nonce < b.nonce && o.extToken == b.extToken).foldlM
      (fun (h : Hub) o => h.cancelBatch chain o.extToken o.nonce) h
  else pure h

def Hub.bexMark (h : Hub) (b : Batch) (txHash : String) : Hub :=
  b.txs.foldl (fun (h : Hub) t =>
      let h := h.setStatus t.txHash stBatchExecuted txHash
      { h with feeRec := alSet h.feeRec t.txHash (t.comm, t.fee) }) h

def Hub.bexCommission (h : Hub) (tok : TokenInfo) (totalComm : Int) : M Hub :=
  if totalComm > 0 then do
      let valset ← h.currentSigners "minter"
      let totalPower := sumNats (valset.map (·.power))
      let h ← h.mintTo tempAddr tok.denom totalComm
      valset.foldlM (fun (h : Hub) v => do
        if totalPower == 0 then panicM "division by zero"
        let amount := commissionShare totalComm v.power totalPower
        if amount ≤ 0 then return h
        match h.createSte "minter" tempAddr v.addr tok.denom amount 0 0 "#commission" "" "" with
        | .ok (h, _) => pure h
        | .error (.fail m) => panicM m
        | .error e => .error e) h
    else pure h

/-- One pro-rata refund of the fee remainder (`hc` is the state the conversion closure captured). -/
def Hub.bexRefundStep (hc : Hub) (chain : String) (tok : TokenInfo) (feeLeft avg good : Int)
    (h : Hub) (t : Ste) : M Hub := do
  let cf := hc.fromExternal chain tok.extId t.fee
  if cf < avg then return h
  if good == 0 then panicM "division by zero"
  let toRefund := refundShare feeLeft cf good
  if t.refundChain != "minter" then return h
  if toRefund ≤ 0 then return h
  let h ← (match h.createSte "minter" tempAddr t.refundAddr tok.denom toRefund 0 0 "#fee" "" "" with
    | .ok (h, _) => pure h
    | .error (.fail m) => panicM m
    | .error e => .error e : M Hub)
  match alGet h.feeRec t.txHash with
  | none => panicM "nil fee record"
  | some (vc, ef) =>
    return { h with feeRec := alSet h.feeRec t.txHash (vc, feeKept ef (h.toExternal chain tok.extId toRefund)) }

/-- Reimbursement of the relayer and distribution of the remaining fees. -/
def Hub.bexPay (h : Hub) (chain : String) (tok : TokenInfo) (b : Batch) (totalFee fee : Int)
    (feePayer : String) : M Hub := do
  if fee ≤ 0 then return h
  let h ← h.mintTo tempAddr tok.denom fee
  let h ← (match h.createSte "minter" tempAddr feePayer tok.denom fee 0 0 "#fee" "" "" with
    | .ok (h, _) => pure h
    | .error (.fail m) => panicM m
    | .error e => .error e : M Hub)
  let feeLeft := totalFee - fee
  if feeLeft ≤ 0 then return h
  let h ← h.mintTo tempAddr tok.denom feeLeft
  let n : Int := b.txs.length
  if n == 0 then panicM "division by zero"
  let avg := Int.tdiv fee n
  let good := goodFees (b.txs.map fun t => h.fromExternal chain tok.extId t.fee) avg
  b.txs.foldlM (Hub.bexRefundStep h chain tok feeLeft avg good) h

def Hub.bexFees (h : Hub) (chain : String) (tok : TokenInfo) (b : Batch) (totalFee feePaid : Int)
    (feePayer : String) : M Hub := do
  if totalFee ≤ 0 then return h
  let base ← (if chain == "ethereum" then pure (some "eth")
              else if chain == "bsc" then pure (some "bnb") else pure none : M (Option String))
  let some baseCoin := base | return h
  let some pBase := alGet h.prices baseCoin | panicM "price not found"
  let some pTok := alGet h.prices tok.denom | panicM "price not found"
  if pTok == 0 then panicM "division by zero"
  let amount := gasCostInToken feePaid pBase pTok
  if amount < 0 then panicM "negative coin amount"
  h.bexPay chain tok b totalFee (reimbursement amount totalFee) feePayer

theorem batchExecuted_eq (h : Hub) (chain extToken : String) (nonce : Nat) (txHash : String)
    (feePaid : Int) (feePayer : String) :
    h.batchExecuted chain extToken nonce txHash feePaid feePayer = (do
      let some b := h.findBatch chain extToken nonce | return h
      let h ← h.bexCancelOlder chain b
      let c := h.chain chain
      let h := h.setChain chain { c with batches := eraseByKey batchKey (batchKey b) c.batches }
      let some tok := h.tokenByExt chain b.extToken | panicM "token not found"
      let h := h.bexMark b txHash
      let totalComm := h.fromExternal chain tok.extId (sumInts (b.txs.map (·.comm)))
      let totalFee := h.fromExternal chain tok.extId (sumInts (b.txs.map (·.fee)))
      let h ← h.bexCommission tok totalComm
      h.bexFees chain tok b totalFee feePaid feePayer) := by
  rfl

theorem quiet_bexCancelOlder {h h' : Hub} {chain : String} {b : Batch}
    (hok : h.bexCancelOlder chain b = .ok h') : h.Quiet h' := by
  unfold Hub.bexCancelOlder at hok
  split at hok
  · exact quiet_foldlM (fun h o h1 hs => quiet_cancelBatch hs) _ _ _ hok
  · simp only [pure, Except.pure, Except.ok.injEq] at hok; subst hok; exact Hub.Quiet.refl _

theorem quiet_bexMark (h : Hub) (b : Batch) (tx : String) : h.Quiet (h.bexMark b tx) := by
  unfold Hub.bexMark
  apply quiet_foldl
  intro h t
  exact quiet_of_cs rfl

/-- The `createSte` call sites of `batchTxExecuted` (an error there is escalated to a panic). -/
theorem quiet_createSte_esc {h h' : Hub} {chain sender rcp denom tx rc ra : String} {amount fee comm : Int}
    (hok : (match h.createSte chain sender rcp denom amount fee comm tx rc ra with
      | .ok (h, _) => pure h
      | .error (.fail m) => panicM m
      | .error e => .error e : M Hub) = .ok h') : h.Quiet h' := by
  split at hok
  · rename_i h2 n heq
    simp only [pure, Except.pure, Except.ok.injEq] at hok
    subst hok; exact quiet_createSte heq
  · simp [panicM] at hok
  · simp at hok

theorem quiet_bexCommission {h h' : Hub} {tok : TokenInfo} {totalComm : Int}
    (hok : h.bexCommission tok totalComm = .ok h') : h.Quiet h' := by
  unfold Hub.bexCommission at hok
  split at hok
  · simp only [bind, Except.bind] at hok
    split at hok
    · simp at hok
    · rename_i valset _
      split at hok
      · simp at hok
      · rename_i h1 hm
        refine (quiet_mintTo hm).trans (quiet_foldlM ?_ _ _ _ hok)
        intro h v h2 hs
        split at hs
        · simp [panicM] at hs
        · simp only [pure, Except.pure] at hs
          split at hs
          · simp only [Except.ok.injEq] at hs; subst hs; exact Hub.Quiet.refl _
          · exact quiet_createSte_esc hs
  · simp only [pure, Except.pure, Except.ok.injEq] at hok; subst hok; exact Hub.Quiet.refl _

theorem quiet_bexRefundStep {hc h h' : Hub} {chain : String} {tok : TokenInfo} {feeLeft avg good : Int} {t : Ste}
    (hok : Hub.bexRefundStep hc chain tok feeLeft avg good h t = .ok h') : h.Quiet h' := by
  unfold Hub.bexRefundStep at hok
  simp only [bind, Except.bind, pure, Except.pure] at hok
  split at hok
  · simp only [Except.ok.injEq] at hok; subst hok; exact Hub.Quiet.refl _
  · split at hok
    · simp [panicM] at hok
    · split at hok
      · simp only [Except.ok.injEq] at hok; subst hok; exact Hub.Quiet.refl _
      · split at hok
        · simp only [Except.ok.injEq] at hok; subst hok; exact Hub.Quiet.refl _
        · split at hok
          · simp at hok
          · rename_i h1 hcr
            have q1 : h.Quiet h1 := quiet_createSte_esc hcr
            split at hok
            · simp [panicM] at hok
            · simp only [Except.ok.injEq] at hok; subst hok
              exact q1.trans (quiet_of_cs rfl)

theorem quiet_bexPay {h h' : Hub} {chain : String} {tok : TokenInfo} {b : Batch} {totalFee fee : Int}
    {feePayer : String} (hok : h.bexPay chain tok b totalFee fee feePayer = .ok h') : h.Quiet h' := by
  unfold Hub.bexPay at hok
  simp only [bind, Except.bind, pure, Except.pure] at hok
  split at hok
  · simp only [Except.ok.injEq] at hok; subst hok; exact Hub.Quiet.refl _
  · split at hok
    · simp at hok
    · rename_i h1 hm1
      have q1 := quiet_mintTo hm1
      split at hok
      · simp at hok
      · rename_i h2 hcr
        have q2 : h1.Quiet h2 := quiet_createSte_esc hcr
        split at hok
        · simp only [Except.ok.injEq] at hok; subst hok; exact q1.trans q2
        · split at hok
          · simp at hok
          · rename_i h3 hm3
            have q3 := quiet_mintTo hm3
            split at hok
            · simp [panicM] at hok
            · exact ((q1.trans q2).trans q3).trans
                (quiet_foldlM (fun h t h' hs => quiet_bexRefundStep hs) _ _ _ hok)

theorem quiet_bexFees {h h' : Hub} {chain : String} {tok : TokenInfo} {b : Batch} {totalFee feePaid : Int}
    {feePayer : String} (hok : h.bexFees chain tok b totalFee feePaid feePayer = .ok h') : h.Quiet h' := by
  unfold Hub.bexFees at hok
  simp only [bind, Except.bind, pure, Except.pure] at hok
  split at hok
  · simp only [Except.ok.injEq] at hok; subst hok; exact Hub.Quiet.refl _
  · split at hok
    · simp at hok
    · split at hok
      · split at hok
        · split at hok
          · split at hok
            · simp [panicM] at hok
            · split at hok
              · simp [panicM] at hok
              · exact quiet_bexPay hok
          · simp [panicM] at hok
        · simp [panicM] at hok
      · simp only [Except.ok.injEq] at hok; subst hok; exact Hub.Quiet.refl _

theorem quiet_batchExecuted {h h' : Hub} {chain tok tx payer : String} {nonce : Nat} {feePaid : Int}
    (hok : h.batchExecuted chain tok nonce tx feePaid payer = .ok h') : h.Quiet h' := by
  rw [batchExecuted_eq] at hok
  simp only [bind, Except.bind, pure, Except.pure] at hok
  split at hok
  · rename_i b _
    split at hok
    · simp at hok
    · rename_i h1 hc1
      have q1 := quiet_bexCancelOlder hc1
      have q2 : h1.Quiet (h1.setChain chain { h1.chain chain with
          batches := eraseByKey batchKey (batchKey b) (h1.chain chain).batches }) :=
        quiet_setChain ⟨rfl, rfl, id, ChainSt.IdsBounded.mono (fun u hu => hu.elim Or.inl
          (fun ⟨x, hx, hxu⟩ => Or.inr ⟨x, mem_of_mem_eraseByKey batchKey hx, hxu⟩)) (Nat.le_refl _),
          fun x hx => mem_of_mem_eraseByKey batchKey hx⟩
      split at hok
      · rename_i tk _
        split at hok
        · simp at hok
        · rename_i h4 hc4
          exact (((q1.trans q2).trans (quiet_bexMark _ _ _)).trans (quiet_bexCommission hc4)).trans
            (quiet_bexFees hok)
      · simp [panicM] at hok
  · simp only [Except.ok.injEq] at hok; subst hok; exact Hub.Quiet.refl _


theorem quiet_handleSendToHub {h h' : Hub} {chain coin receiver tx : String} {amount : Int}
    (hok : h.handleSendToHub chain coin amount receiver tx = .ok h') : h.Quiet h' := by
  unfold Hub.handleSendToHub at hok
  simp only [bind, Except.bind, pure, Except.pure] at hok
  split at hok
  · split at hok
    · simp [panicM] at hok
    · split at hok
      · simp [failM] at hok
      · split at hok
        · simp at hok
        · rename_i h1 hm
          simp only [Except.ok.injEq] at hok; subst hok
          exact (quiet_mintTo hm).trans (quiet_setStatus _ _ _ _)
  · simp [failM] at hok

theorem quiet_handle {h h' : Hub} {mf : Bool} {chain : String} {ev : Event}
    (hok : h.handle mf chain ev = .ok h') : h.Quiet h' := by
  cases ev with
  | sendToHub n coin amount sender receiver height txHash =>
    exact quiet_handleSendToHub hok
  | transfer n coin amount fee sender rchain receiver height txHash =>
    unfold Hub.handle at hok
    simp only [bind, Except.bind, pure, Except.pure, failM, panicM] at hok
    split at hok
    · simp at hok
    · split at hok
      · split at hok
        · simp at hok
        · exact quiet_handleSendToHub hok
      · split at hok
        · simp at hok
        · rename_i h1 hs1
          have q1 := quiet_handleSendToHub hs1
          split at hok
          · split at hok
            · split at hok
              · simp at hok
              · split at hok
                · simp at hok
                · split at hok
                  · simp at hok
                  · split at hok
                    · simp at hok
                    · split at hok
                      · simp at hok
                      · split at hok
                        · simp at hok
                        · rename_i r hcr
                          simp only [Except.ok.injEq] at hok; subst hok
                          exact q1.trans (quiet_createSte (n := r.2) hcr)
            · simp at hok
          · simp at hok
  | batchExecuted coin n bn height txHash feePaid feePayer =>
    exact quiet_batchExecuted hok
  | contractCall n scope inv height =>
    unfold Hub.handle at hok
    simp only [Except.ok.injEq] at hok; subst hok; exact Hub.Quiet.refl _
  | signerSet n sn height members txHash =>
    unfold Hub.handle at hok
    simp only [Except.ok.injEq] at hok; subst hok
    exact quiet_setChain ⟨rfl, rfl, id, id, fun _ h => h⟩

theorem quiet_tryRecord {h h' : Hub} {mf : Bool} {chain : String} {r : VoteRec}
    (hok : h.tryRecord mf chain r = .ok h') : h.Quiet h' := by
  unfold Hub.tryRecord at hok
  simp only [bind, Except.bind, pure, Except.pure] at hok
  split at hok
  · simp [panicM] at hok
  · split at hok
    · simp only [Except.ok.injEq] at hok; subst hok; exact Hub.Quiet.refl _
    · have q1 : h.Quiet (h.setChain chain ((h.chain chain).markObserved r h.height)) :=
        quiet_setChain ⟨rfl, rfl, id, id, fun _ h => h⟩
      split at hok
      · rename_i h2 hh
        simp only [Except.ok.injEq] at hok; subst hok
        exact q1.trans (quiet_handle hh)
      · simp only [Except.ok.injEq] at hok; subst hok; exact q1

theorem quiet_tally {h h' : Hub} {mf : Bool} {chain : String}
    (hok : h.tally mf chain = .ok h') : h.Quiet h' := by
  unfold Hub.tally at hok
  exact quiet_foldlM (fun h r h1 hs => quiet_tryRecord hs) _ _ _ hok

theorem quiet_endBlock {h h' : Hub} {mf : Bool} (hok : h.endBlock mf = .ok h') : h.Quiet h' := by
  unfold Hub.endBlock at hok
  refine quiet_foldlM ?_ _ _ _ hok
  intro h chain h1 hs
  simp only [bind, Except.bind] at hs
  split at hs
  · simp at hs
  · rename_i h2 ht
    exact (quiet_tally ht).trans (quiet_refundExpired hs)

theorem quiet_submitEvent {h h' : Hub} {chain signer : String} {ev : Event}
    (hok : h.submitEvent chain signer ev = .ok h') : h.Quiet h' := by
  unfold Hub.submitEvent at hok
  simp only [bind, Except.bind, pure, Except.pure] at hok
  split at hok
  · simp [failM] at hok
  · split at hok
    · simp at hok
    · split at hok
      · simp at hok
      · rename_i c hc
        simp only [Except.ok.injEq] at hok; subst hok
        unfold ChainSt.recordVote at hc
        simp only at hc
        split at hc
        · simp [failM] at hc
        · simp only [Except.ok.injEq] at hc; subst hc
          exact quiet_setChain ⟨rfl, rfl, id, id, fun _ h => h⟩

theorem quiet_confirm {h h' : Hub} {chain signer ext sig : String} {k : ConfKind}
    (hok : h.confirm chain signer k ext sig = .ok h') : h.Quiet h' := by
  unfold Hub.confirm at hok
  simp only [bind, Except.bind, pure, Except.pure, failM] at hok
  repeat' (split at hok)
  all_goals first
    | (simp at hok; done)
    | (simp only [Except.ok.injEq] at hok; subst hok; exact quiet_setChain ⟨rfl, rfl, id, id, fun _ h => h⟩)

theorem quiet_setDelegateKeys {h h' : Hub} {chain val orch eth sb sv : String} {sn acc : Nat}
    (hok : h.setDelegateKeys chain val orch eth sb sv sn acc = .ok h') : h.Quiet h' := by
  unfold Hub.setDelegateKeys at hok
  simp only [bind, Except.bind, pure, Except.pure, failM] at hok
  repeat' (split at hok)
  all_goals first
    | (simp at hok; done)
    | (simp only [Except.ok.injEq] at hok; subst hok; exact quiet_setChain ⟨rfl, rfl, id, id, fun _ h => h⟩)



/-! ### Store order of the pools is an invariant of the whole model -/

/-- The three state invariants are kept: pools in store order, ids well formed, stored batches
    well formed. -/
def Hub.KeepsOrder (h h' : Hub) : Prop :=
  ∀ c, (PoolSorted (h.chain c).pool → PoolSorted (h'.chain c).pool) ∧
    ((h.chain c).IdsBounded → (h'.chain c).IdsBounded) ∧
    ((h.chain c).BatchesWF → (h'.chain c).BatchesWF)

theorem Hub.Quiet.keepsOrder {h h' : Hub} (q : h.Quiet h') : h.KeepsOrder h' :=
  fun c => ⟨(q c).2.2.1, (q c).2.2.2.1, fun hw x hx => hw x ((q c).2.2.2.2 x hx)⟩
theorem Hub.KeepsOrder.refl (h : Hub) : h.KeepsOrder h := fun _ => ⟨id, id, id⟩
theorem Hub.KeepsOrder.trans {a b c : Hub} (h1 : a.KeepsOrder b) (h2 : b.KeepsOrder c) : a.KeepsOrder c :=
  fun ch => ⟨fun hs => (h2 ch).1 ((h1 ch).1 hs), fun hs => (h2 ch).2.1 ((h1 ch).2.1 hs),
    fun hs => (h2 ch).2.2 ((h1 ch).2.2 hs)⟩

theorem keepsOrder_foldlM {α : Type} {f : Hub → α → M Hub}
    (hf : ∀ (h : Hub) a h', f h a = .ok h' → h.KeepsOrder h') :
    ∀ (l : List α) (h h' : Hub), l.foldlM f h = .ok h' → h.KeepsOrder h'
  | [], h, h', hok => by
    simp only [List.foldlM_nil, pure, Except.pure, Except.ok.injEq] at hok
    subst hok; exact Hub.KeepsOrder.refl _
  | a :: l, h, h', hok => by
    rw [List.foldlM_cons] at hok
    cases hs : f h a with
    | error e => rw [hs] at hok; simp [bind, Except.bind] at hok
    | ok h1 =>
      rw [hs] at hok
      exact (hf h a h1 hs).trans (keepsOrder_foldlM hf l h1 h' hok)

theorem keepsOrder_foldl {α : Type} {f : Hub → α → Hub} (hf : ∀ (h : Hub) a, h.KeepsOrder (f h a)) :
    ∀ (l : List α) (h : Hub), h.KeepsOrder (l.foldl f h)
  | [], _ => Hub.KeepsOrder.refl _
  | a :: l, h => (hf h a).trans (keepsOrder_foldl hf l (f h a))

theorem mem_foldl_eraseByKey {α : Type} (key : α → Bytes) (sel l : List α) {u : α}
    (hu : u ∈ sel.foldl (fun p s => eraseByKey key (key s) p) l) : u ∈ l := by
  induction sel generalizing l with
  | nil => exact hu
  | cons x xs ih => exact mem_of_mem_eraseByKey key (ih _ hu)

theorem foldl_eraseByKey_sorted {α : Type} (key : α → Bytes) (sel l : List α) (hs : KeySorted key l) :
    KeySorted key (sel.foldl (fun p s => eraseByKey key (key s) p) l) := by
  induction sel generalizing l with
  | nil => exact hs
  | cons x xs ih => exact ih _ (eraseByKey_sorted key hs)

theorem keepsOrder_buildBatch (h : Hub) (chain tok : String) (maxN : Nat) (hN : maxN ≤ 100) :
    h.KeepsOrder (h.buildBatch chain tok maxN).1 := by
  cases hb : h.buildBatch chain tok maxN with
  | mk h' ob =>
    cases ob with
    | none => rw [(buildBatch_none hb).1]; exact Hub.KeepsOrder.refl _
    | some b =>
      obtain ⟨hne, htx, htok, _, _, _, hpool, _, _, hbat, hlast, hother, _⟩ := buildBatch_some hb
      intro c
      by_cases e : chain = c
      · subst e
        show (PoolSorted (h.chain chain).pool → PoolSorted (h'.chain chain).pool) ∧
          ((h.chain chain).IdsBounded → (h'.chain chain).IdsBounded) ∧
          ((h.chain chain).BatchesWF → (h'.chain chain).BatchesWF)
        refine ⟨fun hs => by rw [hpool]; exact foldl_eraseByKey_sorted poolKey _ _ hs, ?_, ?_⟩
        rotate_left
        · intro hw x hx
          rw [hbat] at hx
          rcases mem_insertByKey_cases batchKey hx with e | hx'
          · rw [e]
            refine ⟨by rw [htx]; exact hne, ?_, ?_⟩
            · rw [htx]; unfold selectForBatch
              exact Nat.le_trans (List.length_take_le _ _) hN
            · intro t ht; rw [htx] at ht; rw [htok]; exact (mem_selectForBatch ht).2
          · exact hw x hx'
        refine ChainSt.IdsBounded.mono ?_ (Nat.le_of_eq hlast.symm)
        rintro u (hu | ⟨x, hx, hu⟩)
        · rw [hpool] at hu
          exact Or.inl (mem_foldl_eraseByKey poolKey _ _ hu)
        · rw [hbat] at hx
          rcases mem_insertByKey_cases batchKey hx with e | hx'
          · rw [e, htx] at hu
            exact Or.inl (mem_selectForBatch hu).1
          · exact Or.inr ⟨x, hx', hu⟩
      · show (PoolSorted (h.chain c).pool → PoolSorted (h'.chain c).pool) ∧
          ((h.chain c).IdsBounded → (h'.chain c).IdsBounded) ∧
          ((h.chain c).BatchesWF → (h'.chain c).BatchesWF)
        rw [hother c e]; exact ⟨id, id, id⟩

theorem keepsOrder_createSignerSet {h h' : Hub} {chain : String}
    (hs : h.createSignerSet chain = .ok h') : h.KeepsOrder h' := by
  unfold Hub.createSignerSet at hs
  simp only [bind, Except.bind] at hs
  split at hs
  · simp at hs
  · simp only [pure, Except.pure, Except.ok.injEq] at hs
    subst hs
    intro c
    by_cases e : chain = c
    · subst e; rw [chain_setChain]; exact ⟨id, id, id⟩
    · rw [chain_setChain_other _ _ e]; exact ⟨id, id, id⟩

theorem keepsOrder_createSignerSetTxs {h h' : Hub} {chain : String}
    (hs : h.createSignerSetTxs chain = .ok h') : h.KeepsOrder h' := by
  unfold Hub.createSignerSetTxs at hs
  split at hs
  · exact keepsOrder_createSignerSet hs
  · simp only [bind, Except.bind] at hs
    split at hs
    · simp at hs
    · split at hs
      · exact keepsOrder_createSignerSet hs
      · simp only [pure, Except.pure, Except.ok.injEq] at hs; subst hs; exact Hub.KeepsOrder.refl _

theorem keepsOrder_createBatches (h : Hub) (chain : String) : h.KeepsOrder (h.createBatches chain) := by
  rw [createBatches_eq]
  split
  · exact keepsOrder_foldl (fun h id => keepsOrder_buildBatch h chain id 100 (Nat.le_refl _)) _ _
  · exact Hub.KeepsOrder.refl _

theorem keepsOrder_beginBlock {h h' : Hub} (hok : h.beginBlock = .ok h') : h.KeepsOrder h' := by
  unfold Hub.beginBlock at hok
  refine keepsOrder_foldlM ?_ _ _ _ hok
  intro h chain h1 hs
  simp only [bind, Except.bind, pure, Except.pure] at hs
  split at hs
  · simp only [Except.ok.injEq] at hs; subst hs; exact Hub.KeepsOrder.refl _
  · split at hs
    · simp at hs
    · rename_i h2 hc
      have q1 : h.KeepsOrder h2 := by
        split at hc
        · exact (quiet_cleanup hc).keepsOrder
        · simp only [Except.ok.injEq] at hc; subst hc; exact Hub.KeepsOrder.refl _
      split at hs
      · simp at hs
      · rename_i h3 hc3
        simp only [Except.ok.injEq] at hs; subst hs
        exact ((q1.trans (keepsOrder_createSignerSetTxs hc3)).trans (keepsOrder_createBatches _ _)).trans
          (quiet_prune _ _).keepsOrder

theorem keepsOrder_requestBatch {h h' : Hub} {chain denom : String} {ob : Option Batch}
    (hr : h.requestBatch chain denom = .ok (h', ob)) : h.KeepsOrder h' := by
  unfold Hub.requestBatch at hr
  split at hr
  · simp [failM] at hr
  · split at hr
    · simp [failM] at hr
    · rename_i t _
      simp only [Except.ok.injEq] at hr
      have := keepsOrder_buildBatch h chain t.extId 100 (Nat.le_refl _)
      rw [hr] at this; exact this

theorem quiet_outM {h : Hub} {r : M Hub} {msg : String} (hr : ∀ h', r = .ok h' → h.Quiet h') :
    h.Quiet (outM r h msg).1 := by
  unfold outM
  split
  · exact hr _ rfl
  · exact Hub.Quiet.refl _
  · exact Hub.Quiet.refl _

theorem keepsOrder_outM {h : Hub} {r : M Hub} {msg : String} (hr : ∀ h', r = .ok h' → h.KeepsOrder h') :
    h.KeepsOrder (outM r h msg).1 := by
  unfold outM
  split
  · exact hr _ rfl
  · exact Hub.KeepsOrder.refl _
  · exact Hub.KeepsOrder.refl _

/-- The operations that may build batches or signer sets (or wipe the state). -/
def Op.mayAdvanceCounters : Op → Bool
  | .reset | .beginBlock | .reqBatch .. => true
  | _ => false

theorem quiet_apply (h : Hub) (op : Op) (hop : op.mayAdvanceCounters = false) : h.Quiet (apply h op).1 := by
  cases op <;> try (simp [Op.mayAdvanceCounters] at hop; done)
  all_goals unfold apply
  all_goals try exact Hub.Quiet.refl _
  all_goals try exact quiet_of_cs rfl
  case param name n =>
    simp only
    split <;> first | exact quiet_of_cs rfl | exact Hub.Quiet.refl _
  case fund acc denom a => exact quiet_outM fun h' e => quiet_mintTo e
  case endBlock => exact quiet_outM fun h' e => quiet_endBlock e
  case send sender chain rcp denom a f tx =>
    simp only
    split
    · rename_i h' id e; exact quiet_sendToExternal e
    · exact Hub.Quiet.refl _
    · exact Hub.Quiet.refl _
  case cancel sender chain i => exact quiet_outM fun h' e => quiet_cancelMsg e
  case vote chain signer e =>
    simp only
    split
    · exact quiet_outM fun h' e => quiet_submitEvent e
    · exact Hub.Quiet.refl _
  case confirm chain signer k ext sig => exact quiet_outM fun h' e => quiet_confirm e
  case delegate chain val orch eth sb sv n s => exact quiet_outM fun h' e => quiet_setDelegateKeys e
  case qUnsignedSets chain signer => simp only; split <;> exact Hub.Quiet.refl _
  case qUnsignedBatches chain signer => simp only; split <;> exact Hub.Quiet.refl _
  case qLastNonce chain signer => simp only; split <;> exact Hub.Quiet.refl _

theorem initialHub_pool (c : String) : (initialHub.chain c).pool = [] := rfl
theorem initialHub_batches (c : String) : (initialHub.chain c).batches = [] := rfl

theorem initialHub_inv (c : String) :
    PoolSorted (initialHub.chain c).pool ∧ (initialHub.chain c).IdsBounded ∧
      (initialHub.chain c).BatchesWF := by
  have hno : ∀ u, ¬ (initialHub.chain c).Has u := by
    rintro u (hu | ⟨b, hb, _⟩)
    · rw [initialHub_pool] at hu; cases hu
    · rw [initialHub_batches] at hb; cases hb
  refine ⟨?_, ⟨fun u hu => absurd hu (hno u), fun u _ hu => absurd hu (hno u)⟩, ?_⟩
  · rw [initialHub_pool]; exact List.Pairwise.nil
  · intro b hb; rw [initialHub_batches] at hb; cases hb

theorem keepsOrder_apply (h : Hub) (op : Op) : h.KeepsOrder (apply h op).1 := by
  by_cases hop : op.mayAdvanceCounters = false
  · exact (quiet_apply h op hop).keepsOrder
  · cases op <;> try (simp [Op.mayAdvanceCounters] at hop; done)
    all_goals unfold apply
    case reset =>
      intro c
      exact ⟨fun _ => (initialHub_inv c).1, fun _ => (initialHub_inv c).2.1, fun _ => (initialHub_inv c).2.2⟩
    case beginBlock => exact keepsOrder_outM fun h' e => keepsOrder_beginBlock e
    case reqBatch chain denom =>
      simp only
      split
      · rename_i h' b e; exact keepsOrder_requestBatch e
      · rename_i h' e; exact keepsOrder_requestBatch e
      · exact Hub.KeepsOrder.refl _
      · exact Hub.KeepsOrder.refl _

/-- The state invariants: pool in store order, ids well formed, stored batches well formed. -/
def ChainSt.Inv (c : ChainSt) : Prop := PoolSorted c.pool ∧ c.IdsBounded ∧ c.BatchesWF

/-- Every state reached from genesis by a history of operations satisfies the invariants on every
    chain. -/
theorem runOps_inv (ops : List Op) (c : String) : ((runOps ops).chain c).Inv := by
  unfold runOps
  have key : ∀ (l : List Op) (h : Hub), (∀ c, (h.chain c).Inv) →
      ∀ c, ((l.foldl (fun h op => (apply h op).1) h).chain c).Inv := by
    intro l
    induction l with
    | nil => intro h hh; exact hh
    | cons op l ih =>
      intro h hh
      exact ih _ (fun c => ⟨(keepsOrder_apply h op c).1 (hh c).1, (keepsOrder_apply h op c).2.1 (hh c).2.1,
        (keepsOrder_apply h op c).2.2 (hh c).2.2⟩)
  exact key ops initialHub initialHub_inv c

theorem runOps_sorted (ops : List Op) (c : String) : PoolSorted ((runOps ops).chain c).pool :=
  (runOps_inv ops c).1

/-- Helper for non-vacuity examples: a computation checked to be `.ok` has a result. -/
theorem ok_of_isOk {α : Type} {x : M α} (h : (match x with | .ok _ => true | .error _ => false) = true) :
    ∃ a, x = .ok a := by
  cases x with
  | ok a => exact ⟨a, rfl⟩
  | error e => cases h

end Mhub2
