/-
  Helper lemmas on the byte encoders (`beBytes`, `be8`, `minBytes`, `strBytes`, padding), on the
  insertion sort of signers, on the Solidity ABI encoder `abiEncode`, and the signature-check
  model.  Used by Props/C07.lean and Props/C14.lean.

  Everything that could clash with a name in another lemma file lives in `Mhub2.Enc`.
  `sha256` / `keccak256` are never unfolded.
-/
import Mhub2.Abi
import Mhub2.Votes
namespace Mhub2

/-! ### Signature check (types/ethereum_signer.go `ValidateEthereumSignature`, Hub2.sol `verifySig`) -/

/-- `if sigCopy[64] == 27 || sigCopy[64] == 28 { sigCopy[64] -= 27 }`. -/
def normV (sig : Bytes) : Bytes :=
  if sig.getD 64 0 == 27 || sig.getD 64 0 == 28 then sig.set 64 (sig.getD 64 0 - 27) else sig

/-- `ValidateEthereumSignature(hash, signature, ethAddress)`; `recover msgHash sig` stands for
    `crypto.SigToPub` followed by `PubkeyToAddress` (`none` when recovery fails). -/
def validateSig (recover : Bytes → Bytes → Option Bytes) (digest sig addr : Bytes) : Bool :=
  decide (65 ≤ sig.length) && recover (ethSignedMessage digest) (normV sig) == some addr

/-- Hub2.sol `verifySig(signer, hash, v, r, s)`:
    `signer == ecrecover(keccak256("\x19Ethereum Signed Message:\n32" ‖ hash), v, r, s)`. -/
def contractVerify (recover : Bytes → Bytes → Option Bytes) (digest sig addr : Bytes) : Bool :=
  recover (ethSignedMessage digest) sig == some addr

namespace Enc

/-! ### Fixed-width big-endian -/

theorem beBytes_length (w n : Nat) : (beBytes w n).length = w := by
  induction w generalizing n with
  | zero => rfl
  | succ w ih => simp [beBytes, ih]

theorem beBytes_mod {w a b : Nat} (h : beBytes w a = beBytes w b) : a % 256 ^ w = b % 256 ^ w := by
  induction w generalizing a b with
  | zero => simp [Nat.mod_one]
  | succ w ih =>
    simp only [beBytes] at h
    obtain ⟨h1, h2⟩ := List.append_inj' h rfl
    have h3 := ih h1
    have h4 : a % 256 = b % 256 := by simpa using h2
    rw [Nat.pow_succ, Nat.mul_comm, Nat.mod_mul, Nat.mod_mul, h3, h4]

theorem beBytes_lt256 (w n : Nat) : ∀ x ∈ beBytes w n, x < 256 := by
  induction w generalizing n with
  | zero => intro x hx; simp [beBytes] at hx
  | succ w ih =>
    intro x hx
    simp only [beBytes, List.mem_append, List.mem_singleton] at hx
    rcases hx with hx | hx
    · exact ih _ x hx
    · omega

theorem be8_length (n : Nat) : (be8 n).length = 8 := beBytes_length 8 n

/-- `be8` keeps exactly the value modulo `2^64` … -/
theorem be8_mod {a b : Nat} (h : be8 a = be8 b) : a % 2 ^ 64 = b % 2 ^ 64 := by
  have := beBytes_mod (w := 8) h
  have e : (256 : Nat) ^ 8 = 2 ^ 64 := by decide
  rwa [e] at this

/-- … so it is injective on `uint64` values. -/
theorem be8_inj {a b : Nat} (ha : a < 2 ^ 64) (hb : b < 2 ^ 64) (h : be8 a = be8 b) : a = b := by
  have := be8_mod h
  rwa [Nat.mod_eq_of_lt ha, Nat.mod_eq_of_lt hb] at this

/-- The converse: values that agree modulo `2^64` have the same `be8` (truncation). -/
theorem beBytes_of_mod {w a b : Nat} (h : a % 256 ^ w = b % 256 ^ w) : beBytes w a = beBytes w b := by
  induction w generalizing a b with
  | zero => rfl
  | succ w ih =>
    rw [Nat.pow_succ, Nat.mul_comm, Nat.mod_mul, Nat.mod_mul] at h
    have h256 : a % 256 = b % 256 := by omega
    have hdiv : a / 256 % 256 ^ w = b / 256 % 256 ^ w := by omega
    simp only [beBytes, ih hdiv, h256]

theorem word_length (n : Nat) : (word n).length = 32 := beBytes_length 32 n

theorem word_inj {a b : Nat} (ha : a < 2 ^ 256) (hb : b < 2 ^ 256) (h : word a = word b) : a = b := by
  have := beBytes_mod (w := 32) h
  have e : (256 : Nat) ^ 32 = 2 ^ 256 := by decide
  rwa [e, Nat.mod_eq_of_lt ha, Nat.mod_eq_of_lt hb] at this

/-! ### Minimal big-endian (`big.Int.Bytes()`) -/

/-- Value of a big-endian byte string. -/
def fromBE (b : Bytes) : Nat := b.foldl (fun acc x => acc * 256 + x) 0

theorem fromBE_snoc (b : Bytes) (x : Nat) : fromBE (b ++ [x]) = fromBE b * 256 + x := by
  simp [fromBE, List.foldl_append]

theorem minBytes_zero : minBytes 0 = [] := by rw [minBytes]; simp

theorem minBytes_pos {n : Nat} (h : n ≠ 0) : minBytes n = minBytes (n / 256) ++ [n % 256] := by
  rw [minBytes]; simp [h]

/-- `minBytes` is a right inverse of reading the bytes back … -/
theorem fromBE_minBytes (n : Nat) : fromBE (minBytes n) = n := by
  induction n using Nat.strongRecOn with
  | _ n ih =>
    by_cases h : n = 0
    · subst h; rw [minBytes_zero]; rfl
    · rw [minBytes_pos h, fromBE_snoc, ih (n / 256) (by omega)]; omega

/-- … hence injective on all naturals. -/
theorem minBytes_inj {a b : Nat} (h : minBytes a = minBytes b) : a = b := by
  have := congrArg fromBE h
  rwa [fromBE_minBytes, fromBE_minBytes] at this

theorem fromBE_beBytes (w n : Nat) : fromBE (beBytes w n) = n % 256 ^ w := by
  induction w generalizing n with
  | zero => simp [beBytes, fromBE, Nat.mod_one]
  | succ w ih =>
    simp only [beBytes]
    rw [fromBE_snoc, ih, Nat.pow_succ, Nat.mul_comm (256 ^ w) 256, Nat.mod_mul]
    omega

theorem minBytes_length_eq_zero {n : Nat} : (minBytes n).length = 0 ↔ n = 0 := by
  constructor
  · intro h
    by_cases h0 : n = 0
    · exact h0
    · rw [minBytes_pos h0] at h; simp at h
  · intro h; subst h; rw [minBytes_zero]; rfl

theorem minBytes_eq_nil {n : Nat} : minBytes n = [] ↔ n = 0 := by
  rw [← minBytes_length_eq_zero, List.length_eq_zero_iff]

/-- `n` fits in its minimal encoding … -/
theorem lt_pow_minBytes_length (n : Nat) : n < 256 ^ (minBytes n).length := by
  induction n using Nat.strongRecOn with
  | _ n ih =>
    by_cases h : n = 0
    · subst h; rw [minBytes_zero]; decide
    · rw [minBytes_pos h, List.length_append, List.length_singleton, Nat.pow_succ]
      have := ih (n / 256) (by omega)
      omega

/-- … and in nothing shorter (no leading zero byte). -/
theorem pow_minBytes_length_le {n : Nat} (h : n ≠ 0) : 256 ^ ((minBytes n).length - 1) ≤ n := by
  induction n using Nat.strongRecOn with
  | _ n ih =>
    rw [minBytes_pos h, List.length_append, List.length_singleton, Nat.add_sub_cancel]
    by_cases h' : n / 256 = 0
    · rw [h', minBytes_zero]; simp; omega
    · have := ih (n / 256) (by omega) h'
      have e : (minBytes (n / 256)).length = ((minBytes (n / 256)).length - 1) + 1 := by
        have : (minBytes (n / 256)).length ≠ 0 := fun e => h' (minBytes_length_eq_zero.mp e)
        omega
      rw [e, Nat.pow_succ]
      omega

theorem minBytes_lt256 (n : Nat) : ∀ x ∈ minBytes n, x < 256 := by
  induction n using Nat.strongRecOn with
  | _ n ih =>
    intro x hx
    by_cases h : n = 0
    · subst h; rw [minBytes_zero] at hx; cases hx
    · rw [minBytes_pos h, List.mem_append, List.mem_singleton] at hx
      rcases hx with hx | hx
      · exact ih (n / 256) (by omega) x hx
      · omega

/-- The minimal encoding is the fixed-width encoding of its own length. -/
theorem beBytes_minBytes_length (n : Nat) : beBytes (minBytes n).length n = minBytes n := by
  induction n using Nat.strongRecOn with
  | _ n ih =>
    by_cases h : n = 0
    · subst h; rw [minBytes_zero]; rfl
    · rw [minBytes_pos h, List.length_append, List.length_singleton]
      simp only [beBytes]
      rw [ih (n / 256) (by omega)]

/-- Two naturals have minimal encodings of the same length iff they have the same number of
    base-256 digits. -/
theorem minBytes_length_eq_iff {a b : Nat} (ha : a ≠ 0) (hb : b ≠ 0) :
    (minBytes a).length = (minBytes b).length ↔
      ∃ k, 256 ^ k ≤ a ∧ a < 256 ^ (k + 1) ∧ 256 ^ k ≤ b ∧ b < 256 ^ (k + 1) := by
  have la := lt_pow_minBytes_length a
  have lb := lt_pow_minBytes_length b
  have ga := pow_minBytes_length_le ha
  have gb := pow_minBytes_length_le hb
  have na : (minBytes a).length ≠ 0 := fun e => ha (minBytes_length_eq_zero.mp e)
  have nb : (minBytes b).length ≠ 0 := fun e => hb (minBytes_length_eq_zero.mp e)
  constructor
  · intro h
    refine ⟨(minBytes a).length - 1, ga, ?_, ?_, ?_⟩
    · rwa [Nat.sub_add_cancel (by omega)]
    · rw [h]; exact gb
    · rw [Nat.sub_add_cancel (by omega), h]; exact lb
  · rintro ⟨k, h1, h2, h3, h4⟩
    -- the digit count is determined by the interval
    have key : ∀ n : Nat, n ≠ 0 → 256 ^ k ≤ n → n < 256 ^ (k + 1) → (minBytes n).length = k + 1 := by
      intro n hn g l
      have ln := lt_pow_minBytes_length n
      have gn := pow_minBytes_length_le hn
      have nn : (minBytes n).length ≠ 0 := fun e => hn (minBytes_length_eq_zero.mp e)
      have c1 : ¬ (minBytes n).length < k + 1 := by
        intro hlt
        have : 256 ^ (minBytes n).length ≤ 256 ^ k := Nat.pow_le_pow_right (by decide) (by omega)
        omega
      have c2 : ¬ k + 1 < (minBytes n).length := by
        intro hlt
        have : 256 ^ (k + 1) ≤ 256 ^ ((minBytes n).length - 1) := Nat.pow_le_pow_right (by decide) (by omega)
        omega
      omega
    rw [key a ha h1 h2, key b hb h3 h4]

/-! ### Strings as bytes -/

theorem byteArray_toList_loop (bs : ByteArray) (i : Nat) (r : List UInt8) :
    ByteArray.toList.loop bs i r = r.reverse ++ bs.data.toList.drop i := by
  induction hn : bs.size - i generalizing i r with
  | zero =>
    unfold ByteArray.toList.loop
    have : ¬ i < bs.size := by omega
    have hd : bs.data.toList.drop i = [] := by
      apply List.drop_eq_nil_of_le
      have : bs.data.toList.length = bs.size := by simp
      omega
    simp [this, hd]
  | succ n ih =>
    unfold ByteArray.toList.loop
    have hi : i < bs.size := by omega
    simp only [hi, if_true]
    rw [ih (i + 1) _ (by omega)]
    have hi' : i < bs.data.toList.length := by simpa using hi
    rw [List.drop_eq_getElem_cons hi']
    have : bs.get! i = bs.data.toList[i] := by
      cases bs with
      | mk d =>
        simp [ByteArray.get!]
        have : i < d.size := hi
        simp [getElem!_pos, this]
    rw [this]
    simp

theorem byteArray_toList (bs : ByteArray) : bs.toList = bs.data.toList := by
  unfold ByteArray.toList
  rw [byteArray_toList_loop]; simp

/-- `[]byte(s)` determines `s`. -/
theorem strBytes_inj {a b : String} (h : strBytes a = strBytes b) : a = b := by
  unfold strBytes at h
  rw [List.map_inj_right (fun x y hxy => UInt8.toNat_inj.mp hxy)] at h
  rw [byteArray_toList, byteArray_toList, Array.toList_inj] at h
  exact String.toByteArray_inj.mp (ByteArray.ext h)

theorem strBytes_lt256 (s : String) : ∀ x ∈ strBytes s, x < 256 := by
  intro x hx
  unfold strBytes at hx
  obtain ⟨u, _, rfl⟩ := List.mem_map.mp hx
  exact u.toNat_lt

/-! ### Padding -/

theorem padRight_of_le {b : Bytes} {n : Nat} (h : n ≤ b.length) : padRight b n = b := by
  unfold padRight
  have : n - b.length = 0 := by omega
  simp [this]

theorem padRight_length {b : Bytes} {n : Nat} (h : b.length ≤ n) : (padRight b n).length = n := by
  unfold padRight; simp; omega

theorem padRight_inj {a b : Bytes} {n : Nat} (hl : a.length = b.length)
    (h : padRight a n = padRight b n) : a = b :=
  (List.append_inj h hl).1

theorem padLeft32_length {b : Bytes} (h : b.length ≤ 32) : (padLeft32 b).length = 32 := by
  unfold padLeft32; simp; omega

theorem padLeft32_inj {a b : Bytes} (hl : a.length = b.length)
    (h : padLeft32 a = padLeft32 b) : a = b :=
  (List.append_inj' h hl).2

theorem roundUp32_ge (n : Nat) : n ≤ roundUp32 n := by unfold roundUp32; omega
theorem roundUp32_mod (n : Nat) : roundUp32 n % 32 = 0 := by unfold roundUp32; omega

/-! ### Concatenations of fixed-size chunks -/

theorem flatMap_chunk_length {α : Type} (f : α → Bytes) (k : Nat) :
    ∀ (l : List α), (∀ x ∈ l, (f x).length = k) → (l.flatMap f).length = k * l.length
  | [], _ => by simp
  | x :: xs, h => by
    rw [List.flatMap_cons, List.length_append, h x List.mem_cons_self,
      flatMap_chunk_length f k xs (fun y hy => h y (List.mem_cons_of_mem _ hy)), List.length_cons,
      Nat.mul_succ]
    omega

theorem flatMap_chunk_inj {α : Type} (f : α → Bytes) (k : Nat) (hk : 0 < k) :
    ∀ (l1 l2 : List α), (∀ x ∈ l1, (f x).length = k) → (∀ x ∈ l2, (f x).length = k) →
      (∀ x ∈ l1, ∀ y ∈ l2, f x = f y → x = y) → l1.flatMap f = l2.flatMap f → l1 = l2
  | [], [], _, _, _, _ => rfl
  | [], y :: ys, _, h2, _, h => by
    have := congrArg List.length h
    rw [flatMap_chunk_length f k _ h2, List.length_cons, Nat.mul_succ] at this
    simp only [List.flatMap_nil, List.length_nil] at this; omega
  | x :: xs, [], h1, _, _, h => by
    have := congrArg List.length h
    rw [flatMap_chunk_length f k _ h1, List.length_cons, Nat.mul_succ] at this
    simp only [List.flatMap_nil, List.length_nil] at this; omega
  | x :: xs, y :: ys, h1, h2, hinj, h => by
    rw [List.flatMap_cons, List.flatMap_cons] at h
    obtain ⟨hxy, hrest⟩ := List.append_inj h
      (by rw [h1 x List.mem_cons_self, h2 y List.mem_cons_self])
    have e := hinj x List.mem_cons_self y List.mem_cons_self hxy
    rw [e, flatMap_chunk_inj f k hk xs ys (fun z hz => h1 z (List.mem_cons_of_mem _ hz))
      (fun z hz => h2 z (List.mem_cons_of_mem _ hz))
      (fun a ha b hb => hinj a (List.mem_cons_of_mem _ ha) b (List.mem_cons_of_mem _ hb)) hrest]

/-! ### Byte order (`bytes.Compare`) is a strict total order -/

theorem bytesLt_irrefl (a : Bytes) : bytesLt a a = false := by
  induction a with
  | nil => rfl
  | cons x xs ih => simp [bytesLt, ih]

theorem bytesLt_asymm : ∀ {a b : Bytes}, bytesLt a b = true → bytesLt b a = false
  | [], [], h => by simp [bytesLt] at h
  | [], _ :: _, _ => by simp [bytesLt]
  | _ :: _, [], h => by simp [bytesLt] at h
  | x :: xs, y :: ys, h => by
    simp only [bytesLt] at h ⊢
    by_cases hxy : x < y
    · have : ¬ y < x := by omega
      simp [this, hxy]
    · by_cases hyx : y < x
      · simp [hxy, hyx] at h
      · simp only [hxy, hyx, if_false] at h ⊢
        exact bytesLt_asymm h

theorem bytesLt_trans : ∀ {a b c : Bytes}, bytesLt a b = true → bytesLt b c = true → bytesLt a c = true
  | [], [], _, h, _ => by simp [bytesLt] at h
  | [], _ :: _, [], _, h => by simp [bytesLt] at h
  | [], _ :: _, _ :: _, _, _ => by simp [bytesLt]
  | _ :: _, [], _, h, _ => by simp [bytesLt] at h
  | _ :: _, _ :: _, [], _, h => by simp [bytesLt] at h
  | x :: xs, y :: ys, z :: zs, h1, h2 => by
    simp only [bytesLt] at h1 h2 ⊢
    by_cases hxy : x < y
    · by_cases hyz : y < z
      · have : x < z := by omega
        simp [this]
      · by_cases hzy : z < y
        · simp [hyz, hzy] at h2
        · have : x < z := by omega
          simp [this]
    · by_cases hyx : y < x
      · simp [hxy, hyx] at h1
      · simp only [hxy, hyx, if_false] at h1
        have exy : x = y := by omega
        subst exy
        by_cases hxz : x < z
        · simp [hxz]
        · by_cases hzx : z < x
          · simp [hxz, hzx] at h2
          · simp only [hxz, hzx, if_false] at h2 ⊢
            exact bytesLt_trans h1 h2

theorem bytesLt_total : ∀ {a b : Bytes}, bytesLt a b = false → bytesLt b a = false → a = b
  | [], [], _, _ => rfl
  | [], _ :: _, h, _ => by simp [bytesLt] at h
  | _ :: _, [], _, h => by simp [bytesLt] at h
  | x :: xs, y :: ys, h1, h2 => by
    simp only [bytesLt] at h1 h2
    by_cases hxy : x < y
    · simp [hxy] at h1
    · by_cases hyx : y < x
      · simp [hyx] at h2
      · simp only [hxy, hyx, if_false] at h1 h2
        have : x = y := by omega
        subst this
        rw [bytesLt_total h1 h2]

/-! ### Insertion sort -/

section Isort
variable {α : Type} (lt : α → α → Bool)

theorem isort_cons (x : α) (l : List α) : isort lt (x :: l) = insSorted lt x (isort lt l) := rfl

theorem insSorted_perm (x : α) : ∀ (l : List α), (insSorted lt x l).Perm (x :: l)
  | [] => List.Perm.refl _
  | y :: ys => by
    unfold insSorted
    split
    · exact List.Perm.refl _
    · exact ((insSorted_perm x ys).cons y).trans (List.Perm.swap x y ys)

/-- The sort only reorders. -/
theorem isort_perm : ∀ (l : List α), (isort lt l).Perm l
  | [] => List.Perm.refl _
  | x :: xs => by
    rw [isort_cons]
    exact (insSorted_perm lt x _).trans ((isort_perm xs).cons x)

theorem mem_insSorted {x y : α} {l : List α} : y ∈ insSorted lt x l ↔ y = x ∨ y ∈ l := by
  rw [(insSorted_perm lt x l).mem_iff, List.mem_cons]

theorem insSorted_sorted (hasymm : ∀ a b, lt a b = true → lt b a = false)
    (htrans : ∀ a b c, lt a b = true → lt b c = true → lt a c = true)
    {x : α} {l : List α} (hl : l.Pairwise fun a b => lt b a = false) :
    (insSorted lt x l).Pairwise fun a b => lt b a = false := by
  induction l with
  | nil => simp [insSorted]
  | cons z zs ih =>
    rw [List.pairwise_cons] at hl
    unfold insSorted
    split
    · rename_i hxz
      refine List.pairwise_cons.mpr ⟨?_, List.pairwise_cons.mpr hl⟩
      intro a ha
      rcases List.mem_cons.mp ha with rfl | ha'
      · exact hasymm _ _ hxz
      · cases hax : lt a x with
        | false => rfl
        | true => have := htrans _ _ _ hax hxz; rw [hl.1 a ha'] at this; cases this
    · rename_i hxz
      refine List.pairwise_cons.mpr ⟨?_, ih hl.2⟩
      intro a ha
      rcases (mem_insSorted lt).mp ha with rfl | ha'
      · simpa using hxz
      · exact hl.1 a ha'

/-- The output is sorted: no later element is smaller than an earlier one. -/
theorem isort_sorted (hasymm : ∀ a b, lt a b = true → lt b a = false)
    (htrans : ∀ a b c, lt a b = true → lt b c = true → lt a c = true) (l : List α) :
    (isort lt l).Pairwise fun a b => lt b a = false := by
  induction l with
  | nil => simp [isort]
  | cons x xs ih => rw [isort_cons]; exact insSorted_sorted lt hasymm htrans ih

/-- For a strict total order the sorted list depends only on the multiset of inputs. -/
theorem isort_eq_of_perm (hasymm : ∀ a b, lt a b = true → lt b a = false)
    (htrans : ∀ a b c, lt a b = true → lt b c = true → lt a c = true)
    (htotal : ∀ a b, lt a b = false → lt b a = false → a = b)
    {l1 l2 : List α} (h : l1.Perm l2) : isort lt l1 = isort lt l2 :=
  List.Perm.eq_of_pairwise (le := fun a b => lt b a = false)
    (fun a b _ _ hab hba => htotal a b hba hab)
    (isort_sorted lt hasymm htrans l1) (isort_sorted lt hasymm htrans l2)
    ((isort_perm lt l1).trans (h.trans (isort_perm lt l2).symm))

end Isort

/-! ### The signer order (`ExternalSigners.Sort`) -/

theorem signerLt_asymm (a b : Signer) (h : signerLt a b = true) : signerLt b a = false := by
  unfold signerLt at h ⊢
  by_cases hp : a.power = b.power
  · simp only [hp, beq_self_eq_true, if_true] at h ⊢
    exact bytesLt_asymm h
  · have hp' : ¬ b.power = a.power := fun e => hp e.symm
    simp only [beq_iff_eq, hp, hp', if_false, gt_iff_lt, decide_eq_true_eq, decide_eq_false_iff_not] at h ⊢
    omega

theorem signerLt_trans (a b c : Signer) (h1 : signerLt a b = true) (h2 : signerLt b c = true) :
    signerLt a c = true := by
  unfold signerLt at h1 h2 ⊢
  by_cases hab : a.power = b.power
  · by_cases hbc : b.power = c.power
    · have hac : a.power = c.power := hab.trans hbc
      simp only [hab, hbc, beq_self_eq_true, if_true] at h1 h2 ⊢
      exact bytesLt_trans h1 h2
    · have hac : ¬ a.power = c.power := fun e => hbc (hab.symm.trans e)
      simp only [beq_iff_eq, hbc, hac, if_false, gt_iff_lt, decide_eq_true_eq] at h2 ⊢
      omega
  · by_cases hbc : b.power = c.power
    · have hac : ¬ a.power = c.power := fun e => hab (e.trans hbc.symm)
      simp only [beq_iff_eq, hab, hac, if_false, gt_iff_lt, decide_eq_true_eq] at h1 ⊢
      omega
    · simp only [beq_iff_eq, hab, hbc, if_false, gt_iff_lt, decide_eq_true_eq] at h1 h2
      have hac : ¬ a.power = c.power := by omega
      simp only [beq_iff_eq, hac, if_false, gt_iff_lt, decide_eq_true_eq]
      omega

theorem signerLt_total (a b : Signer) (h1 : signerLt a b = false) (h2 : signerLt b a = false) : a = b := by
  unfold signerLt at h1 h2
  by_cases hp : a.power = b.power
  · simp only [hp, beq_self_eq_true, if_true] at h1 h2
    have := strBytes_inj (bytesLt_total h1 h2)
    cases a; cases b; simp_all
  · have hp' : ¬ b.power = a.power := fun e => hp e.symm
    simp only [beq_iff_eq, hp, hp', if_false, gt_iff_lt, decide_eq_false_iff_not] at h1 h2
    omega

theorem sortSigners_perm (l : List Signer) : (sortSigners l).Perm l := isort_perm signerLt l

theorem sortSigners_sorted (l : List Signer) :
    (sortSigners l).Pairwise fun a b => signerLt b a = false :=
  isort_sorted signerLt signerLt_asymm signerLt_trans l

theorem sortSigners_eq_of_perm {l1 l2 : List Signer} (h : l1.Perm l2) :
    sortSigners l1 = sortSigners l2 :=
  isort_eq_of_perm signerLt signerLt_asymm signerLt_trans signerLt_total h

/-- `ExternalSigners.Hash()` input as a concatenation of 28-byte records, when every address
    decodes to 20 bytes. -/
theorem signersHashPre_eq (l : List Signer) :
    signersHashPre l =
      ((sortSigners l).map fun s => (ethAddrBytes s.addr, s.power)).flatMap fun p => p.1 ++ be8 p.2 := by
  unfold signersHashPre
  rw [List.flatMap_map]

/-- The hashed bytes determine the sorted list of (address bytes, power) records. -/
theorem signersHashPre_inj {l1 l2 : List Signer}
    (h1 : ∀ s ∈ l1, (ethAddrBytes s.addr).length = 20 ∧ s.power < 2 ^ 64)
    (h2 : ∀ s ∈ l2, (ethAddrBytes s.addr).length = 20 ∧ s.power < 2 ^ 64)
    (h : signersHashPre l1 = signersHashPre l2) :
    (sortSigners l1).map (fun s => (ethAddrBytes s.addr, s.power))
      = (sortSigners l2).map (fun s => (ethAddrBytes s.addr, s.power)) := by
  rw [signersHashPre_eq, signersHashPre_eq] at h
  have mem : ∀ (l : List Signer), (∀ s ∈ l, (ethAddrBytes s.addr).length = 20 ∧ s.power < 2 ^ 64) →
      ∀ p ∈ (sortSigners l).map (fun s => (ethAddrBytes s.addr, s.power)),
        p.1.length = 20 ∧ p.2 < 2 ^ 64 := by
    intro l hl p hp
    obtain ⟨s, hs, rfl⟩ := List.mem_map.mp hp
    exact hl s ((sortSigners_perm l).mem_iff.mp hs)
  have len : ∀ (p : Bytes × Nat), p.1.length = 20 → (p.1 ++ be8 p.2).length = 28 := by
    intro p hp; rw [List.length_append, hp, be8_length]
  refine flatMap_chunk_inj (fun p : Bytes × Nat => p.1 ++ be8 p.2) 28 (by decide) _ _
    (fun p hp => len p (mem l1 h1 p hp).1) (fun p hp => len p (mem l2 h2 p hp).1) ?_ h
  intro p hp q hq e
  obtain ⟨e1, e2⟩ := List.append_inj e ((mem l1 h1 p hp).1.trans (mem l2 h2 q hq).1.symm)
  have := be8_inj (mem l1 h1 p hp).2 (mem l2 h2 q hq).2 e2
  cases p; cases q; simp_all

/-! ### The ABI encoder -/

/-- The Solidity type of a value. -/
def abiKind : AbiVal → Nat
  | .bytes32 _ => 0
  | .uint _ => 1
  | .address _ => 2
  | .uintArr _ => 3
  | .addrArr _ => 4
  | .dynBytes _ => 5

/-- The value inhabits its Solidity type: `bytes32` has 32 bytes, `address` has 20, `uint256`
    is below `2^256`, and array / `bytes` lengths fit a `uint256` length word. -/
def AbiWF : AbiVal → Prop
  | .bytes32 b => b.length = 32
  | .uint n => n < 2 ^ 256
  | .address b => b.length = 20
  | .uintArr l => l.length < 2 ^ 256 ∧ ∀ x ∈ l, x < 2 ^ 256
  | .addrArr l => l.length < 2 ^ 256 ∧ ∀ b ∈ l, b.length = 20
  | .dynBytes b => b.length < 2 ^ 256

theorem isDynamic_of_kind {v w : AbiVal} (h : abiKind v = abiKind w) : v.isDynamic = w.isDynamic := by
  cases v <;> cases w <;> simp [abiKind] at h <;> rfl

theorem static_body_length {v : AbiVal} (hv : AbiWF v) (hs : v.isDynamic = false) : v.body.length = 32 := by
  cases v with
  | bytes32 b => exact padRight_length (Nat.le_of_eq hv)
  | uint n => exact word_length n
  | address b => exact padLeft32_length (by have : b.length = 20 := hv; omega)
  | uintArr l => simp [AbiVal.isDynamic] at hs
  | addrArr l => simp [AbiVal.isDynamic] at hs
  | dynBytes b => simp [AbiVal.isDynamic] at hs

theorem uintArr_body_length (l : List Nat) : (AbiVal.uintArr l).body.length = 32 + 32 * l.length := by
  simp only [AbiVal.body, List.length_append, word_length]
  rw [flatMap_chunk_length word 32 l (fun x _ => word_length x)]

theorem addrArr_body_length {l : List Bytes} (h : ∀ b ∈ l, b.length = 20) :
    (AbiVal.addrArr l).body.length = 32 + 32 * l.length := by
  simp only [AbiVal.body, List.length_append, word_length]
  rw [flatMap_chunk_length padLeft32 32 l (fun x hx => padLeft32_length (by have := h x hx; omega))]

theorem dynBytes_body_length (b : Bytes) : (AbiVal.dynBytes b).body.length = 32 + roundUp32 b.length := by
  simp only [AbiVal.body, List.length_append, word_length]
  rw [padRight_length (roundUp32_ge _)]

/-- Every head word and every tail is a whole number of 32-byte words. -/
theorem body_length_mod {v : AbiVal} (hv : AbiWF v) : v.body.length % 32 = 0 := by
  cases v with
  | bytes32 b => rw [static_body_length hv rfl]
  | uint n => rw [static_body_length hv rfl]
  | address b => rw [static_body_length hv rfl]
  | uintArr l => rw [uintArr_body_length]; omega
  | addrArr l => rw [addrArr_body_length hv.2]; omega
  | dynBytes b => rw [dynBytes_body_length]; have := roundUp32_mod b.length; omega

theorem aux_cons_dyn (H : Nat) (v : AbiVal) (vs : List AbiVal) (off : Nat) (hd : v.isDynamic = true) :
    abiEncodeAux H (v :: vs) off =
      (word (H + off) ++ (abiEncodeAux H vs (off + v.body.length)).1,
       v.body ++ (abiEncodeAux H vs (off + v.body.length)).2) := by
  simp only [abiEncodeAux, hd, if_true]

theorem aux_cons_static (H : Nat) (v : AbiVal) (vs : List AbiVal) (off : Nat) (hd : v.isDynamic = false) :
    abiEncodeAux H (v :: vs) off = (v.body ++ (abiEncodeAux H vs off).1, (abiEncodeAux H vs off).2) := by
  simp only [abiEncodeAux, hd, Bool.false_eq_true, if_false]

/-- Total length of the tails of an argument list. -/
def tailsLen : List AbiVal → Nat
  | [] => 0
  | v :: vs => (if v.isDynamic then v.body.length else 0) + tailsLen vs

theorem aux_heads_length (H : Nat) : ∀ (args : List AbiVal) (off : Nat), (∀ v ∈ args, AbiWF v) →
    (abiEncodeAux H args off).1.length = 32 * args.length
  | [], _, _ => rfl
  | v :: vs, off, h => by
    have hv := h v List.mem_cons_self
    have hvs : ∀ w ∈ vs, AbiWF w := fun w hw => h w (List.mem_cons_of_mem _ hw)
    cases hd : v.isDynamic with
    | true =>
      rw [aux_cons_dyn H v vs off hd]
      simp only [List.length_append, word_length, List.length_cons, aux_heads_length H vs _ hvs]
      omega
    | false =>
      rw [aux_cons_static H v vs off hd]
      simp only [List.length_append, static_body_length hv hd, List.length_cons,
        aux_heads_length H vs _ hvs]
      omega

theorem aux_tails_length (H : Nat) : ∀ (args : List AbiVal) (off : Nat),
    (abiEncodeAux H args off).2.length = tailsLen args
  | [], _ => rfl
  | v :: vs, off => by
    cases hd : v.isDynamic with
    | true =>
      rw [aux_cons_dyn H v vs off hd]
      simp only [List.length_append, tailsLen, hd, if_true, aux_tails_length H vs]
    | false =>
      rw [aux_cons_static H v vs off hd]
      simp only [tailsLen, hd, Bool.false_eq_true, if_false, aux_tails_length H vs, Nat.zero_add]

/-- The tails do not depend on the offsets: they are the bodies of the dynamic arguments. -/
theorem aux_tails_eq (H : Nat) : ∀ (args : List AbiVal) (off : Nat),
    (abiEncodeAux H args off).2 = (args.filter (·.isDynamic)).flatMap (·.body)
  | [], _ => rfl
  | v :: vs, off => by
    cases hd : v.isDynamic with
    | true =>
      rw [aux_cons_dyn H v vs off hd]
      simp only [List.filter_cons, hd, if_true, List.flatMap_cons, aux_tails_eq H vs]
    | false =>
      rw [aux_cons_static H v vs off hd]
      simp only [List.filter_cons, hd, Bool.false_eq_true, if_false, aux_tails_eq H vs]

theorem tailsLen_mod : ∀ (args : List AbiVal), (∀ v ∈ args, AbiWF v) → tailsLen args % 32 = 0
  | [], _ => rfl
  | v :: vs, h => by
    have hv := body_length_mod (h v List.mem_cons_self)
    have := tailsLen_mod vs (fun w hw => h w (List.mem_cons_of_mem _ hw))
    unfold tailsLen
    split <;> omega

theorem abiEncode_eq (args : List AbiVal) :
    abiEncode args = (abiEncodeAux (32 * args.length) args 0).1 ++ (abiEncodeAux (32 * args.length) args 0).2 := rfl

/-- Length of `abi.encode(args…)`: one head word per argument plus the tails. -/
theorem abiEncode_length {args : List AbiVal} (h : ∀ v ∈ args, AbiWF v) :
    (abiEncode args).length = 32 * args.length + tailsLen args := by
  rw [abiEncode_eq, List.length_append, aux_heads_length _ _ _ h, aux_tails_length]

/-- A static value is determined by its head word. -/
theorem static_body_inj {v w : AbiVal} (hk : abiKind v = abiKind w) (hv : AbiWF v) (hw : AbiWF w)
    (hs : v.isDynamic = false) (h : v.body = w.body) : v = w := by
  cases v <;> cases w <;> simp [abiKind] at hk <;> simp [AbiVal.isDynamic] at hs
  · rename_i a b
    have ha : a.length = 32 := hv
    have hb : b.length = 32 := hw
    simp only [AbiVal.body] at h
    rw [padRight_of_le (Nat.le_of_eq ha.symm), padRight_of_le (Nat.le_of_eq hb.symm)] at h
    rw [h]
  · rename_i a b
    rw [word_inj hv hw h]
  · rename_i a b
    have ha : a.length = 20 := hv
    have hb : b.length = 20 := hw
    rw [padLeft32_inj (ha.trans hb.symm) h]

/-- A tail is self-delimiting: its first word fixes its length.  So a tail followed by anything
    is determined, together with what follows. -/
theorem dyn_body_inj {v w : AbiVal} {r r' : Bytes} (hk : abiKind v = abiKind w) (hv : AbiWF v)
    (hw : AbiWF w) (hd : v.isDynamic = true) (h : v.body ++ r = w.body ++ r') : v = w ∧ r = r' := by
  cases v <;> cases w <;> simp [abiKind] at hk <;> simp [AbiVal.isDynamic] at hd
  · rename_i a b
    simp only [AbiVal.body, List.append_assoc] at h
    obtain ⟨hlen, h⟩ := List.append_inj h (by rw [word_length, word_length])
    have hl : a.length = b.length := word_inj hv.1 hw.1 hlen
    obtain ⟨hb, hr⟩ := List.append_inj h (by
      rw [flatMap_chunk_length word 32 a (fun x _ => word_length x),
        flatMap_chunk_length word 32 b (fun x _ => word_length x), hl])
    have := flatMap_chunk_inj word 32 (by decide) a b (fun x _ => word_length x)
      (fun x _ => word_length x) (fun x hx y hy e => word_inj (hv.2 x hx) (hw.2 y hy) e) hb
    exact ⟨by rw [this], hr⟩
  · rename_i a b
    simp only [AbiVal.body, List.append_assoc] at h
    obtain ⟨hlen, h⟩ := List.append_inj h (by rw [word_length, word_length])
    have hl : a.length = b.length := word_inj hv.1 hw.1 hlen
    have ca : ∀ x ∈ a, (padLeft32 x).length = 32 :=
      fun x hx => padLeft32_length (by have := hv.2 x hx; omega)
    have cb : ∀ x ∈ b, (padLeft32 x).length = 32 :=
      fun x hx => padLeft32_length (by have := hw.2 x hx; omega)
    obtain ⟨hb, hr⟩ := List.append_inj h (by
      rw [flatMap_chunk_length padLeft32 32 a ca, flatMap_chunk_length padLeft32 32 b cb, hl])
    have := flatMap_chunk_inj padLeft32 32 (by decide) a b ca cb
      (fun x hx y hy e => padLeft32_inj ((hv.2 x hx).trans (hw.2 y hy).symm) e) hb
    exact ⟨by rw [this], hr⟩
  · rename_i a b
    simp only [AbiVal.body, List.append_assoc] at h
    obtain ⟨hlen, h⟩ := List.append_inj h (by rw [word_length, word_length])
    have hl : a.length = b.length := word_inj hv hw hlen
    obtain ⟨hb, hr⟩ := List.append_inj h (by
      rw [padRight_length (roundUp32_ge _), padRight_length (roundUp32_ge _), hl])
    rw [hl] at hb
    exact ⟨by rw [padRight_inj hl hb], hr⟩

/-- Heads and tails of two argument lists of the same Solidity types determine the arguments. -/
theorem aux_inj : ∀ (a1 a2 : List AbiVal), a1.map abiKind = a2.map abiKind →
    (∀ v ∈ a1, AbiWF v) → (∀ v ∈ a2, AbiWF v) → ∀ (H H' off off' : Nat),
    (abiEncodeAux H a1 off).1 = (abiEncodeAux H' a2 off').1 →
    (abiEncodeAux H a1 off).2 = (abiEncodeAux H' a2 off').2 → a1 = a2
  | [], [], _, _, _, _, _, _, _, _, _ => rfl
  | [], _ :: _, hk, _, _, _, _, _, _, _, _ => by simp at hk
  | _ :: _, [], hk, _, _, _, _, _, _, _, _ => by simp at hk
  | v :: vs, w :: ws, hk, h1, h2, H, H', off, off', hh, ht => by
    simp only [List.map_cons, List.cons.injEq] at hk
    have hv := h1 v List.mem_cons_self
    have hw := h2 w List.mem_cons_self
    have hvs : ∀ x ∈ vs, AbiWF x := fun x hx => h1 x (List.mem_cons_of_mem _ hx)
    have hws : ∀ x ∈ ws, AbiWF x := fun x hx => h2 x (List.mem_cons_of_mem _ hx)
    have hdw := isDynamic_of_kind hk.1
    cases hd : v.isDynamic with
    | true =>
      rw [aux_cons_dyn H v vs off hd, aux_cons_dyn H' w ws off' (hdw ▸ hd)] at hh ht
      simp only at hh ht
      obtain ⟨_, hh'⟩ := List.append_inj hh (by rw [word_length, word_length])
      obtain ⟨e, ht'⟩ := dyn_body_inj hk.1 hv hw hd ht
      rw [e, aux_inj vs ws hk.2 hvs hws _ _ _ _ hh' ht']
    | false =>
      rw [aux_cons_static H v vs off hd, aux_cons_static H' w ws off' (hdw ▸ hd)] at hh ht
      simp only at hh ht
      obtain ⟨hb, hh'⟩ := List.append_inj hh (by
        rw [static_body_length hv hd, static_body_length hw (hdw ▸ hd)])
      rw [static_body_inj hk.1 hv hw hd hb, aux_inj vs ws hk.2 hvs hws _ _ _ _ hh' ht]

/-- `abi.encode` is injective on well-typed argument lists of one signature. -/
theorem abiEncode_inj {a1 a2 : List AbiVal} (hk : a1.map abiKind = a2.map abiKind)
    (h1 : ∀ v ∈ a1, AbiWF v) (h2 : ∀ v ∈ a2, AbiWF v) (h : abiEncode a1 = abiEncode a2) : a1 = a2 := by
  rw [abiEncode_eq, abiEncode_eq] at h
  have hl : a1.length = a2.length := by simpa using congrArg List.length hk
  obtain ⟨hh, ht⟩ := List.append_inj h (by rw [aux_heads_length _ _ _ h1, aux_heads_length _ _ _ h2, hl])
  exact aux_inj a1 a2 hk h1 h2 _ _ _ _ hh ht

theorem wf_solArgsSignerSet {g m : Bytes} {n : Nat} {vs : List Bytes} {ps : List Nat}
    (hg : g.length = 32) (hm : m.length = 32) (hn : n < 2 ^ 256)
    (hlv : vs.length < 2 ^ 256) (hv : ∀ v ∈ vs, v.length = 20)
    (hlp : ps.length < 2 ^ 256) (hp : ∀ p ∈ ps, p < 2 ^ 256) :
    ∀ v ∈ solArgsSignerSet g m n vs ps, AbiWF v := by
  intro v hv'
  simp only [solArgsSignerSet, List.mem_cons, List.not_mem_nil, or_false] at hv'
  rcases hv' with rfl | rfl | rfl | rfl | rfl
  · exact hg
  · exact hm
  · exact hn
  · exact ⟨hlv, hv⟩
  · exact ⟨hlp, hp⟩

theorem wf_solArgsBatch {g m : Bytes} {am : List Nat} {ds : List Bytes} {fs : List Nat} {n : Nat}
    {tk : Bytes} {to : Nat}
    (hg : g.length = 32) (hm : m.length = 32)
    (hla : am.length < 2 ^ 256) (ha : ∀ a ∈ am, a < 2 ^ 256)
    (hld : ds.length < 2 ^ 256) (hd : ∀ d ∈ ds, d.length = 20)
    (hlf : fs.length < 2 ^ 256) (hf : ∀ f ∈ fs, f < 2 ^ 256)
    (hn : n < 2 ^ 256) (ht : tk.length = 20) (hto : to < 2 ^ 256) :
    ∀ v ∈ solArgsBatch g m am ds fs n tk to, AbiWF v := by
  intro v hv'
  simp only [solArgsBatch, List.mem_cons, List.not_mem_nil, or_false] at hv'
  rcases hv' with rfl | rfl | rfl | rfl | rfl | rfl | rfl | rfl
  · exact hg
  · exact hm
  · exact ⟨hla, ha⟩
  · exact ⟨hld, hd⟩
  · exact ⟨hlf, hf⟩
  · exact hn
  · exact ht
  · exact hto

/-- Both checkpoint encodings start with the gravity id followed by the method name. -/
theorem abiEncode_two_bytes32 {g m : Bytes} (hg : g.length = 32) (hm : m.length = 32) (rest : List AbiVal) :
    abiEncode (.bytes32 g :: .bytes32 m :: rest) =
      g ++ (m ++ ((abiEncodeAux (32 * (rest.length + 2)) rest 0).1 ++
        (abiEncodeAux (32 * (rest.length + 2)) rest 0).2)) := by
  rw [abiEncode_eq, aux_cons_static _ _ _ _ rfl, aux_cons_static _ _ _ _ rfl]
  simp only [AbiVal.body, padRight_of_le (Nat.le_of_eq hg.symm), padRight_of_le (Nat.le_of_eq hm.symm),
    List.append_assoc, List.length_cons]

/-- A batch as the hub produces it: `uint256` amounts and fees, 20-byte destinations and token,
    and lists short enough for a `uint256` length word. -/
structure BatchViewWF (b : BatchView) : Prop where
  amounts_lt : ∀ a ∈ b.amounts, a < 2 ^ 256
  dests_len : ∀ d ∈ b.destinations, d.length = 20
  fees_lt : ∀ f ∈ b.fees, f < 2 ^ 256
  amounts_short : b.amounts.length < 2 ^ 256
  dests_short : b.destinations.length < 2 ^ 256
  fees_short : b.fees.length < 2 ^ 256
  nonce_lt : b.nonce < 2 ^ 256
  token_len : b.token.length = 20
  timeout_lt : b.timeout < 2 ^ 256

end Enc
end Mhub2
