/-
  Helper lemmas for contract (logic) call checkpoints: well-typedness of the `submitLogicCall`
  argument list, the method-name word of a checkpoint pre-image, the invalidation-scope truncation
  `scope32`, and the recovery-byte normalisation `normV`.  Used by Props/C07Call.lean.

  Everything lives in `Mhub2.Enc`.  `keccak256` is never unfolded.
-/
import Mhub2.Abi
import Lemmas.Encoding
namespace Mhub2
namespace Enc

/-! ### The `submitLogicCall` argument list -/

theorem wf_solArgsCall {g m : Bytes} {ta : List Nat} {tt : List Bytes} {fa : List Nat} {ft : List Bytes}
    {lc pl : Bytes} {to : Nat} {iid : Bytes} {inonce : Nat}
    (hg : g.length = 32) (hm : m.length = 32)
    (hlta : ta.length < 2 ^ 256) (hta : ∀ a ∈ ta, a < 2 ^ 256)
    (hltt : tt.length < 2 ^ 256) (htt : ∀ t ∈ tt, t.length = 20)
    (hlfa : fa.length < 2 ^ 256) (hfa : ∀ a ∈ fa, a < 2 ^ 256)
    (hlft : ft.length < 2 ^ 256) (hft : ∀ t ∈ ft, t.length = 20)
    (hlc : lc.length = 20) (hpl : pl.length < 2 ^ 256) (hto : to < 2 ^ 256)
    (hiid : iid.length = 32) (hin : inonce < 2 ^ 256) :
    ∀ v ∈ solArgsCall g m ta tt fa ft lc pl to iid inonce, AbiWF v := by
  intro v hv'
  simp only [solArgsCall, List.mem_cons, List.not_mem_nil, or_false] at hv'
  rcases hv' with rfl | rfl | rfl | rfl | rfl | rfl | rfl | rfl | rfl | rfl | rfl
  · exact hg
  · exact hm
  · exact ⟨hlta, hta⟩
  · exact ⟨hltt, htt⟩
  · exact ⟨hlfa, hfa⟩
  · exact ⟨hlft, hft⟩
  · exact hlc
  · exact hpl
  · exact hto
  · exact hiid
  · exact hin

/-- The Solidity signature of `submitLogicCall`'s `abi.encode` does not depend on the values. -/
theorem solArgsCall_kinds (g m : Bytes) (ta : List Nat) (tt : List Bytes) (fa : List Nat) (ft : List Bytes)
    (lc pl : Bytes) (to : Nat) (iid : Bytes) (inonce : Nat) :
    (solArgsCall g m ta tt fa ft lc pl to iid inonce).map abiKind = [0, 0, 3, 4, 3, 4, 2, 5, 1, 0, 1] := rfl

/-! ### The first two words of a checkpoint pre-image -/

/-- The second 32-byte word of a pre-image that starts `(bytes32, bytes32, …)` is the second
    argument: for every checkpoint, its method name. -/
theorem abiEncode_method_word {g m : Bytes} (hg : g.length = 32) (hm : m.length = 32) (rest : List AbiVal) :
    ((abiEncode (.bytes32 g :: .bytes32 m :: rest)).drop 32).take 32 = m := by
  rw [abiEncode_two_bytes32 hg hm, List.drop_left' hg, List.take_left' hm]

/-- … and the first word is the gravity id. -/
theorem abiEncode_gravity_word {g m : Bytes} (hg : g.length = 32) (hm : m.length = 32) (rest : List AbiVal) :
    (abiEncode (.bytes32 g :: .bytes32 m :: rest)).take 32 = g := by
  rw [abiEncode_two_bytes32 hg hm, List.take_left' hg]

/-- Two pre-images `(gravityId, methodName, …)` with different method names differ, whatever the
    remaining arguments (of any number and type) are. -/
theorem abiEncode_two_bytes32_ne {g1 g2 m1 m2 : Bytes} (hg1 : g1.length = 32) (hg2 : g2.length = 32)
    (hm1 : m1.length = 32) (hm2 : m2.length = 32) (hne : m1 ≠ m2) (r1 r2 : List AbiVal) :
    abiEncode (.bytes32 g1 :: .bytes32 m1 :: r1) ≠ abiEncode (.bytes32 g2 :: .bytes32 m2 :: r2) := by
  intro h
  have e1 := abiEncode_method_word hg1 hm1 r1
  have e2 := abiEncode_method_word hg2 hm2 r2
  rw [h] at e1
  exact hne (e1.symm.trans e2)

/-! ### `scope32`: the invalidation scope as the contract's `bytes32` -/

theorem scope32_len (s : Bytes) : (scope32 s).length = 32 := by
  unfold scope32 padRight
  simp only [List.length_append, List.length_replicate, List.length_take]
  omega

theorem scope32_of_len32 {s : Bytes} (h : s.length = 32) : scope32 s = s := by
  unfold scope32
  rw [List.take_of_length_le (by omega), padRight_of_le (by omega)]

/-- Only the first 32 bytes of a scope reach the digest. -/
theorem scope32_take (s : Bytes) : scope32 (s.take 32) = scope32 s := by
  unfold scope32
  rw [List.take_take, Nat.min_self]

/-- Everything after byte 32 is ignored. -/
theorem scope32_append_of_len32 {s : Bytes} (h : s.length = 32) (t : Bytes) : scope32 (s ++ t) = s := by
  unfold scope32
  rw [List.take_left' h, padRight_of_le (by omega)]

/-- Trailing zero bytes of a short scope are invisible: the id is right padded with zeros anyway. -/
theorem scope32_append_zeros {s : Bytes} {k : Nat} (h : s.length + k ≤ 32) :
    scope32 (s ++ List.replicate k 0) = scope32 s := by
  unfold scope32 padRight
  rw [List.take_of_length_le (by simp; omega), List.take_of_length_le (by omega)]
  simp only [List.length_append, List.length_replicate, List.append_assoc,
    List.replicate_append_replicate]
  congr 2
  omega

/-- Scopes of one length (at most 32) are never confused. -/
theorem scope32_inj_of_len {s1 s2 : Bytes} (hl : s1.length = s2.length) (h32 : s1.length ≤ 32)
    (h : scope32 s1 = scope32 s2) : s1 = s2 := by
  unfold scope32 at h
  rw [List.take_of_length_le h32, List.take_of_length_le (by omega)] at h
  exact padRight_inj hl h

/-! ### `normV`: the recovery byte -/

theorem normV_of_27 {sig : Bytes} (h : sig.getD 64 0 = 27) : normV sig = sig.set 64 0 := by
  unfold normV
  rw [h]; rfl

theorem normV_of_28 {sig : Bytes} (h : sig.getD 64 0 = 28) : normV sig = sig.set 64 1 := by
  unfold normV
  rw [h]; rfl

/-- Every other recovery byte — and with it the whole signature — is passed through unchanged. -/
theorem normV_of_other {sig : Bytes} (h27 : sig.getD 64 0 ≠ 27) (h28 : sig.getD 64 0 ≠ 28) :
    normV sig = sig := by
  unfold normV
  simp only [Bool.or_eq_true, beq_iff_eq, h27, h28, or_self, if_false]

/-- A non-zero byte 64 exists only in a signature of at least 65 bytes. -/
theorem length_of_getD64_ne_zero {sig : Bytes} (h : sig.getD 64 0 ≠ 0) : 65 ≤ sig.length := by
  apply Classical.byContradiction
  intro hn
  apply h
  simp only [List.getD_eq_getElem?_getD, List.getElem?_eq_none (show sig.length ≤ 64 by omega),
    Option.getD_none]

end Enc
end Mhub2
