import Mhub2.Ledger
import Lemmas.Arith
namespace Mhub2

theorem foldl_add_init (l : List Int) (a : Int) : l.foldl (· + ·) a = a + l.foldl (· + ·) 0 := by
  induction l generalizing a with
  | nil => simp
  | cons x xs ih =>
    simp only [List.foldl_cons]
    rw [ih (a + x), ih (0 + x)]
    omega

@[simp] theorem sumInts_nil : sumInts [] = 0 := rfl
theorem sumInts_cons (x : Int) (l : List Int) : sumInts (x :: l) = x + sumInts l := by
  unfold sumInts
  simp only [List.foldl_cons]
  rw [foldl_add_init]
  omega

theorem sumInts_nonneg {l : List Int} (h : ∀ x ∈ l, 0 ≤ x) : 0 ≤ sumInts l := by
  induction l with
  | nil => simp
  | cons x xs ih =>
    rw [sumInts_cons]
    have := h x (by simp)
    have := ih (fun y hy => h y (by simp [hy]))
    omega

theorem foldl_addN_init (l : List Nat) (a : Nat) : l.foldl (· + ·) a = a + l.foldl (· + ·) 0 := by
  induction l generalizing a with
  | nil => simp
  | cons x xs ih =>
    simp only [List.foldl_cons]
    rw [ih (a + x), ih (0 + x)]
    omega

@[simp] theorem sumNats_nil : sumNats [] = 0 := rfl
theorem sumNats_cons (x : Nat) (l : List Nat) : sumNats (x :: l) = x + sumNats l := by
  unfold sumNats
  simp only [List.foldl_cons]
  rw [foldl_addN_init]
  omega

/-- floor(a/G) + floor(b/G) ≤ floor((a+b)/G) -/
theorem ediv_add_le {a b G : Int} (hG : 0 < G) : a / G + b / G ≤ (a + b) / G := by
  apply Int.le_ediv_of_mul_le hG
  have h1 := Int.ediv_mul_le a (Int.ne_of_gt hG)
  have h2 := Int.ediv_mul_le b (Int.ne_of_gt hG)
  rw [Int.add_mul]
  omega

/-- Σ floor(L·cᵢ/G) ≤ floor(L·Σcᵢ/G) -/
theorem sum_floor_le (L G : Int) (hG : 0 < G) (cs : List Int) :
    sumInts (cs.map fun c => (L * c) / G) ≤ (L * sumInts cs) / G := by
  induction cs with
  | nil => simp
  | cons c cs ih =>
    simp only [List.map_cons, sumInts_cons]
    calc L * c / G + sumInts (cs.map fun c => (L * c) / G)
        ≤ L * c / G + (L * sumInts cs) / G := by omega
      _ ≤ (L * c + L * sumInts cs) / G := ediv_add_le hG
      _ = (L * (c + sumInts cs)) / G := by rw [Int.mul_add]

theorem sumInts_map_natCast (ps : List Nat) :
    sumInts (ps.map fun (p : Nat) => (p : Int)) = ((sumNats ps : Nat) : Int) := by
  induction ps with
  | nil => rfl
  | cons q qs ih =>
    simp only [List.map_cons, sumInts_cons, sumNats_cons, ih]
    omega

theorem tdiv_eq_ediv_nonneg {a b : Int} (ha : 0 ≤ a) : Int.tdiv a b = a / b :=
  Int.tdiv_eq_ediv_of_nonneg ha

end Mhub2
