/-
  Helper lemmas for the vote bookkeeping (C02, C03): `bytesLt` is a strict total order, what
  `insertByKey` does to a sorted store, injectivity of `be8` below 2^64, the operation-level vote
  machine over `ChainSt`, and its invariants.
-/
import Mhub2.Votes
import Lemmas.Assoc
import Lemmas.Bank
namespace Mhub2

/-! ### `bytesLt` is a strict total order -/

theorem bytesLt_irrefl (a : Bytes) : bytesLt a a = false := by
  induction a with
  | nil => rfl
  | cons x xs ih => simp [bytesLt, ih]

theorem bytesLt_trans {a b c : Bytes} (h1 : bytesLt a b = true) (h2 : bytesLt b c = true) :
    bytesLt a c = true := by
  induction a generalizing b c with
  | nil =>
    cases b with
    | nil => simp [bytesLt] at h1
    | cons y ys =>
      cases c with
      | nil => simp [bytesLt] at h2
      | cons z zs => simp [bytesLt]
  | cons x xs ih =>
    cases b with
    | nil => simp [bytesLt] at h1
    | cons y ys =>
      cases c with
      | nil => simp [bytesLt] at h2
      | cons z zs =>
        simp only [bytesLt] at h1 h2 ⊢
        split at h1
        · split at h2
          · have : x < z := by omega
            simp [this]
          · split at h2
            · simp at h2
            · have : x < z := by omega
              simp [this]
        · split at h1
          · simp at h1
          · split at h2
            · have : x < z := by omega
              simp [this]
            · split at h2
              · simp at h2
              · have hxz : ¬ x < z := by omega
                have hzx : ¬ z < x := by omega
                simp only [hxz, hzx, if_false]
                exact ih h1 h2

theorem bytesLt_total {a b : Bytes} (h1 : bytesLt a b = false) (h2 : bytesLt b a = false) : a = b := by
  induction a generalizing b with
  | nil =>
    cases b with
    | nil => rfl
    | cons y ys => simp [bytesLt] at h1
  | cons x xs ih =>
    cases b with
    | nil => simp [bytesLt] at h2
    | cons y ys =>
      simp only [bytesLt] at h1 h2
      by_cases hxy : x < y
      · simp [hxy] at h1
      · by_cases hyx : y < x
        · simp [hyx] at h2
        · simp only [hxy, hyx, if_false] at h1 h2
          have : x = y := by omega
          subst this
          rw [ih h1 h2]

theorem bytesLt_ne {a b : Bytes} (h : bytesLt a b = true) : a ≠ b := by
  intro e; subst e; rw [bytesLt_irrefl] at h; cases h

/-! ### Sorted stores and `insertByKey` -/

/-- The store is strictly ascending by key (so keys are pairwise distinct). -/
def SortedBy {α : Type} (key : α → Bytes) (l : List α) : Prop :=
  l.Pairwise (fun a b => bytesLt (key a) (key b) = true)

theorem sortedBy_nil {α : Type} (key : α → Bytes) : SortedBy key [] := List.Pairwise.nil

theorem mem_insertByKey_imp {α : Type} {key : α → Bytes} {x y : α} {l : List α}
    (h : y ∈ insertByKey key x l) : y = x ∨ y ∈ l := by
  induction l with
  | nil => simpa [insertByKey] using h
  | cons z zs ih =>
    unfold insertByKey at h
    split at h
    · simpa using h
    · split at h
      · rcases List.mem_cons.mp h with h | h
        · exact Or.inr (by simp [h])
        · rcases ih h with h | h
          · exact Or.inl h
          · exact Or.inr (List.mem_cons_of_mem _ h)
      · rcases List.mem_cons.mp h with h | h
        · exact Or.inl h
        · exact Or.inr (List.mem_cons_of_mem _ h)

theorem sorted_insertByKey {α : Type} {key : α → Bytes} (x : α) {l : List α}
    (hs : SortedBy key l) : SortedBy key (insertByKey key x l) := by
  induction l with
  | nil => simp [insertByKey, SortedBy]
  | cons z zs ih =>
    unfold SortedBy at hs
    obtain ⟨hz, hzs⟩ := List.pairwise_cons.mp hs
    unfold insertByKey
    split
    · rename_i hlt
      refine List.pairwise_cons.mpr ⟨?_, hs⟩
      intro a ha
      rcases List.mem_cons.mp ha with ha | ha
      · subst ha; exact hlt
      · exact bytesLt_trans hlt (hz a ha)
    · split
      · rename_i _ hlt
        refine List.pairwise_cons.mpr ⟨?_, ih hzs⟩
        intro a ha
        rcases mem_insertByKey_imp ha with ha | ha
        · subst ha; exact hlt
        · exact hz a ha
      · rename_i h1 h2
        have hk : key x = key z :=
          bytesLt_total (by simpa using h1) (by simpa using h2)
        refine List.pairwise_cons.mpr ⟨?_, hzs⟩
        intro a ha
        rw [hk]; exact hz a ha

/-- In a sorted store, `insertByKey` is `Set`: the new entry, plus the old entries under other keys. -/
theorem mem_insertByKey_sorted {α : Type} {key : α → Bytes} {x y : α} {l : List α}
    (hs : SortedBy key l) : y ∈ insertByKey key x l ↔ y = x ∨ (y ∈ l ∧ key y ≠ key x) := by
  induction l with
  | nil => simp [insertByKey]
  | cons z zs ih =>
    unfold SortedBy at hs
    obtain ⟨hz, hzs⟩ := List.pairwise_cons.mp hs
    unfold insertByKey
    split
    · rename_i hlt
      constructor
      · intro h
        rcases List.mem_cons.mp h with h | h
        · exact Or.inl h
        · refine Or.inr ⟨h, ?_⟩
          rcases List.mem_cons.mp h with h | h
          · subst h; exact (bytesLt_ne hlt).symm
          · exact (bytesLt_ne (bytesLt_trans hlt (hz y h))).symm
      · rintro (h | ⟨h, _⟩)
        · simp [h]
        · exact List.mem_cons_of_mem _ h
    · split
      · rename_i _ hlt
        constructor
        · intro h
          rcases List.mem_cons.mp h with h | h
          · subst h; exact Or.inr ⟨by simp, bytesLt_ne hlt⟩
          · rcases (ih hzs).mp h with h | ⟨h, hk⟩
            · exact Or.inl h
            · exact Or.inr ⟨List.mem_cons_of_mem _ h, hk⟩
        · rintro (h | ⟨h, hk⟩)
          · exact List.mem_cons_of_mem _ ((ih hzs).mpr (Or.inl h))
          · rcases List.mem_cons.mp h with h | h
            · simp [h]
            · exact List.mem_cons_of_mem _ ((ih hzs).mpr (Or.inr ⟨h, hk⟩))
      · rename_i h1 h2
        have hk : key x = key z :=
          bytesLt_total (by simpa using h1) (by simpa using h2)
        constructor
        · intro h
          rcases List.mem_cons.mp h with h | h
          · exact Or.inl h
          · refine Or.inr ⟨List.mem_cons_of_mem _ h, ?_⟩
            rw [hk]; exact (bytesLt_ne (hz y h)).symm
        · rintro (h | ⟨h, hne⟩)
          · simp [h]
          · rcases List.mem_cons.mp h with h | h
            · subst h; exact absurd hk.symm hne
            · exact List.mem_cons_of_mem _ h

theorem sorted_key_inj {α : Type} {key : α → Bytes} {l : List α} (hs : SortedBy key l)
    {a b : α} (ha : a ∈ l) (hb : b ∈ l) (hk : key a = key b) : a = b := by
  induction l with
  | nil => cases ha
  | cons z zs ih =>
    unfold SortedBy at hs
    obtain ⟨hz, hzs⟩ := List.pairwise_cons.mp hs
    rcases List.mem_cons.mp ha with ha' | ha' <;> rcases List.mem_cons.mp hb with hb' | hb'
    · rw [ha', hb']
    · subst ha'; exact absurd hk (bytesLt_ne (hz b hb'))
    · subst hb'; exact absurd hk.symm (bytesLt_ne (hz a ha'))
    · exact ih hzs ha' hb'

/-! ### `be8` is injective below 2^64 -/

theorem beBytes_length (w n : Nat) : (beBytes w n).length = w := by
  induction w generalizing n with
  | zero => rfl
  | succ w ih => simp [beBytes, ih]

theorem beBytes_mod {w a b : Nat} (h : beBytes w a = beBytes w b) : a % 256 ^ w = b % 256 ^ w := by
  induction w generalizing a b with
  | zero => simp [Nat.mod_one]
  | succ w ih =>
    simp only [beBytes] at h
    obtain ⟨h1, h2⟩ := List.append_inj' h rfl
    have h3 := ih h1
    have h4 : a % 256 = b % 256 := by simpa using h2
    rw [Nat.pow_succ, Nat.mul_comm, Nat.mod_mul, Nat.mod_mul, h3, h4]

theorem be8_inj {a b : Nat} (ha : a < 2 ^ 64) (hb : b < 2 ^ 64) (h : be8 a = be8 b) : a = b := by
  have := beBytes_mod h
  have e : (256 : Nat) ^ 8 = 2 ^ 64 := by decide
  rw [e, Nat.mod_eq_of_lt ha, Nat.mod_eq_of_lt hb] at this
  exact this

theorem be8_append_inj {a b : Nat} {x y : Bytes} (h : be8 a ++ x = be8 b ++ y) :
    be8 a = be8 b ∧ x = y :=
  List.append_inj h (by simp [be8, beBytes_length])

theorem recKey_inj {r1 r2 : VoteRec} (h1 : r1.nonce < 2 ^ 64) (h2 : r2.nonce < 2 ^ 64)
    (h : recKey r1 = recKey r2) : r1.nonce = r2.nonce ∧ r1.hash = r2.hash := by
  obtain ⟨ha, hb⟩ := be8_append_inj h
  exact ⟨be8_inj h1 h2 ha, hb⟩

/-! ### Sums and the threshold test -/

theorem foldl_add_int (l : List Int) (a : Int) : l.foldl (· + ·) a = a + l.foldl (· + ·) 0 := by
  induction l generalizing a with
  | nil => simp
  | cons x xs ih =>
    simp only [List.foldl_cons]
    rw [ih (a + x), ih (0 + x)]; omega

theorem sumInts_nil : sumInts [] = 0 := rfl

theorem sumInts_cons (x : Int) (l : List Int) : sumInts (x :: l) = x + sumInts l := by
  unfold sumInts
  simp only [List.foldl_cons]
  rw [foldl_add_int]; omega

/-- The voting power behind a vote list: every listed validator's power, added once per entry. -/
def votePower (power : String → Nat) (votes : List String) : Int :=
  sumInts (votes.map fun v => (power v : Int))

theorem votePower_nonneg (power : String → Nat) (votes : List String) : 0 ≤ votePower power votes := by
  unfold votePower
  induction votes with
  | nil => simp [sumInts_nil]
  | cons v vs ih => simp only [List.map_cons, sumInts_cons]; omega

theorem reachesThreshold_le {power : String → Nat} {required : Int} :
    ∀ (vs : List String) (acc : Int), reachesThreshold power required vs acc = true →
      required ≤ acc + votePower power vs := by
  intro vs
  induction vs with
  | nil => intro acc h; simp [reachesThreshold] at h
  | cons v vs ih =>
    intro acc h
    have hnn := votePower_nonneg power vs
    unfold votePower at hnn ih ⊢
    simp only [List.map_cons, sumInts_cons]
    unfold reachesThreshold at h
    simp only at h
    split at h
    · omega
    · have := ih _ h; omega

theorem accepts_iff {c : ChainSt} {power : String → Nat} {required : Int} {r : VoteRec} :
    c.accepts power required r = true ↔
      r.nonce = c.lastObserved + 1 ∧ r.accepted = false ∧ reachesThreshold power required r.votes 0 = true := by
  simp [ChainSt.accepts, and_assoc]

/-! ### What `recordVote` does -/

theorem validBasic_nonce_ne_zero {ev : Event} (h : ev.validBasic = true) : ev.nonce ≠ 0 := by
  cases ev <;> simp [Event.validBasic] at h <;> simp [Event.nonce] <;> omega

/-- The record `recordVote` starts from: the stored one under the claim's key, or a fresh one. -/
def voteBase (c : ChainSt) (ev : Event) (hash : Bytes) : VoteRec :=
  match c.records.find? (fun r => recKey r == be8 ev.nonce ++ hash) with
  | some r => r
  | none => { nonce := ev.nonce, hash := hash, ev := ev, votes := [], accepted := false }

theorem voteBase_cases (c : ChainSt) (ev : Event) (hash : Bytes) :
    (voteBase c ev hash ∈ c.records ∧ recKey (voteBase c ev hash) = be8 ev.nonce ++ hash) ∨
    ((∀ r ∈ c.records, recKey r ≠ be8 ev.nonce ++ hash) ∧
      voteBase c ev hash = { nonce := ev.nonce, hash := hash, ev := ev, votes := [], accepted := false }) := by
  unfold voteBase
  cases hf : c.records.find? (fun r => recKey r == be8 ev.nonce ++ hash) with
  | some r =>
    left
    exact ⟨List.mem_of_find?_eq_some hf, by simpa using List.find?_some hf⟩
  | none =>
    right
    refine ⟨?_, rfl⟩
    intro r hr
    have := List.find?_eq_none.mp hf r hr
    simpa using this

theorem voteBase_key (c : ChainSt) (ev : Event) (hash : Bytes) :
    recKey (voteBase c ev hash) = be8 ev.nonce ++ hash := by
  rcases voteBase_cases c ev hash with h | h
  · exact h.2
  · rw [h.2]; rfl

/-- The record written by a vote. -/
def votedRec (c : ChainSt) (ev : Event) (hash : Bytes) (v : String) : VoteRec :=
  { voteBase c ev hash with votes := (voteBase c ev hash).votes ++ [v] }

theorem recordVote_ok {c c' : ChainSt} {ev : Event} {hash : Bytes} {v : String}
    (h : c.recordVote ev hash v = .ok c') :
    (c.lastNonceOf v = 0 ∨ ev.nonce = c.lastNonceOf v + 1) ∧
    c' = { c with records := insertByKey recKey (votedRec c ev hash v) c.records,
                  lastNonceBy := alSet c.lastNonceBy v ev.nonce } := by
  unfold ChainSt.recordVote at h
  simp only at h
  split at h
  · simp [failM] at h
  · rename_i hc
    constructor
    · simp at hc
      by_cases h0 : c.lastNonceOf v = 0
      · exact Or.inl h0
      · exact Or.inr (by
          by_cases h1 : ev.nonce = c.lastNonceOf v + 1
          · exact h1
          · exact absurd (hc h1) h0)
    · injection h with h
      rw [← h]; rfl

theorem lastNonceOf_some {c : ChainSt} {v : String} {n : Nat} (h : alGet c.lastNonceBy v = some n) :
    c.lastNonceOf v = n := by
  simp [ChainSt.lastNonceOf, h]

/-! ### The vote machine -/

/-- One operation on the vote bookkeeping of a chain: a validator's claim (already resolved to the
    validator and hashed), or the end-block tally with the staking view it sees. -/
inductive VOp where
  | vote (v : String) (ev : Event) (hash : Bytes)
  | tally (power : String → Nat) (required : Int) (height : Nat)

def vstep (c : ChainSt) : VOp → ChainSt
  | .vote v ev hash =>
    if ev.validBasic then
      (match c.recordVote ev hash v with
       | .ok c' => c'
       | .error _ => c)
    else c
  | .tally p req ht => (c.tallyPure p req ht).1

def vrun (ops : List VOp) : ChainSt := ops.foldl vstep {}

theorem vstep_vote (c : ChainSt) (v : String) (ev : Event) (hash : Bytes) :
    vstep c (.vote v ev hash) =
      if ev.validBasic then
        (match c.recordVote ev hash v with
         | .ok c' => c'
         | .error _ => c)
      else c := rfl

theorem vstep_tally (c : ChainSt) (p : String → Nat) (req : Int) (ht : Nat) :
    vstep c (.tally p req ht) = (c.tallyPure p req ht).1 := rfl

/-- The machine with a ghost: every record applied by a tally so far, in order. -/
def vstepA (s : ChainSt × List VoteRec) (op : VOp) : ChainSt × List VoteRec :=
  match op with
  | .vote .. => (vstep s.1 op, s.2)
  | .tally p req ht => ((s.1.tallyPure p req ht).1, s.2 ++ (s.1.tallyPure p req ht).2)

def vrunA (ops : List VOp) : ChainSt × List VoteRec := ops.foldl vstepA ({}, [])

/-- Every record applied by the tallies of a run from genesis, in order. -/
def vapplied (ops : List VOp) : List VoteRec := (vrunA ops).2

theorem vstepA_fst (s : ChainSt × List VoteRec) (op : VOp) : (vstepA s op).1 = vstep s.1 op := by
  cases op <;> rfl

theorem foldl_vstepA_fst (ops : List VOp) (s : ChainSt × List VoteRec) :
    (ops.foldl vstepA s).1 = ops.foldl vstep s.1 := by
  induction ops generalizing s with
  | nil => rfl
  | cons op ops ih => simp only [List.foldl_cons, ih, vstepA_fst]

theorem vrunA_fst (ops : List VOp) : (vrunA ops).1 = vrun ops := foldl_vstepA_fst ops _

/-- Event nonces are `uint64` in the implementation. -/
def OpBounded : VOp → Prop
  | .vote _ ev _ => ev.nonce < 2 ^ 64
  | .tally .. => True

def OpsBounded (ops : List VOp) : Prop := ∀ op ∈ ops, OpBounded op

/-- States of the vote bookkeeping reachable from genesis. -/
def Reach (c : ChainSt) : Prop := ∃ ops, c = vrun ops

/-- States reachable by claims whose event nonce fits `uint64`. -/
def ReachB (c : ChainSt) : Prop := ∃ ops, OpsBounded ops ∧ c = vrun ops

theorem ReachB.reach {c : ChainSt} (h : ReachB c) : Reach c := by
  obtain ⟨ops, _, e⟩ := h; exact ⟨ops, e⟩

/-! ### The tally loop -/

def tallyStep (p : String → Nat) (req : Int) (ht : Nat) (acc : ChainSt × List VoteRec) (r : VoteRec) :
    ChainSt × List VoteRec :=
  if acc.1.accepts p req r then (acc.1.markObserved r ht, acc.2 ++ [r]) else acc

theorem tallyPure_eq (c : ChainSt) (p : String → Nat) (req : Int) (ht : Nat) :
    c.tallyPure p req ht = c.records.foldl (tallyStep p req ht) (c, []) := rfl

/-- Each applied record sits at the next nonce; the counter ends at the last applied one. -/
theorem tallyFold_consec (p : String → Nat) (req : Int) (ht : Nat) (l : List VoteRec)
    (acc : ChainSt × List VoteRec) :
    ∃ new, (l.foldl (tallyStep p req ht) acc).2 = acc.2 ++ new ∧
      new.map (·.nonce) = List.range' (acc.1.lastObserved + 1) new.length ∧
      (l.foldl (tallyStep p req ht) acc).1.lastObserved = acc.1.lastObserved + new.length ∧
      ∀ r ∈ new, r ∈ l ∧ reachesThreshold p req r.votes 0 = true := by
  induction l generalizing acc with
  | nil => exact ⟨[], by simp⟩
  | cons r rest ih =>
    simp only [List.foldl_cons]
    by_cases ha : acc.1.accepts p req r = true
    · have hstep : tallyStep p req ht acc r = (acc.1.markObserved r ht, acc.2 ++ [r]) := by
        simp [tallyStep, ha]
      obtain ⟨hn, _, hth⟩ := accepts_iff.mp ha
      obtain ⟨new, h1, h2, h3, h4⟩ := ih (tallyStep p req ht acc r)
      rw [hstep] at h1 h2 h3 ⊢
      have hl : (acc.1.markObserved r ht).lastObserved = r.nonce := rfl
      simp only [hl] at h2 h3
      refine ⟨r :: new, ?_, ?_, ?_, ?_⟩
      · rw [h1]; simp
      · simp only [List.map_cons, List.length_cons, List.range'_succ, h2, hn]
      · rw [h3, hn, List.length_cons]; omega
      · intro x hx
        rcases List.mem_cons.mp hx with hx | hx
        · subst hx; exact ⟨by simp, hth⟩
        · exact ⟨List.mem_cons_of_mem _ (h4 x hx).1, (h4 x hx).2⟩
    · have hstep : tallyStep p req ht acc r = acc := by simp [tallyStep, ha]
      obtain ⟨new, h1, h2, h3, h4⟩ := ih (tallyStep p req ht acc r)
      rw [hstep] at h1 h2 h3 ⊢
      exact ⟨new, h1, h2, h3, fun x hx => ⟨List.mem_cons_of_mem _ (h4 x hx).1, (h4 x hx).2⟩⟩

/-- Induction principle for the tally: a property of the bookkeeping that is kept by marking a
    stored, accepted record as observed is kept by the whole tally. -/
theorem tallyFold_ind (p : String → Nat) (req : Int) (ht : Nat) (P : ChainSt → Prop)
    (hsorted : ∀ c, P c → SortedBy recKey c.records)
    (hstep : ∀ c r, P c → r ∈ c.records → c.accepts p req r = true → P (c.markObserved r ht))
    (l : List VoteRec) (acc : ChainSt × List VoteRec)
    (hP : P acc.1) (hmem : ∀ r ∈ l, r ∈ acc.1.records) (hl : SortedBy recKey l) :
    P (l.foldl (tallyStep p req ht) acc).1 := by
  induction l generalizing acc with
  | nil => exact hP
  | cons r rest ih =>
    simp only [List.foldl_cons]
    unfold SortedBy at hl
    obtain ⟨hr, hrest⟩ := List.pairwise_cons.mp hl
    by_cases ha : acc.1.accepts p req r = true
    · have hstep' : tallyStep p req ht acc r = (acc.1.markObserved r ht, acc.2 ++ [r]) := by
        simp [tallyStep, ha]
      rw [hstep']
      refine ih _ (hstep _ _ hP (hmem r (by simp)) ha) ?_ hrest
      intro x hx
      show x ∈ insertByKey recKey { r with accepted := true } acc.1.records
      refine (mem_insertByKey_sorted (hsorted _ hP)).mpr (Or.inr ⟨hmem x (List.mem_cons_of_mem _ hx), ?_⟩)
      exact (bytesLt_ne (hr x hx)).symm
    · have hstep' : tallyStep p req ht acc r = acc := by simp [tallyStep, ha]
      rw [hstep']
      exact ih _ hP (fun x hx => hmem x (List.mem_cons_of_mem _ hx)) hrest

/-! ### Invariants of the vote bookkeeping -/

/-- Invariant of every reachable state (no bound on nonces needed). -/
structure VInv (c : ChainSt) : Prop where
  sorted : SortedBy recKey c.records
  acc_le : ∀ r ∈ c.records, r.accepted = true → r.nonce ≤ c.lastObserved
  acc_uniq : ∀ r1 ∈ c.records, ∀ r2 ∈ c.records, r1.accepted = true → r2.accepted = true →
    r1.nonce = r2.nonce → r1 = r2
  stored_pos : ∀ v n, alGet c.lastNonceBy v = some n → 1 ≤ n

/-- Invariant of the states reachable by claims with `uint64` nonces. -/
structure VInvB (c : ChainSt) : Prop where
  base : VInv c
  bounded : ∀ r ∈ c.records, r.nonce < 2 ^ 64
  voted_le : ∀ r ∈ c.records, ∀ v ∈ r.votes, ∃ n, alGet c.lastNonceBy v = some n ∧ r.nonce ≤ n
  nodup : ∀ r ∈ c.records, r.votes.Nodup
  one_vote : ∀ r1 ∈ c.records, ∀ r2 ∈ c.records, r1.nonce = r2.nonce →
    ∀ v, v ∈ r1.votes → v ∈ r2.votes → r1 = r2

theorem VInv.init : VInv {} :=
  ⟨sortedBy_nil _, by simp, by simp, by simp [alGet]⟩

theorem VInvB.init : VInvB {} :=
  ⟨VInv.init, by simp, by simp, by simp, by simp⟩

theorem markObserved_VInv {c : ChainSt} {p : String → Nat} {req : Int} {r : VoteRec} (ht : Nat)
    (hi : VInv c) (ha : c.accepts p req r = true) : VInv (c.markObserved r ht) := by
  obtain ⟨hn, _, _⟩ := accepts_iff.mp ha
  have hmem : ∀ y, y ∈ (c.markObserved r ht).records →
      y = { r with accepted := true } ∨ (y ∈ c.records ∧ recKey y ≠ recKey r) := fun y hy =>
    (mem_insertByKey_sorted hi.sorted).mp hy
  have hlast : (c.markObserved r ht).lastObserved = r.nonce := rfl
  refine ⟨sorted_insertByKey _ hi.sorted, ?_, ?_, hi.stored_pos⟩
  · intro y hy hacc
    rw [hlast]
    rcases hmem y hy with e | ⟨hy, _⟩
    · rw [e]; exact Nat.le_refl _
    · have := hi.acc_le y hy hacc; omega
  · intro y1 hy1 y2 hy2 ha1 ha2 hnn
    rcases hmem y1 hy1 with e1 | ⟨hy1, _⟩ <;> rcases hmem y2 hy2 with e2 | ⟨hy2, _⟩
    · rw [e1, e2]
    · have := hi.acc_le y2 hy2 ha2
      rw [e1] at hnn; simp only at hnn; omega
    · have := hi.acc_le y1 hy1 ha1
      rw [e2] at hnn; simp only at hnn; omega
    · exact hi.acc_uniq y1 hy1 y2 hy2 ha1 ha2 hnn

theorem markObserved_VInvB {c : ChainSt} {p : String → Nat} {req : Int} {r : VoteRec} (ht : Nat)
    (hi : VInvB c) (hr : r ∈ c.records) (ha : c.accepts p req r = true) :
    VInvB (c.markObserved r ht) := by
  have hmem : ∀ y, y ∈ (c.markObserved r ht).records →
      y = { r with accepted := true } ∨ (y ∈ c.records ∧ recKey y ≠ recKey r) := fun y hy =>
    (mem_insertByKey_sorted hi.base.sorted).mp hy
  have hby : (c.markObserved r ht).lastNonceBy = c.lastNonceBy := rfl
  refine ⟨markObserved_VInv ht hi.base ha, ?_, ?_, ?_, ?_⟩
  · intro y hy
    rcases hmem y hy with e | ⟨hy, _⟩
    · rw [e]; exact hi.bounded r hr
    · exact hi.bounded y hy
  · intro y hy v hv
    rw [hby]
    rcases hmem y hy with e | ⟨hy, _⟩
    · rw [e] at hv ⊢; exact hi.voted_le r hr v hv
    · exact hi.voted_le y hy v hv
  · intro y hy
    rcases hmem y hy with e | ⟨hy, _⟩
    · rw [e]; exact hi.nodup r hr
    · exact hi.nodup y hy
  · intro y1 hy1 y2 hy2 hnn v hv1 hv2
    rcases hmem y1 hy1 with e1 | ⟨hy1, hk1⟩ <;> rcases hmem y2 hy2 with e2 | ⟨hy2, hk2⟩
    · rw [e1, e2]
    · rw [e1] at hnn hv1
      have := hi.one_vote r hr y2 hy2 hnn v hv1 hv2
      exact absurd (congrArg recKey this).symm hk2
    · rw [e2] at hnn hv2
      have := hi.one_vote y1 hy1 r hr hnn v hv1 hv2
      exact absurd (congrArg recKey this) hk1
    · exact hi.one_vote y1 hy1 y2 hy2 hnn v hv1 hv2

theorem tallyPure_VInv {c : ChainSt} (p : String → Nat) (req : Int) (ht : Nat) (hi : VInv c) :
    VInv (c.tallyPure p req ht).1 := by
  rw [tallyPure_eq]
  exact tallyFold_ind p req ht VInv (fun _ h => h.sorted)
    (fun _ _ h _ ha => markObserved_VInv ht h ha) _ _ hi (fun _ h => h) hi.sorted

theorem tallyPure_VInvB {c : ChainSt} (p : String → Nat) (req : Int) (ht : Nat) (hi : VInvB c) :
    VInvB (c.tallyPure p req ht).1 := by
  rw [tallyPure_eq]
  exact tallyFold_ind p req ht VInvB (fun _ h => h.base.sorted)
    (fun _ _ h hr ha => markObserved_VInvB ht h hr ha) _ _ hi (fun _ h => h) hi.base.sorted

/-- Facts about the record written by a vote: same key, nonce, hash and flag as its base. -/
theorem votedRec_key (c : ChainSt) (ev : Event) (hash : Bytes) (v : String) :
    recKey (votedRec c ev hash v) = be8 ev.nonce ++ hash := voteBase_key c ev hash

theorem recordVote_VInv {c c' : ChainSt} {ev : Event} {hash : Bytes} {v : String}
    (hi : VInv c) (hnz : ev.nonce ≠ 0) (h : c.recordVote ev hash v = .ok c') : VInv c' := by
  obtain ⟨_, hc'⟩ := recordVote_ok h
  subst hc'
  have hmem : ∀ y, y ∈ insertByKey recKey (votedRec c ev hash v) c.records →
      y = votedRec c ev hash v ∨ (y ∈ c.records ∧ recKey y ≠ be8 ev.nonce ++ hash) := fun y hy => by
    have := (mem_insertByKey_sorted hi.sorted).mp hy
    rwa [votedRec_key] at this
  -- an accepted written record comes from an accepted stored record under the same key
  have hbase : (votedRec c ev hash v).accepted = true →
      voteBase c ev hash ∈ c.records ∧ recKey (voteBase c ev hash) = be8 ev.nonce ++ hash := by
    intro hacc
    rcases voteBase_cases c ev hash with hb | hb
    · exact hb
    · have : (votedRec c ev hash v).accepted = false := by
        show (voteBase c ev hash).accepted = false
        rw [hb.2]
      rw [this] at hacc; cases hacc
  refine ⟨sorted_insertByKey _ hi.sorted, ?_, ?_, ?_⟩
  · intro y hy hacc
    show y.nonce ≤ c.lastObserved
    rcases hmem y hy with e | ⟨hy, _⟩
    · subst e
      exact hi.acc_le (voteBase c ev hash) (hbase hacc).1 hacc
    · exact hi.acc_le y hy hacc
  · intro y1 hy1 y2 hy2 ha1 ha2 hnn
    rcases hmem y1 hy1 with e1 | ⟨hy1, hk1⟩ <;> rcases hmem y2 hy2 with e2 | ⟨hy2, hk2⟩
    · rw [e1, e2]
    · subst e1
      obtain ⟨hb, hkb⟩ := hbase ha1
      have := hi.acc_uniq _ hb y2 hy2 ha1 ha2 hnn
      rw [← this] at hk2; exact absurd hkb hk2
    · subst e2
      obtain ⟨hb, hkb⟩ := hbase ha2
      have := hi.acc_uniq y1 hy1 _ hb ha1 ha2 hnn
      rw [this] at hk1; exact absurd hkb hk1
    · exact hi.acc_uniq y1 hy1 y2 hy2 ha1 ha2 hnn
  · intro w n hw
    simp only at hw
    by_cases hwv : v = w
    · subst hwv
      rw [alGet_alSet_same] at hw
      injection hw with hw; omega
    · rw [alGet_alSet_other _ _ _ _ hwv] at hw
      exact hi.stored_pos w n hw

theorem recordVote_VInvB {c c' : ChainSt} {ev : Event} {hash : Bytes} {v : String}
    (hi : VInvB c) (hnz : ev.nonce ≠ 0) (hbd : ev.nonce < 2 ^ 64)
    (h : c.recordVote ev hash v = .ok c') : VInvB c' := by
  have hbase' := recordVote_VInv hi.base hnz h
  obtain ⟨hcont, hc'⟩ := recordVote_ok h
  subst hc'
  have hmem : ∀ y, y ∈ insertByKey recKey (votedRec c ev hash v) c.records →
      y = votedRec c ev hash v ∨ (y ∈ c.records ∧ recKey y ≠ be8 ev.nonce ++ hash) := fun y hy => by
    have := (mem_insertByKey_sorted hi.base.sorted).mp hy
    rwa [votedRec_key] at this
  -- the written record sits at the claim's nonce
  have hvn : (votedRec c ev hash v).nonce = ev.nonce := by
    show (voteBase c ev hash).nonce = ev.nonce
    rcases voteBase_cases c ev hash with hb | hb
    · have hk := hb.2
      have e : be8 ev.nonce ++ hash =
          recKey { nonce := ev.nonce, hash := hash, ev := ev, votes := [], accepted := false } := rfl
      rw [e] at hk
      exact (recKey_inj (hi.bounded _ hb.1) hbd hk).1
    · rw [hb.2]
  -- a stored record at the claim's nonce cannot hold a vote of `v`
  have hfresh : ∀ y ∈ c.records, y.nonce = ev.nonce → v ∉ y.votes := by
    intro y hy hyn hv
    obtain ⟨n, hget, hle⟩ := hi.voted_le y hy v hv
    have hpos := hi.base.stored_pos v n hget
    rw [lastNonceOf_some hget] at hcont
    omega
  -- votes of the base record are votes of a stored record at the claim's nonce
  have hbv : ∀ w, w ∈ (voteBase c ev hash).votes →
      voteBase c ev hash ∈ c.records ∧ recKey (voteBase c ev hash) = be8 ev.nonce ++ hash := by
    intro w hw
    rcases voteBase_cases c ev hash with hb | hb
    · exact hb
    · rw [hb.2] at hw; cases hw
  have hvotes : (votedRec c ev hash v).votes = (voteBase c ev hash).votes ++ [v] := rfl
  -- the stored nonce of a voter of a stored record, after the vote
  have hle' : ∀ y ∈ c.records, ∀ w ∈ y.votes,
      ∃ n, alGet (alSet c.lastNonceBy v ev.nonce) w = some n ∧ y.nonce ≤ n := by
    intro y hy w hw
    obtain ⟨n, hget, hle⟩ := hi.voted_le y hy w hw
    by_cases hwv : v = w
    · subst hwv
      refine ⟨ev.nonce, alGet_alSet_same _ _ _, ?_⟩
      have hpos := hi.base.stored_pos v n hget
      rw [lastNonceOf_some hget] at hcont
      omega
    · exact ⟨n, by rw [alGet_alSet_other _ _ _ _ hwv]; exact hget, hle⟩
  refine ⟨hbase', ?_, ?_, ?_, ?_⟩
  · intro y hy
    rcases hmem y hy with e | ⟨hy, _⟩
    · rw [e, hvn]; exact hbd
    · exact hi.bounded y hy
  · intro y hy w hw
    show ∃ n, alGet (alSet c.lastNonceBy v ev.nonce) w = some n ∧ y.nonce ≤ n
    rcases hmem y hy with e | ⟨hy, _⟩
    · subst e
      rw [hvotes] at hw
      rcases List.mem_append.mp hw with hw | hw
      · exact hle' _ (hbv w hw).1 w hw
      · have : w = v := by simpa using hw
        subst this
        exact ⟨ev.nonce, alGet_alSet_same _ _ _, by rw [hvn]; exact Nat.le_refl _⟩
    · exact hle' y hy w hw
  · intro y hy
    rcases hmem y hy with e | ⟨hy, _⟩
    · subst e
      rw [hvotes]
      refine List.nodup_append.mpr ⟨?_, by simp, ?_⟩
      · rcases voteBase_cases c ev hash with hb | hb
        · exact hi.nodup _ hb.1
        · rw [hb.2]; exact List.nodup_nil
      · intro a ha b hb
        have : b = v := by simpa using hb
        subst this
        intro hab; subst hab
        exact hfresh _ (hbv a ha).1 hvn ha
    · exact hi.nodup y hy
  · intro y1 hy1 y2 hy2 hnn w hw1 hw2
    -- the written record against a stored record under another key
    have key : ∀ y ∈ c.records, recKey y ≠ be8 ev.nonce ++ hash → y.nonce = ev.nonce →
        w ∈ (votedRec c ev hash v).votes → w ∈ y.votes → False := by
      intro y hy hk hyn hwa hwb
      rw [hvotes] at hwa
      rcases List.mem_append.mp hwa with hwa | hwa
      · obtain ⟨hb, hkb⟩ := hbv w hwa
        have := hi.one_vote _ hb y hy (by rw [hyn]; exact hvn) w hwa hwb
        rw [← this] at hk; exact hk hkb
      · have : w = v := by simpa using hwa
        subst this
        exact hfresh y hy hyn hwb
    rcases hmem y1 hy1 with e1 | ⟨hy1, hk1⟩ <;> rcases hmem y2 hy2 with e2 | ⟨hy2, hk2⟩
    · rw [e1, e2]
    · subst e1
      exact (key y2 hy2 hk2 (by rw [← hnn]; exact hvn) hw1 hw2).elim
    · subst e2
      exact (key y1 hy1 hk1 (by rw [hnn]; exact hvn) hw2 hw1).elim
    · exact hi.one_vote y1 hy1 y2 hy2 hnn w hw1 hw2

theorem vstep_VInv {c : ChainSt} (op : VOp) (hi : VInv c) : VInv (vstep c op) := by
  cases op with
  | vote v ev hash =>
    rw [vstep_vote]
    split
    · rename_i hvb
      split
      · rename_i c' hok
        exact recordVote_VInv hi (validBasic_nonce_ne_zero hvb) hok
      · exact hi
    · exact hi
  | tally p req ht => exact tallyPure_VInv p req ht hi

theorem vstep_VInvB {c : ChainSt} {op : VOp} (hb : OpBounded op) (hi : VInvB c) : VInvB (vstep c op) := by
  cases op with
  | vote v ev hash =>
    rw [vstep_vote]
    split
    · rename_i hvb
      split
      · rename_i c' hok
        exact recordVote_VInvB hi (validBasic_nonce_ne_zero hvb) hb hok
      · exact hi
    · exact hi
  | tally p req ht => exact tallyPure_VInvB p req ht hi

theorem foldl_vstep_VInv (ops : List VOp) {c : ChainSt} (hi : VInv c) : VInv (ops.foldl vstep c) := by
  induction ops generalizing c with
  | nil => exact hi
  | cons op ops ih => exact ih (vstep_VInv op hi)

theorem foldl_vstep_VInvB (ops : List VOp) (hb : OpsBounded ops) {c : ChainSt} (hi : VInvB c) :
    VInvB (ops.foldl vstep c) := by
  induction ops generalizing c with
  | nil => exact hi
  | cons op ops ih =>
    exact ih (fun o ho => hb o (List.mem_cons_of_mem _ ho)) (vstep_VInvB (hb op (by simp)) hi)

theorem Reach.inv {c : ChainSt} (h : Reach c) : VInv c := by
  obtain ⟨ops, e⟩ := h; subst e; exact foldl_vstep_VInv ops VInv.init

theorem ReachB.inv {c : ChainSt} (h : ReachB c) : VInvB c := by
  obtain ⟨ops, hb, e⟩ := h; subst e; exact foldl_vstep_VInvB ops hb VInvB.init

/-! ### The applied history -/

theorem recordVote_lastObserved {c c' : ChainSt} {ev : Event} {hash : Bytes} {v : String}
    (h : c.recordVote ev hash v = .ok c') : c'.lastObserved = c.lastObserved := by
  rw [(recordVote_ok h).2]

theorem vstep_vote_lastObserved (c : ChainSt) (v : String) (ev : Event) (hash : Bytes) :
    (vstep c (.vote v ev hash)).lastObserved = c.lastObserved := by
  rw [vstep_vote]
  split
  · split
    · rename_i c' hok; exact recordVote_lastObserved hok
    · rfl
  · rfl

theorem foldl_vstepA_consec (ops : List VOp) (s : ChainSt × List VoteRec)
    (hs : s.2.map (·.nonce) = List.range' 1 s.1.lastObserved) :
    (ops.foldl vstepA s).2.map (·.nonce) = List.range' 1 (ops.foldl vstepA s).1.lastObserved := by
  induction ops generalizing s with
  | nil => exact hs
  | cons op ops ih =>
    simp only [List.foldl_cons]
    apply ih
    cases op with
    | vote v ev hash =>
      show s.2.map (·.nonce) = List.range' 1 (vstep s.1 (.vote v ev hash)).lastObserved
      rw [vstep_vote_lastObserved]; exact hs
    | tally p req ht =>
      show (s.2 ++ (s.1.tallyPure p req ht).2).map (·.nonce) =
        List.range' 1 (s.1.tallyPure p req ht).1.lastObserved
      obtain ⟨new, h1, h2, h3, _⟩ := tallyFold_consec p req ht s.1.records (s.1, [])
      rw [← tallyPure_eq] at h1 h3
      simp only [List.nil_append] at h1
      rw [h1, h3, List.map_append, hs, h2]
      have := @List.range'_append 1 s.1.lastObserved new.length 1
      simp only [Nat.one_mul] at this
      rw [Nat.add_comm 1 s.1.lastObserved] at this
      exact this

/-- A record applied by a tally was stored when the tally started and passed the power test. -/
theorem tallyPure_applied {c : ChainSt} {p : String → Nat} {req : Int} {ht : Nat} {r : VoteRec}
    (h : r ∈ (c.tallyPure p req ht).2) :
    r ∈ c.records ∧ reachesThreshold p req r.votes 0 = true := by
  obtain ⟨new, h1, _, _, h4⟩ := tallyFold_consec p req ht c.records (c, [])
  rw [← tallyPure_eq] at h1
  simp only [List.nil_append] at h1
  rw [h1] at h
  exact h4 r h

/-! ### Frame: what the event handler cannot touch

`VFrame h h'`: the staking view, the parameters, the height, and every chain's vote records and
last observed nonce are the same in `h'` as in `h`. -/

structure VFrame (h h' : Hub) : Prop where
  staking : h'.staking = h.staking
  params : h'.params = h.params
  height : h'.height = h.height
  records : ∀ ch, (h'.chain ch).records = (h.chain ch).records
  last : ∀ ch, (h'.chain ch).lastObserved = (h.chain ch).lastObserved

theorem VFrame.refl (h : Hub) : VFrame h h := ⟨rfl, rfl, rfl, fun _ => rfl, fun _ => rfl⟩

theorem VFrame.trans {h1 h2 h3 : Hub} (a : VFrame h1 h2) (b : VFrame h2 h3) : VFrame h1 h3 :=
  ⟨b.staking.trans a.staking, b.params.trans a.params, b.height.trans a.height,
   fun ch => (b.records ch).trans (a.records ch), fun ch => (b.last ch).trans (a.last ch)⟩

theorem VFrame.of_cs {h h' : Hub} (hcs : h'.cs = h.cs) (hs : h'.staking = h.staking)
    (hp : h'.params = h.params) (hh : h'.height = h.height) : VFrame h h' :=
  ⟨hs, hp, hh, fun ch => by simp [Hub.chain, hcs], fun ch => by simp [Hub.chain, hcs]⟩

theorem chain_setChain_ne (h : Hub) {c c2 : String} (s : ChainSt) (hne : c ≠ c2) :
    (h.setChain c s).chain c2 = h.chain c2 := by
  simp [Hub.chain, Hub.setChain, alGet_alSet_other _ _ _ _ hne]

theorem VFrame.setChain (h : Hub) (ch : String) {c' : ChainSt}
    (hr : c'.records = (h.chain ch).records) (hl : c'.lastObserved = (h.chain ch).lastObserved) :
    VFrame h (h.setChain ch c') := by
  refine ⟨rfl, rfl, rfl, ?_, ?_⟩ <;> intro ch2 <;> by_cases e : ch = ch2
  · subst e; rw [chain_setChain]; exact hr
  · rw [chain_setChain_ne _ _ e]
  · subst e; rw [chain_setChain]; exact hl
  · rw [chain_setChain_ne _ _ e]

/-- `Fr h0 m`: if the computation `m` succeeds, its result is in frame with `h0`. -/
def Fr (h0 : Hub) (m : M Hub) : Prop := ∀ h', m = .ok h' → VFrame h0 h'

theorem Fr_ok {h0 h : Hub} (hf : VFrame h0 h) : Fr h0 (.ok h) := by
  intro h' e; injection e with e; subst e; exact hf
theorem Fr_pure {h0 h : Hub} (hf : VFrame h0 h) : Fr h0 (pure h) := Fr_ok hf
theorem Fr_error {h0 : Hub} (e : Err) : Fr h0 (.error e) := by intro h' e; cases e
theorem Fr_failM {h0 : Hub} (m : String) : Fr h0 (failM m) := Fr_error _
theorem Fr_panicM {h0 : Hub} (m : String) : Fr h0 (panicM m) := Fr_error _

theorem Fr_trans {h0 h1 : Hub} {m : M Hub} (hf : VFrame h0 h1) (hm : Fr h1 m) : Fr h0 m :=
  fun h' e => hf.trans (hm h' e)

theorem Fr_bind {α : Type} {h0 : Hub} {m : M α} {f : α → M Hub}
    (hf : ∀ a, m = .ok a → Fr h0 (f a)) : Fr h0 (m >>= f) := by
  intro h' e
  cases hm : m with
  | error x => rw [hm] at e; cases e
  | ok a => rw [hm] at e; exact hf a hm h' e

theorem Fr_bindH {h0 : Hub} {m : M Hub} {f : Hub → M Hub}
    (hm : Fr h0 m) (hf : ∀ h1, VFrame h0 h1 → Fr h0 (f h1)) : Fr h0 (m >>= f) :=
  Fr_bind fun a ha => hf a (hm a ha)

theorem Fr_ite {h0 : Hub} {c : Prop} [Decidable c] {a b : M Hub} (ha : Fr h0 a) (hb : Fr h0 b) :
    Fr h0 (if c then a else b) := by
  split
  · exact ha
  · exact hb

theorem Fr_foldlM {α : Type} {h0 : Hub} {f : Hub → α → M Hub}
    (hf : ∀ h1 x, VFrame h0 h1 → Fr h0 (f h1 x)) (l : List α) {h : Hub} (hh : VFrame h0 h) :
    Fr h0 (l.foldlM f h) := by
  induction l generalizing h with
  | nil => exact Fr_pure hh
  | cons x xs ih =>
    rw [List.foldlM_cons]
    exact Fr_bindH (hf h x hh) fun h1 h1f => ih h1f

theorem VFrame.foldl {α : Type} {h0 : Hub} {f : Hub → α → Hub}
    (hf : ∀ h1 x, VFrame h1 (f h1 x)) (l : List α) {h : Hub} (hh : VFrame h0 h) :
    VFrame h0 (l.foldl f h) := by
  induction l generalizing h with
  | nil => exact hh
  | cons x xs ih => exact ih (hh.trans (hf h x))

theorem mintTo_Fr (h : Hub) (acc d : String) (amt : Int) : Fr h (h.mintTo acc d amt) := by
  unfold Hub.mintTo
  split
  · exact Fr_failM _
  · exact Fr_ok (VFrame.of_cs rfl rfl rfl rfl)

theorem burnFrom_Fr (h : Hub) (acc d : String) (amt : Int) : Fr h (h.burnFrom acc d amt) := by
  unfold Hub.burnFrom
  split
  · exact Fr_failM _
  · split
    · exact Fr_failM _
    · exact Fr_ok (VFrame.of_cs rfl rfl rfl rfl)

theorem setStatus_frame (h : Hub) (tx : String) (st : Nat) (o : String) : VFrame h (h.setStatus tx st o) :=
  VFrame.of_cs rfl rfl rfl rfl

theorem createSte_frame {h h' : Hub} {chain sender rcp denom tx rc ra : String} {amount fee comm : Int}
    {id : Nat} (hok : h.createSte chain sender rcp denom amount fee comm tx rc ra = .ok (h', id)) :
    VFrame h h' := by
  unfold Hub.createSte at hok
  simp only [bind, Except.bind] at hok
  split at hok
  · split at hok
    · simp at hok
    · rename_i v hv
      simp [pure, Except.pure] at hok
      rw [← hok.1]
      exact (burnFrom_Fr _ _ _ _ v hv).trans (VFrame.setChain _ _ rfl rfl)
  · simp [failM] at hok

/-- The recurring `match createSte … with | .ok (h, _) => pure h | .error (.fail m) => panicM m | …`. -/
theorem createSte_match_Fr {h0 h : Hub} (hf : VFrame h0 h)
    (chain sender rcp denom tx rc ra : String) (amount fee comm : Int) :
    Fr h0 (match h.createSte chain sender rcp denom amount fee comm tx rc ra with
      | .ok (h, _) => pure h
      | .error (.fail m) => panicM m
      | .error e => .error e : M Hub) := by
  split
  · rename_i h2 _ heq
    exact Fr_pure (hf.trans (createSte_frame heq))
  · exact Fr_panicM _
  · exact Fr_error _

theorem handleSendToHub_Fr (h : Hub) (chain coin : String) (amount : Int) (receiver tx : String) :
    Fr h (h.handleSendToHub chain coin amount receiver tx) := by
  unfold Hub.handleSendToHub
  split
  · simp only [bind, Except.bind]
    split
    · exact Fr_panicM _
    · split
      · exact Fr_failM _
      · split
        · exact Fr_error _
        · rename_i v hv
          exact Fr_pure ((mintTo_Fr _ _ _ _ v hv).trans (setStatus_frame _ _ _ _))
  · exact Fr_failM _

theorem cancelBatch_Fr (h : Hub) (chain extToken : String) (nonce : Nat) :
    Fr h (h.cancelBatch chain extToken nonce) := by
  unfold Hub.cancelBatch
  split
  · exact Fr_panicM _
  · split
    · exact Fr_panicM _
    · exact Fr_ok (VFrame.setChain _ _ rfl rfl)


theorem Fr_panic_bind {α : Type} {h0 : Hub} (msg : String) (f : α → M Hub) :
    Fr h0 ((panicM msg : M α) >>= f) := by
  intro h' e; cases e

/-- The do-notation join point for `if c then panicM msg` followed by the rest of the block. -/
theorem Fr_jp {h0 : Hub} {c : Prop} [Decidable c] {e : Err} (J : Unit → M Hub)
    (hJ : ∀ u, Fr h0 (J u)) : Fr h0 (if c then (Except.error e : M Unit) >>= J else J ()) :=
  Fr_ite (fun _ e => by cases e) (hJ ())

theorem batchExecuted_Fr (h : Hub) (chain extToken : String) (nonce : Nat) (txHash : String)
    (feePaid : Int) (feePayer : String) :
    Fr h (h.batchExecuted chain extToken nonce txHash feePaid feePayer) := by
  unfold Hub.batchExecuted
  split
  · rename_i b _
    refine Fr_bindH ?_ ?_
    · refine Fr_ite ?_ (Fr_pure (VFrame.refl _))
      exact Fr_foldlM (fun h1 x hf => Fr_trans hf (cancelBatch_Fr _ _ _ _)) _ (VFrame.refl _)
    · intro h1 f1
      extract_lets +onlyGivenNames c h2
      have f2 : VFrame h h2 := f1.trans (VFrame.setChain _ _ rfl rfl)
      split
      · rename_i tok _
        extract_lets +onlyGivenNames h3 totalComm totalFee
        have f3 : VFrame h h3 := by
          show VFrame h (List.foldl _ _ _)
          refine VFrame.foldl ?_ _ f2
          intro hx t
          exact VFrame.of_cs rfl rfl rfl rfl
        refine Fr_bindH ?_ ?_
        · refine Fr_ite ?_ (Fr_pure f3)
          refine Fr_bind ?_
          intro valset _
          extract_lets +onlyGivenNames totalPower
          refine Fr_bindH (Fr_trans f3 (mintTo_Fr _ _ _ _)) ?_
          intro h4 f4
          refine Fr_foldlM ?_ _ f4
          intro h5 v f5
          refine Fr_jp _ ?_
          intro u
          extract_lets +onlyGivenNames amount
          exact Fr_ite (Fr_pure f5) (createSte_match_Fr f5 _ _ _ _ _ _ _ _ _ _)
        · intro h4 f4
          refine Fr_ite (Fr_pure f4) ?_
          refine Fr_bind ?_
          intro base _
          split
          · split
            · split
              · rename_i pTok _
                refine Fr_jp _ ?_
                intro u
                extract_lets +onlyGivenNames amount
                refine Fr_jp _ ?_
                intro u
                extract_lets +onlyGivenNames fee
                refine Fr_ite (Fr_pure f4) ?_
                refine Fr_bindH (Fr_trans f4 (mintTo_Fr _ _ _ _)) ?_
                intro h5 f5
                refine Fr_bindH (createSte_match_Fr f5 _ _ _ _ _ _ _ _ _ _) ?_
                intro h6 f6
                extract_lets +onlyGivenNames feeLeft
                refine Fr_ite (Fr_pure f6) ?_
                refine Fr_bindH (Fr_trans f6 (mintTo_Fr _ _ _ _)) ?_
                intro h7 f7
                extract_lets +onlyGivenNames n
                refine Fr_jp _ ?_
                intro u
                extract_lets +onlyGivenNames avg conv good
                refine Fr_foldlM ?_ _ f7
                intro h8 t f8
                extract_lets +onlyGivenNames cf
                refine Fr_ite (Fr_pure f8) ?_
                refine Fr_jp _ ?_
                intro u
                extract_lets +onlyGivenNames toRefund
                refine Fr_ite (Fr_pure f8) ?_
                refine Fr_ite (Fr_pure f8) ?_
                refine Fr_bindH (createSte_match_Fr f8 _ _ _ _ _ _ _ _ _ _) ?_
                intro h9 f9
                split
                · exact Fr_panicM _
                · exact Fr_pure (f9.trans (VFrame.of_cs rfl rfl rfl rfl))
              · exact Fr_panicM _
            · exact Fr_panicM _
          · exact Fr_pure f4
      · exact Fr_panicM _
  · exact Fr_pure (VFrame.refl _)

theorem handle_Fr (h : Hub) (mf : Bool) (chain : String) (ev : Event) : Fr h (h.handle mf chain ev) := by
  cases ev with
  | sendToHub n coin amount sender receiver height txHash =>
    exact handleSendToHub_Fr _ _ _ _ _ _
  | transfer n coin amount fee sender rchain receiver height txHash =>
    rw [Hub.handle.eq_2]
    refine Fr_jp _ ?_
    intro u
    refine Fr_ite ?_ ?_
    · extract_lets +onlyGivenNames acc
      refine Fr_jp _ ?_
      intro u
      exact handleSendToHub_Fr _ _ _ _ _ _
    · refine Fr_bindH (handleSendToHub_Fr _ _ _ _ _ _) ?_
      intro h1 f1
      split
      · split
        · extract_lets +onlyGivenNames cAmount cFee rate comm
          refine Fr_jp _ ?_
          intro u
          refine Fr_jp _ ?_
          intro u
          refine Fr_jp _ ?_
          intro u
          refine Fr_jp _ ?_
          intro u
          extract_lets +onlyGivenNames a1
          refine Fr_jp _ ?_
          intro u
          extract_lets +onlyGivenNames a2
          refine Fr_bind ?_
          intro x hx
          obtain ⟨h2, id⟩ := x
          exact Fr_pure (f1.trans (createSte_frame hx))
        · exact Fr_failM _
      · exact Fr_failM _
  | batchExecuted coin n bn height txHash feePaid feePayer =>
    exact batchExecuted_Fr _ _ _ _ _ _ _
  | contractCall n scope inv height => exact Fr_ok (VFrame.refl _)
  | signerSet n sn height members txHash =>
    exact Fr_ok (VFrame.setChain _ _ rfl rfl)

/-! ### `Hub.tally` against `tallyPure` -/

theorem lastPower_congr {h1 h2 : Hub} (hs : h1.staking = h2.staking) : h1.lastPower = h2.lastPower := by
  funext v; simp [Hub.lastPower, hs]

theorem requiredPower_congr {h1 h2 : Hub} (hs : h1.staking = h2.staking) (hp : h1.params = h2.params) :
    h1.requiredPower = h2.requiredPower := by
  simp [Hub.requiredPower, Hub.totalPower, hs, hp]

theorem accepts_congr {c1 c2 : ChainSt} (hl : c1.lastObserved = c2.lastObserved) (p : String → Nat)
    (req : Int) (r : VoteRec) : c1.accepts p req r = c2.accepts p req r := by
  simp [ChainSt.accepts, hl]

/-- One step of `Hub.tally`: the staking view, parameters and height are untouched, and the vote
    bookkeeping of the chain moves as in one step of `tallyPure` (the handler's own writes, kept or
    rolled back, never reach it). -/
theorem tryRecord_spec {h h' : Hub} {mf : Bool} {chain : String} {r : VoteRec}
    (hok : h.tryRecord mf chain r = .ok h') :
    h'.staking = h.staking ∧ h'.params = h.params ∧ h'.height = h.height ∧
    ∃ c', (if (h.chain chain).accepts h.lastPower h.requiredPower r then
            c' = (h.chain chain).markObserved r h.height else c' = h.chain chain) ∧
      (h'.chain chain).records = c'.records ∧ (h'.chain chain).lastObserved = c'.lastObserved := by
  unfold Hub.tryRecord at hok
  simp only [bind, Except.bind, pure, Except.pure] at hok
  split at hok
  · simp [panicM] at hok
  · split at hok
    · rename_i ha
      injection hok with hok
      subst hok
      have ha' : (h.chain chain).accepts h.lastPower h.requiredPower r = false := by simpa using ha
      exact ⟨rfl, rfl, rfl, h.chain chain, by simp [ha'], rfl, rfl⟩
    · rename_i ha
      have ha' : (h.chain chain).accepts h.lastPower h.requiredPower r = true := by simpa using ha
      have hfr : VFrame (h.setChain chain ((h.chain chain).markObserved r h.height)) h' := by
        split at hok
        · rename_i h'' heq
          injection hok with hok
          subst hok
          exact handle_Fr _ _ _ _ _ heq
        · injection hok with hok
          subst hok
          exact VFrame.refl _
      refine ⟨hfr.staking, hfr.params, hfr.height, (h.chain chain).markObserved r h.height, by simp [ha'], ?_, ?_⟩
      · rw [hfr.records chain, chain_setChain]
      · rw [hfr.last chain, chain_setChain]

/-- `Hub.tally` does to `records` and `lastObserved` of the chain exactly what `tallyPure` does,
    with the power table, required power and height of the hub at the start of the tally. -/
theorem tally_fold_sim {h0 : Hub} {mf : Bool} {chain : String} (l : List VoteRec) {hk h' : Hub}
    {acc : ChainSt × List VoteRec}
    (hs : hk.staking = h0.staking) (hp : hk.params = h0.params) (hh : hk.height = h0.height)
    (hr : (hk.chain chain).records = acc.1.records)
    (hl : (hk.chain chain).lastObserved = acc.1.lastObserved)
    (hok : l.foldlM (fun (h : Hub) r => h.tryRecord mf chain r) hk = .ok h') :
    h'.staking = h0.staking ∧ h'.params = h0.params ∧ h'.height = h0.height ∧
    (h'.chain chain).records = (l.foldl (tallyStep h0.lastPower h0.requiredPower h0.height) acc).1.records ∧
    (h'.chain chain).lastObserved =
      (l.foldl (tallyStep h0.lastPower h0.requiredPower h0.height) acc).1.lastObserved := by
  induction l generalizing hk acc with
  | nil =>
    simp only [List.foldlM_nil, pure, Except.pure] at hok
    injection hok with hok
    subst hok
    exact ⟨hs, hp, hh, hr, hl⟩
  | cons r rest ih =>
    rw [List.foldlM_cons] at hok
    simp only [bind, Except.bind] at hok
    split at hok
    · cases hok
    · rename_i h1 h1ok
      obtain ⟨s1, p1, t1, c', hc', r1, l1⟩ := tryRecord_spec h1ok
      simp only [List.foldl_cons]
      have hacc : (hk.chain chain).accepts hk.lastPower hk.requiredPower r =
          acc.1.accepts h0.lastPower h0.requiredPower r := by
        rw [lastPower_congr hs, requiredPower_congr hs hp, accepts_congr hl]
      rw [hacc] at hc'
      refine ih (s1.trans hs) (p1.trans hp) (t1.trans hh) ?_ ?_ hok
      · unfold tallyStep
        split
        · rename_i ha
          rw [if_pos ha] at hc'
          rw [r1, hc']
          show insertByKey recKey _ (hk.chain chain).records = insertByKey recKey _ acc.1.records
          rw [hr]
        · rename_i ha
          rw [if_neg ha] at hc'
          rw [r1, hc', hr]
      · unfold tallyStep
        split
        · rename_i ha
          rw [if_pos ha] at hc'
          rw [l1, hc']; rfl
        · rename_i ha
          rw [if_neg ha] at hc'
          rw [l1, hc', hl]

theorem hub_tally_refines_pure {h h' : Hub} {mf : Bool} {chain : String}
    (hok : h.tally mf chain = .ok h') :
    (h'.chain chain).lastObserved =
      ((h.chain chain).tallyPure h.lastPower h.requiredPower h.height).1.lastObserved ∧
    (h'.chain chain).records =
      ((h.chain chain).tallyPure h.lastPower h.requiredPower h.height).1.records := by
  unfold Hub.tally at hok
  obtain ⟨_, _, _, hr, hl⟩ :=
    tally_fold_sim (h0 := h) (acc := (h.chain chain, [])) _ rfl rfl rfl rfl rfl hok
  rw [tallyPure_eq]
  exact ⟨hl, hr⟩

theorem tryRecord_total (h : Hub) (mf : Bool) (chain : String) {r : VoteRec}
    (hnp : ¬ (r.nonce = (h.chain chain).lastObserved + 1 ∧ r.accepted = true)) :
    ∃ h', h.tryRecord mf chain r = .ok h' := by
  unfold Hub.tryRecord
  simp only [bind, Except.bind, pure, Except.pure]
  have hc : ¬ ((r.nonce == (h.chain chain).lastObserved + 1 && r.accepted) = true) := by
    simpa using hnp
  rw [if_neg hc]
  split
  · exact ⟨_, rfl⟩
  · split <;> exact ⟨_, rfl⟩

theorem tryRecord_last_mono {h h' : Hub} {mf : Bool} {chain : String} {r : VoteRec}
    (hok : h.tryRecord mf chain r = .ok h') :
    (h.chain chain).lastObserved ≤ (h'.chain chain).lastObserved := by
  obtain ⟨_, _, _, c', hc', _, l1⟩ := tryRecord_spec hok
  rw [l1]
  split at hc'
  · rename_i ha
    rw [hc']
    show _ ≤ r.nonce
    rw [(accepts_iff.mp ha).1]; omega
  · rw [hc']; exact Nat.le_refl _

/-- `Hub.tally` cannot fail (its only error is the "already observed" panic) when the accepted
    records it reads are not ahead of the last observed nonce. -/
theorem tally_fold_total (mf : Bool) (chain : String) (l : List VoteRec) (hk : Hub)
    (hacc : ∀ r ∈ l, r.accepted = true → r.nonce ≤ (hk.chain chain).lastObserved) :
    ∃ h', l.foldlM (fun (h : Hub) r => h.tryRecord mf chain r) hk = .ok h' := by
  induction l generalizing hk with
  | nil => exact ⟨hk, rfl⟩
  | cons r rest ih =>
    rw [List.foldlM_cons]
    have hnp : ¬ (r.nonce = (hk.chain chain).lastObserved + 1 ∧ r.accepted = true) := by
      rintro ⟨hn, ha⟩
      have := hacc r (by simp) ha
      omega
    obtain ⟨h1, h1ok⟩ := tryRecord_total hk mf chain hnp
    have hmono := tryRecord_last_mono h1ok
    obtain ⟨h', hok'⟩ := ih h1 (fun x hx ha => Nat.le_trans (hacc x (List.mem_cons_of_mem _ hx) ha) hmono)
    exact ⟨h', by simp only [bind, Except.bind, h1ok]; exact hok'⟩

theorem hub_tally_total {h : Hub} (mf : Bool) (chain : String) (hi : VInv (h.chain chain)) :
    ∃ h', h.tally mf chain = .ok h' :=
  tally_fold_total mf chain _ h hi.acc_le

end Mhub2
