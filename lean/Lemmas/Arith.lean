import Mhub2.Arith
namespace Mhub2

theorem decOne_eq : decOne = 1000000000000000000 := by decide
theorem pow10_pos (n : Nat) : 0 < pow10 n := by
  unfold pow10; exact Int.pow_pos (by decide)

theorem pow10_add (a b : Nat) : pow10 (a + b) = pow10 a * pow10 b := by
  unfold pow10; exact Int.pow_add 10 a b

theorem pow10_split {a b : Nat} (h : a ≤ b) : pow10 b = pow10 a * pow10 (b - a) := by
  rw [← pow10_add]; congr 1; omega

/-- Converting from `d ≤ 18` external decimals is exact. -/
theorem fromExt_le18 {d : Nat} (hd : d ≤ 18) (a : Int) : fromExt d a = a * pow10 (18 - d) := by
  unfold fromExt convertDecimals hubDecimals
  by_cases h : d = 18
  · subst h; simp [pow10]
  · simp [h]
    rw [pow10_split hd, Int.mul_left_comm, Int.mul_ediv_cancel_left _ (Int.ne_of_gt (pow10_pos d))]

/-- Converting from `d > 18` external decimals is a floor division. -/
theorem fromExt_gt18 {d : Nat} (hd : 18 < d) (a : Int) : fromExt d a = a / pow10 (d - 18) := by
  unfold fromExt convertDecimals hubDecimals
  have h : d ≠ 18 := by omega
  simp [h]
  rw [pow10_split (Nat.le_of_lt hd), Int.mul_comm (pow10 18), ]
  exact Int.mul_ediv_mul_of_pos_left a (pow10 (d - 18)) (pow10_pos 18)

/-- Converting to `d ≥ 18` external decimals is exact. -/
theorem toExt_ge18 {d : Nat} (hd : 18 ≤ d) (a : Int) : toExt d a = a * pow10 (d - 18) := by
  unfold toExt convertDecimals hubDecimals
  by_cases h : 18 = d
  · subst h; simp [pow10]
  · simp [h]
    rw [pow10_split hd, Int.mul_left_comm, Int.mul_ediv_cancel_left _ (Int.ne_of_gt (pow10_pos 18))]

/-- Converting to `d < 18` external decimals is a floor division. -/
theorem toExt_lt18 {d : Nat} (hd : d < 18) (a : Int) : toExt d a = a / pow10 (18 - d) := by
  unfold toExt convertDecimals hubDecimals
  have h : 18 ≠ d := by omega
  simp [h]
  rw [pow10_split (Nat.le_of_lt hd), Int.mul_comm (pow10 d)]
  exact Int.mul_ediv_mul_of_pos_left a (pow10 (18 - d)) (pow10_pos d)

/-- Truncation never rounds up and loses less than one unit (floor division facts). -/
theorem floor_bounds (a : Int) {m : Int} (hm : 0 < m) : (a / m) * m ≤ a ∧ a < (a / m + 1) * m := by
  constructor
  · exact Int.ediv_mul_le a (Int.ne_of_gt hm)
  · have := Int.lt_ediv_add_one_mul_self a hm
    simpa using this

theorem chopRound_exact (x : Int) : chopRound (x * 1000000000000000000) = x := by
  unfold chopRound
  have hn : (x * 1000000000000000000).natAbs = x.natAbs * 1000000000000000000 := by
    rw [Int.natAbs_mul]; rfl
  simp only [hn]
  have h1 : x.natAbs * 1000000000000000000 % 10 ^ 18 = 0 := by
    have : (10:Nat)^18 = 1000000000000000000 := by decide
    rw [this]; exact Nat.mul_mod_left _ _
  have h2 : x.natAbs * 1000000000000000000 / 10 ^ 18 = x.natAbs := by
    have : (10:Nat)^18 = 1000000000000000000 := by decide
    rw [this]; exact Nat.mul_div_cancel _ (by decide)
  simp only [h1, h2, if_true]
  by_cases hx : x < 0
  · have : x * 1000000000000000000 < 0 := by omega
    simp [this]; omega
  · have : ¬ (x * 1000000000000000000 < 0) := by omega
    simp [this]; omega

/-- `rate.Mul(x.ToDec()).TruncateInt()` is the truncated quotient `rate·x / 10^18`: the
    intermediate `Dec.Mul` is exact, so its rounding mode is irrelevant. -/
theorem commissionOf_eq (rate x : Int) : commissionOf rate x = Int.tdiv (rate * x) decOne := by
  unfold commissionOf decTruncateInt chopTrunc decMul toDec
  rw [decOne_eq, ← Int.mul_assoc, chopRound_exact]

theorem commissionOf_nonneg {rate x : Int} (hr : 0 ≤ rate) (hx : 0 ≤ x) : 0 ≤ commissionOf rate x := by
  rw [commissionOf_eq]
  exact Int.tdiv_nonneg (Int.mul_nonneg hr hx) (by rw [decOne_eq]; decide)

/-- The commission never exceeds `rate·x` (in units of 10^-18). -/
theorem commissionOf_le {rate x : Int} (hr : 0 ≤ rate) (hx : 0 ≤ x) :
    commissionOf rate x * decOne ≤ rate * x := by
  rw [commissionOf_eq]
  have h := Int.mul_nonneg hr hx
  rw [Int.tdiv_eq_ediv_of_nonneg h]
  exact Int.ediv_mul_le _ (by rw [decOne_eq]; decide)

theorem commissionOf_gt {rate x : Int} (hr : 0 ≤ rate) (hx : 0 ≤ x) :
    rate * x < (commissionOf rate x + 1) * decOne := by
  rw [commissionOf_eq]
  have h := Int.mul_nonneg hr hx
  rw [Int.tdiv_eq_ediv_of_nonneg h]
  have := Int.lt_ediv_add_one_mul_self (rate * x) (show (0:Int) < decOne by rw [decOne_eq]; decide)
  simpa using this

theorem discountPct_cases (v : Int) :
    discountPct v = 0 ∨ discountPct v = 10 ∨ discountPct v = 20 ∨ discountPct v = 30 ∨
    discountPct v = 40 ∨ discountPct v = 50 ∨ discountPct v = 60 := by
  unfold discountPct
  repeat (first | split | simp)

theorem tier_bounds {rate p : Int} (hr : 0 ≤ rate) (hp0 : 0 ≤ p) (hp : p ≤ 100) :
    0 ≤ rate - Int.tdiv (rate * p) 100 ∧ rate - Int.tdiv (rate * p) 100 ≤ rate := by
  have hnn : 0 ≤ rate * p := Int.mul_nonneg hr hp0
  have h1 : 0 ≤ Int.tdiv (rate * p) 100 := Int.tdiv_nonneg hnn (by decide)
  have h2 : Int.tdiv (rate * p) 100 ≤ rate := by
    rw [Int.tdiv_eq_ediv_of_nonneg hnn]
    have : rate * p ≤ rate * 100 := Int.mul_le_mul_of_nonneg_left hp hr
    calc rate * p / 100 ≤ rate * 100 / 100 := Int.ediv_le_ediv (by decide) this
      _ = rate := Int.mul_ediv_cancel rate (by decide)
  omega

/-- The holder-adjusted rate is the configured rate reduced by the tier percentage, never
    negative and never above the configured rate. -/
theorem commissionRate_bounds {rate : Int} (hr : 0 ≤ rate) (hv : Int) :
    0 ≤ commissionRate rate hv ∧ commissionRate rate hv ≤ rate := by
  unfold commissionRate decQuoInt64 decMulInt64
  split
  · omega
  · simp only
    split
    · omega
    · rcases discountPct_cases hv with h | h | h | h | h | h | h <;> rw [h] <;>
        exact tier_bounds hr (by decide) (by decide)

end Mhub2
