/-
  Helper definitions and lemmas for C20 (Minter connector: resynchronisation scan, persisted
  cursor, command validation).  Core Lean only.

  The scan `resync` is characterised completely (`resync_spec`): either it never takes the
  early return, and then its commits are exactly the block-end cursors `blockEnds` of the
  blocks above the start cursor; or it stops inside some block `b` at a counted transaction
  `tx`, and then its commits are the block-end cursors of the blocks before `b` followed by one
  early-return cursor that carries `lastChecked = b.height - 1` together with the counters as
  they stand after the transactions of `b` that precede `tx`.
-/
import Mhub2.Connector
import Lemmas.Fees
namespace Mhub2

/-! ### Definitions -/

/-- Well-formed history: block heights strictly increasing. -/
def ChainWF (chain : List MBlock) : Prop := chain.Pairwise (fun a b => a.height < b.height)

/-- Number of bridge events among some transactions. -/
def evCnt (txs : List MTx) : Nat := (txs.filter countsInResync).length

/-- Does the transaction consume a batch nonce (multisend from the multisig)? -/
def isBatchTx : MTx → Bool
  | .multisend fromM => fromM
  | _ => false

def batchCnt (txs : List MTx) : Nat := (txs.filter isBatchTx).length

/-- Total of bridge events / batch transactions of a list of blocks. -/
def evSum (bs : List MBlock) : Nat := sumNats (bs.map fun b => evCnt b.txs)
def batchSum (bs : List MBlock) : Nat := sumNats (bs.map fun b => batchCnt b.txs)

/-- Number of multisend-from-multisig transactions in blocks with `lo < height ≤ hi`. -/
def batchesBetween (chain : List MBlock) (lo hi : Nat) : Nat :=
  batchSum (chain.filter fun b => lo < b.height && b.height ≤ hi)

/-- Transactions of the blocks with `lo < height ≤ hi`, in order. -/
def txsBetween (chain : List MBlock) (lo hi : Nat) : List MTx :=
  (chain.filter fun b => lo < b.height && b.height ≤ hi).flatMap (·.txs)

/-- Number of bridge events in all blocks above `lo`. -/
def eventsAbove (chain : List MBlock) (lo : Nat) : Nat :=
  evSum (chain.filter fun b => b.height > lo)

/-- The valset nonce after some transactions: the numeric payload of the last
    edit-multisig transaction sent from the multisig, if any. -/
def valsetAfter (v : Nat) (txs : List MTx) : Nat :=
  txs.foldl (fun v tx => match tx with
    | .editMultisig true (some n) => n
    | _ => v) v

/-- What one transaction does to the cursor when the early return is not taken. -/
def stepCur (c : Cursor) (tx : MTx) : Cursor :=
  if !countsInResync tx then c
  else match tx with
    | .send .. => { c with nextEvent := c.nextEvent + 1 }
    | .multisend _ => { c with nextEvent := c.nextEvent + 1, nextBatch := c.nextBatch + 1 }
    | .editMultisig _ (some n) => { c with nextEvent := c.nextEvent + 1, lastValset := n }
    | _ => c

/-- The cursor committed at the end of block `b` when the scan entered it with `c`. -/
def endCur (c : Cursor) (b : MBlock) : Cursor :=
  { b.txs.foldl stepCur c with lastChecked := b.height }

/-- The cursor after whole blocks. -/
def curAfter (c : Cursor) (bs : List MBlock) : Cursor := bs.foldl endCur c

/-- The block-end cursors of a run over `bs` that starts with `c`. -/
def blockEnds (c : Cursor) : List MBlock → List Cursor
  | [] => []
  | b :: bs => endCur c b :: blockEnds (endCur c b) bs

/-- The early-return cursor: counters after `txpre`, `lastChecked = height - 1`. -/
def earlyCur (c : Cursor) (height : Nat) (txpre : List MTx) : Cursor :=
  { txpre.foldl stepCur c with lastChecked := height - 1 }

/-- The commits made at the end of a block: all commits, except the last one if the scan took
    the early return. -/
def blockCommits (r : ScanSt) : List Cursor :=
  if r.stopped then r.commits.dropLast else r.commits

/-! ### Counting -/

@[simp] theorem evCnt_nil : evCnt [] = 0 := rfl
theorem evCnt_cons (tx : MTx) (txs : List MTx) :
    evCnt (tx :: txs) = (if countsInResync tx then 1 else 0) + evCnt txs := by
  unfold evCnt
  by_cases h : countsInResync tx = true <;> simp [h] <;> omega
theorem evCnt_append (a b : List MTx) : evCnt (a ++ b) = evCnt a + evCnt b := by
  simp [evCnt, List.filter_append]

/-- No bridge event among `txs`. -/
theorem evCnt_eq_zero_iff (txs : List MTx) :
    evCnt txs = 0 ↔ ∀ t ∈ txs, countsInResync t = false := by
  simp [evCnt, List.filter_eq_nil_iff]

@[simp] theorem batchCnt_nil : batchCnt [] = 0 := rfl
theorem batchCnt_cons (tx : MTx) (txs : List MTx) :
    batchCnt (tx :: txs) = (if isBatchTx tx then 1 else 0) + batchCnt txs := by
  unfold batchCnt
  by_cases h : isBatchTx tx = true <;> simp [h] <;> omega

@[simp] theorem evSum_nil : evSum [] = 0 := rfl
theorem evSum_cons (b : MBlock) (bs : List MBlock) : evSum (b :: bs) = evCnt b.txs + evSum bs := by
  simp [evSum, sumNats_cons]
theorem evSum_append (a b : List MBlock) : evSum (a ++ b) = evSum a + evSum b := by
  induction a with
  | nil => simp
  | cons x xs ih => rw [List.cons_append, evSum_cons, evSum_cons, ih]; omega

@[simp] theorem batchSum_nil : batchSum [] = 0 := rfl
theorem batchSum_cons (b : MBlock) (bs : List MBlock) : batchSum (b :: bs) = batchCnt b.txs + batchSum bs := by
  simp [batchSum, sumNats_cons]
theorem batchSum_append (a b : List MBlock) : batchSum (a ++ b) = batchSum a + batchSum b := by
  induction a with
  | nil => simp
  | cons x xs ih => rw [List.cons_append, batchSum_cons, batchSum_cons, ih]; omega

theorem eventsBetween_eq (chain : List MBlock) (lo hi : Nat) :
    eventsBetween chain lo hi = evSum (chain.filter fun b => lo < b.height && b.height ≤ hi) := rfl

theorem valsetAfter_append (v : Nat) (a b : List MTx) :
    valsetAfter v (a ++ b) = valsetAfter (valsetAfter v a) b := by
  simp [valsetAfter, List.foldl_append]

/-! ### One transaction, without early return -/

theorem stepCur_lastChecked (c : Cursor) (tx : MTx) : (stepCur c tx).lastChecked = c.lastChecked := by
  unfold stepCur; split
  · rfl
  · split <;> rfl

theorem stepCur_nextEvent (c : Cursor) (tx : MTx) :
    (stepCur c tx).nextEvent = c.nextEvent + (if countsInResync tx then 1 else 0) := by
  cases tx with
  | send a b v => by_cases h : countsInResync (.send a b v) = true <;> simp [stepCur, h]
  | multisend a => by_cases h : countsInResync (.multisend a) = true <;> simp [stepCur, h]
  | editMultisig a p =>
    cases p with
    | none => simp [stepCur, countsInResync]
    | some n => by_cases h : countsInResync (.editMultisig a (some n)) = true <;> simp [stepCur, h]
  | other => simp [stepCur, countsInResync]

theorem stepCur_nextBatch (c : Cursor) (tx : MTx) :
    (stepCur c tx).nextBatch = c.nextBatch + (if isBatchTx tx then 1 else 0) := by
  cases tx with
  | send a b v => by_cases h : countsInResync (.send a b v) = true <;> simp [stepCur, h, isBatchTx]
  | multisend a => cases a <;> simp [stepCur, countsInResync, isBatchTx]
  | editMultisig a p =>
    cases p with
    | none => simp [stepCur, countsInResync, isBatchTx]
    | some n =>
      by_cases h : countsInResync (.editMultisig a (some n)) = true <;> simp [stepCur, h, isBatchTx]
  | other => simp [stepCur, countsInResync, isBatchTx]

theorem stepCur_lastValset (c : Cursor) (tx : MTx) :
    (stepCur c tx).lastValset = valsetAfter c.lastValset [tx] := by
  cases tx with
  | send a b v => by_cases h : countsInResync (.send a b v) = true <;> simp [stepCur, h, valsetAfter]
  | multisend a => cases a <;> simp [stepCur, countsInResync, valsetAfter]
  | editMultisig a p =>
    cases p with
    | none => cases a <;> simp [stepCur, countsInResync, valsetAfter]
    | some n => cases a <;> simp [stepCur, countsInResync, valsetAfter]
  | other => simp [stepCur, countsInResync, valsetAfter]

theorem foldl_stepCur_lastChecked (txs : List MTx) (c : Cursor) :
    (txs.foldl stepCur c).lastChecked = c.lastChecked := by
  induction txs generalizing c with
  | nil => rfl
  | cons t ts ih => rw [List.foldl_cons, ih, stepCur_lastChecked]

theorem foldl_stepCur_nextEvent (txs : List MTx) (c : Cursor) :
    (txs.foldl stepCur c).nextEvent = c.nextEvent + evCnt txs := by
  induction txs generalizing c with
  | nil => simp
  | cons t ts ih => rw [List.foldl_cons, ih, stepCur_nextEvent, evCnt_cons]; omega

theorem foldl_stepCur_nextBatch (txs : List MTx) (c : Cursor) :
    (txs.foldl stepCur c).nextBatch = c.nextBatch + batchCnt txs := by
  induction txs generalizing c with
  | nil => simp
  | cons t ts ih => rw [List.foldl_cons, ih, stepCur_nextBatch, batchCnt_cons]; omega

theorem foldl_stepCur_lastValset (txs : List MTx) (c : Cursor) :
    (txs.foldl stepCur c).lastValset = valsetAfter c.lastValset txs := by
  induction txs generalizing c with
  | nil => rfl
  | cons t ts ih =>
    rw [List.foldl_cons, ih, stepCur_lastValset]
    exact (valsetAfter_append c.lastValset [t] ts).symm

/-! ### Whole blocks, without early return -/

theorem endCur_lastChecked (c : Cursor) (b : MBlock) : (endCur c b).lastChecked = b.height := rfl
theorem endCur_nextEvent (c : Cursor) (b : MBlock) :
    (endCur c b).nextEvent = c.nextEvent + evCnt b.txs := foldl_stepCur_nextEvent b.txs c
theorem endCur_nextBatch (c : Cursor) (b : MBlock) :
    (endCur c b).nextBatch = c.nextBatch + batchCnt b.txs := foldl_stepCur_nextBatch b.txs c
theorem endCur_lastValset (c : Cursor) (b : MBlock) :
    (endCur c b).lastValset = valsetAfter c.lastValset b.txs := foldl_stepCur_lastValset b.txs c

@[simp] theorem curAfter_nil (c : Cursor) : curAfter c [] = c := rfl
theorem curAfter_cons (c : Cursor) (b : MBlock) (bs : List MBlock) :
    curAfter c (b :: bs) = curAfter (endCur c b) bs := rfl
theorem curAfter_concat (c : Cursor) (bs : List MBlock) (b : MBlock) :
    curAfter c (bs ++ [b]) = endCur (curAfter c bs) b := by
  simp [curAfter, List.foldl_append]

theorem curAfter_nextEvent (bs : List MBlock) (c : Cursor) :
    (curAfter c bs).nextEvent = c.nextEvent + evSum bs := by
  induction bs generalizing c with
  | nil => simp
  | cons b bs ih => rw [curAfter_cons, ih, endCur_nextEvent, evSum_cons]; omega

theorem curAfter_nextBatch (bs : List MBlock) (c : Cursor) :
    (curAfter c bs).nextBatch = c.nextBatch + batchSum bs := by
  induction bs generalizing c with
  | nil => simp
  | cons b bs ih => rw [curAfter_cons, ih, endCur_nextBatch, batchSum_cons]; omega

theorem curAfter_lastValset (bs : List MBlock) (c : Cursor) :
    (curAfter c bs).lastValset = valsetAfter c.lastValset (bs.flatMap (·.txs)) := by
  induction bs generalizing c with
  | nil => rfl
  | cons b bs ih =>
    rw [curAfter_cons, ih, endCur_lastValset, List.flatMap_cons, valsetAfter_append]

theorem curAfter_lastChecked_concat (c : Cursor) (bs : List MBlock) (b : MBlock) :
    (curAfter c (bs ++ [b])).lastChecked = b.height := by
  rw [curAfter_concat]; rfl

/-- Every block-end cursor is the cursor after a non-empty prefix of the blocks. -/
theorem mem_blockEnds {bs : List MBlock} {c0 c : Cursor} (h : c ∈ blockEnds c0 bs) :
    ∃ pre b post, bs = pre ++ b :: post ∧ c = curAfter c0 (pre ++ [b]) := by
  induction bs generalizing c0 with
  | nil => simp [blockEnds] at h
  | cons x xs ih =>
    simp only [blockEnds, List.mem_cons] at h
    rcases h with h | h
    · exact ⟨[], x, xs, rfl, by simp [h, curAfter]⟩
    · obtain ⟨pre, b, post, hxs, hc⟩ := ih h
      exact ⟨x :: pre, b, post, by simp [hxs], by rw [hc]; rfl⟩

theorem blockEnds_append (c0 : Cursor) (a b : List MBlock) :
    blockEnds c0 (a ++ b) = blockEnds c0 a ++ blockEnds (curAfter c0 a) b := by
  induction a generalizing c0 with
  | nil => rfl
  | cons x xs ih => simp [blockEnds, ih, curAfter_cons]

theorem blockEnds_length (c0 : Cursor) (bs : List MBlock) : (blockEnds c0 bs).length = bs.length := by
  induction bs generalizing c0 with
  | nil => rfl
  | cons x xs ih => simp [blockEnds, ih]

theorem blockEnds_nextEvent_ge {bs : List MBlock} {c0 c : Cursor} (h : c ∈ blockEnds c0 bs) :
    c0.nextEvent ≤ c.nextEvent := by
  obtain ⟨pre, b, post, _, hc⟩ := mem_blockEnds h
  rw [hc, curAfter_nextEvent]; omega

/-- `nextEvent` never decreases along the block-end cursors. -/
theorem blockEnds_pairwise_nextEvent (bs : List MBlock) (c0 : Cursor) :
    (blockEnds c0 bs).Pairwise (fun a b => a.nextEvent ≤ b.nextEvent) := by
  induction bs generalizing c0 with
  | nil => exact List.Pairwise.nil
  | cons x xs ih =>
    simp only [blockEnds, List.pairwise_cons]
    exact ⟨fun c hc => blockEnds_nextEvent_ge hc, ih _⟩

/-- `lastChecked` along the block-end cursors is the list of block heights. -/
theorem blockEnds_map_lastChecked (bs : List MBlock) (c0 : Cursor) :
    (blockEnds c0 bs).map (·.lastChecked) = bs.map (·.height) := by
  induction bs generalizing c0 with
  | nil => rfl
  | cons x xs ih => simp [blockEnds, ih, endCur_lastChecked]

/-! ### The scan: one transaction -/

theorem resyncTx_stopped (ack h : Nat) (s : ScanSt) (tx : MTx) (hs : s.stopped = true) :
    resyncTx ack h s tx = s := by
  simp [resyncTx, hs]

theorem foldl_resyncTx_stopped (ack h : Nat) (txs : List MTx) (s : ScanSt) (hs : s.stopped = true) :
    txs.foldl (resyncTx ack h) s = s := by
  induction txs with
  | nil => rfl
  | cons t ts ih => rw [List.foldl_cons, resyncTx_stopped ack h s t hs, ih]

/-- One transaction of the scan from a running state: either it is processed like `stepCur`,
    or it is a counted transaction at which the early return is taken. -/
theorem resyncTx_spec (ack h : Nat) (s : ScanSt) (tx : MTx) (hs : s.stopped = false) :
    ((resyncTx ack h s tx).stopped = false ∧ (resyncTx ack h s tx).commits = s.commits ∧
      (resyncTx ack h s tx).cur = stepCur s.cur tx ∧
      (countsInResync tx = true → ¬ (0 < ack ∧ ack < s.cur.nextEvent))) ∨
    ((resyncTx ack h s tx).stopped = true ∧ countsInResync tx = true ∧ 0 < ack ∧ ack < s.cur.nextEvent ∧
      (resyncTx ack h s tx).commits = s.commits ++ [{ s.cur with lastChecked := h - 1 }] ∧
      (resyncTx ack h s tx).cur = { s.cur with lastChecked := h - 1 }) := by
  by_cases hc : countsInResync tx = true
  · by_cases hk : 0 < ack ∧ ack < s.cur.nextEvent
    · right
      simp [resyncTx, hs, hc, hk.1, hk.2]
    · left
      have hk' : (decide (ack > 0) && decide (ack < s.cur.nextEvent)) = false := by
        rcases Nat.lt_or_ge 0 ack with h1 | h1
        · have : ¬ ack < s.cur.nextEvent := fun h2 => hk ⟨h1, h2⟩
          simp [this]
        · have : ¬ ack > 0 := by omega
          simp [this]
      refine ⟨?_, ?_, ?_, fun _ => hk⟩
      · cases tx with
        | send a b v => simp [resyncTx, hs, hc, hk']
        | multisend a => simp [resyncTx, hs, hc, hk']
        | editMultisig a p => cases p <;> simp [resyncTx, hs, hc, hk']
        | other => simp [resyncTx, hs, hc, hk']
      · cases tx with
        | send a b v => simp [resyncTx, hs, hc, hk']
        | multisend a => simp [resyncTx, hs, hc, hk']
        | editMultisig a p => cases p <;> simp [resyncTx, hs, hc, hk']
        | other => simp [resyncTx, hs, hc, hk']
      · cases tx with
        | send a b v => simp [resyncTx, stepCur, hs, hc, hk']
        | multisend a => simp [resyncTx, stepCur, hs, hc, hk']
        | editMultisig a p => cases p <;> simp [resyncTx, stepCur, hs, hc, hk']
        | other => simp [resyncTx, stepCur, hs, hc, hk']
  · left
    have hc' : countsInResync tx = false := by simpa using hc
    refine ⟨?_, ?_, ?_, fun h => absurd h hc⟩ <;> simp [resyncTx, stepCur, hs, hc']

/-- The transactions of one block, from a running state. -/
theorem foldl_resyncTx_spec (ack h : Nat) (txs : List MTx) (s : ScanSt) (hs : s.stopped = false) :
    ((txs.foldl (resyncTx ack h) s).stopped = false ∧
      (txs.foldl (resyncTx ack h) s).commits = s.commits ∧
      (txs.foldl (resyncTx ack h) s).cur = txs.foldl stepCur s.cur ∧
      (0 < ack → 0 < evCnt txs → s.cur.nextEvent + evCnt txs ≤ ack + 1)) ∨
    ((txs.foldl (resyncTx ack h) s).stopped = true ∧
      ∃ txpre tx txpost, txs = txpre ++ tx :: txpost ∧ countsInResync tx = true ∧
        0 < ack ∧ ack < (earlyCur s.cur h txpre).nextEvent ∧
        (0 < evCnt txpre → (earlyCur s.cur h txpre).nextEvent ≤ ack + 1) ∧
        (txs.foldl (resyncTx ack h) s).commits = s.commits ++ [earlyCur s.cur h txpre] ∧
        (txs.foldl (resyncTx ack h) s).cur = earlyCur s.cur h txpre) := by
  induction txs generalizing s with
  | nil => left; simp [hs]
  | cons t ts ih =>
    rw [List.foldl_cons]
    rcases resyncTx_spec ack h s t hs with ⟨h1, h2, h3, h4⟩ | ⟨h1, hc, ha, hlt, h2, h3⟩
    · rcases ih (resyncTx ack h s t) h1 with ⟨i1, i2, i3, i4⟩ | ⟨i1, txpre, tx, txpost, e, hc, ha, hlt, hge, i2, i3⟩
      · left
        refine ⟨i1, by rw [i2, h2], by rw [i3, h3]; rfl, ?_⟩
        intro ha hpos
        rw [h3, stepCur_nextEvent] at i4
        rw [evCnt_cons] at hpos ⊢
        by_cases hct : countsInResync t = true
        · have := h4 hct
          simp only [hct, if_true] at i4 hpos ⊢
          by_cases hz : 0 < evCnt ts
          · have := i4 ha hz; omega
          · have : evCnt ts = 0 := by omega
            rw [this]
            have : ¬ ack < s.cur.nextEvent := fun h => (h4 hct) ⟨ha, h⟩
            omega
        · simp only [hct] at i4 hpos ⊢
          have := i4 ha (by simpa using hpos)
          simpa using this
      · right
        refine ⟨i1, t :: txpre, tx, txpost, by simp [e], hc, ha, ?_, ?_, ?_, ?_⟩
        · simpa [earlyCur, h3] using hlt
        · intro hpos
          have e1 : (earlyCur s.cur h (t :: txpre)).nextEvent = (earlyCur (stepCur s.cur t) h txpre).nextEvent := rfl
          rw [e1]
          rw [h3] at hge hlt
          by_cases hz : 0 < evCnt txpre
          · exact hge hz
          · have hz0 : evCnt txpre = 0 := by omega
            rw [evCnt_cons, hz0] at hpos
            have hct : countsInResync t = true := by
              by_cases hct : countsInResync t = true
              · exact hct
              · simp [hct] at hpos
            have hn := h4 hct
            simp only [earlyCur, foldl_stepCur_nextEvent, stepCur_nextEvent, hct, if_true, hz0] at hlt ⊢
            have : ¬ ack < s.cur.nextEvent := fun h => hn ⟨ha, h⟩
            omega
        · rw [i2, h2, h3]; rfl
        · rw [i3, h3]; rfl
    · right
      rw [foldl_resyncTx_stopped ack h ts _ h1]
      refine ⟨h1, [], t, ts, rfl, hc, ha, by simpa [earlyCur] using hlt, ?_, ?_, ?_⟩
      · intro hpos; simp at hpos
      · rw [h2]; rfl
      · rw [h3]; rfl

/-! ### The scan: blocks -/

theorem resyncBlock_stopped (ack : Nat) (s : ScanSt) (b : MBlock) (hs : s.stopped = true) :
    resyncBlock ack s b = s := by
  simp [resyncBlock, hs]

theorem foldl_resyncBlock_stopped (ack : Nat) (bs : List MBlock) (s : ScanSt) (hs : s.stopped = true) :
    bs.foldl (resyncBlock ack) s = s := by
  induction bs with
  | nil => rfl
  | cons b bs ih => rw [List.foldl_cons, resyncBlock_stopped ack s b hs, ih]

/-- The outcome of an early return in block `b` after the blocks `pre`, at the transaction
    following `txpre`, for a run that started with cursor `c0` and commits `cs`. -/
structure EarlyReturn (ack : Nat) (c0 : Cursor) (cs : List Cursor) (bs : List MBlock) (r : ScanSt)
    (pre : List MBlock) (b : MBlock) (post : List MBlock) (txpre : List MTx) (tx : MTx)
    (txpost : List MTx) : Prop where
  split_blocks : bs = pre ++ b :: post
  split_txs : b.txs = txpre ++ tx :: txpost
  counted : countsInResync tx = true
  ack_pos : 0 < ack
  ack_lt : ack < (earlyCur (curAfter c0 pre) b.height txpre).nextEvent
  /-- the trigger is the first opportunity inside the block, unless it is the block's first event -/
  ack_tight : 0 < evCnt txpre → (earlyCur (curAfter c0 pre) b.height txpre).nextEvent ≤ ack + 1
  commits_eq : r.commits = cs ++ blockEnds c0 pre ++ [earlyCur (curAfter c0 pre) b.height txpre]
  cur_eq : r.cur = earlyCur (curAfter c0 pre) b.height txpre

/-- Complete description of a scan over blocks `bs` from a running state. -/
theorem foldl_resyncBlock_spec (ack : Nat) (bs : List MBlock) (s : ScanSt) (hs : s.stopped = false) :
    ((bs.foldl (resyncBlock ack) s).stopped = false ∧
      (bs.foldl (resyncBlock ack) s).commits = s.commits ++ blockEnds s.cur bs ∧
      (bs.foldl (resyncBlock ack) s).cur = curAfter s.cur bs) ∨
    ((bs.foldl (resyncBlock ack) s).stopped = true ∧
      ∃ pre b post txpre tx txpost,
        EarlyReturn ack s.cur s.commits bs (bs.foldl (resyncBlock ack) s) pre b post txpre tx txpost) := by
  induction bs generalizing s with
  | nil => left; simp [blockEnds, hs]
  | cons b bs ih =>
    rw [List.foldl_cons]
    rcases foldl_resyncTx_spec ack b.height b.txs s hs with
      ⟨h1, h2, h3, _⟩ | ⟨h1, txpre, tx, txpost, e, hc, ha, hlt, hge, h2, h3⟩
    · -- the block is scanned to its end
      have hb : resyncBlock ack s b =
          { cur := endCur s.cur b, commits := s.commits ++ [endCur s.cur b], stopped := false } := by
        simp only [resyncBlock, hs, h1, Bool.false_eq_true, if_false, h2, h3]
        rfl
      rw [hb]
      rcases ih { cur := endCur s.cur b, commits := s.commits ++ [endCur s.cur b], stopped := false } rfl with
        ⟨i1, i2, i3⟩ | ⟨i1, pre, b', post, txpre, tx, txpost, er⟩
      · left
        refine ⟨i1, ?_, ?_⟩
        · rw [i2]; simp [blockEnds]
        · rw [i3]; rfl
      · right
        refine ⟨i1, b :: pre, b', post, txpre, tx, txpost, ?_⟩
        exact {
          split_blocks := by rw [er.split_blocks]; rfl
          split_txs := er.split_txs
          counted := er.counted
          ack_pos := er.ack_pos
          ack_lt := er.ack_lt
          ack_tight := er.ack_tight
          commits_eq := by rw [er.commits_eq]; simp [blockEnds, curAfter_cons]
          cur_eq := er.cur_eq }
    · -- early return inside this block
      have hb : resyncBlock ack s b = b.txs.foldl (resyncTx ack b.height) s := by
        simp [resyncBlock, hs, h1]
      rw [hb, foldl_resyncBlock_stopped ack bs _ h1]
      right
      refine ⟨h1, [], b, bs, txpre, tx, txpost, ?_⟩
      exact {
        split_blocks := rfl
        split_txs := e
        counted := hc
        ack_pos := ha
        ack_lt := hlt
        ack_tight := hge
        commits_eq := by rw [h2]; simp [blockEnds]
        cur_eq := h3 }

/-- Complete description of `resync`. -/
theorem resync_spec (start : Cursor) (ack : Nat) (chain : List MBlock) :
    ((resync start ack chain).stopped = false ∧
      (resync start ack chain).commits = blockEnds start (chain.filter fun b => b.height > start.lastChecked) ∧
      (resync start ack chain).cur = curAfter start (chain.filter fun b => b.height > start.lastChecked)) ∨
    ((resync start ack chain).stopped = true ∧
      ∃ pre b post txpre tx txpost,
        EarlyReturn ack start [] (chain.filter fun b => b.height > start.lastChecked)
          (resync start ack chain) pre b post txpre tx txpost) := by
  have := foldl_resyncBlock_spec ack (chain.filter fun b => b.height > start.lastChecked)
    { cur := start, commits := [], stopped := false } rfl
  simpa [resync] using this

/-- In the stopped case, the block-end commits are those of the blocks before the stop. -/
theorem EarlyReturn.blockCommits_eq {ack c0 cs bs r pre b post txpre tx txpost}
    (er : EarlyReturn ack c0 cs bs r pre b post txpre tx txpost) (hr : r.stopped = true) :
    blockCommits r = cs ++ blockEnds c0 pre := by
  simp [blockCommits, hr, er.commits_eq]

/-! ### Linking prefixes of the scanned blocks to height ranges of the history -/

theorem filter_range_split (chain : List MBlock) (lo hi : Nat) :
    (chain.filter fun b => lo < b.height && b.height ≤ hi) =
    (chain.filter fun b => b.height > lo).filter fun b => b.height ≤ hi := by
  rw [List.filter_filter]
  apply List.filter_congr
  intro b _
  by_cases h1 : lo < b.height <;> by_cases h2 : b.height ≤ hi <;> simp [h1, h2]

theorem ChainWF.filter {chain : List MBlock} (h : ChainWF chain) (p : MBlock → Bool) :
    ChainWF (chain.filter p) := List.Pairwise.filter p h

/-- In a strictly increasing list `pre ++ b :: post`, the blocks up to height `b.height` are
    exactly `pre ++ [b]`. -/
theorem filter_le_height {pre post : List MBlock} {b : MBlock} (h : ChainWF (pre ++ b :: post)) :
    ((pre ++ b :: post).filter fun x => x.height ≤ b.height) = pre ++ [b] := by
  unfold ChainWF at h
  rw [List.pairwise_append] at h
  obtain ⟨_, h2, h3⟩ := h
  rw [List.pairwise_cons] at h2
  rw [List.filter_append, List.filter_cons]
  have e1 : pre.filter (fun x => decide (x.height ≤ b.height)) = pre := by
    rw [List.filter_eq_self]; intro a ha
    have := h3 a ha b (by simp); simp; omega
  have e2 : post.filter (fun x => decide (x.height ≤ b.height)) = [] := by
    rw [List.filter_eq_nil_iff]; intro a ha
    have := h2.1 a ha; simp; omega
  rw [e1, e2]; simp

/-- … and the blocks strictly below `b.height` are exactly `pre`. -/
theorem filter_le_pred_height {pre post : List MBlock} {b : MBlock} (h : ChainWF (pre ++ b :: post))
    (hpos : 0 < b.height) :
    ((pre ++ b :: post).filter fun x => x.height ≤ b.height - 1) = pre := by
  unfold ChainWF at h
  rw [List.pairwise_append] at h
  obtain ⟨_, h2, h3⟩ := h
  rw [List.pairwise_cons] at h2
  rw [List.filter_append, List.filter_cons]
  have e1 : pre.filter (fun x => decide (x.height ≤ b.height - 1)) = pre := by
    rw [List.filter_eq_self]; intro a ha
    have := h3 a ha b (by simp); simp; omega
  have e2 : post.filter (fun x => decide (x.height ≤ b.height - 1)) = [] := by
    rw [List.filter_eq_nil_iff]; intro a ha
    have := h2.1 a ha; simp; omega
  have e3 : ¬ b.height ≤ b.height - 1 := by omega
  rw [e1, e2]; simp [e3]

theorem range_upto_block {chain : List MBlock} {lo : Nat} {pre post : List MBlock} {b : MBlock}
    (hwf : ChainWF chain) (hsplit : (chain.filter fun b => b.height > lo) = pre ++ b :: post) :
    (chain.filter fun x => lo < x.height && x.height ≤ b.height) = pre ++ [b] := by
  rw [filter_range_split, hsplit]
  exact filter_le_height (hsplit ▸ hwf.filter _)

theorem mem_of_scan_split {chain : List MBlock} {lo : Nat} {pre post : List MBlock} {b : MBlock}
    (hsplit : (chain.filter fun b => b.height > lo) = pre ++ b :: post) :
    b ∈ chain ∧ lo < b.height := by
  have : b ∈ chain.filter fun b => b.height > lo := by rw [hsplit]; simp
  rw [List.mem_filter] at this
  exact ⟨this.1, by simpa using this.2⟩

theorem range_below_block {chain : List MBlock} {lo : Nat} {pre post : List MBlock} {b : MBlock}
    (hwf : ChainWF chain) (hsplit : (chain.filter fun b => b.height > lo) = pre ++ b :: post) :
    (chain.filter fun x => lo < x.height && x.height ≤ b.height - 1) = pre := by
  rw [filter_range_split, hsplit]
  have := (mem_of_scan_split hsplit).2
  exact filter_le_pred_height (hsplit ▸ hwf.filter _) (by omega)

/-- A block-end cursor of the scan, expressed in terms of the history. -/
theorem blockEnd_laws {chain : List MBlock} {start c : Cursor} (hwf : ChainWF chain)
    (hc : c ∈ blockEnds start (chain.filter fun b => b.height > start.lastChecked)) :
    (∃ b ∈ chain, start.lastChecked < b.height ∧ c.lastChecked = b.height) ∧
    c.nextEvent = start.nextEvent + eventsBetween chain start.lastChecked c.lastChecked ∧
    c.nextBatch = start.nextBatch + batchesBetween chain start.lastChecked c.lastChecked ∧
    c.lastValset = valsetAfter start.lastValset (txsBetween chain start.lastChecked c.lastChecked) := by
  obtain ⟨pre, b, post, hsplit, hcur⟩ := mem_blockEnds hc
  have hlc : c.lastChecked = b.height := by rw [hcur, curAfter_lastChecked_concat]
  have hrange := range_upto_block hwf hsplit
  have hm := mem_of_scan_split hsplit
  refine ⟨⟨b, hm.1, hm.2, hlc⟩, ?_, ?_, ?_⟩
  · rw [eventsBetween_eq, hlc, hrange, hcur, curAfter_nextEvent]
  · rw [batchesBetween, hlc, hrange, hcur, curAfter_nextBatch]
  · rw [txsBetween, hlc, hrange, hcur, curAfter_lastValset]

theorem consistent_eq_true_iff (chain : List MBlock) (start c : Cursor) :
    consistent chain start c = true ↔
      start.lastChecked ≤ c.lastChecked ∧
      c.nextEvent = start.nextEvent + eventsBetween chain start.lastChecked c.lastChecked := by
  simp [consistent]

/-- Subsuming prefix sums: events of a prefix never exceed the events of the whole. -/
theorem evSum_prefix_le (pre : List MBlock) (b : MBlock) (post : List MBlock) :
    evSum pre + evCnt b.txs ≤ evSum (pre ++ b :: post) := by
  rw [evSum_append, evSum_cons]; omega

/-- All heights are bounded by the sum of the heights. -/
theorem mblock_height_le_sum {chain : List MBlock} {b : MBlock} (h : b ∈ chain) :
    b.height ≤ sumNats (chain.map (·.height)) := by
  induction chain with
  | nil => simp at h
  | cons x xs ih =>
    rw [List.map_cons, sumNats_cons]
    rcases List.mem_cons.mp h with h | h
    · subst h; omega
    · have := ih h; omega

theorem eventsAbove_eq_eventsBetween (chain : List MBlock) (lo : Nat) :
    eventsAbove chain lo = eventsBetween chain lo (sumNats (chain.map (·.height))) := by
  rw [eventsAbove, eventsBetween_eq]
  congr 1
  apply List.filter_congr
  intro b hb
  have := mblock_height_le_sum hb
  by_cases h1 : lo < b.height <;> simp [h1, this]

/-! ### Monotonicity helpers and the shape of the commit list -/

theorem blockEnds_nextEvent_le_curAfter {bs : List MBlock} {c0 c : Cursor} (h : c ∈ blockEnds c0 bs) :
    c.nextEvent ≤ (curAfter c0 bs).nextEvent := by
  obtain ⟨pre, b, post, hbs, hc⟩ := mem_blockEnds h
  rw [hc, hbs, curAfter_nextEvent, curAfter_nextEvent, evSum_append, evSum_append, evSum_cons, evSum_cons]
  simp

theorem blockEnds_pairwise_lastChecked {bs : List MBlock} (h : ChainWF bs) (c0 : Cursor) :
    (blockEnds c0 bs).Pairwise (fun a b => a.lastChecked < b.lastChecked) := by
  have h1 : ((blockEnds c0 bs).map (·.lastChecked)).Pairwise (fun a b => a < b) := by
    rw [blockEnds_map_lastChecked, List.pairwise_map]; exact h
  rwa [List.pairwise_map] at h1

theorem blockEnds_lastChecked_mem {bs : List MBlock} {c0 c : Cursor} (h : c ∈ blockEnds c0 bs) :
    ∃ b ∈ bs, c.lastChecked = b.height := by
  have : c.lastChecked ∈ (blockEnds c0 bs).map (·.lastChecked) := List.mem_map.mpr ⟨c, h, rfl⟩
  rw [blockEnds_map_lastChecked, List.mem_map] at this
  obtain ⟨b, hb, e⟩ := this
  exact ⟨b, hb, e.symm⟩

/-- The block-end commits of `resync` are a prefix of the ideal block-end cursors. -/
theorem blockCommits_prefix (start : Cursor) (ack : Nat) (chain : List MBlock) :
    ∃ rest, blockEnds start (chain.filter fun b => b.height > start.lastChecked) =
      blockCommits (resync start ack chain) ++ rest := by
  rcases resync_spec start ack chain with ⟨h1, h2, _⟩ | ⟨h1, pre, b, post, txpre, tx, txpost, er⟩
  · exact ⟨[], by simp [blockCommits, h1, h2]⟩
  · refine ⟨blockEnds (curAfter start pre) (b :: post), ?_⟩
    rw [er.blockCommits_eq h1, er.split_blocks, blockEnds_append]; simp

theorem mem_blockCommits {start : Cursor} {ack : Nat} {chain : List MBlock} {c : Cursor}
    (h : c ∈ blockCommits (resync start ack chain)) :
    c ∈ blockEnds start (chain.filter fun b => b.height > start.lastChecked) := by
  obtain ⟨rest, e⟩ := blockCommits_prefix start ack chain
  rw [e]; exact List.mem_append_left _ h

/-- All commits are the block-end commits, plus the early-return commit when stopped. -/
theorem commits_eq_blockCommits (r : ScanSt) (hne : r.stopped = true → r.commits ≠ []) :
    r.commits = blockCommits r ++ (if r.stopped then r.commits.getLast?.toList else []) := by
  unfold blockCommits
  by_cases hs : r.stopped = true
  · simp only [hs, if_true]
    have hne' := hne hs
    rw [List.getLast?_eq_some_getLast hne']
    exact (List.dropLast_concat_getLast hne').symm
  · simp [hs]

/-! ### Consistency composes across restarts -/

theorem eventsBetween_add (chain : List MBlock) {a b c : Nat} (hab : a ≤ b) (hbc : b ≤ c) :
    eventsBetween chain a c = eventsBetween chain a b + eventsBetween chain b c := by
  simp only [eventsBetween_eq]
  induction chain with
  | nil => simp
  | cons x xs ih =>
    simp only [List.filter_cons]
    by_cases h1 : a < x.height <;> by_cases h2 : x.height ≤ b <;> by_cases h3 : x.height ≤ c <;>
      by_cases h4 : b < x.height <;> simp [h1, h2, h3, h4, evSum_cons, ih] <;> omega

/-- A cursor consistent relative to a cursor that is itself consistent relative to `s` is
    consistent relative to `s`. -/
theorem consistent_trans {chain : List MBlock} {s c1 c2 : Cursor}
    (h1 : consistent chain s c1 = true) (h2 : consistent chain c1 c2 = true) :
    consistent chain s c2 = true := by
  rw [consistent_eq_true_iff] at h1 h2 ⊢
  refine ⟨by omega, ?_⟩
  rw [eventsBetween_add chain h1.1 h2.1]; omega

end Mhub2
