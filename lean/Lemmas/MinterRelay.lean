/-
  Helper lemmas for the connector's Minter side (Mhub2/MinterRelay.lean).
-/
import Mhub2.MinterRelay
import Lemmas.Encoding
namespace Mhub2

/-- Sorting by decreasing sequence. -/
theorem isort_sorted_desc_seq (bs : List HubTx) :
    (isort (fun a b => decide (a.seq > b.seq)) bs).Pairwise (fun a b => a.seq ≥ b.seq) := by
  have h := Enc.isort_sorted (fun (a b : HubTx) => decide (a.seq > b.seq))
    (by intro a b h; simp at h ⊢; omega)
    (by intro a b c h1 h2; simp at h1 h2 ⊢; omega) bs
  refine List.Pairwise.imp ?_ h
  intro a b hab
  simp at hab
  omega

/-- In a list sorted by decreasing key the last element has the least key. -/
theorem getLast_le_of_pairwise_ge {l : List HubTx} (hs : l.Pairwise (fun a b => a.seq ≥ b.seq))
    {y x : HubTx} (hy : l.getLast? = some y) (hx : x ∈ l) : y.seq ≤ x.seq := by
  induction l with
  | nil => simp at hx
  | cons a as ih =>
    rw [List.pairwise_cons] at hs
    cases as with
    | nil =>
      simp at hy hx; subst hy; subst hx; exact Nat.le_refl _
    | cons b bs =>
      have hy' : (b :: bs).getLast? = some y := by simpa [List.getLast?_cons_cons] using hy
      rcases List.mem_cons.mp hx with rfl | hx'
      · have hm : y ∈ b :: bs := List.mem_of_getLast? hy'
        exact hs.1 y hm
      · exact ih hs.2 hy' hx'

/-- The loop of `relayValsets`: if it ends with `w` and `w` is newer than `last`, then `w` is in the list,
    signed, and every signed set before it is not newer than `last` (the loop stopped at `w`). -/
theorem pickValsetLoop_spec (last : Nat) (vs : List HubTx) (cur : Option HubTx) (w : HubTx)
    (h : pickValsetLoop last cur vs = some w) (hw : last < w.nonce)
    (hcur : ∀ c, cur = some c → c.nonce ≤ last := by intro c hc; cases hc) :
    ∃ pre post, vs = pre ++ w :: post ∧ w.nsigs > 0 ∧ ∀ x ∈ pre, x.nsigs > 0 → x.nonce ≤ last := by
  induction vs generalizing cur with
  | nil =>
    simp only [pickValsetLoop] at h
    have := hcur w h
    omega
  | cons v rest ih =>
    simp only [pickValsetLoop] at h
    by_cases hs : v.nsigs > 0
    · simp only [hs, if_true] at h
      by_cases hn : v.nonce > last
      · simp only [hn, if_true, Option.some.injEq] at h
        subst h
        exact ⟨[], rest, rfl, hs, by simp⟩
      · simp only [hn, if_false] at h
        obtain ⟨pre, post, hsplit, hws, hpre⟩ := ih (some v) h (by intro c hc; cases hc; omega)
        refine ⟨v :: pre, post, by rw [hsplit]; rfl, hws, ?_⟩
        intro x hx hxs
        rcases List.mem_cons.mp hx with rfl | hx'
        · omega
        · exact hpre x hx' hxs
    · simp only [hs, if_false] at h
      obtain ⟨pre, post, hsplit, hws, hpre⟩ := ih cur h hcur
      refine ⟨v :: pre, post, by rw [hsplit]; rfl, hws, ?_⟩
      intro x hx hxs
      rcases List.mem_cons.mp hx with rfl | hx'
      · exact absurd hxs hs
      · exact hpre x hx' hxs

theorem filter_eq_singleton_of_nodup {members : List String} (hnd : members.Nodup) {c : String} (hc : c ∈ members) :
    (members.filter fun m => m == c) = [c] := by
  induction members with
  | nil => simp at hc
  | cons m ms ih =>
    rw [List.nodup_cons] at hnd
    rw [List.filter_cons]
    by_cases hm : m = c
    · subst hm
      have : (ms.filter fun x => x == m) = [] := by
        rw [List.filter_eq_nil_iff]; intro a ha; simp; intro e; exact hnd.1 (e ▸ ha)
      simp [this]
    · have hc' : c ∈ ms := by
        rcases List.mem_cons.mp hc with h | h
        · exact absurd h.symm hm
        · exact h
      simp [hm, ih hnd.2 hc']

end Mhub2
