/-
  Helpers for C05 (block processing never panics).  Imports neither Lemmas/Votes.lean nor
  Lemmas/Ledger.lean (they share lemma names and cannot be imported together), so that the result
  can be combined with either.  Everything lives in namespace `Mhub2.C05`.

  Contents: panic-freedom of a monadic fold under an invariant; the byte order and keyed lists;
  the hypotheses of the C05 theorems as predicates over the hub; begin block; the event handler
  keeps vote bookkeeping and non-negativity of pool entries; tally; expiry refunds; end block;
  oracle end block; every operation of the model keeps the block invariant.
-/
import Mhub2.Votes
import Mhub2.Oracle
import Mhub2.Step
import Lemmas.Bank
namespace Mhub2.C05
open Mhub2

/-! ### Folds in `M` -/

theorem foldlM_cons_eq {α β : Type} (f : β → α → M β) (x : α) (xs : List α) (b : β) :
    (x :: xs).foldlM f b = (match f b x with
      | .ok b1 => xs.foldlM f b1
      | .error e => .error e) := by
  rw [List.foldlM_cons]
  show Except.bind _ _ = _
  unfold Except.bind
  cases f b x <;> rfl

/-- A fold whose steps keep an invariant (which may mention the elements still to be visited) and
    do not panic under it does not panic, and its result satisfies the invariant. -/
theorem foldlM_inv {α β : Type} (f : β → α → M β) (I : List α → β → Prop)
    (hstep : ∀ x xs b, I (x :: xs) b →
      (∀ m, f b x ≠ .error (.panic m)) ∧ ∀ b', f b x = .ok b' → I xs b') :
    ∀ (l : List α) (b : β), I l b →
      (∀ m, l.foldlM f b ≠ .error (.panic m)) ∧ ∀ b', l.foldlM f b = .ok b' → I [] b' := by
  intro l
  induction l with
  | nil =>
    intro b hI
    refine ⟨fun m e => ?_, fun b' e => ?_⟩
    · simp [List.foldlM_nil, pure, Except.pure] at e
    · simp only [List.foldlM_nil, pure, Except.pure, Except.ok.injEq] at e
      subst e; exact hI
  | cons x xs ih =>
    intro b hI
    obtain ⟨hnp, hok⟩ := hstep x xs b hI
    rw [foldlM_cons_eq]
    cases hf : f b x with
    | error e =>
      refine ⟨fun m he => ?_, fun b' he => ?_⟩
      · simp only [Except.error.injEq] at he
        subst he; exact hnp m hf
      · cases he
    | ok b1 => exact ih b1 (hok b1 hf)

/-- The same for an invariant that does not mention the list. -/
theorem foldlM_inv' {α β : Type} (f : β → α → M β) (I : β → Prop)
    (hstep : ∀ x b, I b → (∀ m, f b x ≠ .error (.panic m)) ∧ ∀ b', f b x = .ok b' → I b')
    (l : List α) (b : β) (hI : I b) :
    (∀ m, l.foldlM f b ≠ .error (.panic m)) ∧ ∀ b', l.foldlM f b = .ok b' → I b' :=
  foldlM_inv f (fun _ b => I b) (fun x _ b h => hstep x b h) l b hI

theorem foldl_inv {α β : Type} (f : β → α → β) (I : β → Prop) (hstep : ∀ x b, I b → I (f b x))
    (l : List α) (b : β) (hI : I b) : I (l.foldl f b) := by
  induction l generalizing b with
  | nil => exact hI
  | cons x xs ih => exact ih _ (hstep x b hI)

/-- `Safe m P`: the computation `m` does not panic, and if it succeeds its result satisfies `P`.
    (It may fail with an ordinary error.) -/
def Safe {α : Type} (m : M α) (P : α → Prop) : Prop :=
  (∀ msg, m ≠ .error (.panic msg)) ∧ ∀ a, m = .ok a → P a

theorem Safe.ok {α : Type} {a : α} {P : α → Prop} (h : P a) : Safe (.ok a : M α) P :=
  ⟨fun _ e => (nomatch e), fun a' e => by cases e; exact h⟩

theorem Safe.pure {α : Type} {a : α} {P : α → Prop} (h : P a) : Safe (pure a : M α) P := Safe.ok h

theorem Safe.fail {α : Type} (msg : String) (P : α → Prop) : Safe (.error (.fail msg) : M α) P :=
  ⟨fun _ e => (nomatch e), fun _ e => (nomatch e)⟩

theorem Safe.failM {α : Type} (msg : String) (P : α → Prop) : Safe (failM msg : M α) P := Safe.fail msg P

theorem Safe.mono {α : Type} {m : M α} {P Q : α → Prop} (h : Safe m P) (hpq : ∀ a, P a → Q a) : Safe m Q :=
  ⟨h.1, fun a e => hpq a (h.2 a e)⟩

theorem Safe.bind {α β : Type} {m : M α} {f : α → M β} {P : α → Prop} {Q : β → Prop}
    (hm : Safe m P) (hf : ∀ a, P a → Safe (f a) Q) : Safe (m >>= f) Q := by
  cases hc : m with
  | error e =>
    refine ⟨fun msg he => ?_, fun b he => ?_⟩
    · have : (Except.error e : M β) = .error (.panic msg) := he
      simp only [Except.error.injEq] at this
      subst this
      exact hm.1 msg hc
    · cases he
  | ok a => exact hf a (hm.2 a hc)

theorem Safe.ite {α : Type} {c : Prop} [Decidable c] {a b : M α} {P : α → Prop}
    (ha : c → Safe a P) (hb : ¬ c → Safe b P) : Safe (if c then a else b) P := by
  split
  · exact ha ‹_›
  · exact hb ‹_›

theorem Safe.foldlM {α β : Type} (f : β → α → M β) (I : List α → β → Prop)
    (hstep : ∀ x xs b, I (x :: xs) b → Safe (f b x) (I xs)) (l : List α) (b : β) (hI : I l b) :
    Safe (l.foldlM f b) (I []) :=
  foldlM_inv f I hstep l b hI

theorem Safe.foldlM' {α β : Type} (f : β → α → M β) (I : β → Prop)
    (hstep : ∀ x b, I b → Safe (f b x) I) (l : List α) (b : β) (hI : I b) :
    Safe (l.foldlM f b) I :=
  foldlM_inv' f I hstep l b hI

/-! ### Byte order and keyed lists -/

theorem bytesLt_irrefl (a : Bytes) : bytesLt a a = false := by
  induction a with
  | nil => rfl
  | cons x xs ih => simp [bytesLt, ih]

theorem bytesLt_trans : ∀ {a b c : Bytes}, bytesLt a b = true → bytesLt b c = true → bytesLt a c = true
  | [], [], _, h, _ => by simp [bytesLt] at h
  | [], _ :: _, [], _, h => by simp [bytesLt] at h
  | [], _ :: _, _ :: _, _, _ => by simp [bytesLt]
  | _ :: _, [], _, h, _ => by simp [bytesLt] at h
  | _ :: _, _ :: _, [], _, h => by simp [bytesLt] at h
  | x :: xs, y :: ys, z :: zs, h1, h2 => by
    unfold bytesLt at h1 h2 ⊢
    by_cases hxy : x < y
    · by_cases hyz : y < z
      · have : x < z := by omega
        simp [this]
      · by_cases hzy : z < y
        · simp [hyz, hzy] at h2
        · have : x < z := by omega
          simp [this]
    · by_cases hyx : y < x
      · simp [hxy, hyx] at h1
      · simp only [hxy, hyx, if_false] at h1
        have hxy' : x = y := by omega
        subst hxy'
        by_cases hxz : x < z
        · simp [hxz]
        · by_cases hzx : z < x
          · simp [hxz, hzx] at h2
          · simp only [hxz, hzx, if_false] at h2 ⊢
            exact bytesLt_trans h1 h2

theorem bytesLt_total : ∀ {a b : Bytes}, bytesLt a b = false → bytesLt b a = false → a = b
  | [], [], _, _ => rfl
  | [], _ :: _, h, _ => by simp [bytesLt] at h
  | _ :: _, [], _, h => by simp [bytesLt] at h
  | x :: xs, y :: ys, h1, h2 => by
    unfold bytesLt at h1 h2
    by_cases hxy : x < y
    · simp [hxy] at h1
    · by_cases hyx : y < x
      · simp [hyx] at h2
      · simp only [hxy, hyx, if_false] at h1 h2
        have : x = y := by omega
        subst this
        rw [bytesLt_total h1 h2]

theorem bytesLt_ne {a b : Bytes} (h : bytesLt a b = true) : a ≠ b := by
  intro e; subst e; rw [bytesLt_irrefl] at h; cases h

section Keyed
variable {α : Type} (key : α → Bytes)

/-- Strictly ascending by `key` (the order of a KV store). -/
def KeySorted (l : List α) : Prop := l.Pairwise fun a b => bytesLt (key a) (key b) = true

/-- Keys pairwise distinct. -/
def KeysDistinct (l : List α) : Prop := l.Pairwise fun a b => key a ≠ key b

theorem KeySorted.distinct {l : List α} (h : KeySorted key l) : KeysDistinct key l :=
  List.Pairwise.imp (fun hab => bytesLt_ne hab) h

theorem eraseByKey_sublist (k : Bytes) (l : List α) : (eraseByKey key k l).Sublist l := by
  induction l with
  | nil => exact List.Sublist.refl _
  | cons y ys ih =>
    unfold eraseByKey
    split
    · exact List.sublist_cons_self y ys
    · exact ih.cons_cons y

theorem mem_of_mem_eraseByKey {k : Bytes} {l : List α} {u : α} (h : u ∈ eraseByKey key k l) : u ∈ l :=
  (eraseByKey_sublist key k l).subset h

theorem mem_eraseByKey_of_ne {k : Bytes} {l : List α} {u : α} (h : u ∈ l) (hk : key u ≠ k) :
    u ∈ eraseByKey key k l := by
  induction l with
  | nil => cases h
  | cons y ys ih =>
    unfold eraseByKey
    rcases List.mem_cons.mp h with rfl | h'
    · have : (key u == k) = false := by simpa using hk
      simp [this]
    · split
      · exact h'
      · exact List.mem_cons_of_mem _ (ih h')

theorem eraseByKey_sorted {k : Bytes} {l : List α} (h : KeySorted key l) :
    KeySorted key (eraseByKey key k l) :=
  List.Pairwise.sublist (eraseByKey_sublist key k l) h

theorem mem_insertByKey_cases {x u : α} {l : List α} (h : u ∈ insertByKey key x l) : u = x ∨ u ∈ l := by
  induction l with
  | nil => simp [insertByKey] at h; exact Or.inl h
  | cons y ys ih =>
    unfold insertByKey at h
    split at h
    · rcases List.mem_cons.mp h with rfl | h'
      · exact Or.inl rfl
      · exact Or.inr h'
    · split at h
      · rcases List.mem_cons.mp h with rfl | h'
        · exact Or.inr (List.mem_cons_self)
        · rcases ih h' with e | m
          · exact Or.inl e
          · exact Or.inr (List.mem_cons_of_mem _ m)
      · rcases List.mem_cons.mp h with rfl | h'
        · exact Or.inl rfl
        · exact Or.inr (List.mem_cons_of_mem _ h')

theorem insertByKey_sorted {x : α} {l : List α} (h : KeySorted key l) :
    KeySorted key (insertByKey key x l) := by
  induction l with
  | nil => simp [insertByKey, KeySorted]
  | cons y ys ih =>
    rw [KeySorted, List.pairwise_cons] at h
    unfold insertByKey
    split
    · rename_i h1
      rw [KeySorted, List.pairwise_cons]
      refine ⟨?_, List.pairwise_cons.mpr h⟩
      intro a ha
      rcases List.mem_cons.mp ha with rfl | ha'
      · exact h1
      · exact bytesLt_trans h1 (h.1 a ha')
    · rename_i h1
      split
      · rename_i h2
        rw [KeySorted, List.pairwise_cons]
        refine ⟨?_, ih h.2⟩
        intro a ha
        rcases mem_insertByKey_cases key ha with rfl | ha'
        · exact h2
        · exact h.1 a ha'
      · rename_i h2
        have hxy : key x = key y :=
          bytesLt_total (by simpa using h1) (by simpa using h2)
        rw [KeySorted, List.pairwise_cons]
        refine ⟨?_, h.2⟩
        intro a ha
        rw [hxy]; exact h.1 a ha

theorem mem_foldl_insertByKey {txs l : List α} {u : α}
    (h : u ∈ txs.foldl (fun p s => insertByKey key s p) l) : u ∈ txs ∨ u ∈ l := by
  induction txs generalizing l with
  | nil => exact Or.inr h
  | cons t ts ih =>
    rcases ih h with h1 | h1
    · exact Or.inl (List.mem_cons_of_mem _ h1)
    · rcases mem_insertByKey_cases key h1 with rfl | h2
      · exact Or.inl List.mem_cons_self
      · exact Or.inr h2

theorem mem_foldl_eraseByKey {sel l : List α} {u : α}
    (h : u ∈ sel.foldl (fun p s => eraseByKey key (key s) p) l) : u ∈ l := by
  induction sel generalizing l with
  | nil => exact h
  | cons t ts ih => exact mem_of_mem_eraseByKey key (ih h)

end Keyed

/-! ### Chains of a hub -/

theorem chain_setChain_ne (h : Hub) {c c2 : String} (s : ChainSt) (hne : c ≠ c2) :
    (h.setChain c s).chain c2 = h.chain c2 := by
  simp [Hub.chain, Hub.setChain, alGet_alSet_other _ _ _ _ hne]

theorem chain_of_cs {h h' : Hub} (e : h'.cs = h.cs) (c : String) : h'.chain c = h.chain c := by
  simp [Hub.chain, e]

theorem alGet_mem {κ ν : Type} [BEq κ] {l : List (κ × ν)} {k : κ} {v : ν} (h : alGet l k = some v) :
    ∃ k', (k', v) ∈ l := by
  induction l with
  | nil => simp [alGet] at h
  | cons p t ih =>
    obtain ⟨k', v'⟩ := p
    unfold alGet at h
    split at h
    · injection h with h; subst h; exact ⟨k', List.mem_cons_self⟩
    · obtain ⟨k2, hk2⟩ := ih h; exact ⟨k2, List.mem_cons_of_mem _ hk2⟩

/-- A property of every stored chain state and of the empty one holds of `h.chain c` for every `c`. -/
theorem forall_chain {h : Hub} {P : ChainSt → Prop} (h0 : P {}) (hall : ∀ p ∈ h.cs, P p.2) (c : String) :
    P (h.chain c) := by
  unfold Hub.chain
  cases hg : alGet h.cs c with
  | none => exact h0
  | some v =>
    obtain ⟨k, hk⟩ := alGet_mem hg
    exact hall (k, v) hk

/-! ### The hypotheses of the C05 theorems -/

/-- No vote record at the next nonce is already accepted (the guard of `TryEventVoteRecord`). -/
def NoStaleAccepted (h : Hub) : Prop :=
  ∀ c, ¬ ∃ r ∈ (h.chain c).records, r.nonce = (h.chain c).lastObserved + 1 ∧ r.accepted = true

/-- Accepted vote records are never ahead of the last observed nonce (C03: holds in every reachable
    state).  Implies `NoStaleAccepted` and, unlike it, is kept by the tally itself. -/
def AcceptedBehind (h : Hub) : Prop :=
  ∀ c, ∀ r ∈ (h.chain c).records, r.accepted = true → r.nonce ≤ (h.chain c).lastObserved

/-- Every transfer in a pool or in a batch has non-negative amount, fee and commission. -/
def EntriesNonneg (h : Hub) : Prop :=
  ∀ c, ∀ s ∈ (h.chain c).pool ++ ((h.chain c).batches.flatMap (·.txs)),
    0 ≤ s.amount ∧ 0 ≤ s.fee ∧ 0 ≤ s.comm

/-- The signer-set computation does not divide by zero on any chain. -/
def StakingSane (h : Hub) : Prop := ∀ c, h.currentSigners c ≠ .error (.panic "division by zero")

/-- Bonded validators have positive power (what the staking module guarantees). -/
def BondedPositive (h : Hub) : Prop := ∀ v ∈ h.staking, v.bonded = true → 0 < v.power

/-- There is no bonded validator, or the bonded validators have positive total power. -/
def OracleStakingSane (h : Hub) : Prop := h.staking.filter (·.bonded) = [] ∨ 0 < h.totalPower

/-- The batch store of every chain is strictly ascending by store key (it is a KV store). -/
def BatchKeysSorted (h : Hub) : Prop := ∀ c, KeySorted batchKey (h.chain c).batches

/-- The batches of every chain have pairwise distinct store keys. -/
def BatchKeysDistinct (h : Hub) : Prop := ∀ c, KeysDistinct batchKey (h.chain c).batches

theorem BatchKeysSorted.distinct {h : Hub} (hs : BatchKeysSorted h) : BatchKeysDistinct h :=
  fun c => (hs c).distinct

theorem AcceptedBehind.noStale {h : Hub} (ha : AcceptedBehind h) : NoStaleAccepted h := by
  rintro c ⟨r, hr, hn, hacc⟩
  have := ha c r hr hacc
  omega

/-! ### Staking -/

theorem foldl_add_nat (l : List Nat) (a : Nat) : l.foldl (· + ·) a = a + l.foldl (· + ·) 0 := by
  induction l generalizing a with
  | nil => simp
  | cons x xs ih => simp only [List.foldl_cons]; rw [ih (a + x), ih (0 + x)]; omega

theorem sumNats_cons (x : Nat) (l : List Nat) : sumNats (x :: l) = x + sumNats l := by
  unfold sumNats
  simp only [List.foldl_cons]
  rw [foldl_add_nat]; omega

theorem sumNats_pos {l : List Nat} (hne : l ≠ []) (hp : ∀ x ∈ l, 0 < x) : 0 < sumNats l := by
  cases l with
  | nil => exact absurd rfl hne
  | cons x xs =>
    rw [sumNats_cons]
    have := hp x List.mem_cons_self
    omega

theorem mem_insSorted {α : Type} (lt : α → α → Bool) {x y : α} {l : List α} :
    y ∈ insSorted lt x l ↔ y = x ∨ y ∈ l := by
  induction l with
  | nil => simp [insSorted]
  | cons z zs ih =>
    unfold insSorted
    split
    · simp
    · simp only [List.mem_cons, ih]
      constructor
      · rintro (h | h | h)
        · exact Or.inr (Or.inl h)
        · exact Or.inl h
        · exact Or.inr (Or.inr h)
      · rintro (h | h | h)
        · exact Or.inr (Or.inl h)
        · exact Or.inl h
        · exact Or.inr (Or.inr h)

theorem mem_isort {α : Type} (lt : α → α → Bool) {y : α} {l : List α} : y ∈ isort lt l ↔ y ∈ l := by
  induction l with
  | nil => simp [isort]
  | cons x xs ih =>
    show y ∈ insSorted lt x (isort lt xs) ↔ _
    rw [mem_insSorted, ih]; simp

/-- The registered bonded validators of a chain, before normalisation. -/
def rawSigners (h : Hub) (c : String) : List Signer :=
  h.bondedByPower.filterMap fun v =>
    match alGet (h.chain c).valExt v.addr with
    | none => none
    | some e => if e == zeroEth then none else some (Signer.mk v.power e)

theorem currentSigners_eq (h : Hub) (c : String) : h.currentSigners c =
    if (rawSigners h c).isEmpty then .ok []
    else if sumNats ((rawSigners h c).map (·.power)) == 0 then panicM "division by zero"
    else .ok ((rawSigners h c).map fun s =>
      { s with power := s.power * maxU32 / sumNats ((rawSigners h c).map (·.power)) }) := rfl

theorem currentSigners_panic_msg {h : Hub} {c m : String}
    (e : h.currentSigners c = .error (.panic m)) : m = "division by zero" := by
  rw [currentSigners_eq] at e
  split at e
  · cases e
  · split at e
    · simp only [panicM, Except.error.injEq, Err.panic.injEq] at e
      exact e.symm
    · cases e

theorem StakingSane.no_panic {h : Hub} (hs : StakingSane h) (c m : String) :
    h.currentSigners c ≠ .error (.panic m) := by
  intro e
  have := currentSigners_panic_msg e
  subst this
  exact hs c e

theorem rawSigners_pos {h : Hub} (hp : BondedPositive h) (c : String) :
    ∀ x ∈ (rawSigners h c).map (·.power), 0 < x := by
  intro x hx
  obtain ⟨s, hs, rfl⟩ := List.mem_map.mp hx
  unfold rawSigners at hs
  obtain ⟨v, hv, hvs⟩ := List.mem_filterMap.mp hs
  have hvm : v ∈ h.staking ∧ v.bonded = true := by
    unfold Hub.bondedByPower at hv
    rw [mem_isort] at hv
    simpa using hv
  have hvp := hp v hvm.1 hvm.2
  split at hvs
  · cases hvs
  · split at hvs
    · cases hvs
    · injection hvs with hvs; subst hvs; exact hvp

theorem BondedPositive.stakingSane {h : Hub} (hp : BondedPositive h) : StakingSane h := by
  intro c e
  rw [currentSigners_eq] at e
  split at e
  · cases e
  · rename_i hne
    split at e
    · rename_i hz
      have hz' : sumNats ((rawSigners h c).map (·.power)) = 0 := by simpa using hz
      have hpos := sumNats_pos (l := (rawSigners h c).map (·.power))
        (by
          intro hnil
          apply hne
          rw [List.map_eq_nil_iff] at hnil
          rw [hnil]; rfl)
        (rawSigners_pos hp c)
      omega
    · cases e

/-- `StakingSane` in primitive terms: on every chain the bonded validators with a registered
    non-zero key are none, or have positive total power. -/
theorem stakingSane_iff {h : Hub} :
    StakingSane h ↔ ∀ c, rawSigners h c = [] ∨ 0 < sumNats ((rawSigners h c).map (·.power)) := by
  constructor
  · intro hs c
    by_cases hnil : rawSigners h c = []
    · exact Or.inl hnil
    · refine Or.inr (Nat.pos_of_ne_zero fun hz => hs c ?_)
      rw [currentSigners_eq]
      have h1 : (rawSigners h c).isEmpty = false := by
        cases hr : rawSigners h c with
        | nil => exact absurd hr hnil
        | cons _ _ => rfl
      simp [h1, hz, panicM]
  · intro hp c e
    rw [currentSigners_eq] at e
    split at e
    · cases e
    · rename_i hne
      split at e
      · rename_i hz
        have hz' : sumNats ((rawSigners h c).map (·.power)) = 0 := by simpa using hz
        rcases hp c with hnil | hpos
        · rw [hnil] at hne; exact hne rfl
        · omega
      · cases e

theorem rawSigners_congr {h h' : Hub} {c : String} (hs : h'.staking = h.staking)
    (hv : (h'.chain c).valExt = (h.chain c).valExt) : rawSigners h' c = rawSigners h c := by
  unfold rawSigners Hub.bondedByPower
  rw [hs, hv]

theorem currentSigners_congr {h h' : Hub} {c : String} (hs : h'.staking = h.staking)
    (hv : (h'.chain c).valExt = (h.chain c).valExt) : h'.currentSigners c = h.currentSigners c := by
  rw [currentSigners_eq, currentSigners_eq, rawSigners_congr hs hv]

theorem BondedPositive.oracleSane {h : Hub} (hp : BondedPositive h) : OracleStakingSane h := by
  by_cases hne : h.staking.filter (·.bonded) = []
  · exact Or.inl hne
  · refine Or.inr ?_
    unfold Hub.totalPower
    refine sumNats_pos ?_ ?_
    · intro hnil; exact hne (List.map_eq_nil_iff.mp hnil)
    · intro x hx
      obtain ⟨v, hv, rfl⟩ := List.mem_map.mp hx
      have := List.mem_filter.mp hv
      exact hp v this.1 this.2

/-! ### Non-negativity of amounts -/

theorem pow10_nonneg (n : Nat) : 0 ≤ pow10 n := Int.le_of_lt (pow10_pos n)

theorem convertDecimals_nonneg (f t : Nat) {a : Int} (ha : 0 ≤ a) : 0 ≤ convertDecimals f t a := by
  unfold convertDecimals
  split
  · exact ha
  · exact Int.ediv_nonneg (Int.mul_nonneg ha (pow10_nonneg t)) (pow10_nonneg f)

theorem fromExternal_nonneg (h : Hub) (chain ext : String) {a : Int} (ha : 0 ≤ a) :
    0 ≤ h.fromExternal chain ext a := by
  unfold Hub.fromExternal
  split
  · exact ha
  · exact convertDecimals_nonneg _ _ ha

theorem toExternal_nonneg (h : Hub) (chain ext : String) {a : Int} (ha : 0 ≤ a) :
    0 ≤ h.toExternal chain ext a := by
  unfold Hub.toExternal
  split
  · exact ha
  · exact convertDecimals_nonneg _ _ ha

/-- Amount, fee and commission of a transfer are non-negative. -/
def SteNonneg (s : Ste) : Prop := 0 ≤ s.amount ∧ 0 ≤ s.fee ∧ 0 ≤ s.comm

/-- Every transfer of a chain (pool and batches) is non-negative. -/
def CNonneg (c : ChainSt) : Prop := ∀ s ∈ c.pool ++ c.batches.flatMap (·.txs), SteNonneg s

theorem entriesNonneg_iff {h : Hub} : EntriesNonneg h ↔ ∀ c, CNonneg (h.chain c) := Iff.rfl

theorem CNonneg_iff {c : ChainSt} :
    CNonneg c ↔ (∀ s ∈ c.pool, SteNonneg s) ∧ ∀ b ∈ c.batches, ∀ s ∈ b.txs, SteNonneg s := by
  unfold CNonneg
  constructor
  · intro h
    exact ⟨fun s hs => h s (List.mem_append_left _ hs),
      fun b hb s hs => h s (List.mem_append_right _ (List.mem_flatMap.mpr ⟨b, hb, hs⟩))⟩
  · rintro ⟨h1, h2⟩ s hs
    rcases List.mem_append.mp hs with hs | hs
    · exact h1 s hs
    · obtain ⟨b, hb, hs⟩ := List.mem_flatMap.mp hs
      exact h2 b hb s hs

theorem CNonneg.empty : CNonneg {} := by
  intro s hs; simp at hs

/-- The refund of a non-negative transfer is non-negative. -/
theorem refundValue_nonneg (h : Hub) (chain : String) {s : Ste} (hs : SteNonneg s) :
    0 ≤ h.refundValue chain s := by
  unfold Hub.refundValue
  obtain ⟨h1, h2, h3⟩ := hs
  exact fromExternal_nonneg _ _ _ (by omega)

/-- Adding a non-negative entry to the pool of a chain. -/
theorem CNonneg.addPool {c : ChainSt} {ste : Ste} {id : Nat} (hs : SteNonneg ste) (hc : CNonneg c) :
    CNonneg { c with lastSteId := id, pool := insertByKey poolKey ste c.pool } := by
  rw [CNonneg_iff] at hc ⊢
  refine ⟨fun s hs' => ?_, hc.2⟩
  rcases mem_insertByKey_cases poolKey hs' with rfl | h1
  · exact hs
  · exact hc.1 s h1

theorem findBatch_mem {h : Hub} {chain tok : String} {n : Nat} {b : Batch}
    (hf : h.findBatch chain tok n = some b) : b ∈ (h.chain chain).batches := by
  unfold Hub.findBatch at hf
  exact List.mem_of_find?_eq_some hf

/-- Moving the transfers of a stored batch back to the pool. -/
theorem CNonneg.cancelBatch {c : ChainSt} {b : Batch} (hb : b ∈ c.batches) (hc : CNonneg c) :
    CNonneg { c with pool := b.txs.foldl (fun p s => insertByKey poolKey s p) c.pool,
                     batches := eraseByKey batchKey (batchKey b) c.batches } := by
  rw [CNonneg_iff] at hc ⊢
  refine ⟨fun s hs => ?_, fun b' hb' s hs => hc.2 b' (mem_of_mem_eraseByKey batchKey hb') s hs⟩
  rcases mem_foldl_insertByKey poolKey hs with h1 | h1
  · exact hc.2 b hb s h1
  · exact hc.1 s h1

theorem CNonneg.eraseBatch {c : ChainSt} (k : Bytes) (hc : CNonneg c) :
    CNonneg { c with batches := eraseByKey batchKey k c.batches } := by
  rw [CNonneg_iff] at hc ⊢
  exact ⟨hc.1, fun b' hb' s hs => hc.2 b' (mem_of_mem_eraseByKey batchKey hb') s hs⟩

theorem CNonneg.erasePool {c : ChainSt} (k : Bytes) (hc : CNonneg c) :
    CNonneg { c with pool := eraseByKey poolKey k c.pool } := by
  rw [CNonneg_iff] at hc ⊢
  exact ⟨fun s hs => hc.1 s (mem_of_mem_eraseByKey poolKey hs), hc.2⟩

theorem mem_selectForBatch {pool : List Ste} {tok : String} {n : Nat} {s : Ste}
    (h : s ∈ selectForBatch pool tok n) : s ∈ pool := by
  unfold selectForBatch at h
  have h1 := List.mem_of_mem_take h
  have h2 := List.mem_reverse.mp h1
  exact (List.mem_filter.mp h2).1

/-- Moving pool entries into a new batch. -/
theorem CNonneg.buildBatch {c : ChainSt} {b : Batch} {pool' : List Ste} (n q : Nat)
    (hp : ∀ x ∈ pool', x ∈ c.pool) (hb : ∀ x ∈ b.txs, x ∈ c.pool) (hc : CNonneg c) :
    CNonneg { c with pool := pool', lastBatchNonce := n, outSeq := q,
                     batches := insertByKey batchKey b c.batches } := by
  rw [CNonneg_iff] at hc ⊢
  refine ⟨fun s hs => hc.1 s (hp s hs), fun b' hb' s hs => ?_⟩
  rcases mem_insertByKey_cases batchKey hb' with rfl | h1
  · exact hc.1 s (hb s hs)
  · exact hc.2 b' h1 s hs

/-! ### What block processing keeps -/

/-- The part of `Keeps` that also survives marking a vote record observed: non-negative entries stay
    non-negative, the staking view and the registered keys are untouched, sorted batch stores stay
    sorted. -/
structure LKeeps (h h' : Hub) : Prop where
  nonneg : EntriesNonneg h → EntriesNonneg h'
  staking : h'.staking = h.staking
  valExt : ∀ c, (h'.chain c).valExt = (h.chain c).valExt
  sorted : ∀ c, KeySorted batchKey (h.chain c).batches → KeySorted batchKey (h'.chain c).batches

/-- `h'` has the vote bookkeeping of `h` on every chain, and `LKeeps h h'`. -/
structure Keeps (h h' : Hub) : Prop extends LKeeps h h' where
  records : ∀ c, (h'.chain c).records = (h.chain c).records
  last : ∀ c, (h'.chain c).lastObserved = (h.chain c).lastObserved

theorem LKeeps.refl (h : Hub) : LKeeps h h := ⟨fun hn => hn, rfl, fun _ => rfl, fun _ hs => hs⟩

theorem LKeeps.trans {a b c : Hub} (h1 : LKeeps a b) (h2 : LKeeps b c) : LKeeps a c :=
  ⟨fun hn => h2.nonneg (h1.nonneg hn), h2.staking.trans h1.staking,
   fun ch => (h2.valExt ch).trans (h1.valExt ch), fun ch hs => h2.sorted ch (h1.sorted ch hs)⟩

theorem LKeeps.setChain (h : Hub) (x : String) {s : ChainSt} (hn : CNonneg (h.chain x) → CNonneg s)
    (hv : s.valExt = (h.chain x).valExt)
    (hs : KeySorted batchKey (h.chain x).batches → KeySorted batchKey s.batches) :
    LKeeps h (h.setChain x s) := by
  refine ⟨fun hh c => ?_, rfl, fun c => ?_, fun c hc => ?_⟩ <;> by_cases e : x = c
  · subst e; rw [chain_setChain]; exact hn (hh x)
  · rw [chain_setChain_ne _ _ e]; exact hh c
  · subst e; rw [chain_setChain]; exact hv
  · rw [chain_setChain_ne _ _ e]
  · subst e; rw [chain_setChain]; exact hs hc
  · rw [chain_setChain_ne _ _ e]; exact hc

theorem LKeeps.stakingSane {h h' : Hub} (hk : LKeeps h h') (hs : StakingSane h) : StakingSane h' :=
  fun c => by rw [currentSigners_congr hk.staking (hk.valExt c)]; exact hs c

theorem LKeeps.batchKeysSorted {h h' : Hub} (hk : LKeeps h h') (hs : BatchKeysSorted h) :
    BatchKeysSorted h' := fun c => hk.sorted c (hs c)

theorem Keeps.refl (h : Hub) : Keeps h h := ⟨LKeeps.refl h, fun _ => rfl, fun _ => rfl⟩

theorem Keeps.trans {a b c : Hub} (h1 : Keeps a b) (h2 : Keeps b c) : Keeps a c :=
  ⟨h1.toLKeeps.trans h2.toLKeeps, fun ch => (h2.records ch).trans (h1.records ch),
   fun ch => (h2.last ch).trans (h1.last ch)⟩

theorem Keeps.of_cs {h h' : Hub} (e : h'.cs = h.cs) (es : h'.staking = h.staking) : Keeps h h' :=
  ⟨⟨fun hn c => by rw [chain_of_cs e]; exact hn c, es, fun c => by rw [chain_of_cs e],
    fun c hs => by rw [chain_of_cs e]; exact hs⟩,
   fun c => by rw [chain_of_cs e], fun c => by rw [chain_of_cs e]⟩

theorem Keeps.setChain (h : Hub) (x : String) {s : ChainSt} (hr : s.records = (h.chain x).records)
    (hl : s.lastObserved = (h.chain x).lastObserved) (hn : CNonneg (h.chain x) → CNonneg s)
    (hv : s.valExt = (h.chain x).valExt)
    (hs : KeySorted batchKey (h.chain x).batches → KeySorted batchKey s.batches) :
    Keeps h (h.setChain x s) := by
  refine ⟨LKeeps.setChain h x hn hv hs, fun c => ?_, fun c => ?_⟩ <;> by_cases e : x = c
  · subst e; rw [chain_setChain]; exact hr
  · rw [chain_setChain_ne _ _ e]
  · subst e; rw [chain_setChain]; exact hl
  · rw [chain_setChain_ne _ _ e]

theorem Keeps.ite {h a b : Hub} {c : Prop} [Decidable c] (ha : Keeps h a) (hb : Keeps h b) :
    Keeps h (if c then a else b) := by
  split
  · exact ha
  · exact hb

theorem Keeps.acceptedBehind {h h' : Hub} (hk : Keeps h h') (ha : AcceptedBehind h) : AcceptedBehind h' := by
  intro c r hr hacc
  rw [hk.records c] at hr
  rw [hk.last c]
  exact ha c r hr hacc

/-! ### Begin block -/

/-- What one chain's begin-block step (for chain `x`) does: it keeps everything `Keeps` lists, and
    only `x`'s batch store may change. -/
structure BKeeps (x : String) (h h' : Hub) : Prop extends Keeps h h' where
  only : ∀ c, x ≠ c → (h'.chain c).batches = (h.chain c).batches

theorem BKeeps.refl (x : String) (h : Hub) : BKeeps x h h := ⟨Keeps.refl h, fun _ _ => rfl⟩

theorem BKeeps.trans {x : String} {a b c : Hub} (h1 : BKeeps x a b) (h2 : BKeeps x b c) : BKeeps x a c :=
  ⟨h1.toKeeps.trans h2.toKeeps, fun ch hne => (h2.only ch hne).trans (h1.only ch hne)⟩

theorem BKeeps.of_cs {x : String} {h h' : Hub} (e : h'.cs = h.cs) (es : h'.staking = h.staking) :
    BKeeps x h h' :=
  ⟨Keeps.of_cs e es, fun c _ => by rw [chain_of_cs e]⟩

theorem BKeeps.setChain (h : Hub) (x : String) {s : ChainSt} (hr : s.records = (h.chain x).records)
    (hl : s.lastObserved = (h.chain x).lastObserved) (hn : CNonneg (h.chain x) → CNonneg s)
    (hv : s.valExt = (h.chain x).valExt)
    (hs : KeySorted batchKey (h.chain x).batches → KeySorted batchKey s.batches) :
    BKeeps x h (h.setChain x s) :=
  ⟨Keeps.setChain h x hr hl hn hv hs, fun c hne => by rw [chain_setChain_ne _ _ hne]⟩

theorem BKeeps.stakingSane {x : String} {h h' : Hub} (hk : BKeeps x h h') (hs : StakingSane h) :
    StakingSane h' := hk.toLKeeps.stakingSane hs

theorem BKeeps.batchKeysSorted {x : String} {h h' : Hub} (hk : BKeeps x h h') (hs : BatchKeysSorted h) :
    BatchKeysSorted h' := hk.toLKeeps.batchKeysSorted hs

theorem cancelBatch_ok {h h' : Hub} {chain tok : String} {n : Nat} (hok : h.cancelBatch chain tok n = .ok h') :
    chain ≠ "minter" ∧ ∃ b, h.findBatch chain tok n = some b ∧
      h' = h.setChain chain { (h.chain chain) with
        pool := b.txs.foldl (fun p s => insertByKey poolKey s p) (h.chain chain).pool,
        batches := eraseByKey batchKey (batchKey b) (h.chain chain).batches } := by
  unfold Hub.cancelBatch at hok
  split at hok
  · simp [panicM] at hok
  · rename_i hne
    split at hok
    · simp [panicM] at hok
    · rename_i b hb
      simp only [Except.ok.injEq] at hok
      exact ⟨by simpa using hne, b, hb, hok.symm⟩

theorem cancelBatch_bkeeps {h h' : Hub} {chain tok : String} {n : Nat}
    (hok : h.cancelBatch chain tok n = .ok h') : BKeeps chain h h' := by
  obtain ⟨_, b, hb, rfl⟩ := cancelBatch_ok hok
  exact BKeeps.setChain _ _ rfl rfl (CNonneg.cancelBatch (findBatch_mem hb)) rfl
    (fun hs => eraseByKey_sorted batchKey hs)

/-- `CancelBatchTx` of a batch that is in the store, on a chain other than "minter", succeeds. -/
theorem cancelBatch_of_mem {h : Hub} {chain : String} {x : Batch} (hne : chain ≠ "minter")
    (hx : x ∈ (h.chain chain).batches) :
    ∃ b, b ∈ (h.chain chain).batches ∧ batchKey b = batchKey x ∧
      h.cancelBatch chain x.extToken x.nonce = .ok (h.setChain chain { (h.chain chain) with
        pool := b.txs.foldl (fun p s => insertByKey poolKey s p) (h.chain chain).pool,
        batches := eraseByKey batchKey (batchKey b) (h.chain chain).batches }) := by
  have hm : (chain == "minter") = false := by simpa using hne
  cases hf : h.findBatch chain x.extToken x.nonce with
  | none =>
    unfold Hub.findBatch at hf
    have := List.find?_eq_none.mp hf x hx
    simp [batchKey, batchKeyOf] at this
  | some b =>
    refine ⟨b, ?_, ?_, ?_⟩
    · unfold Hub.findBatch at hf
      exact List.mem_of_find?_eq_some hf
    · unfold Hub.findBatch at hf
      have := List.find?_some hf
      simpa [batchKey, batchKeyOf] using this
    · simp [Hub.cancelBatch, hm, hf]

/-- The time-out clean-up of a chain other than "minter" whose batches have distinct store keys
    cannot panic: every batch it cancels is still in the store. -/
theorem cleanup_spec {h : Hub} {c : String} (hne : c ≠ "minter")
    (hd : KeysDistinct batchKey (h.chain c).batches) :
    Safe (h.cleanupTimedOutBatches c) (BKeeps c h) := by
  unfold Hub.cleanupTimedOutBatches
  simp only []
  refine (Safe.foldlM
    (fun (a : Hub) (b : Batch) =>
      if b.timeout < (h.chain c).obsExtHeight then a.cancelBatch c b.extToken b.nonce else pure a)
    (fun rest cur => BKeeps c h cur ∧ KeysDistinct batchKey rest ∧ ∀ b ∈ rest, b ∈ (cur.chain c).batches)
    ?_ (h.chain c).batches.reverse h ?_).mono (fun a ha => ha.1)
  · intro x xs cur ⟨hk, hdist, hmem⟩
    rw [KeysDistinct, List.pairwise_cons] at hdist
    split
    · obtain ⟨b, hb, hbk, hcb⟩ := cancelBatch_of_mem hne (hmem x List.mem_cons_self)
      rw [hcb]
      refine Safe.ok ⟨hk.trans (BKeeps.setChain _ _ rfl rfl (CNonneg.cancelBatch hb) rfl
        (fun hs => eraseByKey_sorted batchKey hs)), hdist.2, ?_⟩
      intro y hy
      rw [chain_setChain]
      show y ∈ eraseByKey batchKey (batchKey b) (cur.chain c).batches
      refine mem_eraseByKey_of_ne batchKey (hmem y (List.mem_cons_of_mem _ hy)) ?_
      rw [hbk]
      exact fun e => hdist.1 y hy e.symm
    · exact Safe.pure ⟨hk, hdist.2, fun y hy => hmem y (List.mem_cons_of_mem _ hy)⟩
  · refine ⟨BKeeps.refl _ _, ?_, fun b hb => List.mem_reverse.mp hb⟩
    rw [KeysDistinct, List.pairwise_reverse]
    exact List.Pairwise.imp (fun hab => fun e => hab e.symm) hd

theorem currentSigners_safe {h : Hub} (hs : StakingSane h) (c : String) :
    Safe (h.currentSigners c) (fun _ => True) :=
  ⟨fun m => hs.no_panic c m, fun _ _ => trivial⟩

theorem createSignerSet_spec {h : Hub} (chain : String) (hs : StakingSane h) :
    Safe (h.createSignerSet chain) (BKeeps chain h) := by
  unfold Hub.createSignerSet
  refine Safe.bind (currentSigners_safe hs chain) fun cur _ => ?_
  exact Safe.pure (BKeeps.setChain _ _ rfl rfl (fun hc => hc) rfl (fun hs => hs))

theorem createSignerSetTxs_spec {h : Hub} (chain : String) (hs : StakingSane h) :
    Safe (h.createSignerSetTxs chain) (BKeeps chain h) := by
  unfold Hub.createSignerSetTxs
  split
  · exact createSignerSet_spec chain hs
  · refine Safe.bind (currentSigners_safe hs chain) fun cur _ => ?_
    exact Safe.ite (fun _ => createSignerSet_spec chain hs) (fun _ => Safe.pure (BKeeps.refl _ _))

theorem foldl_setStatus_cs {α : Type} (l : List α) (f : α → String) (st : Nat) (o : String) (h : Hub) :
    (l.foldl (fun h s => h.setStatus (f s) st o) h).cs = h.cs ∧
    (l.foldl (fun h s => h.setStatus (f s) st o) h).staking = h.staking := by
  induction l generalizing h with
  | nil => exact ⟨rfl, rfl⟩
  | cons x xs ih => exact ih _

theorem buildBatch_bkeeps (h : Hub) (chain tok : String) (n : Nat) :
    BKeeps chain h (h.buildBatch chain tok n).1 := by
  unfold Hub.buildBatch
  simp only []
  split
  · exact BKeeps.refl _ _
  · obtain ⟨hcs, hst⟩ := foldl_setStatus_cs (selectForBatch (h.chain chain).pool tok n) (·.txHash)
      stBatchCreated "" h
    refine (BKeeps.of_cs hcs hst).trans (BKeeps.setChain _ _ ?_ ?_ ?_ ?_ ?_)
    · rw [chain_of_cs hcs]
    · rw [chain_of_cs hcs]
    · rw [chain_of_cs hcs]
      exact CNonneg.buildBatch _ _ (fun x hx => mem_foldl_eraseByKey poolKey hx)
        (fun x hx => mem_selectForBatch hx)
    · rw [chain_of_cs hcs]
    · rw [chain_of_cs hcs]
      exact fun hs => insertByKey_sorted batchKey hs

theorem createBatches_bkeeps (h : Hub) (chain : String) : BKeeps chain h (h.createBatches chain) := by
  unfold Hub.createBatches
  split
  · simp only []
    exact foldl_inv _ (fun a => BKeeps chain h a)
      (fun tok a ha => ha.trans (buildBatch_bkeeps a chain tok 100)) _ h (BKeeps.refl _ _)
  · exact BKeeps.refl _ _

theorem pruneSignerSets_bkeeps (h : Hub) (chain : String) : BKeeps chain h (h.pruneSignerSets chain) := by
  unfold Hub.pruneSignerSets
  simp only []
  split
  · exact BKeeps.refl _ _
  · split
    · exact BKeeps.refl _ _
    · exact BKeeps.setChain _ _ rfl rfl (fun hc => hc) rfl (fun hs => hs)

/-- One chain's share of `BeginBlocker`. -/
def beginStep (h : Hub) (chain : String) : M Hub := do
  if chain == "hub" then return h
  let h ← (if chain != "minter" then h.cleanupTimedOutBatches chain else pure h)
  let h ← h.createSignerSetTxs chain
  let h := h.createBatches chain
  return h.pruneSignerSets chain

theorem beginBlock_eq (h : Hub) : h.beginBlock = h.chains.foldlM beginStep h := rfl

theorem beginStep_spec (h : Hub) (chain : String) (hs : StakingSane h)
    (hd : KeysDistinct batchKey (h.chain chain).batches) :
    Safe (beginStep h chain) (BKeeps chain h) := by
  unfold beginStep
  refine Safe.ite (fun _ => Safe.pure (BKeeps.refl _ _)) (fun _ => ?_)
  refine Safe.bind (P := BKeeps chain h) ?_ fun a1 k1 => ?_
  · exact Safe.ite (fun hm => cleanup_spec (by simpa using hm) hd) (fun _ => Safe.pure (BKeeps.refl _ _))
  · refine Safe.bind (createSignerSetTxs_spec chain (k1.stakingSane hs)) fun a2 k2 => ?_
    exact Safe.pure (((k1.trans k2).trans (createBatches_bkeeps a2 chain)).trans
      (pruneSignerSets_bkeeps _ chain))

/-- Begin block does not panic when every batch store is sorted by key and the signer-set
    computation is sane; the state it returns keeps everything `Keeps` lists. -/
theorem beginBlock_spec (h : Hub) (hb : BatchKeysSorted h) (hs : StakingSane h) :
    Safe h.beginBlock (Keeps h) := by
  rw [beginBlock_eq]
  refine Safe.foldlM' beginStep (Keeps h) ?_ h.chains h (Keeps.refl h)
  intro chain a hk
  have hba := hk.toLKeeps.batchKeysSorted hb
  have hsa := hk.toLKeeps.stakingSane hs
  exact (beginStep_spec a chain hsa (hba chain).distinct).mono fun a' k => hk.trans k.toKeeps

/-- The same from distinct (not necessarily sorted) batch keys, when no chain is listed twice: each
    chain's clean-up then sees the batch store the block started with. -/
theorem beginBlock_spec_nodup (h : Hub) (hn : h.chains.Nodup) (hb : BatchKeysDistinct h) (hs : StakingSane h) :
    ∀ m, h.beginBlock ≠ .error (.panic m) := by
  rw [beginBlock_eq]
  refine (Safe.foldlM beginStep
    (fun rest a => rest.Nodup ∧ StakingSane a ∧ ∀ c ∈ rest, KeysDistinct batchKey (a.chain c).batches)
    ?_ h.chains h ⟨hn, hs, fun c _ => hb c⟩).1
  intro chain rest a ⟨hnd, hsa, hda⟩
  rw [List.nodup_cons] at hnd
  refine (beginStep_spec a chain hsa (hda chain List.mem_cons_self)).mono fun a' k => ?_
  refine ⟨hnd.2, k.stakingSane hsa, fun c hc => ?_⟩
  have hne : chain ≠ c := fun e => hnd.1 (e ▸ hc)
  rw [k.only c hne]
  exact hda c (List.mem_cons_of_mem _ hc)

/-- `Pres h0 m`: if `m` succeeds its result keeps what `h0` has. -/
def Pres (h0 : Hub) (m : M Hub) : Prop := ∀ h', m = .ok h' → Keeps h0 h'

theorem Pres_ok {h0 h : Hub} (hf : Keeps h0 h) : Pres h0 (.ok h) := by
  intro h' e; injection e with e; subst e; exact hf
theorem Pres_pure {h0 h : Hub} (hf : Keeps h0 h) : Pres h0 (pure h) := Pres_ok hf
theorem Pres_error {h0 : Hub} (e : Err) : Pres h0 (.error e) := by intro h' e; cases e
theorem Pres_failM {h0 : Hub} (m : String) : Pres h0 (failM m) := Pres_error _
theorem Pres_panicM {h0 : Hub} (m : String) : Pres h0 (panicM m) := Pres_error _

theorem Pres_trans {h0 h1 : Hub} {m : M Hub} (hf : Keeps h0 h1) (hm : Pres h1 m) : Pres h0 m :=
  fun h' e => hf.trans (hm h' e)

theorem Pres_bind {α : Type} {h0 : Hub} {m : M α} {f : α → M Hub}
    (hf : ∀ a, m = .ok a → Pres h0 (f a)) : Pres h0 (m >>= f) := by
  intro h' e
  cases hm : m with
  | error x => rw [hm] at e; cases e
  | ok a => rw [hm] at e; exact hf a hm h' e

theorem Pres_bindH {h0 : Hub} {m : M Hub} {f : Hub → M Hub}
    (hm : Pres h0 m) (hf : ∀ h1, Keeps h0 h1 → Pres h0 (f h1)) : Pres h0 (m >>= f) :=
  Pres_bind fun a ha => hf a (hm a ha)

theorem Pres_ite {h0 : Hub} {c : Prop} [Decidable c] {a b : M Hub} (ha : c → Pres h0 a)
    (hb : ¬ c → Pres h0 b) : Pres h0 (if c then a else b) := by
  split
  · exact ha ‹_›
  · exact hb ‹_›

theorem Pres_foldlM {α : Type} {h0 : Hub} {f : Hub → α → M Hub}
    (hf : ∀ h1 x, Keeps h0 h1 → Pres h0 (f h1 x)) (l : List α) {h : Hub} (hh : Keeps h0 h) :
    Pres h0 (l.foldlM f h) := by
  induction l generalizing h with
  | nil => exact Pres_pure hh
  | cons x xs ih =>
    rw [List.foldlM_cons]
    exact Pres_bindH (hf h x hh) fun h1 h1f => ih h1f

theorem Keeps.foldl {α : Type} {h0 : Hub} {f : Hub → α → Hub}
    (hf : ∀ h1 x, Keeps h1 (f h1 x)) (l : List α) {h : Hub} (hh : Keeps h0 h) :
    Keeps h0 (l.foldl f h) := by
  induction l generalizing h with
  | nil => exact hh
  | cons x xs ih => exact ih (hh.trans (hf h x))

/-- The do-notation join point for `if c then panicM msg` followed by the rest of the block. -/
theorem Pres_jp {h0 : Hub} {c : Prop} [Decidable c] {e : Err} (J : Unit → M Hub)
    (hJ : ¬ c → Pres h0 (J ())) : Pres h0 (if c then (Except.error e : M Unit) >>= J else J ()) :=
  Pres_ite (fun _ _ e => by cases e) hJ

theorem mintTo_Pres (h : Hub) (acc d : String) (amt : Int) : Pres h (h.mintTo acc d amt) := by
  unfold Hub.mintTo
  split
  · exact Pres_failM _
  · exact Pres_ok (Keeps.of_cs rfl rfl)

theorem burnFrom_Pres (h : Hub) (acc d : String) (amt : Int) : Pres h (h.burnFrom acc d amt) := by
  unfold Hub.burnFrom
  split
  · exact Pres_failM _
  · split
    · exact Pres_failM _
    · exact Pres_ok (Keeps.of_cs rfl rfl)

theorem setStatus_keeps (h : Hub) (tx : String) (st : Nat) (o : String) : Keeps h (h.setStatus tx st o) :=
  Keeps.of_cs rfl rfl

theorem createSte_keeps {h h' : Hub} {chain sender rcp denom tx rc ra : String} {amount fee comm : Int}
    {id : Nat} (ha : 0 ≤ amount) (hf : 0 ≤ fee) (hc : 0 ≤ comm)
    (hok : h.createSte chain sender rcp denom amount fee comm tx rc ra = .ok (h', id)) :
    Keeps h h' := by
  unfold Hub.createSte at hok
  simp only [bind, Except.bind] at hok
  split at hok
  · split at hok
    · simp at hok
    · rename_i v hv
      simp [pure, Except.pure] at hok
      rw [← hok.1]
      refine (burnFrom_Pres _ _ _ _ v hv).trans (Keeps.setChain _ _ rfl rfl ?_ rfl (fun hs => hs))
      exact CNonneg.addPool ⟨toExternal_nonneg _ _ _ ha, toExternal_nonneg _ _ _ hf,
        toExternal_nonneg _ _ _ hc⟩
  · simp [failM] at hok

theorem burnFrom_no_panic (h : Hub) (acc d : String) (amt : Int) (m : String) :
    h.burnFrom acc d amt ≠ .error (.panic m) := by
  unfold Hub.burnFrom
  split
  · exact fun e => by cases e
  · split <;> exact fun e => by cases e

/-- `createSendToExternal` can fail but never panics. -/
theorem createSte_no_panic (h : Hub) (chain sender rcp denom tx rc ra : String) (amount fee comm : Int)
    (m : String) : h.createSte chain sender rcp denom amount fee comm tx rc ra ≠ .error (.panic m) := by
  unfold Hub.createSte
  simp only [bind, Except.bind]
  split
  · split
    · rename_i e he
      intro hh
      simp only [Except.error.injEq] at hh
      subst hh
      exact burnFrom_no_panic _ _ _ _ _ he
    · exact fun e => by cases e
  · exact fun e => by cases e

/-- The recurring `match createSte … with | .ok (h, _) => pure h | .error (.fail m) => panicM m | …`. -/
theorem createSte_match_Pres {h0 h : Hub} (hf : Keeps h0 h)
    (chain sender rcp denom tx rc ra : String) (amount fee comm : Int)
    (ha : 0 ≤ amount) (hfe : 0 ≤ fee) (hc : 0 ≤ comm) :
    Pres h0 (match h.createSte chain sender rcp denom amount fee comm tx rc ra with
      | .ok (h, _) => pure h
      | .error (.fail m) => panicM m
      | .error e => .error e : M Hub) := by
  split
  · rename_i h2 _ heq
    exact Pres_pure (hf.trans (createSte_keeps ha hfe hc heq))
  · exact Pres_panicM _
  · exact Pres_error _

theorem handleSendToHub_Pres (h : Hub) (chain coin : String) (amount : Int) (receiver tx : String) :
    Pres h (h.handleSendToHub chain coin amount receiver tx) := by
  unfold Hub.handleSendToHub
  split
  · simp only [bind, Except.bind]
    split
    · exact Pres_panicM _
    · split
      · exact Pres_failM _
      · split
        · exact Pres_error _
        · rename_i v hv
          exact Pres_pure ((mintTo_Pres _ _ _ _ v hv).trans (setStatus_keeps _ _ _ _))
  · exact Pres_failM _

theorem cancelBatch_Pres (h : Hub) (chain extToken : String) (nonce : Nat) :
    Pres h (h.cancelBatch chain extToken nonce) := by
  unfold Hub.cancelBatch
  split
  · exact Pres_panicM _
  · split
    · exact Pres_panicM _
    · rename_i b hb
      exact Pres_ok (Keeps.setChain _ _ rfl rfl (CNonneg.cancelBatch (findBatch_mem hb)) rfl
        (fun hs => eraseByKey_sorted batchKey hs))

theorem batchExecuted_Pres (h : Hub) (chain extToken : String) (nonce : Nat) (txHash : String)
    (feePaid : Int) (feePayer : String) :
    Pres h (h.batchExecuted chain extToken nonce txHash feePaid feePayer) := by
  unfold Hub.batchExecuted
  split
  · rename_i b _
    refine Pres_bindH ?_ ?_
    · refine Pres_ite (fun _ => ?_) (fun _ => Pres_pure (Keeps.refl _))
      exact Pres_foldlM (fun h1 x hf => Pres_trans hf (cancelBatch_Pres _ _ _ _)) _ (Keeps.refl _)
    · intro h1 f1
      extract_lets +onlyGivenNames c h2
      have f2 : Keeps h h2 := f1.trans (Keeps.setChain _ _ rfl rfl (CNonneg.eraseBatch _) rfl
        (fun hs => eraseByKey_sorted batchKey hs))
      split
      · rename_i tok _
        extract_lets +onlyGivenNames h3 totalComm totalFee
        have f3 : Keeps h h3 := by
          show Keeps h (List.foldl _ _ _)
          refine Keeps.foldl ?_ _ f2
          intro hx t
          exact Keeps.of_cs rfl rfl
        refine Pres_bindH ?_ ?_
        · refine Pres_ite (fun _ => ?_) (fun _ => Pres_pure f3)
          refine Pres_bind ?_
          intro valset _
          extract_lets +onlyGivenNames totalPower
          refine Pres_bindH (Pres_trans f3 (mintTo_Pres _ _ _ _)) ?_
          intro h4 f4
          refine Pres_foldlM ?_ _ f4
          intro h5 v f5
          refine Pres_jp _ ?_
          intro _
          extract_lets +onlyGivenNames amount
          refine Pres_ite (fun _ => Pres_pure f5) (fun hpos => ?_)
          exact createSte_match_Pres f5 _ _ _ _ _ _ _ _ _ _ (by omega) (by omega) (by omega)
        · intro h4 f4
          refine Pres_ite (fun _ => Pres_pure f4) (fun _ => ?_)
          refine Pres_bind ?_
          intro base _
          split
          · split
            · split
              · rename_i pTok _
                refine Pres_jp _ ?_
                intro _
                extract_lets +onlyGivenNames amount
                refine Pres_jp _ ?_
                intro _
                extract_lets +onlyGivenNames fee
                refine Pres_ite (fun _ => Pres_pure f4) (fun hfee => ?_)
                refine Pres_bindH (Pres_trans f4 (mintTo_Pres _ _ _ _)) ?_
                intro h5 f5
                refine Pres_bindH
                  (createSte_match_Pres f5 _ _ _ _ _ _ _ _ _ _ (by omega) (by omega) (by omega)) ?_
                intro h6 f6
                extract_lets +onlyGivenNames feeLeft
                refine Pres_ite (fun _ => Pres_pure f6) (fun _ => ?_)
                refine Pres_bindH (Pres_trans f6 (mintTo_Pres _ _ _ _)) ?_
                intro h7 f7
                extract_lets +onlyGivenNames n
                refine Pres_jp _ ?_
                intro _
                extract_lets +onlyGivenNames avg conv good
                refine Pres_foldlM ?_ _ f7
                intro h8 t f8
                extract_lets +onlyGivenNames cf
                refine Pres_ite (fun _ => Pres_pure f8) (fun _ => ?_)
                refine Pres_jp _ ?_
                intro _
                extract_lets +onlyGivenNames toRefund
                refine Pres_ite (fun _ => Pres_pure f8) (fun _ => ?_)
                refine Pres_ite (fun _ => Pres_pure f8) (fun href => ?_)
                refine Pres_bindH
                  (createSte_match_Pres f8 _ _ _ _ _ _ _ _ _ _ (by omega) (by omega) (by omega)) ?_
                intro h9 f9
                split
                · exact Pres_panicM _
                · exact Pres_pure (f9.trans (Keeps.of_cs rfl rfl))
              · exact Pres_panicM _
            · exact Pres_panicM _
          · exact Pres_pure f4
      · exact Pres_panicM _
  · exact Pres_pure (Keeps.refl _)

/-- The event handler keeps the vote bookkeeping of every chain and the non-negativity of pool and
    batch entries (its own guards reject the negative cases). -/
theorem handle_Pres (h : Hub) (mf : Bool) (chain : String) (ev : Event) : Pres h (h.handle mf chain ev) := by
  cases ev with
  | sendToHub n coin amount sender receiver height txHash =>
    exact handleSendToHub_Pres _ _ _ _ _ _
  | transfer n coin amount fee sender rchain receiver height txHash =>
    rw [Hub.handle.eq_2]
    refine Pres_jp _ ?_
    intro _
    refine Pres_ite (fun _ => ?_) (fun _ => ?_)
    · extract_lets +onlyGivenNames acc
      refine Pres_jp _ ?_
      intro _
      exact handleSendToHub_Pres _ _ _ _ _ _
    · refine Pres_bindH (handleSendToHub_Pres _ _ _ _ _ _) ?_
      intro h1 f1
      split
      · split
        · extract_lets +onlyGivenNames cAmount cFee rate comm
          refine Pres_jp _ ?_
          intro g1
          refine Pres_jp _ ?_
          intro g2
          refine Pres_jp _ ?_
          intro g3
          refine Pres_jp _ ?_
          intro g4
          extract_lets +onlyGivenNames a1
          refine Pres_jp _ ?_
          intro g5
          extract_lets +onlyGivenNames a2
          refine Pres_bind ?_
          intro x hx
          obtain ⟨h2, id⟩ := x
          exact Pres_pure (f1.trans (createSte_keeps (by omega) (by omega) (by omega) hx))
        · exact Pres_failM _
      · exact Pres_failM _
  | batchExecuted coin n bn height txHash feePaid feePayer =>
    exact batchExecuted_Pres _ _ _ _ _ _ _
  | contractCall n scope inv height => exact Pres_ok (Keeps.refl _)
  | signerSet n sn height members txHash =>
    exact Pres_ok (Keeps.setChain _ _ rfl rfl (fun hc => hc) rfl (fun hs => hs))

/-! ### Tally -/

theorem accepts_nonce {c : ChainSt} {p : String → Nat} {req : Int} {r : VoteRec}
    (h : c.accepts p req r = true) : r.nonce = c.lastObserved + 1 := by
  unfold ChainSt.accepts at h
  simp only [Bool.and_eq_true, beq_iff_eq] at h
  exact h.1.1

/-- `TryEventVoteRecord` on a record that is not "already accepted at the next nonce" succeeds; it
    either changes nothing or marks the record observed and then keeps everything the handler
    keeps (whether the handler's writes are committed or rolled back). -/
theorem tryRecord_cases (h : Hub) (mf : Bool) (chain : String) {r : VoteRec}
    (hnp : ¬ (r.nonce = (h.chain chain).lastObserved + 1 ∧ r.accepted = true)) :
    ∃ h', h.tryRecord mf chain r = .ok h' ∧
      (h' = h ∨ ((h.chain chain).accepts h.lastPower h.requiredPower r = true ∧
        Keeps (h.setChain chain ((h.chain chain).markObserved r h.height)) h')) := by
  unfold Hub.tryRecord
  simp only [bind, Except.bind, pure, Except.pure]
  have hc : ¬ ((r.nonce == (h.chain chain).lastObserved + 1 && r.accepted) = true) := by
    simpa using hnp
  rw [if_neg hc]
  split
  · exact ⟨_, rfl, Or.inl rfl⟩
  · rename_i ha
    have ha' : (h.chain chain).accepts h.lastPower h.requiredPower r = true := by simpa using ha
    split
    · rename_i h'' heq
      exact ⟨_, rfl, Or.inr ⟨ha', handle_Pres _ _ _ _ _ heq⟩⟩
    · exact ⟨_, rfl, Or.inr ⟨ha', Keeps.refl _⟩⟩

/-- Marking an accepted record observed keeps "accepted records are behind the counter". -/
theorem markObserved_acceptedBehind {h : Hub} {chain : String} {r : VoteRec} (ht : Nat)
    (hn : r.nonce = (h.chain chain).lastObserved + 1) (ha : AcceptedBehind h) :
    AcceptedBehind (h.setChain chain ((h.chain chain).markObserved r ht)) := by
  intro c y hy hacc
  by_cases e : chain = c
  · subst e
    rw [chain_setChain] at hy ⊢
    show y.nonce ≤ r.nonce
    have hy' : y ∈ insertByKey recKey { r with accepted := true } (h.chain chain).records := hy
    rcases mem_insertByKey_cases recKey hy' with rfl | hold
    · exact Nat.le_refl _
    · have := ha chain y hold hacc
      omega
  · rw [chain_setChain_ne _ _ e] at hy ⊢
    exact ha c y hy hacc

theorem markObserved_lkeeps (h : Hub) (chain : String) (r : VoteRec) (ht : Nat) :
    LKeeps h (h.setChain chain ((h.chain chain).markObserved r ht)) :=
  LKeeps.setChain h chain (fun hc => hc) rfl (fun hs => hs)

/-- The end-block invariant: accepted records are behind the counter and entries are non-negative. -/
def EInv (h : Hub) : Prop := AcceptedBehind h ∧ EntriesNonneg h

theorem Keeps.einv {h h' : Hub} (hk : Keeps h h') (hi : EInv h) : EInv h' :=
  ⟨hk.acceptedBehind hi.1, hk.nonneg hi.2⟩

theorem tryRecord_einv {h h' : Hub} {mf : Bool} {chain : String} {r : VoteRec}
    (hnp : ¬ (r.nonce = (h.chain chain).lastObserved + 1 ∧ r.accepted = true))
    (hok : h.tryRecord mf chain r = .ok h') (hi : EInv h) :
    EInv h' ∧ (h.chain chain).lastObserved ≤ (h'.chain chain).lastObserved ∧ LKeeps h h' := by
  obtain ⟨h2, e2, hcase⟩ := tryRecord_cases h mf chain hnp
  rw [e2] at hok
  injection hok with hok
  subst hok
  rcases hcase with rfl | ⟨hacc, hk⟩
  · exact ⟨hi, Nat.le_refl _, LKeeps.refl _⟩
  · have hn := accepts_nonce hacc
    have hl := markObserved_lkeeps h chain r h.height
    refine ⟨hk.einv ⟨markObserved_acceptedBehind _ hn hi.1, hl.nonneg hi.2⟩, ?_, hl.trans hk.toLKeeps⟩
    rw [hk.last chain, chain_setChain]
    show _ ≤ r.nonce
    omega

/-- The tally of one chain cannot panic from a state where accepted records are behind the counter,
    and it re-establishes the end-block invariant. -/
theorem tally_spec (h : Hub) (mf : Bool) (chain : String) (hi : EInv h) :
    Safe (h.tally mf chain) (fun h' => EInv h' ∧ LKeeps h h') := by
  unfold Hub.tally
  refine (Safe.foldlM (fun (a : Hub) r => a.tryRecord mf chain r)
    (fun rest a => (EInv a ∧ LKeeps h a) ∧
      ∀ r ∈ rest, r.accepted = true → r.nonce ≤ (a.chain chain).lastObserved)
    ?_ (h.chain chain).records h ⟨⟨hi, LKeeps.refl h⟩, hi.1 chain⟩).mono (fun a ha => ha.1)
  intro r rest a ⟨⟨hia, hla⟩, hacc⟩
  have hnp : ¬ (r.nonce = (a.chain chain).lastObserved + 1 ∧ r.accepted = true) := by
    rintro ⟨hn, hra⟩
    have := hacc r List.mem_cons_self hra
    omega
  obtain ⟨a', e', _⟩ := tryRecord_cases a mf chain hnp
  rw [e']
  obtain ⟨hia', hmono, hl'⟩ := tryRecord_einv hnp e' hia
  exact Safe.ok ⟨⟨hia', hla.trans hl'⟩,
    fun x hx hxa => Nat.le_trans (hacc x (List.mem_cons_of_mem _ hx) hxa) hmono⟩

/-! ### Expiry refunds -/

theorem keeps_mint (h : Hub) {c : Prop} [Decidable c] (sup : List (String × Int)) :
    Keeps h (if c then h else { h with supply := sup }) :=
  Keeps.ite (Keeps.refl _) (Keeps.of_cs rfl rfl)

theorem keeps_credit_ite {h a : Hub} (hk : Keeps h a) {c : Prop} [Decidable c] (acc d : String) (t : Int) :
    Keeps h (if c then a else a.credit acc d t) :=
  Keeps.ite hk (hk.trans (Keeps.of_cs rfl rfl))

/-- `cancelSendToExternal`: whatever it returns, the state it leaves keeps the vote bookkeeping and
    non-negative entries; and it panics only on a negative refund value, which a non-negative pool
    excludes. -/
theorem cancelSte_spec (h : Hub) (chain : String) (id : Nat) (sender : String) :
    Keeps h (h.cancelSte chain id sender).1 ∧
    (CNonneg (h.chain chain) → ∀ m, (h.cancelSte chain id sender).2 ≠ some (.panic m)) := by
  unfold Hub.cancelSte
  simp only []
  split
  · exact ⟨Keeps.refl _, fun _ m e => by cases e⟩
  · rename_i s hs
    have hsm : s ∈ (h.chain chain).pool := by
      have h1 := List.mem_of_getLast? hs
      have h2 := (List.mem_filter.mp h1).1
      exact List.mem_reverse.mp h2
    split
    · exact ⟨Keeps.refl _, fun _ m e => by cases e⟩
    · split
      · rename_i hneg
        refine ⟨Keeps.refl _, fun hn m _ => ?_⟩
        have := refundValue_nonneg h chain ((CNonneg_iff.mp hn).1 s hsm)
        omega
      · rename_i hnneg
        have hfin : ∀ (a : Hub), Keeps h a → Keeps h
            ((a.setStatus s.txHash stRefunded "").setChain chain
              { (a.setStatus s.txHash stRefunded "").chain chain with
                pool := eraseByKey poolKey (poolKey s) ((a.setStatus s.txHash stRefunded "").chain chain).pool }) :=
          fun a ha => (ha.trans (setStatus_keeps _ _ _ _)).trans
            (Keeps.setChain _ _ rfl rfl (CNonneg.erasePool _) rfl (fun hs => hs))
        split
        · exact ⟨hfin _ (keeps_credit_ite (keeps_mint _ _) _ _ _), fun _ m e => by cases e⟩
        · split
          · exact ⟨hfin _ (keeps_credit_ite (keeps_mint _ _) _ _ _), fun _ m e => by cases e⟩
          · split
            · rename_i e he
              refine ⟨keeps_credit_ite (keeps_mint _ _) _ _ _, fun _ m hm => ?_⟩
              simp only [Option.some.injEq] at hm
              subst hm
              exact createSte_no_panic _ _ _ _ _ _ _ _ _ _ _ _ he
            · rename_i h2 _ he
              refine ⟨hfin _ ((keeps_credit_ite (keeps_mint _ _) _ _ _).trans
                (createSte_keeps (by omega) (by omega) (by omega) he)), fun _ m e => by cases e⟩

/-- The expiry refunds of one chain cannot panic when pool entries are non-negative. -/
theorem refundExpired_spec (h : Hub) (chain : String) (hn : EntriesNonneg h) :
    Safe (h.refundExpired chain) (Keeps h) := by
  unfold Hub.refundExpired
  refine Safe.foldlM' _ (Keeps h) ?_ _ h (Keeps.refl _)
  intro s a hk
  have hna := hk.nonneg hn
  split
  · obtain ⟨k1, k2⟩ := cancelSte_spec a chain s.id s.sender
    generalize a.cancelSte chain s.id s.sender = res at k1 k2
    obtain ⟨h', oe⟩ := res
    cases oe with
    | none => exact Safe.pure (hk.trans k1)
    | some e =>
      cases e with
      | fail m => exact Safe.pure (hk.trans k1)
      | panic m => exact absurd rfl (k2 (hna chain) m)
  · exact Safe.pure hk

/-! ### End block -/

/-- One chain's share of `EndBlocker`. -/
def endStep (mf : Bool) (h : Hub) (chain : String) : M Hub := do
  let h ← h.tally mf chain
  h.refundExpired chain

theorem endBlock_eq (h : Hub) (mf : Bool) : h.endBlock mf = h.chains.foldlM (endStep mf) h := rfl

theorem endStep_spec (mf : Bool) (h : Hub) (chain : String) (hi : EInv h) :
    Safe (endStep mf h chain) (fun h' => EInv h' ∧ LKeeps h h') := by
  unfold endStep
  refine Safe.bind (tally_spec h mf chain hi) fun h1 hi1 => ?_
  exact (refundExpired_spec h1 chain hi1.1.2).mono fun h2 hk =>
    ⟨hk.einv hi1.1, hi1.2.trans hk.toLKeeps⟩

/-- End block cannot panic from a state where accepted vote records are behind the counters and pool
    and batch entries are non-negative; both hold again afterwards, the staking view and registered
    keys are untouched and sorted batch stores are still sorted. -/
theorem endBlock_spec (h : Hub) (mf : Bool) (hi : EInv h) :
    Safe (h.endBlock mf) (fun h' => EInv h' ∧ LKeeps h h') := by
  rw [endBlock_eq]
  exact Safe.foldlM' (endStep mf) (fun a => EInv a ∧ LKeeps h a)
    (fun chain a ha => (endStep_spec mf a chain ha.1).mono fun a' ha' => ⟨ha'.1, ha.2.trans ha'.2⟩)
    _ h ⟨hi, LKeeps.refl h⟩

/-! ### Handler panics are confined -/

/-- The only panic `TryEventVoteRecord` lets through is its own "already observed" check; every
    error or panic of the event handler is swallowed (the record stays marked observed). -/
theorem tryRecord_panic_msg {h : Hub} {mf : Bool} {chain : String} {r : VoteRec} {m : String}
    (e : h.tryRecord mf chain r = .error (.panic m)) :
    m = "attempting to process observed external event" := by
  unfold Hub.tryRecord at e
  simp only [bind, Except.bind, pure, Except.pure] at e
  split at e
  · simp only [panicM, Except.error.injEq, Err.panic.injEq] at e
    exact e.symm
  · split at e
    · cases e
    · split at e <;> cases e

/-! ### Oracle end block -/

theorem normalizedPowers_safe {h : Hub} (hs : OracleStakingSane h) :
    Safe h.normalizedPowers (fun _ => True) := by
  unfold Hub.normalizedPowers
  simp only []
  split
  · exact Safe.ok trivial
  · rename_i hne
    split
    · rename_i hz
      exfalso
      rcases hs with hnil | hpos
      · rw [hnil] at hne; exact hne rfl
      · unfold Hub.totalPower at hpos
        have : sumNats (List.map (·.power) (List.filter (·.bonded) h.staking)) = 0 := by simpa using hz
        omega
    · exact Safe.ok trivial

theorem oracleProcessEpoch_safe {h : Hub} (hs : OracleStakingSane h) (o : OracleSt) (num add den : Int) :
    Safe (oracleProcessEpoch h o num add den) (fun _ => True) := by
  unfold oracleProcessEpoch
  extract_lets o1
  refine Safe.bind (P := fun _ => True) ?_ fun o2 _ => ?_
  · refine Safe.ite (fun _ => Safe.pure trivial) (fun _ => ?_)
    refine Safe.bind (P := fun _ => True) ?_ fun _ _ => Safe.pure trivial
    refine Safe.ite (fun _ => ?_) (fun _ => Safe.pure trivial)
    exact Safe.bind (normalizedPowers_safe hs) fun _ _ => Safe.pure trivial
  · refine Safe.ite (fun _ => Safe.pure trivial) (fun _ => ?_)
    refine Safe.bind (P := fun _ => True) ?_ fun _ _ => Safe.pure trivial
    refine Safe.ite (fun _ => ?_) (fun _ => Safe.pure trivial)
    refine Safe.bind (normalizedPowers_safe hs) fun _ _ => ?_
    split <;> exact Safe.pure trivial

theorem oracleEndBlock_safe {h : Hub} (hs : OracleStakingSane h) (o : OracleSt) (num add den : Int) :
    Safe (oracleEndBlock h o num add den) (fun _ => True) := by
  unfold oracleEndBlock
  exact Safe.ite (fun _ => oracleProcessEpoch_safe hs o num add den) (fun _ => Safe.ok trivial)

/-! ### Every operation of the model keeps the block invariant -/

/-- The block invariant in its primitive form: batch stores sorted by key, bonded validators of
    positive power, accepted vote records behind the counters, non-negative pool and batch entries. -/
def RInv (h : Hub) : Prop :=
  BatchKeysSorted h ∧ BondedPositive h ∧ AcceptedBehind h ∧ EntriesNonneg h

theorem LKeeps.bondedPositive {h h' : Hub} (hk : LKeeps h h') (hp : BondedPositive h) : BondedPositive h' := by
  intro v hv; rw [hk.staking] at hv; exact hp v hv

theorem Keeps.rinv {h h' : Hub} (hk : Keeps h h') (hi : RInv h) : RInv h' :=
  ⟨hk.toLKeeps.batchKeysSorted hi.1, hk.toLKeeps.bondedPositive hi.2.1, hk.acceptedBehind hi.2.2.1,
   hk.nonneg hi.2.2.2⟩

theorem RInv.of_cs {h h' : Hub} (e : h'.cs = h.cs) (hp : BondedPositive h') (hi : RInv h) : RInv h' :=
  ⟨fun c => by rw [chain_of_cs e]; exact hi.1 c, hp, fun c => by rw [chain_of_cs e]; exact hi.2.2.1 c,
   fun c => by rw [chain_of_cs e]; exact hi.2.2.2 c⟩

/-- Replacing a chain's state by one with the same pool and batches and sound vote bookkeeping (the
    registered keys may change: `BondedPositive` does not depend on them). -/
theorem RInv.setChain {h : Hub} (hi : RInv h) (x : String) {s : ChainSt}
    (hp : s.pool = (h.chain x).pool) (hb : s.batches = (h.chain x).batches)
    (ha : ∀ r ∈ s.records, r.accepted = true → r.nonce ≤ s.lastObserved) : RInv (h.setChain x s) := by
  refine ⟨fun c => ?_, hi.2.1, fun c => ?_, fun c => ?_⟩ <;> by_cases e : x = c
  · subst e; rw [chain_setChain, hb]; exact hi.1 x
  · rw [chain_setChain_ne _ _ e]; exact hi.1 c
  · subst e; rw [chain_setChain]; exact ha
  · rw [chain_setChain_ne _ _ e]; exact hi.2.2.1 c
  · subst e; rw [chain_setChain]
    have := hi.2.2.2 x
    rw [← hp, ← hb] at this; exact this
  · rw [chain_setChain_ne _ _ e]; exact hi.2.2.2 c

theorem RInv.initial : RInv initialHub := by
  refine ⟨fun _ => List.Pairwise.nil, ?_, ?_, ?_⟩
  · intro v hv; cases hv
  · intro c r hr; cases hr
  · intro c s hs; cases hs

theorem sendToExternal_keeps {h h' : Hub} {sender chain rcp denom tx : String} {amount fee : Int} {id : Nat}
    (hok : h.sendToExternal sender chain rcp denom amount fee tx = .ok (h', id)) : Keeps h h' := by
  unfold Hub.sendToExternal at hok
  simp only [bind, Except.bind] at hok
  split at hok <;> try (cases hok)
  split at hok <;> try (cases hok)
  rename_i hfee
  split at hok <;> try (cases hok)
  split at hok
  · split at hok <;> try (cases hok)
    rename_i hac
    split at hok <;> try (cases hok)
    rename_i hcm
    exact createSte_keeps (by omega) (by omega) (by omega) hok
  · cases hok

theorem cancelMsg_keeps {h h' : Hub} {sender chain : String} {id : Nat}
    (hok : h.cancelMsg sender chain id = .ok h') : Keeps h h' := by
  unfold Hub.cancelMsg at hok
  split at hok
  · cases hok
  · split at hok
    · cases hok
    · have hk := (cancelSte_spec h chain id sender).1
      split at hok
      · rename_i h2 heq
        injection hok with hok
        subst hok
        rw [heq] at hk
        exact hk
      · cases hok

theorem requestBatch_keeps {h h' : Hub} {chain denom : String} {ob : Option Batch}
    (hok : h.requestBatch chain denom = .ok (h', ob)) : Keeps h h' := by
  unfold Hub.requestBatch at hok
  split at hok
  · cases hok
  · split at hok
    · cases hok
    · rename_i t _
      simp only [Except.ok.injEq] at hok
      have e : h' = (h.buildBatch chain t.extId 100).1 := by rw [hok]
      subst e
      exact (buildBatch_bkeeps _ _ _ _).toKeeps

/-- A claim appends a vote to a stored record or stores a new, not accepted one. -/
theorem recordVote_spec {c c' : ChainSt} {ev : Event} {hash : Bytes} {v : String}
    (hok : c.recordVote ev hash v = .ok c')
    (ha : ∀ r ∈ c.records, r.accepted = true → r.nonce ≤ c.lastObserved) :
    c'.pool = c.pool ∧ c'.batches = c.batches ∧
    ∀ r ∈ c'.records, r.accepted = true → r.nonce ≤ c'.lastObserved := by
  unfold ChainSt.recordVote at hok
  simp only [] at hok
  split at hok
  · cases hok
  · simp only [Except.ok.injEq] at hok
    subst hok
    refine ⟨rfl, rfl, fun r hr hacc => ?_⟩
    show r.nonce ≤ c.lastObserved
    rcases mem_insertByKey_cases recKey hr with rfl | hold
    · split at hacc
      · rename_i r0 hf
        exact ha r0 (List.mem_of_find?_eq_some hf) hacc
      · cases hacc
    · exact ha r hold hacc

theorem submitEvent_rinv {h h' : Hub} {chain signer : String} {ev : Event}
    (hok : h.submitEvent chain signer ev = .ok h') (hi : RInv h) : RInv h' := by
  unfold Hub.submitEvent at hok
  simp only [bind, Except.bind] at hok
  split at hok
  · cases hok
  · split at hok
    · cases hok
    · split at hok
      · cases hok
      · rename_i c hc
        simp only [pure, Except.pure, Except.ok.injEq] at hok
        subst hok
        obtain ⟨h1, h2, h3⟩ := recordVote_spec hc (hi.2.2.1 chain)
        exact hi.setChain chain h1 h2 h3

theorem confirm_rinv {h h' : Hub} {chain signer ext sig : String} {k : ConfKind}
    (hok : h.confirm chain signer k ext sig = .ok h') (hi : RInv h) : RInv h' := by
  unfold Hub.confirm at hok
  simp only [bind, Except.bind, failM] at hok
  repeat' (split at hok)
  all_goals first
    | (simp only [pure, Except.pure, Except.ok.injEq] at hok
       subst hok
       exact hi.setChain chain rfl rfl (hi.2.2.1 chain))
    | cases hok

theorem setDelegateKeys_rinv {h h' : Hub} {chain val orch eth sb sv : String} {sn acc : Nat}
    (hok : h.setDelegateKeys chain val orch eth sb sv sn acc = .ok h') (hi : RInv h) : RInv h' := by
  unfold Hub.setDelegateKeys at hok
  simp only [bind, Except.bind, failM] at hok
  repeat' (split at hok)
  all_goals first
    | (simp only [pure, Except.pure, Except.ok.injEq] at hok
       subst hok
       exact hi.setChain chain rfl rfl (hi.2.2.1 chain))
    | cases hok

theorem outM_cases (r : M Hub) (old : Hub) (msg : String) :
    (outM r old msg).1 = old ∨ ∃ h', r = .ok h' ∧ (outM r old msg).1 = h' := by
  unfold outM
  split
  · exact .inr ⟨_, rfl, rfl⟩
  · exact .inl rfl
  · exact .inl rfl

theorem outM_panic_iff (r : M Hub) (old : Hub) :
    (outM r old).2 = "panic" ↔ ∃ m, r = .error (.panic m) := by
  unfold outM
  split
  · simp
  · simp
  · simp

/-- A staking update is sane if it gives every bonded validator positive power. -/
def SaneOp : Op → Prop
  | .staking vs => ∀ v ∈ vs, v.bonded = true → 0 < v.power
  | _ => True

/-- Every operation of the model (messages, begin and end block, environment changes; staking
    updates being sane) keeps the block invariant. -/
theorem apply_rinv (h : Hub) (op : Op) (hop : SaneOp op) (hi : RInv h) : RInv (apply h op).1 := by
  cases op with
  | reset => exact RInv.initial
  | init => exact hi
  | chains cs => exact RInv.of_cs rfl hi.2.1 hi
  | token t => exact RInv.of_cs rfl hi.2.1 hi
  | param name n =>
    simp only [apply]
    split
    · exact RInv.of_cs rfl hi.2.1 hi
    · exact hi
  | gravityId v => exact RInv.of_cs rfl hi.2.1 hi
  | price name x => exact RInv.of_cs rfl hi.2.1 hi
  | holder addr x => exact RInv.of_cs rfl hi.2.1 hi
  | staking vs => exact RInv.of_cs (h := h) rfl hop hi
  | fund acc denom a =>
    simp only [apply]
    rcases outM_cases (h.mintTo acc denom a) h "ok" with e | ⟨h', e1, e2⟩
    · rw [e]; exact hi
    · rw [e2]; exact (mintTo_Pres _ _ _ _ h' e1).rinv hi
  | block ht t => exact RInv.of_cs rfl hi.2.1 hi
  | beginBlock =>
    simp only [apply]
    rcases outM_cases h.beginBlock h "ok" with e | ⟨h', e1, e2⟩
    · rw [e]; exact hi
    · rw [e2]; exact ((beginBlock_spec h hi.1 hi.2.1.stakingSane).2 h' e1).rinv hi
  | endBlock =>
    simp only [apply]
    rcases outM_cases (h.endBlock mintsFee) h "ok" with e | ⟨h', e1, e2⟩
    · rw [e]; exact hi
    · rw [e2]
      obtain ⟨he, hl⟩ := (endBlock_spec h mintsFee ⟨hi.2.2.1, hi.2.2.2⟩).2 h' e1
      exact ⟨hl.batchKeysSorted hi.1, hl.bondedPositive hi.2.1, he.1, he.2⟩
  | send sender chain rcp denom a f tx =>
    simp only [apply]
    split
    · rename_i h' id e
      exact (sendToExternal_keeps e).rinv hi
    · exact hi
    · exact hi
  | cancel sender chain i =>
    simp only [apply]
    rcases outM_cases (h.cancelMsg sender chain i) h "ok" with e | ⟨h', e1, e2⟩
    · rw [e]; exact hi
    · rw [e2]; exact (cancelMsg_keeps e1).rinv hi
  | reqBatch chain denom =>
    simp only [apply]
    split
    · rename_i h' b e
      exact (requestBatch_keeps e).rinv hi
    · rename_i h' e
      exact (requestBatch_keeps e).rinv hi
    · exact hi
    · exact hi
  | vote chain signer e =>
    simp only [apply]
    split
    · rcases outM_cases (h.submitEvent chain signer e) h "ok" with e0 | ⟨h', e1, e2⟩
      · rw [e0]; exact hi
      · rw [e2]; exact submitEvent_rinv e1 hi
    · exact hi
  | hashOf e => exact hi
  | confirm chain signer k ext sig =>
    simp only [apply]
    rcases outM_cases (h.confirm chain signer k ext sig) h "ok" with e0 | ⟨h', e1, e2⟩
    · rw [e0]; exact hi
    · rw [e2]; exact confirm_rinv e1 hi
  | delegate chain val orch eth sb sv n s =>
    simp only [apply]
    rcases outM_cases (h.setDelegateKeys chain val orch eth sb sv n s) h "ok" with e0 | ⟨h', e1, e2⟩
    · rw [e0]; exact hi
    · rw [e2]; exact setDelegateKeys_rinv e1 hi
  | qConfs chain k => exact hi
  | qUnsignedSets chain signer => simp only [apply]; split <;> exact hi
  | qUnsignedBatches chain signer => simp only [apply]; split <;> exact hi
  | qLastNonce chain signer => simp only [apply]; split <;> exact hi
  | dump what => exact hi
  | nop => exact hi
  | bad => exact hi
  | oprice v e l => exact hi
  | oholders v e l => exact hi
  | oend => exact hi

/-- Every state reached from genesis by a history of operations with sane staking updates satisfies
    the block invariant. -/
theorem runOps_rinv (ops : List Op) (hops : ∀ op ∈ ops, SaneOp op) : RInv (runOps ops) := by
  unfold runOps
  suffices ∀ h, RInv h → RInv (ops.foldl (fun h op => (apply h op).1) h) from this _ RInv.initial
  induction ops with
  | nil => exact fun h hi => hi
  | cons op ops ih =>
    intro h hi
    exact ih (fun o ho => hops o (List.mem_cons_of_mem _ ho)) _
      (apply_rinv h op (hops op List.mem_cons_self) hi)

end Mhub2.C05
