/-
  Helper lemmas for the hub ↔ contract link of C08 (Props/C08Hub.lean): sums of floors
  `Σ ⌊pᵢ·c / T⌋`, selections of list members by a Boolean mask, and the valid power of the
  signature vector that a mask of signing members produces.  Core Lean only.

  Everything lives in the namespace `Mhub2.SetNorm` so that no name clashes with Lemmas/Keys.lean
  (which cannot be imported together with Lemmas/Contract.lean: both declare
  `Mhub2.sum_floor_le_nat`).
-/
import Lemmas.Contract
namespace Mhub2.SetNorm
open Mhub2 Mhub2.C08

/-! ### Selecting members by a mask -/

/-- The members of `xs` whose position is marked `true` in the mask (positions beyond the shorter
    of the two lists are not selected). -/
def sel {α : Type} : List Bool → List α → List α
  | b :: bs, x :: xs => if b then x :: sel bs xs else sel bs xs
  | _, _ => []

theorem sel_nil_left {α : Type} (xs : List α) : sel [] xs = [] := by
  unfold sel; rfl

theorem sel_nil_right {α : Type} (m : List Bool) : sel m ([] : List α) = [] := by
  cases m <;> rfl

theorem sel_cons_cons {α : Type} (b : Bool) (bs : List Bool) (x : α) (xs : List α) :
    sel (b :: bs) (x :: xs) = if b then x :: sel bs xs else sel bs xs := rfl

theorem sel_true_cons {α : Type} (bs : List Bool) (x : α) (xs : List α) :
    sel (true :: bs) (x :: xs) = x :: sel bs xs := rfl

theorem sel_false_cons {α : Type} (bs : List Bool) (x : α) (xs : List α) :
    sel (false :: bs) (x :: xs) = sel bs xs := rfl

/-- Selection commutes with `map`. -/
theorem sel_map {α β : Type} (f : α → β) (m : List Bool) (xs : List α) :
    sel m (xs.map f) = (sel m xs).map f := by
  induction m generalizing xs with
  | nil => rw [sel_nil_left, sel_nil_left]; rfl
  | cons b bs ih =>
    cases xs with
    | nil => rw [List.map_nil, sel_nil_right]; rfl
    | cons x xs =>
      cases b with
      | true => rw [List.map_cons, sel_true_cons, sel_true_cons, List.map_cons, ih]
      | false => rw [List.map_cons, sel_false_cons, sel_false_cons, ih]

theorem sel_length_le {α : Type} (m : List Bool) (xs : List α) : (sel m xs).length ≤ xs.length := by
  induction m generalizing xs with
  | nil => rw [sel_nil_left]; exact Nat.zero_le _
  | cons b bs ih =>
    cases xs with
    | nil => rw [sel_nil_right]; exact Nat.zero_le _
    | cons x xs =>
      have := ih xs
      cases b with
      | true => rw [sel_true_cons, List.length_cons, List.length_cons]; omega
      | false => rw [sel_false_cons, List.length_cons]; omega

/-- The selected members are members. -/
theorem mem_of_mem_sel {α : Type} {m : List Bool} {xs : List α} {x : α} (h : x ∈ sel m xs) : x ∈ xs := by
  induction m generalizing xs with
  | nil => rw [sel_nil_left] at h; cases h
  | cons b bs ih =>
    cases xs with
    | nil => rw [sel_nil_right] at h; cases h
    | cons y ys =>
      cases b with
      | true =>
        rw [sel_true_cons] at h
        cases h with
        | head => exact List.mem_cons_self
        | tail _ h => exact List.mem_cons_of_mem _ (ih h)
      | false =>
        rw [sel_false_cons] at h
        exact List.mem_cons_of_mem _ (ih h)

/-- The all-`true` mask selects everybody. -/
theorem sel_all {α : Type} (xs : List α) : sel (xs.map fun _ => true) xs = xs := by
  induction xs with
  | nil => rfl
  | cons x xs ih => rw [List.map_cons, sel_true_cons, ih]

/-- A selection never weighs more than the whole. -/
theorem sumNats_sel_le (m : List Bool) (ps : List Nat) : sumNats (sel m ps) ≤ sumNats ps := by
  induction m generalizing ps with
  | nil => rw [sel_nil_left]; exact Nat.zero_le _
  | cons b bs ih =>
    cases ps with
    | nil => rw [sel_nil_right]; exact Nat.zero_le _
    | cons p ps =>
      have := ih ps
      cases b with
      | true => rw [sel_true_cons, sumNats_cons, sumNats_cons]; omega
      | false => rw [sel_false_cons, sumNats_cons]; omega

/-! ### Sums of floors -/

/-- One floor: `⌊a/T⌋·T ≤ a` and `a + 1 ≤ (⌊a/T⌋ + 1)·T`. -/
theorem floor_bounds (a T : Nat) (hT : 0 < T) : a / T * T ≤ a ∧ a + 1 ≤ (a / T + 1) * T := by
  have h1 := Nat.div_add_mod a T
  have h2 := Nat.mod_lt a hT
  rw [Nat.mul_comm] at h1
  rw [Nat.succ_mul]
  omega

/-- `(Σ ⌊pᵢ·c / T⌋) · T ≤ (Σ pᵢ) · c` (also for `T = 0`). -/
theorem sumNats_floor_upper (c T : Nat) (ps : List Nat) :
    sumNats (ps.map fun p => p * c / T) * T ≤ sumNats ps * c := by
  induction ps with
  | nil => simp
  | cons p ps ih =>
    rw [List.map_cons, sumNats_cons, sumNats_cons, Nat.add_mul, Nat.add_mul]
    have := Nat.div_mul_le_self (p * c) T
    omega

/-- Each floor loses less than one unit: `(Σ pᵢ)·c + n ≤ (Σ ⌊pᵢ·c / T⌋ + n) · T` for `n` summands. -/
theorem sumNats_floor_lower (c T : Nat) (hT : 0 < T) (ps : List Nat) :
    sumNats ps * c + ps.length ≤ (sumNats (ps.map fun p => p * c / T) + ps.length) * T := by
  induction ps with
  | nil => simp
  | cons p ps ih =>
    rw [List.map_cons, sumNats_cons, sumNats_cons, List.length_cons, Nat.add_mul p]
    have h := (floor_bounds (p * c) T hT).2
    have e : (p * c / T + sumNats (ps.map fun p => p * c / T) + (ps.length + 1)) * T
        = (p * c / T + 1) * T + (sumNats (ps.map fun p => p * c / T) + ps.length) * T := by
      rw [← Nat.add_mul]; congr 1; omega
    rw [e]
    omega

/-- Strict form for a non-empty list. -/
theorem sumNats_floor_lower_strict (c T : Nat) (hT : 0 < T) (ps : List Nat) (hne : ps ≠ []) :
    sumNats ps * c < (sumNats (ps.map fun p => p * c / T) + ps.length) * T := by
  have := sumNats_floor_lower c T hT ps
  have : 0 < ps.length := List.length_pos_iff.2 hne
  omega

/-- Normalising against the members' own total: the floors sum to more than `c − n`. -/
theorem sumNats_floor_total_lower (c : Nat) (ps : List Nat) (hT : 0 < sumNats ps) (hne : ps ≠ []) :
    c < sumNats (ps.map fun p => p * c / sumNats ps) + ps.length := by
  have h := sumNats_floor_lower_strict c (sumNats ps) hT ps hne
  rw [Nat.mul_comm (sumNats ps) c] at h
  exact Nat.lt_of_mul_lt_mul_right h

/-- … and to at most `c`. -/
theorem sumNats_floor_total_upper (c : Nat) (ps : List Nat) (hT : 0 < sumNats ps) :
    sumNats (ps.map fun p => p * c / sumNats ps) ≤ c := by
  have h := sumNats_floor_upper c (sumNats ps) ps
  rw [Nat.mul_comm (sumNats ps) c] at h
  exact Nat.le_of_mul_le_mul_right h hT

/-! ### Signature vectors made from a mask -/

/-- The signature vector in which exactly the masked validators signed `h` (validly) and every other
    slot is absent. -/
def maskSlots (h : Bytes) : List Bool → List Bytes → List SigSlot
  | b :: bs, v :: vs => (if b then SigSlot.sig v h else SigSlot.absent) :: maskSlots h bs vs
  | _, _ => []

theorem maskSlots_nil_left (h : Bytes) (vs : List Bytes) : maskSlots h [] vs = [] := by
  unfold maskSlots; rfl

theorem maskSlots_nil_right (h : Bytes) (m : List Bool) : maskSlots h m [] = [] := by
  cases m <;> rfl

theorem maskSlots_cons_cons (h : Bytes) (b : Bool) (bs : List Bool) (v : Bytes) (vs : List Bytes) :
    maskSlots h (b :: bs) (v :: vs)
      = (if b then SigSlot.sig v h else SigSlot.absent) :: maskSlots h bs vs := rfl

theorem maskSlots_length (h : Bytes) (m : List Bool) (vs : List Bytes) :
    (maskSlots h m vs).length = min m.length vs.length := by
  induction m generalizing vs with
  | nil => rw [maskSlots_nil_left]; simp
  | cons b bs ih =>
    cases vs with
    | nil => rw [maskSlots_nil_right]; simp
    | cons v vs => rw [maskSlots_cons_cons, List.length_cons, ih]; simp only [List.length_cons]; omega

/-- Such a vector contains only valid signatures. -/
theorem slotsOK_maskSlots (h : Bytes) (m : List Bool) (vs : List Bytes) : SlotsOK vs (maskSlots h m vs) h := by
  induction m generalizing vs with
  | nil => rw [maskSlots_nil_left]; cases vs <;> simp [SlotsOK]
  | cons b bs ih =>
    cases vs with
    | nil => simp [SlotsOK]
    | cons v vs =>
      rw [maskSlots_cons_cons]
      refine ⟨?_, ih vs⟩
      cases b with
      | true => exact Or.inr rfl
      | false => exact Or.inl rfl

theorem validFor_sig_self (v h : Bytes) : (SigSlot.sig v h).validFor v h = true :=
  (SigSlot.validFor_iff _ _ _).2 rfl

theorem validFor_absent (v h : Bytes) : SigSlot.absent.validFor v h = false := rfl

/-- Its valid power is the power of the masked validators. -/
theorem validPower_maskSlots (h : Bytes) (m : List Bool) (vs : List Bytes) (ps : List Nat)
    (hl : vs.length = ps.length) :
    validPower vs ps (maskSlots h m vs) h = sumNats (sel m ps) := by
  induction m generalizing vs ps with
  | nil => rw [maskSlots_nil_left, validPower_nil_right, sel_nil_left]; rfl
  | cons b bs ih =>
    cases vs with
    | nil => rw [validPower_nil_left]; cases ps with
      | nil => rw [sel_nil_right]; rfl
      | cons p ps => simp at hl
    | cons v vs =>
      cases ps with
      | nil => simp at hl
      | cons p ps =>
        have hl' : vs.length = ps.length := by simpa using hl
        rw [maskSlots_cons_cons, validPower_cons, ih vs ps hl']
        cases b with
        | true =>
          rw [sel_true_cons, sumNats_cons]
          simp only [if_true, validFor_sig_self]
        | false =>
          rw [sel_false_cons]
          simp [validFor_absent]

/-- For an arbitrary signature vector: the positions holding a signature by that position's
    validator over `h`. -/
def validMask (h : Bytes) : List Bytes → List SigSlot → List Bool
  | v :: vs, s :: ss => s.validFor v h :: validMask h vs ss
  | _, _ => []

theorem validMask_nil_left (h : Bytes) (ss : List SigSlot) : validMask h [] ss = [] := by
  unfold validMask; rfl

theorem validMask_nil_right (h : Bytes) (vs : List Bytes) : validMask h vs [] = [] := by
  cases vs <;> rfl

theorem validMask_cons_cons (h : Bytes) (v : Bytes) (vs : List Bytes) (s : SigSlot) (ss : List SigSlot) :
    validMask h (v :: vs) (s :: ss) = s.validFor v h :: validMask h vs ss := rfl

/-- The valid power of any signature vector is the power of the validly signing positions. -/
theorem validPower_eq_sel (h : Bytes) (vs : List Bytes) (ps : List Nat) (ss : List SigSlot)
    (hl : vs.length = ps.length) :
    validPower vs ps ss h = sumNats (sel (validMask h vs ss) ps) := by
  induction vs generalizing ps ss with
  | nil => rw [validPower_nil_left, validMask_nil_left, sel_nil_left]; rfl
  | cons v vs ih =>
    cases ps with
    | nil => simp at hl
    | cons p ps =>
      have hl' : vs.length = ps.length := by simpa using hl
      cases ss with
      | nil => rw [validPower_nil_right, validMask_nil_right, sel_nil_left]; rfl
      | cons s ss =>
        rw [validPower_cons, validMask_cons_cons, ih ps ss hl']
        cases hv : s.validFor v h with
        | true => rw [sel_true_cons, sumNats_cons]; simp
        | false => rw [sel_false_cons]; simp

end Mhub2.SetNorm
