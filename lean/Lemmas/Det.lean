/-
  Helper lemmas for C06 (determinism): everything the Go code computes by ranging over a map
  (random order) or by sorting is a function of the *set/multiset* of entries, not of the order
  in which they are enumerated.  `l1.Perm l2` models "the same map enumerated in two orders".
-/
import Mhub2.Oracle
import Lemmas.Oracle
import Lemmas.Encoding
namespace Mhub2.Det
open Mhub2

/-! ### Sums -/

theorem sumNats_perm {l1 l2 : List Nat} (h : l1.Perm l2) : sumNats l1 = sumNats l2 := by
  induction h with
  | nil => rfl
  | cons x _ ih => rw [sumNats_cons, sumNats_cons, ih]
  | swap x y l => simp only [sumNats_cons]; omega
  | trans _ _ ih1 ih2 => exact ih1.trans ih2

theorem sumNats_append (a b : List Nat) : sumNats (a ++ b) = sumNats a + sumNats b := by
  induction a with
  | nil => simp
  | cons x t ih => rw [List.cons_append, sumNats_cons, sumNats_cons, ih]; omega

theorem sumNats_take_le (l : List Nat) (k : Nat) : sumNats (l.take k) ≤ sumNats l := by
  have h := sumNats_append (l.take k) (l.drop k)
  rw [List.take_append_drop] at h
  omega

theorem sumNats_le_length_mul {l : List Nat} {B : Nat} (h : ∀ x ∈ l, x ≤ B) :
    sumNats l ≤ l.length * B := by
  induction l with
  | nil => simp
  | cons x t ih =>
    rw [sumNats_cons, List.length_cons, Nat.succ_mul]
    have := h x List.mem_cons_self
    have := ih (fun y hy => h y (List.mem_cons_of_mem _ hy))
    omega

/-- Two disjoint groups of a weighted list never weigh more than the whole list. -/
theorem sum_filter_disjoint_le {α : Type} (w : α → Nat) (p q : α → Bool) (l : List α)
    (hd : ∀ x ∈ l, ¬ (p x = true ∧ q x = true)) :
    sumNats ((l.filter p).map w) + sumNats ((l.filter q).map w) ≤ sumNats (l.map w) := by
  induction l with
  | nil => simp
  | cons x t ih =>
    have ih' := ih (fun y hy => hd y (List.mem_cons_of_mem _ hy))
    have hx := hd x List.mem_cons_self
    simp only [List.filter_cons, List.map_cons, sumNats_cons]
    cases hp : p x <;> cases hq : q x
    · simp only [Bool.false_eq_true, if_false]; omega
    · simp only [Bool.false_eq_true, if_false, if_true, List.map_cons, sumNats_cons]; omega
    · simp only [Bool.false_eq_true, if_false, if_true, List.map_cons, sumNats_cons]; omega
    · exact absurd ⟨hp, hq⟩ hx

/-! ### Short lists, permutations, `eraseDups` -/

theorem length_le_one_of_all_eq {α : Type} {l : List α} (hn : l.Nodup)
    (h : ∀ a ∈ l, ∀ b ∈ l, a = b) : l.length ≤ 1 := by
  match l, hn, h with
  | [], _, _ => simp
  | [_], _, _ => simp
  | a :: b :: t, hn, h =>
    have hab : a = b := h a List.mem_cons_self b (List.mem_cons_of_mem _ List.mem_cons_self)
    have := (List.nodup_cons.mp hn).1
    rw [hab] at this
    exact absurd List.mem_cons_self this

theorem perm_eq_of_length_le_one {α : Type} {l1 l2 : List α} (h : l1.Perm l2) (hl : l1.length ≤ 1) :
    l1 = l2 := by
  match l1, hl with
  | [], _ => exact (List.nil_perm.mp h).symm
  | [a], _ => exact List.singleton_perm.mp h
  | _ :: _ :: _, hl => simp at hl

theorem perm_isEmpty {α : Type} {l1 l2 : List α} (h : l1.Perm l2) : l1.isEmpty = l2.isEmpty := by
  have hl := h.length_eq
  cases l1 <;> cases l2 <;> simp at hl ⊢

/-- Two runs of a guarded computation `if c1 then ok [] else if c2 then error else ok x` with the
    same guards have the same outcome up to the relation between the payloads. -/
theorem ite_outcome {α : Type} (c1 c2 : Prop) [Decidable c1] [Decidable c2] (e : Err)
    (x1 x2 : List α) (R : List α → List α → Prop) (h0 : R [] []) (hx : R x1 x2) :
    (∀ e', (if c1 then (.ok [] : M (List α)) else if c2 then .error e else .ok x1) = .error e' →
      (if c1 then (.ok [] : M (List α)) else if c2 then .error e else .ok x2) = .error e') ∧
    (∀ p1, (if c1 then (.ok [] : M (List α)) else if c2 then .error e else .ok x1) = .ok p1 →
      ∃ p2, (if c1 then (.ok [] : M (List α)) else if c2 then .error e else .ok x2) = .ok p2 ∧
        R p1 p2) := by
  by_cases h1 : c1
  · rw [if_pos h1, if_pos h1]
    exact ⟨fun _ he => (by cases he), fun p1 he => (by cases he; exact ⟨[], rfl, h0⟩)⟩
  · rw [if_neg h1, if_neg h1]
    by_cases h2 : c2
    · rw [if_pos h2, if_pos h2]
      exact ⟨fun _ he => he, fun p1 he => (by cases he)⟩
    · rw [if_neg h2, if_neg h2]
      exact ⟨fun _ he => (by cases he), fun p1 he => (by cases he; exact ⟨x2, rfl, hx⟩)⟩

theorem nodup_eraseDups_aux {α : Type} [BEq α] [LawfulBEq α] :
    ∀ (n : Nat) (l : List α), l.length ≤ n → l.eraseDups.Nodup
  | 0, l, h => by
    have : l = [] := List.eq_nil_of_length_eq_zero (by omega)
    subst this; simp
  | n + 1, [], _ => by simp
  | n + 1, a :: as, h => by
    rw [List.eraseDups_cons, List.nodup_cons]
    constructor
    · rw [List.mem_eraseDups, List.mem_filter]
      simp
    · apply nodup_eraseDups_aux n
      have := List.length_filter_le (fun b => !b == a) as
      simp only [List.length_cons] at h
      omega

/-- The key set of a Go map, as a list: no repetition. -/
theorem nodup_eraseDups {α : Type} [BEq α] [LawfulBEq α] (l : List α) : l.eraseDups.Nodup :=
  nodup_eraseDups_aux l.length l (Nat.le_refl _)

theorem length_eraseDups_le_aux {α : Type} [BEq α] [LawfulBEq α] :
    ∀ (n : Nat) (l : List α), l.length ≤ n → l.eraseDups.length ≤ l.length
  | 0, l, h => by
    have : l = [] := List.eq_nil_of_length_eq_zero (by omega)
    subst this; simp
  | n + 1, [], _ => by simp
  | n + 1, a :: as, h => by
    rw [List.eraseDups_cons, List.length_cons, List.length_cons]
    have h1 := List.length_filter_le (fun b => !b == a) as
    simp only [List.length_cons] at h
    have := length_eraseDups_le_aux n (as.filter fun b => !b == a) (by omega)
    omega

theorem length_eraseDups_le {α : Type} [BEq α] [LawfulBEq α] (l : List α) :
    l.eraseDups.length ≤ l.length :=
  length_eraseDups_le_aux l.length l (Nat.le_refl _)

/-- The key sets of two enumerations of the same entries are permutations of each other. -/
theorem eraseDups_perm_of_perm {α : Type} [BEq α] [LawfulBEq α] {l1 l2 : List α} (h : l1.Perm l2) :
    l1.eraseDups.Perm l2.eraseDups :=
  (List.perm_ext_iff_of_nodup (nodup_eraseDups _) (nodup_eraseDups _)).mpr fun a => by
    rw [List.mem_eraseDups, List.mem_eraseDups, h.mem_iff]

/-- Any duplicate-free enumeration of the keys is a permutation of the model's key list. -/
theorem perm_eraseDups_of_nodup {α : Type} [BEq α] [LawfulBEq α] {keys l : List α} (hn : keys.Nodup)
    (hm : ∀ x, x ∈ keys ↔ x ∈ l) : keys.Perm l.eraseDups :=
  (List.perm_ext_iff_of_nodup hn (nodup_eraseDups _)).mpr fun a => by
    rw [List.mem_eraseDups, hm]

/-- Filtering a duplicate-free list by a predicate satisfied by at most one value gives the same
    list whatever the enumeration order. -/
theorem filter_unique_perm_eq {α : Type} {p : α → Bool} {l1 l2 : List α} (h : l1.Perm l2)
    (hn : l1.Nodup) (hu : ∀ a ∈ l1, ∀ b ∈ l1, p a = true → p b = true → a = b) :
    l1.filter p = l2.filter p := by
  apply perm_eq_of_length_le_one (h.filter p)
  apply length_le_one_of_all_eq (hn.sublist List.filter_sublist)
  intro a ha b hb
  obtain ⟨ha1, ha2⟩ := List.mem_filter.mp ha
  obtain ⟨hb1, hb2⟩ := List.mem_filter.mp hb
  exact hu a ha1 b hb1 ha2 hb2

/-! ### Sorting: a strict total order leaves no freedom -/

/-- `sort.Strings` order: bytewise comparison of the UTF-8 encodings. -/
def strLt (a b : String) : Bool := bytesLt (strBytes a) (strBytes b)

/-- `sort.Slice(keys, func(i, j) bool { return keys[i] < keys[j] })` on `uint64`. -/
def natLt (a b : Nat) : Bool := decide (a < b)

theorem isort_perm_invariant {α : Type} (lt : α → α → Bool) (hirr : ∀ a, lt a a = false)
    (htrans : ∀ a b c, lt a b = true → lt b c = true → lt a c = true)
    (htot : ∀ a b, a ≠ b → lt a b = true ∨ lt b a = true)
    {l1 l2 : List α} (h : l1.Perm l2) : isort lt l1 = isort lt l2 := by
  apply Enc.isort_eq_of_perm lt _ htrans _ h
  · intro a b hab
    cases hba : lt b a with
    | false => rfl
    | true => have := htrans a b a hab hba; rw [hirr a] at this; cases this
  · intro a b hab hba
    apply Classical.byContradiction
    intro hne
    rcases htot a b hne with h1 | h1
    · rw [hab] at h1; cases h1
    · rw [hba] at h1; cases h1

theorem strLt_irrefl (a : String) : strLt a a = false := Enc.bytesLt_irrefl _
theorem strLt_trans (a b c : String) (h1 : strLt a b = true) (h2 : strLt b c = true) :
    strLt a c = true := Enc.bytesLt_trans h1 h2
theorem strLt_total (a b : String) (hne : a ≠ b) : strLt a b = true ∨ strLt b a = true := by
  cases h1 : strLt a b with
  | true => exact Or.inl rfl
  | false =>
    cases h2 : strLt b a with
    | true => exact Or.inr rfl
    | false => exact absurd (Enc.strBytes_inj (Enc.bytesLt_total h1 h2)) hne

theorem natLt_irrefl (a : Nat) : natLt a a = false := by simp [natLt]
theorem natLt_trans (a b c : Nat) (h1 : natLt a b = true) (h2 : natLt b c = true) :
    natLt a c = true := by
  simp only [natLt, decide_eq_true_eq] at *; omega
theorem natLt_total (a b : Nat) (hne : a ≠ b) : natLt a b = true ∨ natLt b a = true := by
  simp only [natLt, decide_eq_true_eq]; omega

theorem isort_strLt_perm {l1 l2 : List String} (h : l1.Perm l2) : isort strLt l1 = isort strLt l2 :=
  isort_perm_invariant strLt strLt_irrefl strLt_trans strLt_total h

theorem isort_natLt_perm {l1 l2 : List Nat} (h : l1.Perm l2) : isort natLt l1 = isort natLt l2 :=
  isort_perm_invariant natLt natLt_irrefl natLt_trans natLt_total h

/-- Sorted distinct nonces are strictly increasing. -/
theorem isort_natLt_strict {l : List Nat} (hn : l.Nodup) : (isort natLt l).Pairwise (· < ·) := by
  have hs := Enc.isort_sorted natLt
    (by intro a b h; simp only [natLt, decide_eq_true_eq, decide_eq_false_iff_not] at *; omega)
    natLt_trans l
  have hnd : (isort natLt l).Nodup := ((Enc.isort_perm natLt l).nodup_iff).mpr hn
  have := hs.and hnd
  refine this.imp ?_
  intro a b ⟨h1, h2⟩
  simp only [natLt, decide_eq_false_iff_not] at h1
  omega

/-! ### Grouping by nonce (`GetExternalEventVoteRecordMapping` + sorted keys) -/

/-- In a list sorted by `key` whose keys are all `≥ k`, the entries with key `k` come first. -/
theorem filter_split_min {α : Type} (key : α → Nat) (k : Nat) :
    ∀ (L : List α), L.Pairwise (fun a b => key a ≤ key b) → (∀ r ∈ L, k ≤ key r) →
      L.filter (fun r => key r == k) ++ L.filter (fun r => !(key r == k)) = L
  | [], _, _ => rfl
  | r :: L', hp, hk => by
    obtain ⟨hr, hp'⟩ := List.pairwise_cons.mp hp
    have ih := filter_split_min key k L' hp' (fun x hx => hk x (List.mem_cons_of_mem _ hx))
    by_cases h : key r = k
    · have h1 : (key r == k) = true := by simpa using h
      simp only [List.filter_cons, h1, if_true, Bool.not_true, Bool.false_eq_true, if_false,
        List.cons_append]
      rw [ih]
    · have h1 : (key r == k) = false := by simpa using h
      have hgt : k < key r := by have := hk r List.mem_cons_self; omega
      have e1 : L'.filter (fun r => key r == k) = [] := by
        rw [List.filter_eq_nil_iff]
        intro x hx; have := hr x hx; simp only [beq_iff_eq]; omega
      have e2 : L'.filter (fun r => !(key r == k)) = L' := by
        rw [List.filter_eq_self]
        intro x hx; have := hr x hx
        simp only [Bool.not_eq_true', beq_eq_false_iff_ne, ne_eq]; omega
      simp only [List.filter_cons, h1, Bool.false_eq_true, if_false, Bool.not_false, if_true, e1, e2,
        List.nil_append]

/-- Concatenating, over the strictly increasing key list, the per-key groups of a key-sorted list
    gives the list back: iterating `attmap` by sorted nonce is iterating the store in key order. -/
theorem flatMap_groups_eq {α : Type} (key : α → Nat) :
    ∀ (K : List Nat), K.Pairwise (· < ·) → ∀ (L : List α), L.Pairwise (fun a b => key a ≤ key b) →
      (∀ r ∈ L, key r ∈ K) → K.flatMap (fun n => L.filter (fun r => key r == n)) = L
  | [], _, L, _, hm => by
    have : L = [] := List.eq_nil_iff_forall_not_mem.mpr fun r hr => by simpa using hm r hr
    subst this; rfl
  | k :: K', hK, L, hL, hm => by
    obtain ⟨hk, hK'⟩ := List.pairwise_cons.mp hK
    have hge : ∀ r ∈ L, k ≤ key r := by
      intro r hr
      rcases List.mem_cons.mp (hm r hr) with e | e
      · omega
      · have := hk _ e; omega
    have hcongr : K'.flatMap (fun n => L.filter (fun r => key r == n)) =
        K'.flatMap (fun n => (L.filter (fun r => !(key r == k))).filter (fun r => key r == n)) := by
      rw [List.flatMap_def, List.flatMap_def]
      congr 1
      apply List.map_congr_left
      intro n hn
      have hnk : k < n := hk n hn
      rw [List.filter_filter]
      apply List.filter_congr
      intro r _
      by_cases e : key r = n
      · have hne : (key r == k) = false := by
          rw [beq_eq_false_iff_ne]; omega
        have he : (key r == n) = true := by rw [beq_iff_eq]; exact e
        rw [he, hne]; rfl
      · simp [e]
    rw [List.flatMap_cons, hcongr,
      flatMap_groups_eq key K' hK' (L.filter (fun r => !(key r == k))) (hL.filter _) ?_]
    · exact filter_split_min key k L hL hge
    · intro r hr
      obtain ⟨hr1, hr2⟩ := List.mem_filter.mp hr
      rcases List.mem_cons.mp (hm r hr1) with e | e
      · simp [e] at hr2
      · exact e

theorem foldlM_flatMap {m : Type → Type} [Monad m] [LawfulMonad m] {α β γ : Type}
    (f : β → α → m β) (g : γ → List α) :
    ∀ (K : List γ) (b : β),
      (K.flatMap g).foldlM f b = K.foldlM (fun b n => (g n).foldlM f b) b
  | [], b => by simp
  | k :: K, b => by
    rw [List.flatMap_cons, List.foldlM_append, List.foldlM_cons]
    congr 1
    funext b'
    exact foldlM_flatMap f g K b'

/-! ### The minimum fold of `getLastEventNonceByValidator` -/

/-- One step of the `for nonce, atts := range attmap` loop. -/
def minStep (lo : Nat) (r : VoteRec) : Nat := if r.accepted && r.nonce < lo then r.nonce else lo

theorem minStep_comm (z : Nat) (x y : VoteRec) :
    minStep (minStep z x) y = minStep (minStep z y) x := by
  unfold minStep
  cases x.accepted <;> cases y.accepted <;>
    simp only [Bool.false_and, Bool.true_and, Bool.false_eq_true, if_false, decide_eq_true_eq]
  repeat' split
  all_goals omega

theorem foldl_minStep_perm {l1 l2 : List VoteRec} (h : l1.Perm l2) (s : Nat) :
    l1.foldl minStep s = l2.foldl minStep s :=
  h.foldl_eq' (fun x _ y _ z => minStep_comm z x y) s

theorem foldl_minStep_le_start (l : List VoteRec) (s : Nat) : l.foldl minStep s ≤ s := by
  induction l generalizing s with
  | nil => exact Nat.le_refl _
  | cons r t ih =>
    rw [List.foldl_cons]
    have := ih (minStep s r)
    have : minStep s r ≤ s := by unfold minStep; split <;> simp_all <;> omega
    omega

theorem foldl_minStep_le_mem (l : List VoteRec) (s : Nat) {r : VoteRec} (hr : r ∈ l)
    (ha : r.accepted = true) : l.foldl minStep s ≤ r.nonce := by
  induction l generalizing s with
  | nil => cases hr
  | cons x t ih =>
    rw [List.foldl_cons]
    rcases List.mem_cons.mp hr with e | e
    · subst e
      have h1 := foldl_minStep_le_start t (minStep s r)
      have : minStep s r ≤ r.nonce := by
        unfold minStep; simp only [ha, Bool.true_and, decide_eq_true_eq]; split <;> omega
      omega
    · exact ih _ e

theorem foldl_minStep_attained (l : List VoteRec) (s : Nat) :
    l.foldl minStep s = s ∨ ∃ r ∈ l, r.accepted = true ∧ l.foldl minStep s = r.nonce := by
  induction l generalizing s with
  | nil => exact Or.inl rfl
  | cons x t ih =>
    rw [List.foldl_cons]
    rcases ih (minStep s x) with h | ⟨r, hr, ha, he⟩
    · rw [h]
      unfold minStep
      split
      · rename_i hc
        simp only [Bool.and_eq_true, decide_eq_true_eq] at hc
        exact Or.inr ⟨x, List.mem_cons_self, hc.1, rfl⟩
      · exact Or.inl rfl
    · exact Or.inr ⟨r, List.mem_cons_of_mem _ hr, ha, he⟩

/-! ### `PowerDiff` -/

/-- The contribution of one address to `PowerDiff`: `|powers[x]|` after both loops. -/
def pdTerm (a b : List Signer) (x : String) : Nat :=
  let pa := ((a.filter (·.addr == x)).getLast?.map (·.power)).getD 0
  let pb := sumNats ((b.filter (·.addr == x)).map (·.power))
  if pa ≥ pb then pa - pb else pb - pa

/-- The keys of the `powers` map, in the model's enumeration order. -/
def pdKeys (a b : List Signer) : List String := (a.map (·.addr) ++ b.map (·.addr)).eraseDups

theorem powerDiffNum_eq (a b : List Signer) :
    powerDiffNum a b = sumNats ((pdKeys a b).map (pdTerm a b)) := rfl

theorem filter_addr_length_le_one {a : List Signer} (hn : (a.map (·.addr)).Nodup) (x : String) :
    (a.filter (·.addr == x)).length ≤ 1 := by
  have hsub : ((a.filter (·.addr == x)).map (·.addr)).Nodup :=
    hn.sublist (List.filter_sublist.map _)
  have hl := length_le_one_of_all_eq hsub (by
    intro u hu v hv
    obtain ⟨s, hs, rfl⟩ := List.mem_map.mp hu
    obtain ⟨t, ht, rfl⟩ := List.mem_map.mp hv
    have h1 := (List.mem_filter.mp hs).2
    have h2 := (List.mem_filter.mp ht).2
    simp only [beq_iff_eq] at h1 h2
    rw [h1, h2])
  simpa using hl

theorem filter_addr_perm_eq {a1 a2 : List Signer} (h : a1.Perm a2) (hn : (a1.map (·.addr)).Nodup)
    (x : String) : a1.filter (·.addr == x) = a2.filter (·.addr == x) :=
  perm_eq_of_length_le_one (h.filter _) (filter_addr_length_le_one hn x)

theorem pdTerm_perm {a1 a2 b1 b2 : List Signer} (ha : a1.Perm a2) (hb : b1.Perm b2)
    (hn : (a1.map (·.addr)).Nodup) (x : String) : pdTerm a1 b1 x = pdTerm a2 b2 x := by
  unfold pdTerm
  rw [filter_addr_perm_eq ha hn x, sumNats_perm (((hb.filter (·.addr == x)).map (·.power)))]

theorem pdKeys_perm {a1 a2 b1 b2 : List Signer} (ha : a1.Perm a2) (hb : b1.Perm b2) :
    (pdKeys a1 b1).Perm (pdKeys a2 b2) :=
  eraseDups_perm_of_perm ((ha.map _).append (hb.map _))

theorem pdTerm_le {a b : List Signer} {B : Nat} (ha : ∀ s ∈ a, s.power ≤ B)
    (hb : ∀ s ∈ b, s.power ≤ B) (hnb : (b.map (·.addr)).Nodup) (x : String) : pdTerm a b x ≤ B := by
  have hpa : ((a.filter (·.addr == x)).getLast?.map (·.power)).getD 0 ≤ B := by
    cases hl : (a.filter (·.addr == x)).getLast? with
    | none => simp
    | some s =>
      have := List.mem_of_getLast? hl
      exact ha s (List.mem_filter.mp this).1
  have hpb : sumNats ((b.filter (·.addr == x)).map (·.power)) ≤ B := by
    have h1 := filter_addr_length_le_one hnb x
    have h2 := sumNats_le_length_mul (l := (b.filter (·.addr == x)).map (·.power)) (B := B) (by
      intro p hp
      obtain ⟨s, hs, rfl⟩ := List.mem_map.mp hp
      exact hb s (List.mem_filter.mp hs).1)
    rw [List.length_map] at h2
    have : (b.filter (·.addr == x)).length * B ≤ 1 * B := Nat.mul_le_mul_right B h1
    omega
  unfold pdTerm
  simp only
  split <;> omega

theorem pdKeys_length_le (a b : List Signer) : (pdKeys a b).length ≤ a.length + b.length := by
  have := length_eraseDups_le (a.map (·.addr) ++ b.map (·.addr))
  simpa [pdKeys] using this

/-! ### Association lists with distinct keys -/

theorem alGet_eq_some_iff {κ ν : Type} [BEq κ] [LawfulBEq κ] {l : List (κ × ν)}
    (hn : (l.map (·.1)).Nodup) (k : κ) (v : ν) : alGet l k = some v ↔ (k, v) ∈ l := by
  induction l with
  | nil => simp [alGet]
  | cons p t ih =>
    obtain ⟨k', v'⟩ := p
    rw [List.map_cons, List.nodup_cons] at hn
    unfold alGet
    by_cases hk : k' = k
    · subst hk
      simp only [beq_self_eq_true, if_true, Option.some.injEq, List.mem_cons, Prod.mk.injEq,
        true_and]
      constructor
      · intro e; exact Or.inl e.symm
      · rintro (e | e)
        · exact e.symm
        · exact absurd (List.mem_map.mpr ⟨(k', v), e, rfl⟩) hn.1
    · have hk' : (k' == k) = false := by simpa using hk
      simp only [hk', Bool.false_eq_true, if_false, List.mem_cons, Prod.mk.injEq]
      rw [ih hn.2]
      constructor
      · intro e; exact Or.inr e
      · rintro (⟨e, _⟩ | e)
        · exact absurd e.symm hk
        · exact e

/-- Lookups in a map do not depend on the order in which its entries are listed. -/
theorem alGet_perm {κ ν : Type} [BEq κ] [LawfulBEq κ] {l1 l2 : List (κ × ν)} (h : l1.Perm l2)
    (hn : (l1.map (·.1)).Nodup) (k : κ) : alGet l1 k = alGet l2 k := by
  have hn2 : (l2.map (·.1)).Nodup := ((h.map (·.1)).nodup_iff).mp hn
  apply Option.ext
  intro v
  rw [alGet_eq_some_iff hn, alGet_eq_some_iff hn2, h.mem_iff]

/-! ### Normalisation (`GetNormalizedValPowers`, `CurrentSignerSet`) -/

/-- `power ↦ power * M / total`, entry by entry, `total` being the sum over all entries. -/
def normalise (M : Nat) (l : List (String × Nat)) : List (String × Nat) :=
  l.map fun p => (p.1, p.2 * M / sumNats (l.map (·.2)))

theorem normalise_perm (M : Nat) {l1 l2 : List (String × Nat)} (h : l1.Perm l2) :
    (normalise M l1).Perm (normalise M l2) := by
  unfold normalise
  rw [sumNats_perm (h.map (·.2))]
  exact h.map _

theorem normalise_keys (M : Nat) (l : List (String × Nat)) :
    (normalise M l).map (·.1) = l.map (·.1) := by
  unfold normalise; rw [List.map_map]; rfl

def normaliseSigners (raw : List Signer) : List Signer :=
  raw.map fun s => { s with power := s.power * maxU32 / sumNats (raw.map (·.power)) }

theorem normaliseSigners_perm {r1 r2 : List Signer} (h : r1.Perm r2) :
    (normaliseSigners r1).Perm (normaliseSigners r2) := by
  unfold normaliseSigners
  rw [sumNats_perm (h.map (·.power))]
  exact h.map _

/-- The members `CurrentSignerSet` starts from. -/
def rawSigners (valExt : List (String × String)) (vals : List Validator) : List Signer :=
  vals.filterMap fun v =>
    match alGet valExt v.addr with
    | none => none
    | some e => if e == zeroEth then none else some (Signer.mk v.power e)

theorem currentSigners_eq (h : Hub) (chain : String) :
    h.currentSigners chain =
      (let raw := rawSigners (h.chain chain).valExt h.bondedByPower
       if raw.isEmpty then .ok []
       else if sumNats (raw.map (·.power)) == 0 then panicM "division by zero"
       else .ok (normaliseSigners raw)) := rfl

theorem normalizedPowers_eq (h : Hub) :
    h.normalizedPowers =
      (let bonded := h.staking.filter (·.bonded)
       if bonded.isEmpty then .ok []
       else if sumNats (bonded.map (·.power)) == 0 then panicM "division by zero"
       else .ok (normalise maxU16 (bonded.map fun v => (v.addr, v.power)))) := by
  unfold Hub.normalizedPowers normalise
  simp only [List.map_map]
  rfl

/-! ### Holders tally -/

/-- Normalised powers of pairwise distinct voters never add up to more than 65535. -/
theorem normalized_sum_le {h : Hub} {pw : List (String × Nat)} (hok : h.normalizedPowers = .ok pw)
    {vs : List String} (hn : vs.Nodup) :
    sumNats (vs.map fun v => (alGet pw v).getD 0) ≤ 65535 := by
  have h1 : sumNats (vs.map fun v => (alGet pw v).getD 0) =
      sumNats ((vs.map h.bondedPower).map fun p => p * 65535 / h.totalPower) := by
    rw [List.map_map]
    apply sumNats_map_congr
    intro v _
    exact normalizedPowers_ok hok v
  rw [h1]
  by_cases hT : h.totalPower = 0
  · rw [hT, sum_floor_zero]; omega
  · have h2 := sum_floor_mul_le 65535 h.totalPower (vs.map h.bondedPower)
    have h3 := sum_bondedPower_le_total h hn
    have h4 : sumNats (vs.map h.bondedPower) * 65535 ≤ h.totalPower * 65535 :=
      Nat.mul_le_mul_right _ h3
    have h5 : sumNats ((vs.map h.bondedPower).map fun p => p * 65535 / h.totalPower) * h.totalPower
        ≤ 65535 * h.totalPower := by
      rw [Nat.mul_comm 65535]; exact Nat.le_trans h2 h4
    exact Nat.le_of_mul_le_mul_right h5 (Nat.pos_of_ne_zero hT)

/-! ### Weighted median -/

/-- Whatever arrangement `sort.Slice` (not stable) leaves the expanded values in, as long as it is
    sorted it is the one list `medianList`. -/
theorem sorted_expansion_unique {l : List (Int × Nat)} {e : List Int}
    (hp : e.Perm (expandWeighted l)) (hs : e.Pairwise (· ≤ ·)) : e = medianList l :=
  List.Perm.eq_of_pairwise (le := fun (a b : Int) => a ≤ b) (fun _ _ _ _ h1 h2 => Int.le_antisymm h1 h2)
    hs (medianList_sorted l) (hp.trans (medianList_perm l).symm)

theorem medianList_perm_invariant {l1 l2 : List (Int × Nat)} (h : l1.Perm l2) :
    medianList l1 = medianList l2 :=
  sorted_expansion_unique ((medianList_perm l1).trans (expandWeighted_perm h)) (medianList_sorted l1)

theorem weightedMedian_perm_invariant {l1 l2 : List (Int × Nat)} (h : l1.Perm l2) :
    weightedMedian l1 = weightedMedian l2 := by
  rw [weightedMedian_eq, weightedMedian_eq, medianList_perm_invariant h]

/-! ### Store keys `be8 nonce ++ hash` order records by nonce
    (copies of three byte-order lemmas of Lemmas/Pool under this namespace) -/

theorem bytesLt_cons (a b : Nat) (as bs : Bytes) :
    bytesLt (a :: as) (b :: bs) = if a < b then true else if b < a then false else bytesLt as bs := by
  rw [bytesLt]

theorem bytesLt_append_eqlen : ∀ (x y a b : Bytes), x.length = y.length →
    bytesLt (x ++ a) (y ++ b) =
      (if bytesLt x y then true else if bytesLt y x then false else bytesLt a b)
  | [], [], a, b, _ => by simp [bytesLt]
  | [], _ :: _, _, _, h => by simp at h
  | _ :: _, [], _, _, h => by simp at h
  | x :: xs, y :: ys, a, b, h => by
    have hl : xs.length = ys.length := by simpa using h
    show bytesLt (x :: (xs ++ a)) (y :: (ys ++ b)) = _
    rw [bytesLt_cons, bytesLt_cons, bytesLt_cons]
    by_cases hxy : x < y
    · simp [hxy]
    · by_cases hyx : y < x
      · simp [hxy, hyx]
      · simp only [hxy, hyx, if_false]
        exact bytesLt_append_eqlen xs ys a b hl

theorem bytesLt_beBytes : ∀ (w n m : Nat), n < 256 ^ w → m < 256 ^ w →
    bytesLt (beBytes w n) (beBytes w m) = decide (n < m)
  | 0, n, m, hn, hm => by
    have : n = 0 := by simpa using hn
    have : m = 0 := by simpa using hm
    subst_vars; rfl
  | w + 1, n, m, hn, hm => by
    have hn' : n / 256 < 256 ^ w := by
      rw [Nat.pow_succ] at hn; exact Nat.div_lt_of_lt_mul (by rw [Nat.mul_comm]; exact hn)
    have hm' : m / 256 < 256 ^ w := by
      rw [Nat.pow_succ] at hm; exact Nat.div_lt_of_lt_mul (by rw [Nat.mul_comm]; exact hm)
    unfold beBytes
    rw [bytesLt_append_eqlen _ _ _ _ (by simp [Enc.beBytes_length]),
      bytesLt_beBytes w _ _ hn' hm', bytesLt_beBytes w _ _ hm' hn']
    by_cases h1 : n / 256 < m / 256
    · have : n < m := by omega
      simp [h1, this]
    · by_cases h2 : m / 256 < n / 256
      · have : ¬ n < m := by omega
        simp [h1, h2, this]
      · simp only [h1, h2, decide_false]
        rw [bytesLt_cons]
        by_cases h3 : n % 256 < m % 256
        · have : n < m := by omega
          simp [h3, this]
        · have : ¬ n < m := by omega
          by_cases h4 : m % 256 < n % 256 <;> simp [h3, h4, this, bytesLt]

/-- Records with `uint64` nonces stored in key order are in non-decreasing nonce order. -/
theorem recKey_lt_nonce_le {a b : VoteRec} (ha : a.nonce < 2 ^ 64) (hb : b.nonce < 2 ^ 64)
    (h : bytesLt (recKey a) (recKey b) = true) : a.nonce ≤ b.nonce := by
  unfold recKey be8 at h
  rw [bytesLt_append_eqlen _ _ _ _ (by simp [Enc.beBytes_length]),
    bytesLt_beBytes 8 _ _ (by simpa using ha) (by simpa using hb),
    bytesLt_beBytes 8 _ _ (by simpa using hb) (by simpa using ha)] at h
  by_cases h1 : a.nonce < b.nonce
  · omega
  · by_cases h2 : b.nonce < a.nonce
    · simp [h1, h2] at h
    · omega

theorem records_sorted_by_nonce {l : List VoteRec}
    (hs : l.Pairwise (fun a b => bytesLt (recKey a) (recKey b) = true))
    (hb : ∀ r ∈ l, r.nonce < 2 ^ 64) : l.Pairwise (fun a b => a.nonce ≤ b.nonce) := by
  induction l with
  | nil => exact List.Pairwise.nil
  | cons x t ih =>
    obtain ⟨hx, ht⟩ := List.pairwise_cons.mp hs
    refine List.pairwise_cons.mpr ⟨?_, ih ht (fun r hr => hb r (List.mem_cons_of_mem _ hr))⟩
    intro y hy
    exact recKey_lt_nonce_le (hb x List.mem_cons_self) (hb y (List.mem_cons_of_mem _ hy)) (hx y hy)

end Mhub2.Det
