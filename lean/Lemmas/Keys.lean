/-
  Helper lemmas for the key registry, confirmations and signer sets (C17, C16, C09):

  * `KFrame`: the delegate-key maps, the stored confirmations, the stored signer sets and the
    latest signer-set nonce of every chain are untouched — proved for every keeper function that is
    not `setDelegateKeys`, `confirm`, `createSignerSet(Txs)` or `pruneSignerSets`, and lifted to
    the whole `apply`;
  * the registry invariant `RegInv` and what `alSet` does to it;
  * `insertByKey` on a store with pairwise distinct keys, prefix lemmas for store indices;
  * insertion sort (`isort`) is a sorted permutation; `signerLt` is a strict weak order;
  * `powerDiffNum` of a list against a permutation of itself.
-/
import Mhub2.Step
import Lemmas.Votes
namespace Mhub2

/-! ### Frame: what only the key / confirmation / signer-set functions can touch -/

/-- The part of a chain's state the three claims of this file are about. -/
def keyView (c : ChainSt) :
    List (String × String) × List (String × String) × List (String × String) × List SigRec ×
      List SignerSet × Nat :=
  (c.valExt, c.orchVal, c.extOrch, c.sigs, c.sets, c.latestSetNonce)

/-- `KFrame h h'`: every chain's `keyView` is the same in `h'` as in `h`. -/
def KFrame (h h' : Hub) : Prop := ∀ ch, keyView (h'.chain ch) = keyView (h.chain ch)

theorem KFrame.refl (h : Hub) : KFrame h h := fun _ => rfl

theorem KFrame.trans {h1 h2 h3 : Hub} (a : KFrame h1 h2) (b : KFrame h2 h3) : KFrame h1 h3 :=
  fun ch => (b ch).trans (a ch)

theorem KFrame.of_cs {h h' : Hub} (hcs : h'.cs = h.cs) : KFrame h h' :=
  fun ch => by simp [Hub.chain, hcs]

theorem KFrame.setChain (h : Hub) (ch : String) {c' : ChainSt}
    (hv : keyView c' = keyView (h.chain ch)) : KFrame h (h.setChain ch c') := by
  intro ch2
  by_cases e : ch = ch2
  · subst e; rw [chain_setChain]; exact hv
  · rw [chain_setChain_ne _ _ e]

theorem KFrame.valExt {h h' : Hub} (f : KFrame h h') (ch : String) :
    (h'.chain ch).valExt = (h.chain ch).valExt := congrArg (·.1) (f ch)
theorem KFrame.orchVal {h h' : Hub} (f : KFrame h h') (ch : String) :
    (h'.chain ch).orchVal = (h.chain ch).orchVal := congrArg (·.2.1) (f ch)
theorem KFrame.extOrch {h h' : Hub} (f : KFrame h h') (ch : String) :
    (h'.chain ch).extOrch = (h.chain ch).extOrch := congrArg (·.2.2.1) (f ch)
theorem KFrame.sigs {h h' : Hub} (f : KFrame h h') (ch : String) :
    (h'.chain ch).sigs = (h.chain ch).sigs := congrArg (·.2.2.2.1) (f ch)
theorem KFrame.sets {h h' : Hub} (f : KFrame h h') (ch : String) :
    (h'.chain ch).sets = (h.chain ch).sets := congrArg (·.2.2.2.2.1) (f ch)
theorem KFrame.latestSetNonce {h h' : Hub} (f : KFrame h h') (ch : String) :
    (h'.chain ch).latestSetNonce = (h.chain ch).latestSetNonce := congrArg (·.2.2.2.2.2) (f ch)

/-- `KFr h0 m`: if the computation `m` succeeds, its result is in frame with `h0`. -/
def KFr (h0 : Hub) (m : M Hub) : Prop := ∀ h', m = .ok h' → KFrame h0 h'

theorem KFr_ok {h0 h : Hub} (hf : KFrame h0 h) : KFr h0 (.ok h) := by
  intro h' e; injection e with e; subst e; exact hf
theorem KFr_pure {h0 h : Hub} (hf : KFrame h0 h) : KFr h0 (pure h) := KFr_ok hf
theorem KFr_error {h0 : Hub} (e : Err) : KFr h0 (.error e) := by intro h' e; cases e
theorem KFr_failM {h0 : Hub} (m : String) : KFr h0 (failM m) := KFr_error _
theorem KFr_panicM {h0 : Hub} (m : String) : KFr h0 (panicM m) := KFr_error _

theorem KFr_trans {h0 h1 : Hub} {m : M Hub} (hf : KFrame h0 h1) (hm : KFr h1 m) : KFr h0 m :=
  fun h' e => hf.trans (hm h' e)

theorem KFr_bind {α : Type} {h0 : Hub} {m : M α} {f : α → M Hub}
    (hf : ∀ a, m = .ok a → KFr h0 (f a)) : KFr h0 (m >>= f) := by
  intro h' e
  cases hm : m with
  | error x => rw [hm] at e; cases e
  | ok a => rw [hm] at e; exact hf a hm h' e

theorem KFr_bindH {h0 : Hub} {m : M Hub} {f : Hub → M Hub}
    (hm : KFr h0 m) (hf : ∀ h1, KFrame h0 h1 → KFr h0 (f h1)) : KFr h0 (m >>= f) :=
  KFr_bind fun a ha => hf a (hm a ha)

theorem KFr_ite {h0 : Hub} {c : Prop} [Decidable c] {a b : M Hub} (ha : KFr h0 a) (hb : KFr h0 b) :
    KFr h0 (if c then a else b) := by
  split
  · exact ha
  · exact hb

theorem KFr_foldlM {α : Type} {h0 : Hub} {f : Hub → α → M Hub}
    (hf : ∀ h1 x, KFrame h0 h1 → KFr h0 (f h1 x)) (l : List α) {h : Hub} (hh : KFrame h0 h) :
    KFr h0 (l.foldlM f h) := by
  induction l generalizing h with
  | nil => exact KFr_pure hh
  | cons x xs ih =>
    rw [List.foldlM_cons]
    exact KFr_bindH (hf h x hh) fun h1 h1f => ih h1f

theorem KFrame.foldl {α : Type} {h0 : Hub} {f : Hub → α → Hub}
    (hf : ∀ h1 x, KFrame h1 (f h1 x)) (l : List α) {h : Hub} (hh : KFrame h0 h) :
    KFrame h0 (l.foldl f h) := by
  induction l generalizing h with
  | nil => exact hh
  | cons x xs ih => exact ih (hh.trans (hf h x))

theorem mintTo_KFr (h : Hub) (acc d : String) (amt : Int) : KFr h (h.mintTo acc d amt) := by
  unfold Hub.mintTo
  split
  · exact KFr_failM _
  · exact KFr_ok (KFrame.of_cs rfl)

theorem burnFrom_KFr (h : Hub) (acc d : String) (amt : Int) : KFr h (h.burnFrom acc d amt) := by
  unfold Hub.burnFrom
  split
  · exact KFr_failM _
  · split
    · exact KFr_failM _
    · exact KFr_ok (KFrame.of_cs rfl)

theorem setStatus_kframe (h : Hub) (tx : String) (st : Nat) (o : String) : KFrame h (h.setStatus tx st o) :=
  KFrame.of_cs rfl

theorem createSte_kframe {h h' : Hub} {chain sender rcp denom tx rc ra : String} {amount fee comm : Int}
    {id : Nat} (hok : h.createSte chain sender rcp denom amount fee comm tx rc ra = .ok (h', id)) :
    KFrame h h' := by
  unfold Hub.createSte at hok
  simp only [bind, Except.bind] at hok
  split at hok
  · split at hok
    · simp at hok
    · rename_i v hv
      simp [pure, Except.pure] at hok
      rw [← hok.1]
      exact (burnFrom_KFr _ _ _ _ v hv).trans (KFrame.setChain _ _ rfl)
  · simp [failM] at hok

theorem createSte_match_KFr {h0 h : Hub} (hf : KFrame h0 h)
    (chain sender rcp denom tx rc ra : String) (amount fee comm : Int) :
    KFr h0 (match h.createSte chain sender rcp denom amount fee comm tx rc ra with
      | .ok (h, _) => pure h
      | .error (.fail m) => panicM m
      | .error e => .error e : M Hub) := by
  split
  · rename_i h2 _ heq
    exact KFr_pure (hf.trans (createSte_kframe heq))
  · exact KFr_panicM _
  · exact KFr_error _

theorem handleSendToHub_KFr (h : Hub) (chain coin : String) (amount : Int) (receiver tx : String) :
    KFr h (h.handleSendToHub chain coin amount receiver tx) := by
  unfold Hub.handleSendToHub
  split
  · simp only [bind, Except.bind]
    split
    · exact KFr_panicM _
    · split
      · exact KFr_failM _
      · split
        · exact KFr_error _
        · rename_i v hv
          exact KFr_pure ((mintTo_KFr _ _ _ _ v hv).trans (setStatus_kframe _ _ _ _))
  · exact KFr_failM _

theorem cancelBatch_KFr (h : Hub) (chain extToken : String) (nonce : Nat) :
    KFr h (h.cancelBatch chain extToken nonce) := by
  unfold Hub.cancelBatch
  split
  · exact KFr_panicM _
  · split
    · exact KFr_panicM _
    · exact KFr_ok (KFrame.setChain _ _ rfl)

theorem KFr_jp {h0 : Hub} {c : Prop} [Decidable c] {e : Err} (J : Unit → M Hub)
    (hJ : ∀ u, KFr h0 (J u)) : KFr h0 (if c then (Except.error e : M Unit) >>= J else J ()) :=
  KFr_ite (fun _ e => by cases e) (hJ ())

theorem batchExecuted_KFr (h : Hub) (chain extToken : String) (nonce : Nat) (txHash : String)
    (feePaid : Int) (feePayer : String) :
    KFr h (h.batchExecuted chain extToken nonce txHash feePaid feePayer) := by
  unfold Hub.batchExecuted
  split
  · rename_i b _
    refine KFr_bindH ?_ ?_
    · refine KFr_ite ?_ (KFr_pure (KFrame.refl _))
      exact KFr_foldlM (fun h1 x hf => KFr_trans hf (cancelBatch_KFr _ _ _ _)) _ (KFrame.refl _)
    · intro h1 f1
      extract_lets +onlyGivenNames c h2
      have f2 : KFrame h h2 := f1.trans (KFrame.setChain _ _ rfl)
      split
      · rename_i tok _
        extract_lets +onlyGivenNames h3 totalComm totalFee
        have f3 : KFrame h h3 := by
          show KFrame h (List.foldl _ _ _)
          refine KFrame.foldl ?_ _ f2
          intro hx t
          exact KFrame.of_cs rfl
        refine KFr_bindH ?_ ?_
        · refine KFr_ite ?_ (KFr_pure f3)
          refine KFr_bind ?_
          intro valset _
          extract_lets +onlyGivenNames totalPower
          refine KFr_bindH (KFr_trans f3 (mintTo_KFr _ _ _ _)) ?_
          intro h4 f4
          refine KFr_foldlM ?_ _ f4
          intro h5 v f5
          refine KFr_jp _ ?_
          intro u
          extract_lets +onlyGivenNames amount
          exact KFr_ite (KFr_pure f5) (createSte_match_KFr f5 _ _ _ _ _ _ _ _ _ _)
        · intro h4 f4
          refine KFr_ite (KFr_pure f4) ?_
          refine KFr_bind ?_
          intro base _
          split
          · split
            · split
              · rename_i pTok _
                refine KFr_jp _ ?_
                intro u
                extract_lets +onlyGivenNames amount
                refine KFr_jp _ ?_
                intro u
                extract_lets +onlyGivenNames fee
                refine KFr_ite (KFr_pure f4) ?_
                refine KFr_bindH (KFr_trans f4 (mintTo_KFr _ _ _ _)) ?_
                intro h5 f5
                refine KFr_bindH (createSte_match_KFr f5 _ _ _ _ _ _ _ _ _ _) ?_
                intro h6 f6
                extract_lets +onlyGivenNames feeLeft
                refine KFr_ite (KFr_pure f6) ?_
                refine KFr_bindH (KFr_trans f6 (mintTo_KFr _ _ _ _)) ?_
                intro h7 f7
                extract_lets +onlyGivenNames n
                refine KFr_jp _ ?_
                intro u
                extract_lets +onlyGivenNames avg conv good
                refine KFr_foldlM ?_ _ f7
                intro h8 t f8
                extract_lets +onlyGivenNames cf
                refine KFr_ite (KFr_pure f8) ?_
                refine KFr_jp _ ?_
                intro u
                extract_lets +onlyGivenNames toRefund
                refine KFr_ite (KFr_pure f8) ?_
                refine KFr_ite (KFr_pure f8) ?_
                refine KFr_bindH (createSte_match_KFr f8 _ _ _ _ _ _ _ _ _ _) ?_
                intro h9 f9
                split
                · exact KFr_panicM _
                · exact KFr_pure (f9.trans (KFrame.of_cs rfl))
              · exact KFr_panicM _
            · exact KFr_panicM _
          · exact KFr_pure f4
      · exact KFr_panicM _
  · exact KFr_pure (KFrame.refl _)

theorem handle_KFr (h : Hub) (mf : Bool) (chain : String) (ev : Event) : KFr h (h.handle mf chain ev) := by
  cases ev with
  | sendToHub n coin amount sender receiver height txHash =>
    exact handleSendToHub_KFr _ _ _ _ _ _
  | transfer n coin amount fee sender rchain receiver height txHash =>
    rw [Hub.handle.eq_2]
    refine KFr_jp _ ?_
    intro u
    refine KFr_ite ?_ ?_
    · extract_lets +onlyGivenNames acc
      refine KFr_jp _ ?_
      intro u
      exact handleSendToHub_KFr _ _ _ _ _ _
    · refine KFr_bindH (handleSendToHub_KFr _ _ _ _ _ _) ?_
      intro h1 f1
      split
      · split
        · extract_lets +onlyGivenNames cAmount cFee rate comm
          refine KFr_jp _ ?_
          intro u
          refine KFr_jp _ ?_
          intro u
          refine KFr_jp _ ?_
          intro u
          refine KFr_jp _ ?_
          intro u
          extract_lets +onlyGivenNames a1
          refine KFr_jp _ ?_
          intro u
          extract_lets +onlyGivenNames a2
          refine KFr_bind ?_
          intro x hx
          obtain ⟨h2, id⟩ := x
          exact KFr_pure (f1.trans (createSte_kframe hx))
        · exact KFr_failM _
      · exact KFr_failM _
  | batchExecuted coin n bn height txHash feePaid feePayer =>
    exact batchExecuted_KFr _ _ _ _ _ _ _
  | contractCall n scope inv height => exact KFr_ok (KFrame.refl _)
  | signerSet n sn height members txHash =>
    exact KFr_ok (KFrame.setChain _ _ rfl)

/-! ### Frame for the remaining keeper functions -/

theorem tryRecord_KFr (h : Hub) (mf : Bool) (chain : String) (r : VoteRec) :
    KFr h (h.tryRecord mf chain r) := by
  unfold Hub.tryRecord
  refine KFr_jp _ ?_
  intro u
  refine KFr_ite (KFr_pure (KFrame.refl _)) ?_
  extract_lets +onlyGivenNames h1
  have f1 : KFrame h h1 := KFrame.setChain _ _ rfl
  split
  · rename_i h' heq
    exact KFr_pure (f1.trans (handle_KFr _ _ _ _ _ heq))
  · exact KFr_pure f1

theorem tally_KFr (h : Hub) (mf : Bool) (chain : String) : KFr h (h.tally mf chain) := by
  unfold Hub.tally
  exact KFr_foldlM (fun h1 r hf => KFr_trans hf (tryRecord_KFr _ _ _ _)) _ (KFrame.refl _)

theorem cancelSte_kframe (h : Hub) (chain : String) (id : Nat) (sender : String) :
    KFrame h (h.cancelSte chain id sender).1 := by
  unfold Hub.cancelSte
  extract_lets +onlyGivenNames c
  split
  · exact KFrame.refl _
  · rename_i s _
    split
    · exact KFrame.refl _
    · extract_lets +onlyGivenNames denom total
      split
      · exact KFrame.refl _
      · extract_lets +onlyGivenNames hMint finish
        have fM : KFrame h hMint := by
          show KFrame h (if _ then _ else _)
          split
          · exact KFrame.refl _
          · exact KFrame.of_cs rfl
        have fF : ∀ h', KFrame h h' → KFrame h (finish h').1 := by
          intro h' f
          exact (f.trans (setStatus_kframe _ _ _ _)).trans (KFrame.setChain _ _ rfl)
        have fC : ∀ a, KFrame h (if (total == 0) = true then hMint else hMint.credit a denom total) := by
          intro a
          split
          · exact fM
          · exact fM.trans (KFrame.of_cs rfl)
        split
        · exact fF _ (fC _)
        · split
          · exact fF _ (fC _)
          · extract_lets +onlyGivenNames h1
            have f1 : KFrame h h1 := fC _
            split
            · exact f1
            · rename_i h2 _ heq
              exact fF _ (f1.trans (createSte_kframe heq))

theorem refundExpired_KFr (h : Hub) (chain : String) : KFr h (h.refundExpired chain) := by
  unfold Hub.refundExpired
  refine KFr_foldlM ?_ _ (KFrame.refl _)
  intro h1 s hf
  refine KFr_ite ?_ (KFr_pure hf)
  have := cancelSte_kframe h1 chain s.id s.sender
  split
  · rename_i h' heq
    rw [heq] at this
    exact KFr_pure (hf.trans this)
  · rename_i h' _ heq
    rw [heq] at this
    exact KFr_pure (hf.trans this)
  · exact KFr_error _

theorem endBlock_KFr (h : Hub) (mf : Bool) : KFr h (h.endBlock mf) := by
  unfold Hub.endBlock
  refine KFr_foldlM ?_ _ (KFrame.refl _)
  intro h1 chain hf
  exact KFr_bindH (KFr_trans hf (tally_KFr _ _ _)) fun h2 f2 => KFr_trans f2 (refundExpired_KFr _ _)

theorem cleanupTimedOutBatches_KFr (h : Hub) (chain : String) : KFr h (h.cleanupTimedOutBatches chain) := by
  unfold Hub.cleanupTimedOutBatches
  refine KFr_foldlM ?_ _ (KFrame.refl _)
  intro h1 b hf
  exact KFr_ite (KFr_trans hf (cancelBatch_KFr _ _ _ _)) (KFr_pure hf)

theorem buildBatch_kframe (h : Hub) (chain extToken : String) (maxN : Nat) :
    KFrame h (h.buildBatch chain extToken maxN).1 := by
  unfold Hub.buildBatch
  extract_lets +onlyGivenNames c sel
  split
  · exact KFrame.refl _
  · extract_lets +onlyGivenNames pool' h1
    have f1 : KFrame h h1 := by
      show KFrame h (List.foldl _ _ _)
      exact KFrame.foldl (fun hx s => setStatus_kframe _ _ _ _) _ (KFrame.refl _)
    have e : h1.cs = h.cs := by
      show (List.foldl (fun (h : Hub) (s : Ste) => h.setStatus s.txHash stBatchCreated "") h sel).cs = h.cs
      generalize h = hh
      induction sel generalizing hh with
      | nil => rfl
      | cons x xs ih => simp only [List.foldl_cons]; rw [ih]; rfl
    intro ch2
    show keyView ((h1.setChain chain _).chain ch2) = _
    by_cases e2 : chain = ch2
    · subst e2; rw [chain_setChain]; rfl
    · rw [chain_setChain_ne _ _ e2]; simp [Hub.chain, e]

theorem createBatches_kframe (h : Hub) (chain : String) : KFrame h (h.createBatches chain) := by
  unfold Hub.createBatches
  split
  · exact KFrame.foldl (fun hx id => buildBatch_kframe _ _ _ _) _ (KFrame.refl _)
  · exact KFrame.refl _

theorem sendToExternal_kframe {h h' : Hub} {sender chain rcp denom tx : String} {amount fee : Int} {id : Nat}
    (hok : h.sendToExternal sender chain rcp denom amount fee tx = .ok (h', id)) : KFrame h h' := by
  unfold Hub.sendToExternal at hok
  simp only [bind, Except.bind] at hok
  split at hok <;> try (cases hok; done)
  split at hok <;> try (cases hok; done)
  split at hok <;> try (cases hok; done)
  split at hok
  · split at hok <;> try (cases hok; done)
    split at hok <;> try (cases hok; done)
    exact createSte_kframe hok
  · cases hok

theorem cancelMsg_KFr (h : Hub) (sender chain : String) (id : Nat) : KFr h (h.cancelMsg sender chain id) := by
  unfold Hub.cancelMsg
  split
  · exact KFr_failM _
  · split
    · exact KFr_failM _
    · have := cancelSte_kframe h chain id sender
      split
      · rename_i h' heq
        rw [heq] at this
        exact KFr_ok this
      · exact KFr_error _

theorem requestBatch_kframe {h h' : Hub} {chain denom : String} {ob : Option Batch}
    (hok : h.requestBatch chain denom = .ok (h', ob)) : KFrame h h' := by
  unfold Hub.requestBatch at hok
  split at hok
  · simp [failM] at hok
  · split at hok
    · simp [failM] at hok
    · injection hok with hok
      have := buildBatch_kframe h chain (by assumption : TokenInfo).extId 100
      rw [hok] at this
      exact this

theorem submitEvent_KFr (h : Hub) (chain signer : String) (ev : Event) :
    KFr h (h.submitEvent chain signer ev) := by
  unfold Hub.submitEvent
  refine KFr_jp _ ?_
  intro u
  refine KFr_bind ?_
  intro v _
  refine KFr_bind ?_
  intro c hc
  obtain ⟨_, hc'⟩ := recordVote_ok hc
  subst hc'
  exact KFr_pure (KFrame.setChain _ _ rfl)

/-! ### What the key, confirmation and signer-set functions do -/

def ConfKind.nonce : ConfKind → Nat
  | .set n => n
  | .batch _ n => n

theorem jp_ok {α : Type} {c : Prop} [Decidable c] {e : Err} {J : Unit → M α} {a : α}
    (h : (if c then (Except.error e : M Unit) >>= J else J ()) = .ok a) : ¬ c ∧ J () = .ok a := by
  split at h
  · cases h
  · exact ⟨by assumption, h⟩

theorem bind_ok {α β : Type} {m : M α} {f : α → M β} {b : β} (h : (m >>= f) = .ok b) :
    ∃ a, m = .ok a ∧ f a = .ok b := by
  cases hm : m with
  | error x => rw [hm] at h; cases h
  | ok a => rw [hm] at h; exact ⟨a, rfl, h⟩

theorem confirm_ok {h h' : Hub} {chain signer ext sig : String} {k : ConfKind}
    (hok : h.confirm chain signer k ext sig = .ok h') :
    k.nonce ≠ 0 ∧ h.hasChain chain = true ∧
    ∃ v, h.signerValidator chain signer = .ok v ∧ h.outgoingExists chain k = true ∧
      alGet (h.chain chain).valExt v = some ext ∧ ext ≠ zeroEth ∧
      (∀ r ∈ (h.chain chain).sigs, sigKey r ≠ k.index chain ++ hexToBytes v) ∧
      h' = h.setChain chain { h.chain chain with
        sigs := insertByKey sigKey ⟨k.index chain, v, sig⟩ (h.chain chain).sigs } := by
  unfold Hub.confirm at hok
  extract_lets +onlyGivenNames n at hok
  have hkn : n = k.nonce := by cases k <;> rfl
  clear_value n
  subst hkn
  obtain ⟨hn, hok⟩ := jp_ok hok
  obtain ⟨hc, hok⟩ := jp_ok hok
  obtain ⟨v, hv, hok⟩ := bind_ok hok
  obtain ⟨ho, hok⟩ := jp_ok hok
  obtain ⟨hz, hok⟩ := jp_ok hok
  obtain ⟨he, hok⟩ := jp_ok hok
  obtain ⟨hd, hok⟩ := jp_ok hok
  injection hok with hok
  have he' : (alGet (h.chain chain).valExt v).getD zeroEth = ext := by simpa using he
  refine ⟨by simpa using hn, by simpa using hc, v, hv, by simpa using ho, ?_, ?_, ?_, hok.symm⟩
  · cases hg : alGet (h.chain chain).valExt v with
    | none => rw [hg] at hz; simp at hz
    | some e => rw [hg] at he'; simpa using he'
  · rw [he'] at hz
    simpa using hz
  · intro r hr e
    exact hd (List.any_eq_true.mpr ⟨r, hr, by rw [beq_iff_eq]; exact e⟩)

theorem setDelegateKeys_ok {h h' : Hub} {chain val orch eth signedBy signedVal : String}
    {signedNonce accSeq : Nat}
    (hok : h.setDelegateKeys chain val orch eth signedBy signedVal signedNonce accSeq = .ok h') :
    (h.validator? val).isSome = true ∧
    (∀ p ∈ (h.chain chain).valExt, p.2 ≠ eth) ∧
    (∀ p ∈ (h.chain chain).extOrch, p.2 ≠ orch) ∧
    signedBy = eth ∧ signedVal = val ∧ signedNonce = (if accSeq > 0 then accSeq - 1 else 0) ∧
    h' = h.setChain chain { h.chain chain with
      orchVal := alSet (h.chain chain).orchVal orch val,
      valExt := alSet (h.chain chain).valExt val eth,
      extOrch := alSet (h.chain chain).extOrch eth orch } := by
  unfold Hub.setDelegateKeys at hok
  simp only [bind, Except.bind, pure, Except.pure] at hok
  generalize (if accSeq > 0 then accSeq - 1 else 0) = nonce at hok ⊢
  split at hok
  · cases hok
  · rename_i hv
    split at hok
    · cases hok
    · rename_i he
      split at hok
      · cases hok
      · rename_i ho
        split at hok
        · cases hok
        · rename_i hs
          injection hok with hok
          simp at hv hs
          refine ⟨by simpa [Option.isSome_iff_ne_none] using hv, ?_, ?_, hs.1.1, hs.1.2, hs.2, hok.symm⟩
          · intro p hp e
            exact he (List.any_eq_true.mpr ⟨p, hp, by simp [e]⟩)
          · intro p hp e
            exact ho (List.any_eq_true.mpr ⟨p, hp, by simp [e]⟩)

/-- Conversely, a request that satisfies the conditions succeeds. -/
theorem setDelegateKeys_of {h : Hub} {chain val orch eth : String} {accSeq : Nat}
    (hv : (h.validator? val).isSome = true)
    (he : ∀ p ∈ (h.chain chain).valExt, p.2 ≠ eth)
    (ho : ∀ p ∈ (h.chain chain).extOrch, p.2 ≠ orch) :
    h.setDelegateKeys chain val orch eth eth val (if accSeq > 0 then accSeq - 1 else 0) accSeq =
      .ok (h.setChain chain { h.chain chain with
        orchVal := alSet (h.chain chain).orchVal orch val,
        valExt := alSet (h.chain chain).valExt val eth,
        extOrch := alSet (h.chain chain).extOrch eth orch }) := by
  unfold Hub.setDelegateKeys
  have h1 : (h.validator? val).isNone = false := by
    cases hh : h.validator? val with
    | none => rw [hh] at hv; cases hv
    | some x => rfl
  have h2 : ((h.chain chain).valExt.any fun p => p.2 == eth) = false := by
    rw [List.any_eq_false]; intro p hp; simpa using he p hp
  have h3 : ((h.chain chain).extOrch.any fun p => p.2 == orch) = false := by
    rw [List.any_eq_false]; intro p hp; simpa using ho p hp
  simp [h1, h2, h3, pure, Except.pure]

theorem createSignerSet_ok {h h' : Hub} {chain : String} (hok : h.createSignerSet chain = .ok h') :
    ∃ cur, h.currentSigners chain = .ok cur ∧
      h' = h.setChain chain { h.chain chain with
        latestSetNonce := (h.chain chain).latestSetNonce + 1,
        outSeq := (h.chain chain).outSeq + 1,
        sets := insertByKey setKey
          { nonce := (h.chain chain).latestSetNonce + 1, height := h.height,
            seq := (h.chain chain).outSeq + 1, signers := sortSigners cur } (h.chain chain).sets } := by
  unfold Hub.createSignerSet at hok
  obtain ⟨cur, hc, hok⟩ := bind_ok hok
  injection hok with hok
  exact ⟨cur, hc, hok.symm⟩

/-- `createSignerSetTxs` either leaves the state alone or is `createSignerSet`. -/
theorem createSignerSetTxs_ok {h h' : Hub} {chain : String} (hok : h.createSignerSetTxs chain = .ok h') :
    (h.latestSignerSet chain = none ∧ h.createSignerSet chain = .ok h') ∨
    (∃ latest cur, h.latestSignerSet chain = some latest ∧ h.currentSigners chain = .ok cur ∧
      ((20 * powerDiffNum cur latest.signers > maxU32 ∧ h.createSignerSet chain = .ok h') ∨
       (20 * powerDiffNum cur latest.signers ≤ maxU32 ∧ h' = h))) := by
  unfold Hub.createSignerSetTxs at hok
  split at hok
  · rename_i hl
    exact Or.inl ⟨hl, hok⟩
  · rename_i latest hl
    obtain ⟨cur, hc, hok⟩ := bind_ok hok
    refine Or.inr ⟨latest, cur, hl, hc, ?_⟩
    split at hok
    · rename_i hgt
      exact Or.inl ⟨hgt, hok⟩
    · rename_i hgt
      injection hok with hok
      exact Or.inr ⟨by omega, hok.symm⟩

/-! ### Weaker frames for the signer-set functions -/

/-- Stored signer sets never carry a nonce above the chain's latest signer-set nonce. -/
def SetsInv (c : ChainSt) : Prop := ∀ s ∈ c.sets, s.nonce ≤ c.latestSetNonce

/-- The delegate-key maps and confirmations of a chain. -/
def key4 (c : ChainSt) :
    List (String × String) × List (String × String) × List (String × String) × List SigRec :=
  (c.valExt, c.orchVal, c.extOrch, c.sigs)

/-- `BFrame h h'`: delegate keys and confirmations untouched, `SetsInv` kept, per chain. -/
def BFrame (h h' : Hub) : Prop :=
  ∀ ch, key4 (h'.chain ch) = key4 (h.chain ch) ∧ (SetsInv (h.chain ch) → SetsInv (h'.chain ch))

theorem BFrame.refl (h : Hub) : BFrame h h := fun _ => ⟨rfl, id⟩

theorem BFrame.trans {h1 h2 h3 : Hub} (a : BFrame h1 h2) (b : BFrame h2 h3) : BFrame h1 h3 :=
  fun ch => ⟨(b ch).1.trans (a ch).1, fun i => (b ch).2 ((a ch).2 i)⟩

theorem KFrame.toB {h h' : Hub} (f : KFrame h h') : BFrame h h' := by
  intro ch
  refine ⟨?_, ?_⟩
  · simp only [key4, f.valExt, f.orchVal, f.extOrch, f.sigs]
  · intro i s hs
    rw [f.sets] at hs
    rw [f.latestSetNonce]
    exact i s hs

theorem BFrame.setChain (h : Hub) (ch : String) {c' : ChainSt}
    (hv : key4 c' = key4 (h.chain ch)) (hi : SetsInv (h.chain ch) → SetsInv c') :
    BFrame h (h.setChain ch c') := by
  intro ch2
  by_cases e : ch = ch2
  · subst e; rw [chain_setChain]; exact ⟨hv, hi⟩
  · rw [chain_setChain_ne _ _ e]; exact ⟨rfl, id⟩

theorem createSignerSet_setsInv {h h' : Hub} {chain : String} (hok : h.createSignerSet chain = .ok h')
    (hi : SetsInv (h.chain chain)) : SetsInv (h'.chain chain) := by
  obtain ⟨cur, _, e⟩ := createSignerSet_ok hok
  subst e
  rw [chain_setChain]
  intro s hs
  show s.nonce ≤ (h.chain chain).latestSetNonce + 1
  rcases mem_insertByKey_imp hs with e | hm
  · rw [e]; exact Nat.le_refl _
  · exact Nat.le_succ_of_le (hi s hm)

theorem createSignerSet_bframe {h h' : Hub} {chain : String} (hok : h.createSignerSet chain = .ok h') :
    BFrame h h' := by
  have hi := createSignerSet_setsInv hok
  obtain ⟨cur, _, e⟩ := createSignerSet_ok hok
  subst e
  refine BFrame.setChain _ _ rfl ?_
  intro i
  have := hi i
  rwa [chain_setChain] at this

theorem createSignerSetTxs_bframe {h h' : Hub} {chain : String} (hok : h.createSignerSetTxs chain = .ok h') :
    BFrame h h' := by
  rcases createSignerSetTxs_ok hok with ⟨_, h1⟩ | ⟨_, _, _, _, ⟨_, h1⟩ | ⟨_, h1⟩⟩
  · exact createSignerSet_bframe h1
  · exact createSignerSet_bframe h1
  · subst h1; exact BFrame.refl _

theorem pruneSignerSets_setsInv (h : Hub) (chain : String) (hi : SetsInv (h.chain chain)) :
    SetsInv ((h.pruneSignerSets chain).chain chain) := by
  unfold Hub.pruneSignerSets
  extract_lets +onlyGivenNames c
  split
  · exact hi
  · split
    · exact hi
    · rw [chain_setChain]
      intro s hs
      exact hi s (List.mem_filter.mp hs).1

theorem pruneSignerSets_bframe (h : Hub) (chain : String) : BFrame h (h.pruneSignerSets chain) := by
  have hi := pruneSignerSets_setsInv h chain
  unfold Hub.pruneSignerSets at hi ⊢
  extract_lets +onlyGivenNames c at hi ⊢
  split
  · exact BFrame.refl _
  · split
    · exact BFrame.refl _
    · rename_i obsNonce _ _ hh
      refine BFrame.setChain _ _ rfl ?_
      intro i s hs
      exact i s (List.mem_filter.mp hs).1

theorem beginBlock_bframe {h h' : Hub} (hok : h.beginBlock = .ok h') : BFrame h h' := by
  unfold Hub.beginBlock at hok
  have key : ∀ (l : List String) (h1 h2 : Hub),
      l.foldlM (fun (h : Hub) chain => do
        if chain == "hub" then return h
        let h ← (if chain != "minter" then h.cleanupTimedOutBatches chain else pure h)
        let h ← h.createSignerSetTxs chain
        let h := h.createBatches chain
        return h.pruneSignerSets chain) h1 = .ok h2 → BFrame h1 h2 := by
    intro l
    induction l with
    | nil =>
      intro h1 h2 e
      injection e with e
      subst e; exact BFrame.refl _
    | cons chain rest ih =>
      intro h1 h2 e
      rw [List.foldlM_cons] at e
      obtain ⟨hm, hstep, e⟩ := bind_ok e
      refine BFrame.trans ?_ (ih _ _ e)
      split at hstep
      · injection hstep with hstep
        subst hstep; exact BFrame.refl _
      · obtain ⟨ha, hA, hstep⟩ := bind_ok hstep
        obtain ⟨hb, hB, hstep⟩ := bind_ok hstep
        injection hstep with hstep
        subst hstep
        have fa : KFrame h1 ha := by
          split at hA
          · exact cleanupTimedOutBatches_KFr _ _ _ hA
          · injection hA with hA
            subst hA; exact KFrame.refl _
        exact (fa.toB.trans (createSignerSetTxs_bframe hB)).trans
          ((createBatches_kframe _ _).toB.trans (pruneSignerSets_bframe _ _))
  exact key _ _ _ hok

/-! ### The frame over `apply` -/

/-- The operations that are not covered by `KFrame`. -/
def Op.isKeyOp : Op → Bool
  | .reset => true
  | .beginBlock => true
  | .confirm .. => true
  | .delegate .. => true
  | _ => false

theorem outM_fst_cases (r : M Hub) (old : Hub) (msg : String) :
    (∃ h', r = .ok h' ∧ outM r old msg = (h', msg)) ∨
    ((∀ h', r ≠ .ok h') ∧ (outM r old msg).1 = old ∧ (outM r old msg).2 ≠ "ok") := by
  cases r with
  | ok h' => exact Or.inl ⟨h', rfl, rfl⟩
  | error e =>
    refine Or.inr ⟨fun _ x => (nomatch x), ?_⟩
    cases e <;> exact ⟨rfl, by simp [outM]⟩

theorem outM_kframe {h : Hub} {r : M Hub} (hr : KFr h r) (msg : String) : KFrame h (outM r h msg).1 := by
  rcases outM_fst_cases r h msg with ⟨h', e, e2⟩ | ⟨_, e, _⟩
  · rw [e2]; exact hr h' e
  · rw [e]; exact KFrame.refl _

theorem apply_kframe (h : Hub) (op : Op) (hop : op.isKeyOp = false) : KFrame h (apply h op).1 := by
  cases op with
  | reset => cases hop
  | beginBlock => cases hop
  | confirm => cases hop
  | delegate => cases hop
  | init => exact KFrame.refl _
  | chains cs => exact KFrame.of_cs rfl
  | token t => exact KFrame.of_cs rfl
  | param name n =>
    simp only [apply]
    split
    · exact KFrame.of_cs rfl
    · exact KFrame.refl _
  | gravityId v => exact KFrame.of_cs rfl
  | price name x => exact KFrame.of_cs rfl
  | holder addr x => exact KFrame.of_cs rfl
  | staking vs => exact KFrame.of_cs rfl
  | fund acc denom a => exact outM_kframe (mintTo_KFr _ _ _ _) _
  | block ht t => exact KFrame.of_cs rfl
  | endBlock => exact outM_kframe (endBlock_KFr _ _) _
  | send sender chain recipient denom a f tx =>
    simp only [apply]
    split
    · rename_i h' id heq
      exact sendToExternal_kframe heq
    · exact KFrame.refl _
    · exact KFrame.refl _
  | cancel sender chain i => exact outM_kframe (cancelMsg_KFr _ _ _ _) _
  | reqBatch chain denom =>
    simp only [apply]
    split
    · rename_i h' b heq
      exact requestBatch_kframe heq
    · rename_i h' heq
      exact requestBatch_kframe heq
    · exact KFrame.refl _
    · exact KFrame.refl _
  | vote chain signer e =>
    simp only [apply]
    split
    · exact outM_kframe (submitEvent_KFr _ _ _ _) _
    · exact KFrame.refl _
  | hashOf e => exact KFrame.refl _
  | qConfs chain k => exact KFrame.refl _
  | qUnsignedSets chain signer =>
    simp only [apply]
    split <;> exact KFrame.refl _
  | qUnsignedBatches chain signer =>
    simp only [apply]
    split <;> exact KFrame.refl _
  | qLastNonce chain signer =>
    simp only [apply]
    split <;> exact KFrame.refl _
  | dump what => exact KFrame.refl _
  | oprice => exact KFrame.refl _
  | oholders => exact KFrame.refl _
  | oend => exact KFrame.refl _
  | nop => exact KFrame.refl _
  | bad => exact KFrame.refl _

theorem initialHub_chain_k (ch : String) : initialHub.chain ch = {} := rfl

/-- The three delegate-key maps of a chain. -/
def key3 (c : ChainSt) : List (String × String) × List (String × String) × List (String × String) :=
  (c.valExt, c.orchVal, c.extOrch)

theorem KFrame.key3 {h h' : Hub} (f : KFrame h h') (ch : String) :
    key3 (h'.chain ch) = key3 (h.chain ch) := by
  simp only [Mhub2.key3, f.valExt, f.orchVal, f.extOrch]

theorem BFrame.key3 {h h' : Hub} (f : BFrame h h') (ch : String) :
    key3 (h'.chain ch) = key3 (h.chain ch) := by
  have := (f ch).1
  simp only [key4, Prod.mk.injEq] at this
  simp only [Mhub2.key3, this.1, this.2.1, this.2.2.1]

theorem BFrame.sigs {h h' : Hub} (f : BFrame h h') (ch : String) :
    (h'.chain ch).sigs = (h.chain ch).sigs := by
  have := (f ch).1
  simp only [key4, Prod.mk.injEq] at this
  exact this.2.2.2

theorem apply_beginBlock_bframe (h : Hub) : BFrame h (apply h .beginBlock).1 := by
  show BFrame h (outM h.beginBlock h).1
  rcases outM_fst_cases h.beginBlock h "ok" with ⟨h', e, e2⟩ | ⟨_, e, _⟩
  · rw [e2]; exact beginBlock_bframe e
  · rw [e]; exact BFrame.refl _

/-- Only a successful `delegate` (or `reset`) changes a delegate-key map. -/
theorem apply_key3 (h : Hub) (op : Op) :
    (∀ ch, key3 ((apply h op).1.chain ch) = key3 (h.chain ch)) ∨ op = .reset ∨
    ∃ chain val orch eth sb sv n s h', op = .delegate chain val orch eth sb sv n s ∧
      h.setDelegateKeys chain val orch eth sb sv n s = .ok h' ∧ apply h op = (h', "ok") := by
  by_cases hop : op.isKeyOp = false
  · exact Or.inl (apply_kframe h op hop).key3
  · cases op with
    | reset => exact Or.inr (Or.inl rfl)
    | beginBlock => exact Or.inl (apply_beginBlock_bframe h).key3
    | confirm chain signer k ext sig =>
      left
      show ∀ ch, key3 ((outM (h.confirm chain signer k ext sig) h).1.chain ch) = _
      rcases outM_fst_cases (h.confirm chain signer k ext sig) h "ok" with ⟨h', e, e2⟩ | ⟨_, e, _⟩
      · rw [e2]
        obtain ⟨_, _, v, _, _, _, _, _, e3⟩ := confirm_ok e
        subst e3
        intro ch
        by_cases hc : chain = ch
        · subst hc; rw [chain_setChain]; rfl
        · rw [chain_setChain_ne _ _ hc]
      · rw [e]; intro ch; rfl
    | delegate chain val orch eth sb sv n s =>
      rcases outM_fst_cases (h.setDelegateKeys chain val orch eth sb sv n s) h "ok" with ⟨h', e, e2⟩ | ⟨_, e, _⟩
      · exact Or.inr (Or.inr ⟨chain, val, orch, eth, sb, sv, n, s, h', rfl, e, e2⟩)
      · left
        show ∀ ch, key3 ((outM (h.setDelegateKeys chain val orch eth sb sv n s) h).1.chain ch) = _
        rw [e]; intro ch; rfl
    | _ => exact absurd rfl hop

/-- Only a successful `confirm` (or `reset`) changes the stored confirmations. -/
theorem apply_sigs (h : Hub) (op : Op) :
    (∀ ch, ((apply h op).1.chain ch).sigs = (h.chain ch).sigs) ∨ op = .reset ∨
    ∃ chain signer k ext sig h', op = .confirm chain signer k ext sig ∧
      h.confirm chain signer k ext sig = .ok h' ∧ apply h op = (h', "ok") := by
  by_cases hop : op.isKeyOp = false
  · exact Or.inl (apply_kframe h op hop).sigs
  · cases op with
    | reset => exact Or.inr (Or.inl rfl)
    | beginBlock => exact Or.inl (apply_beginBlock_bframe h).sigs
    | delegate chain val orch eth sb sv n s =>
      left
      show ∀ ch, ((outM (h.setDelegateKeys chain val orch eth sb sv n s) h).1.chain ch).sigs = _
      rcases outM_fst_cases (h.setDelegateKeys chain val orch eth sb sv n s) h "ok" with ⟨h', e, e2⟩ | ⟨_, e, _⟩
      · rw [e2]
        obtain ⟨_, _, _, _, _, _, e3⟩ := setDelegateKeys_ok e
        subst e3
        intro ch
        by_cases hc : chain = ch
        · subst hc; rw [chain_setChain]
        · rw [chain_setChain_ne _ _ hc]
      · rw [e]; intro ch; rfl
    | confirm chain signer k ext sig =>
      rcases outM_fst_cases (h.confirm chain signer k ext sig) h "ok" with ⟨h', e, e2⟩ | ⟨_, e, _⟩
      · exact Or.inr (Or.inr ⟨chain, signer, k, ext, sig, h', rfl, e, e2⟩)
      · left
        show ∀ ch, ((outM (h.confirm chain signer k ext sig) h).1.chain ch).sigs = _
        rw [e]; intro ch; rfl
    | _ => exact absurd rfl hop

theorem setsInv_init : SetsInv {} := by intro s hs; cases hs

/-- `SetsInv` holds in every chain of every state `apply` can reach. -/
theorem apply_setsInv (h : Hub) (op : Op) (hi : ∀ ch, SetsInv (h.chain ch)) :
    ∀ ch, SetsInv ((apply h op).1.chain ch) := by
  by_cases hop : op.isKeyOp = false
  · intro ch; exact ((apply_kframe h op hop).toB ch).2 (hi ch)
  · cases op with
    | reset => intro ch; exact setsInv_init
    | beginBlock => intro ch; exact ((apply_beginBlock_bframe h) ch).2 (hi ch)
    | delegate chain val orch eth sb sv n s =>
      show ∀ ch, SetsInv ((outM (h.setDelegateKeys chain val orch eth sb sv n s) h).1.chain ch)
      rcases outM_fst_cases (h.setDelegateKeys chain val orch eth sb sv n s) h "ok" with ⟨h', e, e2⟩ | ⟨_, e, _⟩
      · rw [e2]
        obtain ⟨_, _, _, _, _, _, e3⟩ := setDelegateKeys_ok e
        subst e3
        intro ch
        by_cases hc : chain = ch
        · subst hc; rw [chain_setChain]; exact hi chain
        · rw [chain_setChain_ne _ _ hc]; exact hi ch
      · rw [e]; exact hi
    | confirm chain signer k ext sig =>
      show ∀ ch, SetsInv ((outM (h.confirm chain signer k ext sig) h).1.chain ch)
      rcases outM_fst_cases (h.confirm chain signer k ext sig) h "ok" with ⟨h', e, e2⟩ | ⟨_, e, _⟩
      · rw [e2]
        obtain ⟨_, _, v, _, _, _, _, _, e3⟩ := confirm_ok e
        subst e3
        intro ch
        by_cases hc : chain = ch
        · subst hc; rw [chain_setChain]; exact hi chain
        · rw [chain_setChain_ne _ _ hc]; exact hi ch
      · rw [e]; exact hi
    | _ => exact absurd rfl hop

theorem runOps_snoc (ops : List Op) (op : Op) : runOps (ops ++ [op]) = (apply (runOps ops) op).1 := by
  simp [runOps, List.foldl_append]

/-- Induction over histories. -/
theorem runOps_induction {P : Hub → Prop} (h0 : P initialHub) (hstep : ∀ h op, P h → P (apply h op).1)
    (ops : List Op) : P (runOps ops) := by
  unfold runOps
  generalize initialHub = h at h0
  induction ops generalizing h with
  | nil => exact h0
  | cons op ops ih => exact ih _ (hstep _ _ h0)

theorem setsInv_reachable (ops : List Op) : ∀ ch, SetsInv ((runOps ops).chain ch) :=
  runOps_induction (P := fun h => ∀ ch, SetsInv (h.chain ch)) (fun _ => setsInv_init)
    (fun h op hi => apply_setsInv h op hi) ops

/-! ### Association lists -/

section Assoc
variable {κ ν : Type} [BEq κ] [LawfulBEq κ]

theorem alGet_mem_k {l : List (κ × ν)} {k : κ} {v : ν} (h : alGet l k = some v) : (k, v) ∈ l := by
  induction l with
  | nil => simp [alGet] at h
  | cons p t ih =>
    obtain ⟨k', v'⟩ := p
    unfold alGet at h
    split at h
    · rename_i hk
      have hk' : k' = k := by simpa using hk
      injection h with h
      subst hk' h
      exact List.mem_cons_self
    · exact List.mem_cons_of_mem _ (ih h)

theorem alSet_keys_mem {l : List (κ × ν)} {k : κ} {v : ν} {x : κ}
    (h : x ∈ (alSet l k v).map (·.1)) : x = k ∨ x ∈ l.map (·.1) := by
  induction l with
  | nil => simp [alSet] at h; exact Or.inl h
  | cons p t ih =>
    obtain ⟨k', v'⟩ := p
    unfold alSet at h
    split at h
    · rename_i hk
      have hk' : k' = k := by simpa using hk
      simp only [List.map_cons, List.mem_cons] at h ⊢
      rcases h with h | h
      · exact Or.inl h
      · exact Or.inr (Or.inr h)
    · simp only [List.map_cons, List.mem_cons] at h ⊢
      rcases h with h | h
      · exact Or.inr (Or.inl h)
      · rcases ih h with h | h
        · exact Or.inl h
        · exact Or.inr (Or.inr h)

/-- `alSet` keeps the keys of an association list pairwise distinct. -/
theorem alSet_nodup_keys {l : List (κ × ν)} (k : κ) (v : ν) (h : (l.map (·.1)).Nodup) :
    ((alSet l k v).map (·.1)).Nodup := by
  induction l with
  | nil => simp [alSet]
  | cons p t ih =>
    obtain ⟨k', v'⟩ := p
    simp only [List.map_cons, List.nodup_cons] at h
    unfold alSet
    split
    · rename_i hk
      have hk' : k' = k := by simpa using hk
      subst hk'
      simp only [List.map_cons, List.nodup_cons]
      exact h
    · rename_i hk
      have hk' : k' ≠ k := by simpa using hk
      simp only [List.map_cons, List.nodup_cons]
      refine ⟨?_, ih h.2⟩
      intro hm
      rcases alSet_keys_mem hm with e | hm
      · exact hk' e
      · exact h.1 hm

/-- With pairwise distinct keys, every entry of the list is what `alGet` returns for its key. -/
theorem alGet_of_mem {l : List (κ × ν)} (hn : (l.map (·.1)).Nodup) {k : κ} {v : ν} (h : (k, v) ∈ l) :
    alGet l k = some v := by
  induction l with
  | nil => cases h
  | cons p t ih =>
    obtain ⟨k', v'⟩ := p
    simp only [List.map_cons, List.nodup_cons] at hn
    unfold alGet
    rcases List.mem_cons.mp h with e | hm
    · injection e with e1 e2
      subst e1 e2
      simp
    · have hne : k' ≠ k := by
        intro e; subst e
        exact hn.1 (List.mem_map.mpr ⟨(k', v), hm, rfl⟩)
      have : (k' == k) = false := by simpa using hne
      simp only [this]
      exact ih hn.2 hm

/-- `alSet` of a value not yet stored keeps "no two keys share a value". -/
theorem alSet_values_inj {l : List (κ × ν)} {k : κ} {v : ν}
    (hinj : ∀ k1 k2 x, alGet l k1 = some x → alGet l k2 = some x → k1 = k2)
    (hfresh : ∀ k', alGet l k' ≠ some v) :
    ∀ k1 k2 x, alGet (alSet l k v) k1 = some x → alGet (alSet l k v) k2 = some x → k1 = k2 := by
  intro k1 k2 x h1 h2
  by_cases e1 : k = k1 <;> by_cases e2 : k = k2
  · rw [← e1, ← e2]
  · subst e1
    rw [alGet_alSet_same] at h1
    rw [alGet_alSet_other _ _ _ _ e2] at h2
    injection h1 with h1
    subst h1
    exact absurd h2 (hfresh k2)
  · subst e2
    rw [alGet_alSet_same] at h2
    rw [alGet_alSet_other _ _ _ _ e1] at h1
    injection h2 with h2
    subst h2
    exact absurd h1 (hfresh k1)
  · rw [alGet_alSet_other _ _ _ _ e1] at h1
    rw [alGet_alSet_other _ _ _ _ e2] at h2
    exact hinj k1 k2 x h1 h2

end Assoc

/-! ### The registry invariant -/

/-- Invariant of the delegate-key registry of one chain. -/
structure RegInv (c : ChainSt) : Prop where
  /-- an external address is bound to at most one validator -/
  ext_inj : ∀ v1 v2 e, alGet c.valExt v1 = some e → alGet c.valExt v2 = some e → v1 = v2
  /-- an orchestrator is the orchestrator of at most one external address -/
  orch_inj : ∀ e1 e2 o, alGet c.extOrch e1 = some o → alGet c.extOrch e2 = some o → e1 = e2
  /-- the three maps agree on every current binding -/
  consistent : ∀ v e, alGet c.valExt v = some e →
    ∃ o, alGet c.extOrch e = some o ∧ alGet c.orchVal o = some v
  keys_valExt : (c.valExt.map (·.1)).Nodup
  keys_orchVal : (c.orchVal.map (·.1)).Nodup
  keys_extOrch : (c.extOrch.map (·.1)).Nodup

theorem RegInv.init : RegInv {} :=
  ⟨by simp [alGet], by simp [alGet], by simp [alGet], List.nodup_nil, List.nodup_nil, List.nodup_nil⟩

theorem RegInv.congr {c c' : ChainSt} (e : key3 c' = key3 c) (hi : RegInv c) : RegInv c' := by
  simp only [key3, Prod.mk.injEq] at e
  obtain ⟨e1, e2, e3⟩ := e
  exact ⟨by rw [e1]; exact hi.ext_inj, by rw [e3]; exact hi.orch_inj,
    by rw [e1, e2, e3]; exact hi.consistent, by rw [e1]; exact hi.keys_valExt,
    by rw [e2]; exact hi.keys_orchVal, by rw [e3]; exact hi.keys_extOrch⟩

/-- Registering `(val, eth, orch)` with `eth` and `orch` not in use keeps the invariant. -/
theorem RegInv.register {c : ChainSt} (hi : RegInv c) (val orch eth : String)
    (he : ∀ p ∈ c.valExt, p.2 ≠ eth) (ho : ∀ p ∈ c.extOrch, p.2 ≠ orch) :
    RegInv { c with orchVal := alSet c.orchVal orch val, valExt := alSet c.valExt val eth,
                    extOrch := alSet c.extOrch eth orch } := by
  have he' : ∀ v, alGet c.valExt v ≠ some eth := fun v hv => he _ (alGet_mem_k hv) rfl
  have ho' : ∀ e, alGet c.extOrch e ≠ some orch := fun e hv => ho _ (alGet_mem_k hv) rfl
  refine ⟨alSet_values_inj hi.ext_inj he', alSet_values_inj hi.orch_inj ho', ?_,
    alSet_nodup_keys _ _ hi.keys_valExt, alSet_nodup_keys _ _ hi.keys_orchVal,
    alSet_nodup_keys _ _ hi.keys_extOrch⟩
  intro v e hv
  simp only at hv ⊢
  by_cases ev : val = v
  · subst ev
    rw [alGet_alSet_same] at hv
    injection hv with hv
    subst hv
    exact ⟨orch, alGet_alSet_same _ _ _, alGet_alSet_same _ _ _⟩
  · rw [alGet_alSet_other _ _ _ _ ev] at hv
    obtain ⟨o, h1, h2⟩ := hi.consistent v e hv
    have ee : eth ≠ e := fun x => he' v (x ▸ hv)
    have eo : orch ≠ o := fun x => ho' e (x ▸ h1)
    exact ⟨o, by rw [alGet_alSet_other _ _ _ _ ee]; exact h1, by rw [alGet_alSet_other _ _ _ _ eo]; exact h2⟩

/-! ### `insertByKey` under a fresh key, stores with pairwise distinct keys -/

/-- Inserting under a key that is not in the store adds the entry and keeps every other one —
    whether or not the store is sorted. -/
theorem insertByKey_perm_fresh {α : Type} {key : α → Bytes} {x : α} {l : List α}
    (hf : ∀ y ∈ l, key y ≠ key x) : (insertByKey key x l).Perm (x :: l) := by
  induction l with
  | nil => exact List.Perm.refl _
  | cons z zs ih =>
    unfold insertByKey
    split
    · exact List.Perm.refl _
    · split
      · exact ((ih fun y hy => hf y (List.mem_cons_of_mem _ hy)).cons z).trans (List.Perm.swap x z zs)
      · rename_i h1 h2
        have hk : key x = key z := bytesLt_total (by simpa using h1) (by simpa using h2)
        exact absurd hk.symm (hf z List.mem_cons_self)

/-- The keys of the store are pairwise distinct. -/
def DistinctKeys {α : Type} (key : α → Bytes) (l : List α) : Prop :=
  l.Pairwise (fun a b => key a ≠ key b)

theorem SortedBy.keysDistinct {α : Type} {key : α → Bytes} {l : List α} (h : SortedBy key l) :
    DistinctKeys key l :=
  List.Pairwise.imp (fun hab => bytesLt_ne hab) h

theorem DistinctKeys.insert_fresh {α : Type} {key : α → Bytes} {x : α} {l : List α}
    (hd : DistinctKeys key l) (hf : ∀ y ∈ l, key y ≠ key x) : DistinctKeys key (insertByKey key x l) := by
  unfold DistinctKeys
  rw [(insertByKey_perm_fresh hf).pairwise_iff (fun hab => Ne.symm hab)]
  exact List.pairwise_cons.mpr ⟨fun y hy => (hf y hy).symm, hd⟩

theorem DistinctKeys.inj {α : Type} {key : α → Bytes} {l : List α} (hd : DistinctKeys key l)
    {a b : α} (ha : a ∈ l) (hb : b ∈ l) (hk : key a = key b) : a = b := by
  induction l with
  | nil => cases ha
  | cons z zs ih =>
    obtain ⟨hz, hzs⟩ := List.pairwise_cons.mp hd
    rcases List.mem_cons.mp ha with ha' | ha' <;> rcases List.mem_cons.mp hb with hb' | hb'
    · rw [ha', hb']
    · subst ha'; exact absurd hk (hz b hb')
    · subst hb'; exact absurd hk.symm (hz a ha')
    · exact ih hzs ha' hb'

/-! ### Prefixes -/

theorem isPrefix_iff {p l : Bytes} : isPrefix p l = true ↔ ∃ s, l = p ++ s := by
  induction p generalizing l with
  | nil => simp [isPrefix]
  | cons a as ih =>
    cases l with
    | nil => simp [isPrefix]
    | cons b bs =>
      simp only [isPrefix, Bool.and_eq_true, beq_iff_eq, ih, List.cons_append, List.cons.injEq]
      constructor
      · rintro ⟨e, s, hs⟩; exact ⟨s, e.symm, hs⟩
      · rintro ⟨s, e, hs⟩; exact ⟨e.symm, s, hs⟩

theorem isPrefix_append_self (p s : Bytes) : isPrefix p (p ++ s) = true := isPrefix_iff.mpr ⟨s, rfl⟩

/-- A prefix of the same length as the head part is that head part. -/
theorem isPrefix_append_same_length {p q s : Bytes} (hl : p.length = q.length) :
    isPrefix p (q ++ s) = true ↔ p = q := by
  rw [isPrefix_iff]
  constructor
  · rintro ⟨s', e⟩
    exact ((List.append_inj e hl.symm).1).symm
  · intro e; subst e; exact ⟨s, rfl⟩

theorem drop_append_length (p s : Bytes) : (p ++ s).drop p.length = s := by
  simp

theorem be8_length_k (n : Nat) : (be8 n).length = 8 := beBytes_length 8 n

theorem setIndex_length (chain : String) (n n' : Nat) :
    (setIndex chain n).length = (setIndex chain n').length := by
  simp [setIndex, be8_length_k]

/-- A signer-set index is a prefix of a key that starts with a signer-set index of the same chain
    only if the two indices are equal. -/
theorem setIndex_prefix_iff (chain : String) (n n' : Nat) (s : Bytes) :
    isPrefix (setIndex chain n) (setIndex chain n' ++ s) = true ↔ setIndex chain n = setIndex chain n' :=
  isPrefix_append_same_length (setIndex_length chain n n')

theorem setIndex_inj {chain : String} {n n' : Nat} (hn : n < 2 ^ 64) (hn' : n' < 2 ^ 64)
    (h : setIndex chain n = setIndex chain n') : n = n' := by
  unfold setIndex at h
  exact be8_inj hn hn' (List.append_cancel_left h)

/-- Signer-set and batch keys never collide: their first byte differs. -/
theorem setIndex_not_prefix_batch (chain t : String) (n n' : Nat) (s : Bytes) :
    isPrefix (setIndex chain n) (batchIndex chain t n' ++ s) = false := by
  simp [setIndex, batchIndex, isPrefix]

theorem batchIndex_not_prefix_set (chain t : String) (n n' : Nat) (s : Bytes) :
    isPrefix (batchIndex chain t n) (setIndex chain n' ++ s) = false := by
  simp [setIndex, batchIndex, isPrefix]

theorem setIndex_ne_batchIndex (chain t : String) (n n' : Nat) : setIndex chain n ≠ batchIndex chain t n' := by
  simp [setIndex, batchIndex]

/-- Batch indices of token ids of the same byte length: prefix only if equal. -/
theorem batchIndex_prefix_same_length {chain t t' : String} {n n' : Nat} (s : Bytes)
    (hl : (strBytes t).length = (strBytes t').length) :
    isPrefix (batchIndex chain t n) (batchIndex chain t' n' ++ s) = true ↔
      batchIndex chain t n = batchIndex chain t' n' :=
  isPrefix_append_same_length (by simp [batchIndex, be8_length_k, hl])

theorem byteArray_toList_loop_k (bs : ByteArray) : ∀ (k i : Nat) (r : List UInt8), bs.size - i = k →
    ByteArray.toList.loop bs i r = r.reverse ++ bs.data.toList.drop i := by
  intro k
  induction k with
  | zero =>
    intro i r hk
    unfold ByteArray.toList.loop
    have : ¬ i < bs.size := by omega
    simp only [this, if_false]
    have hs : bs.data.toList.length ≤ i := by
      have : bs.size = bs.data.toList.length := Array.length_toList.symm
      omega
    rw [List.drop_eq_nil_of_le hs]; simp
  | succ k ih =>
    intro i r hk
    unfold ByteArray.toList.loop
    have hi : i < bs.size := by omega
    simp only [hi, if_true]
    rw [ih (i + 1) _ (by omega)]
    have hlen : i < bs.data.toList.length := by
      have : bs.size = bs.data.toList.length := Array.length_toList.symm
      omega
    rw [List.drop_eq_getElem_cons hlen]
    have : bs.get! i = bs.data.toList[i] := by
      show bs.data[i]! = _
      rw [getElem!_pos bs.data i hi, Array.getElem_toList]
    rw [this]; simp

theorem byteArray_toList_k (bs : ByteArray) : bs.toList = bs.data.toList := by
  unfold ByteArray.toList
  rw [byteArray_toList_loop_k bs _ 0 [] rfl]; simp

theorem strBytes_inj_k {a b : String} (h : strBytes a = strBytes b) : a = b := by
  unfold strBytes at h
  have h1 : a.toUTF8.toList = b.toUTF8.toList :=
    (List.map_inj_right (fun x y hxy => UInt8.toNat_inj.mp hxy)).mp h
  rw [byteArray_toList_k, byteArray_toList_k] at h1
  have h2 : a.toUTF8 = b.toUTF8 := ByteArray.ext (Array.ext' h1)
  exact String.toByteArray_inj.mp h2

/-! ### Insertion sort -/

theorem insSorted_perm_k {α : Type} (lt : α → α → Bool) (x : α) (l : List α) :
    (insSorted lt x l).Perm (x :: l) := by
  induction l with
  | nil => exact List.Perm.refl _
  | cons y ys ih =>
    unfold insSorted
    split
    · exact List.Perm.refl _
    · exact (ih.cons y).trans (List.Perm.swap x y ys)

theorem isort_perm_k {α : Type} (lt : α → α → Bool) (l : List α) : (isort lt l).Perm l := by
  induction l with
  | nil => exact List.Perm.refl _
  | cons x xs ih =>
    show (insSorted lt x (isort lt xs)).Perm (x :: xs)
    exact (insSorted_perm_k lt x _).trans (ih.cons x)

theorem mem_isort_k {α : Type} (lt : α → α → Bool) (l : List α) (x : α) : x ∈ isort lt l ↔ x ∈ l :=
  (isort_perm_k lt l).mem_iff

/-- `isort lt` produces a list in which no later element is `lt` an earlier one, provided `lt` is
    asymmetric and "not greater" is transitive (a strict weak order). -/
theorem isort_sorted_k {α : Type} (lt : α → α → Bool)
    (hasym : ∀ a b, lt a b = true → lt b a = false)
    (htrans : ∀ a b c, lt b a = false → lt c b = false → lt c a = false) (l : List α) :
    (isort lt l).Pairwise (fun a b => lt b a = false) := by
  have hins : ∀ (x : α) (l : List α), l.Pairwise (fun a b => lt b a = false) →
      (insSorted lt x l).Pairwise (fun a b => lt b a = false) := by
    intro x l
    induction l with
    | nil => intro _; simp [insSorted]
    | cons y ys ih =>
      intro hs
      obtain ⟨hy, hys⟩ := List.pairwise_cons.mp hs
      unfold insSorted
      split
      · rename_i hxy
        refine List.pairwise_cons.mpr ⟨?_, hs⟩
        intro z hz
        have hyx : lt y x = false := hasym x y hxy
        rcases List.mem_cons.mp hz with e | hz
        · rw [e]; exact hyx
        · exact htrans x y z hyx (hy z hz)
      · rename_i hxy
        have hxy' : lt x y = false := by simpa using hxy
        refine List.pairwise_cons.mpr ⟨?_, ih hys⟩
        intro z hz
        rcases List.mem_cons.mp ((insSorted_perm_k lt x ys).mem_iff.mp hz) with e | hz
        · rw [e]; exact hxy'
        · exact hy z hz
  induction l with
  | nil => exact List.Pairwise.nil
  | cons x xs ih => exact hins x _ ih

/-! ### `signerLt` is a strict weak order -/

theorem bytesLt_asymm_k {a b : Bytes} (h : bytesLt a b = true) : bytesLt b a = false := by
  cases hb : bytesLt b a with
  | false => rfl
  | true => have := bytesLt_trans h hb; rw [bytesLt_irrefl] at this; cases this

theorem bytesLe_trans {a b c : Bytes} (h1 : bytesLt b a = false) (h2 : bytesLt c b = false) :
    bytesLt c a = false := by
  cases hca : bytesLt c a with
  | false => rfl
  | true =>
    cases hab : bytesLt a b with
    | true => have := bytesLt_trans hca hab; rw [this] at h2; cases h2
    | false =>
      have : a = b := bytesLt_total hab h1
      subst this
      rw [hca] at h2; cases h2

theorem signerLt_asymm (a b : Signer) (h : signerLt a b = true) : signerLt b a = false := by
  unfold signerLt at h ⊢
  by_cases hp : a.power = b.power
  · have h1 : (a.power == b.power) = true := by simpa using hp
    have h2 : (b.power == a.power) = true := by simpa using hp.symm
    rw [if_pos h1] at h
    rw [if_pos h2]
    exact bytesLt_asymm_k h
  · have h1 : ¬ (a.power == b.power) = true := by simpa using hp
    have h2 : ¬ (b.power == a.power) = true := by simpa using (Ne.symm hp)
    rw [if_neg h1] at h
    rw [if_neg h2]
    simp only [gt_iff_lt, decide_eq_true_eq, decide_eq_false_iff_not] at h ⊢
    omega

/-- "`b` is not before `a`", spelled out. -/
theorem signerLt_false_iff (a b : Signer) :
    signerLt b a = false ↔
      a.power > b.power ∨ (a.power = b.power ∧ bytesLt (strBytes b.addr) (strBytes a.addr) = false) := by
  unfold signerLt
  by_cases hp : b.power = a.power
  · have h1 : (b.power == a.power) = true := by simpa using hp
    rw [if_pos h1]
    constructor
    · intro h; exact Or.inr ⟨hp.symm, h⟩
    · rintro (h | h)
      · omega
      · exact h.2
  · have h1 : ¬ (b.power == a.power) = true := by simpa using hp
    rw [if_neg h1]
    simp only [gt_iff_lt, decide_eq_false_iff_not]
    constructor
    · intro h; left; omega
    · rintro (h | h)
      · omega
      · exact absurd h.1.symm hp

theorem signerLt_le_trans (a b c : Signer) (h1 : signerLt b a = false) (h2 : signerLt c b = false) :
    signerLt c a = false := by
  rw [signerLt_false_iff] at h1 h2 ⊢
  rcases h1 with h1 | ⟨h1, h1'⟩ <;> rcases h2 with h2 | ⟨h2, h2'⟩
  · left; omega
  · left; omega
  · left; omega
  · right; exact ⟨by omega, bytesLe_trans h1' h2'⟩

theorem sortSigners_perm (l : List Signer) : (sortSigners l).Perm l := isort_perm_k _ l

theorem sortSigners_sorted (l : List Signer) :
    (sortSigners l).Pairwise (fun a b => signerLt b a = false) :=
  isort_sorted_k signerLt signerLt_asymm signerLt_le_trans l

/-! ### Stored confirmations -/

/-- Invariant of the confirmation store of `chain`: sorted by key (so keys are pairwise distinct)
    and every record sits under the store index of a signer set or batch of that chain. -/
structure SigsInv (chain : String) (l : List SigRec) : Prop where
  sorted : SortedBy sigKey l
  index : ∀ r ∈ l, ∃ k : ConfKind, k.nonce ≠ 0 ∧ r.index = k.index chain

theorem SigsInv.init (chain : String) : SigsInv chain [] := ⟨sortedBy_nil _, by simp⟩

theorem confirm_sigsInv {h h' : Hub} {chain signer ext sig : String} {k : ConfKind}
    (hok : h.confirm chain signer k ext sig = .ok h') (hi : SigsInv chain (h.chain chain).sigs) :
    SigsInv chain (h'.chain chain).sigs := by
  obtain ⟨hn, _, v, _, _, _, _, _, e⟩ := confirm_ok hok
  subst e
  rw [chain_setChain]
  refine ⟨sorted_insertByKey _ hi.sorted, ?_⟩
  intro r hr
  rcases mem_insertByKey_imp hr with e | hm
  · exact ⟨k, hn, by rw [e]⟩
  · exact hi.index r hm

theorem confirm_other_chain {h h' : Hub} {chain signer ext sig : String} {k : ConfKind}
    (hok : h.confirm chain signer k ext sig = .ok h') {ch : String} (hne : ch ≠ chain) :
    h'.chain ch = h.chain ch := by
  obtain ⟨_, _, v, _, _, _, _, _, e⟩ := confirm_ok hok
  subst e
  exact chain_setChain_ne _ _ (Ne.symm hne)

theorem apply_sigsInv (h : Hub) (op : Op) (hi : ∀ ch, SigsInv ch (h.chain ch).sigs) :
    ∀ ch, SigsInv ch ((apply h op).1.chain ch).sigs := by
  rcases apply_sigs h op with hk | hr | ⟨chain, signer, k, ext, sig, h', _, hok, e⟩
  · intro ch; rw [hk ch]; exact hi ch
  · subst hr; intro ch; exact SigsInv.init ch
  · rw [e]
    intro ch
    by_cases hc : ch = chain
    · subst hc; exact confirm_sigsInv hok (hi ch)
    · rw [confirm_other_chain hok hc]; exact hi ch

theorem sigsInv_reachable (ops : List Op) : ∀ ch, SigsInv ch ((runOps ops).chain ch).sigs :=
  runOps_induction (P := fun h => ∀ ch, SigsInv ch (h.chain ch).sigs) (fun ch => SigsInv.init ch)
    (fun h op hi => apply_sigsInv h op hi) ops

/-! ### The first byte of `be8` -/

theorem be8_head_zero {n : Nat} (hn : n < 2 ^ 56) : ∃ t, be8 n = 0 :: t := by
  have e : be8 n = (n / 256 / 256 / 256 / 256 / 256 / 256 / 256 % 256) ::
      [n / 256 / 256 / 256 / 256 / 256 / 256 % 256, n / 256 / 256 / 256 / 256 / 256 % 256,
       n / 256 / 256 / 256 / 256 % 256, n / 256 / 256 / 256 % 256, n / 256 / 256 % 256,
       n / 256 % 256, n % 256] := by
    simp [be8, beBytes]
  have h0 : n / 256 / 256 / 256 / 256 / 256 / 256 / 256 % 256 = 0 := by omega
  rw [h0] at e
  exact ⟨_, e⟩

theorem batchIndex_inj {chain t t' : String} {n n' : Nat} (hn : n < 2 ^ 64) (hn' : n' < 2 ^ 64)
    (hl : (strBytes t).length = (strBytes t').length)
    (h : batchIndex chain t n = batchIndex chain t' n') : t = t' ∧ n = n' := by
  unfold batchIndex at h
  simp only [List.append_assoc] at h
  have h1 := List.append_cancel_left (List.append_cancel_left h)
  obtain ⟨h2, h3⟩ := List.append_inj h1 hl
  exact ⟨strBytes_inj_k h2, be8_inj hn hn' h3⟩

/-- Batch indices are prefix-free against batch keys when token ids contain no zero byte and nonces
    are below 2^56 (the first byte of the big-endian nonce is then zero, which separates the token
    id from the nonce). -/
theorem batchIndex_prefix_free {chain t t' : String} {n n' : Nat} (s : Bytes)
    (ht : ∀ b ∈ strBytes t, b ≠ 0) (ht' : ∀ b ∈ strBytes t', b ≠ 0)
    (hn : n < 2 ^ 56) (hn' : n' < 2 ^ 56)
    (h : isPrefix (batchIndex chain t n) (batchIndex chain t' n' ++ s) = true) :
    t = t' ∧ n = n' := by
  obtain ⟨s', e⟩ := isPrefix_iff.mp h
  unfold batchIndex at e
  simp only [List.append_assoc] at e
  have e1 := List.append_cancel_left (List.append_cancel_left e)
  obtain ⟨z, hz⟩ := be8_head_zero hn
  obtain ⟨z', hz'⟩ := be8_head_zero hn'
  have hsame : strBytes t' = strBytes t := by
    rcases List.append_eq_append_iff.mp e1 with ⟨a', ha, hb⟩ | ⟨c', hc, hd⟩
    · -- t = t' ++ a'
      cases a' with
      | nil => simpa using ha.symm
      | cons y ys =>
        rw [hz'] at hb
        simp only [List.cons_append, List.cons.injEq] at hb
        have : y ∈ strBytes t := by rw [ha]; simp
        exact absurd hb.1.symm (ht y this)
    · cases c' with
      | nil => simpa using hc
      | cons y ys =>
        rw [hz] at hd
        simp only [List.cons_append, List.cons.injEq] at hd
        have : y ∈ strBytes t' := by rw [hc]; simp
        exact absurd hd.1.symm (ht' y this)
  rw [hsame] at e1
  have e2 := List.append_cancel_left e1
  have e3 := (List.append_inj e2 (by simp [be8_length_k])).1
  exact ⟨(strBytes_inj_k hsame).symm, (be8_inj (by omega) (by omega) e3).symm⟩

/-! ### Runs of confirmations -/

/-- A `MsgSubmitTxConfirmation`. -/
structure ConfMsg where
  chain : String
  signer : String
  k : ConfKind
  ext : String
  sig : String

/-- Deliver confirmations one after the other; a rejected one leaves the state unchanged. -/
def Hub.confirmMany (h : Hub) : List ConfMsg → Hub
  | [] => h
  | m :: ms =>
    Hub.confirmMany (match h.confirm m.chain m.signer m.k m.ext m.sig with
      | .ok h' => h'
      | .error _ => h) ms

/-- `confirm` does not change how signers resolve. -/
theorem confirm_signerValidator {h h' : Hub} {chain signer ext sig : String} {k : ConfKind}
    (hok : h.confirm chain signer k ext sig = .ok h') (ch s : String) :
    h'.signerValidator ch s = h.signerValidator ch s := by
  obtain ⟨_, _, v, _, _, _, _, _, e⟩ := confirm_ok hok
  subst e
  have ho : ∀ c', ((h.setChain chain c').chain ch).orchVal = (h.chain ch).orchVal →
      (h.setChain chain c').signerValidator ch s = h.signerValidator ch s := by
    intro c' e
    unfold Hub.signerValidator
    rw [e]
    rfl
  apply ho
  by_cases hc : chain = ch
  · subst hc; rw [chain_setChain]
  · rw [chain_setChain_ne _ _ hc]

/-! ### Sums of naturals -/

theorem foldl_add_nat_k (l : List Nat) (a : Nat) : l.foldl (· + ·) a = a + l.foldl (· + ·) 0 := by
  induction l generalizing a with
  | nil => simp
  | cons x xs ih =>
    simp only [List.foldl_cons]
    rw [ih (a + x), ih (0 + x)]; omega

theorem sumNats_nil_k : sumNats [] = 0 := rfl

theorem sumNats_cons_k (x : Nat) (l : List Nat) : sumNats (x :: l) = x + sumNats l := by
  unfold sumNats
  simp only [List.foldl_cons]
  rw [foldl_add_nat_k]; omega

theorem sumNats_zero_k {α : Type} (l : List α) (f : α → Nat) (h : ∀ x ∈ l, f x = 0) :
    sumNats (l.map f) = 0 := by
  induction l with
  | nil => rfl
  | cons x xs ih =>
    rw [List.map_cons, sumNats_cons_k, h x (by simp), ih (fun y hy => h y (List.mem_cons_of_mem _ hy))]

/-- Σ ⌊pᵢ·M / T⌋ · T ≤ (Σ pᵢ) · M. -/
theorem sum_floor_mul_le_nat (M T : Nat) (l : List Nat) :
    sumNats (l.map fun p => p * M / T) * T ≤ sumNats l * M := by
  induction l with
  | nil => simp [sumNats_nil_k]
  | cons p ps ih =>
    rw [List.map_cons, sumNats_cons_k, sumNats_cons_k, Nat.add_mul, Nat.add_mul]
    have := Nat.div_mul_le_self (p * M) T
    omega

/-- Σ ⌊pᵢ·M / Σp⌋ ≤ M. -/
theorem sum_floor_le_nat (M : Nat) (l : List Nat) (hT : 0 < sumNats l) :
    sumNats (l.map fun p => p * M / sumNats l) ≤ M := by
  have := sum_floor_mul_le_nat M (sumNats l) l
  rw [Nat.mul_comm (sumNats l) M] at this
  exact Nat.le_of_mul_le_mul_right this hT

/-! ### The current signer set -/

/-- The member a bonded validator contributes: its registered, non-zero external address with its
    raw staking power. -/
def regSigner (c : ChainSt) (v : Validator) : Option Signer :=
  match alGet c.valExt v.addr with
  | none => none
  | some e => if e == zeroEth then none else some (Signer.mk v.power e)

theorem regSigner_some {c : ChainSt} {v : Validator} {s : Signer} :
    regSigner c v = some s ↔
      alGet c.valExt v.addr = some s.addr ∧ s.addr ≠ zeroEth ∧ s.power = v.power := by
  unfold regSigner
  cases hg : alGet c.valExt v.addr with
  | none => simp
  | some e =>
    by_cases hz : e = zeroEth
    · subst hz
      simp only [beq_self_eq_true, if_true, Option.some.injEq]
      constructor
      · intro h; cases h
      · rintro ⟨h1, h2, _⟩; exact absurd h1.symm h2
    · have : (e == zeroEth) = false := by simpa using hz
      simp only [this, Bool.false_eq_true, if_false, Option.some.injEq]
      constructor
      · intro h; subst h; exact ⟨rfl, hz, rfl⟩
      · rintro ⟨h1, _, h3⟩
        cases s
        simp only at h1 h3
        subst h1 h3; rfl

/-- The members before normalisation. -/
def Hub.rawSigners (h : Hub) (chain : String) : List Signer :=
  h.bondedByPower.filterMap (regSigner (h.chain chain))

theorem currentSigners_eq (h : Hub) (chain : String) :
    h.currentSigners chain =
      (if (h.rawSigners chain).isEmpty then .ok []
       else if sumNats ((h.rawSigners chain).map (·.power)) == 0 then panicM "division by zero"
       else .ok ((h.rawSigners chain).map fun s =>
          { s with power := s.power * maxU32 / sumNats ((h.rawSigners chain).map (·.power)) })) := rfl

theorem currentSigners_ok {h : Hub} {chain : String} {l : List Signer}
    (hok : h.currentSigners chain = .ok l) :
    l = (h.rawSigners chain).map (fun s =>
          { s with power := s.power * maxU32 / sumNats ((h.rawSigners chain).map (·.power)) }) ∧
    (l ≠ [] → 0 < sumNats ((h.rawSigners chain).map (·.power))) := by
  rw [currentSigners_eq] at hok
  split at hok
  · rename_i he
    injection hok with hok
    have : h.rawSigners chain = [] := by simpa using he
    rw [this]
    exact ⟨hok.symm, fun hne => absurd hok.symm hne⟩
  · split at hok
    · cases hok
    · rename_i hz
      injection hok with hok
      refine ⟨hok.symm, fun _ => ?_⟩
      have : sumNats ((h.rawSigners chain).map (·.power)) ≠ 0 := by simpa using hz
      omega

/-- The current signers depend on the staking view and the chain's `valExt` only. -/
theorem currentSigners_congr {h h' : Hub} {chain : String} (hs : h'.staking = h.staking)
    (hv : (h'.chain chain).valExt = (h.chain chain).valExt) :
    h'.currentSigners chain = h.currentSigners chain := by
  rw [currentSigners_eq, currentSigners_eq]
  have : h'.rawSigners chain = h.rawSigners chain := by
    unfold Hub.rawSigners Hub.bondedByPower
    rw [hs]
    congr 1
    funext v
    unfold regSigner
    rw [hv]
  rw [this]

theorem bondedByPower_perm (h : Hub) : h.bondedByPower.Perm (h.staking.filter (·.bonded)) :=
  isort_perm_k _ _

/-! ### `powerDiffNum` against a permutation -/

theorem filter_addr_of_nodup {l : List Signer} (hn : (l.map (·.addr)).Nodup) (x : String) :
    l.filter (·.addr == x) = [] ∨ ∃ s, l.filter (·.addr == x) = [s] := by
  induction l with
  | nil => exact Or.inl rfl
  | cons s t ih =>
    simp only [List.map_cons, List.nodup_cons] at hn
    by_cases hs : s.addr = x
    · right
      refine ⟨s, ?_⟩
      have h1 : (s.addr == x) = true := by simpa using hs
      simp only [List.filter_cons, h1, if_true]
      congr 1
      rw [List.filter_eq_nil_iff]
      intro y hy hyx
      have : y.addr = x := by simpa using hyx
      exact hn.1 (List.mem_map.mpr ⟨y, hy, by rw [this, hs]⟩)
    · have h1 : (s.addr == x) = false := by simpa using hs
      simp only [List.filter_cons, h1, Bool.false_eq_true, if_false]
      exact ih hn.2

/-- The power difference between a member list with pairwise distinct addresses and any
    permutation of it is zero. -/
theorem powerDiffNum_perm_zero {a b : List Signer} (hp : b.Perm a) (hn : (a.map (·.addr)).Nodup) :
    powerDiffNum a b = 0 := by
  unfold powerDiffNum
  apply sumNats_zero_k
  intro x _
  have hf : (b.filter (·.addr == x)).Perm (a.filter (·.addr == x)) := hp.filter _
  rcases filter_addr_of_nodup hn x with h0 | ⟨s, h1⟩
  · rw [h0] at hf ⊢
    rw [List.perm_nil.mp hf]
    rfl
  · rw [h1] at hf ⊢
    rw [List.perm_singleton.mp hf]
    simp [sumNats_cons_k, sumNats_nil_k]

theorem find?_unique {α : Type} {p : α → Bool} {l : List α} {s : α} (hs : s ∈ l) (hp : p s = true)
    (hu : ∀ y ∈ l, p y = true → y = s) : l.find? p = some s := by
  cases hf : l.find? p with
  | none => have := List.find?_eq_none.mp hf s hs; rw [hp] at this; exact absurd rfl this
  | some y => rw [hu y (List.mem_of_find?_eq_some hf) (List.find?_some hf)]

/-! ### Member addresses are pairwise distinct -/

theorem filterMap_addr_nodup {c : ChainSt} (hi : RegInv c) {l : List Validator}
    (hn : (l.map (·.addr)).Nodup) : ((l.filterMap (regSigner c)).map (·.addr)).Nodup := by
  induction l with
  | nil => exact List.nodup_nil
  | cons v t ih =>
    simp only [List.map_cons, List.nodup_cons] at hn
    cases hf : regSigner c v with
    | none => rw [List.filterMap_cons_none hf]; exact ih hn.2
    | some s =>
      rw [List.filterMap_cons_some hf, List.map_cons, List.nodup_cons]
      refine ⟨?_, ih hn.2⟩
      intro hm
      obtain ⟨s', hs', he⟩ := List.mem_map.mp hm
      obtain ⟨v', hv', hf'⟩ := List.mem_filterMap.mp hs'
      have h1 := (regSigner_some.mp hf).1
      have h2 := (regSigner_some.mp hf').1
      rw [he] at h2
      have : v'.addr = v.addr := hi.ext_inj _ _ _ h2 h1
      exact hn.1 (List.mem_map.mpr ⟨v', hv', this⟩)

/-- With a one-to-one registry and validators listed once in the staking view, the members of the
    current signer set have pairwise distinct external addresses. -/
theorem currentSigners_addr_nodup {h : Hub} {chain : String} {l : List Signer}
    (hi : RegInv (h.chain chain)) (hs : (h.staking.map (·.addr)).Nodup)
    (hok : h.currentSigners chain = .ok l) : (l.map (·.addr)).Nodup := by
  rw [(currentSigners_ok hok).1, List.map_map]
  have hb : (h.bondedByPower.map (·.addr)).Nodup := by
    rw [((bondedByPower_perm h).map _).nodup_iff]
    exact List.Nodup.sublist (List.filter_sublist.map _) hs
  exact filterMap_addr_nodup hi hb

/-! ### The registry invariant over `apply` -/

theorem setDelegateKeys_regInv {h h' : Hub} {chain val orch eth signedBy signedVal : String}
    {signedNonce accSeq : Nat} (hi : RegInv (h.chain chain))
    (hok : h.setDelegateKeys chain val orch eth signedBy signedVal signedNonce accSeq = .ok h') :
    RegInv (h'.chain chain) ∧ ∀ ch, ch ≠ chain → key3 (h'.chain ch) = key3 (h.chain ch) := by
  obtain ⟨_, he, ho, _, _, _, e⟩ := setDelegateKeys_ok hok
  subst e
  refine ⟨?_, ?_⟩
  · rw [chain_setChain]
    exact hi.register val orch eth he ho
  · intro ch hne
    rw [chain_setChain_ne _ _ (Ne.symm hne)]

theorem apply_regInv (h : Hub) (op : Op) (hi : ∀ ch, RegInv (h.chain ch)) :
    ∀ ch, RegInv ((apply h op).1.chain ch) := by
  rcases apply_key3 h op with hk | hr | ⟨chain, val, orch, eth, sb, sv, n, s, h', _, hok, e⟩
  · intro ch; exact (hi ch).congr (hk ch)
  · subst hr; intro ch; exact RegInv.init
  · rw [e]
    intro ch
    obtain ⟨h1, h2⟩ := setDelegateKeys_regInv (hi chain) hok
    by_cases hc : ch = chain
    · subst hc; exact h1
    · exact (hi ch).congr (h2 ch hc)

theorem regInv_reachable (ops : List Op) : ∀ ch, RegInv ((runOps ops).chain ch) :=
  runOps_induction (P := fun h => ∀ ch, RegInv (h.chain ch)) (fun _ => RegInv.init)
    (fun h op hi => apply_regInv h op hi) ops

end Mhub2
