/-
  Helper lemmas for the connector's live loop `relayMinterEvents` (model: `Mhub2.relay`).

  `relay` is characterised completely: over the blocks of its window it moves the cursor exactly
  like the start-up scan without early return (`curAfter`), the claims it hands to the committer
  are the canonical numbering `blockClaims` of the bridge events of the window, and every status
  file it writes is a block-end cursor of the window.
-/
import Lemmas.Connector
namespace Mhub2

/-! ### Canonical numbering of the bridge events -/

/-- The claim a transaction gives rise to when the cursor stands at `c`. -/
def claimOf (c : Cursor) (height : Nat) : MTx → Option Claim
  | .send toM jsonOk valid => if toM && jsonOk && valid then some (.deposit c.nextEvent height) else none
  | .multisend fromM => if fromM then some (.batch c.nextEvent c.nextBatch height) else none
  | .editMultisig fromM (some n) => if fromM then some (.valset c.nextEvent n height) else none
  | _ => none

/-- Claims of the transactions of one block, numbered from `c`. -/
def txClaims (c : Cursor) (height : Nat) : List MTx → List Claim
  | [] => []
  | t :: ts => (claimOf c height t).toList ++ txClaims (stepCur c t) height ts

/-- Claims of whole blocks, numbered from `c`. -/
def blockClaims (c : Cursor) : List MBlock → List Claim
  | [] => []
  | b :: bs => txClaims c b.height b.txs ++ blockClaims (endCur c b) bs

/-- The blocks one round of the relay loop looks at. -/
def relayWindow (start : Cursor) (chain : List MBlock) (latest : Nat) : List MBlock :=
  chain.filter fun b => start.lastChecked < b.height && b.height ≤ relayLimit start latest

theorem claimOf_isSome (c : Cursor) (h : Nat) (tx : MTx) :
    (claimOf c h tx).isSome = countsInResync tx := by
  cases tx with
  | send a b d => cases a <;> cases b <;> cases d <;> rfl
  | multisend a => cases a <;> rfl
  | editMultisig a p => cases a <;> cases p <;> rfl
  | other => rfl

theorem claimOf_nonce {c : Cursor} {h : Nat} {tx : MTx} {cl : Claim} (hc : claimOf c h tx = some cl) :
    cl.nonce = c.nextEvent ∧ cl.height = h := by
  cases tx with
  | send a b d =>
    simp only [claimOf] at hc; split at hc
    · cases hc; exact ⟨rfl, rfl⟩
    · cases hc
  | multisend a =>
    simp only [claimOf] at hc; split at hc
    · cases hc; exact ⟨rfl, rfl⟩
    · cases hc
  | editMultisig a p =>
    cases p with
    | none => simp [claimOf] at hc
    | some n =>
      simp only [claimOf] at hc; split at hc
      · cases hc; exact ⟨rfl, rfl⟩
      · cases hc
  | other => simp [claimOf] at hc

/-- `claimOf` does not look at the last-checked block. -/
theorem claimOf_lastChecked (c : Cursor) (k h : Nat) (tx : MTx) :
    claimOf { c with lastChecked := k } h tx = claimOf c h tx := by
  cases tx with
  | send a b d => rfl
  | multisend a => rfl
  | editMultisig a p => cases p <;> rfl
  | other => rfl

theorem stepCur_setLastChecked (c : Cursor) (k : Nat) (tx : MTx) :
    stepCur { c with lastChecked := k } tx = { stepCur c tx with lastChecked := k } := by
  unfold stepCur
  cases tx with
  | send a b d => cases a <;> cases b <;> cases d <;> rfl
  | multisend a => cases a <;> rfl
  | editMultisig a p => cases a <;> cases p <;> rfl
  | other => rfl

theorem foldl_stepCur_setLastChecked (txs : List MTx) (c : Cursor) (k : Nat) :
    txs.foldl stepCur { c with lastChecked := k } = { txs.foldl stepCur c with lastChecked := k } := by
  induction txs generalizing c with
  | nil => rfl
  | cons t ts ih => rw [List.foldl_cons, List.foldl_cons, stepCur_setLastChecked, ih]

theorem txClaims_setLastChecked (txs : List MTx) (c : Cursor) (k h : Nat) :
    txClaims { c with lastChecked := k } h txs = txClaims c h txs := by
  induction txs generalizing c with
  | nil => rfl
  | cons t ts ih => simp only [txClaims, claimOf_lastChecked, stepCur_setLastChecked, ih]

/-! ### One transaction / one block of the loop -/

theorem relayTx_spec (h : Nat) (s : RelaySt) (tx : MTx) :
    (relayTx h s tx).cur = stepCur s.cur tx ∧
    (relayTx h s tx).claims = s.claims ++ (claimOf s.cur h tx).toList ∧
    (relayTx h s tx).commits = s.commits := by
  cases tx with
  | send a b d => cases a <;> cases b <;> cases d <;> simp [relayTx, stepCur, claimOf, countsInResync]
  | multisend a => cases a <;> simp [relayTx, stepCur, claimOf, countsInResync]
  | editMultisig a p => cases a <;> cases p <;> simp [relayTx, stepCur, claimOf, countsInResync]
  | other => simp [relayTx, stepCur, claimOf, countsInResync]

theorem foldl_relayTx_spec (h : Nat) (txs : List MTx) (s : RelaySt) :
    (txs.foldl (relayTx h) s).cur = txs.foldl stepCur s.cur ∧
    (txs.foldl (relayTx h) s).claims = s.claims ++ txClaims s.cur h txs ∧
    (txs.foldl (relayTx h) s).commits = s.commits := by
  induction txs generalizing s with
  | nil => simp [txClaims]
  | cons t ts ih =>
    obtain ⟨h1, h2, h3⟩ := relayTx_spec h s t
    obtain ⟨i1, i2, i3⟩ := ih (relayTx h s t)
    rw [List.foldl_cons]
    refine ⟨by rw [i1, h1]; rfl, ?_, by rw [i3, h3]⟩
    rw [i2, h2, h1, txClaims, List.append_assoc]

/-- One block of the loop: cursor as in the scan, claims appended, and at most one commit: the
    block-end cursor, written only while no claim is waiting. -/
theorem relayBlock_spec (s : RelaySt) (b : MBlock) :
    (relayBlock s b).cur = endCur s.cur b ∧
    (relayBlock s b).claims = s.claims ++ txClaims s.cur b.height b.txs ∧
    (relayBlock s b).commits =
      s.commits ++ (if (s.claims ++ txClaims s.cur b.height b.txs).isEmpty then [endCur s.cur b] else []) := by
  obtain ⟨h1, h2, h3⟩ := foldl_relayTx_spec b.height b.txs { s with cur := { s.cur with lastChecked := b.height } }
  have hcur : (b.txs.foldl (relayTx b.height) { s with cur := { s.cur with lastChecked := b.height } }).cur
      = endCur s.cur b := by
    rw [h1]; exact foldl_stepCur_setLastChecked b.txs s.cur b.height
  have hcl : (b.txs.foldl (relayTx b.height) { s with cur := { s.cur with lastChecked := b.height } }).claims
      = s.claims ++ txClaims s.cur b.height b.txs := by
    rw [h2]; simp only [txClaims_setLastChecked]
  unfold relayBlock
  simp only []
  split
  · rename_i he
    rw [hcl] at he
    refine ⟨hcur, hcl, ?_⟩
    simp only [he, if_true, h3, hcur]
  · rename_i he
    rw [hcl] at he
    refine ⟨hcur, hcl, ?_⟩
    simp only [he, h3]
    simp

/-- Commits of the block loop: a prefix of the block-end cursors — those of the blocks before the
    first block that contains a bridge event (and none if a claim is already waiting). -/
def loopCommits (c : Cursor) (waiting : Bool) : List MBlock → List Cursor
  | [] => []
  | b :: bs =>
    if waiting || !(txClaims c b.height b.txs).isEmpty then []
    else endCur c b :: loopCommits (endCur c b) false bs

theorem foldl_relayBlock_spec (bs : List MBlock) (s : RelaySt) :
    (bs.foldl relayBlock s).cur = curAfter s.cur bs ∧
    (bs.foldl relayBlock s).claims = s.claims ++ blockClaims s.cur bs ∧
    (bs.foldl relayBlock s).commits = s.commits ++ loopCommits s.cur (!s.claims.isEmpty) bs := by
  induction bs generalizing s with
  | nil => simp [blockClaims, loopCommits]
  | cons b bs ih =>
    obtain ⟨h1, h2, h3⟩ := relayBlock_spec s b
    obtain ⟨i1, i2, i3⟩ := ih (relayBlock s b)
    rw [List.foldl_cons]
    refine ⟨by rw [i1, h1]; rfl, by rw [i2, h2, h1, blockClaims, List.append_assoc], ?_⟩
    rw [i3, h3, h2, h1]
    by_cases hw : s.claims.isEmpty = true
    · by_cases ht : (txClaims s.cur b.height b.txs).isEmpty = true
      · have : (s.claims ++ txClaims s.cur b.height b.txs).isEmpty = true := by
          simp only [List.isEmpty_iff] at hw ht ⊢; simp [hw, ht]
        simp [loopCommits, hw, ht, this]
      · have : (s.claims ++ txClaims s.cur b.height b.txs).isEmpty = false := by
          simp only [List.isEmpty_iff] at hw ht ⊢
          cases hx : txClaims s.cur b.height b.txs with
          | nil => simp [hx] at ht
          | cons x xs => simp
        simp only [Bool.not_eq_true] at ht
        cases bs with
        | nil => simp [loopCommits, hw, ht, this]
        | cons b2 bs2 => simp [loopCommits, hw, ht, this]
    · have : (s.claims ++ txClaims s.cur b.height b.txs).isEmpty = false := by
        simp only [List.isEmpty_iff] at hw ⊢
        cases hx : s.claims with
        | nil => simp [hx] at hw
        | cons x xs => simp
      simp only [Bool.not_eq_true] at hw
      cases bs with
      | nil => simp [loopCommits, hw, this]
      | cons b2 bs2 => simp [loopCommits, hw, this]

theorem loopCommits_sub (c : Cursor) (w : Bool) (bs : List MBlock) :
    ∀ x ∈ loopCommits c w bs, x ∈ blockEnds c bs := by
  induction bs generalizing c w with
  | nil => simp [loopCommits]
  | cons b bs ih =>
    intro x hx
    unfold loopCommits at hx
    split at hx
    · cases hx
    · rcases List.mem_cons.mp hx with h | h
      · simp [blockEnds, h]
      · simp only [blockEnds, List.mem_cons]; exact Or.inr (ih _ _ x h)

/-! ### Claims: numbering -/

theorem txClaims_length (c : Cursor) (h : Nat) (txs : List MTx) : (txClaims c h txs).length = evCnt txs := by
  induction txs generalizing c with
  | nil => rfl
  | cons t ts ih =>
    rw [txClaims, List.length_append, ih, evCnt_cons]
    have := claimOf_isSome c h t
    cases hc : claimOf c h t <;> rw [hc] at this <;> simp at this <;> simp [← this]

theorem txClaims_nonces (c : Cursor) (h : Nat) (txs : List MTx) :
    (txClaims c h txs).map Claim.nonce = List.range' c.nextEvent (evCnt txs) := by
  induction txs generalizing c with
  | nil => rfl
  | cons t ts ih =>
    rw [txClaims, List.map_append, ih, evCnt_cons, stepCur_nextEvent]
    have hs := claimOf_isSome c h t
    cases hc : claimOf c h t with
    | none =>
      rw [hc] at hs; simp at hs
      simp [← hs]
    | some cl =>
      rw [hc] at hs; simp at hs
      have := (claimOf_nonce hc).1
      simp only [Option.toList, List.map_cons, List.map_nil, ← hs, if_true, this]
      rw [Nat.add_comm 1, List.range'_succ]
      simp

theorem txClaims_heights (c : Cursor) (h : Nat) (txs : List MTx) :
    ∀ cl ∈ txClaims c h txs, cl.height = h := by
  induction txs generalizing c with
  | nil => simp [txClaims]
  | cons t ts ih =>
    intro cl hcl
    rw [txClaims, List.mem_append] at hcl
    rcases hcl with hcl | hcl
    · cases hc : claimOf c h t with
      | none => rw [hc] at hcl; simp at hcl
      | some x => rw [hc] at hcl; simp at hcl; subst hcl; exact (claimOf_nonce hc).2
    · exact ih _ cl hcl

theorem blockClaims_length (c : Cursor) (bs : List MBlock) : (blockClaims c bs).length = evSum bs := by
  induction bs generalizing c with
  | nil => rfl
  | cons b bs ih => rw [blockClaims, List.length_append, ih, txClaims_length, evSum_cons]

theorem blockClaims_nonces (c : Cursor) (bs : List MBlock) :
    (blockClaims c bs).map Claim.nonce = List.range' c.nextEvent (evSum bs) := by
  induction bs generalizing c with
  | nil => rfl
  | cons b bs ih =>
    rw [blockClaims, List.map_append, ih, txClaims_nonces, evSum_cons, endCur_nextEvent,
      List.range'_append_1]

theorem blockClaims_append (c : Cursor) (a b : List MBlock) :
    blockClaims c (a ++ b) = blockClaims c a ++ blockClaims (curAfter c a) b := by
  induction a generalizing c with
  | nil => rfl
  | cons x xs ih => simp [blockClaims, ih, curAfter_cons]

theorem blockClaims_heights (c : Cursor) (bs : List MBlock) :
    ∀ cl ∈ blockClaims c bs, ∃ b ∈ bs, cl.height = b.height := by
  induction bs generalizing c with
  | nil => simp [blockClaims]
  | cons b bs ih =>
    intro cl hcl
    rw [blockClaims, List.mem_append] at hcl
    rcases hcl with hcl | hcl
    · exact ⟨b, by simp, txClaims_heights _ _ _ cl hcl⟩
    · obtain ⟨b', hb', h⟩ := ih _ cl hcl
      exact ⟨b', by simp [hb'], h⟩

/-! ### The window is a prefix of the blocks above the cursor -/

theorem sorted_filter_le_prefix {l : List MBlock} (h : ChainWF l) (hi : Nat) :
    ∃ rest, l = (l.filter fun b => b.height ≤ hi) ++ rest := by
  induction l with
  | nil => exact ⟨[], rfl⟩
  | cons x xs ih =>
    unfold ChainWF at h
    rw [List.pairwise_cons] at h
    by_cases hx : x.height ≤ hi
    · obtain ⟨rest, hr⟩ := ih h.2
      refine ⟨rest, ?_⟩
      rw [List.filter_cons]; simp only [hx, decide_true, if_true, List.cons_append]
      exact congrArg _ hr
    · refine ⟨x :: xs, ?_⟩
      have : (x :: xs).filter (fun b => decide (b.height ≤ hi)) = [] := by
        rw [List.filter_eq_nil_iff]; intro a ha
        rcases List.mem_cons.mp ha with ha | ha
        · subst ha; simpa using hx
        · have := h.1 a ha; simp; omega
      rw [this]; rfl

theorem relayWindow_prefix {chain : List MBlock} (hwf : ChainWF chain) (start : Cursor) (latest : Nat) :
    ∃ rest, (chain.filter fun b => b.height > start.lastChecked) = relayWindow start chain latest ++ rest := by
  unfold relayWindow
  rw [filter_range_split]
  exact sorted_filter_le_prefix (hwf.filter _) _

theorem mem_blockEnds_window {chain : List MBlock} (hwf : ChainWF chain) (start : Cursor) (latest : Nat)
    {c : Cursor} (hc : c ∈ blockEnds start (relayWindow start chain latest)) :
    c ∈ blockEnds start (chain.filter fun b => b.height > start.lastChecked) := by
  obtain ⟨rest, hr⟩ := relayWindow_prefix hwf start latest
  rw [hr, blockEnds_append]; exact List.mem_append_left _ hc

/-- The cursor after a non-empty list of blocks is the last block-end cursor. -/
theorem curAfter_mem_blockEnds (c : Cursor) {bs : List MBlock} (h : bs ≠ []) :
    curAfter c bs ∈ blockEnds c bs := by
  induction bs generalizing c with
  | nil => exact absurd rfl h
  | cons b bs ih =>
    cases bs with
    | nil => simp [blockEnds, curAfter]
    | cons b2 bs2 =>
      simp only [blockEnds, List.mem_cons]
      right
      have := ih (endCur c b) (by simp)
      simpa [blockEnds, curAfter_cons] using this

/-! ### The whole round -/

theorem relay_spec (start : Cursor) (chain : List MBlock) (latest : Nat) :
    (relay start chain latest).cur = curAfter start (relayWindow start chain latest) ∧
    (relay start chain latest).claims = blockClaims start (relayWindow start chain latest) ∧
    (relay start chain latest).commits =
      loopCommits start false (relayWindow start chain latest) ++
        (if (blockClaims start (relayWindow start chain latest)).isEmpty then []
         else [curAfter start (relayWindow start chain latest)]) := by
  obtain ⟨h1, h2, h3⟩ := foldl_relayBlock_spec (relayWindow start chain latest)
    { cur := start, claims := [], commits := [] }
  simp only [List.nil_append, List.isEmpty_nil, Bool.not_true] at h1 h2 h3
  have hs : relay start chain latest =
      (if ((relayWindow start chain latest).foldl relayBlock { cur := start, claims := [], commits := [] }).claims.isEmpty
       then (relayWindow start chain latest).foldl relayBlock { cur := start, claims := [], commits := [] }
       else { (relayWindow start chain latest).foldl relayBlock { cur := start, claims := [], commits := [] } with
              commits := ((relayWindow start chain latest).foldl relayBlock { cur := start, claims := [], commits := [] }).commits ++
                [((relayWindow start chain latest).foldl relayBlock { cur := start, claims := [], commits := [] }).cur] }) := rfl
  rw [hs]
  split
  · rename_i he
    rw [h2] at he
    refine ⟨h1, h2, ?_⟩
    rw [h3, he]; simp
  · rename_i he
    rw [h2] at he
    refine ⟨h1, h2, ?_⟩
    simp only [h3, h1, he]
    simp

/-! ### Several rounds, cut anywhere -/

/-- Successive rounds of the loop: round `i` starts from the cursor round `i-1` ended with and sees
    the node at height `ls[i]`.  Result: final cursor, all claims, all status-file commits. -/
def relayRounds (chain : List MBlock) : Cursor → List Nat → Cursor × List Claim × List Cursor
  | start, [] => (start, [], [])
  | start, l :: ls =>
    let r := relay start chain l
    let rest := relayRounds chain r.cur ls
    (rest.1, r.claims ++ rest.2.1, r.commits ++ rest.2.2)

theorem filter_gt_curAfter {chain : List MBlock} (hwf : ChainWF chain) (start : Cursor)
    {w rest : List MBlock} (hsplit : (chain.filter fun b => b.height > start.lastChecked) = w ++ rest) :
    (chain.filter fun b => b.height > (curAfter start w).lastChecked) = rest := by
  rcases List.eq_nil_or_concat w with hw | ⟨pre, b, hw⟩
  · subst hw; simpa using hsplit
  · rw [List.concat_eq_append] at hw
    subst hw
    rw [curAfter_lastChecked_concat]
    have hb : b ∈ chain.filter fun b => b.height > start.lastChecked := by rw [hsplit]; simp
    have hbgt : start.lastChecked < b.height := by simpa using (List.mem_filter.mp hb).2
    have e : (chain.filter fun x => x.height > b.height) =
        (chain.filter fun x => x.height > start.lastChecked).filter fun x => x.height > b.height := by
      rw [List.filter_filter]; apply List.filter_congr; intro x _
      by_cases h1 : x.height > b.height
      · have : x.height > start.lastChecked := by omega
        simp [h1, this]
      · simp [h1]
    rw [e, hsplit]
    have hs : ChainWF (pre ++ [b] ++ rest) := hsplit ▸ hwf.filter _
    unfold ChainWF at hs
    rw [List.append_assoc, List.pairwise_append] at hs
    obtain ⟨_, h2, h3⟩ := hs
    simp only [List.singleton_append, List.pairwise_cons] at h2
    rw [List.append_assoc, List.filter_append, List.singleton_append, List.filter_cons]
    have e1 : pre.filter (fun x => decide (x.height > b.height)) = [] := by
      rw [List.filter_eq_nil_iff]; intro a ha
      have := h3 a ha b (by simp); simp; omega
    have e2 : rest.filter (fun x => decide (x.height > b.height)) = rest := by
      rw [List.filter_eq_self]; intro a ha
      have := h2.1 a ha; simpa using this
    simp [e1, e2]

/-- Whatever the polling schedule, the rounds together behave like one pass over a prefix `W` of
    the blocks above the start cursor. -/
theorem relayRounds_spec {chain : List MBlock} (hwf : ChainWF chain) (ls : List Nat) (start : Cursor) :
    ∃ W rest, (chain.filter fun b => b.height > start.lastChecked) = W ++ rest ∧
      (relayRounds chain start ls).1 = curAfter start W ∧
      (relayRounds chain start ls).2.1 = blockClaims start W ∧
      ∀ c ∈ (relayRounds chain start ls).2.2, c ∈ blockEnds start W := by
  induction ls generalizing start with
  | nil => exact ⟨[], _, rfl, rfl, rfl, by simp [relayRounds]⟩
  | cons l ls ih =>
    obtain ⟨rest1, hr1⟩ := relayWindow_prefix hwf start l
    obtain ⟨h1, h2, h3⟩ := relay_spec start chain l
    obtain ⟨W2, rest2, hs2, c2, cl2, cm2⟩ := ih (relay start chain l).cur
    rw [h1] at hs2 c2 cl2 cm2
    rw [filter_gt_curAfter hwf start hr1] at hs2
    refine ⟨relayWindow start chain l ++ W2, rest2, by rw [hr1, hs2, List.append_assoc], ?_, ?_, ?_⟩
    · show (relayRounds chain (relay start chain l).cur ls).1 = _
      rw [h1, c2]; simp [curAfter, List.foldl_append]
    · show (relay start chain l).claims ++ (relayRounds chain (relay start chain l).cur ls).2.1 = _
      rw [h1, cl2, h2, blockClaims_append]
    · intro c hc
      have hc' : c ∈ (relay start chain l).commits ++ (relayRounds chain (relay start chain l).cur ls).2.2 := hc
      rw [blockEnds_append]
      rcases List.mem_append.mp hc' with hc' | hc'
      · apply List.mem_append_left
        rw [h3] at hc'
        rcases List.mem_append.mp hc' with hc' | hc'
        · exact loopCommits_sub _ _ _ c hc'
        · split at hc'
          · cases hc'
          · rename_i hne
            simp only [List.mem_singleton] at hc'
            subst hc'
            apply curAfter_mem_blockEnds
            intro hnil; apply hne; rw [hnil]; rfl
      · apply List.mem_append_right
        rw [h1] at hc'
        exact cm2 c hc'

end Mhub2
