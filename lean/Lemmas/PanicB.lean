/-
  C05, bridge to the ledger invariant of C04 (Lemmas/Ledger.lean, which cannot be imported together
  with Lemmas/Votes.lean and therefore not into Props/C05Panic.lean): under `Hub.LedgerInv` and the
  `uint64` bound `Hub.Bounded` the batches of every chain have pairwise distinct store keys, which is
  what the time-out clean-up of begin block needs for its look-ups to succeed.
-/
import Lemmas.Ledger
import Lemmas.PanicA
namespace Mhub2.C05
open Mhub2

theorem ledgerInv_batchKeysDistinct {h : Hub} (hi : h.LedgerInv) (hb : h.Bounded) : BatchKeysDistinct h := by
  intro c
  have hci := Hub.ledgerInv_iff.mp hi c
  have hnd : (h.chain c).batches.Nodup := nodup_of_map (·.nonce) hci.bnodup
  exact List.Pairwise.imp_of_mem (fun ha hb' hne e => hne (hci.batchKey_inj (hb c).2 ha hb' e)) hnd

/-- The time-out clean-up cannot panic from a state satisfying the ledger invariant. -/
theorem cleanup_no_panic_of_ledgerInv {h : Hub} {c : String} (hne : c ≠ "minter")
    (hi : h.LedgerInv) (hb : h.Bounded) : ∀ m, h.cleanupTimedOutBatches c ≠ .error (.panic m) :=
  (cleanup_spec hne (ledgerInv_batchKeysDistinct hi hb c)).1

/-- Begin block cannot panic from a state satisfying the ledger invariant, when no chain is listed
    twice and the signer-set computation is sane. -/
theorem begin_block_no_panic_of_ledgerInv {h : Hub} (hn : h.chains.Nodup) (hi : h.LedgerInv)
    (hb : h.Bounded) (hs : StakingSane h) : ∀ m, h.beginBlock ≠ .error (.panic m) :=
  beginBlock_spec_nodup h hn (ledgerInv_batchKeysDistinct hi hb) hs

end Mhub2.C05
