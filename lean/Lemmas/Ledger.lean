/-
  Helper lemmas for the outgoing-transfer ledger (pool, batches): byte keys, the keyed list
  stores, the effect of every keeper function on the per-chain id lists, and the ledger
  invariant with its preservation.  Used by Props/C04.lean and Props/C13.lean.
-/
import Mhub2.Value
import Lemmas.Bank
set_option linter.unusedSimpArgs false
namespace Mhub2

/-! ### Big-endian bytes -/

theorem beBytes_length (w n : Nat) : (beBytes w n).length = w := by
  induction w generalizing n with
  | zero => simp [beBytes]
  | succ w ih => simp [beBytes, ih]

theorem beBytes_inj {w a b : Nat} (h : beBytes w a = beBytes w b) : a % 256 ^ w = b % 256 ^ w := by
  induction w generalizing a b with
  | zero => simp [Nat.mod_one]
  | succ w ih =>
    simp only [beBytes] at h
    have hl : (beBytes w (a / 256)).length = (beBytes w (b / 256)).length := by
      simp [beBytes_length]
    have := List.append_inj h hl
    have h1 := ih this.1
    have h2 : a % 256 = b % 256 := by simpa using this.2
    rw [Nat.pow_succ, Nat.mul_comm, Nat.mod_mul, Nat.mod_mul, h1, h2]

theorem be8_length (n : Nat) : (be8 n).length = 8 := beBytes_length 8 n
theorem fill32_length (n : Nat) : (fill32 n).length = 32 := beBytes_length 32 n

theorem be8_inj {a b : Nat} (h : be8 a = be8 b) (ha : a < 2 ^ 64) (hb : b < 2 ^ 64) : a = b := by
  have := beBytes_inj (w := 8) h
  have e : (256 : Nat) ^ 8 = 2 ^ 64 := by decide
  rw [e, Nat.mod_eq_of_lt ha, Nat.mod_eq_of_lt hb] at this
  exact this

/-! ### Byte order -/

theorem bytesLt_irrefl (a : Bytes) : bytesLt a a = false := by
  induction a with
  | nil => rfl
  | cons x xs ih => simp [bytesLt, ih]

theorem bytesLt_total {a b : Bytes} (h1 : bytesLt a b = false) (h2 : bytesLt b a = false) : a = b := by
  induction a generalizing b with
  | nil =>
    cases b with
    | nil => rfl
    | cons y ys => simp [bytesLt] at h1
  | cons x xs ih =>
    cases b with
    | nil => simp [bytesLt] at h2
    | cons y ys =>
      simp only [bytesLt] at h1 h2
      by_cases hxy : x < y
      · simp [hxy] at h1
      · by_cases hyx : y < x
        · simp [hyx] at h2
        · simp [hxy, hyx] at h1 h2
          have : x = y := by omega
          subst this
          rw [ih h1 h2]

/-! ### Keys -/

theorem poolKey_inj {s t : Ste} (h : poolKey s = poolKey t) (hs : s.id < 2 ^ 64) (ht : t.id < 2 ^ 64) :
    s.id = t.id := by
  unfold poolKey at h
  have hlen := congrArg List.length h
  simp only [List.length_append, fill32_length, be8_length] at hlen
  have h1 : (strBytes s.extToken ++ fill32 s.fee.natAbs).length
      = (strBytes t.extToken ++ fill32 t.fee.natAbs).length := by
    simp only [List.length_append, fill32_length]; omega
  exact be8_inj (List.append_inj h h1).2 hs ht

theorem batchKey_eq {te : String} {n m : Nat} {tb : String}
    (h : strBytes tb ++ be8 n = strBytes te ++ be8 m) : strBytes tb = strBytes te ∧ be8 n = be8 m := by
  have hlen := congrArg List.length h
  simp only [List.length_append, be8_length] at hlen
  exact List.append_inj h (by omega)

theorem batchKey_inj {a b : Batch} (h : batchKey a = batchKey b) (ha : a.nonce < 2 ^ 64) (hb : b.nonce < 2 ^ 64) :
    a.nonce = b.nonce :=
  be8_inj (batchKey_eq h).2 ha hb

/-! ### Keyed list stores -/

section keyed
variable {α : Type} (key : α → Bytes)

theorem mem_of_mem_insertByKey {x y : α} {l : List α} (h : y ∈ insertByKey key x l) : y = x ∨ y ∈ l := by
  induction l with
  | nil => simpa [insertByKey] using h
  | cons z zs ih =>
    unfold insertByKey at h
    split at h
    · simpa using h
    · split at h
      · simp only [List.mem_cons] at h ⊢
        rcases h with h | h
        · exact .inr (.inl h)
        · rcases ih h with h | h
          · exact .inl h
          · exact .inr (.inr h)
      · simp only [List.mem_cons] at h ⊢
        rcases h with h | h
        · exact .inl h
        · exact .inr (.inr h)

/-- With no entry of equal key in the store, `insertByKey` adds the entry and keeps all others. -/
theorem insertByKey_perm {x : α} {l : List α} (h : ∀ y ∈ l, key y ≠ key x) :
    (insertByKey key x l).Perm (x :: l) := by
  induction l with
  | nil => simp [insertByKey]
  | cons z zs ih =>
    unfold insertByKey
    split
    · exact List.Perm.refl _
    · split
      · have := ih (fun y hy => h y (List.mem_cons_of_mem _ hy))
        exact (List.Perm.cons z this).trans (List.Perm.swap x z zs)
      · rename_i h1 h2
        have : key x = key z := bytesLt_total (by simpa using h1) (by simpa using h2)
        exact absurd this.symm (h z (List.mem_cons_self))

theorem eraseByKey_sublist (k : Bytes) (l : List α) : (eraseByKey key k l).Sublist l := by
  induction l with
  | nil => simp [eraseByKey]
  | cons z zs ih =>
    unfold eraseByKey
    split
    · exact List.sublist_cons_self z zs
    · exact List.Sublist.cons_cons z ih

theorem eraseByKey_of_not_mem {k : Bytes} {l : List α} (h : ∀ y ∈ l, key y ≠ k) : eraseByKey key k l = l := by
  induction l with
  | nil => simp [eraseByKey]
  | cons z zs ih =>
    unfold eraseByKey
    have hz : (key z == k) = false := by simpa using h z List.mem_cons_self
    simp only [hz]
    rw [ih (fun y hy => h y (List.mem_cons_of_mem _ hy))]
    simp

/-- When `x` is the only entry with its key, `eraseByKey` removes exactly `x`. -/
theorem eraseByKey_perm {x : α} {l : List α} (hx : x ∈ l) (h : ∀ y ∈ l, key y = key x → y = x) :
    l.Perm (x :: eraseByKey key (key x) l) := by
  induction l with
  | nil => cases hx
  | cons z zs ih =>
    unfold eraseByKey
    by_cases hz : key z = key x
    · have : z = x := h z List.mem_cons_self hz
      subst this
      simp
    · have hz' : (key z == key x) = false := by simpa using hz
      simp only [hz']
      have hx' : x ∈ zs := by
        rcases List.mem_cons.mp hx with h' | h'
        · subst h'; exact absurd rfl hz
        · exact h'
      have := ih hx' (fun y hy => h y (List.mem_cons_of_mem _ hy))
      exact (List.Perm.cons z this).trans (List.Perm.swap x z _)

theorem find?_key_eq {k : Bytes} {l : List α} {b : α} (h : l.find? (fun y => key y == k) = some b) :
    b ∈ l ∧ key b = k := by
  have h1 := List.find?_some h
  exact ⟨List.mem_of_find?_eq_some h, by simpa using h1⟩

end keyed

/-! ### Folds of the keyed store operations -/

section keyedfold
variable {α : Type} (key : α → Bytes)

theorem foldl_eraseByKey_sublist (sel l : List α) :
    (sel.foldl (fun p s => eraseByKey key (key s) p) l).Sublist l := by
  induction sel generalizing l with
  | nil => exact List.Sublist.refl _
  | cons s rest ih =>
    simp only [List.foldl_cons]
    exact (ih _).trans (eraseByKey_sublist key _ _)

/-- Erasing the keys of a duplicate-free selection of entries removes exactly the selection. -/
theorem foldl_eraseByKey_perm {sel l : List α} (hnd : sel.Nodup) (hsub : ∀ s ∈ sel, s ∈ l) (hl : l.Nodup)
    (hinj : ∀ x ∈ l, ∀ y ∈ l, key x = key y → x = y) :
    l.Perm (sel ++ sel.foldl (fun p s => eraseByKey key (key s) p) l) := by
  induction sel generalizing l with
  | nil => simp
  | cons s rest ih =>
    simp only [List.foldl_cons, List.cons_append]
    have hs : s ∈ l := hsub s List.mem_cons_self
    have hp : l.Perm (s :: eraseByKey key (key s) l) :=
      eraseByKey_perm key hs (fun y hy he => hinj y hy s hs he)
    have hsl := eraseByKey_sublist key (key s) l
    rw [List.nodup_cons] at hnd
    have hrest : ∀ r ∈ rest, r ∈ eraseByKey key (key s) l := by
      intro r hr
      have : r ∈ s :: eraseByKey key (key s) l := hp.subset (hsub r (List.mem_cons_of_mem _ hr))
      rcases List.mem_cons.mp this with h | h
      · subst h; exact absurd hr hnd.1
      · exact h
    have := ih hnd.2 hrest (hl.sublist hsl)
      (fun x hx y hy he => hinj x (hsl.subset hx) y (hsl.subset hy) he)
    exact hp.trans (List.Perm.cons s this)

theorem mem_of_mem_foldl_insertByKey {txs l : List α} {y : α}
    (h : y ∈ txs.foldl (fun p s => insertByKey key s p) l) : y ∈ txs ∨ y ∈ l := by
  induction txs generalizing l with
  | nil => exact .inr h
  | cons t rest ih =>
    simp only [List.foldl_cons] at h
    rcases ih h with h | h
    · exact .inl (List.mem_cons_of_mem _ h)
    · rcases mem_of_mem_insertByKey key h with h | h
      · exact .inl (h ▸ List.mem_cons_self)
      · exact .inr h

/-- Inserting entries whose keys are new (and pairwise different) adds exactly those entries. -/
theorem foldl_insertByKey_perm {txs l : List α} (hnd : (txs ++ l).Nodup)
    (hinj : ∀ x ∈ txs ++ l, ∀ y ∈ txs ++ l, key x = key y → x = y) :
    (txs.foldl (fun p s => insertByKey key s p) l).Perm (txs ++ l) := by
  induction txs generalizing l with
  | nil => simp
  | cons t rest ih =>
    simp only [List.foldl_cons]
    have ht : t ∉ rest ++ l := by
      simp only [List.cons_append, List.nodup_cons] at hnd; exact hnd.1
    have hp : (insertByKey key t l).Perm (t :: l) := by
      apply insertByKey_perm
      intro y hy he
      have : y = t := hinj y (by simp [hy]) t (by simp) he
      subst this
      exact ht (List.mem_append_right _ hy)
    have hp2 : (rest ++ insertByKey key t l).Perm (t :: rest ++ l) :=
      ((List.Perm.append_left rest hp).trans List.perm_middle)
    have := ih (hp2.symm.nodup hnd)
      (fun x hx y hy he => hinj x (hp2.subset hx) y (hp2.subset hy) he)
    exact this.trans hp2

end keyedfold

/-! ### Lists without duplicates under a projection -/

theorem nodup_of_map {α β : Type} (f : α → β) {l : List α} (h : (l.map f).Nodup) : l.Nodup := by
  induction l with
  | nil => exact List.nodup_nil
  | cons x xs ih =>
    simp only [List.map_cons, List.nodup_cons, List.mem_map, not_exists, not_and] at h ⊢
    exact ⟨fun hx => h.1 x hx rfl, ih h.2⟩

theorem inj_of_nodup_map {α β : Type} (f : α → β) {l : List α} (h : (l.map f).Nodup) {x y : α}
    (hx : x ∈ l) (hy : y ∈ l) (he : f x = f y) : x = y := by
  induction l with
  | nil => cases hx
  | cons z zs ih =>
    simp only [List.map_cons, List.nodup_cons, List.mem_map, not_exists, not_and] at h
    rcases List.mem_cons.mp hx with hx' | hx' <;> rcases List.mem_cons.mp hy with hy' | hy'
    · rw [hx', hy']
    · subst hx'; exact absurd he.symm (h.1 y hy')
    · subst hy'; exact absurd he (h.1 x hx')
    · exact ih h.2 hx' hy'

theorem sublist_flatMap {α β : Type} (f : α → List β) {l₁ l₂ : List α} (h : l₁.Sublist l₂) :
    (l₁.flatMap f).Sublist (l₂.flatMap f) := by
  induction h with
  | slnil => simp
  | cons a _ ih =>
    simp only [List.flatMap_cons]
    exact ih.trans (List.sublist_append_right _ _)
  | cons_cons a _ ih =>
    simp only [List.flatMap_cons]
    exact List.Sublist.append (List.Sublist.refl _) ih

/-! ### Per-chain ledger: ids, invariant, step relation -/


/-- Their ids. -/
def ChainSt.ids (c : ChainSt) : List Nat :=
  c.pool.map (·.id) ++ c.batches.flatMap (fun b => b.txs.map (·.id))

theorem ChainSt.ids_eq (c : ChainSt) : c.ids = c.entries.map (·.id) := by
  simp [ChainSt.ids, ChainSt.entries, List.map_flatMap]

theorem ChainSt.mem_ids {c : ChainSt} {id : Nat} : id ∈ c.ids ↔ ∃ s ∈ c.entries, s.id = id := by
  simp [ChainSt.ids_eq]

theorem ChainSt.mem_entries {c : ChainSt} {s : Ste} :
    s ∈ c.entries ↔ s ∈ c.pool ∨ ∃ b ∈ c.batches, s ∈ b.txs := by
  simp [ChainSt.entries]

/-- The implementation's counters are `uint64`; keys encode ids and nonces in 8 bytes. -/
def ChainSt.Bounded (c : ChainSt) : Prop := c.lastSteId < 2 ^ 64 ∧ c.lastBatchNonce < 2 ^ 64

/-- Per-chain ledger invariant. -/
structure ChainSt.Inv (c : ChainSt) : Prop where
  nodup : c.ids.Nodup
  range : ∀ id ∈ c.ids, 1 ≤ id ∧ id ≤ c.lastSteId
  bnodup : (c.batches.map (·.nonce)).Nodup
  brange : ∀ b ∈ c.batches, b.nonce ≤ c.lastBatchNonce

theorem ChainSt.Inv.entries_nodup {c : ChainSt} (hi : c.Inv) : c.entries.Nodup :=
  nodup_of_map (·.id) (by rw [← ChainSt.ids_eq]; exact hi.nodup)

theorem ChainSt.Inv.entry_inj {c : ChainSt} (hi : c.Inv) {x y : Ste} (hx : x ∈ c.entries) (hy : y ∈ c.entries)
    (he : x.id = y.id) : x = y :=
  inj_of_nodup_map (·.id) (by rw [← ChainSt.ids_eq]; exact hi.nodup) hx hy he

theorem ChainSt.Inv.entry_le {c : ChainSt} (hi : c.Inv) {x : Ste} (hx : x ∈ c.entries) :
    1 ≤ x.id ∧ x.id ≤ c.lastSteId :=
  hi.range x.id (ChainSt.mem_ids.mpr ⟨x, hx, rfl⟩)

/-- Under the invariant and the `uint64` bound, pool keys identify entries. -/
theorem ChainSt.Inv.poolKey_inj {c : ChainSt} (hi : c.Inv) (hb : c.lastSteId < 2 ^ 64) {x y : Ste}
    (hx : x ∈ c.entries) (hy : y ∈ c.entries) (he : poolKey x = poolKey y) : x = y := by
  have h1 := (hi.entry_le hx).2
  have h2 := (hi.entry_le hy).2
  exact hi.entry_inj hx hy (Mhub2.poolKey_inj he (by omega) (by omega))

theorem ChainSt.Inv.batchKey_inj {c : ChainSt} (hi : c.Inv) (hb : c.lastBatchNonce < 2 ^ 64) {x y : Batch}
    (hx : x ∈ c.batches) (hy : y ∈ c.batches) (he : batchKey x = batchKey y) : x = y := by
  have h1 := hi.brange x hx
  have h2 := hi.brange y hy
  exact inj_of_nodup_map (·.nonce) hi.bnodup hx hy (Mhub2.batchKey_inj he (by omega) (by omega))

/-- One step of the ledger of a chain: counters only grow, ids present afterwards were present
    before or are freshly issued, and the invariant is preserved as long as the counters stay
    below `2^64`. -/
structure ChainSt.Step (c c' : ChainSt) : Prop where
  mono : c.lastSteId ≤ c'.lastSteId
  monoB : c.lastBatchNonce ≤ c'.lastBatchNonce
  sub : ∀ id ∈ c'.ids, id ∈ c.ids ∨ (c.lastSteId < id ∧ id ≤ c'.lastSteId)
  inv : c.Inv → c'.Bounded → c'.Inv

theorem ChainSt.Bounded.mono {c c' : ChainSt} (hb : c'.Bounded) (h1 : c.lastSteId ≤ c'.lastSteId)
    (h2 : c.lastBatchNonce ≤ c'.lastBatchNonce) : c.Bounded :=
  ⟨Nat.lt_of_le_of_lt h1 hb.1, Nat.lt_of_le_of_lt h2 hb.2⟩

theorem ChainSt.Step.refl (c : ChainSt) : ChainSt.Step c c :=
  ⟨Nat.le_refl _, Nat.le_refl _, fun _ h => .inl h, fun h _ => h⟩

theorem ChainSt.Step.trans {a b c : ChainSt} (h1 : ChainSt.Step a b) (h2 : ChainSt.Step b c) :
    ChainSt.Step a c := by
  refine ⟨Nat.le_trans h1.mono h2.mono, Nat.le_trans h1.monoB h2.monoB, ?_, ?_⟩
  · intro id hid
    rcases h2.sub id hid with h | h
    · rcases h1.sub id h with h' | h'
      · exact .inl h'
      · exact .inr ⟨h'.1, Nat.le_trans h'.2 h2.mono⟩
    · exact .inr ⟨Nat.lt_of_le_of_lt h1.mono h.1, h.2⟩
  · intro hi hb
    exact h2.inv (h1.inv hi (hb.mono h2.mono h2.monoB)) hb

/-- A step that additionally loses nothing (under the invariant): every id present before is
    present afterwards, and every id issued during the step is present afterwards. -/
structure ChainSt.Keeps (c c' : ChainSt) : Prop extends ChainSt.Step c c' where
  keep : c.Inv → c'.Bounded → ∀ s ∈ c.entries, s ∈ c'.entries
  fresh : c.Inv → c'.Bounded → ∀ id, c.lastSteId < id → id ≤ c'.lastSteId → id ∈ c'.ids

theorem ChainSt.Keeps.refl (c : ChainSt) : ChainSt.Keeps c c :=
  { ChainSt.Step.refl c with keep := fun _ _ _ h => h, fresh := fun _ _ id h1 h2 => by omega }

theorem ChainSt.Keeps.trans {a b c : ChainSt} (h1 : ChainSt.Keeps a b) (h2 : ChainSt.Keeps b c) :
    ChainSt.Keeps a c := by
  refine { h1.toStep.trans h2.toStep with keep := ?_, fresh := ?_ }
  · intro hi hb s hs
    have hbb := hb.mono h2.mono h2.monoB
    exact h2.keep (h1.inv hi hbb) hb s (h1.keep hi hbb s hs)
  · intro hi hb id hl hu
    have hbb := hb.mono h2.mono h2.monoB
    by_cases hid : id ≤ b.lastSteId
    · obtain ⟨s, hs, he⟩ := ChainSt.mem_ids.mp (h1.fresh hi hbb id hl hid)
      exact ChainSt.mem_ids.mpr ⟨s, h2.keep (h1.inv hi hbb) hb s hs, he⟩
    · exact h2.fresh (h1.inv hi hbb) hb id (by omega) hu

theorem ChainSt.Keeps.keep_ids {c c' : ChainSt} (h : ChainSt.Keeps c c') (hi : c.Inv) (hb : c'.Bounded)
    {id : Nat} (hid : id ∈ c.ids) : id ∈ c'.ids := by
  obtain ⟨s, hs, he⟩ := ChainSt.mem_ids.mp hid
  exact ChainSt.mem_ids.mpr ⟨s, h.keep hi hb s hs, he⟩

/-- Removing entries (pool entries and/or whole batches) is a step. -/
theorem ChainSt.Step.of_sublist {c c' : ChainSt} (h1 : c'.lastSteId = c.lastSteId)
    (h2 : c'.lastBatchNonce = c.lastBatchNonce) (hp : c'.pool.Sublist c.pool)
    (hb : c'.batches.Sublist c.batches) : ChainSt.Step c c' := by
  have hids : c'.ids.Sublist c.ids := by
    unfold ChainSt.ids
    exact List.Sublist.append (hp.map _) (sublist_flatMap _ hb)
  refine ⟨by omega, by omega, fun id hid => .inl (hids.subset hid), fun hi _ => ?_⟩
  refine ⟨hi.nodup.sublist hids, fun id hid => ?_, hi.bnodup.sublist (hb.map _), fun b hbm => ?_⟩
  · rw [h1]; exact hi.range id (hids.subset hid)
  · rw [h2]; exact hi.brange b (hb.subset hbm)

/-- Rearranging entries between pool and batches is a step that loses nothing. -/
theorem ChainSt.Keeps.of_perm {c c' : ChainSt} (h1 : c'.lastSteId = c.lastSteId)
    (h2 : c.lastBatchNonce ≤ c'.lastBatchNonce)
    (hsub : ∀ s ∈ c'.entries, s ∈ c.entries)
    (hperm : c.Inv → c'.Bounded → c'.entries.Perm c.entries ∧ (c'.batches.map (·.nonce)).Nodup ∧
      ∀ b ∈ c'.batches, b.nonce ≤ c'.lastBatchNonce) : ChainSt.Keeps c c' := by
  refine { mono := by omega, monoB := h2, sub := ?_, inv := ?_, keep := ?_, fresh := ?_ }
  · intro id hid
    obtain ⟨s, hs, he⟩ := ChainSt.mem_ids.mp hid
    exact .inl (ChainSt.mem_ids.mpr ⟨s, hsub s hs, he⟩)
  · intro hi hb
    obtain ⟨hp, hn, hr⟩ := hperm hi hb
    have hpi : c'.ids.Perm c.ids := by rw [ChainSt.ids_eq, ChainSt.ids_eq]; exact hp.map _
    refine ⟨hpi.symm.nodup hi.nodup, fun id hid => ?_, hn, hr⟩
    rw [h1]; exact hi.range id (hpi.subset hid)
  · intro hi hb s hs
    exact (hperm hi hb).1.symm.subset hs
  · intro _ _ id hl hu
    omega

/-! ### The four store manipulations, on one chain -/

/-- `createSendToExternal` on the chain: a new pool entry under the next id. -/
theorem ChainSt.addPool_perm {c c' : ChainSt} {ste : Ste} (hid : ste.id = c.lastSteId + 1)
    (h1 : c'.lastSteId = ste.id) (hp : c'.pool = insertByKey poolKey ste c.pool)
    (hb : c'.batches = c.batches) (hi : c.Inv) (hbd : c'.Bounded) :
    c'.pool.Perm (ste :: c.pool) ∧ c'.entries.Perm (ste :: c.entries) := by
  have hpp : c'.pool.Perm (ste :: c.pool) := by
    rw [hp]
    apply insertByKey_perm
    intro y hy he
    have hy' := hi.entry_le (ChainSt.mem_entries.mpr (.inl hy))
    have := Mhub2.poolKey_inj he (by have := hbd.1; omega) (by have := hbd.1; omega)
    omega
  refine ⟨hpp, ?_⟩
  unfold ChainSt.entries
  rw [hb]
  exact hpp.append_right _

theorem ChainSt.Keeps.addPool {c c' : ChainSt} {ste : Ste} (hid : ste.id = c.lastSteId + 1)
    (h1 : c'.lastSteId = ste.id) (h2 : c'.lastBatchNonce = c.lastBatchNonce)
    (hp : c'.pool = insertByKey poolKey ste c.pool) (hb : c'.batches = c.batches) :
    ChainSt.Keeps c c' := by
  refine { mono := by omega, monoB := by omega, sub := ?_, inv := ?_, keep := ?_, fresh := ?_ }
  · intro id hidm
    obtain ⟨s, hs, he⟩ := ChainSt.mem_ids.mp hidm
    rcases ChainSt.mem_entries.mp hs with hs | hs
    · rw [hp] at hs
      rcases mem_of_mem_insertByKey poolKey hs with hs | hs
      · subst hs; exact .inr (by omega)
      · exact .inl (ChainSt.mem_ids.mpr ⟨s, ChainSt.mem_entries.mpr (.inl hs), he⟩)
    · rw [hb] at hs
      exact .inl (ChainSt.mem_ids.mpr ⟨s, ChainSt.mem_entries.mpr (.inr hs), he⟩)
  · intro hi hbd
    have hpe := (ChainSt.addPool_perm hid h1 hp hb hi hbd).2
    have hpi : c'.ids.Perm (ste.id :: c.ids) := by
      rw [ChainSt.ids_eq, ChainSt.ids_eq]; exact hpe.map _
    refine ⟨hpi.symm.nodup ?_, fun id hidm => ?_, by rw [hb]; exact hi.bnodup, fun b hbm => ?_⟩
    · rw [List.nodup_cons]
      refine ⟨fun hm => ?_, hi.nodup⟩
      have := (hi.range _ hm).2
      omega
    · rcases List.mem_cons.mp (hpi.subset hidm) with h | h
      · omega
      · have := hi.range id h; omega
    · rw [hb] at hbm; rw [h2]; exact hi.brange b hbm
  · intro hi hbd s hs
    exact (ChainSt.addPool_perm hid h1 hp hb hi hbd).2.symm.subset (List.mem_cons_of_mem _ hs)
  · intro hi hbd id hl hu
    have : id = ste.id := by omega
    subst this
    exact ChainSt.mem_ids.mpr ⟨ste, (ChainSt.addPool_perm hid h1 hp hb hi hbd).2.symm.subset
      List.mem_cons_self, rfl⟩

/-- Removing a pool entry by its key. -/
theorem ChainSt.erasePool_perm {c c' : ChainSt} {s : Ste} (hs : s ∈ c.pool)
    (hp : c'.pool = eraseByKey poolKey (poolKey s) c.pool) (hb : c'.batches = c.batches)
    (hi : c.Inv) (hbd : c.lastSteId < 2 ^ 64) :
    c.pool.Perm (s :: c'.pool) ∧ c.entries.Perm (s :: c'.entries) := by
  have hpp : c.pool.Perm (s :: c'.pool) := by
    rw [hp]
    apply eraseByKey_perm poolKey hs
    intro y hy he
    exact hi.poolKey_inj hbd (ChainSt.mem_entries.mpr (.inl hy)) (ChainSt.mem_entries.mpr (.inl hs)) he
  refine ⟨hpp, ?_⟩
  unfold ChainSt.entries
  rw [hb]
  exact hpp.append_right _

theorem selectForBatch_sub {pool : List Ste} {tok : String} {n : Nat} {s : Ste}
    (h : s ∈ selectForBatch pool tok n) : s ∈ pool ∧ s.extToken = tok := by
  unfold selectForBatch at h
  have := List.mem_of_mem_take h
  simp only [List.mem_reverse, List.mem_filter, Bool.and_eq_true, beq_iff_eq] at this
  exact ⟨this.1, this.2.2⟩

theorem selectForBatch_nodup {pool : List Ste} (tok : String) (n : Nat) (h : pool.Nodup) :
    (selectForBatch pool tok n).Nodup := by
  unfold selectForBatch
  refine List.Nodup.sublist (List.take_sublist _ _) ?_
  exact (List.reverse_perm _).symm.nodup (h.sublist List.filter_sublist)

/-- `BuildBatchTx` on the chain: the selection moves from the pool into a new batch. -/
theorem ChainSt.Keeps.buildBatch {c c' : ChainSt} {b : Batch} {sel : List Ste}
    (hsel : ∀ s ∈ sel, s ∈ c.pool) (hseln : c.pool.Nodup → sel.Nodup)
    (hbt : b.txs = sel) (hbn : b.nonce = c.lastBatchNonce + 1)
    (h1 : c'.lastSteId = c.lastSteId) (h2 : c'.lastBatchNonce = b.nonce)
    (hp : c'.pool = sel.foldl (fun p s => eraseByKey poolKey (poolKey s) p) c.pool)
    (hb : c'.batches = insertByKey batchKey b c.batches) : ChainSt.Keeps c c' := by
  apply ChainSt.Keeps.of_perm h1 (by omega)
  · intro s hs
    rcases ChainSt.mem_entries.mp hs with hs | ⟨b', hb', hs⟩
    · rw [hp] at hs
      exact ChainSt.mem_entries.mpr (.inl ((foldl_eraseByKey_sublist poolKey _ _).subset hs))
    · rw [hb] at hb'
      rcases mem_of_mem_insertByKey batchKey hb' with h | h
      · subst h; rw [hbt] at hs
        exact ChainSt.mem_entries.mpr (.inl (hsel s hs))
      · exact ChainSt.mem_entries.mpr (.inr ⟨b', h, hs⟩)
  · intro hi hbd
    have hbd1 : c.lastSteId < 2 ^ 64 := by have := hbd.1; omega
    have hpn : c.pool.Nodup := (List.nodup_append.mp hi.entries_nodup).1
    have hpp : c.pool.Perm (sel ++ c'.pool) := by
      rw [hp]
      apply foldl_eraseByKey_perm poolKey (hseln hpn) hsel hpn
      intro x hx y hy he
      exact hi.poolKey_inj hbd1 (ChainSt.mem_entries.mpr (.inl hx)) (ChainSt.mem_entries.mpr (.inl hy)) he
    have hbp : c'.batches.Perm (b :: c.batches) := by
      rw [hb]
      apply insertByKey_perm
      intro y hy he
      have := hi.brange y hy
      have := Mhub2.batchKey_inj he (by have := hbd.2; omega) (by have := hbd.2; omega)
      omega
    refine ⟨?_, ?_, ?_⟩
    · unfold ChainSt.entries
      have h3 : (c'.batches.flatMap (·.txs)).Perm (sel ++ c.batches.flatMap (·.txs)) := by
        have := hbp.flatMap_right (·.txs)
        simpa [hbt] using this
      have h4 : (c'.pool ++ c'.batches.flatMap (·.txs)).Perm
          (c'.pool ++ (sel ++ c.batches.flatMap (·.txs))) := List.Perm.append_left _ h3
      refine h4.trans ?_
      rw [← List.append_assoc]
      exact (List.perm_append_comm.trans hpp.symm).append_right _
    · refine (hbp.map (·.nonce)).symm.nodup ?_
      simp only [List.map_cons, List.nodup_cons, List.mem_map, not_exists, not_and]
      refine ⟨fun y hy he => ?_, hi.bnodup⟩
      have := hi.brange y hy
      omega
    · intro b' hb'
      rcases List.mem_cons.mp (hbp.subset hb') with h | h
      · subst h; omega
      · have := hi.brange b' h; omega

/-- `CancelBatchTx` on the chain, under the invariant: exactly the batch leaves the batch store and
    exactly its transfers enter the pool. -/
theorem ChainSt.cancelBatch_perm {c c' : ChainSt} {b : Batch} (hbm : b ∈ c.batches)
    (hp : c'.pool = b.txs.foldl (fun p s => insertByKey poolKey s p) c.pool)
    (hb : c'.batches = eraseByKey batchKey (batchKey b) c.batches) (hi : c.Inv) (hbd : c.Bounded) :
    c.batches.Perm (b :: c'.batches) ∧ c'.pool.Perm (b.txs ++ c.pool) ∧ c'.entries.Perm c.entries := by
  have hbp : c.batches.Perm (b :: c'.batches) := by
    rw [hb]
    exact eraseByKey_perm batchKey hbm (fun y hy he => hi.batchKey_inj hbd.2 hy hbm he)
  have he : c.entries.Perm (c.pool ++ (b.txs ++ c'.batches.flatMap (·.txs))) := by
    unfold ChainSt.entries
    exact List.Perm.append_left _ (by simpa using hbp.flatMap_right (·.txs))
  have he2 : c.entries.Perm ((b.txs ++ c.pool) ++ c'.batches.flatMap (·.txs)) := by
    refine he.trans ?_
    rw [← List.append_assoc]
    exact List.perm_append_comm.append_right _
  have hnd : (b.txs ++ c.pool).Nodup := (List.nodup_append.mp (he2.nodup hi.entries_nodup)).1
  have hpp : c'.pool.Perm (b.txs ++ c.pool) := by
    rw [hp]
    apply foldl_insertByKey_perm poolKey hnd
    intro x hx y hy hk
    exact hi.poolKey_inj hbd.1 (he2.symm.subset (List.mem_append_left _ hx))
      (he2.symm.subset (List.mem_append_left _ hy)) hk
  refine ⟨hbp, hpp, ?_⟩
  unfold ChainSt.entries at he2 ⊢
  exact (hpp.append_right _).trans he2.symm

/-- `CancelBatchTx` on the chain: the batch's transfers move back into the pool. -/
theorem ChainSt.Keeps.cancelBatch {c c' : ChainSt} {b : Batch} (hbm : b ∈ c.batches)
    (h1 : c'.lastSteId = c.lastSteId) (h2 : c'.lastBatchNonce = c.lastBatchNonce)
    (hp : c'.pool = b.txs.foldl (fun p s => insertByKey poolKey s p) c.pool)
    (hb : c'.batches = eraseByKey batchKey (batchKey b) c.batches) : ChainSt.Keeps c c' := by
  have hbs : c'.batches.Sublist c.batches := by rw [hb]; exact eraseByKey_sublist _ _ _
  apply ChainSt.Keeps.of_perm h1 (by omega)
  · intro s hs
    rcases ChainSt.mem_entries.mp hs with hs | ⟨b', hb', hs⟩
    · rw [hp] at hs
      rcases mem_of_mem_foldl_insertByKey poolKey hs with h | h
      · exact ChainSt.mem_entries.mpr (.inr ⟨b, hbm, h⟩)
      · exact ChainSt.mem_entries.mpr (.inl h)
    · exact ChainSt.mem_entries.mpr (.inr ⟨b', hbs.subset hb', hs⟩)
  · intro hi hbd
    have hbd' : c.Bounded := ⟨by have := hbd.1; omega, by have := hbd.2; omega⟩
    refine ⟨(ChainSt.cancelBatch_perm hbm hp hb hi hbd').2.2, hi.bnodup.sublist (hbs.map _), fun b' hb' => ?_⟩
    rw [h2]; exact hi.brange b' (hbs.subset hb')

/-! ### Hub level -/

/-- ids of one chain are pairwise distinct (pool ⊎ all batches) and lie in `1..lastSteId`;
    batch nonces of one chain are pairwise distinct and at most `lastBatchNonce`. -/
def Hub.LedgerInv (h : Hub) : Prop :=
  ∀ chain, (h.chain chain).ids.Nodup ∧
    (∀ id ∈ (h.chain chain).ids, 1 ≤ id ∧ id ≤ (h.chain chain).lastSteId) ∧
    ((h.chain chain).batches.map (·.nonce)).Nodup ∧
    (∀ b ∈ (h.chain chain).batches, b.nonce ≤ (h.chain chain).lastBatchNonce)

theorem Hub.ledgerInv_iff {h : Hub} : h.LedgerInv ↔ ∀ chain, (h.chain chain).Inv :=
  ⟨fun hi c => ⟨(hi c).1, (hi c).2.1, (hi c).2.2.1, (hi c).2.2.2⟩,
   fun hi c => ⟨(hi c).nodup, (hi c).range, (hi c).bnodup, (hi c).brange⟩⟩

/-- The id and batch-nonce counters of every chain fit in a `uint64` (as in the implementation,
    where they are `uint64` values). -/
def Hub.Bounded (h : Hub) : Prop := ∀ chain, (h.chain chain).Bounded

def Hub.Step (h h' : Hub) : Prop := ∀ chain, ChainSt.Step (h.chain chain) (h'.chain chain)
def Hub.Keeps (h h' : Hub) : Prop := ∀ chain, ChainSt.Keeps (h.chain chain) (h'.chain chain)

theorem Hub.Keeps.step {h h' : Hub} (hk : Hub.Keeps h h') : Hub.Step h h' := fun c => (hk c).toStep
theorem Hub.Step.refl (h : Hub) : Hub.Step h h := fun _ => ChainSt.Step.refl _
theorem Hub.Keeps.refl (h : Hub) : Hub.Keeps h h := fun _ => ChainSt.Keeps.refl _
theorem Hub.Step.trans {a b c : Hub} (h1 : Hub.Step a b) (h2 : Hub.Step b c) : Hub.Step a c :=
  fun x => (h1 x).trans (h2 x)
theorem Hub.Keeps.trans {a b c : Hub} (h1 : Hub.Keeps a b) (h2 : Hub.Keeps b c) : Hub.Keeps a c :=
  fun x => (h1 x).trans (h2 x)

theorem Hub.Bounded.mono {h h' : Hub} (hb : h'.Bounded) (hs : Hub.Step h h') : h.Bounded :=
  fun c => (hb c).mono (hs c).mono (hs c).monoB

theorem Hub.Step.inv {h h' : Hub} (hs : Hub.Step h h') (hi : h.LedgerInv) (hb : h'.Bounded) : h'.LedgerInv :=
  Hub.ledgerInv_iff.mpr fun c => (hs c).inv (Hub.ledgerInv_iff.mp hi c) (hb c)

theorem chain_of_cs {h h' : Hub} (e : h'.cs = h.cs) (c : String) : h'.chain c = h.chain c := by
  simp [Hub.chain, e]

theorem chain_setChain_ne (h : Hub) {c c' : String} (s : ChainSt) (hne : c ≠ c') :
    (h.setChain c s).chain c' = h.chain c' := by
  simp [Hub.chain, Hub.setChain, alGet_alSet_other _ _ _ _ hne]

theorem Hub.Keeps.of_cs {h h' : Hub} (e : h'.cs = h.cs) : Hub.Keeps h h' := by
  intro c; rw [chain_of_cs e]; exact ChainSt.Keeps.refl _
theorem Hub.Step.of_cs {h h' : Hub} (e : h'.cs = h.cs) : Hub.Step h h' := (Hub.Keeps.of_cs e).step

theorem Hub.Keeps.setChain {h : Hub} {c : String} {s : ChainSt} (hk : ChainSt.Keeps (h.chain c) s) :
    Hub.Keeps h (h.setChain c s) := by
  intro x
  by_cases hx : c = x
  · subst hx; rw [chain_setChain]; exact hk
  · rw [chain_setChain_ne _ _ hx]; exact ChainSt.Keeps.refl _

theorem Hub.Step.setChain {h : Hub} {c : String} {s : ChainSt} (hk : ChainSt.Step (h.chain c) s) :
    Hub.Step h (h.setChain c s) := by
  intro x
  by_cases hx : c = x
  · subst hx; rw [chain_setChain]; exact hk
  · rw [chain_setChain_ne _ _ hx]; exact ChainSt.Step.refl _

@[simp] theorem setStatus_cs (h : Hub) (tx : String) (st : Nat) (o : String) : (h.setStatus tx st o).cs = h.cs := rfl
@[simp] theorem credit_cs (h : Hub) (a d : String) (x : Int) : (h.credit a d x).cs = h.cs := rfl
@[simp] theorem setStatus_time (h : Hub) (tx : String) (st : Nat) (o : String) : (h.setStatus tx st o).time = h.time := rfl
@[simp] theorem credit_time (h : Hub) (a d : String) (x : Int) : (h.credit a d x).time = h.time := rfl
@[simp] theorem setChain_time (h : Hub) (c : String) (s : ChainSt) : (h.setChain c s).time = h.time := rfl

theorem mintTo_cs {h h' : Hub} {acc d : String} {amt : Int} (hm : h.mintTo acc d amt = .ok h') :
    h'.cs = h.cs ∧ h'.time = h.time := by
  unfold Hub.mintTo at hm
  split at hm
  · simp [failM] at hm
  · simp at hm; subst hm; exact ⟨rfl, rfl⟩

theorem burnFrom_cs {h h' : Hub} {acc d : String} {amt : Int} (hm : h.burnFrom acc d amt = .ok h') :
    h'.cs = h.cs ∧ h'.time = h.time := by
  unfold Hub.burnFrom at hm
  split at hm
  · simp [failM] at hm
  · split at hm
    · simp [failM] at hm
    · simp at hm; subst hm; exact ⟨rfl, rfl⟩

/-! ### `createSendToExternal` -/

/-- Raw effect of a successful `createSte`. -/
theorem createSte_ok {h h' : Hub} {chain sender rcp denom tx rc ra : String} {a f cm : Int} {id : Nat}
    (hok : h.createSte chain sender rcp denom a f cm tx rc ra = .ok (h', id)) :
    ∃ (h1 : Hub) (ste : Ste), h1.cs = h.cs ∧ h1.time = h.time ∧
      ste.id = (h.chain chain).lastSteId + 1 ∧ id = ste.id ∧ ste.createdAt = h.time ∧
      ste.chain = chain ∧ ste.txHash = tx ∧ ste.refundChain = rc ∧
      h' = h1.setChain chain { (h.chain chain) with
              lastSteId := ste.id, pool := insertByKey poolKey ste (h.chain chain).pool } := by
  unfold Hub.createSte at hok
  simp only [bind, Except.bind] at hok
  split at hok
  · rename_i tok htok
    split at hok
    · simp at hok
    · rename_i v hv
      simp only [pure, Except.pure, Except.ok.injEq, Prod.mk.injEq] at hok
      obtain ⟨hh, hid⟩ := hok
      obtain ⟨hcs, htime⟩ := burnFrom_cs hv
      have hc : v.chain chain = h.chain chain := chain_of_cs hcs chain
      rw [hc] at hh hid
      refine ⟨v, _, hcs, htime, rfl, hid.symm, htime, rfl, rfl, rfl, hh.symm⟩
  · simp [failM] at hok

theorem createSte_keeps {h h' : Hub} {chain sender rcp denom tx rc ra : String} {a f cm : Int} {id : Nat}
    (hok : h.createSte chain sender rcp denom a f cm tx rc ra = .ok (h', id)) : Hub.Keeps h h' := by
  obtain ⟨h1, ste, hcs, _, hid, _, _, _, _, _, rfl⟩ := createSte_ok hok
  refine (Hub.Keeps.of_cs hcs).trans (Hub.Keeps.setChain ?_)
  rw [chain_of_cs hcs]
  exact ChainSt.Keeps.addPool hid rfl rfl rfl rfl

theorem createSte_other {h h' : Hub} {chain sender rcp denom tx rc ra : String} {a f cm : Int} {id : Nat}
    (hok : h.createSte chain sender rcp denom a f cm tx rc ra = .ok (h', id)) {c : String} (hne : chain ≠ c) :
    h'.chain c = h.chain c := by
  obtain ⟨h1, ste, hcs, _, hid, _, _, _, _, _, rfl⟩ := createSte_ok hok
  rw [chain_setChain_ne _ _ hne, chain_of_cs hcs]

/-! ### `cancelSendToExternal` -/

theorem getLast?_filter_reverse {α : Type} {p : α → Bool} {l : List α} {s : α}
    (h : (l.reverse.filter p).getLast? = some s) : s ∈ l ∧ p s = true := by
  have := List.mem_of_getLast? h
  simpa using this

/-- The last step of a successful cancel: status write and removal from the pool. -/
def Hub.cancelFinish (h : Hub) (chain : String) (s : Ste) : Hub :=
  let h' := h.setStatus s.txHash stRefunded ""
  h'.setChain chain { (h'.chain chain) with pool := eraseByKey poolKey (poolKey s) (h'.chain chain).pool }

/-- Decomposition of `cancelSte`: either it fails and no store of any chain changed, or it found
    the pool entry `s` with the given id, went through an intermediate state `hm` that is either
    ledger-equal to `h` or `h` after one `createSte` on the refund chain, and finished by removing
    `s` from the pool. -/
theorem cancelSte_cases (h : Hub) (chain : String) (id : Nat) (sender : String) :
    (∃ e, (h.cancelSte chain id sender).2 = some e ∧ (h.cancelSte chain id sender).1.cs = h.cs ∧
        (h.cancelSte chain id sender).1.time = h.time ∧ (h.cancelSte chain id sender).1.status = h.status) ∨
    (∃ s hm, s ∈ (h.chain chain).pool ∧ s.id = id ∧ s.sender = sender ∧
      h.cancelSte chain id sender = (hm.cancelFinish chain s, none) ∧
      ((hm.cs = h.cs ∧ hm.time = h.time ∧ hm.status = h.status ∧ (s.refundChain = "" ∨ s.refundChain = "hub")) ∨
       (∃ (h1 : Hub) (denom : String) (total : Int) (nid : Nat), h1.cs = h.cs ∧ h1.time = h.time ∧
          h1.status = h.status ∧ s.refundChain ≠ "" ∧ s.refundChain ≠ "hub" ∧
          h1.createSte s.refundChain tempAddr s.refundAddr denom total 0 0 "#" "" "" = .ok (hm, nid)))) := by
  unfold Hub.cancelSte
  simp only []
  split
  · exact .inl ⟨_, rfl, rfl, rfl, rfl⟩
  · rename_i s hs
    obtain ⟨hsm, hsid⟩ := getLast?_filter_reverse hs
    have hsid : s.id = id := by simpa using hsid
    split
    · exact .inl ⟨_, rfl, rfl, rfl, rfl⟩
    · rename_i hsender
      have hsender : s.sender = sender := by
        simp only [bne_iff_ne, ne_eq, Decidable.not_not] at hsender; exact hsender.symm
      split
      · exact .inl ⟨_, rfl, rfl, rfl, rfl⟩
      · split
        · rename_i hrc
          refine .inr ⟨s, _, hsm, hsid, hsender, rfl, .inl ⟨?_, ?_, ?_, .inl (by simpa using hrc)⟩⟩
          all_goals (split <;> rfl)
        · split
          · rename_i hrc
            refine .inr ⟨s, _, hsm, hsid, hsender, rfl, .inl ⟨?_, ?_, ?_, .inr (by simpa using hrc)⟩⟩
            all_goals (split <;> rfl)
          · rename_i hrc1 hrc2
            split
            · refine .inl ⟨_, rfl, ?_, ?_, ?_⟩
              all_goals (split <;> rfl)
            · rename_i h2 nid hc
              refine .inr ⟨s, h2, hsm, hsid, hsender, rfl, .inr ⟨_, _, _, nid, ?_, ?_, ?_, by simpa using hrc1,
                by simpa using hrc2, hc⟩⟩
              all_goals (split <;> rfl)

theorem cancelFinish_step (h : Hub) (chain : String) (s : Ste) : Hub.Step h (h.cancelFinish chain s) := by
  unfold Hub.cancelFinish
  refine (Hub.Step.of_cs (setStatus_cs h _ _ _)).trans (Hub.Step.setChain ?_)
  exact ChainSt.Step.of_sublist rfl rfl (eraseByKey_sublist _ _ _) (List.Sublist.refl _)

theorem cancelFinish_chain (h : Hub) (chain : String) (s : Ste) :
    ((h.cancelFinish chain s).chain chain).pool = eraseByKey poolKey (poolKey s) (h.chain chain).pool ∧
    ((h.cancelFinish chain s).chain chain).batches = (h.chain chain).batches ∧
    ((h.cancelFinish chain s).chain chain).lastSteId = (h.chain chain).lastSteId ∧
    ((h.cancelFinish chain s).chain chain).lastBatchNonce = (h.chain chain).lastBatchNonce ∧
    ∀ c, chain ≠ c → (h.cancelFinish chain s).chain c = h.chain c := by
  unfold Hub.cancelFinish
  simp only [chain_setChain]
  have e : ∀ c, (h.setStatus s.txHash stRefunded "").chain c = h.chain c := fun c => chain_of_cs rfl c
  refine ⟨by rw [e], by rw [e], by rw [e], by rw [e], fun c hc => ?_⟩
  rw [chain_setChain_ne _ _ hc, e]

/-- Whatever `cancelSte` returns, the state it returns is one ledger step away. -/
theorem cancelSte_step (h : Hub) (chain : String) (id : Nat) (sender : String) :
    Hub.Step h (h.cancelSte chain id sender).1 := by
  rcases cancelSte_cases h chain id sender with ⟨e, _, hcs, _⟩ | ⟨s, hm, _, _, _, heq, hmid⟩
  · exact Hub.Step.of_cs hcs
  · rw [heq]
    refine Hub.Step.trans ?_ (cancelFinish_step hm chain s)
    rcases hmid with ⟨hcs, _⟩ | ⟨h1, _, _, _, hcs, _, _, _, _, hc⟩
    · exact Hub.Step.of_cs hcs
    · exact (Hub.Step.of_cs hcs).trans (createSte_keeps hc).step

theorem cancelMsg_ok {h h' : Hub} {sender chain : String} {id : Nat} (hok : h.cancelMsg sender chain id = .ok h') :
    h.cancelSte chain id sender = (h', none) := by
  unfold Hub.cancelMsg at hok
  split at hok
  · simp [failM] at hok
  · split at hok
    · simp [failM] at hok
    · split at hok
      · rename_i heq; simp at hok; subst hok; exact heq
      · simp at hok

theorem cancelMsg_step {h h' : Hub} {sender chain : String} {id : Nat} (hok : h.cancelMsg sender chain id = .ok h') :
    Hub.Step h h' := by
  have := cancelSte_step h chain id sender
  rw [cancelMsg_ok hok] at this
  exact this

/-! ### Batches -/

theorem foldl_setStatus_cs {α : Type} (l : List α) (f : α → String) (st : Nat) (o : String) (h : Hub) :
    (l.foldl (fun h s => h.setStatus (f s) st o) h).cs = h.cs ∧
    (l.foldl (fun h s => h.setStatus (f s) st o) h).time = h.time := by
  induction l generalizing h with
  | nil => exact ⟨rfl, rfl⟩
  | cons x xs ih => simp only [List.foldl_cons]; rw [(ih _).1, (ih _).2]; exact ⟨rfl, rfl⟩

theorem buildBatch_keeps (h : Hub) (chain tok : String) (n : Nat) : Hub.Keeps h (h.buildBatch chain tok n).1 := by
  unfold Hub.buildBatch
  simp only []
  split
  · exact Hub.Keeps.refl h
  · have hcs := (foldl_setStatus_cs (selectForBatch (h.chain chain).pool tok n) (·.txHash) stBatchCreated "" h).1
    refine (Hub.Keeps.of_cs hcs).trans (Hub.Keeps.setChain ?_)
    rw [chain_of_cs hcs]
    exact ChainSt.Keeps.buildBatch (b := ⟨_, _, _, _, _, _⟩) (fun s hs => (selectForBatch_sub hs).1)
      (selectForBatch_nodup tok n) rfl rfl rfl rfl rfl rfl

theorem findBatch_some {h : Hub} {chain tok : String} {n : Nat} {b : Batch} (hf : h.findBatch chain tok n = some b) :
    b ∈ (h.chain chain).batches ∧ batchKey b = batchKeyOf tok n := by
  unfold Hub.findBatch at hf
  exact find?_key_eq batchKey hf

theorem cancelBatch_ok {h h' : Hub} {chain tok : String} {n : Nat} (hok : h.cancelBatch chain tok n = .ok h') :
    chain ≠ "minter" ∧ ∃ b, h.findBatch chain tok n = some b ∧
      h' = h.setChain chain { (h.chain chain) with
        pool := b.txs.foldl (fun p s => insertByKey poolKey s p) (h.chain chain).pool,
        batches := eraseByKey batchKey (batchKey b) (h.chain chain).batches } := by
  unfold Hub.cancelBatch at hok
  split at hok
  · simp [panicM] at hok
  · rename_i hne
    split at hok
    · simp [panicM] at hok
    · rename_i b hb
      simp only [Except.ok.injEq] at hok
      exact ⟨by simpa using hne, b, hb, hok.symm⟩

theorem cancelBatch_keeps {h h' : Hub} {chain tok : String} {n : Nat} (hok : h.cancelBatch chain tok n = .ok h') :
    Hub.Keeps h h' := by
  obtain ⟨_, b, hb, rfl⟩ := cancelBatch_ok hok
  exact Hub.Keeps.setChain (ChainSt.Keeps.cancelBatch (findBatch_some hb).1 rfl rfl rfl rfl)

/-- Effect of a successful `cancelBatch`, as equations on the chain's state. -/
theorem cancelBatch_eff {h h' : Hub} {chain tok : String} {n : Nat} (hok : h.cancelBatch chain tok n = .ok h') :
    chain ≠ "minter" ∧ ∃ b, h.findBatch chain tok n = some b ∧
      (h'.chain chain).pool = b.txs.foldl (fun p s => insertByKey poolKey s p) (h.chain chain).pool ∧
      (h'.chain chain).batches = eraseByKey batchKey (batchKey b) (h.chain chain).batches ∧
      (h'.chain chain).lastSteId = (h.chain chain).lastSteId ∧
      (h'.chain chain).lastBatchNonce = (h.chain chain).lastBatchNonce ∧
      (h'.chain chain).obsExtHeight = (h.chain chain).obsExtHeight ∧
      ∀ c, chain ≠ c → h'.chain c = h.chain c := by
  obtain ⟨hne, b, hb, rfl⟩ := cancelBatch_ok hok
  refine ⟨hne, b, hb, ?_, ?_, ?_, ?_, ?_, fun c hc => chain_setChain_ne _ _ hc⟩ <;> rw [chain_setChain]

/-! ### Folds in the `Except` monad -/

theorem foldlM_cons_ok {α β : Type} {f : β → α → M β} {x : α} {xs : List α} {b b' : β}
    (h : (x :: xs).foldlM f b = .ok b') : ∃ b1, f b x = .ok b1 ∧ xs.foldlM f b1 = .ok b' := by
  simp only [List.foldlM_cons, bind, Except.bind] at h
  split at h
  · simp at h
  · rename_i b1 hb1; exact ⟨b1, hb1, h⟩

/-- A fold of steps that each establish a reflexive, transitive relation establishes it. -/
theorem foldlM_rel {α β : Type} (R : β → β → Prop) (hrefl : ∀ b, R b b)
    (htrans : ∀ {a b c}, R a b → R b c → R a c) {f : β → α → M β} (l : List α)
    (hf : ∀ b x b', x ∈ l → f b x = .ok b' → R b b') {b b' : β} (hok : l.foldlM f b = .ok b') : R b b' := by
  induction l generalizing b with
  | nil => simp [pure, Except.pure] at hok; subst hok; exact hrefl _
  | cons x xs ih =>
    obtain ⟨b1, h1, h2⟩ := foldlM_cons_ok hok
    exact htrans (hf b x b1 List.mem_cons_self h1)
      (ih (fun b x b' hx => hf b x b' (List.mem_cons_of_mem _ hx)) h2)

theorem foldl_rel {α β : Type} (R : β → β → Prop) (hrefl : ∀ b, R b b)
    (htrans : ∀ {a b c}, R a b → R b c → R a c) {f : β → α → β} (l : List α)
    (hf : ∀ b x, x ∈ l → R b (f b x)) (b : β) : R b (l.foldl f b) := by
  induction l generalizing b with
  | nil => exact hrefl _
  | cons x xs ih =>
    exact htrans (hf b x List.mem_cons_self) (ih (fun b x hx => hf b x (List.mem_cons_of_mem _ hx)) _)

/-! ### Operations that leave pools, batches and their counters alone -/

/-- Pools, batches and the two counters of every chain are the same. -/
def Hub.SameLedger (h h' : Hub) : Prop :=
  ∀ c, (h'.chain c).pool = (h.chain c).pool ∧ (h'.chain c).batches = (h.chain c).batches ∧
    (h'.chain c).lastSteId = (h.chain c).lastSteId ∧ (h'.chain c).lastBatchNonce = (h.chain c).lastBatchNonce

theorem Hub.SameLedger.refl (h : Hub) : Hub.SameLedger h h := fun _ => ⟨rfl, rfl, rfl, rfl⟩
theorem Hub.SameLedger.trans {a b c : Hub} (h1 : Hub.SameLedger a b) (h2 : Hub.SameLedger b c) :
    Hub.SameLedger a c := fun x => by
  obtain ⟨a1, a2, a3, a4⟩ := h1 x
  obtain ⟨b1, b2, b3, b4⟩ := h2 x
  exact ⟨b1.trans a1, b2.trans a2, b3.trans a3, b4.trans a4⟩

theorem Hub.SameLedger.of_cs {h h' : Hub} (e : h'.cs = h.cs) : Hub.SameLedger h h' := fun c => by
  rw [chain_of_cs e]; exact ⟨rfl, rfl, rfl, rfl⟩

theorem Hub.SameLedger.setChain {h : Hub} {c : String} {s : ChainSt} (h1 : s.pool = (h.chain c).pool)
    (h2 : s.batches = (h.chain c).batches) (h3 : s.lastSteId = (h.chain c).lastSteId)
    (h4 : s.lastBatchNonce = (h.chain c).lastBatchNonce) : Hub.SameLedger h (h.setChain c s) := by
  intro x
  by_cases hx : c = x
  · subst hx; rw [chain_setChain]; exact ⟨h1, h2, h3, h4⟩
  · rw [chain_setChain_ne _ _ hx]; exact ⟨rfl, rfl, rfl, rfl⟩

theorem ChainSt.ids_of_same {c c' : ChainSt} (hp : c'.pool = c.pool) (hb : c'.batches = c.batches) :
    c'.ids = c.ids ∧ c'.entries = c.entries := by
  simp [ChainSt.ids, ChainSt.entries, hp, hb]

theorem ChainSt.Keeps.of_same {c c' : ChainSt} (hp : c'.pool = c.pool) (hb : c'.batches = c.batches)
    (h1 : c'.lastSteId = c.lastSteId) (h2 : c'.lastBatchNonce = c.lastBatchNonce) : ChainSt.Keeps c c' := by
  have he := (ChainSt.ids_of_same hp hb).2
  apply ChainSt.Keeps.of_perm h1 (by omega)
  · intro s hs; rw [← he]; exact hs
  · intro hi _
    rw [he, hb, h2]
    exact ⟨List.Perm.refl _, hi.bnodup, hi.brange⟩

theorem Hub.SameLedger.keeps {h h' : Hub} (hs : Hub.SameLedger h h') : Hub.Keeps h h' := fun c =>
  ChainSt.Keeps.of_same (hs c).1 (hs c).2.1 (hs c).2.2.1 (hs c).2.2.2

/-- Only the named chain's state may differ. -/
def Hub.OnlyChain (chain : String) (h h' : Hub) : Prop := ∀ c, chain ≠ c → h'.chain c = h.chain c

theorem Hub.OnlyChain.refl (chain : String) (h : Hub) : Hub.OnlyChain chain h h := fun _ _ => rfl
theorem Hub.OnlyChain.trans {chain : String} {a b c : Hub} (h1 : Hub.OnlyChain chain a b)
    (h2 : Hub.OnlyChain chain b c) : Hub.OnlyChain chain a c := fun x hx => (h2 x hx).trans (h1 x hx)
theorem Hub.OnlyChain.of_cs {chain : String} {h h' : Hub} (e : h'.cs = h.cs) : Hub.OnlyChain chain h h' :=
  fun c _ => chain_of_cs e c
theorem Hub.OnlyChain.setChain (h : Hub) (chain : String) (s : ChainSt) :
    Hub.OnlyChain chain h (h.setChain chain s) := fun _ hc => chain_setChain_ne _ _ hc

theorem buildBatch_only (h : Hub) (chain tok : String) (n : Nat) :
    Hub.OnlyChain chain h (h.buildBatch chain tok n).1 := by
  unfold Hub.buildBatch
  simp only []
  split
  · exact Hub.OnlyChain.refl _ _
  · have hcs := (foldl_setStatus_cs (selectForBatch (h.chain chain).pool tok n) (·.txHash) stBatchCreated "" h).1
    exact (Hub.OnlyChain.of_cs hcs).trans (Hub.OnlyChain.setChain _ _ _)

theorem cancelBatch_only {h h' : Hub} {chain tok : String} {n : Nat} (hok : h.cancelBatch chain tok n = .ok h') :
    Hub.OnlyChain chain h h' := by
  obtain ⟨_, b, _, rfl⟩ := cancelBatch_ok hok
  exact Hub.OnlyChain.setChain _ _ _

/-! ### Sequences of batch cancellations on one chain -/

/-- `h` evolved from `h0` by cancelling batches of `chain` that satisfy `P` (both states satisfy the
    invariant and the `uint64` bound). -/
structure CancelEvo (chain : String) (P : Batch → Prop) (h0 h : Hub) : Prop where
  inv0 : h0.LedgerInv
  bnd0 : h0.Bounded
  inv : h.LedgerInv
  bnd : h.Bounded
  keeps : Hub.Keeps h0 h
  only : Hub.OnlyChain chain h0 h
  bsub : (h.chain chain).batches.Sublist (h0.chain chain).batches
  removed : ∀ b ∈ (h0.chain chain).batches, b ∉ (h.chain chain).batches →
    P b ∧ ∀ t ∈ b.txs, t ∈ (h.chain chain).pool
  poolKeep : ∀ s ∈ (h0.chain chain).pool, s ∈ (h.chain chain).pool
  ctr : (h.chain chain).lastSteId = (h0.chain chain).lastSteId ∧
        (h.chain chain).lastBatchNonce = (h0.chain chain).lastBatchNonce ∧
        (h.chain chain).obsExtHeight = (h0.chain chain).obsExtHeight

theorem CancelEvo.refl (chain : String) (P : Batch → Prop) {h : Hub} (hi : h.LedgerInv) (hb : h.Bounded) :
    CancelEvo chain P h h :=
  ⟨hi, hb, hi, hb, Hub.Keeps.refl h, Hub.OnlyChain.refl _ _, List.Sublist.refl _,
   fun _ hb hnb => absurd hb hnb, fun _ hs => hs, rfl, rfl, rfl⟩

/-- One more cancellation. -/
theorem CancelEvo.cancel {chain : String} {P : Batch → Prop} {h0 h h' : Hub} {tok : String} {n : Nat}
    (he : CancelEvo chain P h0 h) (hok : h.cancelBatch chain tok n = .ok h')
    (hP : ∀ b0 ∈ (h0.chain chain).batches, batchKey b0 = batchKeyOf tok n → P b0) :
    CancelEvo chain P h0 h' ∧
    (∀ b0 ∈ (h.chain chain).batches, batchKey b0 = batchKeyOf tok n → b0 ∉ (h'.chain chain).batches) := by
  have hkeeps := cancelBatch_keeps hok
  have honly := cancelBatch_only hok
  obtain ⟨_, b, hfb, e1, e2, e3, e4, e5, e6⟩ := cancelBatch_eff hok
  obtain ⟨hbm, hbk⟩ := findBatch_some hfb
  have hci := Hub.ledgerInv_iff.mp he.inv chain
  obtain ⟨hbp, hpp, _⟩ := ChainSt.cancelBatch_perm hbm e1 e2 hci (he.bnd chain)
  have hbnd' : h'.Bounded := by
    intro c
    by_cases hc : chain = c
    · subst hc; exact ⟨by rw [e3]; exact (he.bnd chain).1, by rw [e4]; exact (he.bnd chain).2⟩
    · rw [e6 c hc]; exact he.bnd c
  have hsub' : (h'.chain chain).batches.Sublist (h.chain chain).batches := by
    rw [e2]; exact eraseByKey_sublist _ _ _
  constructor
  · refine ⟨he.inv0, he.bnd0, hkeeps.step.inv he.inv hbnd', hbnd', he.keeps.trans hkeeps,
      he.only.trans honly, hsub'.trans he.bsub, ?_, ?_, ?_⟩
    · intro b1 hb1 hnb1
      by_cases hin : b1 ∈ (h.chain chain).batches
      · have : b1 = b := by
          rcases List.mem_cons.mp (hbp.subset hin) with h1 | h1
          · exact h1
          · exact absurd h1 hnb1
        subst this
        exact ⟨hP b1 hb1 hbk, fun t ht => hpp.symm.subset (List.mem_append_left _ ht)⟩
      · obtain ⟨hp1, hp2⟩ := he.removed b1 hb1 hin
        exact ⟨hp1, fun t ht => hpp.symm.subset (List.mem_append_right _ (hp2 t ht))⟩
    · intro s hs
      exact hpp.symm.subset (List.mem_append_right _ (he.poolKeep s hs))
    · rw [e3, e4, e5]; exact he.ctr
  · intro b0 hb0 hk0
    have : b0 = b := hci.batchKey_inj (he.bnd chain).2 hb0 hbm (hk0.trans hbk.symm)
    subst this
    have hnd : (b0 :: (h'.chain chain).batches).Nodup :=
      hbp.nodup (nodup_of_map (·.nonce) hci.bnodup)
    exact (List.nodup_cons.mp hnd).1

/-- A fold of steps each of which is either a no-op or the cancellation of the batch it visits. -/
theorem CancelEvo.fold {chain : String} {P Q : Batch → Prop} {f : Hub → Batch → M Hub} {h0 : Hub}
    (L : List Batch) (hL : ∀ o ∈ L, o ∈ (h0.chain chain).batches)
    (hf : ∀ h o h', o ∈ L → f h o = .ok h' →
      h' = h ∨ (P o ∧ h.cancelBatch chain o.extToken o.nonce = .ok h'))
    (hq : ∀ h o, o ∈ L → Q o → f h o = h.cancelBatch chain o.extToken o.nonce)
    {h h' : Hub} (he : CancelEvo chain P h0 h) (hok : L.foldlM f h = .ok h') :
    CancelEvo chain P h0 h' ∧ (h'.chain chain).batches.Sublist (h.chain chain).batches ∧
    ∀ o ∈ L, Q o → o ∉ (h'.chain chain).batches := by
  induction L generalizing h with
  | nil =>
    simp [pure, Except.pure] at hok; subst hok
    exact ⟨he, List.Sublist.refl _, fun _ ho => by cases ho⟩
  | cons o os ih =>
    obtain ⟨h1, hs1, hs2⟩ := foldlM_cons_ok hok
    have hom : o ∈ (h0.chain chain).batches := hL o List.mem_cons_self
    have hkey : ∀ b0 ∈ (h0.chain chain).batches, batchKey b0 = batchKeyOf o.extToken o.nonce → b0 = o := by
      intro b0 hb0 hk
      exact (Hub.ledgerInv_iff.mp he.inv0 chain).batchKey_inj (he.bnd0 chain).2 hb0 hom hk
    have hstep : CancelEvo chain P h0 h1 ∧ (h1.chain chain).batches.Sublist (h.chain chain).batches ∧
        (Q o → o ∉ (h1.chain chain).batches) := by
      rcases hf h o h1 List.mem_cons_self hs1 with heq | ⟨hPo, hc⟩
      · subst heq
        refine ⟨he, List.Sublist.refl _, fun hQ => ?_⟩
        have hc := hq h1 o List.mem_cons_self hQ
        rw [hs1] at hc
        -- a successful cancellation that returns the same state is impossible
        obtain ⟨_, b, hfb, e1, e2, _⟩ := cancelBatch_eff hc.symm
        have hbp := (ChainSt.cancelBatch_perm (findBatch_some hfb).1 e1 e2
          (Hub.ledgerInv_iff.mp he.inv chain) (he.bnd chain)).1
        have hlen := hbp.length_eq
        simp at hlen
      · obtain ⟨hev, hrm⟩ := he.cancel hc (fun b0 hb0 hk => by rw [hkey b0 hb0 hk]; exact hPo)
        obtain ⟨_, b, _, _, e2, _⟩ := cancelBatch_eff hc
        have hsl : (h1.chain chain).batches.Sublist (h.chain chain).batches := by
          rw [e2]; exact eraseByKey_sublist _ _ _
        refine ⟨hev, hsl, fun _ hin => ?_⟩
        by_cases hin0 : o ∈ (h.chain chain).batches
        · exact hrm o hin0 rfl hin
        · exact hin0 (hsl.subset hin)
    obtain ⟨hev1, hsub1, hq1⟩ := hstep
    obtain ⟨hev', hsub', hq'⟩ := ih (fun o ho => hL o (List.mem_cons_of_mem _ ho))
      (fun h o h' ho => hf h o h' (List.mem_cons_of_mem _ ho))
      (fun h o ho => hq h o (List.mem_cons_of_mem _ ho)) hev1 hs2
    refine ⟨hev', hsub'.trans hsub1, fun x hx hQ => ?_⟩
    rcases List.mem_cons.mp hx with hx | hx
    · subst hx; exact fun hin => hq1 hQ (hsub'.subset hin)
    · exact hq' x hx hQ

/-! ### Begin block -/

/-- Effect of `cleanupTimedOutBatches` from a state satisfying the invariant. -/
theorem cleanup_evo {h h' : Hub} {chain : String} (hi : h.LedgerInv) (hb : h.Bounded)
    (hok : h.cleanupTimedOutBatches chain = .ok h') :
    CancelEvo chain (fun b => b.timeout < (h.chain chain).obsExtHeight) h h' ∧
    ∀ o ∈ (h.chain chain).batches, o.timeout < (h.chain chain).obsExtHeight → o ∉ (h'.chain chain).batches := by
  unfold Hub.cleanupTimedOutBatches at hok
  simp only [] at hok
  obtain ⟨h1, _, h3⟩ := CancelEvo.fold (chain := chain)
    (P := fun b => b.timeout < (h.chain chain).obsExtHeight)
    (Q := fun b => b.timeout < (h.chain chain).obsExtHeight) (h0 := h)
    (h.chain chain).batches.reverse (fun o ho => List.mem_reverse.mp ho)
    (fun h2 o h2' _ hf => by
      split at hf
      · rename_i hlt; exact .inr ⟨hlt, hf⟩
      · simp [pure, Except.pure] at hf; exact .inl hf.symm)
    (fun h2 o _ hQ => by simp only [hQ, if_true])
    (CancelEvo.refl chain _ hi hb) hok
  exact ⟨h1, fun o ho => h3 o (List.mem_reverse.mpr ho)⟩

theorem cleanup_keeps {h h' : Hub} {chain : String} (hok : h.cleanupTimedOutBatches chain = .ok h') :
    Hub.Keeps h h' ∧ Hub.OnlyChain chain h h' := by
  unfold Hub.cleanupTimedOutBatches at hok
  simp only [] at hok
  refine foldlM_rel (fun a b => Hub.Keeps a b ∧ Hub.OnlyChain chain a b)
    (fun a => ⟨Hub.Keeps.refl a, Hub.OnlyChain.refl _ a⟩)
    (fun h1 h2 => ⟨h1.1.trans h2.1, h1.2.trans h2.2⟩) _ ?_ hok
  intro a o a' _ hf
  split at hf
  · exact ⟨cancelBatch_keeps hf, cancelBatch_only hf⟩
  · simp [pure, Except.pure] at hf; subst hf; exact ⟨Hub.Keeps.refl _, Hub.OnlyChain.refl _ _⟩

theorem createSignerSet_same {h h' : Hub} {chain : String} (hok : h.createSignerSet chain = .ok h') :
    Hub.SameLedger h h' ∧ Hub.OnlyChain chain h h' := by
  unfold Hub.createSignerSet at hok
  simp only [bind, Except.bind] at hok
  split at hok
  · simp at hok
  · simp only [pure, Except.pure, Except.ok.injEq] at hok
    subst hok
    exact ⟨Hub.SameLedger.setChain rfl rfl rfl rfl, Hub.OnlyChain.setChain _ _ _⟩

theorem createSignerSetTxs_same {h h' : Hub} {chain : String} (hok : h.createSignerSetTxs chain = .ok h') :
    Hub.SameLedger h h' ∧ Hub.OnlyChain chain h h' := by
  unfold Hub.createSignerSetTxs at hok
  split at hok
  · exact createSignerSet_same hok
  · simp only [bind, Except.bind] at hok
    split at hok
    · simp at hok
    · split at hok
      · exact createSignerSet_same hok
      · simp only [pure, Except.pure, Except.ok.injEq] at hok
        subst hok; exact ⟨Hub.SameLedger.refl _, Hub.OnlyChain.refl _ _⟩

theorem pruneSignerSets_same (h : Hub) (chain : String) :
    Hub.SameLedger h (h.pruneSignerSets chain) ∧ Hub.OnlyChain chain h (h.pruneSignerSets chain) := by
  unfold Hub.pruneSignerSets
  simp only []
  split
  · exact ⟨Hub.SameLedger.refl _, Hub.OnlyChain.refl _ _⟩
  · split
    · exact ⟨Hub.SameLedger.refl _, Hub.OnlyChain.refl _ _⟩
    · exact ⟨Hub.SameLedger.setChain rfl rfl rfl rfl, Hub.OnlyChain.setChain _ _ _⟩

/-- A step that loses nothing and, under the invariant, keeps every batch of chain `c0`. -/
def Hub.BatchesKept (c0 : String) (h h' : Hub) : Prop :=
  Hub.Keeps h h' ∧ (h.LedgerInv → h'.Bounded → ∀ b ∈ (h.chain c0).batches, b ∈ (h'.chain c0).batches)

theorem Hub.BatchesKept.refl (c0 : String) (h : Hub) : Hub.BatchesKept c0 h h :=
  ⟨Hub.Keeps.refl h, fun _ _ _ hb => hb⟩

theorem Hub.BatchesKept.trans {c0 : String} {a b c : Hub} (h1 : Hub.BatchesKept c0 a b)
    (h2 : Hub.BatchesKept c0 b c) : Hub.BatchesKept c0 a c := by
  refine ⟨h1.1.trans h2.1, fun hi hb x hx => ?_⟩
  have hbb := hb.mono h2.1.step
  exact h2.2 (h1.1.step.inv hi hbb) hb x (h1.2 hi hbb x hx)

theorem Hub.BatchesKept.of_same {c0 : String} {h h' : Hub} (hs : Hub.SameLedger h h') :
    Hub.BatchesKept c0 h h' :=
  ⟨hs.keeps, fun _ _ b hb => by rw [(hs c0).2.1]; exact hb⟩

theorem Hub.BatchesKept.of_only {c0 chain : String} {h h' : Hub} (hk : Hub.Keeps h h')
    (ho : Hub.OnlyChain chain h h') (hne : chain ≠ c0) : Hub.BatchesKept c0 h h' :=
  ⟨hk, fun _ _ b hb => by rw [ho c0 hne]; exact hb⟩

/-- Effect of `buildBatch`, as equations on the chain's state. -/
theorem buildBatch_eff (h : Hub) (chain tok : String) (n : Nat) :
    ((h.buildBatch chain tok n).2 = none ∧ (h.buildBatch chain tok n).1 = h) ∨
    ∃ b, (h.buildBatch chain tok n).2 = some b ∧
      b.txs = selectForBatch (h.chain chain).pool tok n ∧ b.txs ≠ [] ∧ b.extToken = tok ∧
      b.nonce = (h.chain chain).lastBatchNonce + 1 ∧
      ((h.buildBatch chain tok n).1.chain chain).batches = insertByKey batchKey b (h.chain chain).batches ∧
      ((h.buildBatch chain tok n).1.chain chain).pool =
        b.txs.foldl (fun p s => eraseByKey poolKey (poolKey s) p) (h.chain chain).pool ∧
      ((h.buildBatch chain tok n).1.chain chain).lastSteId = (h.chain chain).lastSteId ∧
      ((h.buildBatch chain tok n).1.chain chain).lastBatchNonce = b.nonce := by
  unfold Hub.buildBatch
  simp only []
  split
  · exact .inl ⟨rfl, rfl⟩
  · rename_i hne
    refine .inr ⟨_, rfl, rfl, ?_, rfl, rfl, ?_, ?_, ?_, ?_⟩
    · intro he; simp only [] at he; rw [he] at hne; simp at hne
    all_goals rw [chain_setChain]

theorem buildBatch_bk (c0 : String) (h : Hub) (chain tok : String) (n : Nat) :
    Hub.BatchesKept c0 h (h.buildBatch chain tok n).1 := by
  by_cases hc : chain = c0
  · subst hc
    refine ⟨buildBatch_keeps h chain tok n, fun hi hb x hx => ?_⟩
    rcases buildBatch_eff h chain tok n with ⟨_, he⟩ | ⟨b, _, _, _, _, hbn, hbb, _, _, hl⟩
    · rw [he]; exact hx
    · rw [hbb]
      have hci := Hub.ledgerInv_iff.mp hi chain
      have hbd := hb chain
      have : (insertByKey batchKey b (h.chain chain).batches).Perm (b :: (h.chain chain).batches) := by
        apply insertByKey_perm
        intro y hy he
        have h1 := hci.brange y hy
        have h2 := hbd.2
        rw [hl] at h2
        have := Mhub2.batchKey_inj he (by omega) h2
        omega
      exact this.symm.subset (List.mem_cons_of_mem _ hx)
  · exact Hub.BatchesKept.of_only (buildBatch_keeps h chain tok n) (buildBatch_only h chain tok n) hc

theorem createBatches_bk (c0 : String) (h : Hub) (chain : String) :
    Hub.BatchesKept c0 h (h.createBatches chain) ∧ Hub.OnlyChain chain h (h.createBatches chain) := by
  unfold Hub.createBatches
  split
  · simp only []
    exact foldl_rel (fun a b => Hub.BatchesKept c0 a b ∧ Hub.OnlyChain chain a b)
      (fun a => ⟨Hub.BatchesKept.refl _ a, Hub.OnlyChain.refl _ a⟩)
      (fun h1 h2 => ⟨h1.1.trans h2.1, h1.2.trans h2.2⟩) _
      (fun a tok _ => ⟨buildBatch_bk c0 a chain tok 100, buildBatch_only a chain tok 100⟩) h
  · exact ⟨Hub.BatchesKept.refl _ _, Hub.OnlyChain.refl _ _⟩

/-- Begin block: nothing is lost anywhere, the batches of "minter" are all kept, and the state of
    chain "hub" is untouched. -/
theorem beginBlock_bk {h h' : Hub} (hok : h.beginBlock = .ok h') :
    Hub.BatchesKept "minter" h h' ∧ h'.chain "hub" = h.chain "hub" := by
  unfold Hub.beginBlock at hok
  refine foldlM_rel (fun a b => Hub.BatchesKept "minter" a b ∧ b.chain "hub" = a.chain "hub")
    (fun a => ⟨Hub.BatchesKept.refl _ a, rfl⟩)
    (fun h1 h2 => ⟨h1.1.trans h2.1, h2.2.trans h1.2⟩) _ ?_ hok
  intro a chain a' _ hf
  simp only [bind, Except.bind] at hf
  split at hf
  · simp [pure, Except.pure] at hf; subst hf; exact ⟨Hub.BatchesKept.refl _ _, rfl⟩
  · rename_i hhub
    have hhub : chain ≠ "hub" := by simpa using hhub
    split at hf
    · simp at hf
    · rename_i a1 hc1
      split at hf
      · simp at hf
      · rename_i a2 hc2
        simp only [pure, Except.pure, Except.ok.injEq] at hf
        subst hf
        obtain ⟨hs2, ho2⟩ := createSignerSetTxs_same hc2
        obtain ⟨hb3, ho3⟩ := createBatches_bk "minter" a2 chain
        obtain ⟨hs4, ho4⟩ := pruneSignerSets_same (a2.createBatches chain) chain
        have h1 : Hub.BatchesKept "minter" a a1 ∧ Hub.OnlyChain chain a a1 := by
          split at hc1
          · rename_i hm
            obtain ⟨hk, ho⟩ := cleanup_keeps hc1
            exact ⟨Hub.BatchesKept.of_only hk ho (by simpa using hm), ho⟩
          · simp [pure, Except.pure] at hc1; subst hc1
            exact ⟨Hub.BatchesKept.refl _ _, Hub.OnlyChain.refl _ _⟩
        refine ⟨((h1.1.trans (Hub.BatchesKept.of_same hs2)).trans hb3).trans (Hub.BatchesKept.of_same hs4), ?_⟩
        exact (((h1.2.trans ho2).trans ho3).trans ho4) "hub" hhub

/-! ### Refunded is final -/

/-- Every transaction hash whose status is "refunded" keeps that status. -/
def Hub.RefundedKept (h h' : Hub) : Prop := ∀ tx, h.statusOf tx = stRefunded → h'.statusOf tx = stRefunded

theorem Hub.RefundedKept.refl (h : Hub) : Hub.RefundedKept h h := fun _ e => e
theorem Hub.RefundedKept.trans {a b c : Hub} (h1 : Hub.RefundedKept a b) (h2 : Hub.RefundedKept b c) :
    Hub.RefundedKept a c := fun tx e => h2 tx (h1 tx e)
theorem Hub.RefundedKept.of_status {h h' : Hub} (e : h'.status = h.status) : Hub.RefundedKept h h' := by
  intro tx ht; simpa [Hub.statusOf, e] using ht

/-- `SetTxStatus` never overwrites a "refunded" status. -/
theorem setStatus_rk (h : Hub) (tx : String) (st : Nat) (o : String) : Hub.RefundedKept h (h.setStatus tx st o) := by
  intro tx' ht
  unfold Hub.setStatus
  by_cases hx : tx = tx'
  · subst hx
    have : (if h.statusOf tx == stRefunded then stRefunded else st) = stRefunded := by simp [ht]
    simpa [Hub.statusOf] using this
  · simp only [Hub.statusOf, alGet_alSet_other _ _ _ _ hx]
    exact ht

theorem mintTo_rk {h h' : Hub} {acc d : String} {amt : Int} (hm : h.mintTo acc d amt = .ok h') :
    Hub.RefundedKept h h' := Hub.RefundedKept.of_status (mintTo_ok hm).2.2.2.2.2

/-! ### `batchTxExecuted` -/

/-- What happens after the executed batch has been removed: status, fee-record and bank writes
    (which leave every chain's stores and the block time alone and keep "refunded" statuses) and
    `createSte` calls on chain "minter". -/
inductive MinterMints : Hub → Hub → Prop
  | refl (h : Hub) : MinterMints h h
  | frame {h h1 h' : Hub} : h1.cs = h.cs → h1.time = h.time → Hub.RefundedKept h h1 → MinterMints h1 h' → MinterMints h h'
  | create {h h1 h' : Hub} {sender rcp denom tx rc ra : String} {a f cm : Int} {id : Nat} :
      h.createSte "minter" sender rcp denom a f cm tx rc ra = .ok (h1, id) → MinterMints h1 h' → MinterMints h h'

theorem MinterMints.trans {a b c : Hub} (h1 : MinterMints a b) (h2 : MinterMints b c) : MinterMints a c := by
  induction h1 with
  | refl => exact h2
  | frame e1 e2 e3 _ ih => exact .frame e1 e2 e3 (ih h2)
  | create e _ ih => exact .create e (ih h2)

theorem MinterMints.of_cs {h h' : Hub} (e1 : h'.cs = h.cs) (e2 : h'.time = h.time)
    (e3 : Hub.RefundedKept h h') : MinterMints h h' :=
  .frame e1 e2 e3 (.refl _)

theorem createSte_wrap {h h' : Hub} {sender rcp denom tx rc ra : String} {a f cm : Int}
    (hok : (match h.createSte "minter" sender rcp denom a f cm tx rc ra with
      | .ok (h, _) => pure h
      | .error (.fail m) => panicM m
      | .error e => .error e : M Hub) = .ok h') : MinterMints h h' := by
  split at hok
  · rename_i h1 id he
    simp [pure, Except.pure] at hok; subst hok
    exact .create he (.refl _)
  · simp [panicM] at hok
  · simp at hok

/-- Decomposition of a successful `batchTxExecuted`. -/
theorem batchExecuted_decomp {h h' : Hub} {chain tok tx payer : String} {n : Nat} {fp : Int}
    (hok : h.batchExecuted chain tok n tx fp payer = .ok h') :
    (h.findBatch chain tok n = none ∧ h' = h) ∨
    ∃ b v, h.findBatch chain tok n = some b ∧
      ((if chain != "minter" then
        ((h.chain chain).batches.reverse.filter fun o => o.nonce < b.nonce && o.extToken == b.extToken).foldlM
          (fun (h : Hub) o => h.cancelBatch chain o.extToken o.nonce) h
        else pure h) = .ok v) ∧
      MinterMints (v.setChain chain { (v.chain chain) with
        batches := eraseByKey batchKey (batchKey b) (v.chain chain).batches }) h' := by
  unfold Hub.batchExecuted at hok
  simp only [bind, Except.bind, pure, Except.pure, panicM] at hok
  split at hok
  · rename_i b hb
    split at hok
    · cases hok
    · rename_i v hv
      refine .inr ⟨b, v, hb, hv, ?_⟩
      generalize (v.setChain chain _) = v2 at hok ⊢
      split at hok
      · rename_i tk htk
        generalize hv3 : List.foldl _ v2 b.txs = v3 at hok
        have hm3 : MinterMints v2 v3 := by
          subst hv3
          refine foldl_rel MinterMints MinterMints.refl MinterMints.trans _ ?_ v2
          intro a t _
          exact MinterMints.of_cs rfl rfl (setStatus_rk a _ _ _)
        refine hm3.trans ?_
        clear hm3 hv3
        generalize v3.fromExternal chain tk.extId (sumInts (List.map (fun x => x.fee) b.txs)) = totalFee at hok
        generalize v3.fromExternal chain tk.extId (sumInts (List.map (fun x => x.comm) b.txs)) = totalComm at hok
        split at hok
        · cases hok
        · rename_i v4 hv4
          have hm4 : MinterMints v3 v4 := by
            split at hv4
            · split at hv4
              · cases hv4
              · rename_i vs hvs
                split at hv4
                · cases hv4
                · rename_i v5 hv5
                  refine (MinterMints.of_cs (mintTo_cs hv5).1 (mintTo_cs hv5).2 (mintTo_rk hv5)).trans ?_
                  refine foldlM_rel MinterMints MinterMints.refl MinterMints.trans _ ?_ hv4
                  intro a x a' _ hf
                  split at hf
                  · cases hf
                  · split at hf
                    · injection hf with hf; subst hf; exact .refl _
                    · exact createSte_wrap hf
            · injection hv4 with hv4; subst hv4; exact .refl _
          refine hm4.trans ?_
          clear hv4 hm4
          by_cases htf : totalFee ≤ 0
          · rw [if_pos htf] at hok
            injection hok with hok; subst hok; exact .refl _
          · rw [if_neg htf] at hok
            split at hok
            · cases hok
            · split at hok
              · rename_i baseCoin
                split at hok
                · rename_i pBase _
                  split at hok
                  · rename_i pTok _
                    generalize gasCostInToken fp pBase pTok = gas at hok
                    generalize reimbursement gas totalFee = fee at hok
                    by_cases h1 : (pTok == 0) = true
                    · rw [if_pos h1] at hok; cases hok
                    rw [if_neg h1] at hok
                    by_cases h2 : gas < 0
                    · rw [if_pos h2] at hok; cases hok
                    rw [if_neg h2] at hok
                    by_cases h3 : fee ≤ 0
                    · rw [if_pos h3] at hok; injection hok with hok; subst hok; exact .refl _
                    rw [if_neg h3] at hok
                    split at hok
                    · cases hok
                    rename_i v6 hv6
                    refine (MinterMints.of_cs (mintTo_cs hv6).1 (mintTo_cs hv6).2 (mintTo_rk hv6)).trans ?_
                    split at hok
                    · cases hok
                    rename_i v7 hv7
                    refine (createSte_wrap hv7).trans ?_
                    by_cases h4 : totalFee - fee ≤ 0
                    · rw [if_pos h4] at hok; injection hok with hok; subst hok; exact .refl _
                    rw [if_neg h4] at hok
                    split at hok
                    · cases hok
                    rename_i v8 hv8
                    refine (MinterMints.of_cs (mintTo_cs hv8).1 (mintTo_cs hv8).2 (mintTo_rk hv8)).trans ?_
                    by_cases h5 : ((b.txs.length : Int) == 0) = true
                    · rw [if_pos h5] at hok; cases hok
                    rw [if_neg h5] at hok
                    refine foldlM_rel MinterMints MinterMints.refl MinterMints.trans _ ?_ hok
                    intro a t a' _ hf
                    split at hf
                    · injection hf with hf; subst hf; exact .refl _
                    · split at hf
                      · cases hf
                      · split at hf
                        · injection hf with hf; subst hf; exact .refl _
                        · split at hf
                          · injection hf with hf; subst hf; exact .refl _
                          · split at hf
                            · cases hf
                            · rename_i v9 hv9
                              refine (createSte_wrap hv9).trans ?_
                              split at hf
                              · cases hf
                              · injection hf with hf; subst hf
                                exact MinterMints.of_cs rfl rfl (Hub.RefundedKept.of_status rfl)
                  · cases hok
                · cases hok
              · injection hok with hok; subst hok; exact .refl _
      · cases hok
  · rename_i hnone
    injection hok with hok; subst hok
    refine .inl ⟨?_, rfl⟩
    cases hq : h.findBatch chain tok n with
    | none => rfl
    | some b => exact (hnone b hq).elim

theorem createSte_status {h h' : Hub} {chain sender rcp denom tx rc ra : String} {a f cm : Int} {id : Nat}
    (hok : h.createSte chain sender rcp denom a f cm tx rc ra = .ok (h', id)) :
    h'.status = h.status ∧ h'.time = h.time := by
  unfold Hub.createSte at hok
  simp only [bind, Except.bind] at hok
  split at hok
  · split at hok
    · simp at hok
    · rename_i v hv
      simp only [pure, Except.pure, Except.ok.injEq, Prod.mk.injEq] at hok
      obtain ⟨hh, _⟩ := hok
      subst hh
      obtain ⟨_, _, _, _, _, _, ht, hs⟩ := burnFrom_ok hv
      exact ⟨hs, ht⟩
  · simp [failM] at hok

theorem MinterMints.keeps {a b : Hub} (h : MinterMints a b) : Hub.Keeps a b := by
  induction h with
  | refl => exact Hub.Keeps.refl _
  | frame e1 _ _ _ ih => exact (Hub.Keeps.of_cs e1).trans ih
  | create e _ ih => exact (createSte_keeps e).trans ih

theorem MinterMints.only {a b : Hub} (h : MinterMints a b) : Hub.OnlyChain "minter" a b := by
  induction h with
  | refl => exact Hub.OnlyChain.refl _ _
  | frame e1 _ _ _ ih => exact (Hub.OnlyChain.of_cs e1).trans ih
  | create e _ ih => exact Hub.OnlyChain.trans (fun c hc => createSte_other e hc) ih

theorem MinterMints.time {a b : Hub} (h : MinterMints a b) : b.time = a.time := by
  induction h with
  | refl => rfl
  | frame _ e2 _ _ ih => rw [ih, e2]
  | create e _ ih => rw [ih, (createSte_status e).2]

theorem MinterMints.rk {a b : Hub} (h : MinterMints a b) : Hub.RefundedKept a b := by
  induction h with
  | refl => exact Hub.RefundedKept.refl _
  | frame _ _ e3 _ ih => exact e3.trans ih
  | create e _ ih => exact (Hub.RefundedKept.of_status (createSte_status e).1).trans ih

/-- The cancellation phase of `batchTxExecuted` loses nothing and touches only its chain. -/
theorem executed_cancel_phase {h v : Hub} {chain : String} {b : Batch}
    (hv : (if chain != "minter" then
        ((h.chain chain).batches.reverse.filter fun o => o.nonce < b.nonce && o.extToken == b.extToken).foldlM
          (fun (h : Hub) o => h.cancelBatch chain o.extToken o.nonce) h
        else pure h) = .ok v) :
    Hub.Keeps h v ∧ Hub.OnlyChain chain h v ∧ v.status = h.status ∧ v.time = h.time := by
  split at hv
  · refine foldlM_rel (fun a b => Hub.Keeps a b ∧ Hub.OnlyChain chain a b ∧ b.status = a.status ∧ b.time = a.time)
      (fun a => ⟨Hub.Keeps.refl a, Hub.OnlyChain.refl _ a, rfl, rfl⟩)
      (fun h1 h2 => ⟨h1.1.trans h2.1, h1.2.1.trans h2.2.1, h2.2.2.1.trans h1.2.2.1, h2.2.2.2.trans h1.2.2.2⟩) _ ?_ hv
    intro a o a' _ hf
    refine ⟨cancelBatch_keeps hf, cancelBatch_only hf, ?_, ?_⟩
    · obtain ⟨_, _, _, rfl⟩ := cancelBatch_ok hf; rfl
    · obtain ⟨_, _, _, rfl⟩ := cancelBatch_ok hf; rfl
  · simp [pure, Except.pure] at hv; subst hv
    exact ⟨Hub.Keeps.refl _, Hub.OnlyChain.refl _ _, rfl, rfl⟩

theorem batchExecuted_step {h h' : Hub} {chain tok tx payer : String} {n : Nat} {fp : Int}
    (hok : h.batchExecuted chain tok n tx fp payer = .ok h') :
    Hub.Step h h' ∧ Hub.RefundedKept h h' ∧ h'.time = h.time := by
  rcases batchExecuted_decomp hok with ⟨_, rfl⟩ | ⟨b, v, _, hv, hm⟩
  · exact ⟨Hub.Step.refl _, Hub.RefundedKept.refl _, rfl⟩
  · obtain ⟨hk, _, hst, htm⟩ := executed_cancel_phase hv
    refine ⟨hk.step.trans (Hub.Step.trans (Hub.Step.setChain ?_) hm.keeps.step), ?_, ?_⟩
    · exact ChainSt.Step.of_sublist rfl rfl (List.Sublist.refl _) (eraseByKey_sublist _ _ _)
    · exact (Hub.RefundedKept.of_status hst).trans
        ((Hub.RefundedKept.of_status rfl : Hub.RefundedKept v (v.setChain chain _)).trans hm.rk)
    · rw [hm.time]; exact htm



/-! ### Event handler, tally, expiry, end block -/

/-- A ledger step that also keeps "refunded" statuses and the block time. -/
def Hub.StepR (h h' : Hub) : Prop := Hub.Step h h' ∧ Hub.RefundedKept h h' ∧ h'.time = h.time

theorem Hub.StepR.refl (h : Hub) : Hub.StepR h h := ⟨Hub.Step.refl h, Hub.RefundedKept.refl h, rfl⟩
theorem Hub.StepR.trans {a b c : Hub} (h1 : Hub.StepR a b) (h2 : Hub.StepR b c) : Hub.StepR a c :=
  ⟨h1.1.trans h2.1, h1.2.1.trans h2.2.1, h2.2.2.trans h1.2.2⟩
theorem Hub.StepR.of_same {h h' : Hub} (e1 : Hub.SameLedger h h') (e2 : h'.status = h.status) (e3 : h'.time = h.time) :
    Hub.StepR h h' := ⟨e1.keeps.step, Hub.RefundedKept.of_status e2, e3⟩

theorem handleSendToHub_ok {h h' : Hub} {chain coin receiver tx : String} {amount : Int}
    (hok : h.handleSendToHub chain coin amount receiver tx = .ok h') :
    h'.cs = h.cs ∧ h'.time = h.time ∧ Hub.RefundedKept h h' := by
  unfold Hub.handleSendToHub at hok
  simp only [bind, Except.bind] at hok
  split at hok
  · split at hok
    · simp [panicM] at hok
    · split at hok
      · simp [failM] at hok
      · split at hok
        · simp at hok
        · rename_i v hv
          simp only [pure, Except.pure, Except.ok.injEq] at hok
          subst hok
          exact ⟨(mintTo_cs hv).1, (mintTo_cs hv).2, (mintTo_rk hv).trans (setStatus_rk _ _ _ _)⟩
  · simp [failM] at hok

theorem createSte_stepR {h h' : Hub} {chain sender rcp denom tx rc ra : String} {a f cm : Int} {id : Nat}
    (hok : h.createSte chain sender rcp denom a f cm tx rc ra = .ok (h', id)) : Hub.StepR h h' :=
  ⟨(createSte_keeps hok).step, Hub.RefundedKept.of_status (createSte_status hok).1, (createSte_status hok).2⟩

theorem handle_stepR {h h' : Hub} {mf : Bool} {chain : String} {ev : Event}
    (hok : h.handle mf chain ev = .ok h') : Hub.StepR h h' := by
  cases ev with
  | sendToHub n coin amount sender receiver height txHash =>
    simp only [Hub.handle] at hok
    obtain ⟨e1, e2, e3⟩ := handleSendToHub_ok hok
    exact ⟨Hub.Step.of_cs e1, e3, e2⟩
  | transfer n coin amount fee sender rchain receiver height txHash =>
    simp only [Hub.handle] at hok
    simp (config := { maxSteps := 2000000 }) only [bind, Except.bind, failM, panicM] at hok
    split at hok
    · cases hok
    · split at hok
      · split at hok
        · cases hok
        · obtain ⟨e1, e2, e3⟩ := handleSendToHub_ok hok
          exact ⟨Hub.Step.of_cs e1, e3, e2⟩
      · split at hok
        · cases hok
        · rename_i v hv
          obtain ⟨e1, e2, e3⟩ := handleSendToHub_ok hv
          have h1 : Hub.StepR h v := ⟨Hub.Step.of_cs e1, e3, e2⟩
          refine h1.trans ?_
          split at hok
          · split at hok
            · split at hok
              · cases hok
              · split at hok
                · cases hok
                · split at hok
                  · cases hok
                  · split at hok
                    · cases hok
                    · split at hok
                      · cases hok
                      · split at hok
                        · cases hok
                        · rename_i r hr
                          simp only [pure, Except.pure, Except.ok.injEq] at hok
                          subst hok
                          exact createSte_stepR (id := r.2) hr
            · cases hok
          · cases hok
  | batchExecuted coin n bn height txHash feePaid feePayer =>
    simp only [Hub.handle] at hok
    exact batchExecuted_step hok
  | contractCall n scope inv height =>
    simp only [Hub.handle, Except.ok.injEq] at hok
    subst hok; exact Hub.StepR.refl _
  | signerSet n sn height members txHash =>
    simp only [Hub.handle, Except.ok.injEq] at hok
    subst hok
    exact Hub.StepR.of_same (Hub.SameLedger.setChain rfl rfl rfl rfl) rfl rfl


theorem tryRecord_stepR {h h' : Hub} {mf : Bool} {chain : String} {r : VoteRec}
    (hok : h.tryRecord mf chain r = .ok h') : Hub.StepR h h' := by
  unfold Hub.tryRecord at hok
  simp only [bind, Except.bind, pure, Except.pure, panicM] at hok
  split at hok
  · cases hok
  · split at hok
    · injection hok with hok; subst hok; exact Hub.StepR.refl _
    · have h1 : Hub.StepR h (h.setChain chain ((h.chain chain).markObserved r h.height)) :=
        Hub.StepR.of_same (Hub.SameLedger.setChain rfl rfl rfl rfl) rfl rfl
      split at hok
      · rename_i v hv
        injection hok with hok; subst hok
        exact h1.trans (handle_stepR hv)
      · injection hok with hok; subst hok; exact h1

theorem tally_stepR {h h' : Hub} {mf : Bool} {chain : String} (hok : h.tally mf chain = .ok h') :
    Hub.StepR h h' := by
  unfold Hub.tally at hok
  exact foldlM_rel Hub.StepR Hub.StepR.refl Hub.StepR.trans _ (fun _ _ _ _ hf => tryRecord_stepR hf) hok

theorem cancelFinish_rk (h : Hub) (chain : String) (s : Ste) :
    Hub.RefundedKept h (h.cancelFinish chain s) ∧ (h.cancelFinish chain s).time = h.time := by
  unfold Hub.cancelFinish
  exact ⟨(setStatus_rk h _ _ _).trans (Hub.RefundedKept.of_status rfl), rfl⟩

/-- Whatever `cancelSte` returns, the state it returns is one step away. -/
theorem cancelSte_stepR (h : Hub) (chain : String) (id : Nat) (sender : String) :
    Hub.StepR h (h.cancelSte chain id sender).1 := by
  refine ⟨cancelSte_step h chain id sender, ?_⟩
  rcases cancelSte_cases h chain id sender with ⟨e, _, _, htm, hst⟩ | ⟨s, hm, _, _, _, heq, hmid⟩
  · exact ⟨Hub.RefundedKept.of_status hst, htm⟩
  · rw [heq]
    obtain ⟨f1, f2⟩ := cancelFinish_rk hm chain s
    rcases hmid with ⟨_, htm, hst, _⟩ | ⟨h1, _, _, _, _, htm, hst, _, _, hc⟩
    · exact ⟨(Hub.RefundedKept.of_status hst).trans f1, f2.trans htm⟩
    · obtain ⟨g1, g2⟩ := createSte_status hc
      exact ⟨((Hub.RefundedKept.of_status hst).trans (Hub.RefundedKept.of_status g1)).trans f1,
        f2.trans (g2.trans htm)⟩

theorem refundExpired_stepR {h h' : Hub} {chain : String} (hok : h.refundExpired chain = .ok h') :
    Hub.StepR h h' := by
  unfold Hub.refundExpired at hok
  refine foldlM_rel Hub.StepR Hub.StepR.refl Hub.StepR.trans _ ?_ hok
  intro a s a' _ hf
  split at hf
  · have := cancelSte_stepR a chain s.id s.sender
    split at hf
    · rename_i heq; injection hf with hf; subst hf; rw [heq] at this; exact this
    · rename_i heq; injection hf with hf; subst hf; rw [heq] at this; exact this
    · cases hf
  · injection hf with hf; subst hf; exact Hub.StepR.refl _

theorem endBlock_stepR {h h' : Hub} {mf : Bool} (hok : h.endBlock mf = .ok h') : Hub.StepR h h' := by
  unfold Hub.endBlock at hok
  refine foldlM_rel Hub.StepR Hub.StepR.refl Hub.StepR.trans _ ?_ hok
  intro a chain a' _ hf
  simp only [bind, Except.bind] at hf
  split at hf
  · cases hf
  · rename_i v hv
    exact (tally_stepR hv).trans (refundExpired_stepR hf)



/-! ### "Refunded is final" for the remaining keeper functions -/

theorem buildBatch_rk (h : Hub) (chain tok : String) (n : Nat) : Hub.RefundedKept h (h.buildBatch chain tok n).1 := by
  unfold Hub.buildBatch
  simp only []
  split
  · exact Hub.RefundedKept.refl _
  · refine Hub.RefundedKept.trans ?_ (Hub.RefundedKept.of_status rfl : Hub.RefundedKept _ (Hub.setChain _ chain _))
    exact foldl_rel Hub.RefundedKept Hub.RefundedKept.refl Hub.RefundedKept.trans _
      (fun a s _ => setStatus_rk a _ _ _) h

theorem cancelBatch_status {h h' : Hub} {chain tok : String} {n : Nat} (hok : h.cancelBatch chain tok n = .ok h') :
    h'.status = h.status := by
  obtain ⟨_, _, _, rfl⟩ := cancelBatch_ok hok; rfl

theorem cleanup_rk {h h' : Hub} {chain : String} (hok : h.cleanupTimedOutBatches chain = .ok h') :
    Hub.RefundedKept h h' := by
  unfold Hub.cleanupTimedOutBatches at hok
  simp only [] at hok
  refine foldlM_rel Hub.RefundedKept Hub.RefundedKept.refl Hub.RefundedKept.trans _ ?_ hok
  intro a o a' _ hf
  split at hf
  · exact Hub.RefundedKept.of_status (cancelBatch_status hf)
  · injection hf with hf; subst hf; exact Hub.RefundedKept.refl _

theorem createSignerSet_status {h h' : Hub} {chain : String} (hok : h.createSignerSet chain = .ok h') :
    h'.status = h.status := by
  unfold Hub.createSignerSet at hok
  simp only [bind, Except.bind] at hok
  split at hok
  · simp at hok
  · simp only [pure, Except.pure, Except.ok.injEq] at hok
    subst hok; rfl

theorem createSignerSetTxs_status {h h' : Hub} {chain : String} (hok : h.createSignerSetTxs chain = .ok h') :
    h'.status = h.status := by
  unfold Hub.createSignerSetTxs at hok
  split at hok
  · exact createSignerSet_status hok
  · simp only [bind, Except.bind] at hok
    split at hok
    · simp at hok
    · split at hok
      · exact createSignerSet_status hok
      · simp only [pure, Except.pure, Except.ok.injEq] at hok
        subst hok; rfl

theorem pruneSignerSets_status (h : Hub) (chain : String) : (h.pruneSignerSets chain).status = h.status := by
  unfold Hub.pruneSignerSets
  simp only []
  split
  · rfl
  · split <;> rfl

theorem createBatches_rk (h : Hub) (chain : String) : Hub.RefundedKept h (h.createBatches chain) := by
  unfold Hub.createBatches
  split
  · simp only []
    exact foldl_rel Hub.RefundedKept Hub.RefundedKept.refl Hub.RefundedKept.trans _
      (fun a tok _ => buildBatch_rk a chain tok 100) h
  · exact Hub.RefundedKept.refl _

theorem beginBlock_rk {h h' : Hub} (hok : h.beginBlock = .ok h') : Hub.RefundedKept h h' := by
  unfold Hub.beginBlock at hok
  refine foldlM_rel Hub.RefundedKept Hub.RefundedKept.refl Hub.RefundedKept.trans _ ?_ hok
  intro a chain a' _ hf
  simp only [bind, Except.bind] at hf
  split at hf
  · simp [pure, Except.pure] at hf; subst hf; exact Hub.RefundedKept.refl _
  · split at hf
    · simp at hf
    · rename_i a1 hc1
      split at hf
      · simp at hf
      · rename_i a2 hc2
        simp only [pure, Except.pure, Except.ok.injEq] at hf
        subst hf
        have h1 : Hub.RefundedKept a a1 := by
          split at hc1
          · exact cleanup_rk hc1
          · simp [pure, Except.pure] at hc1; subst hc1; exact Hub.RefundedKept.refl _
        exact ((h1.trans (Hub.RefundedKept.of_status (createSignerSetTxs_status hc2))).trans
          (createBatches_rk a2 chain)).trans (Hub.RefundedKept.of_status (pruneSignerSets_status _ chain))

/-! ### Messages -/

theorem sendToExternal_keeps {h h' : Hub} {sender chain rcp denom tx : String} {amount fee : Int} {id : Nat}
    (hok : h.sendToExternal sender chain rcp denom amount fee tx = .ok (h', id)) :
    Hub.Keeps h h' ∧ Hub.RefundedKept h h' ∧ id = (h.chain chain).lastSteId + 1 ∧
    ∀ c, chain ≠ c → h'.chain c = h.chain c := by
  unfold Hub.sendToExternal at hok
  simp only [bind, Except.bind] at hok
  split at hok <;> try (cases hok)
  split at hok <;> try (cases hok)
  split at hok <;> try (cases hok)
  split at hok
  · split at hok <;> try (cases hok)
    split at hok <;> try (cases hok)
    obtain ⟨_, ste, _, _, hid, hid2, _⟩ := createSte_ok hok
    exact ⟨createSte_keeps hok, Hub.RefundedKept.of_status (createSte_status hok).1, by rw [hid2, hid],
      fun c hc => createSte_other hok hc⟩
  · cases hok

theorem requestBatch_keeps {h h' : Hub} {chain denom : String} {ob : Option Batch}
    (hok : h.requestBatch chain denom = .ok (h', ob)) :
    Hub.Keeps h h' ∧ Hub.RefundedKept h h' ∧ Hub.OnlyChain chain h h' := by
  unfold Hub.requestBatch at hok
  split at hok
  · simp [failM] at hok
  · split at hok
    · simp [failM] at hok
    · rename_i t _
      simp only [Except.ok.injEq] at hok
      have e : h' = (h.buildBatch chain t.extId 100).1 := by rw [hok]
      subst e
      exact ⟨buildBatch_keeps _ _ _ _, buildBatch_rk _ _ _ _, buildBatch_only _ _ _ _⟩

theorem submitEvent_same {h h' : Hub} {chain signer : String} {ev : Event}
    (hok : h.submitEvent chain signer ev = .ok h') : Hub.SameLedger h h' ∧ h'.status = h.status := by
  unfold Hub.submitEvent at hok
  simp only [bind, Except.bind] at hok
  split at hok
  · simp [failM] at hok
  · split at hok
    · simp at hok
    · split at hok
      · simp at hok
      · rename_i c hc
        simp only [pure, Except.pure, Except.ok.injEq] at hok
        subst hok
        unfold ChainSt.recordVote at hc
        simp only [] at hc
        split at hc
        · simp [failM] at hc
        · simp only [Except.ok.injEq] at hc
          subst hc
          exact ⟨Hub.SameLedger.setChain rfl rfl rfl rfl, rfl⟩

theorem confirm_same {h h' : Hub} {chain signer ext sig : String} {k : ConfKind}
    (hok : h.confirm chain signer k ext sig = .ok h') : Hub.SameLedger h h' ∧ h'.status = h.status := by
  unfold Hub.confirm at hok
  simp only [bind, Except.bind, failM] at hok
  repeat' (split at hok)
  all_goals first
    | (simp only [pure, Except.pure, Except.ok.injEq] at hok
       subst hok
       exact ⟨Hub.SameLedger.setChain rfl rfl rfl rfl, rfl⟩)
    | cases hok

theorem setDelegateKeys_same {h h' : Hub} {chain val orch eth sb sv : String} {sn acc : Nat}
    (hok : h.setDelegateKeys chain val orch eth sb sv sn acc = .ok h') :
    Hub.SameLedger h h' ∧ h'.status = h.status := by
  unfold Hub.setDelegateKeys at hok
  simp only [bind, Except.bind, failM] at hok
  repeat' (split at hok)
  all_goals first
    | (simp only [pure, Except.pure, Except.ok.injEq] at hok
       subst hok
       exact ⟨Hub.SameLedger.setChain rfl rfl rfl rfl, rfl⟩)
    | cases hok



/-! ### The operations of a history -/

theorem outM_cases (r : M Hub) (old : Hub) (msg : String) :
    (outM r old msg).1 = old ∨ ∃ h', r = .ok h' ∧ (outM r old msg).1 = h' := by
  unfold outM
  split
  · exact .inr ⟨_, rfl, rfl⟩
  · exact .inl rfl
  · exact .inl rfl

/-- A step that loses nothing and keeps "refunded" statuses. -/
def Hub.KeepsR (h h' : Hub) : Prop := Hub.Keeps h h' ∧ Hub.RefundedKept h h'

theorem Hub.KeepsR.refl (h : Hub) : Hub.KeepsR h h := ⟨Hub.Keeps.refl h, Hub.RefundedKept.refl h⟩
theorem Hub.KeepsR.of_cs {h h' : Hub} (e1 : h'.cs = h.cs) (e2 : h'.status = h.status) : Hub.KeepsR h h' :=
  ⟨Hub.Keeps.of_cs e1, Hub.RefundedKept.of_status e2⟩
theorem Hub.KeepsR.of_same {h h' : Hub} (e1 : Hub.SameLedger h h') (e2 : h'.status = h.status) : Hub.KeepsR h h' :=
  ⟨e1.keeps, Hub.RefundedKept.of_status e2⟩

/-- Every operation other than `reset`, `cancel` and `endBlock` loses nothing. -/
theorem apply_keepsR (h : Hub) (op : Op) (hr : op ≠ .reset) (hc : ∀ s c i, op ≠ .cancel s c i)
    (he : op ≠ .endBlock) : Hub.KeepsR h (apply h op).1 := by
  cases op with
  | reset => exact absurd rfl hr
  | endBlock => exact absurd rfl he
  | cancel s c i => exact absurd rfl (hc s c i)
  | init => exact Hub.KeepsR.refl _
  | chains cs => exact Hub.KeepsR.of_cs rfl rfl
  | token t => exact Hub.KeepsR.of_cs rfl rfl
  | param name n =>
    simp only [apply]
    split
    · exact Hub.KeepsR.of_cs rfl rfl
    · exact Hub.KeepsR.refl _
  | gravityId v => exact Hub.KeepsR.of_cs rfl rfl
  | price name x => exact Hub.KeepsR.of_cs rfl rfl
  | holder addr x => exact Hub.KeepsR.of_cs rfl rfl
  | staking vs => exact Hub.KeepsR.of_cs rfl rfl
  | fund acc denom a =>
    simp only [apply]
    rcases outM_cases (h.mintTo acc denom a) h "ok" with e | ⟨h', e1, e2⟩
    · rw [e]; exact Hub.KeepsR.refl _
    · rw [e2]; exact Hub.KeepsR.of_cs (mintTo_cs e1).1 (mintTo_ok e1).2.2.2.2.2
  | block ht t => exact Hub.KeepsR.of_cs rfl rfl
  | beginBlock =>
    simp only [apply]
    rcases outM_cases h.beginBlock h "ok" with e | ⟨h', e1, e2⟩
    · rw [e]; exact Hub.KeepsR.refl _
    · rw [e2]; exact ⟨(beginBlock_bk e1).1.1, beginBlock_rk e1⟩
  | send sender chain rcp denom a f tx =>
    simp only [apply]
    split
    · rename_i h' id e
      exact ⟨(sendToExternal_keeps e).1, (sendToExternal_keeps e).2.1⟩
    · exact Hub.KeepsR.refl _
    · exact Hub.KeepsR.refl _
  | reqBatch chain denom =>
    simp only [apply]
    split
    · rename_i h' b e
      exact ⟨(requestBatch_keeps e).1, (requestBatch_keeps e).2.1⟩
    · rename_i h' e
      exact ⟨(requestBatch_keeps e).1, (requestBatch_keeps e).2.1⟩
    · exact Hub.KeepsR.refl _
    · exact Hub.KeepsR.refl _
  | vote chain signer e =>
    simp only [apply]
    split
    · rcases outM_cases (h.submitEvent chain signer e) h "ok" with e0 | ⟨h', e1, e2⟩
      · rw [e0]; exact Hub.KeepsR.refl _
      · rw [e2]; exact Hub.KeepsR.of_same (submitEvent_same e1).1 (submitEvent_same e1).2
    · exact Hub.KeepsR.refl _
  | hashOf e => exact Hub.KeepsR.refl _
  | confirm chain signer k ext sig =>
    simp only [apply]
    rcases outM_cases (h.confirm chain signer k ext sig) h "ok" with e0 | ⟨h', e1, e2⟩
    · rw [e0]; exact Hub.KeepsR.refl _
    · rw [e2]; exact Hub.KeepsR.of_same (confirm_same e1).1 (confirm_same e1).2
  | delegate chain val orch eth sb sv n s =>
    simp only [apply]
    rcases outM_cases (h.setDelegateKeys chain val orch eth sb sv n s) h "ok" with e0 | ⟨h', e1, e2⟩
    · rw [e0]; exact Hub.KeepsR.refl _
    · rw [e2]; exact Hub.KeepsR.of_same (setDelegateKeys_same e1).1 (setDelegateKeys_same e1).2
  | qConfs chain k => exact Hub.KeepsR.refl _
  | qUnsignedSets chain signer => simp only [apply]; split <;> exact Hub.KeepsR.refl _
  | qUnsignedBatches chain signer => simp only [apply]; split <;> exact Hub.KeepsR.refl _
  | qLastNonce chain signer => simp only [apply]; split <;> exact Hub.KeepsR.refl _
  | dump what => exact Hub.KeepsR.refl _
  | nop => exact Hub.KeepsR.refl _
  | bad => exact Hub.KeepsR.refl _
  | oprice v e l => exact Hub.KeepsR.refl _
  | oholders v e l => exact Hub.KeepsR.refl _
  | oend => exact Hub.KeepsR.refl _

/-- Every operation other than `reset` is a ledger step that keeps "refunded" statuses. -/
theorem apply_step (h : Hub) (op : Op) (hr : op ≠ .reset) :
    Hub.Step h (apply h op).1 ∧ Hub.RefundedKept h (apply h op).1 := by
  by_cases he : op = .endBlock
  · subst he
    simp only [apply]
    rcases outM_cases (h.endBlock mintsFee) h "ok" with e | ⟨h', e1, e2⟩
    · rw [e]; exact ⟨Hub.Step.refl _, Hub.RefundedKept.refl _⟩
    · rw [e2]; exact ⟨(endBlock_stepR e1).1, (endBlock_stepR e1).2.1⟩
  · by_cases hc : ∃ s c i, op = .cancel s c i
    · obtain ⟨s, c, i, rfl⟩ := hc
      simp only [apply]
      rcases outM_cases (h.cancelMsg s c i) h "ok" with e | ⟨h', e1, e2⟩
      · rw [e]; exact ⟨Hub.Step.refl _, Hub.RefundedKept.refl _⟩
      · rw [e2]
        have := cancelSte_stepR h c i s
        rw [cancelMsg_ok e1] at this
        exact ⟨this.1, this.2.1⟩
    · have hk := apply_keepsR h op hr (fun s c i e => hc ⟨s, c, i, e⟩) he
      exact ⟨hk.1.step, hk.2⟩



/-- Effect of a successful `createSte`, as equations on the chain's state. -/
theorem createSte_eff {h h' : Hub} {chain sender rcp denom tx rc ra : String} {a f cm : Int} {id : Nat}
    (hok : h.createSte chain sender rcp denom a f cm tx rc ra = .ok (h', id)) :
    ∃ ste : Ste, ste.id = (h.chain chain).lastSteId + 1 ∧ id = ste.id ∧ ste.createdAt = h.time ∧
      (h'.chain chain).pool = insertByKey poolKey ste (h.chain chain).pool ∧
      (h'.chain chain).batches = (h.chain chain).batches ∧
      (h'.chain chain).lastSteId = ste.id ∧
      (h'.chain chain).lastBatchNonce = (h.chain chain).lastBatchNonce ∧
      ∀ c, chain ≠ c → h'.chain c = h.chain c := by
  obtain ⟨h1, ste, hcs, _, hid, hid2, hca, _, _, _, rfl⟩ := createSte_ok hok
  refine ⟨ste, hid, hid2, hca, ?_, ?_, ?_, ?_, fun c hc => ?_⟩
  · rw [chain_setChain]
  · rw [chain_setChain]
  · rw [chain_setChain]
  · rw [chain_setChain]
  · rw [chain_setChain_ne _ _ hc, chain_of_cs hcs]

/-- Under the invariant `createSte` keeps every pool entry of every chain in its pool. -/
theorem createSte_pool_keep {h h' : Hub} {chain sender rcp denom tx rc ra : String} {a f cm : Int} {id : Nat}
    (hok : h.createSte chain sender rcp denom a f cm tx rc ra = .ok (h', id)) (hi : h.LedgerInv) (hb : h'.Bounded)
    {c : String} {s : Ste} (hs : s ∈ (h.chain c).pool) : s ∈ (h'.chain c).pool := by
  obtain ⟨ste, hid, _, _, e1, e2, e3, _, e5⟩ := createSte_eff hok
  by_cases hc : chain = c
  · subst hc
    have := (ChainSt.addPool_perm hid e3 e1 e2 (Hub.ledgerInv_iff.mp hi chain) (hb chain)).1
    exact this.symm.subset (List.mem_cons_of_mem _ hs)
  · rw [e5 c hc]; exact hs

/-- Effect of a successful cancel under the invariant: the pool entry `s` with the given id is
    found; an intermediate state `hm` is reached from `h` without losing anything (it is `h` up to
    bank/status writes, or `h` after one `createSte` on the refund chain); then exactly `s` is
    removed from the pool of `chain`. -/
theorem cancelSte_effect {h h' : Hub} {chain sender : String} {id : Nat}
    (hi : h.LedgerInv) (hb : h'.Bounded) (hok : h.cancelSte chain id sender = (h', none)) :
    ∃ s hm, s ∈ (h.chain chain).pool ∧ s.id = id ∧ s.sender = sender ∧
      Hub.Keeps h hm ∧ hm.LedgerInv ∧ hm.Bounded ∧
      (∀ c, (hm.chain c).lastSteId = (h'.chain c).lastSteId) ∧
      (hm.chain chain).entries.Perm (s :: (h'.chain chain).entries) ∧
      (hm.chain chain).pool.Perm (s :: (h'.chain chain).pool) ∧
      (h'.chain chain).batches = (hm.chain chain).batches ∧
      (∀ c, chain ≠ c → h'.chain c = hm.chain c) ∧
      ((∀ c, hm.chain c = h.chain c) ∨
       (s.refundChain ≠ "" ∧ s.refundChain ≠ "hub" ∧ (∀ c, s.refundChain ≠ c → hm.chain c = h.chain c) ∧
        (hm.chain s.refundChain).lastSteId = (h.chain s.refundChain).lastSteId + 1)) := by
  rcases cancelSte_cases h chain id sender with ⟨e, he, _⟩ | ⟨s, hm, hsm, hsid, hsnd, heq, hmid⟩
  · rw [hok] at he; cases he
  · rw [hok] at heq
    injection heq with heq _
    subst heq
    obtain ⟨f1, f2, f3, f4, f5⟩ := cancelFinish_chain hm chain s
    have hkm : Hub.Keeps h hm ∧ ((∀ c, hm.chain c = h.chain c) ∨
       (s.refundChain ≠ "" ∧ s.refundChain ≠ "hub" ∧ (∀ c, s.refundChain ≠ c → hm.chain c = h.chain c) ∧
        (hm.chain s.refundChain).lastSteId = (h.chain s.refundChain).lastSteId + 1)) := by
      rcases hmid with ⟨hcs, _⟩ | ⟨h1, _, _, _, hcs, _, _, hr1, hr2, hc⟩
      · exact ⟨Hub.Keeps.of_cs hcs, .inl (fun c => chain_of_cs hcs c)⟩
      · refine ⟨(Hub.Keeps.of_cs hcs).trans (createSte_keeps hc), .inr ⟨hr1, hr2, fun c hc' => ?_, ?_⟩⟩
        · rw [createSte_other hc hc', chain_of_cs hcs]
        · obtain ⟨h2, ste, hcs2, _, hid, _, _, _, _, _, rfl⟩ := createSte_ok hc
          rw [chain_setChain]
          show ste.id = _
          rw [hid, chain_of_cs hcs]
    have hctr : ∀ c, (hm.chain c).lastSteId = ((hm.cancelFinish chain s).chain c).lastSteId := by
      intro c
      by_cases hc : chain = c
      · subst hc; rw [f3]
      · rw [f5 c hc]
    have hctrB : ∀ c, (hm.chain c).lastBatchNonce = ((hm.cancelFinish chain s).chain c).lastBatchNonce := by
      intro c
      by_cases hc : chain = c
      · subst hc; rw [f4]
      · rw [f5 c hc]
    have hbm : hm.Bounded := fun c => ⟨by rw [hctr c]; exact (hb c).1, by rw [hctrB c]; exact (hb c).2⟩
    have him : hm.LedgerInv := hkm.1.step.inv hi hbm
    have hsm' : s ∈ (hm.chain chain).pool := by
      rcases hmid with ⟨hcs, _⟩ | ⟨h1, _, _, _, hcs, _, _, _, _, hc⟩
      · rw [chain_of_cs hcs]; exact hsm
      · have hi1 : h1.LedgerInv := (Hub.Step.of_cs hcs).inv hi (hbm.mono (createSte_keeps hc).step)
        exact createSte_pool_keep hc hi1 hbm (by rw [chain_of_cs hcs]; exact hsm)
    obtain ⟨p1, p2⟩ := ChainSt.erasePool_perm (c := hm.chain chain) (c' := (hm.cancelFinish chain s).chain chain)
      hsm' f1 f2 (Hub.ledgerInv_iff.mp him chain) (hbm chain).1
    exact ⟨s, hm, hsm, hsid, hsnd, hkm.1, him, hbm, hctr, p2, p1, f2, f5, hkm.2⟩


/-- The ids after a step that loses nothing are exactly the ids before plus all the ids issued in
    between. -/
theorem ChainSt.Keeps.ids_perm {c c' : ChainSt} (hk : ChainSt.Keeps c c') (hi : c.Inv) (hb : c'.Bounded) :
    c'.ids.Perm (List.range' (c.lastSteId + 1) (c'.lastSteId - c.lastSteId) ++ c.ids) := by
  have hi' := hk.inv hi hb
  have hm := hk.mono
  have hnd : (List.range' (c.lastSteId + 1) (c'.lastSteId - c.lastSteId) ++ c.ids).Nodup := by
    rw [List.nodup_append]
    refine ⟨List.nodup_range' (step := 1), hi.nodup, fun a ha b hb' hab => ?_⟩
    subst hab
    have h1 := (List.mem_range'_1.mp ha).1
    have h2 := (hi.range a hb').2
    omega
  rw [List.perm_ext_iff_of_nodup hi'.nodup hnd]
  intro id
  rw [List.mem_append, List.mem_range'_1]
  constructor
  · intro hid
    rcases hk.sub id hid with h1 | h1
    · exact .inr h1
    · exact .inl (by omega)
  · intro hid
    rcases hid with h1 | h1
    · exact hk.fresh hi hb id (by omega) (by omega)
    · exact hk.keep_ids hi hb h1

theorem ChainSt.Keeps.ids_perm_same {c c' : ChainSt} (hk : ChainSt.Keeps c c') (hi : c.Inv) (hb : c'.Bounded)
    (hl : c'.lastSteId = c.lastSteId) : c'.ids.Perm c.ids := by
  have := hk.ids_perm hi hb
  rw [hl, Nat.sub_self] at this
  simpa using this


theorem initialHub_chain (c : String) : initialHub.chain c = {} := rfl

theorem initialHub_inv : initialHub.LedgerInv := by
  refine Hub.ledgerInv_iff.mpr fun c => ?_
  rw [initialHub_chain]
  exact ⟨List.nodup_nil, (fun _ h => by cases h), List.nodup_nil, (fun _ h => by cases h)⟩

theorem outM_ok {r : M Hub} {old h' : Hub} (e : r = .ok h') : outM r old = (h', "ok") := by
  subst e; rfl

theorem outM_err {r : M Hub} {old : Hub} {e : Err} (he : r = .error e) : (outM r old).1 = old ∧ (outM r old).2 ≠ "ok" := by
  subst he; cases e <;> exact ⟨rfl, by simp [outM]⟩



/-! ### Exact account of an executed batch -/

theorem MinterMints.batches {a b : Hub} (h : MinterMints a b) (c : String) :
    (b.chain c).batches = (a.chain c).batches := by
  induction h with
  | refl => rfl
  | frame e1 _ _ _ ih => rw [ih, chain_of_cs e1]
  | create e _ ih =>
    rw [ih]
    obtain ⟨_, _, _, _, _, e2, _, _, e5⟩ := createSte_eff e
    by_cases hc : "minter" = c
    · subst hc; exact e2
    · rw [e5 c hc]

theorem MinterMints.pool_keep {a b : Hub} (h : MinterMints a b) (hi : a.LedgerInv) (hb : b.Bounded)
    {c : String} {s : Ste} (hs : s ∈ (a.chain c).pool) : s ∈ (b.chain c).pool := by
  induction h with
  | refl => exact hs
  | frame e1 _ _ _ ih =>
    exact ih ((Hub.Step.of_cs e1).inv hi (hb.mono (MinterMints.keeps ‹_›).step)) hb (by rw [chain_of_cs e1]; exact hs)
  | create e hrest ih =>
    have hb1 := hb.mono hrest.keeps.step
    exact ih ((createSte_keeps e).step.inv hi hb1) hb (createSte_pool_keep e hi hb1 hs)

/-- Removing a batch by its key, under the invariant: exactly that batch leaves, and its transfers
    are then nowhere on the chain. -/
theorem ChainSt.eraseBatch_perm {c c' : ChainSt} {b : Batch} (hbm : b ∈ c.batches)
    (hb : c'.batches = eraseByKey batchKey (batchKey b) c.batches) (hp : c'.pool = c.pool)
    (hi : c.Inv) (hbd : c.Bounded) :
    c.batches.Perm (b :: c'.batches) ∧ ∀ t ∈ b.txs, t.id ∉ c'.ids := by
  have hbp : c.batches.Perm (b :: c'.batches) := by
    rw [hb]
    exact eraseByKey_perm batchKey hbm (fun y hy he => hi.batchKey_inj hbd.2 hy hbm he)
  refine ⟨hbp, fun t ht hid => ?_⟩
  have he : c.ids.Perm (b.txs.map (·.id) ++ c'.ids) := by
    unfold ChainSt.ids
    rw [hp]
    have h1 : (c.batches.flatMap fun b => b.txs.map (·.id)).Perm
        (b.txs.map (·.id) ++ c'.batches.flatMap fun b => b.txs.map (·.id)) := by
      simpa using hbp.flatMap_right (fun b => b.txs.map (·.id))
    refine (List.Perm.append_left _ h1).trans ?_
    rw [← List.append_assoc, ← List.append_assoc]
    exact List.perm_append_comm.append_right _
  have hnd := he.nodup hi.nodup
  exact (List.nodup_append.mp hnd).2.2 t.id (List.mem_map.mpr ⟨t, ht, rfl⟩) t.id hid rfl

/-- Exact effect of `batchTxExecuted` on the batch store of its chain. -/
theorem batchExecuted_exact {h h' : Hub} {chain tok tx payer : String} {n : Nat} {fp : Int} {b : Batch}
    (hi : h.LedgerInv) (hb : h'.Bounded)
    (hok : h.batchExecuted chain tok n tx fp payer = .ok h') (hfb : h.findBatch chain tok n = some b) :
    (∀ o ∈ (h.chain chain).batches, o ∉ (h'.chain chain).batches ↔
      (o = b ∨ (chain ≠ "minter" ∧ o.extToken = b.extToken ∧ o.nonce < b.nonce))) ∧
    (∀ o ∈ (h'.chain chain).batches, o ∈ (h.chain chain).batches) ∧
    (∀ o ∈ (h.chain chain).batches, chain ≠ "minter" → o.extToken = b.extToken → o.nonce < b.nonce →
      ∀ t ∈ o.txs, t ∈ (h'.chain chain).pool) ∧
    (∀ s ∈ (h.chain chain).pool, s ∈ (h'.chain chain).pool) ∧
    (∀ t ∈ b.txs, t.id ∉ (h'.chain chain).ids) := by
  rcases batchExecuted_decomp hok with ⟨hnone, _⟩ | ⟨b', v, hfb', hv, hm⟩
  · rw [hnone] at hfb; cases hfb
  rw [hfb] at hfb'; injection hfb' with hbb; subst hbb
  obtain ⟨hbm, hbk⟩ := findBatch_some hfb
  have hstep := (batchExecuted_step hok).1
  have hbh : h.Bounded := hb.mono hstep
  -- the cancellation phase
  have hphase : CancelEvo chain (fun o => o.nonce < b.nonce ∧ o.extToken = b.extToken) h v ∧
      (chain ≠ "minter" → ∀ o ∈ (h.chain chain).batches, o.nonce < b.nonce → o.extToken = b.extToken →
        o ∉ (v.chain chain).batches) := by
    split at hv
    · rename_i hne
      obtain ⟨h1, _, h3⟩ := CancelEvo.fold (chain := chain)
        (P := fun o => o.nonce < b.nonce ∧ o.extToken = b.extToken)
        (Q := fun _ => True) (h0 := h) _
        (fun o ho => List.mem_reverse.mp (List.mem_filter.mp ho).1)
        (fun h2 o h2' ho hf => by
          have := (List.mem_filter.mp ho).2
          simp only [Bool.and_eq_true, decide_eq_true_eq, beq_iff_eq] at this
          exact .inr ⟨this, hf⟩)
        (fun _ _ _ _ => rfl) (CancelEvo.refl chain _ hi hbh) hv
      refine ⟨h1, fun _ o ho h1' h2' => h3 o ?_ trivial⟩
      exact List.mem_filter.mpr ⟨List.mem_reverse.mpr ho, by simp [h1', h2']⟩
    · rename_i hne
      simp only [pure, Except.pure, Except.ok.injEq] at hv
      subst hv
      exact ⟨CancelEvo.refl chain _ hi hbh, fun hc => absurd (by simpa using hne) hc⟩
  obtain ⟨hev, hall⟩ := hphase
  -- `b` itself survived the cancellations
  have hbv : b ∈ (v.chain chain).batches := by
    apply Classical.byContradiction
    intro hn
    have := (hev.removed b hbm hn).1.1
    omega
  -- the removal of `b`
  generalize hh2 : (v.setChain chain { (v.chain chain) with
        batches := eraseByKey batchKey (batchKey b) (v.chain chain).batches }) = h2 at hm
  have e2b : (h2.chain chain).batches = eraseByKey batchKey (batchKey b) (v.chain chain).batches := by
    subst hh2; rw [chain_setChain]
  have e2p : (h2.chain chain).pool = (v.chain chain).pool := by subst hh2; rw [chain_setChain]
  have e2l : (h2.chain chain).lastSteId = (v.chain chain).lastSteId := by subst hh2; rw [chain_setChain]
  have hs2 : Hub.Step v h2 := by
    subst hh2
    exact Hub.Step.setChain (ChainSt.Step.of_sublist rfl rfl (List.Sublist.refl _) (eraseByKey_sublist _ _ _))
  have hb2 : h2.Bounded := hb.mono hm.keeps.step
  have hi2 : h2.LedgerInv := hs2.inv hev.inv hb2
  obtain ⟨hbp, hgone⟩ := ChainSt.eraseBatch_perm hbv e2b e2p (Hub.ledgerInv_iff.mp hev.inv chain) (hev.bnd chain)
  have hb' : (h'.chain chain).batches = (h2.chain chain).batches := hm.batches chain
  have hnd : (b :: (h2.chain chain).batches).Nodup :=
    hbp.nodup (nodup_of_map (·.nonce) (Hub.ledgerInv_iff.mp hev.inv chain).bnodup)
  have hsub2 : (h2.chain chain).batches.Sublist (v.chain chain).batches := by
    rw [e2b]; exact eraseByKey_sublist _ _ _
  refine ⟨fun o ho => ⟨fun hout => ?_, fun hcase => ?_⟩, fun o ho => ?_, ?_, ?_, ?_⟩
  · rw [hb'] at hout
    by_cases hov : o ∈ (v.chain chain).batches
    · rcases List.mem_cons.mp (hbp.subset hov) with h1 | h1
      · exact .inl h1
      · exact absurd h1 hout
    · obtain ⟨⟨hp1, hp2⟩, _⟩ := hev.removed o ho hov
      refine .inr ⟨fun hc => ?_, hp2, hp1⟩
      subst hc
      split at hv
      · rename_i hne; simp at hne
      · simp only [pure, Except.pure, Except.ok.injEq] at hv
        subst hv; exact hov ho
  · rw [hb']
    rcases hcase with h1 | ⟨hc, h2', h3⟩
    · subst h1; exact (List.nodup_cons.mp hnd).1
    · exact fun hin => hall hc o ho h3 h2' (hsub2.subset hin)
  · rw [hb'] at ho
    exact hev.bsub.subset (hsub2.subset ho)
  · intro o ho hc h2' h3 t ht
    have hov : o ∉ (v.chain chain).batches := hall hc o ho h3 h2'
    have := (hev.removed o ho hov).2 t ht
    exact hm.pool_keep hi2 hb (by rw [e2p]; exact this)
  · intro s hs
    exact hm.pool_keep hi2 hb (by rw [e2p]; exact hev.poolKeep s hs)
  · intro t ht hid
    rcases (hm.keeps chain).sub t.id hid with h1 | h1
    · exact hgone t ht h1
    · have := ((Hub.ledgerInv_iff.mp hev.inv chain).entry_le
        (ChainSt.mem_entries.mpr (.inr ⟨b, hbv, ht⟩))).2
      omega


theorem alGet_mem {κ ν : Type} [BEq κ] {l : List (κ × ν)} {k : κ} {v : ν} (h : alGet l k = some v) :
    ∃ k', (k', v) ∈ l := by
  induction l with
  | nil => simp [alGet] at h
  | cons p t ih =>
    obtain ⟨k', v'⟩ := p
    unfold alGet at h
    split at h
    · injection h with h; subst h; exact ⟨k', List.mem_cons_self⟩
    · obtain ⟨k2, hk⟩ := ih h; exact ⟨k2, List.mem_cons_of_mem _ hk⟩

/-- A checkable sufficient condition for `Hub.Bounded`. -/
theorem Hub.bounded_of_all {h : Hub}
    (hall : (h.cs.all fun p => decide (p.2.lastSteId < 2 ^ 64) && decide (p.2.lastBatchNonce < 2 ^ 64)) = true) :
    h.Bounded := by
  intro c
  unfold Hub.chain
  cases hg : alGet h.cs c with
  | none => exact ⟨by decide, by decide⟩
  | some v =>
    obtain ⟨k', hk⟩ := alGet_mem hg
    have := List.all_eq_true.mp hall (k', v) hk
    simp only [Bool.and_eq_true, decide_eq_true_eq] at this
    exact this


/-- A checkable sufficient condition for `Hub.LedgerInv`. -/
theorem Hub.ledgerInv_of_all {h : Hub}
    (hall : (h.cs.all fun p => decide (p.2.ids.Nodup) && p.2.ids.all (fun id => decide (1 ≤ id) && decide (id ≤ p.2.lastSteId))
      && decide ((p.2.batches.map (·.nonce)).Nodup) && p.2.batches.all (fun b => decide (b.nonce ≤ p.2.lastBatchNonce))) = true) :
    h.LedgerInv := by
  intro c
  unfold Hub.chain
  cases hg : alGet h.cs c with
  | none => exact ⟨List.nodup_nil, (fun _ h => by cases h), List.nodup_nil, (fun _ h => by cases h)⟩
  | some v =>
    obtain ⟨k', hk⟩ := alGet_mem hg
    have := List.all_eq_true.mp hall (k', v) hk
    simp only [Bool.and_eq_true, decide_eq_true_eq, List.all_eq_true] at this
    obtain ⟨⟨⟨h1, h2⟩, h3⟩, h4⟩ := this
    exact ⟨h1, h2, h3, h4⟩


/-! ### Pools only grow while events are handled (used for "issued ids are live" at end block) -/

/-- A step within one block time in which (under the invariant) no pool loses an entry and every
    freshly issued id sits in the pool, stamped with the current block time. -/
structure PoolGrow (h h' : Hub) : Prop where
  step : Hub.Step h h'
  time : h'.time = h.time
  pool : h.LedgerInv → h'.Bounded → ∀ c, ∀ s ∈ (h.chain c).pool, s ∈ (h'.chain c).pool
  fresh : h.LedgerInv → h'.Bounded → ∀ c id, (h.chain c).lastSteId < id → id ≤ (h'.chain c).lastSteId →
    ∃ s ∈ (h'.chain c).pool, s.id = id ∧ s.createdAt = h.time

theorem PoolGrow.refl (h : Hub) : PoolGrow h h :=
  ⟨Hub.Step.refl h, rfl, fun _ _ _ _ hs => hs, fun _ _ _ _ h1 h2 => by omega⟩

theorem PoolGrow.trans {a b c : Hub} (h1 : PoolGrow a b) (h2 : PoolGrow b c) : PoolGrow a c := by
  refine ⟨h1.step.trans h2.step, h2.time.trans h1.time, fun hi hb x s hs => ?_, fun hi hb x id hlo hhi => ?_⟩
  · have hbb := hb.mono h2.step
    exact h2.pool (h1.step.inv hi hbb) hb x s (h1.pool hi hbb x s hs)
  · have hbb := hb.mono h2.step
    have hib := h1.step.inv hi hbb
    by_cases hid : id ≤ (b.chain x).lastSteId
    · obtain ⟨s, hs, h3, h4⟩ := h1.fresh hi hbb x id hlo hid
      exact ⟨s, h2.pool hib hb x s hs, h3, h4⟩
    · obtain ⟨s, hs, h3, h4⟩ := h2.fresh hib hb x id (by omega) hhi
      exact ⟨s, hs, h3, h4.trans h1.time⟩

theorem PoolGrow.of_same {h h' : Hub} (e : Hub.SameLedger h h') (et : h'.time = h.time) : PoolGrow h h' :=
  ⟨e.keeps.step, et, fun _ _ c s hs => by rw [(e c).1]; exact hs,
   fun _ _ c id h1 h2 => by have := (e c).2.2.1; omega⟩

theorem PoolGrow.of_cs {h h' : Hub} (e : h'.cs = h.cs) (et : h'.time = h.time) : PoolGrow h h' :=
  PoolGrow.of_same (Hub.SameLedger.of_cs e) et

theorem PoolGrow.createSte {h h' : Hub} {chain sender rcp denom tx rc ra : String} {a f cm : Int} {id : Nat}
    (hok : h.createSte chain sender rcp denom a f cm tx rc ra = .ok (h', id)) : PoolGrow h h' := by
  refine ⟨(createSte_keeps hok).step, (createSte_status hok).2,
    fun hi hb c s hs => createSte_pool_keep hok hi hb hs, fun hi hb c id' hlo hhi => ?_⟩
  obtain ⟨ste, hid, _, hca, e1, e2, e3, _, e5⟩ := createSte_eff hok
  by_cases hc : chain = c
  · subst hc
    have hp := (ChainSt.addPool_perm hid e3 e1 e2 (Hub.ledgerInv_iff.mp hi chain) (hb chain)).1
    refine ⟨ste, hp.symm.subset List.mem_cons_self, ?_, hca⟩
    rw [e3] at hhi; omega
  · rw [e5 c hc] at hhi; omega

theorem PoolGrow.cancelBatch {h h' : Hub} {chain tok : String} {n : Nat}
    (hok : h.cancelBatch chain tok n = .ok h') : PoolGrow h h' := by
  have hk := cancelBatch_keeps hok
  obtain ⟨_, b, hfb, e1, e2, e3, e4, _, e6⟩ := cancelBatch_eff hok
  have ht : h'.time = h.time := by obtain ⟨_, _, _, rfl⟩ := cancelBatch_ok hok; rfl
  refine ⟨hk.step, ht, fun hi hb c s hs => ?_, fun _ _ c id h1 h2 => ?_⟩
  · by_cases hc : chain = c
    · subst hc
      have hbd : (h.chain chain).Bounded := ⟨by rw [← e3]; exact (hb chain).1, by rw [← e4]; exact (hb chain).2⟩
      have := (ChainSt.cancelBatch_perm (findBatch_some hfb).1 e1 e2 (Hub.ledgerInv_iff.mp hi chain) hbd).2.1
      exact this.symm.subset (List.mem_append_right _ hs)
    · rw [e6 c hc]; exact hs
  · by_cases hc : chain = c
    · subst hc; omega
    · rw [e6 c hc] at h2; omega

theorem PoolGrow.eraseBatch (v : Hub) (chain : String) (k : Bytes) :
    PoolGrow v (v.setChain chain { (v.chain chain) with batches := eraseByKey batchKey k (v.chain chain).batches }) := by
  refine ⟨Hub.Step.setChain (ChainSt.Step.of_sublist rfl rfl (List.Sublist.refl _) (eraseByKey_sublist _ _ _)),
    rfl, fun _ _ c s hs => ?_, fun _ _ c id h1 h2 => ?_⟩
  · by_cases hc : chain = c
    · subst hc; rw [chain_setChain]; exact hs
    · rw [chain_setChain_ne _ _ hc]; exact hs
  · by_cases hc : chain = c
    · subst hc; rw [chain_setChain] at h2; simp only [] at h2; omega
    · rw [chain_setChain_ne _ _ hc] at h2; omega

theorem MinterMints.poolGrow {a b : Hub} (h : MinterMints a b) : PoolGrow a b := by
  induction h with
  | refl => exact PoolGrow.refl _
  | frame e1 e2 _ _ ih => exact (PoolGrow.of_cs e1 e2).trans ih
  | create e _ ih => exact (PoolGrow.createSte e).trans ih

theorem batchExecuted_poolGrow {h h' : Hub} {chain tok tx payer : String} {n : Nat} {fp : Int}
    (hok : h.batchExecuted chain tok n tx fp payer = .ok h') : PoolGrow h h' := by
  rcases batchExecuted_decomp hok with ⟨_, rfl⟩ | ⟨b, v, _, hv, hm⟩
  · exact PoolGrow.refl _
  · have h1 : PoolGrow h v := by
      split at hv
      · exact foldlM_rel PoolGrow PoolGrow.refl PoolGrow.trans _ (fun _ _ _ _ hf => PoolGrow.cancelBatch hf) hv
      · simp only [pure, Except.pure, Except.ok.injEq] at hv; subst hv; exact PoolGrow.refl _
    exact (h1.trans (PoolGrow.eraseBatch v chain _)).trans hm.poolGrow

theorem handle_poolGrow {h h' : Hub} {mf : Bool} {chain : String} {ev : Event}
    (hok : h.handle mf chain ev = .ok h') : PoolGrow h h' := by
  cases ev with
  | sendToHub n coin amount sender receiver height txHash =>
    simp only [Hub.handle] at hok
    obtain ⟨e1, e2, _⟩ := handleSendToHub_ok hok
    exact PoolGrow.of_cs e1 e2
  | transfer n coin amount fee sender rchain receiver height txHash =>
    simp only [Hub.handle] at hok
    simp (config := { maxSteps := 2000000 }) only [bind, Except.bind, failM, panicM] at hok
    split at hok
    · cases hok
    · split at hok
      · split at hok
        · cases hok
        · obtain ⟨e1, e2, _⟩ := handleSendToHub_ok hok
          exact PoolGrow.of_cs e1 e2
      · split at hok
        · cases hok
        · rename_i v hv
          obtain ⟨e1, e2, _⟩ := handleSendToHub_ok hv
          refine (PoolGrow.of_cs e1 e2).trans ?_
          split at hok
          · split at hok
            · split at hok
              · cases hok
              · split at hok
                · cases hok
                · split at hok
                  · cases hok
                  · split at hok
                    · cases hok
                    · split at hok
                      · cases hok
                      · split at hok
                        · cases hok
                        · rename_i r hr
                          simp only [pure, Except.pure, Except.ok.injEq] at hok
                          subst hok
                          exact PoolGrow.createSte (id := r.2) hr
            · cases hok
          · cases hok
  | batchExecuted coin n bn height txHash feePaid feePayer =>
    simp only [Hub.handle] at hok
    exact batchExecuted_poolGrow hok
  | contractCall n scope inv height =>
    simp only [Hub.handle, Except.ok.injEq] at hok
    subst hok; exact PoolGrow.refl _
  | signerSet n sn height members txHash =>
    simp only [Hub.handle, Except.ok.injEq] at hok
    subst hok
    exact PoolGrow.of_same (Hub.SameLedger.setChain rfl rfl rfl rfl) rfl

theorem tryRecord_poolGrow {h h' : Hub} {mf : Bool} {chain : String} {r : VoteRec}
    (hok : h.tryRecord mf chain r = .ok h') : PoolGrow h h' := by
  unfold Hub.tryRecord at hok
  simp only [bind, Except.bind, pure, Except.pure, panicM] at hok
  split at hok
  · cases hok
  · split at hok
    · injection hok with hok; subst hok; exact PoolGrow.refl _
    · have h1 : PoolGrow h (h.setChain chain ((h.chain chain).markObserved r h.height)) :=
        PoolGrow.of_same (Hub.SameLedger.setChain rfl rfl rfl rfl) rfl
      split at hok
      · rename_i v hv
        injection hok with hok; subst hok
        exact h1.trans (handle_poolGrow hv)
      · injection hok with hok; subst hok; exact h1

theorem tally_poolGrow {h h' : Hub} {mf : Bool} {chain : String} (hok : h.tally mf chain = .ok h') :
    PoolGrow h h' := by
  unfold Hub.tally at hok
  exact foldlM_rel PoolGrow PoolGrow.refl PoolGrow.trans _ (fun _ _ _ _ hf => tryRecord_poolGrow hf) hok


/-- State `h` inside an end block that started in `h0`: one ledger step away, same block time, and
    (under the invariant) every id issued since `h0` sits in a pool, stamped with that block time. -/
structure EndEvo (h0 h : Hub) : Prop where
  step : Hub.Step h0 h
  time : h.time = h0.time
  live : h0.LedgerInv → h.Bounded → ∀ c id, (h0.chain c).lastSteId < id → id ≤ (h.chain c).lastSteId →
    ∃ s ∈ (h.chain c).pool, s.id = id ∧ s.createdAt = h0.time

theorem EndEvo.refl (h : Hub) : EndEvo h h := ⟨Hub.Step.refl h, rfl, fun _ _ _ _ h1 h2 => by omega⟩

theorem EndEvo.grow {h0 h h' : Hub} (he : EndEvo h0 h) (hg : PoolGrow h h') : EndEvo h0 h' := by
  refine ⟨he.step.trans hg.step, hg.time.trans he.time, fun hi0 hb c id hlo hhi => ?_⟩
  have hbh := hb.mono hg.step
  have hih := he.step.inv hi0 hbh
  by_cases hid : id ≤ (h.chain c).lastSteId
  · obtain ⟨s, hs, h3, h4⟩ := he.live hi0 hbh c id hlo hid
    exact ⟨s, hg.pool hih hb c s hs, h3, h4⟩
  · obtain ⟨s, hs, h3, h4⟩ := hg.fresh hih hb c id (by omega) hhi
    exact ⟨s, hs, h3, h4.trans he.time⟩

/-- A cancel (whatever its outcome) of an id that was not issued during this end block. -/
theorem EndEvo.cancelSte {h0 h : Hub} (he : EndEvo h0 h) (chain : String) (id : Nat) (sender : String)
    (hsafe : h0.LedgerInv → (h.cancelSte chain id sender).1.Bounded → id ≤ (h0.chain chain).lastSteId) :
    EndEvo h0 (h.cancelSte chain id sender).1 := by
  rcases cancelSte_cases h chain id sender with ⟨e, _, hcs, htm, _⟩ | ⟨s, hm, hsm, hsid, _, heq, hmid⟩
  · exact he.grow (PoolGrow.of_cs hcs htm)
  · rw [heq] at hsafe ⊢
    have hpg : PoolGrow h hm := by
      rcases hmid with ⟨hcs, htm, _⟩ | ⟨h1, _, _, _, hcs, htm, _, _, _, hc⟩
      · exact PoolGrow.of_cs hcs htm
      · exact (PoolGrow.of_cs hcs htm).trans (PoolGrow.createSte hc)
    have hem := he.grow hpg
    obtain ⟨f1, f2, f3, f4, f5⟩ := cancelFinish_chain hm chain s
    refine ⟨hem.step.trans (cancelFinish_step hm chain s), (cancelFinish_rk hm chain s).2.trans hem.time,
      fun hi0 hb c id' hlo hhi => ?_⟩
    have hbm : hm.Bounded := by
      intro x
      by_cases hx : chain = x
      · subst hx; exact ⟨by rw [← f3]; exact (hb chain).1, by rw [← f4]; exact (hb chain).2⟩
      · rw [← f5 x hx]; exact hb x
    have him := hem.step.inv hi0 hbm
    have hih := he.step.inv hi0 (hbm.mono hpg.step)
    have hsm' : s ∈ (hm.chain chain).pool := hpg.pool hih hbm chain s hsm
    by_cases hc : chain = c
    · subst hc
      obtain ⟨s', hs', h3, h4⟩ := hem.live hi0 hbm chain id' hlo (by rw [← f3]; exact hhi)
      have p1 := (ChainSt.erasePool_perm hsm' f1 f2 (Hub.ledgerInv_iff.mp him chain) (hbm chain).1).1
      rcases List.mem_cons.mp (p1.subset hs') with h5 | h5
      · subst h5
        have := hsafe hi0 hb
        omega
      · exact ⟨s', h5, h3, h4⟩
    · rw [f5 c hc] at hhi ⊢
      exact hem.live hi0 hbm c id' hlo hhi

theorem refundExpired_endEvo {h0 hr h' : Hub} {chain : String} (he : EndEvo h0 hr)
    (hok : hr.refundExpired chain = .ok h') : EndEvo h0 h' := by
  unfold Hub.refundExpired at hok
  have key := foldlM_rel (fun a b => (EndEvo h0 a ∧ Hub.Step hr a) → (EndEvo h0 b ∧ Hub.Step hr b))
    (fun _ h => h) (fun h1 h2 h => h2 (h1 h)) _ ?_ hok
  · exact (key ⟨he, Hub.Step.refl hr⟩).1
  · intro a s a' hsL hf ⟨hea, hsa⟩
    have hsr : s ∈ (hr.chain chain).pool := List.mem_reverse.mp hsL
    split at hf
    · rename_i hexp
      have hcs := cancelSte_step a chain s.id s.sender
      have hev := hea.cancelSte chain s.id s.sender (fun hi0 hb' => by
        have hba : a.Bounded := hb'.mono hcs
        have hbr : hr.Bounded := hba.mono hsa
        have hir := he.step.inv hi0 hbr
        have hcr := Hub.ledgerInv_iff.mp hir chain
        have hse : s ∈ (hr.chain chain).entries := ChainSt.mem_entries.mpr (.inl hsr)
        apply Classical.byContradiction
        intro hlt
        obtain ⟨s', hs', h3, h4⟩ := he.live hi0 hbr chain s.id (by omega) (hcr.entry_le hse).2
        have : s' = s := hcr.entry_inj (ChainSt.mem_entries.mpr (.inl hs')) hse h3
        subst this
        rw [hea.time, h4] at hexp
        omega)
      split at hf
      · rename_i heq; injection hf with hf; subst hf; rw [heq] at hev hcs; exact ⟨hev, hsa.trans hcs⟩
      · rename_i heq; injection hf with hf; subst hf; rw [heq] at hev hcs; exact ⟨hev, hsa.trans hcs⟩
      · cases hf
    · injection hf with hf; subst hf; exact ⟨hea, hsa⟩

theorem endBlock_endEvo {h h' : Hub} {mf : Bool} (hok : h.endBlock mf = .ok h') : EndEvo h h' := by
  unfold Hub.endBlock at hok
  have key := foldlM_rel (fun a b => EndEvo h a → EndEvo h b) (fun _ e => e) (fun h1 h2 e => h2 (h1 e)) _ ?_ hok
  · exact key (EndEvo.refl h)
  · intro a chain a' _ hf hea
    simp only [bind, Except.bind] at hf
    split at hf
    · cases hf
    · rename_i v hv
      exact refundExpired_endEvo (hea.grow (tally_poolGrow hv)) hf

/-- Every id issued during an end block is in a pool when the block ends. -/
theorem endBlock_live {h h' : Hub} {mf : Bool} (hok : h.endBlock mf = .ok h') (hi : h.LedgerInv) (hb : h'.Bounded)
    (c : String) (id : Nat) (hlo : (h.chain c).lastSteId < id) (hhi : id ≤ (h'.chain c).lastSteId) :
    id ∈ (h'.chain c).pool.map (·.id) := by
  obtain ⟨s, hs, h3, _⟩ := (endBlock_endEvo hok).live hi hb c id hlo hhi
  exact List.mem_map.mpr ⟨s, hs, h3⟩



/-- `batchTxExecuted` on a chain other than "minter": the id counter of that chain does not move,
    and chain "minter" only gains freshly issued transfers. -/
theorem batchExecuted_frame {h h' : Hub} {chain tok tx payer : String} {n : Nat} {fp : Int}
    (hok : h.batchExecuted chain tok n tx fp payer = .ok h') (hne : chain ≠ "minter") :
    (h'.chain chain).lastSteId = (h.chain chain).lastSteId ∧
    ChainSt.Keeps (h.chain "minter") (h'.chain "minter") := by
  rcases batchExecuted_decomp hok with ⟨_, rfl⟩ | ⟨b, v, _, hv, hm⟩
  · exact ⟨rfl, ChainSt.Keeps.refl _⟩
  · obtain ⟨hk, ho, _, _⟩ := executed_cancel_phase hv
    constructor
    · rw [hm.only chain (fun e => hne e.symm), chain_setChain]
      have h1 := (hk chain).mono
      have h2 : (v.chain chain).lastSteId ≤ (h.chain chain).lastSteId := by
        split at hv
        · have := foldlM_rel (fun a b => (b.chain chain).lastSteId = (a.chain chain).lastSteId)
            (fun _ => rfl) (fun {a b c} (h1 : (b.chain chain).lastSteId = (a.chain chain).lastSteId)
              (h2 : (c.chain chain).lastSteId = (b.chain chain).lastSteId) => h2.trans h1) _
            (fun a o a' _ hf => by obtain ⟨_, _, _, _, _, e3, _⟩ := cancelBatch_eff hf; exact e3) hv
          omega
        · simp only [pure, Except.pure, Except.ok.injEq] at hv; subst hv; exact Nat.le_refl _
      show (v.chain chain).lastSteId = _
      omega
    · have := hm.keeps "minter"
      rw [chain_setChain_ne _ _ hne, ho "minter" hne] at this
      exact this

end Mhub2
