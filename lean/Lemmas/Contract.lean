/-
  Helper lemmas for C08 (the Ethereum contract Hub2.sol as modelled in Mhub2/Contract.lean and
  the Minter multisig rule).  Core Lean only.
-/
import Mhub2.Contract
import Lemmas.Assoc
import Lemmas.Fees
import Lemmas.Encoding
namespace Mhub2

/-! ### Signature slots and the valid power of a signature vector -/

/-- The slot holds a signature by validator `v` over digest `h`. -/
def SigSlot.validFor (s : SigSlot) (v h : Bytes) : Bool :=
  match s with
  | .absent => false
  | .sig signer digest => signer == v && digest == h

theorem SigSlot.validFor_iff (s : SigSlot) (v h : Bytes) : s.validFor v h = true ↔ s = .sig v h := by
  cases s with
  | absent => simp [SigSlot.validFor]
  | sig a d => simp [SigSlot.validFor]

namespace C08

/-- The power that really confirmed digest `h`: the sum of `powers[i]` over the slots `i` whose
    signature is `.sig vals[i] h` (by that very validator, over that very digest).  Slots beyond
    the shortest of the three lists do not count (the contract never looks at them either). -/
def validPower : List Bytes → List Nat → List SigSlot → Bytes → Nat
  | v :: vs, p :: ps, s :: ss, h => (if s.validFor v h then p else 0) + validPower vs ps ss h
  | _, _, _, _ => 0

/-- Every present slot is a signature by the validator of that position over `h`. -/
def SlotsOK : List Bytes → List SigSlot → Bytes → Prop
  | v :: vs, s :: ss, h => (s = .absent ∨ s = .sig v h) ∧ SlotsOK vs ss h
  | _, _, _ => True

end C08
open C08

@[simp] theorem validPower_cons (v : Bytes) (vs : List Bytes) (p : Nat) (ps : List Nat) (s : SigSlot)
    (ss : List SigSlot) (h : Bytes) :
    validPower (v :: vs) (p :: ps) (s :: ss) h = (if s.validFor v h then p else 0) + validPower vs ps ss h := rfl

theorem validPower_nil_left (ps : List Nat) (ss : List SigSlot) (h : Bytes) : validPower [] ps ss h = 0 := by
  unfold validPower; rfl

theorem validPower_nil_mid (vs : List Bytes) (ss : List SigSlot) (h : Bytes) : validPower vs [] ss h = 0 := by
  cases vs <;> rfl

theorem validPower_nil_right (vs : List Bytes) (ps : List Nat) (h : Bytes) : validPower vs ps [] h = 0 := by
  cases vs <;> cases ps <;> rfl

theorem slotsOK_of_index {vals : List Bytes} {sigs : List SigSlot} {h : Bytes}
    (hok : ∀ (i : Nat) (v : Bytes) (s : SigSlot), vals[i]? = some v → sigs[i]? = some s →
      s = .absent ∨ s = .sig v h) :
    SlotsOK vals sigs h := by
  induction vals generalizing sigs with
  | nil => simp [SlotsOK]
  | cons v vs ih =>
    cases sigs with
    | nil => simp [SlotsOK]
    | cons s ss =>
      refine ⟨hok 0 v s rfl rfl, ih ?_⟩
      intro i v' s' hv hs
      exact hok (i + 1) v' s' (by simpa using hv) (by simpa using hs)

/-! ### `checkSigs.go` -/

section Go
variable (h : Bytes) (th : Nat)

theorem go_absent (v : Bytes) (vs : List Bytes) (p : Nat) (ps : List Nat) (ss : List SigSlot) (cum : Nat) :
    checkSigs.go h th (v :: vs) (p :: ps) (.absent :: ss) cum = checkSigs.go h th vs ps ss cum := by
  rw [checkSigs.go]

theorem go_sig (v : Bytes) (vs : List Bytes) (p : Nat) (ps : List Nat) (ss : List SigSlot) (cum : Nat)
    (a d : Bytes) :
    checkSigs.go h th (v :: vs) (p :: ps) (.sig a d :: ss) cum =
      if (SigSlot.sig a d).validFor v h then
        (if cum + p > th then some (cum + p) else checkSigs.go h th vs ps ss (cum + p))
      else none := by
  rw [checkSigs.go]; rfl

theorem go_nil_left (ps : List Nat) (ss : List SigSlot) (cum : Nat) :
    checkSigs.go h th [] ps ss cum = some cum := by
  rw [checkSigs.go]; intros; contradiction

theorem go_nil_mid (vs : List Bytes) (ss : List SigSlot) (cum : Nat) :
    checkSigs.go h th vs [] ss cum = some cum := by
  rw [checkSigs.go]; intros; contradiction

theorem go_nil_right (vs : List Bytes) (ps : List Nat) (cum : Nat) :
    checkSigs.go h th vs ps [] cum = some cum := by
  rw [checkSigs.go]; intros; contradiction

/-- Whatever the loop returns is at least what it started with and at most that plus the valid
    power of the slots it was given (the early `break` only skips later slots). -/
theorem go_some_bounds : ∀ (vs : List Bytes) (ps : List Nat) (ss : List SigSlot) (cum c : Nat),
    checkSigs.go h th vs ps ss cum = some c → cum ≤ c ∧ c ≤ cum + validPower vs ps ss h
  | [], ps, ss, cum, c, hg => by
    rw [go_nil_left] at hg; injection hg with hg; subst hg; simp [validPower_nil_left]
  | _ :: _, [], ss, cum, c, hg => by
    rw [go_nil_mid] at hg; injection hg with hg; subst hg; simp [validPower_nil_mid]
  | _ :: _, _ :: _, [], cum, c, hg => by
    rw [go_nil_right] at hg; injection hg with hg; subst hg; simp [validPower_nil_right]
  | v :: vs, p :: ps, .absent :: ss, cum, c, hg => by
    rw [go_absent] at hg
    have := go_some_bounds vs ps ss cum c hg
    simp only [validPower_cons, SigSlot.validFor]
    simpa using this
  | v :: vs, p :: ps, .sig a d :: ss, cum, c, hg => by
    rw [go_sig] at hg
    by_cases hv : (SigSlot.sig a d).validFor v h = true
    · simp only [hv, if_true] at hg
      simp only [validPower_cons, hv, if_true]
      by_cases hgt : cum + p > th
      · simp only [hgt, if_true] at hg
        injection hg with hg; omega
      · simp only [hgt, if_false] at hg
        have := go_some_bounds vs ps ss (cum + p) c hg
        omega
    · simp [hv] at hg

/-- All present slots valid: the loop never reverts, and it ends above the threshold as soon as the
    valid power (plus what was already counted) is above it. -/
theorem go_accepts : ∀ (vs : List Bytes) (ps : List Nat) (ss : List SigSlot) (cum : Nat),
    SlotsOK vs ss h → cum + validPower vs ps ss h > th →
      ∃ c, checkSigs.go h th vs ps ss cum = some c ∧ c > th
  | [], ps, ss, cum, _, hp => by
    rw [validPower_nil_left] at hp; exact ⟨cum, go_nil_left h th ps ss cum, hp⟩
  | _ :: _, [], ss, cum, _, hp => by
    rw [validPower_nil_mid] at hp; exact ⟨cum, go_nil_mid h th _ ss cum, hp⟩
  | _ :: _, _ :: _, [], cum, _, hp => by
    rw [validPower_nil_right] at hp; exact ⟨cum, go_nil_right h th _ _ cum, hp⟩
  | v :: vs, p :: ps, .absent :: ss, cum, hok, hp => by
    rw [go_absent]
    apply go_accepts vs ps ss cum hok.2
    simpa [SigSlot.validFor] using hp
  | v :: vs, p :: ps, .sig a d :: ss, cum, hok, hp => by
    rw [go_sig]
    have hv : (SigSlot.sig a d).validFor v h = true := by
      rcases hok.1 with h0 | h0
      · cases h0
      · exact (SigSlot.validFor_iff _ _ _).2 h0
    simp only [validPower_cons, hv, if_true] at hp ⊢
    by_cases hgt : cum + p > th
    · simp only [hgt, if_true]; exact ⟨_, rfl, hgt⟩
    · simp only [hgt, if_false]
      apply go_accepts vs ps ss (cum + p) hok.2
      omega

/-- A present slot that is not a signature by the validator of its position over `h`, reached
    while the valid power counted so far is still not above the threshold, reverts the call. -/
theorem go_bad_slot : ∀ (j : Nat) (vs : List Bytes) (ps : List Nat) (ss : List SigSlot) (cum : Nat)
    (v : Bytes) (p : Nat) (a d : Bytes),
    vs[j]? = some v → ps[j]? = some p → ss[j]? = some (.sig a d) → ¬ (a = v ∧ d = h) →
    cum + validPower (vs.take j) (ps.take j) (ss.take j) h ≤ th →
      checkSigs.go h th vs ps ss cum = none
  | _, [], _, _, _, _, _, _, _, hv, _, _, _, _ => by simp at hv
  | _, _ :: _, [], _, _, _, _, _, _, _, hp, _, _, _ => by simp at hp
  | _, _ :: _, _ :: _, [], _, _, _, _, _, _, _, hs, _, _ => by simp at hs
  | 0, v0 :: vs, p0 :: ps, s0 :: ss, cum, v, p, a, d, hv, hp, hs, hbad, _ => by
    simp only [List.getElem?_cons_zero, Option.some.injEq] at hv hp hs
    subst hv hp hs
    rw [go_sig]
    have : (SigSlot.sig a d).validFor v0 h = false := by
      cases hc : (SigSlot.sig a d).validFor v0 h with
      | false => rfl
      | true =>
        have := (SigSlot.validFor_iff _ _ _).1 hc
        injection this with h1 h2
        exact absurd ⟨h1, h2⟩ hbad
    simp [this]
  | j + 1, v0 :: vs, p0 :: ps, s0 :: ss, cum, v, p, a, d, hv, hp, hs, hbad, hle => by
    simp only [List.getElem?_cons_succ] at hv hp hs
    simp only [List.take_succ_cons, validPower_cons] at hle
    cases s0 with
    | absent =>
      rw [go_absent]
      apply go_bad_slot j vs ps ss cum v p a d hv hp hs hbad
      simpa [SigSlot.validFor] using hle
    | sig a0 d0 =>
      rw [go_sig]
      by_cases hv0 : (SigSlot.sig a0 d0).validFor v0 h = true
      · simp only [hv0, if_true] at hle ⊢
        have hgt : ¬ (cum + p0 > th) := by omega
        simp only [hgt, if_false]
        apply go_bad_slot j vs ps ss (cum + p0) v p a d hv hp hs hbad
        omega
      · simp [hv0]

end Go

theorem checkSigs_eq (vals : List Bytes) (powers : List Nat) (sigs : List SigSlot) (h : Bytes) (th : Nat) :
    checkSigs vals powers sigs h th =
      match checkSigs.go h th vals powers sigs 0 with
      | some cum => decide (cum > th)
      | none => false := rfl

theorem checkSigs_true_iff (vals : List Bytes) (powers : List Nat) (sigs : List SigSlot) (h : Bytes) (th : Nat) :
    checkSigs vals powers sigs h th = true ↔ ∃ c, checkSigs.go h th vals powers sigs 0 = some c ∧ c > th := by
  rw [checkSigs_eq]
  cases hg : checkSigs.go h th vals powers sigs 0 with
  | none => simp
  | some c => simp

/-! ### ERC-20 balances -/

/-- Overwrite one balance. -/
def Hub2St.setBal (s : Hub2St) (token holder : Bytes) (v : Nat) : Hub2St :=
  { s with erc20 := alSet s.erc20 (token, holder) v }

theorem bal_setBal (s : Hub2St) (token holder : Bytes) (v : Nat) (tk x : Bytes) :
    (s.setBal token holder v).bal tk x = if tk = token ∧ x = holder then v else s.bal tk x := by
  unfold Hub2St.setBal Hub2St.bal
  by_cases hc : tk = token ∧ x = holder
  · obtain ⟨rfl, rfl⟩ := hc
    simp
  · rw [alGet_alSet_other _ _ _ _ (by intro he; injection he with h1 h2; exact hc ⟨h1.symm, h2.symm⟩)]
    simp [hc]

/-- One ERC-20 transfer of `amt` from the contract to `dest` (the body of the `payOut` loop). -/
def payStep (s : Hub2St) (token dest : Bytes) (amt : Nat) : Hub2St :=
  let s1 := s.setBal token s.self (s.bal token s.self - amt)
  s1.setBal token dest (s1.bal token dest + amt)

theorem payOut_nil (s : Hub2St) (token : Bytes) : payOut s token [] = some s := rfl

theorem payOut_cons (s : Hub2St) (token dest : Bytes) (amt : Nat) (rest : List (Bytes × Nat)) :
    payOut s token ((dest, amt) :: rest) =
      if s.bal token s.self < amt then none else payOut (payStep s token dest amt) token rest := rfl

theorem payStep_self (s : Hub2St) (token dest : Bytes) (amt : Nat) : (payStep s token dest amt).self = s.self := rfl

theorem payStep_core (s : Hub2St) (token dest : Bytes) (amt : Nat) :
    payStep s token dest amt = { s with erc20 := (payStep s token dest amt).erc20 } := rfl

theorem bal_payStep (s : Hub2St) (token dest : Bytes) (amt : Nat) (tk x : Bytes) :
    (payStep s token dest amt).bal tk x =
      if tk = token ∧ x = dest then
        (if dest = s.self then s.bal token s.self - amt else s.bal token dest) + amt
      else if tk = token ∧ x = s.self then s.bal token s.self - amt
      else s.bal tk x := by
  unfold payStep
  simp only [bal_setBal]
  by_cases h1 : tk = token ∧ x = dest
  · simp [h1]
  · simp [h1]

/-- The amounts of `l` addressed to `d`. -/
def paidTo (d : Bytes) (l : List (Bytes × Nat)) : Nat := sumNats ((l.filter (fun p => p.1 == d)).map (·.2))

theorem paidTo_nil (d : Bytes) : paidTo d [] = 0 := rfl
theorem paidTo_cons (d dest : Bytes) (amt : Nat) (l : List (Bytes × Nat)) :
    paidTo d ((dest, amt) :: l) = (if dest = d then amt else 0) + paidTo d l := by
  unfold paidTo
  by_cases h : dest = d
  · simp [h, sumNats_cons]
  · simp [h]

theorem payOut_core : ∀ (l : List (Bytes × Nat)) (s s' : Hub2St) (token : Bytes),
    payOut s token l = some s' → s' = { s with erc20 := s'.erc20 }
  | [], s, s', token, h => by
    rw [payOut_nil] at h; injection h with h; subst h; rfl
  | (dest, amt) :: rest, s, s', token, h => by
    rw [payOut_cons] at h
    split at h
    · cases h
    · exact payOut_core rest (payStep s token dest amt) s' token h

theorem payOut_self {l : List (Bytes × Nat)} {s s' : Hub2St} {token : Bytes}
    (h : payOut s token l = some s') : s'.self = s.self := by
  rw [payOut_core l s s' token h]

/-- Balances of other tokens are untouched. -/
theorem payOut_bal_other_token : ∀ (l : List (Bytes × Nat)) (s s' : Hub2St) (token tk x : Bytes),
    payOut s token l = some s' → tk ≠ token → s'.bal tk x = s.bal tk x
  | [], s, s', token, tk, x, h, _ => by
    rw [payOut_nil] at h; injection h with h; subst h; rfl
  | (dest, amt) :: rest, s, s', token, tk, x, h, hne => by
    rw [payOut_cons] at h
    split at h
    · cases h
    · rw [payOut_bal_other_token rest _ s' token tk x h hne, bal_payStep]
      simp [hne]

/-- A holder other than the contract gains exactly the amounts addressed to it. -/
theorem payOut_bal_dest : ∀ (l : List (Bytes × Nat)) (s s' : Hub2St) (token d : Bytes),
    payOut s token l = some s' → d ≠ s.self → s'.bal token d = s.bal token d + paidTo d l
  | [], s, s', token, d, h, _ => by
    rw [payOut_nil] at h; injection h with h; subst h; simp [paidTo_nil]
  | (dest, amt) :: rest, s, s', token, d, h, hne => by
    rw [payOut_cons] at h
    split at h
    · cases h
    · rw [payOut_bal_dest rest _ s' token d h (by rw [payStep_self]; exact hne), bal_payStep, paidTo_cons]
      by_cases hd : dest = d
      · subst hd
        simp [hne]; omega
      · have : ¬ d = dest := fun e => hd e.symm
        simp [hd, this, hne]

/-- The contract loses exactly the amounts addressed to somebody else. -/
theorem payOut_bal_self : ∀ (l : List (Bytes × Nat)) (s s' : Hub2St) (token : Bytes),
    payOut s token l = some s' →
      s'.bal token s.self + sumNats ((l.filter (fun p => p.1 != s.self)).map (·.2)) = s.bal token s.self
  | [], s, s', token, h => by
    rw [payOut_nil] at h; injection h with h; subst h; simp
  | (dest, amt) :: rest, s, s', token, h => by
    rw [payOut_cons] at h
    split at h
    · cases h
    · rename_i hlt
      have ih := payOut_bal_self rest _ s' token h
      rw [payStep_self, bal_payStep] at ih
      by_cases hd : dest = s.self
      · subst hd
        simp only [and_self, if_true] at ih
        simp only [List.filter_cons, bne_self_eq_false, Bool.false_eq_true, if_false]
        omega
      · have hd' : ¬ s.self = dest := fun e => hd e.symm
        simp only [hd', and_false, if_false, and_self, if_true] at ih
        have hb : (dest != s.self) = true := by simpa using hd
        simp only [List.filter_cons, hb, if_true, List.map_cons, sumNats_cons]
        omega

theorem filter_ne_self_eq {l : List (Bytes × Nat)} {self : Bytes} (h : ∀ p ∈ l, p.1 ≠ self) :
    l.filter (fun p => p.1 != self) = l := by
  apply List.filter_eq_self.2
  intro p hp
  simpa using h p hp

/-- With no destination equal to the contract: success iff the contract holds the total. -/
theorem payOut_isSome_iff : ∀ (l : List (Bytes × Nat)) (s : Hub2St) (token : Bytes),
    (∀ p ∈ l, p.1 ≠ s.self) →
      ((payOut s token l).isSome = true ↔ sumNats (l.map (·.2)) ≤ s.bal token s.self)
  | [], s, token, _ => by simp [payOut_nil]
  | (dest, amt) :: rest, s, token, hne => by
    rw [payOut_cons]
    have hd : dest ≠ s.self := hne (dest, amt) (by simp)
    have hd' : ¬ s.self = dest := fun e => hd e.symm
    have ih := payOut_isSome_iff rest (payStep s token dest amt) token
      (by intro p hp; rw [payStep_self]; exact hne p (by simp [hp]))
    rw [payStep_self, bal_payStep] at ih
    simp only [hd', and_false, if_false, and_self, if_true] at ih
    simp only [List.map_cons, sumNats_cons]
    split
    · simp; omega
    · rw [ih]; omega

/-! ### Sums over a duplicate-free list of holders -/

theorem sum_map_congr {l : List Bytes} {f g : Bytes → Nat} (h : ∀ x ∈ l, g x = f x) :
    sumNats (l.map g) = sumNats (l.map f) := by
  induction l with
  | nil => rfl
  | cons y ys ih =>
    simp only [List.map_cons, sumNats_cons]
    rw [h y (by simp), ih (fun x hx => h x (by simp [hx]))]

/-- Changing `f` at one point `a` of a duplicate-free list changes the sum by the change at `a`. -/
theorem sum_map_update {l : List Bytes} (hnd : l.Nodup) {a : Bytes} (ha : a ∈ l) {f g : Bytes → Nat}
    (hfg : ∀ x, x ≠ a → g x = f x) : sumNats (l.map g) + f a = sumNats (l.map f) + g a := by
  induction l with
  | nil => simp at ha
  | cons y ys ih =>
    simp only [List.map_cons, sumNats_cons]
    rw [List.nodup_cons] at hnd
    by_cases hy : y = a
    · subst hy
      have : sumNats (ys.map g) = sumNats (ys.map f) :=
        sum_map_congr (fun x hx => hfg x (fun e => hnd.1 (e ▸ hx)))
      omega
    · have ha' : a ∈ ys := by
        rcases List.mem_cons.1 ha with e | e
        · exact absurd e.symm hy
        · exact e
      have := ih hnd.2 ha'
      rw [hfg y hy]
      omega

theorem payStep_conserves (s : Hub2St) (token dest : Bytes) (amt : Nat) (hle : amt ≤ s.bal token s.self)
    {holders : List Bytes} (hnd : holders.Nodup) (hself : s.self ∈ holders) (hdest : dest ∈ holders) :
    sumNats (holders.map ((payStep s token dest amt).bal token)) = sumNats (holders.map (s.bal token)) := by
  by_cases hd : dest = s.self
  · apply sum_map_congr
    intro x _
    rw [bal_payStep]
    subst hd
    by_cases hx : x = s.self
    · subst hx; simp; omega
    · simp [hx]
  · -- two updates: self loses, dest gains
    let f1 : Bytes → Nat := fun x => if x = s.self then s.bal token s.self - amt else s.bal token x
    have h1 := sum_map_update hnd hself (f := s.bal token) (g := f1)
      (by intro x hx; simp [f1, hx])
    have h2 := sum_map_update hnd hdest (f := f1) (g := (payStep s token dest amt).bal token)
      (by
        intro x hx
        rw [bal_payStep]
        simp [f1, hx])
    have e1 : f1 s.self = s.bal token s.self - amt := by simp [f1]
    have e2 : f1 dest = s.bal token dest := by simp [f1, hd]
    have e3 : (payStep s token dest amt).bal token dest = s.bal token dest + amt := by
      rw [bal_payStep]; simp [hd]
    omega

/-- `payOut` only moves tokens between holders: over any duplicate-free list of holders that
    contains the contract and every destination, the total is unchanged. -/
theorem payOut_conserves_aux : ∀ (l : List (Bytes × Nat)) (s s' : Hub2St) (token : Bytes) (holders : List Bytes),
    payOut s token l = some s' → holders.Nodup → s.self ∈ holders → (∀ p ∈ l, p.1 ∈ holders) →
      sumNats (holders.map (s'.bal token)) = sumNats (holders.map (s.bal token))
  | [], s, s', token, holders, h, _, _, _ => by
    rw [payOut_nil] at h; injection h with h; subst h; rfl
  | (dest, amt) :: rest, s, s', token, holders, h, hnd, hself, hd => by
    rw [payOut_cons] at h
    split at h
    · cases h
    · rename_i hlt
      rw [payOut_conserves_aux rest _ s' token holders h hnd (by rw [payStep_self]; exact hself)
        (fun p hp => hd p (by simp [hp]))]
      exact payStep_conserves s token dest amt (by omega) hnd hself (hd (dest, amt) (by simp))

theorem map_snd_zip_of_length {α β : Type} : ∀ (l1 : List α) (l2 : List β), l2.length ≤ l1.length →
    (l1.zip l2).map (·.2) = l2
  | _, [], _ => by simp
  | [], _ :: _, h => by simp at h
  | a :: l1, b :: l2, h => by
    simp only [List.zip_cons_cons, List.map_cons, List.cons.injEq, true_and]
    exact map_snd_zip_of_length l1 l2 (by simpa using h)

theorem mem_zip_fst {α β : Type} {l1 : List α} {l2 : List β} {p : α × β} (h : p ∈ l1.zip l2) : p.1 ∈ l1 :=
  (List.of_mem_zip h).1

/-! ### The three entry points, as equivalences -/

/-- The state `updateValset` produces when it does not revert. -/
def Hub2St.afterValset (s : Hub2St) (newV : ValsetArgs) : Hub2St :=
  { s with checkpoint := makeCheckpoint s.gravityId newV, valsetNonce := newV.nonce,
           eventNonce := s.eventNonce + 1 }

set_option linter.unusedSimpArgs false in
theorem updateValset_eq_some_iff (s : Hub2St) (newV cur : ValsetArgs) (sigs : List SigSlot)
    (r : Hub2St × EvmLog) :
    s.updateValset newV cur sigs = some r ↔
      (newV.nonce > cur.nonce ∧ newV.validators.length = newV.powers.length ∧
        cur.validators.length = cur.powers.length ∧ cur.validators.length = sigs.length ∧
        makeCheckpoint s.gravityId cur = s.checkpoint ∧
        checkSigs cur.validators cur.powers sigs (makeCheckpoint s.gravityId newV) s.threshold = true) ∧
      r = (s.afterValset newV, .valsetUpdated newV.nonce (s.eventNonce + 1)) := by
  unfold Hub2St.updateValset Hub2St.afterValset
  by_cases h1 : newV.nonce > cur.nonce <;> simp only [h1, decide_true, decide_false, Bool.not_true,
    Bool.not_false, Bool.false_eq_true, if_true, if_false, false_and, true_and, reduceCtorEq]
  by_cases h2 : newV.validators.length = newV.powers.length <;> simp only [h2, bne_self_eq_false, bne_iff_ne,
    ne_eq, not_true_eq_false, not_false_eq_true, Bool.false_eq_true, if_true, if_false, false_and, true_and,
    reduceCtorEq]
  by_cases h3 : cur.validators.length = cur.powers.length <;> simp only [h3, beq_self_eq_true, beq_iff_eq,
    Bool.true_and, Bool.false_and, Bool.not_false, Bool.false_eq_true, if_true, if_false, false_and, true_and,
    reduceCtorEq]
  · by_cases h4 : cur.powers.length = sigs.length <;> simp only [h4, beq_self_eq_true, beq_iff_eq,
      Bool.not_true, Bool.not_false, Bool.false_eq_true, if_true, if_false, false_and, true_and, reduceCtorEq]
    · by_cases h5 : makeCheckpoint s.gravityId cur = s.checkpoint <;> simp only [h5, bne_self_eq_false,
        bne_iff_ne, ne_eq, not_true_eq_false, not_false_eq_true, Bool.false_eq_true, if_true, if_false,
        false_and, true_and, reduceCtorEq]
      cases h6 : checkSigs cur.validators cur.powers sigs (makeCheckpoint s.gravityId newV) s.threshold <;>
        simp only [Bool.not_true, Bool.not_false, Bool.false_eq_true, if_true, if_false, false_and, true_and,
          reduceCtorEq, Option.some.injEq]
      exact eq_comm
    · simp [h4]
  · simp [h3]

/-- `submitBatch` records the batch nonce before paying out. -/
def Hub2St.batchPre (s : Hub2St) (b : BatchView) : Hub2St :=
  { s with batchNonces := alSet s.batchNonces b.token b.nonce }

set_option linter.unusedSimpArgs false in
theorem submitBatch_eq_some_iff (s : Hub2St) (cur : ValsetArgs) (sigs : List SigSlot) (b : BatchView)
    (r : Hub2St × EvmLog) :
    s.submitBatch cur sigs b = some r ↔
      (s.lastBatchNonce b.token < b.nonce ∧ s.blockNumber < b.timeout ∧
        cur.validators.length = cur.powers.length ∧ cur.validators.length = sigs.length ∧
        makeCheckpoint s.gravityId cur = s.checkpoint ∧
        b.amounts.length = b.destinations.length ∧ b.amounts.length = b.fees.length ∧
        checkSigs cur.validators cur.powers sigs (batchDigest s.gravityId b) s.threshold = true) ∧
      ∃ s2, payOut (s.batchPre b) b.token (b.destinations.zip b.amounts) = some s2 ∧
        r = ({ s2 with eventNonce := s2.eventNonce + 1 }, .batchExecuted b.nonce b.token (s2.eventNonce + 1)) := by
  unfold Hub2St.submitBatch Hub2St.batchPre
  by_cases h1 : s.lastBatchNonce b.token < b.nonce <;> simp only [h1, decide_true, decide_false, Bool.not_true,
    Bool.not_false, Bool.false_eq_true, if_true, if_false, false_and, true_and, reduceCtorEq]
  by_cases h2 : s.blockNumber < b.timeout <;> simp only [h2, decide_true, decide_false, Bool.not_true,
    Bool.not_false, Bool.false_eq_true, if_true, if_false, false_and, true_and, reduceCtorEq]
  by_cases h3 : cur.validators.length = cur.powers.length <;> simp only [h3, beq_self_eq_true, beq_iff_eq,
    Bool.true_and, Bool.false_and, Bool.not_false, Bool.false_eq_true, if_true, if_false, false_and, true_and,
    reduceCtorEq]
  · by_cases h4 : cur.powers.length = sigs.length <;> simp only [h4, beq_self_eq_true, beq_iff_eq,
      Bool.not_true, Bool.not_false, Bool.false_eq_true, if_true, if_false, false_and, true_and, reduceCtorEq]
    · by_cases h5 : makeCheckpoint s.gravityId cur = s.checkpoint <;> simp only [h5, bne_self_eq_false,
        bne_iff_ne, ne_eq, not_true_eq_false, not_false_eq_true, Bool.false_eq_true, if_true, if_false,
        false_and, true_and, reduceCtorEq]
      by_cases h6 : b.amounts.length = b.destinations.length <;> simp only [h6, beq_self_eq_true, beq_iff_eq,
        Bool.true_and, Bool.false_and, Bool.not_false, Bool.false_eq_true, if_true, if_false, false_and,
        true_and, reduceCtorEq]
      · by_cases h7 : b.destinations.length = b.fees.length <;> simp only [h7, beq_self_eq_true, beq_iff_eq,
          Bool.not_true, Bool.not_false, Bool.false_eq_true, if_true, if_false, false_and, true_and,
          reduceCtorEq]
        · cases h8 : checkSigs cur.validators cur.powers sigs (batchDigest s.gravityId b) s.threshold <;>
            simp only [Bool.not_true, Bool.not_false, Bool.false_eq_true, if_true, if_false, false_and,
              true_and, reduceCtorEq]
          cases h9 : payOut { s with batchNonces := alSet s.batchNonces b.token b.nonce } b.token
              (b.destinations.zip b.amounts) with
          | none => simp
          | some s2 =>
            simp only [Option.some.injEq]
            constructor
            · intro h; exact ⟨s2, rfl, h.symm⟩
            · rintro ⟨s2', he, hr⟩; subst he; exact hr.symm
        · simp [h7]
      · simp [h6]
    · simp [h4]
  · simp [h3]

/-- The state `transferToChain` produces when it does not revert. -/
def Hub2St.afterTransfer (s : Hub2St) (token sender : Bytes) (amount : Nat) : Hub2St :=
  let al := (alGet s.allowance (token, sender)).getD 0
  let s1 : Hub2St := { s with erc20 := alSet s.erc20 (token, sender) (s.bal token sender - amount),
                              allowance := alSet s.allowance (token, sender) (al - amount) }
  { s1 with erc20 := alSet s1.erc20 (token, s1.self) (s1.bal token s1.self + amount),
            eventNonce := s1.eventNonce + 1 }

theorem transferToChain_eq_some_iff (s : Hub2St) (token sender : Bytes) (amount fee : Nat)
    (r : Hub2St × EvmLog) :
    s.transferToChain token sender amount fee = some r ↔
      (amount ≤ s.bal token sender ∧ amount ≤ (alGet s.allowance (token, sender)).getD 0) ∧
      r = (s.afterTransfer token sender amount,
           .transferToChain token sender amount fee (s.eventNonce + 1)) := by
  unfold Hub2St.transferToChain Hub2St.afterTransfer
  by_cases h : s.bal token sender < amount ∨ (alGet s.allowance (token, sender)).getD 0 < amount
  · have : ¬ (amount ≤ s.bal token sender ∧ amount ≤ (alGet s.allowance (token, sender)).getD 0) := by omega
    simp [h, this]
  · have h' : amount ≤ s.bal token sender ∧ amount ≤ (alGet s.allowance (token, sender)).getD 0 := by omega
    simp only [Bool.or_eq_true, decide_eq_true_eq, h, if_false, h', and_self, true_and, Option.some.injEq]
    exact eq_comm

theorem bal_afterTransfer (s : Hub2St) (token sender : Bytes) (amount : Nat) (tk x : Bytes) :
    (s.afterTransfer token sender amount).bal tk x =
      if tk = token ∧ x = s.self then
        (if sender = s.self then s.bal token sender - amount else s.bal token s.self) + amount
      else if tk = token ∧ x = sender then s.bal token sender - amount
      else s.bal tk x := by
  have : s.afterTransfer token sender amount =
      { ((s.setBal token sender (s.bal token sender - amount)).setBal token s.self
          ((s.setBal token sender (s.bal token sender - amount)).bal token s.self + amount)) with
        allowance := alSet s.allowance (token, sender) ((alGet s.allowance (token, sender)).getD 0 - amount),
        eventNonce := s.eventNonce + 1 } := rfl
  rw [this]
  show ((s.setBal token sender (s.bal token sender - amount)).setBal token s.self
          ((s.setBal token sender (s.bal token sender - amount)).bal token s.self + amount)).bal tk x = _
  simp only [bal_setBal]
  by_cases h1 : tk = token ∧ x = s.self
  · obtain ⟨rfl, rfl⟩ := h1
    by_cases h2 : s.self = sender
    · simp [h2]
    · have : ¬ sender = s.self := fun e => h2 e.symm
      simp [h2, this]
  · simp [h1]

/-! ### Minter multisig arithmetic -/

theorem nat_div_add_le (a b G : Nat) : a / G + b / G ≤ (a + b) / G := by
  by_cases hG : G = 0
  · subst hG; simp
  · have hG' : 0 < G := Nat.pos_of_ne_zero hG
    apply (Nat.le_div_iff_mul_le hG').2
    have h1 := Nat.div_mul_le_self a G
    have h2 := Nat.div_mul_le_self b G
    rw [Nat.add_mul]
    omega

/-- The total weight (or power) of the members whose bit is set. -/
def signedSum (ws : List Nat) (signed : List Bool) : Nat :=
  sumNats ((ws.zip signed).filterMap fun (w, b) => if b then some w else none)

theorem signedSum_nil_left (bs : List Bool) : signedSum [] bs = 0 := by simp [signedSum]
theorem signedSum_nil_right (ws : List Nat) : signedSum ws [] = 0 := by simp [signedSum]
theorem signedSum_cons (w : Nat) (ws : List Nat) (b : Bool) (bs : List Bool) :
    signedSum (w :: ws) (b :: bs) = (if b then w else 0) + signedSum ws bs := by
  cases b <;> simp [signedSum, sumNats_cons]

theorem minterAccepts_eq (next n : Nat) (ws : List Nat) (signed : List Bool) :
    minterAccepts next n ws signed = (n == next && decide (signedSum ws signed ≥ minterThreshold)) := rfl

theorem signedSum_le_sum : ∀ (ws : List Nat) (bs : List Bool), signedSum ws bs ≤ sumNats ws
  | [], bs => by simp [signedSum_nil_left]
  | w :: ws, [] => by simp [signedSum_nil_right]
  | w :: ws, b :: bs => by
    rw [signedSum_cons, sumNats_cons]
    have := signedSum_le_sum ws bs
    cases b <;> simp <;> omega

/-- Σ_{signed} ⌊pᵢ·L/G⌋ ≤ ⌊(Σ_{signed} pᵢ)·L/G⌋ -/
theorem signedSum_floor_le (L G : Nat) : ∀ (ps : List Nat) (bs : List Bool),
    signedSum (ps.map fun p => p * L / G) bs ≤ signedSum ps bs * L / G
  | [], bs => by simp [signedSum_nil_left]
  | p :: ps, [] => by simp [signedSum_nil_right]
  | p :: ps, b :: bs => by
    rw [List.map_cons, signedSum_cons, signedSum_cons]
    have ih := signedSum_floor_le L G ps bs
    cases b
    · simpa using ih
    · simp only [if_true]
      calc p * L / G + signedSum (ps.map fun p => p * L / G) bs
          ≤ p * L / G + signedSum ps bs * L / G := by omega
        _ ≤ (p * L + signedSum ps bs * L) / G := nat_div_add_le _ _ _
        _ = (p + signedSum ps bs) * L / G := by rw [Nat.add_mul]

/-- Σ ⌊pᵢ·L/G⌋ ≤ ⌊(Σ pᵢ)·L/G⌋ -/
theorem sum_floor_le_nat (L G : Nat) : ∀ (ps : List Nat),
    sumNats (ps.map fun p => p * L / G) ≤ sumNats ps * L / G
  | [] => by simp
  | p :: ps => by
    rw [List.map_cons, sumNats_cons, sumNats_cons]
    have ih := sum_floor_le_nat L G ps
    calc p * L / G + sumNats (ps.map fun p => p * L / G)
        ≤ p * L / G + sumNats ps * L / G := by omega
      _ ≤ (p * L + sumNats ps * L) / G := nat_div_add_le _ _ _
      _ = (p + sumNats ps) * L / G := by rw [Nat.add_mul]

theorem minterWeights_eq (powers : List Nat) :
    minterWeights powers = powers.map fun p => p * 1000 / sumNats powers := rfl

/-! ### Well-typed signer-set arguments and the checkpoint pre-image -/

/-- The arguments are EVM values: 20-byte addresses, `uint256` powers and nonce, array lengths that
    fit a `uint256` length word (calldata decoding guarantees all of this on the real contract). -/
structure ValsetArgs.WT (v : ValsetArgs) : Prop where
  addr_len : ∀ a ∈ v.validators, a.length = 20
  powers_lt : ∀ p ∈ v.powers, p < 2 ^ 256
  nonce_lt : v.nonce < 2 ^ 256
  vals_short : v.validators.length < 2 ^ 256
  powers_short : v.powers.length < 2 ^ 256

theorem methodCheckpoint_length : methodCheckpoint.length = 32 := by decide +kernel
theorem methodBatch_length : methodBatch.length = 32 := by decide +kernel

/-- The pre-image `makeCheckpoint` hashes. -/
def checkpointPre (g : Bytes) (v : ValsetArgs) : Bytes :=
  abiEncode (solArgsSignerSet g methodCheckpoint v.nonce v.validators v.powers)

theorem makeCheckpoint_eq (g : Bytes) (v : ValsetArgs) : makeCheckpoint g v = keccak256 (checkpointPre g v) := rfl

theorem checkpointPre_inj {g : Bytes} {v1 v2 : ValsetArgs} (hg : g.length = 32) (h1 : v1.WT) (h2 : v2.WT)
    (h : checkpointPre g v1 = checkpointPre g v2) : v1 = v2 := by
  have := Enc.abiEncode_inj
    (a1 := solArgsSignerSet g methodCheckpoint v1.nonce v1.validators v1.powers)
    (a2 := solArgsSignerSet g methodCheckpoint v2.nonce v2.validators v2.powers) rfl
    (Enc.wf_solArgsSignerSet hg methodCheckpoint_length h1.nonce_lt h1.vals_short h1.addr_len
      h1.powers_short h1.powers_lt)
    (Enc.wf_solArgsSignerSet hg methodCheckpoint_length h2.nonce_lt h2.vals_short h2.addr_len
      h2.powers_short h2.powers_lt) h
  simp only [solArgsSignerSet, List.cons.injEq, AbiVal.uint.injEq, AbiVal.addrArr.injEq,
    AbiVal.uintArr.injEq, and_true, true_and] at this
  obtain ⟨hn, hv, hp⟩ := this
  cases v1; cases v2
  simp only at hn hv hp
  subst hn hv hp
  rfl

end Mhub2
