/-
  The closed loop behind C01: the hub model together with an abstract ledger of the external
  custody (the Hub2 contracts / the Minter multisig) of ONE bridged asset `dn`, and the events in
  transit between the two.  Definitions and helper lemmas; the property theorems are in
  Props/C01World.lean.

  Everything is expressed in the common unit of Mhub2/Value.lean (10^-36).

  HONEST-QUORUM ABSTRACTION.  The hub applies exactly the events the external chains emitted, each
  once, in emission order: `lock` / `execute` are the external transactions (they change the custody
  and emit an event), `applyDeposit` / `applyExec` are the hub's tally applying the oldest emitted
  event that is still unapplied through the event handler `Hub.handle`.  Consequently the `endBlock`
  operation of the hub (which applies whatever a quorum voted for, see C02/C03) is not a `hubOp`
  here; its second half, the expiry refunds, is the operation `expire`.

  (`Mhub2.World` of Mhub2/Step.lean is the hub + oracle pair of the line protocol; the world below
  lives in the namespace `Mhub2.C01`.)

  Sections: values seen by `dn`; the world (`World`, `WOp`, `wstep`, `wrun`); the invariant
  (`SolvInv`, `PendOK`, `WInv`, `ExecOk`, `RunOk`); helpers; `BatchFrame` (stored batches are
  immutable, nonces are not reused) and `pend_step`; `SameBatches` / `BKeep` (which batches an
  operation may withdraw) and `stored_step` (H1(a) from the clock condition `NoTimeout`); Boolean
  checkers of the hypotheses for concrete histories.
-/
import Lemmas.Value
namespace Mhub2.C01
open Mhub2

/-! ### Values seen by the denom `dn` -/

/-- Value, as seen by `dn`, of `a` external units of the token `(chain, coin)` of the hub's token
    table: `a · 10^(36 - decimals)` when that token is a token of `dn`, nothing otherwise. -/
def tokValue (h : Hub) (dn chain coin : String) (a : Int) : Int :=
  match h.tokenByExt chain coin with
  | some t => if t.denom = dn then extValue t a else 0
  | none => 0

/-- The collateral a deposit event locked on `chain` (`Hub2.transferToChain` locks exactly `_amount`,
    see `fact_sol_transfer_lock`), as seen by `dn`. -/
def lockValue (h : Hub) (dn chain : String) : Event → Int
  | .sendToHub _ coin amount _ _ _ _ => tokValue h dn chain coin amount
  | .transfer _ coin amount _ _ _ _ _ _ => tokValue h dn chain coin amount
  | _ => 0

/-- The events a `lock` can emit: a deposit or a chain-to-chain transfer of a non-negative amount
    (a `uint256` in the contract). -/
def isDeposit : Event → Bool
  | .sendToHub _ _ amount _ _ _ _ => decide (0 ≤ amount)
  | .transfer _ _ amount _ _ _ _ _ _ => decide (0 ≤ amount)
  | _ => false

/-- A batch paid out by the external contract whose `batchExecuted` event the hub has not applied
    yet: its key `(chain, tok, nonce)` and the batch the contract executed (the batch the hub stored
    under that key when the relayer submitted it). -/
structure PendingExec where
  chain : String
  tok : String
  nonce : Nat
  batch : Batch
  deriving Repr

deriving instance DecidableEq for Ste
deriving instance DecidableEq for Batch
deriving instance DecidableEq for PendingExec

/-- What the contract paid out for the batch (`Σ amounts` to the destinations, see `payOut` of
    Mhub2/Contract.lean), as seen by `dn`. -/
def execValue (h : Hub) (dn : String) (p : PendingExec) : Int :=
  tokValue h dn p.chain p.batch.extToken (sumInts (p.batch.txs.map (·.amount)))

/-! ### The world -/

structure World where
  hub : Hub
  /-- value of `dn` held by the external contracts / the multisig -/
  custody : Int
  /-- emitted deposit events (collateral already locked) the hub has not applied yet, oldest first -/
  pendingDeposits : List (String × Event) := []
  /-- batches already paid out externally whose execution event is not applied yet, oldest first -/
  pendingExecs : List PendingExec := []

/-- The hub operations of a world history: everything but `reset`, `token` (the token table is
    fixed), `fund` (the test harness' mint) and `endBlock` (replaced by `applyDeposit`, `applyExec`
    and `expire`). -/
def hubOpOk : Op → Bool
  | .reset => false
  | .token _ => false
  | .fund _ _ _ => false
  | .endBlock => false
  | _ => true

inductive WOp where
  /-- any hub operation with `hubOpOk`: send, cancel, request batch, votes, confirmations, begin
      block, environment (prices, holders, staking, params, block height/time) … -/
  | hubOp (op : Op)
  /-- the expiry refunds of the end block on one chain -/
  | expire (chain : String)
  /-- a user locks collateral on `chain`; `ev` is the event the contract emits -/
  | lock (chain : String) (ev : Event)
  /-- a relayer executes the hub's stored batch `(chain, tok, n)` on the external chain -/
  | execute (chain tok : String) (n : Nat)
  /-- the hub applies the oldest pending deposit event -/
  | applyDeposit
  /-- the hub applies the oldest pending execution event; the parameters are the fields of the
      `batchExecuted` event that the contract / the relayer choose -/
  | applyExec (evNonce height : Nat) (tx : String) (feePaid : Int) (payer : String)

/-- The contract's `lastBatchNonce[token] < nonce` check on the batch `b` it is given, restricted to
    what is still pending (the executions already applied have erased their batch and every older
    one of the token from the hub). -/
def execAllowed (l : List PendingExec) (chain : String) (b : Batch) : Bool :=
  l.all fun p => !(p.chain == chain && p.batch.extToken == b.extToken) || decide (p.batch.nonce < b.nonce)

/-- One step of the world.  An operation whose precondition fails leaves the world unchanged. -/
def wstep (dn : String) (w : World) : WOp → World
  | .hubOp op => if hubOpOk op then { w with hub := (apply w.hub op).1 } else w
  | .expire chain =>
    match w.hub.refundExpired chain with
    | .ok h' => { w with hub := h' }
    | .error _ => w
  | .lock chain ev =>
    if isDeposit ev then
      { w with custody := w.custody + lockValue w.hub dn chain ev,
               pendingDeposits := w.pendingDeposits ++ [(chain, ev)] }
    else w
  | .execute chain tok n =>
    match w.hub.findBatch chain tok n with
    | some b =>
      if execAllowed w.pendingExecs chain b then
        { w with custody := w.custody - execValue w.hub dn ⟨chain, tok, n, b⟩,
                 pendingExecs := w.pendingExecs ++ [⟨chain, tok, n, b⟩] }
      else w
    | none => w
  | .applyDeposit =>
    match w.pendingDeposits with
    | [] => w
    | (chain, ev) :: rest =>
      match w.hub.handle false chain ev with
      | .ok h' => { w with hub := h', pendingDeposits := rest }
      | .error _ => { w with pendingDeposits := rest }
  | .applyExec evNonce height tx feePaid payer =>
    match w.pendingExecs with
    | [] => w
    | p :: rest =>
      match w.hub.handle false p.chain (.batchExecuted p.tok evNonce p.nonce height tx feePaid payer) with
      | .ok h' => { w with hub := h', pendingExecs := rest }
      | .error _ => { w with pendingExecs := rest }

def wrun (dn : String) (w : World) (ops : List WOp) : World := ops.foldl (wstep dn) w

@[simp] theorem wrun_nil (dn : String) (w : World) : wrun dn w [] = w := rfl
@[simp] theorem wrun_cons (dn : String) (w : World) (op : WOp) (ops : List WOp) :
    wrun dn w (op :: ops) = wrun dn (wstep dn w op) ops := rfl

/-! ### The invariant -/

def depSum (h : Hub) (dn : String) (l : List (String × Event)) : Int :=
  sumInts (l.map fun p => lockValue h dn p.1 p.2)

def execSum (h : Hub) (dn : String) (l : List PendingExec) : Int :=
  sumInts (l.map (execValue h dn))

/-- SOLVENCY, with the events in transit: what the hub owes (vouchers in circulation + transfers in
    flight) plus what it will mint for the deposits it has not seen yet is covered by the custody plus
    what was paid out for batches whose execution it has not seen yet (and will write off). -/
def SolvInv (dn : String) (w : World) : Prop :=
  w.hub.value dn + depSum w.hub dn w.pendingDeposits ≤ w.custody + execSum w.hub dn w.pendingExecs

/-- The batch recorded for a pending execution is the only batch the hub can ever store under its
    key: it has that key, its nonce is not above the chain's batch counter, and any stored batch
    with that key is that batch. -/
def PendOK (h : Hub) (p : PendingExec) : Prop :=
  batchKey p.batch = batchKeyOf p.tok p.nonce ∧
  p.batch.nonce ≤ (h.chain p.chain).lastBatchNonce ∧
  ∀ b' ∈ (h.chain p.chain).batches, batchKey b' = batchKey p.batch → b' = p.batch

/-- The inductive invariant of a world history. -/
structure WInv (dn : String) (w : World) : Prop where
  vinv : w.hub.VInv
  deps : ∀ p ∈ w.pendingDeposits, isDeposit p.2 = true
  pend : ∀ p ∈ w.pendingExecs, PendOK w.hub p
  solv : SolvInv dn w

/-- H1.  Hypothesis on an `applyExec` step: the hub still stores a batch under the key of the oldest
    pending execution (by `PendOK` it is then the batch the contract executed), and the handler
    succeeds. -/
def ExecOk (w : World) : WOp → Prop
  | .applyExec evNonce height tx feePaid payer =>
    ∀ p rest, w.pendingExecs = p :: rest →
      (w.hub.findBatch p.chain p.tok p.nonce).isSome = true ∧
      ∃ h', w.hub.handle false p.chain (.batchExecuted p.tok evNonce p.nonce height tx feePaid payer) = .ok h'
  | _ => True

/-- H1 in the form the value argument uses: the stored batch is the recorded one. -/
def ExecSame (w : World) : WOp → Prop
  | .applyExec evNonce height tx feePaid payer =>
    ∀ p rest, w.pendingExecs = p :: rest →
      w.hub.findBatch p.chain p.tok p.nonce = some p.batch ∧
      ∃ h', w.hub.handle false p.chain (.batchExecuted p.tok evNonce p.nonce height tx feePaid payer) = .ok h'
  | _ => True

/-- H1 + H2 along a history: every `applyExec` step satisfies `ExecOk`, and the counters of every
    visited hub state fit in a `uint64`. -/
def RunOk (dn : String) : World → List WOp → Prop
  | _, [] => True
  | w, op :: ops => ExecOk w op ∧ (wstep dn w op).hub.Bounded ∧ RunOk dn (wstep dn w op) ops

/-! ### Helpers -/

theorem hubOpOk_spec {op : Op} (h : hubOpOk op = true) :
    op ≠ .reset ∧ (∀ t, op ≠ .token t) ∧ (∀ a d x, op ≠ .fund a d x) ∧ op ≠ .endBlock := by
  cases op <;> simp [hubOpOk] at h ⊢

theorem tokValue_of_tokens {h h' : Hub} (e : h'.tokens = h.tokens) (dn chain coin : String) (a : Int) :
    tokValue h' dn chain coin a = tokValue h dn chain coin a := by
  unfold tokValue; rw [tokenByExt_of_tokens e]

theorem lockValue_of_tokens {h h' : Hub} (e : h'.tokens = h.tokens) (dn chain : String) (ev : Event) :
    lockValue h' dn chain ev = lockValue h dn chain ev := by
  cases ev <;> simp [lockValue, tokValue_of_tokens e]

theorem execValue_of_tokens {h h' : Hub} (e : h'.tokens = h.tokens) (dn : String) (p : PendingExec) :
    execValue h' dn p = execValue h dn p := by
  unfold execValue; rw [tokValue_of_tokens e]

theorem depSum_of_tokens {h h' : Hub} (e : h'.tokens = h.tokens) (dn : String) (l : List (String × Event)) :
    depSum h' dn l = depSum h dn l := by
  unfold depSum
  congr 1
  exact List.map_congr_left fun p _ => lockValue_of_tokens e dn p.1 p.2

theorem execSum_of_tokens {h h' : Hub} (e : h'.tokens = h.tokens) (dn : String) (l : List PendingExec) :
    execSum h' dn l = execSum h dn l := by
  unfold execSum
  congr 1
  exact List.map_congr_left fun p _ => execValue_of_tokens e dn p

@[simp] theorem depSum_nil (h : Hub) (dn : String) : depSum h dn [] = 0 := rfl
@[simp] theorem execSum_nil (h : Hub) (dn : String) : execSum h dn [] = 0 := rfl

theorem depSum_cons (h : Hub) (dn : String) (p : String × Event) (l : List (String × Event)) :
    depSum h dn (p :: l) = lockValue h dn p.1 p.2 + depSum h dn l := by
  simp [depSum, sumInts_cons]

theorem execSum_cons (h : Hub) (dn : String) (p : PendingExec) (l : List PendingExec) :
    execSum h dn (p :: l) = execValue h dn p + execSum h dn l := by
  simp [execSum, sumInts_cons]

theorem depSum_snoc (h : Hub) (dn : String) (l : List (String × Event)) (p : String × Event) :
    depSum h dn (l ++ [p]) = depSum h dn l + lockValue h dn p.1 p.2 := by
  simp [depSum, sumInts_append, sumInts_cons]

theorem execSum_snoc (h : Hub) (dn : String) (l : List PendingExec) (p : PendingExec) :
    execSum h dn (l ++ [p]) = execSum h dn l + execValue h dn p := by
  simp [execSum, sumInts_append, sumInts_cons]

/-- The locked value of an event is the bound `Hub.depositCredit` of the handler lemmas (for the
    generated minting mode `mintsFee = false`: the handler mints the amount, not amount + fee). -/
theorem lockValue_eq_depositCredit (h : Hub) (dn chain : String) (ev : Event) :
    lockValue h dn chain ev = h.depositCredit false chain dn ev := by
  cases ev with
  | sendToHub n coin amount s r ht tx =>
    simp only [lockValue, Hub.depositCredit, tokValue, extCredit]
    cases h.tokenByExt chain coin <;> rfl
  | transfer n coin amount fee s rc r ht tx =>
    simp only [lockValue, Hub.depositCredit, tokValue, extCredit, ttcMintAmount, Bool.false_eq_true, if_false]
    cases h.tokenByExt chain coin <;> rfl
  | batchExecuted => rfl
  | contractCall => rfl
  | signerSet => rfl

theorem tokValue_nonneg (h : Hub) (dn chain coin : String) {a : Int} (ha : 0 ≤ a) :
    0 ≤ tokValue h dn chain coin a := by
  unfold tokValue
  split
  · split
    · exact mul_unit_nonneg ha _
    · omega
  · omega

theorem lockValue_nonneg (h : Hub) (dn chain : String) {ev : Event} (hd : isDeposit ev = true) :
    0 ≤ lockValue h dn chain ev := by
  cases ev <;> simp [isDeposit] at hd <;> exact tokValue_nonneg h dn chain _ hd

theorem depSum_nonneg (h : Hub) (dn : String) {l : List (String × Event)}
    (hd : ∀ p ∈ l, isDeposit p.2 = true) : 0 ≤ depSum h dn l := by
  unfold depSum
  apply sumInts_nonneg
  intro x hx
  obtain ⟨p, hp, rfl⟩ := List.mem_map.mp hx
  exact lockValue_nonneg h dn p.1 (hd p hp)

/-- No operation of a world history changes the hub's token table. -/
theorem wstep_tokens (dn : String) (w : World) (op : WOp) : (wstep dn w op).hub.tokens = w.hub.tokens := by
  cases op with
  | hubOp op =>
    simp only [wstep]
    split
    · rename_i hok
      obtain ⟨hr, ht, hf, he⟩ := hubOpOk_spec hok
      exact (apply_vrel w.hub op hr ht hf he "").tokens
    · rfl
  | expire chain =>
    simp only [wstep]
    split
    · rename_i h' hok; exact (refundExpired_vrel hok "").tokens
    · rfl
  | lock chain ev => simp only [wstep]; split <;> rfl
  | execute chain tok n =>
    simp only [wstep]
    split
    · split <;> rfl
    · rfl
  | applyDeposit =>
    simp only [wstep]
    split
    · rfl
    · split
      · rename_i h' hok; exact (handle_vrel hok "").tokens
      · rfl
  | applyExec evn ht tx fp payer =>
    simp only [wstep]
    split
    · rfl
    · split
      · rename_i h' hok; exact (handle_vrel hok "").tokens
      · rfl

/-! ### Stored batches are immutable and batch nonces are never reused

  `BatchFrame h h'`: on every chain the batch counter only grows, and a batch stored afterwards
  either was stored before (the very same batch) or carries a nonce above the old counter.  Every
  operation of a world history is a `BatchFrame`.  Consequently a key `(chain, tok, n)` that named
  the batch `b` can later only name `b` (or nothing). -/

def BatchFrame (h h' : Hub) : Prop :=
  ∀ c, (h.chain c).lastBatchNonce ≤ (h'.chain c).lastBatchNonce ∧
    ∀ b ∈ (h'.chain c).batches, b ∈ (h.chain c).batches ∨ (h.chain c).lastBatchNonce < b.nonce

theorem BatchFrame.refl (h : Hub) : BatchFrame h h := fun _ => ⟨Nat.le_refl _, fun _ hb => .inl hb⟩

theorem BatchFrame.trans {a b c : Hub} (h1 : BatchFrame a b) (h2 : BatchFrame b c) : BatchFrame a c := by
  intro x
  obtain ⟨l1, m1⟩ := h1 x
  obtain ⟨l2, m2⟩ := h2 x
  refine ⟨Nat.le_trans l1 l2, fun y hy => ?_⟩
  rcases m2 y hy with hy | hy
  · exact m1 y hy
  · exact .inr (by omega)

/-- Only `chain` changes, and there the batches shrink or stay and the counter stays. -/
theorem BatchFrame.of_sub {h h' : Hub} {chain : String} (ho : ∀ c, chain ≠ c → h'.chain c = h.chain c)
    (hl : (h'.chain chain).lastBatchNonce = (h.chain chain).lastBatchNonce)
    (hb : ∀ b ∈ (h'.chain chain).batches, b ∈ (h.chain chain).batches) : BatchFrame h h' := by
  intro c
  by_cases hc : chain = c
  · subst hc; exact ⟨by omega, fun b hbm => .inl (hb b hbm)⟩
  · rw [ho c hc]; exact ⟨Nat.le_refl _, fun _ hbm => .inl hbm⟩

theorem BatchFrame.of_same {h h' : Hub} (hs : Hub.SameLedger h h') : BatchFrame h h' := by
  intro c
  obtain ⟨_, e2, _, e4⟩ := hs c
  rw [e2, e4]; exact ⟨Nat.le_refl _, fun _ hbm => .inl hbm⟩

theorem BatchFrame.of_cs {h h' : Hub} (e : h'.cs = h.cs) : BatchFrame h h' :=
  BatchFrame.of_same (Hub.SameLedger.of_cs e)

theorem createSte_bf {h h' : Hub} {chain sender rcp denom tx rc ra : String} {a f cm : Int} {id : Nat}
    (hok : h.createSte chain sender rcp denom a f cm tx rc ra = .ok (h', id)) : BatchFrame h h' := by
  obtain ⟨_, _, _, _, _, e2, _, e4, e5⟩ := createSte_eff hok
  exact BatchFrame.of_sub e5 e4 (fun b hb => by rw [← e2]; exact hb)

theorem cancelFinish_bf (h : Hub) (chain : String) (s : Ste) : BatchFrame h (h.cancelFinish chain s) := by
  obtain ⟨_, e2, _, e4, e5⟩ := cancelFinish_chain h chain s
  exact BatchFrame.of_sub e5 e4 (fun b hb => by rw [← e2]; exact hb)

/-- Whatever `cancelSte` returns (also a partial failure), no batch is touched. -/
theorem cancelSte_bf (h : Hub) (chain : String) (id : Nat) (sender : String) :
    BatchFrame h (h.cancelSte chain id sender).1 := by
  rcases cancelSte_cases h chain id sender with ⟨e, _, hcs, _⟩ | ⟨s, hm, _, _, _, heq, hmid⟩
  · exact BatchFrame.of_cs hcs
  · rw [heq]
    refine BatchFrame.trans ?_ (cancelFinish_bf hm chain s)
    rcases hmid with ⟨hcs, _⟩ | ⟨h1, _, _, _, hcs, _, _, _, _, hc⟩
    · exact BatchFrame.of_cs hcs
    · exact (BatchFrame.of_cs hcs).trans (createSte_bf hc)

theorem cancelBatch_bf {h h' : Hub} {chain tok : String} {n : Nat} (hok : h.cancelBatch chain tok n = .ok h') :
    BatchFrame h h' := by
  obtain ⟨_, b, _, _, e2, _, e4, _, e6⟩ := cancelBatch_eff hok
  exact BatchFrame.of_sub e6 e4 (fun x hx => by rw [e2] at hx; exact (eraseByKey_sublist _ _ _).subset hx)

theorem buildBatch_bf (h : Hub) (chain tok : String) (n : Nat) : BatchFrame h (h.buildBatch chain tok n).1 := by
  rcases buildBatch_eff h chain tok n with ⟨_, he⟩ | ⟨b, _, _, _, _, hbn, hbb, _, _, hl⟩
  · rw [he]; exact BatchFrame.refl _
  · intro c
    by_cases hc : chain = c
    · subst hc
      refine ⟨by omega, fun x hx => ?_⟩
      rw [hbb] at hx
      rcases mem_of_mem_insertByKey batchKey hx with e | e
      · subst e; exact .inr (by omega)
      · exact .inl e
    · rw [buildBatch_only h chain tok n c hc]; exact ⟨Nat.le_refl _, fun _ hbm => .inl hbm⟩

theorem requestBatch_bf {h h' : Hub} {chain denom : String} {ob : Option Batch}
    (hok : h.requestBatch chain denom = .ok (h', ob)) : BatchFrame h h' := by
  unfold Hub.requestBatch at hok
  split at hok
  · simp [failM] at hok
  · split at hok
    · simp [failM] at hok
    · rename_i t _
      simp only [Except.ok.injEq] at hok
      have e : h' = (h.buildBatch chain t.extId 100).1 := by rw [hok]
      subst e
      exact buildBatch_bf _ _ _ _

theorem sendToExternal_bf {h h' : Hub} {sender chain rcp denom tx : String} {amount fee : Int} {id : Nat}
    (hok : h.sendToExternal sender chain rcp denom amount fee tx = .ok (h', id)) : BatchFrame h h' := by
  unfold Hub.sendToExternal at hok
  simp only [bind, Except.bind] at hok
  split at hok <;> try (cases hok)
  split at hok <;> try (cases hok)
  split at hok <;> try (cases hok)
  split at hok
  · split at hok <;> try (cases hok)
    split at hok <;> try (cases hok)
    exact createSte_bf hok
  · cases hok

theorem cleanup_bf {h h' : Hub} {chain : String} (hok : h.cleanupTimedOutBatches chain = .ok h') :
    BatchFrame h h' := by
  unfold Hub.cleanupTimedOutBatches at hok
  simp only [] at hok
  refine foldlM_rel BatchFrame BatchFrame.refl BatchFrame.trans _ ?_ hok
  intro a o a' _ hf
  split at hf
  · exact cancelBatch_bf hf
  · simp [pure, Except.pure] at hf; subst hf; exact BatchFrame.refl _

theorem createBatches_bf (h : Hub) (chain : String) : BatchFrame h (h.createBatches chain) := by
  unfold Hub.createBatches
  split
  · simp only []
    exact foldl_rel BatchFrame BatchFrame.refl BatchFrame.trans _ (fun a tok _ => buildBatch_bf a chain tok 100) h
  · exact BatchFrame.refl _

theorem beginBlock_bf {h h' : Hub} (hok : h.beginBlock = .ok h') : BatchFrame h h' := by
  unfold Hub.beginBlock at hok
  refine foldlM_rel BatchFrame BatchFrame.refl BatchFrame.trans _ ?_ hok
  intro a chain a' _ hf
  simp only [bind, Except.bind] at hf
  split at hf
  · simp [pure, Except.pure] at hf; subst hf; exact BatchFrame.refl _
  · split at hf
    · simp at hf
    · rename_i a1 hc1
      split at hf
      · simp at hf
      · rename_i a2 hc2
        simp only [pure, Except.pure, Except.ok.injEq] at hf
        subst hf
        have h1 : BatchFrame a a1 := by
          split at hc1
          · exact cleanup_bf hc1
          · simp [pure, Except.pure] at hc1; subst hc1; exact BatchFrame.refl _
        exact ((h1.trans (BatchFrame.of_same (createSignerSetTxs_same hc2).1)).trans
          (createBatches_bf a2 chain)).trans (BatchFrame.of_same (pruneSignerSets_same _ chain).1)

theorem minterMints_bf {h h' : Hub} (hm : MinterMints h h') : BatchFrame h h' := by
  induction hm with
  | refl => exact BatchFrame.refl _
  | frame e1 _ _ _ ih => exact (BatchFrame.of_cs e1).trans ih
  | create e _ ih => exact (createSte_bf e).trans ih

theorem batchExecuted_bf {h h' : Hub} {chain tok tx payer : String} {n : Nat} {fp : Int}
    (hok : h.batchExecuted chain tok n tx fp payer = .ok h') : BatchFrame h h' := by
  rcases batchExecuted_decomp hok with ⟨_, rfl⟩ | ⟨b, v, _, hv, hm⟩
  · exact BatchFrame.refl _
  · have h1 : BatchFrame h v := by
      split at hv
      · exact foldlM_rel BatchFrame BatchFrame.refl BatchFrame.trans _ (fun _ _ _ _ hf => cancelBatch_bf hf) hv
      · simp only [pure, Except.pure, Except.ok.injEq] at hv; subst hv; exact BatchFrame.refl _
    have h2 : BatchFrame v (v.setChain chain { (v.chain chain) with
        batches := eraseByKey batchKey (batchKey b) (v.chain chain).batches }) := by
      refine BatchFrame.of_sub (chain := chain) (fun c hc => chain_setChain_ne _ _ hc) ?_ ?_
      · rw [chain_setChain]
      · intro x hx; rw [chain_setChain] at hx; exact (eraseByKey_sublist _ _ _).subset hx
    exact (h1.trans h2).trans (minterMints_bf hm)

theorem handleSendToHub_bf {h h' : Hub} {chain coin receiver tx : String} {amount : Int}
    (hok : h.handleSendToHub chain coin amount receiver tx = .ok h') : BatchFrame h h' := by
  obtain ⟨_, _, hcs, _⟩ := handleSendToHub_parts hok
  exact BatchFrame.of_cs hcs

theorem handle_bf {h h' : Hub} {mf : Bool} {chain : String} {ev : Event} (hok : h.handle mf chain ev = .ok h') :
    BatchFrame h h' := by
  cases ev with
  | sendToHub n coin amount sender receiver height txHash =>
    simp only [Hub.handle] at hok
    exact handleSendToHub_bf hok
  | transfer n coin amount fee sender rchain receiver height txHash =>
    simp only [Hub.handle] at hok
    simp (config := { maxSteps := 2000000 }) only [bind, Except.bind, failM, panicM] at hok
    split at hok
    · cases hok
    · split at hok
      · split at hok
        · cases hok
        · exact handleSendToHub_bf hok
      · split at hok
        · cases hok
        · rename_i v hv
          have r1 := handleSendToHub_bf hv
          split at hok
          · split at hok
            · split at hok
              · cases hok
              · split at hok
                · cases hok
                · split at hok
                  · cases hok
                  · split at hok
                    · cases hok
                    · split at hok
                      · cases hok
                      · split at hok
                        · cases hok
                        · rename_i r hr
                          simp only [pure, Except.pure, Except.ok.injEq] at hok
                          subst hok
                          exact r1.trans (createSte_bf (id := r.2) hr)
            · cases hok
          · cases hok
  | batchExecuted coin n bn height txHash feePaid feePayer =>
    simp only [Hub.handle] at hok
    exact batchExecuted_bf hok
  | contractCall n scope inv height =>
    simp only [Hub.handle, Except.ok.injEq] at hok; subst hok; exact BatchFrame.refl _
  | signerSet n sn height members txHash =>
    simp only [Hub.handle, Except.ok.injEq] at hok; subst hok
    exact BatchFrame.of_same (Hub.SameLedger.setChain rfl rfl rfl rfl)

theorem refundExpired_bf {h h' : Hub} {chain : String} (hok : h.refundExpired chain = .ok h') :
    BatchFrame h h' := by
  unfold Hub.refundExpired at hok
  refine foldlM_rel BatchFrame BatchFrame.refl BatchFrame.trans _ ?_ hok
  intro a s a' _ hf
  split at hf
  · have hbf := cancelSte_bf a chain s.id s.sender
    split at hf
    · rename_i h1 heq
      simp only [pure, Except.pure, Except.ok.injEq] at hf; subst hf
      rw [heq] at hbf; exact hbf
    · rename_i h1 m heq
      simp only [pure, Except.pure, Except.ok.injEq] at hf; subst hf
      rw [heq] at hbf; exact hbf
    · cases hf
  · simp only [pure, Except.pure, Except.ok.injEq] at hf; subst hf; exact BatchFrame.refl _

/-- Every hub operation of a world history is a `BatchFrame` (so is every other operation but
    `reset`; `endBlock` is not needed here). -/
theorem apply_bf (h : Hub) (op : Op) (hok : hubOpOk op = true) : BatchFrame h (apply h op).1 := by
  cases op with
  | reset => simp [hubOpOk] at hok
  | endBlock => simp [hubOpOk] at hok
  | token t => simp [hubOpOk] at hok
  | fund acc denom a => simp [hubOpOk] at hok
  | init => exact BatchFrame.refl _
  | chains cs => exact BatchFrame.of_cs rfl
  | param name n =>
    simp only [apply]
    split
    · exact BatchFrame.of_cs rfl
    · exact BatchFrame.refl _
  | gravityId v => exact BatchFrame.of_cs rfl
  | price name x => exact BatchFrame.of_cs rfl
  | holder addr x => exact BatchFrame.of_cs rfl
  | staking vs => exact BatchFrame.of_cs rfl
  | block ht t => exact BatchFrame.of_cs rfl
  | beginBlock =>
    simp only [apply]
    rcases outM_cases h.beginBlock h "ok" with e | ⟨h', e1, e2⟩
    · rw [e]; exact BatchFrame.refl _
    · rw [e2]; exact beginBlock_bf e1
  | send sender chain rcp denom a f tx =>
    simp only [apply]
    split
    · rename_i h' id e; exact sendToExternal_bf e
    · exact BatchFrame.refl _
    · exact BatchFrame.refl _
  | cancel s c i =>
    simp only [apply]
    rcases outM_cases (h.cancelMsg s c i) h "ok" with e | ⟨h', e1, e2⟩
    · rw [e]; exact BatchFrame.refl _
    · rw [e2]
      have := cancelSte_bf h c i s
      rw [cancelMsg_ok e1] at this
      exact this
  | reqBatch chain denom =>
    simp only [apply]
    split
    · rename_i h' b e; exact requestBatch_bf e
    · rename_i h' e; exact requestBatch_bf e
    · exact BatchFrame.refl _
    · exact BatchFrame.refl _
  | vote chain signer e =>
    simp only [apply]
    split
    · rcases outM_cases (h.submitEvent chain signer e) h "ok" with e0 | ⟨h', e1, e2⟩
      · rw [e0]; exact BatchFrame.refl _
      · rw [e2]; exact BatchFrame.of_same (submitEvent_same e1).1
    · exact BatchFrame.refl _
  | hashOf e => exact BatchFrame.refl _
  | confirm chain signer k ext sig =>
    simp only [apply]
    rcases outM_cases (h.confirm chain signer k ext sig) h "ok" with e0 | ⟨h', e1, e2⟩
    · rw [e0]; exact BatchFrame.refl _
    · rw [e2]; exact BatchFrame.of_same (confirm_same e1).1
  | delegate chain val orch eth sb sv n s =>
    simp only [apply]
    rcases outM_cases (h.setDelegateKeys chain val orch eth sb sv n s) h "ok" with e0 | ⟨h', e1, e2⟩
    · rw [e0]; exact BatchFrame.refl _
    · rw [e2]; exact BatchFrame.of_same (setDelegateKeys_same e1).1
  | qConfs chain k => exact BatchFrame.refl _
  | qUnsignedSets chain signer => simp only [apply]; split <;> exact BatchFrame.refl _
  | qUnsignedBatches chain signer => simp only [apply]; split <;> exact BatchFrame.refl _
  | qLastNonce chain signer => simp only [apply]; split <;> exact BatchFrame.refl _
  | dump what => exact BatchFrame.refl _
  | nop => exact BatchFrame.refl _
  | bad => exact BatchFrame.refl _
  | oprice v e l => exact BatchFrame.refl _
  | oholders v e l => exact BatchFrame.refl _
  | oend => exact BatchFrame.refl _

/-- Every step of the world is a `BatchFrame` of its hub. -/
theorem wstep_bf (dn : String) (w : World) (op : WOp) : BatchFrame w.hub (wstep dn w op).hub := by
  cases op with
  | hubOp op =>
    simp only [wstep]
    split
    · rename_i hok; exact apply_bf w.hub op hok
    · exact BatchFrame.refl _
  | expire chain =>
    simp only [wstep]
    split
    · rename_i h' hok; exact refundExpired_bf hok
    · exact BatchFrame.refl _
  | lock chain ev => simp only [wstep]; split <;> exact BatchFrame.refl _
  | execute chain tok n =>
    simp only [wstep]
    split
    · split <;> exact BatchFrame.refl _
    · exact BatchFrame.refl _
  | applyDeposit =>
    simp only [wstep]
    split
    · exact BatchFrame.refl _
    · split
      · rename_i h' hok; exact handle_bf hok
      · exact BatchFrame.refl _
  | applyExec evn ht tx fp payer =>
    simp only [wstep]
    split
    · exact BatchFrame.refl _
    · split
      · rename_i h' hok; exact handle_bf hok
      · exact BatchFrame.refl _

/-! ### Pending executions keep naming their batch -/

theorem pendOK_frame {h h' : Hub} {p : PendingExec} (hp : PendOK h p) (hf : BatchFrame h h')
    (hi : h'.LedgerInv) (hb : h'.Bounded) : PendOK h' p := by
  obtain ⟨hk, hn, hu⟩ := hp
  obtain ⟨hl, hm⟩ := hf p.chain
  refine ⟨hk, by omega, fun b' hb' he => ?_⟩
  rcases hm b' hb' with hin | hlt
  · exact hu b' hin he
  · exfalso
    have h1 := (hi p.chain).2.2.2 b' hb'
    have h2 := (hb p.chain).2
    have := Mhub2.batchKey_inj he (by omega) (by omega)
    omega

theorem pendOK_of_findBatch {h : Hub} {chain tok : String} {n : Nat} {b : Batch} (hi : h.LedgerInv)
    (hb : h.Bounded) (hfb : h.findBatch chain tok n = some b) : PendOK h ⟨chain, tok, n, b⟩ := by
  obtain ⟨hbm, hbk⟩ := findBatch_some hfb
  have hci := Hub.ledgerInv_iff.mp hi chain
  exact ⟨hbk, hci.brange b hbm, fun b' hb' he => hci.batchKey_inj (hb chain).2 hb' hbm he⟩

theorem findBatch_of_pendOK {h : Hub} {p : PendingExec} (hp : PendOK h p) {b' : Batch}
    (hfb : h.findBatch p.chain p.tok p.nonce = some b') : b' = p.batch := by
  obtain ⟨hbm, hbk⟩ := findBatch_some hfb
  exact hp.2.2 b' hbm (hbk.trans hp.1.symm)

/-- With `PendOK`, "some batch is still stored under the key" is "the recorded batch is". -/
theorem execSame_of_execOk {w : World} {op : WOp} (hp : ∀ p ∈ w.pendingExecs, PendOK w.hub p)
    (hx : ExecOk w op) : ExecSame w op := by
  cases op with
  | applyExec evn ht tx fp payer =>
    intro p rest hpe
    obtain ⟨hs, hh⟩ := hx p rest hpe
    refine ⟨?_, hh⟩
    cases hfb : w.hub.findBatch p.chain p.tok p.nonce with
    | none => rw [hfb] at hs; cases hs
    | some b' => rw [findBatch_of_pendOK (hp p (by rw [hpe]; exact List.mem_cons_self)) hfb]
  | hubOp _ => trivial
  | expire _ => trivial
  | lock _ _ => trivial
  | execute _ _ _ => trivial
  | applyDeposit => trivial

/-- What a step does to the queue of pending executions. -/
theorem wstep_pendingExecs (dn : String) (w : World) (op : WOp) :
    (wstep dn w op).pendingExecs = w.pendingExecs ∨
    (∃ chain tok n b, w.hub.findBatch chain tok n = some b ∧ (wstep dn w op).hub = w.hub ∧
      (wstep dn w op).pendingExecs = w.pendingExecs ++ [⟨chain, tok, n, b⟩]) ∨
    (∃ p, w.pendingExecs = p :: (wstep dn w op).pendingExecs) := by
  cases op with
  | hubOp op => simp only [wstep]; split <;> exact .inl rfl
  | expire chain => simp only [wstep]; split <;> exact .inl rfl
  | lock chain ev => simp only [wstep]; split <;> exact .inl rfl
  | execute chain tok n =>
    cases hfb : w.hub.findBatch chain tok n with
    | none =>
      have e : wstep dn w (.execute chain tok n) = w := by simp only [wstep, hfb]
      rw [e]; exact .inl rfl
    | some b =>
      cases hal : execAllowed w.pendingExecs chain b with
      | false =>
        have e : wstep dn w (.execute chain tok n) = w := by
          simp only [wstep, hfb, hal, Bool.false_eq_true, if_false]
        rw [e]; exact .inl rfl
      | true =>
        have e : wstep dn w (.execute chain tok n) =
            { w with custody := w.custody - execValue w.hub dn ⟨chain, tok, n, b⟩,
                     pendingExecs := w.pendingExecs ++ [⟨chain, tok, n, b⟩] } := by
          simp only [wstep, hfb, hal, if_true]
        rw [e]; exact .inr (.inl ⟨chain, tok, n, b, hfb, rfl, rfl⟩)
  | applyDeposit =>
    simp only [wstep]
    split
    · exact .inl rfl
    · split <;> exact .inl rfl
  | applyExec evn ht tx fp payer =>
    cases hpe : w.pendingExecs with
    | nil =>
      have e : wstep dn w (.applyExec evn ht tx fp payer) = w := by simp only [wstep, hpe]
      rw [e]; exact .inl hpe
    | cons p rest =>
      refine .inr (.inr ⟨p, ?_⟩)
      simp only [wstep, hpe]
      split <;> rfl

theorem pend_step (dn : String) (w : World) (op : WOp) (hp : ∀ p ∈ w.pendingExecs, PendOK w.hub p)
    (hi : (wstep dn w op).hub.LedgerInv) (hb : (wstep dn w op).hub.Bounded) :
    ∀ p ∈ (wstep dn w op).pendingExecs, PendOK (wstep dn w op).hub p := by
  have hf := wstep_bf dn w op
  intro p hpm
  rcases wstep_pendingExecs dn w op with e | ⟨chain, tok, n, b, hfb, eh, e⟩ | ⟨q, e⟩
  · rw [e] at hpm; exact pendOK_frame (hp p hpm) hf hi hb
  · rw [e] at hpm
    rcases List.mem_append.mp hpm with hm | hm
    · exact pendOK_frame (hp p hm) hf hi hb
    · simp only [List.mem_singleton] at hm
      subst hm
      rw [eh] at hi hb ⊢
      exact pendOK_of_findBatch hi hb hfb
  · exact pendOK_frame (hp p (by rw [e]; exact List.mem_cons_of_mem _ hpm)) hf hi hb

/-! ### Which stored batches an operation may withdraw

  `SameBatches`: no chain's batch store changes.  `BKeep P h h'`: a batch stored in `h` is still stored
  in `h'` unless it satisfies `P` (under the ledger invariant before and the `uint64` bound after).
  Hub operations withdraw only timed-out batches (begin block); an applied execution withdraws only
  the executed batch and older batches of its token; nothing else withdraws a batch. -/

def SameBatches (h h' : Hub) : Prop := ∀ c, (h'.chain c).batches = (h.chain c).batches

theorem SameBatches.refl (h : Hub) : SameBatches h h := fun _ => rfl
theorem SameBatches.trans {a b c : Hub} (h1 : SameBatches a b) (h2 : SameBatches b c) : SameBatches a c :=
  fun x => (h2 x).trans (h1 x)
theorem SameBatches.of_cs {h h' : Hub} (e : h'.cs = h.cs) : SameBatches h h' := fun c => by rw [chain_of_cs e]
theorem SameBatches.of_same {h h' : Hub} (hs : Hub.SameLedger h h') : SameBatches h h' := fun c => (hs c).2.1

theorem SameBatches.of_chain {h h' : Hub} {chain : String} (ho : ∀ c, chain ≠ c → h'.chain c = h.chain c)
    (e : (h'.chain chain).batches = (h.chain chain).batches) : SameBatches h h' := by
  intro c
  by_cases hc : chain = c
  · subst hc; exact e
  · rw [ho c hc]

theorem createSte_sb {h h' : Hub} {chain sender rcp denom tx rc ra : String} {a f cm : Int} {id : Nat}
    (hok : h.createSte chain sender rcp denom a f cm tx rc ra = .ok (h', id)) : SameBatches h h' := by
  obtain ⟨_, _, _, _, _, e2, _, _, e5⟩ := createSte_eff hok
  exact SameBatches.of_chain e5 e2

theorem cancelFinish_sb (h : Hub) (chain : String) (s : Ste) : SameBatches h (h.cancelFinish chain s) := by
  obtain ⟨_, e2, _, _, e5⟩ := cancelFinish_chain h chain s
  exact SameBatches.of_chain e5 e2

theorem cancelSte_sb (h : Hub) (chain : String) (id : Nat) (sender : String) :
    SameBatches h (h.cancelSte chain id sender).1 := by
  rcases cancelSte_cases h chain id sender with ⟨e, _, hcs, _⟩ | ⟨s, hm, _, _, _, heq, hmid⟩
  · exact SameBatches.of_cs hcs
  · rw [heq]
    refine SameBatches.trans ?_ (cancelFinish_sb hm chain s)
    rcases hmid with ⟨hcs, _⟩ | ⟨h1, _, _, _, hcs, _, _, _, _, hc⟩
    · exact SameBatches.of_cs hcs
    · exact (SameBatches.of_cs hcs).trans (createSte_sb hc)

theorem sendToExternal_sb {h h' : Hub} {sender chain rcp denom tx : String} {amount fee : Int} {id : Nat}
    (hok : h.sendToExternal sender chain rcp denom amount fee tx = .ok (h', id)) : SameBatches h h' := by
  unfold Hub.sendToExternal at hok
  simp only [bind, Except.bind] at hok
  split at hok <;> try (cases hok)
  split at hok <;> try (cases hok)
  split at hok <;> try (cases hok)
  split at hok
  · split at hok <;> try (cases hok)
    split at hok <;> try (cases hok)
    exact createSte_sb hok
  · cases hok

theorem minterMints_sb {h h' : Hub} (hm : MinterMints h h') : SameBatches h h' := by
  induction hm with
  | refl => exact SameBatches.refl _
  | frame e1 _ _ _ ih => exact (SameBatches.of_cs e1).trans ih
  | create e _ ih => exact (createSte_sb e).trans ih

theorem handleSendToHub_sb {h h' : Hub} {chain coin receiver tx : String} {amount : Int}
    (hok : h.handleSendToHub chain coin amount receiver tx = .ok h') : SameBatches h h' := by
  obtain ⟨_, _, hcs, _⟩ := handleSendToHub_parts hok
  exact SameBatches.of_cs hcs

/-- Applying a deposit or a chain-to-chain transfer touches no batch. -/
theorem handle_deposit_sb {h h' : Hub} {mf : Bool} {chain : String} {ev : Event} (hd : isDeposit ev = true)
    (hok : h.handle mf chain ev = .ok h') : SameBatches h h' := by
  cases ev with
  | sendToHub n coin amount sender receiver height txHash =>
    simp only [Hub.handle] at hok
    exact handleSendToHub_sb hok
  | transfer n coin amount fee sender rchain receiver height txHash =>
    simp only [Hub.handle] at hok
    simp (config := { maxSteps := 2000000 }) only [bind, Except.bind, failM, panicM] at hok
    split at hok
    · cases hok
    · split at hok
      · split at hok
        · cases hok
        · exact handleSendToHub_sb hok
      · split at hok
        · cases hok
        · rename_i v hv
          have r1 := handleSendToHub_sb hv
          split at hok
          · split at hok
            · split at hok
              · cases hok
              · split at hok
                · cases hok
                · split at hok
                  · cases hok
                  · split at hok
                    · cases hok
                    · split at hok
                      · cases hok
                      · split at hok
                        · cases hok
                        · rename_i r hr
                          simp only [pure, Except.pure, Except.ok.injEq] at hok
                          subst hok
                          exact r1.trans (createSte_sb (id := r.2) hr)
            · cases hok
          · cases hok
  | batchExecuted coin n bn height txHash feePaid feePayer => simp [isDeposit] at hd
  | contractCall n scope inv height => simp [isDeposit] at hd
  | signerSet n sn height members txHash => simp [isDeposit] at hd

theorem refundExpired_sb {h h' : Hub} {chain : String} (hok : h.refundExpired chain = .ok h') :
    SameBatches h h' := by
  unfold Hub.refundExpired at hok
  refine foldlM_rel SameBatches SameBatches.refl SameBatches.trans _ ?_ hok
  intro a s a' _ hf
  split at hf
  · have hbf := cancelSte_sb a chain s.id s.sender
    split at hf
    · rename_i h1 heq
      simp only [pure, Except.pure, Except.ok.injEq] at hf; subst hf
      rw [heq] at hbf; exact hbf
    · rename_i h1 m heq
      simp only [pure, Except.pure, Except.ok.injEq] at hf; subst hf
      rw [heq] at hbf; exact hbf
    · cases hf
  · simp only [pure, Except.pure, Except.ok.injEq] at hf; subst hf; exact SameBatches.refl _

/-- The observed external height of every chain is the same. -/
def ObsSame (h h' : Hub) : Prop := ∀ c, (h'.chain c).obsExtHeight = (h.chain c).obsExtHeight

theorem ObsSame.refl (h : Hub) : ObsSame h h := fun _ => rfl
theorem ObsSame.trans {a b c : Hub} (h1 : ObsSame a b) (h2 : ObsSame b c) : ObsSame a c :=
  fun x => (h2 x).trans (h1 x)
theorem ObsSame.of_cs {h h' : Hub} (e : h'.cs = h.cs) : ObsSame h h' := fun c => by rw [chain_of_cs e]

theorem ObsSame.setChain {h : Hub} {c : String} {s : ChainSt} (e : s.obsExtHeight = (h.chain c).obsExtHeight) :
    ObsSame h (h.setChain c s) := by
  intro x
  by_cases hx : c = x
  · subst hx; rw [chain_setChain]; exact e
  · rw [chain_setChain_ne _ _ hx]

theorem cancelBatch_obs {h h' : Hub} {chain tok : String} {n : Nat} (hok : h.cancelBatch chain tok n = .ok h') :
    ObsSame h h' := by
  obtain ⟨_, b, _, _, _, _, _, e5, e6⟩ := cancelBatch_eff hok
  intro c
  by_cases hc : chain = c
  · subst hc; exact e5
  · rw [e6 c hc]

theorem cleanup_obs {h h' : Hub} {chain : String} (hok : h.cleanupTimedOutBatches chain = .ok h') :
    ObsSame h h' := by
  unfold Hub.cleanupTimedOutBatches at hok
  simp only [] at hok
  refine foldlM_rel ObsSame ObsSame.refl ObsSame.trans _ ?_ hok
  intro a o a' _ hf
  split at hf
  · exact cancelBatch_obs hf
  · simp [pure, Except.pure] at hf; subst hf; exact ObsSame.refl _

theorem createSignerSet_obs {h h' : Hub} {chain : String} (hok : h.createSignerSet chain = .ok h') :
    ObsSame h h' := by
  unfold Hub.createSignerSet at hok
  simp only [bind, Except.bind] at hok
  split at hok
  · simp at hok
  · simp only [pure, Except.pure, Except.ok.injEq] at hok
    subst hok
    exact ObsSame.setChain rfl

theorem createSignerSetTxs_obs {h h' : Hub} {chain : String} (hok : h.createSignerSetTxs chain = .ok h') :
    ObsSame h h' := by
  unfold Hub.createSignerSetTxs at hok
  split at hok
  · exact createSignerSet_obs hok
  · simp only [bind, Except.bind] at hok
    split at hok
    · simp at hok
    · split at hok
      · exact createSignerSet_obs hok
      · simp only [pure, Except.pure, Except.ok.injEq] at hok
        subst hok; exact ObsSame.refl _

theorem pruneSignerSets_obs (h : Hub) (chain : String) : ObsSame h (h.pruneSignerSets chain) := by
  unfold Hub.pruneSignerSets
  simp only []
  split
  · exact ObsSame.refl _
  · split
    · exact ObsSame.refl _
    · exact ObsSame.setChain rfl

theorem buildBatch_obs (h : Hub) (chain tok : String) (n : Nat) : ObsSame h (h.buildBatch chain tok n).1 := by
  unfold Hub.buildBatch
  simp only []
  split
  · exact ObsSame.refl _
  · have hcs := (foldl_setStatus_cs (selectForBatch (h.chain chain).pool tok n) (·.txHash) stBatchCreated "" h).1
    exact (ObsSame.of_cs hcs).trans (ObsSame.setChain (by rw [chain_of_cs hcs]))

theorem createBatches_obs (h : Hub) (chain : String) : ObsSame h (h.createBatches chain) := by
  unfold Hub.createBatches
  split
  · simp only []
    exact foldl_rel ObsSame ObsSame.refl ObsSame.trans _ (fun a tok _ => buildBatch_obs a chain tok 100) h
  · exact ObsSame.refl _

structure BKeep (P : String → Batch → Prop) (h h' : Hub) : Prop where
  step : Hub.Step h h'
  keep : h.LedgerInv → h'.Bounded → ∀ c, ∀ b ∈ (h.chain c).batches, b ∈ (h'.chain c).batches ∨ P c b

theorem BKeep.refl (P : String → Batch → Prop) (h : Hub) : BKeep P h h :=
  ⟨Hub.Step.refl h, fun _ _ _ _ hb => .inl hb⟩

theorem BKeep.trans {P : String → Batch → Prop} {a b c : Hub} (h1 : BKeep P a b) (h2 : BKeep P b c) :
    BKeep P a c := by
  refine ⟨h1.step.trans h2.step, fun hi hb x y hy => ?_⟩
  have hbb := hb.mono h2.step
  rcases h1.keep hi hbb x y hy with hm | hp
  · exact h2.keep (h1.step.inv hi hbb) hb x y hm
  · exact .inr hp

theorem BKeep.mono {P Q : String → Batch → Prop} {h h' : Hub} (hpq : ∀ c b, P c b → Q c b) (hk : BKeep P h h') :
    BKeep Q h h' :=
  ⟨hk.step, fun hi hb c b hbm => (hk.keep hi hb c b hbm).imp id (hpq c b)⟩

theorem BKeep.of_sb {P : String → Batch → Prop} {h h' : Hub} (hs : Hub.Step h h') (sb : SameBatches h h') :
    BKeep P h h' :=
  ⟨hs, fun _ _ c b hb => .inl (by rw [sb c]; exact hb)⟩

/-- A timed-out batch of the state `a`. -/
def TimedOut (a : Hub) (c : String) (x : Batch) : Prop := x.timeout < (a.chain c).obsExtHeight

/-- Begin block withdraws only batches whose timeout is below the observed external height. -/
theorem beginBlock_bkeep {h h' : Hub} (hok : h.beginBlock = .ok h') : BKeep (TimedOut h) h h' := by
  unfold Hub.beginBlock at hok
  have key := foldlM_rel (fun a b => ObsSame a b ∧ BKeep (TimedOut a) a b)
    (fun a => ⟨ObsSame.refl a, BKeep.refl _ a⟩)
    (fun {a b c} h1 h2 => ⟨h1.1.trans h2.1, h1.2.trans (h2.2.mono (fun x y hy => by
      unfold TimedOut at hy ⊢; rw [h1.1 x] at hy; exact hy))⟩) _ ?_ hok
  · exact key.2
  intro a chain a' _ hf
  simp only [bind, Except.bind] at hf
  split at hf
  · simp [pure, Except.pure] at hf; subst hf; exact ⟨ObsSame.refl _, BKeep.refl _ _⟩
  · split at hf
    · simp at hf
    · rename_i a1 hc1
      split at hf
      · simp at hf
      · rename_i a2 hc2
        simp only [pure, Except.pure, Except.ok.injEq] at hf
        subst hf
        have htr : ∀ {x y z : Hub}, (ObsSame x y ∧ BKeep (TimedOut x) x y) → (ObsSame y z ∧ BKeep (TimedOut y) y z) →
            (ObsSame x z ∧ BKeep (TimedOut x) x z) := fun {x y z} h1 h2 =>
          ⟨h1.1.trans h2.1, h1.2.trans (h2.2.mono (fun u v hv => by
            unfold TimedOut at hv ⊢; rw [h1.1 u] at hv; exact hv))⟩
        have r1 : ObsSame a a1 ∧ BKeep (TimedOut a) a a1 := by
          split at hc1
          · obtain ⟨hk, ho⟩ := cleanup_keeps hc1
            refine ⟨cleanup_obs hc1, hk.step, fun hi hb c b hbm => ?_⟩
            by_cases hc : chain = c
            · subst hc
              obtain ⟨hev, _⟩ := cleanup_evo hi (hb.mono hk.step) hc1
              by_cases hin : b ∈ (a1.chain chain).batches
              · exact .inl hin
              · exact .inr (hev.removed b hbm hin).1
            · rw [ho c hc]; exact .inl hbm
          · simp [pure, Except.pure] at hc1; subst hc1; exact ⟨ObsSame.refl _, BKeep.refl _ _⟩
        have r2 : ObsSame a1 a2 ∧ BKeep (TimedOut a1) a1 a2 :=
          ⟨createSignerSetTxs_obs hc2, BKeep.of_sb (createSignerSetTxs_same hc2).1.keeps.step
            (SameBatches.of_same (createSignerSetTxs_same hc2).1)⟩
        have r3 : ObsSame a2 (a2.createBatches chain) ∧ BKeep (TimedOut a2) a2 (a2.createBatches chain) :=
          ⟨createBatches_obs a2 chain, (createBatches_bk chain a2 chain).1.1.step,
            fun hi hb c b hbm => .inl ((createBatches_bk c a2 chain).1.2 hi hb b hbm)⟩
        have r4 : ObsSame (a2.createBatches chain) ((a2.createBatches chain).pruneSignerSets chain) ∧
            BKeep (TimedOut (a2.createBatches chain)) (a2.createBatches chain)
              ((a2.createBatches chain).pruneSignerSets chain) :=
          ⟨pruneSignerSets_obs _ chain, BKeep.of_sb (pruneSignerSets_same _ chain).1.keeps.step
            (SameBatches.of_same (pruneSignerSets_same _ chain).1)⟩
        exact htr (htr (htr r1 r2) r3) r4

theorem requestBatch_bkeep {P : String → Batch → Prop} {h h' : Hub} {chain denom : String} {ob : Option Batch}
    (hok : h.requestBatch chain denom = .ok (h', ob)) : BKeep P h h' := by
  unfold Hub.requestBatch at hok
  split at hok
  · simp [failM] at hok
  · split at hok
    · simp [failM] at hok
    · rename_i t _
      simp only [Except.ok.injEq] at hok
      have e : h' = (h.buildBatch chain t.extId 100).1 := by rw [hok]
      subst e
      exact ⟨(buildBatch_keeps _ _ _ _).step, fun hi hb c b hbm => .inl ((buildBatch_bk c h chain t.extId 100).2 hi hb b hbm)⟩

/-- A hub operation of a world history withdraws a stored batch only if it has timed out. -/
theorem apply_bkeep (h : Hub) (op : Op) (hok : hubOpOk op = true) : BKeep (TimedOut h) h (apply h op).1 := by
  have hst : Hub.Step h (apply h op).1 := (apply_step h op (hubOpOk_spec hok).1).1
  cases op with
  | reset => simp [hubOpOk] at hok
  | endBlock => simp [hubOpOk] at hok
  | token t => simp [hubOpOk] at hok
  | fund acc denom a => simp [hubOpOk] at hok
  | init => exact BKeep.refl _ _
  | chains cs => exact BKeep.of_sb hst (SameBatches.of_cs rfl)
  | param name n =>
    refine BKeep.of_sb hst ?_
    simp only [apply]
    split
    · exact SameBatches.of_cs rfl
    · exact SameBatches.refl _
  | gravityId v => exact BKeep.of_sb hst (SameBatches.of_cs rfl)
  | price name x => exact BKeep.of_sb hst (SameBatches.of_cs rfl)
  | holder addr x => exact BKeep.of_sb hst (SameBatches.of_cs rfl)
  | staking vs => exact BKeep.of_sb hst (SameBatches.of_cs rfl)
  | block ht t => exact BKeep.of_sb hst (SameBatches.of_cs rfl)
  | beginBlock =>
    simp only [apply]
    rcases outM_cases h.beginBlock h "ok" with e | ⟨h', e1, e2⟩
    · rw [e]; exact BKeep.refl _ _
    · rw [e2]; exact beginBlock_bkeep e1
  | send sender chain rcp denom a f tx =>
    refine BKeep.of_sb hst ?_
    simp only [apply]
    split
    · rename_i h' id e; exact sendToExternal_sb e
    · exact SameBatches.refl _
    · exact SameBatches.refl _
  | cancel s c i =>
    refine BKeep.of_sb hst ?_
    simp only [apply]
    rcases outM_cases (h.cancelMsg s c i) h "ok" with e | ⟨h', e1, e2⟩
    · rw [e]; exact SameBatches.refl _
    · rw [e2]
      have := cancelSte_sb h c i s
      rw [cancelMsg_ok e1] at this
      exact this
  | reqBatch chain denom =>
    simp only [apply]
    split
    · rename_i h' b e; exact requestBatch_bkeep e
    · rename_i h' e; exact requestBatch_bkeep e
    · exact BKeep.refl _ _
    · exact BKeep.refl _ _
  | vote chain signer e =>
    refine BKeep.of_sb hst ?_
    simp only [apply]
    split
    · rcases outM_cases (h.submitEvent chain signer e) h "ok" with e0 | ⟨h', e1, e2⟩
      · rw [e0]; exact SameBatches.refl _
      · rw [e2]; exact SameBatches.of_same (submitEvent_same e1).1
    · exact SameBatches.refl _
  | hashOf e => exact BKeep.refl _ _
  | confirm chain signer k ext sig =>
    refine BKeep.of_sb hst ?_
    simp only [apply]
    rcases outM_cases (h.confirm chain signer k ext sig) h "ok" with e0 | ⟨h', e1, e2⟩
    · rw [e0]; exact SameBatches.refl _
    · rw [e2]; exact SameBatches.of_same (confirm_same e1).1
  | delegate chain val orch eth sb sv n s =>
    refine BKeep.of_sb hst ?_
    simp only [apply]
    rcases outM_cases (h.setDelegateKeys chain val orch eth sb sv n s) h "ok" with e0 | ⟨h', e1, e2⟩
    · rw [e0]; exact SameBatches.refl _
    · rw [e2]; exact SameBatches.of_same (setDelegateKeys_same e1).1
  | qConfs chain k => exact BKeep.refl _ _
  | qUnsignedSets chain signer => refine BKeep.of_sb hst ?_; simp only [apply]; split <;> exact SameBatches.refl _
  | qUnsignedBatches chain signer => refine BKeep.of_sb hst ?_; simp only [apply]; split <;> exact SameBatches.refl _
  | qLastNonce chain signer => refine BKeep.of_sb hst ?_; simp only [apply]; split <;> exact SameBatches.refl _
  | dump what => exact BKeep.refl _ _
  | nop => exact BKeep.refl _ _
  | bad => exact BKeep.refl _ _
  | oprice v e l => exact BKeep.refl _ _
  | oholders v e l => exact BKeep.refl _ _
  | oend => exact BKeep.refl _ _

theorem mem_erase_of_ne {α : Type} (key : α → Bytes) {k : Bytes} {l : List α} {u : α} (h : u ∈ l) (hk : key u ≠ k) :
    u ∈ eraseByKey key k l := by
  induction l with
  | nil => cases h
  | cons y ys ih =>
    unfold eraseByKey
    rcases List.mem_cons.mp h with e | h'
    · subst e
      have : (key u == k) = false := by simpa using hk
      simp [this]
    · split
      · exact h'
      · exact List.mem_cons_of_mem _ (ih h')

/-- An applied execution of the stored batch `b` withdraws only `b` itself and older batches of its
    token on its chain. -/
theorem batchExecuted_keep {h h' : Hub} {chain tok tx payer : String} {n : Nat} {fp : Int} {b : Batch}
    (hok : h.batchExecuted chain tok n tx fp payer = .ok h') (hfb : h.findBatch chain tok n = some b)
    (hi : h.LedgerInv) (hb : h'.Bounded) :
    ∀ c, ∀ x ∈ (h.chain c).batches, x ∈ (h'.chain c).batches ∨
      (c = chain ∧ x.extToken = b.extToken ∧ x.nonce ≤ b.nonce) := by
  rcases batchExecuted_decomp hok with ⟨hnone, _⟩ | ⟨b1, v, hfb1, hv, hm⟩
  · rw [hfb] at hnone; cases hnone
  · rw [hfb] at hfb1
    injection hfb1 with hfb1
    subst hfb1
    obtain ⟨hk1, ho1, _, _⟩ := executed_cancel_phase hv
    have hst2 : Hub.Step v (v.setChain chain { (v.chain chain) with
        batches := eraseByKey batchKey (batchKey b) (v.chain chain).batches }) :=
      Hub.Step.setChain (ChainSt.Step.of_sublist rfl rfl (List.Sublist.refl _) (eraseByKey_sublist _ _ _))
    have hb2 := hb.mono hm.keeps.step
    have hbv : v.Bounded := hb2.mono hst2
    have hbh : h.Bounded := hbv.mono hk1.step
    have hiv : v.LedgerInv := hk1.step.inv hi hbv
    have hbm : b ∈ (h.chain chain).batches := (findBatch_some hfb).1
    have hbmv : b ∈ (v.chain chain).batches := (executed_phase_veq hv).2 hi hbv hbm
    have sb3 := minterMints_sb hm
    intro c x hx
    by_cases hc : chain = c
    · subst hc
      -- phase 1: the older batches of the token
      have h1 : x ∈ (v.chain chain).batches ∨ (x.nonce < b.nonce ∧ x.extToken = b.extToken) := by
        split at hv
        · obtain ⟨hev, _, _⟩ := CancelEvo.fold (chain := chain)
            (P := fun o => o.nonce < b.nonce ∧ o.extToken = b.extToken)
            (Q := fun _ => True) (h0 := h) _
            (fun o ho => List.mem_reverse.mp (List.mem_filter.mp ho).1)
            (fun h2 o h2' ho hf => by
              have := (List.mem_filter.mp ho).2
              simp only [Bool.and_eq_true, decide_eq_true_eq, beq_iff_eq] at this
              exact .inr ⟨this, hf⟩)
            (fun _ _ _ _ => rfl) (CancelEvo.refl chain _ hi hbh) hv
          by_cases hin : x ∈ (v.chain chain).batches
          · exact .inl hin
          · exact .inr (hev.removed x hx hin).1
        · simp only [pure, Except.pure, Except.ok.injEq] at hv
          subst hv; exact .inl hx
      rcases h1 with h1 | ⟨h1, h2⟩
      · -- phase 2: the executed batch itself
        by_cases hk : batchKey x = batchKey b
        · have : x = b := (Hub.ledgerInv_iff.mp hiv chain).batchKey_inj (hbv chain).2 h1 hbmv hk
          subst this
          exact .inr ⟨rfl, rfl, Nat.le_refl _⟩
        · refine .inl ?_
          rw [sb3 chain, chain_setChain]
          exact mem_erase_of_ne batchKey h1 hk
      · exact .inr ⟨rfl, h2, by omega⟩
    · refine .inl ?_
      rw [sb3 c, chain_setChain_ne _ _ hc, ho1 c hc]
      exact hx

/-! ### H1(a) reduced to the timeout condition

  `Stored w`: the batch of every pending execution is still in the hub's batch store.  It is
  preserved by every step provided no hub operation runs while a pending execution's batch is
  timed out on the hub (`NoTimeout`), the pending executions of one token being in nonce order
  (`QOrd`, which `execAllowed` enforces). -/

def Stored (w : World) : Prop := ∀ p ∈ w.pendingExecs, p.batch ∈ (w.hub.chain p.chain).batches

def QOrd (l : List PendingExec) : Prop :=
  l.Pairwise fun p q => p.chain = q.chain → p.batch.extToken = q.batch.extToken → p.batch.nonce < q.batch.nonce

/-- The clock condition (C13 + the contract's `block.number < timeout`, not modelled): when a hub
    operation runs, no batch that was executed externally and whose execution event is still in
    transit has `timeout <` the hub's observed external height of its chain. -/
def NoTimeout (w : World) : WOp → Prop
  | .hubOp _ => ∀ p ∈ w.pendingExecs, ¬ TimedOut w.hub p.chain p.batch
  | _ => True

theorem execAllowed_spec {l : List PendingExec} {chain : String} {b : Batch} (h : execAllowed l chain b = true) :
    ∀ p ∈ l, p.chain = chain → p.batch.extToken = b.extToken → p.batch.nonce < b.nonce := by
  intro p hp hc ht
  unfold execAllowed at h
  have := List.all_eq_true.mp h p hp
  simpa [hc, ht] using this

theorem findBatch_isSome_of_mem {h : Hub} {p : PendingExec} (hp : PendOK h p)
    (hm : p.batch ∈ (h.chain p.chain).batches) : (h.findBatch p.chain p.tok p.nonce).isSome = true := by
  unfold Hub.findBatch
  rw [List.find?_isSome]
  exact ⟨p.batch, hm, by simpa using hp.1⟩

theorem stored_step (dn : String) (w : World) (op : WOp) (hi : WInv dn w) (hs : Stored w)
    (hq : QOrd w.pendingExecs) (hn : NoTimeout w op) (hb : (wstep dn w op).hub.Bounded) :
    Stored (wstep dn w op) ∧ QOrd (wstep dn w op).pendingExecs := by
  cases op with
  | hubOp op =>
    cases hok : hubOpOk op with
    | false => simp only [wstep, hok, Bool.false_eq_true, if_false]; exact ⟨hs, hq⟩
    | true =>
      simp only [wstep, hok, if_true] at hb ⊢
      refine ⟨fun p hp => ?_, hq⟩
      rcases (apply_bkeep w.hub op hok).keep hi.vinv.led hb p.chain p.batch (hs p hp) with h | h
      · exact h
      · exact absurd h (hn p hp)
  | expire chain =>
    cases hok : w.hub.refundExpired chain with
    | error e => simp only [wstep, hok]; exact ⟨hs, hq⟩
    | ok h' =>
      simp only [wstep, hok]
      refine ⟨fun p hp => ?_, hq⟩
      show p.batch ∈ (h'.chain p.chain).batches
      rw [refundExpired_sb hok p.chain]; exact hs p hp
  | lock chain ev =>
    cases hdp : isDeposit ev with
    | false => simp only [wstep, hdp, Bool.false_eq_true, if_false]; exact ⟨hs, hq⟩
    | true => simp only [wstep, hdp, if_true]; exact ⟨hs, hq⟩
  | execute chain tok n =>
    cases hfb : w.hub.findBatch chain tok n with
    | none => simp only [wstep, hfb]; exact ⟨hs, hq⟩
    | some b =>
      cases hal : execAllowed w.pendingExecs chain b with
      | false => simp only [wstep, hfb, hal, Bool.false_eq_true, if_false]; exact ⟨hs, hq⟩
      | true =>
        simp only [wstep, hfb, hal, if_true]
        refine ⟨fun p hp => ?_, ?_⟩
        · rcases List.mem_append.mp hp with hm | hm
          · exact hs p hm
          · simp only [List.mem_singleton] at hm; subst hm; exact (findBatch_some hfb).1
        · unfold QOrd
          rw [List.pairwise_append]
          refine ⟨hq, List.pairwise_singleton _ _, fun p hp q hq' => ?_⟩
          simp only [List.mem_singleton] at hq'; subst hq'
          exact execAllowed_spec hal p hp
  | applyDeposit =>
    cases hpd : w.pendingDeposits with
    | nil => simp only [wstep, hpd]; exact ⟨hs, hq⟩
    | cons pe rest =>
      obtain ⟨chain, ev⟩ := pe
      have hdp : isDeposit ev = true := hi.deps (chain, ev) (by rw [hpd]; exact List.mem_cons_self)
      cases hok : w.hub.handle false chain ev with
      | error e => simp only [wstep, hpd, hok]; exact ⟨hs, hq⟩
      | ok h' =>
        simp only [wstep, hpd, hok]
        refine ⟨fun p hp => ?_, hq⟩
        show p.batch ∈ (h'.chain p.chain).batches
        rw [handle_deposit_sb hdp hok p.chain]; exact hs p hp
  | applyExec evn ht tx fp payer =>
    cases hpe : w.pendingExecs with
    | nil =>
      have e : wstep dn w (.applyExec evn ht tx fp payer) = w := by simp only [wstep, hpe]
      rw [e]; exact ⟨hs, hq⟩
    | cons p0 rest =>
      have hq0 : QOrd (p0 :: rest) := by rw [← hpe]; exact hq
      obtain ⟨hhead, hq'⟩ := List.pairwise_cons.mp hq0
      have hsr : ∀ q ∈ rest, q.batch ∈ (w.hub.chain q.chain).batches :=
        fun q hqm => hs q (by rw [hpe]; exact List.mem_cons_of_mem _ hqm)
      cases hok : w.hub.handle false p0.chain (.batchExecuted p0.tok evn p0.nonce ht tx fp payer) with
      | error e => simp only [wstep, hpe, hok]; exact ⟨hsr, hq'⟩
      | ok h' =>
        simp only [wstep, hpe, hok] at hb ⊢
        refine ⟨fun q hqm => ?_, hq'⟩
        show q.batch ∈ (h'.chain q.chain).batches
        have hbe : w.hub.batchExecuted p0.chain p0.tok p0.nonce tx fp payer = .ok h' := by
          simpa only [Hub.handle] using hok
        cases hfb : w.hub.findBatch p0.chain p0.tok p0.nonce with
        | none => rw [batchExecuted_none hbe hfb]; exact hsr q hqm
        | some b' =>
          have hb' : b' = p0.batch :=
            findBatch_of_pendOK (hi.pend p0 (by rw [hpe]; exact List.mem_cons_self)) hfb
          rcases batchExecuted_keep hbe hfb hi.vinv.led hb q.chain q.batch (hsr q hqm) with h | ⟨hc, het, hnn⟩
          · exact h
          · exfalso
            rw [hb'] at het hnn
            have := hhead q hqm hc.symm het.symm
            omega

/-! ### Checking H1 and H2 on a concrete history by evaluation -/

def boundedB (h : Hub) : Bool :=
  h.cs.all fun p => decide (p.2.lastSteId < 2 ^ 64) && decide (p.2.lastBatchNonce < 2 ^ 64)

def execOkB (w : World) : WOp → Bool
  | .applyExec evNonce height tx feePaid payer =>
    match w.pendingExecs with
    | [] => true
    | p :: _ =>
      (w.hub.findBatch p.chain p.tok p.nonce).isSome &&
      (match w.hub.handle false p.chain (.batchExecuted p.tok evNonce p.nonce height tx feePaid payer) with
        | .ok _ => true
        | .error _ => false)
  | _ => true

def runOkB (dn : String) : World → List WOp → Bool
  | _, [] => true
  | w, op :: ops => execOkB w op && boundedB (wstep dn w op).hub && runOkB dn (wstep dn w op) ops

theorem execOk_of_B {w : World} {op : WOp} (h : execOkB w op = true) : ExecOk w op := by
  cases op with
  | applyExec evn ht tx fp payer =>
    intro p rest hpe
    simp only [execOkB, hpe, Bool.and_eq_true] at h
    refine ⟨h.1, ?_⟩
    cases hok : w.hub.handle false p.chain (.batchExecuted p.tok evn p.nonce ht tx fp payer) with
    | ok h' => exact ⟨h', rfl⟩
    | error e => rw [hok] at h; exact absurd h.2 (by simp)
  | hubOp _ => trivial
  | expire _ => trivial
  | lock _ _ => trivial
  | execute _ _ _ => trivial
  | applyDeposit => trivial

theorem runOk_of_B {dn : String} {ops : List WOp} {w : World} (h : runOkB dn w ops = true) : RunOk dn w ops := by
  induction ops generalizing w with
  | nil => trivial
  | cons op ops ih =>
    simp only [runOkB, Bool.and_eq_true] at h
    exact ⟨execOk_of_B h.1.1, Hub.bounded_of_all h.1.2, ih h.2⟩

/-! ### The same with H1(a) replaced by the clock condition -/

/-- H1(b) alone: the handler of the oldest pending execution succeeds as a whole. -/
def HandlerOk (w : World) : WOp → Prop
  | .applyExec evNonce height tx feePaid payer =>
    ∀ p rest, w.pendingExecs = p :: rest →
      ∃ h', w.hub.handle false p.chain (.batchExecuted p.tok evNonce p.nonce height tx feePaid payer) = .ok h'
  | _ => True

/-- H1(b) + the clock condition + H2 along a history. -/
def RunOkC (dn : String) : World → List WOp → Prop
  | _, [] => True
  | w, op :: ops =>
    HandlerOk w op ∧ NoTimeout w op ∧ (wstep dn w op).hub.Bounded ∧ RunOkC dn (wstep dn w op) ops

/-- `WInv` plus: every pending execution's batch is still stored, in nonce order per token. -/
structure WInvC (dn : String) (w : World) : Prop where
  inv : WInv dn w
  stored : Stored w
  ord : QOrd w.pendingExecs

theorem execOk_of_stored {dn : String} {w : World} {op : WOp} (hi : WInv dn w) (hs : Stored w)
    (hh : HandlerOk w op) : ExecOk w op := by
  cases op with
  | applyExec evn ht tx fp payer =>
    intro p rest hpe
    have hm : p ∈ w.pendingExecs := by rw [hpe]; exact List.mem_cons_self
    exact ⟨findBatch_isSome_of_mem (hi.pend p hm) (hs p hm), hh p rest hpe⟩
  | hubOp _ => trivial
  | expire _ => trivial
  | lock _ _ => trivial
  | execute _ _ _ => trivial
  | applyDeposit => trivial

def handlerOkB (w : World) : WOp → Bool
  | .applyExec evNonce height tx feePaid payer =>
    match w.pendingExecs with
    | [] => true
    | p :: _ =>
      match w.hub.handle false p.chain (.batchExecuted p.tok evNonce p.nonce height tx feePaid payer) with
      | .ok _ => true
      | .error _ => false
  | _ => true

def noTimeoutB (w : World) : WOp → Bool
  | .hubOp _ => w.pendingExecs.all fun p => !decide (p.batch.timeout < (w.hub.chain p.chain).obsExtHeight)
  | _ => true

def runOkCB (dn : String) : World → List WOp → Bool
  | _, [] => true
  | w, op :: ops =>
    handlerOkB w op && noTimeoutB w op && boundedB (wstep dn w op).hub && runOkCB dn (wstep dn w op) ops

theorem handlerOk_of_B {w : World} {op : WOp} (h : handlerOkB w op = true) : HandlerOk w op := by
  cases op with
  | applyExec evn ht tx fp payer =>
    intro p rest hpe
    simp only [handlerOkB, hpe] at h
    cases hok : w.hub.handle false p.chain (.batchExecuted p.tok evn p.nonce ht tx fp payer) with
    | ok h' => exact ⟨h', rfl⟩
    | error e => rw [hok] at h; exact absurd h (by simp)
  | hubOp _ => trivial
  | expire _ => trivial
  | lock _ _ => trivial
  | execute _ _ _ => trivial
  | applyDeposit => trivial

theorem noTimeout_of_B {w : World} {op : WOp} (h : noTimeoutB w op = true) : NoTimeout w op := by
  cases op with
  | hubOp o =>
    intro p hp
    simp only [noTimeoutB, List.all_eq_true] at h
    have := h p hp
    unfold TimedOut
    simpa using this
  | applyExec _ _ _ _ _ => trivial
  | expire _ => trivial
  | lock _ _ => trivial
  | execute _ _ _ => trivial
  | applyDeposit => trivial

theorem runOkC_of_B {dn : String} {ops : List WOp} {w : World} (h : runOkCB dn w ops = true) : RunOkC dn w ops := by
  induction ops generalizing w with
  | nil => trivial
  | cons op ops ih =>
    simp only [runOkCB, Bool.and_eq_true] at h
    exact ⟨handlerOk_of_B h.1.1.1, noTimeout_of_B h.1.1.2, Hub.bounded_of_all h.1.2, ih h.2⟩

end Mhub2.C01
