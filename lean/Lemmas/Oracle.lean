/-
  Helper lemmas for the oracle module (C18): the weighted median, the vote/claim bookkeeping
  invariant, the threshold arithmetic and the holders tally.
-/
import Mhub2.Oracle
import Lemmas.Assoc
import Lemmas.Fees
namespace Mhub2

/-! ### Weighted median -/

@[simp] theorem expandWeighted_nil : expandWeighted [] = [] := rfl

theorem expandWeighted_cons (v : Int) (w : Nat) (l : List (Int × Nat)) :
    expandWeighted ((v, w) :: l) = List.replicate w v ++ expandWeighted l := by
  simp [expandWeighted]

@[simp] theorem totalWeight_nil : totalWeight [] = 0 := rfl

theorem totalWeight_cons (v : Int) (w : Nat) (l : List (Int × Nat)) :
    totalWeight ((v, w) :: l) = w + totalWeight l := by
  simp [totalWeight, sumNats_cons]

/-- The expanded list has one entry per unit of weight. -/
theorem length_expandWeighted (l : List (Int × Nat)) :
    (expandWeighted l).length = totalWeight l := by
  induction l with
  | nil => rfl
  | cons p t ih =>
    obtain ⟨v, w⟩ := p
    rw [expandWeighted_cons, totalWeight_cons, List.length_append, List.length_replicate, ih]

/-- `weightedNth` indexes the expanded list without building it. -/
theorem weightedNth_eq_getElem? (l : List (Int × Nat)) (k : Nat) :
    weightedNth l k = (expandWeighted l)[k]? := by
  induction l generalizing k with
  | nil => simp [weightedNth]
  | cons p t ih =>
    obtain ⟨v, w⟩ := p
    rw [expandWeighted_cons]
    unfold weightedNth
    split
    · rename_i hk
      rw [List.getElem?_append_left (by simpa using hk)]
      simp [hk]
    · rename_i hk
      rw [List.getElem?_append_right (by simpa using Nat.le_of_not_lt hk)]
      simpa using ih (k - w)

theorem mem_expandWeighted {l : List (Int × Nat)} {x : Int} :
    x ∈ expandWeighted l ↔ ∃ p ∈ l, p.2 ≠ 0 ∧ p.1 = x := by
  simp only [expandWeighted, List.mem_flatMap, List.mem_replicate]
  constructor
  · rintro ⟨p, hp, hn, hx⟩; exact ⟨p, hp, hn, hx.symm⟩
  · rintro ⟨p, hp, hn, hx⟩; exact ⟨p, hp, hn, hx.symm⟩

/-- `sortByValue` only reorders the reports … -/
theorem sortByValue_perm (l : List (Int × Nat)) : (sortByValue l).Perm l :=
  List.mergeSort_perm l _

/-- … into ascending order of value. -/
theorem sortByValue_sorted (l : List (Int × Nat)) :
    (sortByValue l).Pairwise (fun a b => a.1 ≤ b.1) := by
  have h := List.pairwise_mergeSort (le := fun (a b : Int × Nat) => decide (a.1 ≤ b.1))
    (by intro a b c h1 h2; simp only [decide_eq_true_eq] at *; omega)
    (by intro a b; simp only [Bool.or_eq_true, decide_eq_true_eq]; omega) l
  unfold sortByValue
  exact h.imp (by intro a b hab; simpa using hab)

theorem expandWeighted_sorted {l : List (Int × Nat)} (hs : l.Pairwise (fun a b => a.1 ≤ b.1)) :
    (expandWeighted l).Pairwise (· ≤ ·) := by
  induction l with
  | nil => simp
  | cons p t ih =>
    obtain ⟨v, w⟩ := p
    obtain ⟨hp, ht⟩ := List.pairwise_cons.mp hs
    rw [expandWeighted_cons, List.pairwise_append]
    refine ⟨?_, ih ht, ?_⟩
    · rw [List.pairwise_replicate]; right; exact Int.le_refl v
    · intro a ha b hb
      obtain ⟨_, rfl⟩ := List.mem_replicate.mp ha
      obtain ⟨q, hq, _, rfl⟩ := mem_expandWeighted.mp hb
      exact hp q hq

theorem expandWeighted_perm {l l' : List (Int × Nat)} (h : l.Perm l') :
    (expandWeighted l).Perm (expandWeighted l') :=
  List.Perm.flatMap_right _ h

theorem totalWeight_sortByValue (l : List (Int × Nat)) : totalWeight (sortByValue l) = totalWeight l := by
  rw [← length_expandWeighted, ← length_expandWeighted]
  exact (expandWeighted_perm (sortByValue_perm l)).length_eq

/-- The sorted list in which every reported value appears `weight` times. -/
def medianList (l : List (Int × Nat)) : List Int := expandWeighted (sortByValue l)

theorem medianList_sorted (l : List (Int × Nat)) : (medianList l).Pairwise (· ≤ ·) :=
  expandWeighted_sorted (sortByValue_sorted l)

theorem medianList_perm (l : List (Int × Nat)) : (medianList l).Perm (expandWeighted l) :=
  expandWeighted_perm (sortByValue_perm l)

theorem medianList_length (l : List (Int × Nat)) : (medianList l).length = totalWeight l := by
  unfold medianList; rw [length_expandWeighted, totalWeight_sortByValue]

/-- `weightedMedian` in terms of the expanded sorted list. -/
theorem weightedMedian_eq (l : List (Int × Nat)) :
    weightedMedian l =
      (let e := medianList l
       let W := e.length
       if W = 0 then none
       else if W % 2 = 0 then
         match e[W / 2]?, e[W / 2 - 1]? with
         | some a, some b => some (Int.tdiv (a + b) 2)
         | _, _ => none
       else e[W / 2]?) := by
  have hW : totalWeight (sortByValue l) = (medianList l).length := by
    unfold medianList; rw [length_expandWeighted]
  unfold weightedMedian
  simp only [weightedNth_eq_getElem?, hW, medianList, beq_iff_eq]
  rfl

/-! ### Claims -/

theorem oraclePriceClaim_ok {h : Hub} {o o' : OracleSt} {v : String} {e : Nat} {ps : List (String × Int)}
    (hok : oraclePriceClaim h o v e ps = .ok o') :
    e ≠ 0 ∧ (h.validator? v).isSome ∧
    ((o.epoch ≠ e ∧ o' = o) ∨
     (o.epoch = e ∧
      (requiredPriceNames h).all (fun n => ps.any fun p => p.1 == n && p.2 > 0) = true ∧
      o' = { o with priceClaims := alSet o.priceClaims v ps, priceVotes := addVoteOnce o.priceVotes v })) := by
  unfold oraclePriceClaim at hok
  simp only [bind, Except.bind, pure, Except.pure, failM] at hok
  split at hok
  · cases hok
  · rename_i he
    split at hok
    · cases hok
    · split at hok
      · cases hok
      · rename_i hv
        refine ⟨by simpa using he, Option.isSome_iff_ne_none.mpr (by simpa using hv), ?_⟩
        split at hok
        · rename_i hne
          left; exact ⟨by simpa using hne, by cases hok; rfl⟩
        · rename_i hne
          split at hok
          · cases hok
          · rename_i hreq
            right
            exact ⟨by simpa using hne, by simpa using hreq, by cases hok; rfl⟩

theorem oracleHoldersClaim_ok {h : Hub} {o o' : OracleSt} {v : String} {e : Nat} {hs : List (String × Int)}
    (hok : oracleHoldersClaim h o v e hs = .ok o') :
    e ≠ 0 ∧ (h.validator? v).isSome ∧ lowerNoDup (hs.map (·.1)) = true ∧
    ((o.epoch ≠ e ∧ o' = o) ∨
     (o.epoch = e ∧
      o' = { o with holderClaims := alSet o.holderClaims v hs, holderVotes := addVoteOnce o.holderVotes v })) := by
  unfold oracleHoldersClaim at hok
  simp only [bind, Except.bind, pure, Except.pure, failM] at hok
  split at hok
  · cases hok
  · rename_i he
    split at hok
    · cases hok
    · rename_i hd
      split at hok
      · cases hok
      · rename_i hv
        refine ⟨by simpa using he, Option.isSome_iff_ne_none.mpr (by simpa using hv), by simpa using hd, ?_⟩
        split at hok
        · rename_i hne
          left; exact ⟨by simpa using hne, by cases hok; rfl⟩
        · rename_i hne
          right
          exact ⟨by simpa using hne, by cases hok; rfl⟩

/-! ### The bookkeeping invariant -/

theorem mem_addVoteOnce {l : List String} {v x : String} :
    x ∈ addVoteOnce l v ↔ x ∈ l ∨ x = v := by
  unfold addVoteOnce
  split
  · rename_i hc
    have hv : v ∈ l := by simpa using hc
    constructor
    · intro h; exact Or.inl h
    · rintro (h | h)
      · exact h
      · subst h; exact hv
  · simp

theorem addVoteOnce_nodup {l : List String} (v : String) (h : l.Nodup) : (addVoteOnce l v).Nodup := by
  unfold addVoteOnce
  split
  · exact h
  · rename_i hc
    have hv : v ∉ l := by simpa using hc
    rw [List.nodup_append]
    refine ⟨h, by simp, ?_⟩
    intro a ha b hb
    have : b = v := by simpa using hb
    subst this
    intro hab; subst hab; exact hv ha

/-- A vote list that already holds `v` is left alone: a validator is counted once. -/
theorem addVoteOnce_of_mem {l : List String} {v : String} (h : v ∈ l) : addVoteOnce l v = l := by
  unfold addVoteOnce
  rw [if_pos (by simpa using h)]

section
variable {κ ν : Type} [BEq κ] [LawfulBEq κ]

theorem alSet_keys (l : List (κ × ν)) (k : κ) (v : ν) :
    (alSet l k v).map (·.1) = if k ∈ l.map (·.1) then l.map (·.1) else l.map (·.1) ++ [k] := by
  induction l with
  | nil => simp [alSet]
  | cons p t ih =>
    obtain ⟨k', v'⟩ := p
    unfold alSet
    by_cases h : k' == k
    · have hk : k' = k := by simpa using h
      subst hk
      simp
    · have hk : ¬ k = k' := by intro e; subst e; simp at h
      have hf : (k' == k) = false := by simpa using h
      rw [if_neg (by simp [hf])]
      simp only [List.map_cons, ih, List.mem_cons, hk, false_or]
      split <;> simp

theorem alSet_keys_nodup {l : List (κ × ν)} (k : κ) (v : ν) (h : (l.map (·.1)).Nodup) :
    ((alSet l k v).map (·.1)).Nodup := by
  rw [alSet_keys]
  split
  · exact h
  · rename_i hk
    rw [List.nodup_append]
    refine ⟨h, by simp, ?_⟩
    intro a ha b hb
    have : b = k := by simpa using hb
    subst this
    intro hab; subst hab; exact hk ha

theorem alGet_alSet_isSome {l : List (κ × ν)} {k k2 : κ} (v : ν) (h : (alGet l k2).isSome) :
    (alGet (alSet l k v) k2).isSome := by
  by_cases hk : k = k2
  · subst hk; simp
  · rw [alGet_alSet_other _ _ _ _ hk]; exact h
end

/-- Each validator appears at most once in each vote list, each claim store holds at most one
    (the latest) claim per validator, and every vote has its claim stored. -/
def OracleSt.WF (o : OracleSt) : Prop :=
  o.priceVotes.Nodup ∧ o.holderVotes.Nodup ∧
  (o.priceClaims.map (·.1)).Nodup ∧ (o.holderClaims.map (·.1)).Nodup ∧
  (∀ v ∈ o.priceVotes, (alGet o.priceClaims v).isSome) ∧
  (∀ v ∈ o.holderVotes, (alGet o.holderClaims v).isSome)

theorem OracleSt.WF_init : OracleSt.WF {} := by
  simp [OracleSt.WF]

theorem OracleSt.WF_priceClaim {h : Hub} {o o' : OracleSt} {v : String} {e : Nat} {ps : List (String × Int)}
    (hwf : o.WF) (hok : oraclePriceClaim h o v e ps = .ok o') : o'.WF := by
  obtain ⟨_, _, hc⟩ := oraclePriceClaim_ok hok
  rcases hc with ⟨_, rfl⟩ | ⟨_, _, rfl⟩
  · exact hwf
  · obtain ⟨h1, h2, h3, h4, h5, h6⟩ := hwf
    refine ⟨addVoteOnce_nodup v h1, h2, alSet_keys_nodup v ps h3, h4, ?_, h6⟩
    intro x hx
    rcases mem_addVoteOnce.mp hx with hx | hx
    · exact alGet_alSet_isSome ps (h5 x hx)
    · subst hx; simp

theorem OracleSt.WF_holdersClaim {h : Hub} {o o' : OracleSt} {v : String} {e : Nat} {hs : List (String × Int)}
    (hwf : o.WF) (hok : oracleHoldersClaim h o v e hs = .ok o') : o'.WF := by
  obtain ⟨_, _, _, hc⟩ := oracleHoldersClaim_ok hok
  rcases hc with ⟨_, rfl⟩ | ⟨_, rfl⟩
  · exact hwf
  · obtain ⟨h1, h2, h3, h4, h5, h6⟩ := hwf
    refine ⟨h1, addVoteOnce_nodup v h2, h3, alSet_keys_nodup v hs h4, h5, ?_⟩
    intro x hx
    rcases mem_addVoteOnce.mp hx with hx | hx
    · exact alGet_alSet_isSome hs (h6 x hx)
    · subst hx; simp

/-! ### Epoch processing -/

/-- The price half of `oracleProcessEpoch`. -/
def oraclePricePhase (h : Hub) (o : OracleSt) (num add den : Int) : M OracleSt :=
  if o.priceVotes.isEmpty then pure o else do
    let o' ← (if oracleReached h num add den o.priceVotes then do
        let powers ← h.normalizedPowers
        pure { o with prices := computePrices powers o.priceVotes o.priceClaims }
      else pure o)
    pure { o' with priceClaims := [], priceVotes := [] }

/-- The holders half of `oracleProcessEpoch`. -/
def oracleHolderPhase (h : Hub) (o : OracleSt) (num add den : Int) : M OracleSt :=
  if o.holderVotes.isEmpty then pure o else do
    let o' ← (if oracleReached h num add den o.holderVotes then do
        let powers ← h.normalizedPowers
        match computeHolders powers o.holderVotes o.holderClaims with
        | some l => pure { o with holders := l }
        | none => pure o
      else pure o)
    pure { o' with holderClaims := [], holderVotes := [] }

theorem oracleProcessEpoch_eq (h : Hub) (o : OracleSt) (num add den : Int) :
    oracleProcessEpoch h o num add den =
      (oraclePricePhase h { o with epoch := o.epoch + 1 } num add den >>= fun o1 =>
        oracleHolderPhase h o1 num add den) := rfl

theorem oraclePricePhase_ok {h : Hub} {o o' : OracleSt} {n a d : Int}
    (hok : oraclePricePhase h o n a d = .ok o') :
    o'.epoch = o.epoch ∧ o'.holders = o.holders ∧ o'.holderClaims = o.holderClaims ∧
    o'.holderVotes = o.holderVotes ∧ o'.priceVotes = [] ∧
    ((o.priceVotes = [] ∧ o' = o) ∨
     (o.priceVotes ≠ [] ∧ o'.priceClaims = [] ∧
      ((oracleReached h n a d o.priceVotes = false ∧ o'.prices = o.prices) ∨
       (oracleReached h n a d o.priceVotes = true ∧ ∃ pw, h.normalizedPowers = .ok pw ∧
          o'.prices = computePrices pw o.priceVotes o.priceClaims)))) := by
  unfold oraclePricePhase at hok
  simp only [bind, Except.bind, pure, Except.pure] at hok
  split at hok
  · rename_i he
    have he' : o.priceVotes = [] := by simpa using he
    cases hok
    exact ⟨rfl, rfl, rfl, rfl, he', Or.inl ⟨he', rfl⟩⟩
  · rename_i he
    have he' : o.priceVotes ≠ [] := by simpa using he
    by_cases hr : oracleReached h n a d o.priceVotes = true
    · cases hnp : h.normalizedPowers with
      | error e => simp [hr, hnp] at hok
      | ok pw =>
        simp only [hr, hnp, if_true] at hok
        cases hok
        exact ⟨rfl, rfl, rfl, rfl, rfl, Or.inr ⟨he', rfl, Or.inr ⟨hr, pw, rfl, rfl⟩⟩⟩
    · simp only [hr] at hok
      cases hok
      exact ⟨rfl, rfl, rfl, rfl, rfl, Or.inr ⟨he', rfl, Or.inl ⟨by simpa using hr, rfl⟩⟩⟩

theorem oracleHolderPhase_ok {h : Hub} {o o' : OracleSt} {n a d : Int}
    (hok : oracleHolderPhase h o n a d = .ok o') :
    o'.epoch = o.epoch ∧ o'.prices = o.prices ∧ o'.priceClaims = o.priceClaims ∧
    o'.priceVotes = o.priceVotes ∧ o'.holderVotes = [] ∧
    ((o.holderVotes = [] ∧ o' = o) ∨
     (o.holderVotes ≠ [] ∧ o'.holderClaims = [] ∧
      ((oracleReached h n a d o.holderVotes = false ∧ o'.holders = o.holders) ∨
       (oracleReached h n a d o.holderVotes = true ∧ ∃ pw, h.normalizedPowers = .ok pw ∧
          ((computeHolders pw o.holderVotes o.holderClaims = none ∧ o'.holders = o.holders) ∨
           computeHolders pw o.holderVotes o.holderClaims = some o'.holders))))) := by
  unfold oracleHolderPhase at hok
  simp only [bind, Except.bind, pure, Except.pure] at hok
  split at hok
  · rename_i he
    have he' : o.holderVotes = [] := by simpa using he
    cases hok
    exact ⟨rfl, rfl, rfl, rfl, he', Or.inl ⟨he', rfl⟩⟩
  · rename_i he
    have he' : o.holderVotes ≠ [] := by simpa using he
    by_cases hr : oracleReached h n a d o.holderVotes = true
    · cases hnp : h.normalizedPowers with
      | error e => simp [hr, hnp] at hok
      | ok pw =>
        simp only [hr, hnp, if_true] at hok
        cases hch : computeHolders pw o.holderVotes o.holderClaims with
        | none =>
          simp only [hch] at hok
          cases hok
          exact ⟨rfl, rfl, rfl, rfl, rfl, Or.inr ⟨he', rfl, Or.inr ⟨hr, pw, rfl, Or.inl ⟨hch, rfl⟩⟩⟩⟩
        | some l =>
          simp only [hch] at hok
          cases hok
          exact ⟨rfl, rfl, rfl, rfl, rfl, Or.inr ⟨he', rfl, Or.inr ⟨hr, pw, rfl, Or.inr hch⟩⟩⟩
    · simp only [hr] at hok
      cases hok
      exact ⟨rfl, rfl, rfl, rfl, rfl, Or.inr ⟨he', rfl, Or.inl ⟨by simpa using hr, rfl⟩⟩⟩

theorem oracleProcessEpoch_ok {h : Hub} {o o' : OracleSt} {n a d : Int}
    (hok : oracleProcessEpoch h o n a d = .ok o') :
    ∃ o1, oraclePricePhase h { o with epoch := o.epoch + 1 } n a d = .ok o1 ∧
      oracleHolderPhase h o1 n a d = .ok o' := by
  rw [oracleProcessEpoch_eq] at hok
  simp only [bind, Except.bind] at hok
  split at hok
  · cases hok
  · rename_i o1 h1
    exact ⟨o1, h1, hok⟩

theorem OracleSt.WF_pricePhase {h : Hub} {o o' : OracleSt} {n a d : Int}
    (hwf : o.WF) (hok : oraclePricePhase h o n a d = .ok o') : o'.WF := by
  obtain ⟨_, _, hc, hv, hpv, hcase⟩ := oraclePricePhase_ok hok
  rcases hcase with ⟨_, rfl⟩ | ⟨_, hpc, _⟩
  · exact hwf
  · obtain ⟨h1, h2, h3, h4, h5, h6⟩ := hwf
    refine ⟨by rw [hpv]; exact List.nodup_nil, by rw [hv]; exact h2, by rw [hpc]; exact List.nodup_nil,
      by rw [hc]; exact h4, (by rw [hpv]; intro v hv; cases hv), by rw [hv, hc]; exact h6⟩

theorem OracleSt.WF_holderPhase {h : Hub} {o o' : OracleSt} {n a d : Int}
    (hwf : o.WF) (hok : oracleHolderPhase h o n a d = .ok o') : o'.WF := by
  obtain ⟨_, _, hc, hv, hhv, hcase⟩ := oracleHolderPhase_ok hok
  rcases hcase with ⟨_, rfl⟩ | ⟨_, hhc, _⟩
  · exact hwf
  · obtain ⟨h1, h2, h3, h4, h5, h6⟩ := hwf
    refine ⟨by rw [hv]; exact h1, by rw [hhv]; exact List.nodup_nil, by rw [hc]; exact h3,
      by rw [hhc]; exact List.nodup_nil, by rw [hv, hc]; exact h5, (by rw [hhv]; intro v hv; cases hv)⟩

theorem OracleSt.WF_processEpoch {h : Hub} {o o' : OracleSt} {n a d : Int}
    (hwf : o.WF) (hok : oracleProcessEpoch h o n a d = .ok o') : o'.WF := by
  obtain ⟨o1, h1, h2⟩ := oracleProcessEpoch_ok hok
  exact OracleSt.WF_holderPhase (OracleSt.WF_pricePhase (o := { o with epoch := o.epoch + 1 }) hwf h1) h2

theorem OracleSt.WF_endBlock {h : Hub} {o o' : OracleSt} {n a d : Int}
    (hwf : o.WF) (hok : oracleEndBlock h o n a d = .ok o') : o'.WF := by
  unfold oracleEndBlock at hok
  split at hok
  · exact OracleSt.WF_processEpoch hwf hok
  · cases hok; exact hwf

/-! ### Threshold arithmetic -/

/-- Powers are naturals, so the running sum only grows: reaching the threshold at some prefix
    means the whole vote list carries at least the required power. -/
theorem reachesThreshold_sum {power : String → Nat} {req : Int} {votes : List String} {acc : Int}
    (h : reachesThreshold power req votes acc = true) :
    req ≤ acc + ((sumNats (votes.map power) : Nat) : Int) := by
  induction votes generalizing acc with
  | nil => simp [reachesThreshold] at h
  | cons v vs ih =>
    simp only [reachesThreshold] at h
    rw [List.map_cons, sumNats_cons]
    split at h
    · omega
    · have := ih h
      omega

theorem reachesThreshold_ne_nil {power : String → Nat} {req : Int} {votes : List String} {acc : Int}
    (h : reachesThreshold power req votes acc = true) : votes ≠ [] := by
  intro e; subst e; simp [reachesThreshold] at h

/-- `(66·T + 99) / 100 ≤ s` (truncated division) gives `66·T ≤ 100·s`. -/
theorem threshold_le {T : Nat} {s : Int} (h : oracleThreshold 66 99 100 T ≤ s) :
    66 * (T : Int) ≤ 100 * s := by
  unfold oracleThreshold at h
  rw [tdiv_eq_ediv_nonneg (by omega)] at h
  omega

/-- The required power is the ceiling of 66 % of the total. -/
theorem threshold_ceil (T : Nat) :
    66 * (T : Int) ≤ 100 * oracleThreshold 66 99 100 T ∧
    100 * oracleThreshold 66 99 100 T < 66 * (T : Int) + 100 := by
  unfold oracleThreshold
  rw [tdiv_eq_ediv_nonneg (by omega)]
  omega

/-- Reaching the threshold: the voters listed hold at least 66 % of the bonded power. -/
theorem oracleReached_quorum {h : Hub} {votes : List String}
    (hr : oracleReached h 66 99 100 votes = true) :
    66 * h.totalPower ≤ 100 * sumNats (votes.map h.lastPower) := by
  unfold oracleReached at hr
  have h1 := reachesThreshold_sum hr
  have h2 := threshold_le (T := h.totalPower) (s := ((sumNats (votes.map h.lastPower) : Nat) : Int)) (by omega)
  omega

/-! ### Holders tally -/

theorem twoThirdsU16 : maxU16 * 2 / 3 = 43690 := by decide

/-- The voters (with their latest list) whose list has canonical form `c`. -/
def holdersGroup (votes : List String) (claims : List (String × List (String × Int))) (c : List String) :
    List (String × List (String × Int)) :=
  (votes.map fun v => (v, (alGet claims v).getD [])).filter fun p => holdersCanon p.2 == c

theorem computeHolders_some {powers : List (String × Nat)} {votes : List String}
    {claims : List (String × List (String × Int))} {l : List (String × Int)}
    (h : computeHolders powers votes claims = some l) :
    ∃ c, sumNats ((holdersGroup votes claims c).map fun p => (alGet powers p.1).getD 0) > 43690 ∧
      ∃ v ∈ votes, (alGet claims v).getD [] = l ∧ holdersCanon l = c := by
  unfold computeHolders at h
  simp only at h
  split at h
  · cases h
  · rename_i c rest hw
    have hc : c ∈ List.filter (fun c =>
        decide (sumNats (List.map (fun p => (alGet powers p.fst).getD 0)
          (List.filter (fun p => holdersCanon p.snd == c)
            (List.map (fun v => (v, (alGet claims v).getD [])) votes))) > maxU16 * 2 / 3))
        (List.map (fun p => holdersCanon p.snd)
          (List.map (fun v => (v, (alGet claims v).getD [])) votes)).eraseDups := by
      rw [hw]; exact List.mem_cons_self
    have hsum := (List.mem_filter.mp hc).2
    rw [twoThirdsU16] at hsum
    refine ⟨c, by simpa [holdersGroup] using hsum, ?_⟩
    rw [Option.map_eq_some_iff] at h
    obtain ⟨p, hp, hpl⟩ := h
    have hmem := List.mem_of_getLast? hp
    obtain ⟨hin, hcan⟩ := List.mem_filter.mp hmem
    obtain ⟨v, hv, hvp⟩ := List.mem_map.mp hin
    refine ⟨v, hv, ?_, ?_⟩
    · rw [← hpl, ← hvp]
    · rw [← hpl]; simpa using hcan

/-- `Σ ⌊pᵢ·c/T⌋ · T ≤ (Σ pᵢ)·c`. -/
theorem sum_floor_mul_le (c T : Nat) (ps : List Nat) :
    sumNats (ps.map fun p => p * c / T) * T ≤ sumNats ps * c := by
  induction ps with
  | nil => simp
  | cons p t ih =>
    simp only [List.map_cons, sumNats_cons, Nat.add_mul]
    have := Nat.div_mul_le_self (p * c) T
    omega

/-- More than 43690 of 65535 in normalised powers is more than two thirds of the raw power. -/
theorem two_thirds (ps : List Nat) (T : Nat) (hT : T > 0)
    (h : sumNats (ps.map fun p => p * 65535 / T) > 43690) : 3 * sumNats ps > 2 * T := by
  have h1 := sum_floor_mul_le 65535 T ps
  have h2 : 43691 * T ≤ sumNats (ps.map fun p => p * 65535 / T) * T := Nat.mul_le_mul_right T h
  omega

/-! ### Vote power against the bonded total -/

theorem sumNats_map_zero {α : Type} (l : List α) : sumNats (l.map fun _ => 0) = 0 := by
  induction l with
  | nil => rfl
  | cons x t ih => simp [sumNats_cons, ih]

theorem sumNats_map_congr {α : Type} {f g : α → Nat} {l : List α} (h : ∀ x ∈ l, f x = g x) :
    sumNats (l.map f) = sumNats (l.map g) := by
  rw [List.map_congr_left h]

theorem sumNats_map_le {α : Type} {f g : α → Nat} {l : List α} (h : ∀ x ∈ l, f x ≤ g x) :
    sumNats (l.map f) ≤ sumNats (l.map g) := by
  induction l with
  | nil => simp
  | cons x t ih =>
    simp only [List.map_cons, sumNats_cons]
    have := h x (by simp)
    have := ih (fun y hy => h y (by simp [hy]))
    omega

/-- Among pairwise distinct voters at most one hits the key `k`. -/
theorem sum_ite_le (k : String) (c : Nat) (g : String → Nat) {vs : List String} (hn : vs.Nodup) :
    sumNats (vs.map fun v => if k == v then c else g v) ≤ c + sumNats (vs.map g) := by
  induction vs with
  | nil => simp
  | cons v t ih =>
    obtain ⟨hv, ht⟩ := List.nodup_cons.mp hn
    simp only [List.map_cons, sumNats_cons]
    by_cases hk : k = v
    · subst hk
      have : sumNats (t.map fun v => if k == v then c else g v) = sumNats (t.map g) := by
        apply sumNats_map_congr
        intro x hx
        have : ¬ k = x := by intro e; subst e; exact hv hx
        simp [this]
      rw [this]; simp
    · have := ih ht
      have hkf : ¬ ((k == v) = true) := by simpa using hk
      rw [if_neg hkf]
      omega

/-- `Hub.lastPower` / `Hub.totalPower` on the raw validator list. -/
def lastPowerL (st : List Validator) (v : String) : Nat :=
  match st.find? (fun x => x.addr == v) with
  | some x => if x.bonded then x.power else 0
  | none => 0

def totalPowerL (st : List Validator) : Nat := sumNats ((st.filter (·.bonded)).map (·.power))

theorem lastPower_eq (h : Hub) (v : String) : h.lastPower v = lastPowerL h.staking v := rfl
theorem totalPower_eq (h : Hub) : h.totalPower = totalPowerL h.staking := rfl

theorem lastPowerL_cons (x : Validator) (t : List Validator) (v : String) :
    lastPowerL (x :: t) v =
      if x.addr == v then (if x.bonded then x.power else 0) else lastPowerL t v := by
  unfold lastPowerL
  rw [List.find?_cons]
  by_cases h : (x.addr == v) = true
  · simp [h]
  · have : (x.addr == v) = false := by simpa using h
    simp [this]

theorem totalPowerL_cons (x : Validator) (t : List Validator) :
    totalPowerL (x :: t) = (if x.bonded then x.power else 0) + totalPowerL t := by
  unfold totalPowerL
  rw [List.filter_cons]
  by_cases h : x.bonded = true
  · simp [h, sumNats_cons]
  · simp [h]

theorem sum_lastPowerL_le (st : List Validator) {vs : List String} (hn : vs.Nodup) :
    sumNats (vs.map (lastPowerL st)) ≤ totalPowerL st := by
  induction st with
  | nil =>
    have : sumNats (vs.map (lastPowerL [])) = sumNats (vs.map fun _ => 0) :=
      sumNats_map_congr (by intro x _; rfl)
    rw [this, sumNats_map_zero]; exact Nat.zero_le _
  | cons x t ih =>
    have h1 : sumNats (vs.map (lastPowerL (x :: t))) =
        sumNats (vs.map fun v => if x.addr == v then (if x.bonded then x.power else 0) else lastPowerL t v) :=
      sumNats_map_congr (by intro v _; exact lastPowerL_cons x t v)
    have h2 := sum_ite_le x.addr (if x.bonded then x.power else 0) (lastPowerL t) hn
    rw [h1, totalPowerL_cons]
    omega

/-- Pairwise distinct voters never hold more than the bonded total. -/
theorem sum_lastPower_le_total (h : Hub) {vs : List String} (hn : vs.Nodup) :
    sumNats (vs.map h.lastPower) ≤ h.totalPower :=
  sum_lastPowerL_le h.staking hn

/-- The raw power behind a normalised power: the first *bonded* validator under that address. -/
def bondedPowerL (st : List Validator) (v : String) : Nat :=
  (alGet ((st.filter (·.bonded)).map fun x => (x.addr, x.power)) v).getD 0

def Hub.bondedPower (h : Hub) (v : String) : Nat := bondedPowerL h.staking v

theorem bondedPowerL_cons (x : Validator) (t : List Validator) (v : String) :
    bondedPowerL (x :: t) v =
      if x.bonded then (if x.addr == v then x.power else bondedPowerL t v) else bondedPowerL t v := by
  unfold bondedPowerL
  rw [List.filter_cons]
  by_cases h : x.bonded = true
  · simp only [h, if_true, List.map_cons, alGet]
    split <;> simp
  · simp [h]

theorem lastPowerL_le_bonded (st : List Validator) (v : String) :
    lastPowerL st v ≤ bondedPowerL st v := by
  induction st with
  | nil => simp [lastPowerL]
  | cons x t ih =>
    rw [lastPowerL_cons, bondedPowerL_cons]
    by_cases hb : x.bonded = true <;> by_cases ha : (x.addr == v) = true <;> simp [hb, ha, ih]

theorem sum_bondedPowerL_le (st : List Validator) {vs : List String} (hn : vs.Nodup) :
    sumNats (vs.map (bondedPowerL st)) ≤ totalPowerL st := by
  induction st with
  | nil =>
    have : sumNats (vs.map (bondedPowerL [])) = sumNats (vs.map fun _ => 0) :=
      sumNats_map_congr (by intro x _; rfl)
    rw [this, sumNats_map_zero]; exact Nat.zero_le _
  | cons x t ih =>
    rw [totalPowerL_cons]
    by_cases hb : x.bonded = true
    · have h1 : sumNats (vs.map (bondedPowerL (x :: t))) =
          sumNats (vs.map fun v => if x.addr == v then x.power else bondedPowerL t v) :=
        sumNats_map_congr (by intro v _; rw [bondedPowerL_cons]; simp [hb])
      have h2 := sum_ite_le x.addr x.power (bondedPowerL t) hn
      rw [h1]; simp only [hb, if_true]
      omega
    · have h1 : sumNats (vs.map (bondedPowerL (x :: t))) = sumNats (vs.map (bondedPowerL t)) :=
        sumNats_map_congr (by intro v _; rw [bondedPowerL_cons]; simp [hb])
      rw [h1]; omega

theorem sum_bondedPower_le_total (h : Hub) {vs : List String} (hn : vs.Nodup) :
    sumNats (vs.map h.bondedPower) ≤ h.totalPower :=
  sum_bondedPowerL_le h.staking hn

theorem lastPower_le_bondedPower (h : Hub) (v : String) : h.lastPower v ≤ h.bondedPower v :=
  lastPowerL_le_bonded h.staking v

/-! ### Normalised powers -/

theorem alGet_map_snd {κ α β : Type} [BEq κ] (f : α → β) (l : List (κ × α)) (k : κ) :
    alGet (l.map fun p => (p.1, f p.2)) k = (alGet l k).map f := by
  induction l with
  | nil => rfl
  | cons p t ih =>
    obtain ⟨k', a⟩ := p
    simp only [List.map_cons, alGet]
    split
    · rfl
    · exact ih

/-- A normalised power is `⌊raw · 65535 / total⌋` of the first bonded validator under that
    address (0 for anybody else). -/
theorem normalizedPowers_ok {h : Hub} {pw : List (String × Nat)} (hok : h.normalizedPowers = .ok pw) :
    ∀ v, (alGet pw v).getD 0 = h.bondedPower v * 65535 / h.totalPower := by
  intro v
  unfold Hub.normalizedPowers at hok
  simp only at hok
  split at hok
  · rename_i he
    cases hok
    have he' : h.staking.filter (·.bonded) = [] := by simpa using he
    simp [Hub.bondedPower, bondedPowerL, he', alGet]
  · split at hok
    · cases hok
    · cases hok
      have : (List.map (fun (x : Validator) => (x.addr, x.power * maxU16 / sumNats (List.map (fun x => x.power) (List.filter (fun x => x.bonded) h.staking)))) (List.filter (fun x => x.bonded) h.staking))
          = ((h.staking.filter (·.bonded)).map fun x => (x.addr, x.power)).map
              fun p => (p.1, p.2 * 65535 / h.totalPower) := by
        rw [List.map_map]; rfl
      rw [this, alGet_map_snd (fun x => x * 65535 / h.totalPower)]
      unfold Hub.bondedPower bondedPowerL
      cases alGet ((h.staking.filter (·.bonded)).map fun x => (x.addr, x.power)) v <;> simp

theorem sum_floor_zero (c : Nat) (ps : List Nat) : sumNats (ps.map fun p => p * c / 0) = 0 := by
  have : sumNats (ps.map fun p => p * c / 0) = sumNats (ps.map fun _ => 0) :=
    sumNats_map_congr (by intro x _; exact Nat.div_zero _)
  rw [this, sumNats_map_zero]

/-- `two_thirds` needs no positivity side condition: with `T = 0` nothing is counted. -/
theorem two_thirds' (ps : List Nat) (T : Nat)
    (h : sumNats (ps.map fun p => p * 65535 / T) > 43690) : 3 * sumNats ps > 2 * T := by
  by_cases hT : T = 0
  · subst hT; rw [sum_floor_zero] at h; omega
  · exact two_thirds ps T (by omega) h

/-! ### Prices are weighted medians -/

theorem insSorted_perm {α : Type} (lt : α → α → Bool) (x : α) (l : List α) :
    (insSorted lt x l).Perm (x :: l) := by
  induction l with
  | nil => exact List.Perm.refl _
  | cons y ys ih =>
    unfold insSorted
    split
    · exact List.Perm.refl _
    · exact (List.Perm.cons y ih).trans (List.Perm.swap x y ys)

/-- `isort` only reorders. -/
theorem isort_perm {α : Type} (lt : α → α → Bool) (l : List α) : (isort lt l).Perm l := by
  induction l with
  | nil => exact List.Perm.refl _
  | cons x xs ih =>
    show (insSorted lt x (isort lt xs)).Perm (x :: xs)
    exact (insSorted_perm lt x _).trans (List.Perm.cons x ih)

theorem mem_isort {α : Type} {lt : α → α → Bool} {l : List α} {x : α} : x ∈ isort lt l ↔ x ∈ l :=
  (isort_perm lt l).mem_iff

/-- The `(name, value, normalised power)` triples the handler collects from the latest claim of
    every voter with non-zero power. -/
def priceContributions (powers : List (String × Nat)) (votes : List String)
    (claims : List (String × List (String × Int))) : List (String × Int × Nat) :=
  votes.flatMap fun v =>
    let p := (alGet powers v).getD 0
    if p == 0 then [] else ((alGet claims v).getD []).map fun item => (item.1, item.2, p)

/-- The `(value, weight)` reports for one price name. -/
def priceReports (powers : List (String × Nat)) (votes : List String)
    (claims : List (String × List (String × Int))) (n : String) : List (Int × Nat) :=
  ((priceContributions powers votes claims).filter (·.1 == n)).map fun c => (c.2.1, c.2.2)

theorem mem_computePrices {powers : List (String × Nat)} {votes : List String}
    {claims : List (String × List (String × Int))} {n : String} {m : Int}
    (h : (n, m) ∈ computePrices powers votes claims) :
    weightedMedian (priceReports powers votes claims n) = some m ∧
    n ∈ (priceContributions powers votes claims).map (·.1) := by
  unfold computePrices at h
  simp only at h
  rw [List.mem_filterMap] at h
  obtain ⟨n', hn', hm⟩ := h
  rw [Option.map_eq_some_iff] at hm
  obtain ⟨m', hm', heq⟩ := hm
  cases heq
  refine ⟨hm', ?_⟩
  exact List.mem_eraseDups.mp (mem_isort.mp hn')

/-- Every report entering a median is a value from the stored (latest) claim of a voter, weighted
    by that voter's non-zero normalised power — and every such value enters. -/
theorem mem_priceReports {powers : List (String × Nat)} {votes : List String}
    {claims : List (String × List (String × Int))} {n : String} {x : Int} {w : Nat} :
    (x, w) ∈ priceReports powers votes claims n ↔
      ∃ v ∈ votes, w = (alGet powers v).getD 0 ∧ w ≠ 0 ∧ (n, x) ∈ (alGet claims v).getD [] := by
  unfold priceReports priceContributions
  simp only [List.mem_map, List.mem_filter, List.mem_flatMap]
  constructor
  · rintro ⟨⟨n', x', w'⟩, ⟨⟨v, hv, hin⟩, hn⟩, heq⟩
    simp only [Prod.mk.injEq] at heq
    obtain ⟨rfl, rfl⟩ := heq
    have hn' : n' = n := by simpa using hn
    subst hn'
    split at hin
    · cases hin
    · rename_i hp
      obtain ⟨item, hitem, hi⟩ := List.mem_map.mp hin
      simp only [Prod.mk.injEq] at hi
      obtain ⟨h1, h2, h3⟩ := hi
      refine ⟨v, hv, h3.symm, ?_, ?_⟩
      · rw [← h3]; simpa using hp
      · rw [← h1, ← h2]; exact hitem
  · rintro ⟨v, hv, hw, hw0, hmem⟩
    refine ⟨(n, x, w), ⟨⟨v, hv, ?_⟩, by simp⟩, rfl⟩
    have hp : ¬ (((alGet powers v).getD 0 == 0) = true) := by rw [← hw]; simpa using hw0
    rw [if_neg hp]
    exact List.mem_map.mpr ⟨(n, x), hmem, by rw [hw]⟩

/-! ### What an epoch can do to prices and holders -/

theorem processEpoch_prices {h : Hub} {o o' : OracleSt} {n a d : Int}
    (hok : oracleProcessEpoch h o n a d = .ok o') :
    o'.prices = o.prices ∨
    (o.priceVotes ≠ [] ∧ oracleReached h n a d o.priceVotes = true ∧
      ∃ pw, h.normalizedPowers = .ok pw ∧ o'.prices = computePrices pw o.priceVotes o.priceClaims) := by
  obtain ⟨o1, h1, h2⟩ := oracleProcessEpoch_ok hok
  obtain ⟨_, hp, _⟩ := oracleHolderPhase_ok h2
  obtain ⟨_, _, _, _, _, hc⟩ := oraclePricePhase_ok h1
  rw [hp]
  rcases hc with ⟨_, rfl⟩ | ⟨hne, _, ⟨_, hpr⟩ | ⟨hr, pw, hpw, hpr⟩⟩
  · exact Or.inl rfl
  · exact Or.inl hpr
  · exact Or.inr ⟨hne, hr, pw, hpw, hpr⟩

theorem processEpoch_holders {h : Hub} {o o' : OracleSt} {n a d : Int}
    (hok : oracleProcessEpoch h o n a d = .ok o') :
    o'.holders = o.holders ∨
    (o.holderVotes ≠ [] ∧ oracleReached h n a d o.holderVotes = true ∧
      ∃ pw, h.normalizedPowers = .ok pw ∧
        computeHolders pw o.holderVotes o.holderClaims = some o'.holders) := by
  obtain ⟨o1, h1, h2⟩ := oracleProcessEpoch_ok hok
  obtain ⟨_, hh, hhc, hhv, _, _⟩ := oraclePricePhase_ok h1
  obtain ⟨_, _, _, _, _, hc⟩ := oracleHolderPhase_ok h2
  rw [← hh]
  rcases hc with ⟨_, rfl⟩ | ⟨hne, _, ⟨_, hpr⟩ | ⟨hr, pw, hpw, ⟨_, hpr⟩ | hch⟩⟩
  · exact Or.inl rfl
  · exact Or.inl hpr
  · exact Or.inl hpr
  · right
    rw [hhv] at hne hr hch
    rw [hhc] at hch
    exact ⟨hne, hr, pw, hpw, hch⟩

theorem processEpoch_frame {h : Hub} {o o' : OracleSt} {n a d : Int}
    (hok : oracleProcessEpoch h o n a d = .ok o') :
    o'.epoch = o.epoch + 1 ∧ o'.priceVotes = [] ∧ o'.holderVotes = [] := by
  obtain ⟨o1, h1, h2⟩ := oracleProcessEpoch_ok hok
  obtain ⟨he1, _, _, _, hpv, _⟩ := oraclePricePhase_ok h1
  obtain ⟨he2, _, _, hpv2, hhv, _⟩ := oracleHolderPhase_ok h2
  exact ⟨by rw [he2, he1], by rw [hpv2, hpv], hhv⟩

theorem endBlock_cases {h : Hub} {o o' : OracleSt} {n a d : Int}
    (hok : oracleEndBlock h o n a d = .ok o') :
    (h.height % 5 ≠ 0 ∧ o' = o) ∨ (h.height % 5 = 0 ∧ oracleProcessEpoch h o n a d = .ok o') := by
  unfold oracleEndBlock at hok
  split at hok
  · rename_i hh; exact Or.inr ⟨by simpa using hh, hok⟩
  · rename_i hh; cases hok; exact Or.inl ⟨by simpa using hh, rfl⟩

/-- The stored price list is exactly: one entry per reported name, holding the weighted median
    of the reports for that name. -/
theorem mem_computePrices_iff {powers : List (String × Nat)} {votes : List String}
    {claims : List (String × List (String × Int))} {n : String} {m : Int} :
    (n, m) ∈ computePrices powers votes claims ↔
      (n ∈ (priceContributions powers votes claims).map (·.1) ∧
       weightedMedian (priceReports powers votes claims n) = some m) := by
  constructor
  · intro h; exact ⟨(mem_computePrices h).2, (mem_computePrices h).1⟩
  · rintro ⟨hn, hm⟩
    unfold computePrices
    simp only
    rw [List.mem_filterMap]
    refine ⟨n, mem_isort.mpr (List.mem_eraseDups.mpr hn), ?_⟩
    rw [Option.map_eq_some_iff]
    exact ⟨m, hm, rfl⟩

/-- Multiplicity in the expanded list: the total weight reported for that value. -/
theorem count_expandWeighted (l : List (Int × Nat)) (x : Int) :
    (expandWeighted l).count x = sumNats ((l.filter fun p => p.1 == x).map (·.2)) := by
  induction l with
  | nil => rfl
  | cons p t ih =>
    obtain ⟨v, w⟩ := p
    rw [expandWeighted_cons, List.count_append, List.count_replicate, ih, List.filter_cons]
    by_cases h : v = x
    · subst h; simp [sumNats_cons]
    · have : (v == x) = false := by simpa using h
      simp [this]

theorem count_medianList (l : List (Int × Nat)) (x : Int) :
    (medianList l).count x = sumNats ((l.filter fun p => p.1 == x).map (·.2)) := by
  rw [(medianList_perm l).count_eq, count_expandWeighted]

/-- A sorted list is monotone in the index. -/
theorem sorted_getElem_le {e : List Int} (hs : e.Pairwise (· ≤ ·)) {i j : Nat} (hij : i ≤ j)
    (hj : j < e.length) : e[i]'(by omega) ≤ e[j] := by
  by_cases h : i = j
  · subst h; exact Int.le_refl _
  · exact (List.pairwise_iff_getElem.mp hs) i j (by omega) hj (by omega)

/-! ### Forward direction of the epoch lemmas -/

theorem processEpoch_prices_reached {h : Hub} {o o' : OracleSt} {n a d : Int}
    (hok : oracleProcessEpoch h o n a d = .ok o') (hne : o.priceVotes ≠ [])
    (hr : oracleReached h n a d o.priceVotes = true) :
    ∃ pw, h.normalizedPowers = .ok pw ∧ o'.prices = computePrices pw o.priceVotes o.priceClaims := by
  obtain ⟨o1, h1, h2⟩ := oracleProcessEpoch_ok hok
  obtain ⟨_, hp, _⟩ := oracleHolderPhase_ok h2
  obtain ⟨_, _, _, _, _, hc⟩ := oraclePricePhase_ok h1
  rw [hp]
  rcases hc with ⟨he, _⟩ | ⟨_, _, ⟨hf, _⟩ | ⟨_, pw, hpw, hpr⟩⟩
  · exact absurd he hne
  · have hr' : oracleReached h n a d o.priceVotes = true := hr
    have hf' : oracleReached h n a d o.priceVotes = false := hf
    rw [hr'] at hf'; cases hf'
  · exact ⟨pw, hpw, hpr⟩

/-! ### Runs of claims within one epoch: the latest report, counted once -/

/-- The bookkeeping done for a counted claim. -/
def recordClaim {β : Type} (s : List (String × β) × List String) (m : String × β) :
    List (String × β) × List String :=
  (alSet s.1 m.1 m.2, addVoteOnce s.2 m.1)

theorem recordClaims_get {β : Type} (ms : List (String × β)) (s : List (String × β) × List String)
    (v : String) :
    alGet (ms.foldl recordClaim s).1 v =
      match (ms.filter (·.1 == v)).getLast? with
      | some m => some m.2
      | none => alGet s.1 v := by
  induction ms generalizing s with
  | nil => rfl
  | cons m t ih =>
    rw [List.foldl_cons, ih, List.filter_cons]
    by_cases hm : m.1 = v
    · have hb : (m.1 == v) = true := by simpa using hm
      rw [if_pos hb]
      cases ht : t.filter (·.1 == v) with
      | nil =>
        simp only [List.getLast?_nil, List.getLast?_singleton]
        subst hm
        exact alGet_alSet_same _ _ _
      | cons x xs =>
        rw [List.getLast?_cons_cons, List.getLast?_eq_some_getLast (List.cons_ne_nil x xs)]
    · have hb : ¬ ((m.1 == v) = true) := by simpa using hm
      rw [if_neg hb]
      cases ht : (t.filter (·.1 == v)).getLast? with
      | none => exact alGet_alSet_other _ _ _ _ hm
      | some x => rfl

theorem recordClaims_mem {β : Type} (ms : List (String × β)) (s : List (String × β) × List String)
    (v : String) :
    v ∈ (ms.foldl recordClaim s).2 ↔ v ∈ s.2 ∨ ∃ m ∈ ms, m.1 = v := by
  induction ms generalizing s with
  | nil => simp
  | cons m t ih =>
    rw [List.foldl_cons, ih]
    simp only [recordClaim, mem_addVoteOnce, List.mem_cons]
    constructor
    · rintro ((h | h) | ⟨x, hx, hxv⟩)
      · exact Or.inl h
      · exact Or.inr ⟨m, Or.inl rfl, h.symm⟩
      · exact Or.inr ⟨x, Or.inr hx, hxv⟩
    · rintro (h | ⟨x, hx | hx, hxv⟩)
      · exact Or.inl (Or.inl h)
      · subst hx; exact Or.inl (Or.inr hxv.symm)
      · exact Or.inr ⟨x, hx, hxv⟩

theorem recordClaims_nodup {β : Type} (ms : List (String × β)) (s : List (String × β) × List String)
    (h : s.2.Nodup) : (ms.foldl recordClaim s).2.Nodup := by
  induction ms generalizing s with
  | nil => exact h
  | cons m t ih => rw [List.foldl_cons]; exact ih _ (addVoteOnce_nodup _ h)

/-- A price-claim message `(validator, epoch, prices)`. -/
abbrev PriceMsg := String × Nat × List (String × Int)

/-- Is the message counted in epoch `ep`?  (The conditions of `oraclePriceClaim`.) -/
def priceClaimCounts (h : Hub) (ep : Nat) (m : PriceMsg) : Bool :=
  !(m.2.1 == 0) && !((m.2.2.map (·.1)).eraseDups.length != m.2.2.length) &&
  !(h.validator? m.1).isNone && !(ep != m.2.1) &&
  (requiredPriceNames h).all (fun n => m.2.2.any fun p => p.1 == n && p.2 > 0)

/-- Delivery of one message: a rejected transaction leaves the state alone. -/
def priceClaimStep (h : Hub) (o : OracleSt) (m : PriceMsg) : OracleSt :=
  match oraclePriceClaim h o m.1 m.2.1 m.2.2 with
  | .ok o' => o'
  | .error _ => o

theorem priceClaimStep_eq (h : Hub) (o : OracleSt) (m : PriceMsg) :
    priceClaimStep h o m =
      if priceClaimCounts h o.epoch m then
        { o with priceClaims := alSet o.priceClaims m.1 m.2.2, priceVotes := addVoteOnce o.priceVotes m.1 }
      else o := by
  unfold priceClaimStep oraclePriceClaim priceClaimCounts
  simp only [bind, Except.bind, pure, Except.pure, failM]
  by_cases h1 : (m.2.1 == 0) = true
  · simp [h1]
  · by_cases h2 : ((m.2.2.map (·.1)).eraseDups.length != m.2.2.length) = true
    · simp [h1, h2]
    · by_cases h3 : (h.validator? m.1).isNone = true
      · simp [h1, h2, h3]
      · by_cases h4 : (o.epoch != m.2.1) = true
        · simp [h1, h2, h3, h4]
        · by_cases h5 : ((requiredPriceNames h).all fun n => m.2.2.any fun p => p.1 == n && p.2 > 0) = true
          · simp [h1, h2, h3, h4, h5]
          · simp [h1, h2, h3, h4, h5]

/-- Delivery of a sequence of price-claim messages. -/
def priceClaimRun (h : Hub) (o : OracleSt) (msgs : List PriceMsg) : OracleSt :=
  msgs.foldl (priceClaimStep h) o

theorem priceClaimStep_epoch (h : Hub) (o : OracleSt) (m : PriceMsg) :
    (priceClaimStep h o m).epoch = o.epoch := by
  rw [priceClaimStep_eq]; split <;> rfl

/-- A run of claims is the bookkeeping of its counted messages, in order; nothing else moves. -/
theorem priceClaimRun_eq (h : Hub) (o : OracleSt) (msgs : List PriceMsg) :
    priceClaimRun h o msgs =
      { o with
        priceClaims := (((msgs.filter (priceClaimCounts h o.epoch)).map fun m => (m.1, m.2.2)).foldl
          recordClaim (o.priceClaims, o.priceVotes)).1,
        priceVotes := (((msgs.filter (priceClaimCounts h o.epoch)).map fun m => (m.1, m.2.2)).foldl
          recordClaim (o.priceClaims, o.priceVotes)).2 } := by
  unfold priceClaimRun
  induction msgs generalizing o with
  | nil => rfl
  | cons m t ih =>
    rw [List.foldl_cons, ih, priceClaimStep_epoch, List.filter_cons]
    rw [priceClaimStep_eq]
    by_cases hc : priceClaimCounts h o.epoch m = true
    · simp only [hc, if_true, List.map_cons, List.foldl_cons]
      rfl
    · simp only [hc]
      rfl

/-- **Latest report, counted once.**  Starting an epoch with an empty vote list and delivering
    any sequence of price claims (for any epochs, valid or not, repeated or not): the vote list
    holds exactly the validators with a counted message, each once, and the claim stored for a
    voter is the prices of its *last* counted message. -/
theorem priceClaimRun_latest (h : Hub) (o : OracleSt) (msgs : List PriceMsg)
    (hstart : o.priceVotes = []) :
    (priceClaimRun h o msgs).priceVotes.Nodup ∧
    (priceClaimRun h o msgs).prices = o.prices ∧ (priceClaimRun h o msgs).holders = o.holders ∧
    (priceClaimRun h o msgs).epoch = o.epoch ∧
    ∀ v, (v ∈ (priceClaimRun h o msgs).priceVotes ↔
            ∃ m ∈ msgs, m.1 = v ∧ priceClaimCounts h o.epoch m = true) ∧
         (v ∈ (priceClaimRun h o msgs).priceVotes →
            ∃ m, (msgs.filter fun m => priceClaimCounts h o.epoch m && m.1 == v).getLast? = some m ∧
              alGet (priceClaimRun h o msgs).priceClaims v = some m.2.2) := by
  rw [priceClaimRun_eq]
  refine ⟨recordClaims_nodup _ _ (by rw [hstart]; exact List.nodup_nil), rfl, rfl, rfl, ?_⟩
  intro v
  have hmem : v ∈ (((msgs.filter (priceClaimCounts h o.epoch)).map fun m => (m.1, m.2.2)).foldl
      recordClaim (o.priceClaims, o.priceVotes)).2 ↔
      ∃ m ∈ msgs, m.1 = v ∧ priceClaimCounts h o.epoch m = true := by
    rw [recordClaims_mem]
    simp only [hstart, List.not_mem_nil, false_or, List.mem_map, List.mem_filter]
    constructor
    · rintro ⟨x, ⟨m, ⟨hm, hc⟩, rfl⟩, hv⟩
      exact ⟨m, hm, hv, hc⟩
    · rintro ⟨m, hm, hv, hc⟩
      exact ⟨(m.1, m.2.2), ⟨m, ⟨hm, hc⟩, rfl⟩, hv⟩
  refine ⟨hmem, ?_⟩
  intro hv
  obtain ⟨m0, hm0, hm0v, hm0c⟩ := hmem.mp hv
  show ∃ m : PriceMsg, _ ∧ alGet (((msgs.filter (priceClaimCounts h o.epoch)).map fun m => (m.1, m.2.2)).foldl
      recordClaim (o.priceClaims, o.priceVotes)).1 v = some m.2.2
  rw [recordClaims_get]
  have hfm : (((msgs.filter (priceClaimCounts h o.epoch)).map fun m => (m.1, m.2.2)).filter (·.1 == v))
      = (msgs.filter fun m => priceClaimCounts h o.epoch m && m.1 == v).map fun m => (m.1, m.2.2) := by
    rw [List.filter_map, List.filter_filter]
    congr 1
    apply List.filter_congr
    intro x _
    simp [Bool.and_comm]
  rw [hfm, List.getLast?_map]
  have hne : (msgs.filter fun m => priceClaimCounts h o.epoch m && m.1 == v) ≠ [] := by
    intro he
    have : m0 ∈ msgs.filter fun m => priceClaimCounts h o.epoch m && m.1 == v :=
      List.mem_filter.mpr ⟨hm0, by simp [hm0c, hm0v]⟩
    rw [he] at this; cases this
  refine ⟨_, List.getLast?_eq_some_getLast hne, ?_⟩
  rw [List.getLast?_eq_some_getLast hne]
  rfl

/-- A holders-claim message `(validator, epoch, holders)`. -/
abbrev HoldersMsg := String × Nat × List (String × Int)

/-- Is the message counted in epoch `ep`?  (The conditions of `oracleHoldersClaim`.) -/
def holdersClaimCounts (h : Hub) (ep : Nat) (m : HoldersMsg) : Bool :=
  !(m.2.1 == 0) && lowerNoDup (m.2.2.map (·.1)) && !(h.validator? m.1).isNone && !(ep != m.2.1)

/-- Delivery of one message: a rejected transaction leaves the state alone. -/
def holdersClaimStep (h : Hub) (o : OracleSt) (m : HoldersMsg) : OracleSt :=
  match oracleHoldersClaim h o m.1 m.2.1 m.2.2 with
  | .ok o' => o'
  | .error _ => o

theorem holdersClaimStep_eq (h : Hub) (o : OracleSt) (m : HoldersMsg) :
    holdersClaimStep h o m =
      if holdersClaimCounts h o.epoch m then
        { o with holderClaims := alSet o.holderClaims m.1 m.2.2, holderVotes := addVoteOnce o.holderVotes m.1 }
      else o := by
  unfold holdersClaimStep oracleHoldersClaim holdersClaimCounts
  simp only [bind, Except.bind, pure, Except.pure, failM]
  by_cases h1 : (m.2.1 == 0) = true
  · simp [h1]
  · by_cases h2 : lowerNoDup (m.2.2.map (·.1)) = true
    · by_cases h3 : (h.validator? m.1).isNone = true
      · simp [h1, h2, h3]
      · by_cases h4 : (o.epoch != m.2.1) = true
        · simp [h1, h2, h3, h4]
        · simp [h1, h2, h3, h4]
    · simp [h1, h2]

/-- Delivery of a sequence of holders-claim messages. -/
def holdersClaimRun (h : Hub) (o : OracleSt) (msgs : List HoldersMsg) : OracleSt :=
  msgs.foldl (holdersClaimStep h) o

theorem holdersClaimStep_epoch (h : Hub) (o : OracleSt) (m : HoldersMsg) :
    (holdersClaimStep h o m).epoch = o.epoch := by
  rw [holdersClaimStep_eq]; split <;> rfl

/-- A run of claims is the bookkeeping of its counted messages, in order; nothing else moves. -/
theorem holdersClaimRun_eq (h : Hub) (o : OracleSt) (msgs : List HoldersMsg) :
    holdersClaimRun h o msgs =
      { o with
        holderClaims := (((msgs.filter (holdersClaimCounts h o.epoch)).map fun m => (m.1, m.2.2)).foldl
          recordClaim (o.holderClaims, o.holderVotes)).1,
        holderVotes := (((msgs.filter (holdersClaimCounts h o.epoch)).map fun m => (m.1, m.2.2)).foldl
          recordClaim (o.holderClaims, o.holderVotes)).2 } := by
  unfold holdersClaimRun
  induction msgs generalizing o with
  | nil => rfl
  | cons m t ih =>
    rw [List.foldl_cons, ih, holdersClaimStep_epoch, List.filter_cons]
    rw [holdersClaimStep_eq]
    by_cases hc : holdersClaimCounts h o.epoch m = true
    · simp only [hc, if_true, List.map_cons, List.foldl_cons]
      rfl
    · simp only [hc]
      rfl

/-- **Latest report, counted once.**  Starting an epoch with an empty vote list and delivering
    any sequence of holders claims (for any epochs, valid or not, repeated or not): the vote list
    holds exactly the validators with a counted message, each once, and the claim stored for a
    voter is the list of its *last* counted message. -/
theorem holdersClaimRun_latest (h : Hub) (o : OracleSt) (msgs : List HoldersMsg)
    (hstart : o.holderVotes = []) :
    (holdersClaimRun h o msgs).holderVotes.Nodup ∧
    (holdersClaimRun h o msgs).prices = o.prices ∧ (holdersClaimRun h o msgs).holders = o.holders ∧
    (holdersClaimRun h o msgs).epoch = o.epoch ∧
    ∀ v, (v ∈ (holdersClaimRun h o msgs).holderVotes ↔
            ∃ m ∈ msgs, m.1 = v ∧ holdersClaimCounts h o.epoch m = true) ∧
         (v ∈ (holdersClaimRun h o msgs).holderVotes →
            ∃ m, (msgs.filter fun m => holdersClaimCounts h o.epoch m && m.1 == v).getLast? = some m ∧
              alGet (holdersClaimRun h o msgs).holderClaims v = some m.2.2) := by
  rw [holdersClaimRun_eq]
  refine ⟨recordClaims_nodup _ _ (by rw [hstart]; exact List.nodup_nil), rfl, rfl, rfl, ?_⟩
  intro v
  have hmem : v ∈ (((msgs.filter (holdersClaimCounts h o.epoch)).map fun m => (m.1, m.2.2)).foldl
      recordClaim (o.holderClaims, o.holderVotes)).2 ↔
      ∃ m ∈ msgs, m.1 = v ∧ holdersClaimCounts h o.epoch m = true := by
    rw [recordClaims_mem]
    simp only [hstart, List.not_mem_nil, false_or, List.mem_map, List.mem_filter]
    constructor
    · rintro ⟨x, ⟨m, ⟨hm, hc⟩, rfl⟩, hv⟩
      exact ⟨m, hm, hv, hc⟩
    · rintro ⟨m, hm, hv, hc⟩
      exact ⟨(m.1, m.2.2), ⟨m, ⟨hm, hc⟩, rfl⟩, hv⟩
  refine ⟨hmem, ?_⟩
  intro hv
  obtain ⟨m0, hm0, hm0v, hm0c⟩ := hmem.mp hv
  show ∃ m : HoldersMsg, _ ∧ alGet (((msgs.filter (holdersClaimCounts h o.epoch)).map fun m => (m.1, m.2.2)).foldl
      recordClaim (o.holderClaims, o.holderVotes)).1 v = some m.2.2
  rw [recordClaims_get]
  have hfm : (((msgs.filter (holdersClaimCounts h o.epoch)).map fun m => (m.1, m.2.2)).filter (·.1 == v))
      = (msgs.filter fun m => holdersClaimCounts h o.epoch m && m.1 == v).map fun m => (m.1, m.2.2) := by
    rw [List.filter_map, List.filter_filter]
    congr 1
    apply List.filter_congr
    intro x _
    simp [Bool.and_comm]
  rw [hfm, List.getLast?_map]
  have hne : (msgs.filter fun m => holdersClaimCounts h o.epoch m && m.1 == v) ≠ [] := by
    intro he
    have : m0 ∈ msgs.filter fun m => holdersClaimCounts h o.epoch m && m.1 == v :=
      List.mem_filter.mpr ⟨hm0, by simp [hm0c, hm0v]⟩
    rw [he] at this; cases this
  refine ⟨_, List.getLast?_eq_some_getLast hne, ?_⟩
  rw [List.getLast?_eq_some_getLast hne]
  rfl

theorem priceClaimCounts_iff (h : Hub) (ep : Nat) (m : PriceMsg) :
    priceClaimCounts h ep m = true ↔
      m.2.1 ≠ 0 ∧ (m.2.2.map (·.1)).eraseDups.length = m.2.2.length ∧ (h.validator? m.1).isSome ∧
      m.2.1 = ep ∧ ∀ n ∈ requiredPriceNames h, ∃ p ∈ m.2.2, p.1 = n ∧ p.2 > 0 := by
  unfold priceClaimCounts
  simp only [Bool.and_eq_true, Bool.not_eq_true', beq_eq_false_iff_ne, bne_eq_false_iff_eq,
    List.all_eq_true, List.any_eq_true, decide_eq_true_eq, beq_iff_eq]
  constructor
  · rintro ⟨⟨⟨⟨h1, h2⟩, h3⟩, h4⟩, h5⟩
    exact ⟨h1, h2, by cases hv : h.validator? m.1 <;> simp_all, h4.symm, h5⟩
  · rintro ⟨h1, h2, h3, h4, h5⟩
    exact ⟨⟨⟨⟨h1, h2⟩, by cases hv : h.validator? m.1 <;> simp_all⟩, h4.symm⟩, h5⟩

theorem holdersClaimCounts_iff (h : Hub) (ep : Nat) (m : HoldersMsg) :
    holdersClaimCounts h ep m = true ↔
      m.2.1 ≠ 0 ∧ lowerNoDup (m.2.2.map (·.1)) = true ∧ (h.validator? m.1).isSome ∧ m.2.1 = ep := by
  unfold holdersClaimCounts
  simp only [Bool.and_eq_true, Bool.not_eq_true', beq_eq_false_iff_ne, bne_eq_false_iff_eq]
  constructor
  · rintro ⟨⟨⟨h1, h2⟩, h3⟩, h4⟩
    exact ⟨h1, h2, by cases hv : h.validator? m.1 <;> simp_all, h4.symm⟩
  · rintro ⟨h1, h2, h3, h4⟩
    exact ⟨⟨⟨h1, h2⟩, by cases hv : h.validator? m.1 <;> simp_all⟩, h4.symm⟩

/-- A message is counted exactly when the model accepts it for the current epoch. -/
theorem priceClaimCounts_iff_ok (h : Hub) (o : OracleSt) (m : PriceMsg) :
    priceClaimCounts h o.epoch m = true ↔
      (m.2.1 = o.epoch ∧ ∃ o', oraclePriceClaim h o m.1 m.2.1 m.2.2 = .ok o') := by
  constructor
  · intro hc
    refine ⟨((priceClaimCounts_iff h o.epoch m).mp hc).2.2.2.1, ?_⟩
    cases hr : oraclePriceClaim h o m.1 m.2.1 m.2.2 with
    | ok o' => exact ⟨o', rfl⟩
    | error e =>
      exfalso
      unfold oraclePriceClaim at hr
      obtain ⟨h1, h2, h3, h4, h5⟩ := (priceClaimCounts_iff h o.epoch m).mp hc
      have h5' : ((requiredPriceNames h).all fun n => m.2.2.any fun p => p.1 == n && decide (p.2 > 0)) = true := by
        rw [List.all_eq_true]; intro n hn
        obtain ⟨p, hp, hpn, hpp⟩ := h5 n hn
        rw [List.any_eq_true]; exact ⟨p, hp, by simp [hpn, hpp]⟩
      have h3' : (h.validator? m.1).isNone = false := by
        cases hv : h.validator? m.1 <;> simp_all
      have h1' : o.epoch ≠ 0 := h4 ▸ h1
      simp [pure, Except.pure, h1', h2, h3', h4, h5'] at hr
  · rintro ⟨he, o', hok⟩
    obtain ⟨h1, h2, hc⟩ := oraclePriceClaim_ok hok
    by_cases hcnt : priceClaimCounts h o.epoch m = true
    · exact hcnt
    · exfalso
      rcases hc with ⟨hne, _⟩ | ⟨_, hreq, _⟩
      · exact hne he.symm
      · -- every condition holds except possibly the duplicate-name check, which the model
        -- performs before accepting
        unfold oraclePriceClaim at hok
        unfold priceClaimCounts at hcnt
        by_cases hd : ((m.2.2.map (·.1)).eraseDups.length != m.2.2.length) = true
        · have h1' : (m.2.1 == 0) = false := by simpa using h1
          simp [bind, Except.bind, failM, h1', hd] at hok
        · have h3' : (h.validator? m.1).isNone = false := by
            cases hv : h.validator? m.1 <;> simp_all
          have h1' : (m.2.1 == 0) = false := by simpa using h1
          have h4' : (o.epoch != m.2.1) = false := by simp [he]
          simp [h1', hd, h3', h4', hreq] at hcnt

theorem le_totalWeight_of_mem {l : List (Int × Nat)} {p : Int × Nat} (h : p ∈ l) : p.2 ≤ totalWeight l := by
  induction l with
  | nil => cases h
  | cons q t ih =>
    obtain ⟨v, w⟩ := q
    rw [totalWeight_cons]
    rcases List.mem_cons.mp h with h | h
    · subst h; exact Nat.le_add_right _ _
    · have := ih h; omega

end Mhub2
