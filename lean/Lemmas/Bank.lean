import Mhub2.Ledger
import Lemmas.Assoc
import Lemmas.Arith
namespace Mhub2

theorem mintTo_ok {h h' : Hub} {acc d : String} {amt : Int} (hm : h.mintTo acc d amt = .ok h') :
    0 < amt ∧ h'.balance acc d = h.balance acc d + amt ∧ h'.supplyOf d = h.supplyOf d + amt
    ∧ h'.cs = h.cs ∧ h'.tokens = h.tokens ∧ h'.status = h.status := by
  unfold Hub.mintTo at hm
  split at hm
  · simp [failM] at hm
  · simp at hm
    subst hm
    refine ⟨by omega, ?_, ?_, rfl, rfl, rfl⟩
    · simp [Hub.balance, Hub.credit]
    · simp [Hub.supplyOf]

theorem burnFrom_ok {h h' : Hub} {acc d : String} {amt : Int} (hm : h.burnFrom acc d amt = .ok h') :
    0 < amt ∧ amt ≤ h.balance acc d ∧ h'.balance acc d = h.balance acc d - amt
    ∧ h'.supplyOf d = h.supplyOf d - amt ∧ h'.cs = h.cs ∧ h'.tokens = h.tokens
    ∧ h'.time = h.time ∧ h'.status = h.status := by
  unfold Hub.burnFrom at hm
  split at hm
  · simp [failM] at hm
  · split at hm
    · simp [failM] at hm
    · simp at hm
      subst hm
      refine ⟨by omega, by omega, ?_, ?_, rfl, rfl, rfl, rfl⟩
      · simp [Hub.balance, Hub.credit]; omega
      · simp [Hub.supplyOf]

theorem mem_insertByKey {α : Type} (key : α → Bytes) (x : α) (l : List α) : x ∈ insertByKey key x l := by
  induction l with
  | nil => simp [insertByKey]
  | cons y ys ih =>
    unfold insertByKey
    split
    · simp
    · split
      · simp [ih]
      · simp

@[simp] theorem setStatus_bal (h : Hub) (tx : String) (st : Nat) (o : String) :
    (h.setStatus tx st o).bal = h.bal := rfl
@[simp] theorem setStatus_supply (h : Hub) (tx : String) (st : Nat) (o : String) :
    (h.setStatus tx st o).supply = h.supply := rfl
@[simp] theorem setChain_bal (h : Hub) (c : String) (s : ChainSt) : (h.setChain c s).bal = h.bal := rfl
@[simp] theorem setChain_supply (h : Hub) (c : String) (s : ChainSt) : (h.setChain c s).supply = h.supply := rfl

theorem chain_setChain (h : Hub) (c : String) (s : ChainSt) : (h.setChain c s).chain c = s := by
  simp [Hub.chain, Hub.setChain]

/-- Well-formed token table: a (chain, external id) pair names one token. -/
def Hub.TokensWF (h : Hub) : Prop :=
  ∀ t1 ∈ h.tokens, ∀ t2 ∈ h.tokens, t1.chain = t2.chain → t1.extId = t2.extId → t1 = t2

theorem tokenByExt_of_mem {h : Hub} (hwf : h.TokensWF) {tok : TokenInfo} (hm : tok ∈ h.tokens) :
    h.tokenByExt tok.chain tok.extId = some tok := by
  unfold Hub.tokenByExt
  cases hf : h.tokens.find? (fun t => t.chain == tok.chain && t.extId == tok.extId) with
  | none =>
    have := List.find?_eq_none.mp hf tok hm
    simp at this
  | some t =>
    have hp := List.find?_some hf
    have hmem := List.mem_of_find?_eq_some hf
    simp at hp
    rw [hwf t hmem tok hm hp.1 hp.2]

theorem tokenByDenom_some {h : Hub} {chain denom : String} {tok : TokenInfo}
    (ht : h.tokenByDenom chain denom = some tok) : tok ∈ h.tokens ∧ tok.chain = chain ∧ tok.denom = denom := by
  unfold Hub.tokenByDenom at ht
  have hp := List.find?_some ht
  simp at hp
  exact ⟨List.mem_of_find?_eq_some ht, hp.2, hp.1⟩

end Mhub2
