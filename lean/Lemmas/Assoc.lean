import Mhub2.Basic
namespace Mhub2

variable {κ ν : Type} [BEq κ] [LawfulBEq κ]

@[simp] theorem alGet_alSet_same (l : List (κ × ν)) (k : κ) (v : ν) :
    alGet (alSet l k v) k = some v := by
  induction l with
  | nil => simp [alSet, alGet]
  | cons p t ih =>
    obtain ⟨k', v'⟩ := p
    unfold alSet
    by_cases h : k' == k
    · simp [h, alGet]
    · simp [h, alGet, ih]

theorem alGet_alSet_other (l : List (κ × ν)) (k k2 : κ) (v : ν) (hne : k ≠ k2) :
    alGet (alSet l k v) k2 = alGet l k2 := by
  induction l with
  | nil =>
    simp [alSet, alGet]
    intro h; exact absurd h hne
  | cons p t ih =>
    obtain ⟨k', v'⟩ := p
    unfold alSet
    by_cases h : k' == k
    · have hk : k' = k := by simpa using h
      subst hk
      simp [alGet]
      have : (k' == k2) = false := by simpa using hne
      simp [this]
    · simp [h, alGet, ih]

end Mhub2
