/-
  Helper lemmas for the value conservation law (C01): decimal conversions never create value,
  sums over the in-flight transfers of a token, the invariant bundle `Hub.VInv`, the relation
  `VRel` ("one step that changes the value of a denom by at most δ and keeps the invariant")
  and its instances for every keeper function.  Used by Props/C01.lean.
-/
import Mhub2.Value
import Lemmas.Ledger
import Lemmas.Fees
set_option linter.unusedSimpArgs false
set_option linter.unusedVariables false
namespace Mhub2

/-! ### A. Conversions in common units -/

theorem unitOf_pos (d : Nat) : 0 < unitOf d := pow10_pos _

theorem unitOf_hub : unitOf hubDecimals = unitOf 18 := rfl

/-- For `d ≤ 18`: one external unit is `10^(18-d)` hub units. -/
theorem unitOf_le18 {d : Nat} (hd : d ≤ 18) : unitOf d = pow10 (18 - d) * unitOf 18 := by
  unfold unitOf commonDec
  have h : 18 - d ≤ 36 - d := by omega
  rw [pow10_split h]
  congr 2
  omega

/-- For `18 ≤ d ≤ 36`: one hub unit is `10^(d-18)` external units. -/
theorem unitOf_ge18 {d : Nat} (hd : 18 ≤ d) (hd2 : d ≤ 36) : unitOf 18 = pow10 (d - 18) * unitOf d := by
  unfold unitOf commonDec
  have h : d - 18 ≤ 36 - 18 := by omega
  rw [pow10_split h]
  congr 2
  omega

theorem floor_mul_le (a : Int) {m u : Int} (hm : 0 < m) (hu : 0 < u) : a / m * (m * u) ≤ a * u := by
  rw [← Int.mul_assoc]
  exact Int.mul_le_mul_of_nonneg_right (Int.ediv_mul_le a (Int.ne_of_gt hm)) (Int.le_of_lt hu)

/-- Hub → external conversion never creates value. -/
theorem toExt_value_le {d : Nat} (hd : d ≤ 36) (a : Int) : toExt d a * unitOf d ≤ a * unitOf 18 := by
  by_cases h : d < 18
  · rw [toExt_lt18 h, unitOf_le18 (Nat.le_of_lt h)]
    exact floor_mul_le a (pow10_pos _) (unitOf_pos _)
  · have h' : 18 ≤ d := by omega
    rw [toExt_ge18 h', unitOf_ge18 h' hd, Int.mul_assoc]
    exact Int.le_refl _

/-- … and is exact for tokens with at least 18 decimals. -/
theorem toExt_value_eq_of_ge {d : Nat} (h18 : 18 ≤ d) (hd : d ≤ 36) (a : Int) :
    toExt d a * unitOf d = a * unitOf 18 := by
  rw [toExt_ge18 h18, unitOf_ge18 h18 hd, Int.mul_assoc]

/-- … and for amounts that are multiples of the conversion factor. -/
theorem toExt_value_eq_of_dvd {d : Nat} (h18 : d < 18) (a : Int) (hdvd : pow10 (18 - d) ∣ a) :
    toExt d a * unitOf d = a * unitOf 18 := by
  rw [toExt_lt18 h18, unitOf_le18 (Nat.le_of_lt h18), ← Int.mul_assoc, Int.ediv_mul_cancel hdvd]

/-- External → hub conversion never creates value. -/
theorem fromExt_value_le {d : Nat} (hd : d ≤ 36) (a : Int) : fromExt d a * unitOf 18 ≤ a * unitOf d := by
  by_cases h : d ≤ 18
  · rw [fromExt_le18 h, unitOf_le18 h, Int.mul_assoc]
    exact Int.le_refl _
  · have h' : 18 < d := by omega
    rw [fromExt_gt18 h', unitOf_ge18 (Nat.le_of_lt h') hd]
    exact floor_mul_le a (pow10_pos _) (unitOf_pos _)

theorem fromExt_value_eq_of_le {d : Nat} (h18 : d ≤ 18) (a : Int) :
    fromExt d a * unitOf 18 = a * unitOf d := by
  rw [fromExt_le18 h18, unitOf_le18 h18, Int.mul_assoc]

theorem fromExt_value_eq_of_dvd {d : Nat} (h18 : 18 < d) (hd : d ≤ 36) (a : Int) (hdvd : pow10 (d - 18) ∣ a) :
    fromExt d a * unitOf 18 = a * unitOf d := by
  rw [fromExt_gt18 h18, unitOf_ge18 (Nat.le_of_lt h18) hd, ← Int.mul_assoc, Int.ediv_mul_cancel hdvd]

theorem toExt_nonneg (d : Nat) {a : Int} (ha : 0 ≤ a) : 0 ≤ toExt d a := by
  unfold toExt convertDecimals
  split
  · exact ha
  · exact Int.ediv_nonneg (Int.mul_nonneg ha (Int.le_of_lt (pow10_pos _))) (Int.le_of_lt (pow10_pos _))

theorem fromExt_nonneg (d : Nat) {a : Int} (ha : 0 ≤ a) : 0 ≤ fromExt d a := by
  unfold fromExt convertDecimals
  split
  · exact ha
  · exact Int.ediv_nonneg (Int.mul_nonneg ha (Int.le_of_lt (pow10_pos _))) (Int.le_of_lt (pow10_pos _))

/-- The three converted parts of a transfer together are worth at most what was burnt. -/
theorem toExt3_value_le {d : Nat} (hd : d ≤ 36) (a f c : Int) :
    (toExt d a + toExt d f + toExt d c) * unitOf d ≤ (a + f + c) * unitOf 18 := by
  have h1 := toExt_value_le hd a
  have h2 := toExt_value_le hd f
  have h3 := toExt_value_le hd c
  rw [Int.add_mul, Int.add_mul, Int.add_mul, Int.add_mul]
  omega

/-! ### Sums -/

theorem sumInts_append (a b : List Int) : sumInts (a ++ b) = sumInts a + sumInts b := by
  induction a with
  | nil => simp
  | cons x xs ih => simp only [List.cons_append, sumInts_cons, ih]; omega

theorem sumInts_perm {a b : List Int} (h : a.Perm b) : sumInts a = sumInts b := by
  induction h with
  | nil => rfl
  | cons x _ ih => simp only [sumInts_cons, ih]
  | swap x y l => simp only [sumInts_cons]; omega
  | trans _ _ ih1 ih2 => exact ih1.trans ih2

theorem sumInts_map_add {α : Type} (l : List α) (f g : α → Int) :
    sumInts (l.map fun x => f x + g x) = sumInts (l.map f) + sumInts (l.map g) := by
  induction l with
  | nil => simp
  | cons x xs ih => simp only [List.map_cons, sumInts_cons, ih]; omega

theorem sumInts_map_congr {α : Type} {l : List α} {f g : α → Int} (h : ∀ x ∈ l, g x = f x) :
    sumInts (l.map g) = sumInts (l.map f) := by
  rw [List.map_congr_left h]

/-- Sum of the totals of the transfers of one external token id in a list of transfers. -/
def tokSum (es : List Ste) (ext : String) : Int :=
  sumInts ((es.filter fun s => s.extToken == ext).map Ste.total)

theorem inflightOf_eq (h : Hub) (t : TokenInfo) :
    h.inflightOf t = tokSum (h.chain t.chain).entries t.extId * unitOf t.dec := rfl

@[simp] theorem tokSum_nil (ext : String) : tokSum [] ext = 0 := rfl

theorem tokSum_append (a b : List Ste) (ext : String) : tokSum (a ++ b) ext = tokSum a ext + tokSum b ext := by
  unfold tokSum
  rw [List.filter_append, List.map_append, sumInts_append]

theorem tokSum_perm {a b : List Ste} (h : a.Perm b) (ext : String) : tokSum a ext = tokSum b ext := by
  unfold tokSum
  exact sumInts_perm ((h.filter _).map _)

theorem tokSum_of_all {l : List Ste} {ext : String} (h : ∀ s ∈ l, s.extToken = ext) :
    tokSum l ext = sumInts (l.map Ste.total) := by
  unfold tokSum
  rw [List.filter_eq_self.mpr]
  intro s hs
  simp [h s hs]

theorem tokSum_of_none {l : List Ste} {ext : String} (h : ∀ s ∈ l, s.extToken ≠ ext) : tokSum l ext = 0 := by
  unfold tokSum
  rw [List.filter_eq_nil_iff.mpr]
  · rfl
  · intro s hs
    simp [h s hs]

theorem sumInts_total (l : List Ste) :
    sumInts (l.map Ste.total) = sumInts (l.map (·.amount)) + sumInts (l.map (·.fee)) + sumInts (l.map (·.comm)) := by
  have : l.map Ste.total = l.map (fun s => (s.amount + s.fee) + s.comm) := rfl
  rw [this, sumInts_map_add, sumInts_map_add]

/-- Changing a function at one point of a duplicate-free list changes the filtered sum by the
    change at that point. -/
theorem sum_filter_map_update {α : Type} {l : List α} (hnd : l.Nodup) (p : α → Bool) (f g : α → Int)
    {t0 : α} {δ : Int} (hmem : t0 ∈ l) (hne : ∀ t ∈ l, t ≠ t0 → g t = f t) (h0 : g t0 = f t0 + δ) :
    sumInts ((l.filter p).map g) = sumInts ((l.filter p).map f) + (if p t0 = true then δ else 0) := by
  induction l with
  | nil => cases hmem
  | cons x xs ih =>
    rw [List.nodup_cons] at hnd
    by_cases hx : x = t0
    · subst hx
      have hrest : sumInts ((xs.filter p).map g) = sumInts ((xs.filter p).map f) := by
        apply sumInts_map_congr
        intro y hy
        have hy' := (List.mem_filter.mp hy).1
        exact hne y (List.mem_cons_of_mem _ hy') (fun e => hnd.1 (e ▸ hy'))
      by_cases hp : p x = true
      · simp only [List.filter_cons, hp, if_true, List.map_cons, sumInts_cons, hrest, h0]; omega
      · have hp' : p x = false := by simpa using hp
        rw [List.filter_cons_of_neg (by simp [hp']), hrest]
        simp [hp']
    · have hm : t0 ∈ xs := by
        rcases List.mem_cons.mp hmem with h | h
        · exact absurd h.symm hx
        · exact h
      have := ih hnd.2 hm (fun t ht => hne t (List.mem_cons_of_mem _ ht))
      have hgx := hne x List.mem_cons_self hx
      by_cases hp : p x = true
      · simp only [List.filter_cons, hp, if_true, List.map_cons, sumInts_cons, this, hgx]; omega
      · have hp' : p x = false := by simpa using hp
        rw [List.filter_cons_of_neg (by simp [hp']), this]

/-! ### Token table lookups -/

theorem tokenByExt_some {h : Hub} {chain ext : String} {t : TokenInfo} (ht : h.tokenByExt chain ext = some t) :
    t ∈ h.tokens ∧ t.chain = chain ∧ t.extId = ext := by
  unfold Hub.tokenByExt at ht
  have hp := List.find?_some ht
  simp at hp
  exact ⟨List.mem_of_find?_eq_some ht, hp.1, hp.2⟩

theorem tokenByExt_mem {h : Hub} (hok : h.TokensOK) {t : TokenInfo} (hm : t ∈ h.tokens) :
    h.tokenByExt t.chain t.extId = some t :=
  tokenByExt_of_mem hok.ext_unique hm

theorem tokenById_mem {h : Hub} (hok : h.TokensOK) {t : TokenInfo} (hm : t ∈ h.tokens) :
    h.tokenById t.id = some t := by
  unfold Hub.tokenById
  cases hf : h.tokens.find? (fun x => x.id == t.id) with
  | none =>
    have := List.find?_eq_none.mp hf t hm
    simp at this
  | some x =>
    have hp := List.find?_some hf
    have hmem := List.mem_of_find?_eq_some hf
    simp at hp
    rw [hok.id_unique x hmem t hm hp]

theorem tokensOK_of_eq {h h' : Hub} (e : h'.tokens = h.tokens) (hok : h.TokensOK) : h'.TokensOK :=
  ⟨by rw [e]; exact hok.dec_le, by rw [e]; exact hok.ext_unique, by rw [e]; exact hok.denom_unique,
   by rw [e]; exact hok.id_unique⟩

theorem toExternal_of_tokens {h h' : Hub} (e : h'.tokens = h.tokens) (chain ext : String) (a : Int) :
    h'.toExternal chain ext a = h.toExternal chain ext a := by
  simp [Hub.toExternal, Hub.tokenByExt, e]

theorem fromExternal_of_tokens {h h' : Hub} (e : h'.tokens = h.tokens) (chain ext : String) (a : Int) :
    h'.fromExternal chain ext a = h.fromExternal chain ext a := by
  simp [Hub.fromExternal, Hub.tokenByExt, e]

theorem toExternal_nonneg (h : Hub) (chain ext : String) {a : Int} (ha : 0 ≤ a) : 0 ≤ h.toExternal chain ext a := by
  unfold Hub.toExternal
  split
  · exact ha
  · exact toExt_nonneg _ ha

/-! ### In-flight value under changes of the entries -/

/-- Entries of external token `t0` are added on chain `X` (up to order); nothing else changes. -/
theorem inflight_add {h h' : Hub} (htok : h'.tokens = h.tokens) (hok : h.TokensOK) (hnd : h.tokens.Nodup)
    {X : String} {add : List Ste} {t0 : TokenInfo} (ht0 : t0 ∈ h.tokens) (hX : t0.chain = X)
    (hadd : ∀ s ∈ add, s.extToken = t0.extId)
    (hperm : (h'.chain X).entries.Perm (add ++ (h.chain X).entries))
    (hoth : ∀ c, X ≠ c → (h'.chain c).entries.Perm (h.chain c).entries) (denom : String) :
    h'.inflight denom = h.inflight denom +
      (if t0.denom = denom then sumInts (add.map Ste.total) * unitOf t0.dec else 0) := by
  unfold Hub.inflight
  rw [htok]
  have key := sum_filter_map_update hnd (fun t => t.denom == denom) h.inflightOf h'.inflightOf
    (t0 := t0) (δ := sumInts (add.map Ste.total) * unitOf t0.dec) ht0 ?_ ?_
  · rw [key]
    by_cases hd : t0.denom = denom
    · simp [hd]
    · simp [hd]
  · intro t ht hne
    rw [inflightOf_eq, inflightOf_eq]
    by_cases hc : X = t.chain
    · subst hc
      rw [tokSum_perm hperm, tokSum_append, tokSum_of_none, Int.zero_add]
      intro s hs he
      rw [hadd s hs] at he
      exact hne (hok.ext_unique t ht t0 ht0 hX.symm he.symm)
    · rw [tokSum_perm (hoth t.chain hc)]
  · rw [inflightOf_eq, inflightOf_eq, hX, tokSum_perm hperm, tokSum_append, tokSum_of_all hadd, Int.add_mul]
    omega

/-- Entries of every chain are the same up to order. -/
theorem inflight_perm {h h' : Hub} (htok : h'.tokens = h.tokens)
    (hperm : ∀ c, (h'.chain c).entries.Perm (h.chain c).entries) (denom : String) :
    h'.inflight denom = h.inflight denom := by
  unfold Hub.inflight
  rw [htok]
  apply sumInts_map_congr
  intro t _
  rw [inflightOf_eq, inflightOf_eq, tokSum_perm (hperm t.chain)]

theorem value_def (h : Hub) (denom : String) :
    h.value denom = h.supplyOf denom * unitOf 18 + h.inflight denom := rfl

theorem supplyOf_of_supply {h h' : Hub} (e : h'.supply = h.supply) (d : String) : h'.supplyOf d = h.supplyOf d := by
  simp [Hub.supplyOf, e]

/-! ### The invariant bundle -/

/-- A well-formed in-flight transfer of chain `c`: it names a token of that chain and its parts
    are not negative. -/
def GoodSte (toks : List TokenInfo) (c : String) (s : Ste) : Prop :=
  (∃ t ∈ toks, t.chain = c ∧ t.extId = s.extToken ∧ t.id = s.tokenId ∧
    (s.refundChain = "" ∨ s.refundChain = "hub" ∨ ∃ t' ∈ toks, t'.chain = s.refundChain ∧ t'.denom = t.denom)) ∧
  0 ≤ s.amount ∧ 0 ≤ s.fee ∧ 0 ≤ s.comm

/-- No account holds a negative balance. -/
def Hub.BalOK (h : Hub) : Prop := ∀ acc d, 0 ≤ h.balance acc d

theorem Hub.BalOK.of_bal {h h' : Hub} (hb : h.BalOK) (e : h'.bal = h.bal) : h'.BalOK := by
  intro a d; simpa [Hub.balance, e] using hb a d

theorem balance_alSet {h h' : Hub} {acc dn : String} {v : Int} (e : h'.bal = alSet h.bal (acc, dn) v) (a d : String) :
    h'.balance a d = if (acc, dn) = (a, d) then v else h.balance a d := by
  unfold Hub.balance
  rw [e]
  by_cases hx : (acc, dn) = (a, d)
  · rw [← hx]; simp
  · simp [hx, alGet_alSet_other _ _ _ _ hx]

theorem Hub.BalOK.alSet {h h' : Hub} (hb : h.BalOK) {acc dn : String} {v : Int} (hv : 0 ≤ v)
    (e : h'.bal = alSet h.bal (acc, dn) v) : h'.BalOK := by
  intro a d
  rw [balance_alSet e]
  split
  · exact hv
  · exact hb a d

/-- Every in-flight transfer is well formed and every batch holds transfers of its own token. -/
structure Hub.EntInv (h : Hub) : Prop where
  good : ∀ c, ∀ s ∈ (h.chain c).entries, GoodSte h.tokens c s
  bal : h.BalOK
  coh : ∀ c, ∀ b ∈ (h.chain c).batches, ∀ s ∈ b.txs, s.extToken = b.extToken

/-- Standing hypotheses of the value law. -/
structure Hub.VInv (h : Hub) : Prop where
  tok : h.TokensOK
  nodup : h.tokens.Nodup
  led : h.LedgerInv
  ent : h.EntInv

theorem Hub.EntInv.entriesOK {h : Hub} (hi : h.EntInv) : h.EntriesOK :=
  fun c s hs => let ⟨t, ht, h1, h2, h3, _⟩ := (hi.good c s hs).1; ⟨t, ht, h1, h2, h3⟩

theorem Hub.EntInv.of_same {h h' : Hub} (hi : h.EntInv) (htok : h'.tokens = h.tokens) (hbal : h.BalOK → h'.BalOK)
    (hp : ∀ c, (h'.chain c).pool = (h.chain c).pool) (hb : ∀ c, (h'.chain c).batches = (h.chain c).batches) :
    h'.EntInv := by
  refine ⟨fun c s hs => ?_, hbal hi.bal, fun c b hbm => ?_⟩
  · rw [htok]
    apply hi.good c s
    unfold ChainSt.entries at hs ⊢
    rw [hp c, hb c] at hs
    exact hs
  · rw [hb c] at hbm
    exact hi.coh c b hbm

/-- One step that keeps the token table and the invariants and changes the value of `denom` by at
    most `δ` (the post-state's counters being below `2^64`). -/
structure VRel (denom : String) (δ : Int) (h h' : Hub) : Prop where
  step : Hub.Step h h'
  tokens : h'.tokens = h.tokens
  ent : h.VInv → h'.Bounded → h'.EntInv
  le : h.VInv → h'.Bounded → h'.value denom ≤ h.value denom + δ

theorem VRel.inv {denom : String} {δ : Int} {h h' : Hub} (r : VRel denom δ h h') (hi : h.VInv) (hb : h'.Bounded) :
    h'.VInv :=
  ⟨tokensOK_of_eq r.tokens hi.tok, by rw [r.tokens]; exact hi.nodup, r.step.inv hi.led hb, r.ent hi hb⟩

theorem VRel.refl (denom : String) (h : Hub) : VRel denom 0 h h :=
  ⟨Hub.Step.refl h, rfl, fun hi _ => hi.ent, fun _ _ => by omega⟩

theorem VRel.trans {denom : String} {δ1 δ2 : Int} {a b c : Hub} (h1 : VRel denom δ1 a b) (h2 : VRel denom δ2 b c) :
    VRel denom (δ1 + δ2) a c := by
  refine ⟨h1.step.trans h2.step, h2.tokens.trans h1.tokens, fun hi hb => ?_, fun hi hb => ?_⟩
  · exact h2.ent (h1.inv hi (hb.mono h2.step)) hb
  · have hbb := hb.mono h2.step
    have := h1.le hi hbb
    have := h2.le (h1.inv hi hbb) hb
    omega

theorem VRel.mono {denom : String} {δ δ' : Int} {h h' : Hub} (r : VRel denom δ h h') (hle : δ ≤ δ') :
    VRel denom δ' h h' :=
  ⟨r.step, r.tokens, r.ent, fun hi hb => by have := r.le hi hb; omega⟩

theorem VRel.trans0 {denom : String} {a b c : Hub} (h1 : VRel denom 0 a b) (h2 : VRel denom 0 b c) :
    VRel denom 0 a c := (h1.trans h2).mono (by omega)

/-- The same with the value of every denom unchanged. -/
structure VEq (h h' : Hub) : Prop where
  step : Hub.Step h h'
  tokens : h'.tokens = h.tokens
  ent : h.VInv → h'.Bounded → h'.EntInv
  eq : h.VInv → h'.Bounded → ∀ denom, h'.value denom = h.value denom

theorem VEq.toVRel {h h' : Hub} (r : VEq h h') (denom : String) : VRel denom 0 h h' :=
  ⟨r.step, r.tokens, r.ent, fun hi hb => by rw [r.eq hi hb]; omega⟩

theorem VEq.inv {h h' : Hub} (r : VEq h h') (hi : h.VInv) (hb : h'.Bounded) : h'.VInv :=
  (r.toVRel "").inv hi hb

theorem VEq.refl (h : Hub) : VEq h h := ⟨Hub.Step.refl h, rfl, fun hi _ => hi.ent, fun _ _ _ => rfl⟩

theorem VEq.trans {a b c : Hub} (h1 : VEq a b) (h2 : VEq b c) : VEq a c := by
  refine ⟨h1.step.trans h2.step, h2.tokens.trans h1.tokens, fun hi hb => ?_, fun hi hb d => ?_⟩
  · exact h2.ent (h1.inv hi (hb.mono h2.step)) hb
  · have hbb := hb.mono h2.step
    rw [h2.eq (h1.inv hi hbb) hb, h1.eq hi hbb]

/-- Pools, batches, counters, token table and supply are all the same. -/
theorem VEq.of_same {h h' : Hub} (hs : Hub.SameLedger h h') (htok : h'.tokens = h.tokens)
    (hsup : h'.supply = h.supply) (hbal : h'.bal = h.bal) : VEq h h' := by
  have he : ∀ c, (h'.chain c).entries = (h.chain c).entries := fun c =>
    (ChainSt.ids_of_same (hs c).1 (hs c).2.1).2
  refine ⟨hs.keeps.step, htok, fun hi _ => hi.ent.of_same htok (fun hb => hb.of_bal hbal) (fun c => (hs c).1) (fun c => (hs c).2.1),
    fun _ _ d => ?_⟩
  rw [value_def, value_def, supplyOf_of_supply hsup, inflight_perm htok (fun c => by rw [he c])]

theorem VEq.of_cs {h h' : Hub} (hcs : h'.cs = h.cs) (htok : h'.tokens = h.tokens)
    (hsup : h'.supply = h.supply) (hbal : h'.bal = h.bal) : VEq h h' :=
  VEq.of_same (Hub.SameLedger.of_cs hcs) htok hsup hbal

/-! ### Bank writes -/

theorem supplyOf_alSet {h h' : Hub} {d : String} {v : Int} (e : h'.supply = alSet h.supply d v) (x : String) :
    h'.supplyOf x = if d = x then v else h.supplyOf x := by
  unfold Hub.supplyOf
  rw [e]
  by_cases hx : d = x
  · subst hx; simp
  · simp [hx, alGet_alSet_other _ _ _ _ hx]

theorem mintTo_parts {h h' : Hub} {acc d : String} {amt : Int} (hm : h.mintTo acc d amt = .ok h') :
    0 < amt ∧ h'.cs = h.cs ∧ h'.tokens = h.tokens ∧ (h.BalOK → h'.BalOK) ∧
    ∀ x, h'.supplyOf x = h.supplyOf x + (if d = x then amt else 0) := by
  unfold Hub.mintTo at hm
  split at hm
  · simp [failM] at hm
  · simp only [Except.ok.injEq] at hm
    subst hm
    refine ⟨by omega, rfl, rfl, fun hb => hb.alSet (acc := acc) (dn := d) (v := h.balance acc d + amt)
      (by have := hb acc d; omega) rfl, fun x => ?_⟩
    rw [supplyOf_alSet (h := h) (d := d) (v := h.supplyOf d + amt) rfl x]
    by_cases hx : d = x
    · subst hx; simp
    · simp [hx]

theorem burnFrom_parts {h h' : Hub} {acc d : String} {amt : Int} (hm : h.burnFrom acc d amt = .ok h') :
    0 < amt ∧ h'.cs = h.cs ∧ h'.tokens = h.tokens ∧ h'.time = h.time ∧ (h.BalOK → h'.BalOK) ∧
    ∀ x, h'.supplyOf x = h.supplyOf x - (if d = x then amt else 0) := by
  unfold Hub.burnFrom at hm
  split at hm
  · simp [failM] at hm
  · split at hm
    · simp [failM] at hm
    · simp only [Except.ok.injEq] at hm
      subst hm
      refine ⟨by omega, rfl, rfl, rfl, fun hb => hb.alSet (acc := acc) (dn := d) (v := h.balance acc d + -amt)
        (by omega) rfl, fun x => ?_⟩
      rw [supplyOf_alSet (h := h) (d := d) (v := h.supplyOf d - amt) rfl x]
      by_cases hx : d = x
      · subst hx; simp
      · simp [hx]

/-- Value after a step that leaves every chain's stores alone. -/
theorem value_of_cs {h h' : Hub} (hcs : h'.cs = h.cs) (htok : h'.tokens = h.tokens) (denom : String) :
    h'.value denom = h.value denom + (h'.supplyOf denom - h.supplyOf denom) * unitOf 18 := by
  rw [value_def, value_def, inflight_perm htok (fun c => by rw [chain_of_cs hcs])]
  rw [Int.sub_mul]
  omega

theorem VRel.of_cs {denom : String} {h h' : Hub} (hcs : h'.cs = h.cs) (htok : h'.tokens = h.tokens)
    (hbal : h.BalOK → h'.BalOK) {x : Int}
    (hsup : h'.supplyOf denom = h.supplyOf denom + x) : VRel denom (x * unitOf 18) h h' := by
  refine ⟨Hub.Step.of_cs hcs, htok, fun hi _ => hi.ent.of_same htok hbal (fun c => by rw [chain_of_cs hcs])
    (fun c => by rw [chain_of_cs hcs]), fun _ _ => ?_⟩
  rw [value_of_cs hcs htok, hsup]
  have : h.supplyOf denom + x - h.supplyOf denom = x := by omega
  rw [this]
  omega

/-- The value credited to `denom` by `x` hub units of `d`. -/
def hubCredit (d denom : String) (x : Int) : Int := if d = denom then x * unitOf 18 else 0

theorem hubCredit_mono (d denom : String) {x y : Int} (h : x ≤ y) : hubCredit d denom x ≤ hubCredit d denom y := by
  unfold hubCredit
  split
  · exact Int.mul_le_mul_of_nonneg_right h (Int.le_of_lt (unitOf_pos _))
  · omega

theorem hubCredit_add (d denom : String) (x y : Int) :
    hubCredit d denom (x + y) = hubCredit d denom x + hubCredit d denom y := by
  unfold hubCredit
  split
  · rw [Int.add_mul]
  · omega

@[simp] theorem hubCredit_zero (d denom : String) : hubCredit d denom 0 = 0 := by
  unfold hubCredit; split <;> simp

theorem mintTo_value {h h' : Hub} {acc d : String} {amt : Int} (hm : h.mintTo acc d amt = .ok h') (denom : String) :
    h'.value denom = h.value denom + hubCredit d denom amt := by
  obtain ⟨_, hcs, htok, _, hsup⟩ := mintTo_parts hm
  rw [value_of_cs hcs htok, hsup denom]
  unfold hubCredit
  by_cases hx : d = denom
  · simp only [hx, if_true]
    have : h.supplyOf denom + amt - h.supplyOf denom = amt := by omega
    rw [this]
  · simp [hx]

theorem mintTo_vrel {h h' : Hub} {acc d : String} {amt : Int} (hm : h.mintTo acc d amt = .ok h') (denom : String) :
    VRel denom (hubCredit d denom amt) h h' := by
  obtain ⟨_, hcs, htok, hbal, hsup⟩ := mintTo_parts hm
  have := VRel.of_cs (denom := denom) hcs htok hbal (hsup denom)
  unfold hubCredit
  by_cases hx : d = denom
  · simpa [hx] using this
  · simpa [hx] using this

/-! ### `createSendToExternal` -/

/-- Everything a successful `createSte` does. -/
theorem createSte_parts {h h' : Hub} {chain sender rcp dn tx rc ra : String} {a f cm : Int} {id : Nat}
    (hok : h.createSte chain sender rcp dn a f cm tx rc ra = .ok (h', id)) :
    ∃ (tok : TokenInfo) (ste : Ste), h.tokenByDenom chain dn = some tok ∧
      ste.id = (h.chain chain).lastSteId + 1 ∧ ste.extToken = tok.extId ∧ ste.tokenId = tok.id ∧
      ste.amount = h.toExternal chain tok.extId a ∧ ste.fee = h.toExternal chain tok.extId f ∧
      ste.comm = h.toExternal chain tok.extId cm ∧ ste.refundChain = rc ∧ (h.BalOK → h'.BalOK) ∧
      (h'.chain chain).pool = insertByKey poolKey ste (h.chain chain).pool ∧
      (h'.chain chain).batches = (h.chain chain).batches ∧
      (h'.chain chain).lastSteId = ste.id ∧
      (h'.chain chain).lastBatchNonce = (h.chain chain).lastBatchNonce ∧
      (∀ c, chain ≠ c → h'.chain c = h.chain c) ∧
      h'.tokens = h.tokens ∧ 0 < a + f + cm ∧
      (∀ d, h'.supplyOf d = h.supplyOf d - (if dn = d then a + f + cm else 0)) := by
  unfold Hub.createSte at hok
  simp only [bind, Except.bind] at hok
  split at hok
  · rename_i tok htok
    split at hok
    · simp at hok
    · rename_i v hv
      simp only [pure, Except.pure, Except.ok.injEq, Prod.mk.injEq] at hok
      obtain ⟨hh, hid⟩ := hok
      obtain ⟨hpos, hcs, htk, htime, hbal, hsup⟩ := burnFrom_parts hv
      have hc : v.chain chain = h.chain chain := chain_of_cs hcs chain
      subst hh
      refine ⟨tok, Ste.mk ((v.chain chain).lastSteId + 1) sender rcp tok.id tok.extId
          (v.toExternal chain tok.extId a) (v.toExternal chain tok.extId f) (v.toExternal chain tok.extId cm)
          chain tx v.time ra rc,
        htok, ?_, rfl, rfl, ?_, ?_, ?_, rfl, fun hb => (hbal hb).of_bal rfl, ?_, ?_, ?_, ?_, ?_, htk, hpos, hsup⟩
      · show (v.chain chain).lastSteId + 1 = _
        rw [hc]
      · exact toExternal_of_tokens htk _ _ _
      · exact toExternal_of_tokens htk _ _ _
      · exact toExternal_of_tokens htk _ _ _
      · rw [chain_setChain, hc]
      · rw [chain_setChain, hc]
      · rw [chain_setChain]
      · rw [chain_setChain, hc]
      · intro c hne
        rw [chain_setChain_ne _ _ hne, chain_of_cs hcs]
  · simp [failM] at hok

/-- The value of a transfer of chain `chain` for `denom`, in common units (0 when its external token
    id is not in the table or belongs to another denom). -/
def Hub.steValue (h : Hub) (chain denom : String) (s : Ste) : Int :=
  match h.tokenByExt chain s.extToken with
  | some t => if t.denom = denom then s.total * unitOf t.dec else 0
  | none => 0

theorem steValue_of_tokens {h h' : Hub} (e : h'.tokens = h.tokens) (chain denom : String) (s : Ste) :
    h'.steValue chain denom s = h.steValue chain denom s := by
  simp [Hub.steValue, Hub.tokenByExt, e]

theorem steValue_of_tok {h : Hub} (hok : h.TokensOK) {t : TokenInfo} (ht : t ∈ h.tokens) {s : Ste}
    (he : t.extId = s.extToken) (denom : String) :
    h.steValue t.chain denom s = if t.denom = denom then s.total * unitOf t.dec else 0 := by
  unfold Hub.steValue
  rw [← he, tokenByExt_mem hok ht]

/-- Exact value after a successful `createSte`. -/
theorem createSte_value_eq {h h' : Hub} {chain sender rcp dn tx rc ra : String} {a f cm : Int} {id : Nat}
    (hok : h.createSte chain sender rcp dn a f cm tx rc ra = .ok (h', id))
    (htk : h.TokensOK) (hnd : h.tokens.Nodup) (hi : h.LedgerInv) (hb : h'.Bounded) (denom : String) :
    ∃ tok, h.tokenByDenom chain dn = some tok ∧
      h'.value denom = h.value denom - hubCredit dn denom (a + f + cm) +
        (if dn = denom then (toExt tok.dec a + toExt tok.dec f + toExt tok.dec cm) * unitOf tok.dec else 0) := by
  obtain ⟨tok, ste, htok, hid, hext, _, hsa, hsf, hsc, _, _, e1, e2, e3, _, e5, etk, _, hsup⟩ := createSte_parts hok
  obtain ⟨hmem, hchain, hdn⟩ := tokenByDenom_some htok
  refine ⟨tok, htok, ?_⟩
  have hpe := (ChainSt.addPool_perm hid e3 e1 e2 (Hub.ledgerInv_iff.mp hi chain) (hb chain)).2
  have hinf := inflight_add (add := [ste]) etk htk hnd hmem hchain
    (fun s hs => by rw [List.mem_singleton.mp hs]; exact hext) (by simpa using hpe)
    (fun c hc => by rw [e5 c hc]) denom
  have hte : ∀ x, h.toExternal chain tok.extId x = toExt tok.dec x := by
    intro x
    unfold Hub.toExternal
    rw [← hchain, tokenByExt_mem htk hmem]
  have htot : sumInts ([ste].map Ste.total) = toExt tok.dec a + toExt tok.dec f + toExt tok.dec cm := by
    simp only [List.map_cons, List.map_nil, sumInts_cons, sumInts_nil, Ste.total, hsa, hsf, hsc, hte]
    omega
  rw [value_def, value_def, hinf, hsup denom, htot, hdn]
  unfold hubCredit
  by_cases hd : dn = denom
  · simp only [hd, if_true]
    rw [Int.sub_mul]
    omega
  · simp only [hd, if_false, Int.sub_zero]
    omega

/-- B1: creating an outgoing transfer never increases the value of any denom. -/
theorem createSte_value_le {h h' : Hub} {chain sender rcp dn tx rc ra : String} {a f cm : Int} {id : Nat}
    (hok : h.createSte chain sender rcp dn a f cm tx rc ra = .ok (h', id))
    (htk : h.TokensOK) (hnd : h.tokens.Nodup) (hi : h.LedgerInv) (hb : h'.Bounded) (denom : String) :
    h'.value denom ≤ h.value denom := by
  obtain ⟨tok, htok, he⟩ := createSte_value_eq hok htk hnd hi hb denom
  rw [he]
  have hd := htk.dec_le tok (tokenByDenom_some htok).1
  have := toExt3_value_le hd a f cm
  unfold hubCredit
  split <;> omega

theorem createSte_vrel {h h' : Hub} {chain sender rcp dn tx rc ra : String} {a f cm : Int} {id : Nat}
    (hok : h.createSte chain sender rcp dn a f cm tx rc ra = .ok (h', id))
    (ha : 0 ≤ a) (hf : 0 ≤ f) (hc : 0 ≤ cm)
    (hrc : rc = "" ∨ rc = "hub" ∨ ∃ t' ∈ h.tokens, t'.chain = rc ∧ t'.denom = dn) (denom : String) :
    VRel denom 0 h h' := by
  obtain ⟨tok, ste, htok, hid, hext, htid, hsa, hsf, hsc, hsr, hbal, e1, e2, e3, _, e5, etk, _, hsup⟩ :=
    createSte_parts hok
  obtain ⟨hmem, hchain, hdn⟩ := tokenByDenom_some htok
  refine ⟨(createSte_keeps hok).step, etk, fun hi hb => ⟨fun c s hs => ?_, hbal hi.ent.bal, fun c b hbm => ?_⟩,
    fun hi hb => ?_⟩
  · rw [etk]
    by_cases hcc : chain = c
    · subst hcc
      rcases ChainSt.mem_entries.mp hs with hs | hs
      · rw [e1] at hs
        rcases mem_of_mem_insertByKey poolKey hs with hs | hs
        · subst hs
          refine ⟨⟨tok, hmem, hchain, hext.symm, htid.symm, by rw [hsr, hdn]; exact hrc⟩, ?_, ?_, ?_⟩
          · rw [hsa]; exact toExternal_nonneg _ _ _ ha
          · rw [hsf]; exact toExternal_nonneg _ _ _ hf
          · rw [hsc]; exact toExternal_nonneg _ _ _ hc
        · exact hi.ent.good chain s (ChainSt.mem_entries.mpr (.inl hs))
      · rw [e2] at hs
        exact hi.ent.good chain s (ChainSt.mem_entries.mpr (.inr hs))
    · rw [e5 c hcc] at hs
      exact hi.ent.good c s hs
  · by_cases hcc : chain = c
    · subst hcc
      rw [e2] at hbm
      exact hi.ent.coh chain b hbm
    · rw [e5 c hcc] at hbm
      exact hi.ent.coh c b hbm
  · have := createSte_value_le hok hi.tok hi.nodup hi.led hb denom
    omega

/-! ### Steps that only move transfers between pool and batches -/

/-- A step that loses nothing and issues no id permutes the entries. -/
theorem ChainSt.Keeps.entries_perm {c c' : ChainSt} (hk : ChainSt.Keeps c c') (hi : c.Inv) (hb : c'.Bounded)
    (hl : c'.lastSteId = c.lastSteId) : c'.entries.Perm c.entries := by
  have hi' := hk.inv hi hb
  rw [List.perm_ext_iff_of_nodup hi'.entries_nodup hi.entries_nodup]
  intro s
  constructor
  · intro hs
    have hid : s.id ∈ c'.ids := ChainSt.mem_ids.mpr ⟨s, hs, rfl⟩
    rcases hk.sub s.id hid with h1 | h1
    · obtain ⟨s0, hs0, he⟩ := ChainSt.mem_ids.mp h1
      have hs0' := hk.keep hi hb s0 hs0
      rw [← hi'.entry_inj hs0' hs he]
      exact hs0
    · omega
  · exact hk.keep hi hb s

theorem Hub.EntInv.of_sub {h h' : Hub} (hi : h.EntInv) (htok : h'.tokens = h.tokens) (hbal : h'.bal = h.bal)
    (hsub : ∀ c, ∀ s ∈ (h'.chain c).entries, s ∈ (h.chain c).entries)
    (hcoh : ∀ c, ∀ b ∈ (h'.chain c).batches, b ∈ (h.chain c).batches ∨ ∀ s ∈ b.txs, s.extToken = b.extToken) :
    h'.EntInv := by
  refine ⟨fun c s hs => ?_, hi.bal.of_bal hbal, fun c b hbm => ?_⟩
  · rw [htok]; exact hi.good c s (hsub c s hs)
  · rcases hcoh c b hbm with h1 | h1
    · exact hi.coh c b h1
    · exact h1

/-- A step that loses nothing, issues no id, keeps supply and token table: every value is the same. -/
theorem VEq.of_keeps {h h' : Hub} (hk : Hub.Keeps h h') (hl : ∀ c, (h'.chain c).lastSteId = (h.chain c).lastSteId)
    (htok : h'.tokens = h.tokens) (hsup : h'.supply = h.supply) (hbal : h'.bal = h.bal)
    (hcoh : ∀ c, ∀ b ∈ (h'.chain c).batches, b ∈ (h.chain c).batches ∨ ∀ s ∈ b.txs, s.extToken = b.extToken) :
    VEq h h' := by
  have hp : h.VInv → h'.Bounded → ∀ c, (h'.chain c).entries.Perm (h.chain c).entries := fun hi hb c =>
    (hk c).entries_perm (Hub.ledgerInv_iff.mp hi.led c) (hb c) (hl c)
  refine ⟨hk.step, htok, fun hi hb => hi.ent.of_sub htok hbal (fun c s hs => (hp hi hb c).subset hs) hcoh,
    fun hi hb d => ?_⟩
  rw [value_def, value_def, supplyOf_of_supply hsup, inflight_perm htok (hp hi hb)]

theorem foldl_setStatus_fields {α : Type} (l : List α) (f : α → String) (st : Nat) (o : String) (h : Hub) :
    (l.foldl (fun h s => h.setStatus (f s) st o) h).tokens = h.tokens ∧
    (l.foldl (fun h s => h.setStatus (f s) st o) h).supply = h.supply ∧
    (l.foldl (fun h s => h.setStatus (f s) st o) h).bal = h.bal := by
  induction l generalizing h with
  | nil => exact ⟨rfl, rfl, rfl⟩
  | cons x xs ih => simp only [List.foldl_cons]; rw [(ih _).1, (ih _).2.1, (ih _).2.2]; exact ⟨rfl, rfl, rfl⟩

theorem buildBatch_fields (h : Hub) (chain tok : String) (n : Nat) :
    (h.buildBatch chain tok n).1.tokens = h.tokens ∧ (h.buildBatch chain tok n).1.supply = h.supply ∧
    (h.buildBatch chain tok n).1.bal = h.bal := by
  unfold Hub.buildBatch
  simp only []
  split
  · exact ⟨rfl, rfl, rfl⟩
  · have := foldl_setStatus_fields (selectForBatch (h.chain chain).pool tok n) (·.txHash) stBatchCreated "" h
    exact ⟨this.1, this.2.1, this.2.2⟩

/-- B3: building a batch moves transfers from the pool into a batch. -/
theorem buildBatch_veq (h : Hub) (chain tok : String) (n : Nat) : VEq h (h.buildBatch chain tok n).1 := by
  apply VEq.of_keeps (buildBatch_keeps h chain tok n) ?_ (buildBatch_fields h chain tok n).1
    (buildBatch_fields h chain tok n).2.1 (buildBatch_fields h chain tok n).2.2
  · intro c b hbm
    by_cases hc : chain = c
    · subst hc
      rcases buildBatch_eff h chain tok n with ⟨_, he⟩ | ⟨b0, _, htx, _, hext, _, hbb, _, _, _⟩
      · rw [he] at hbm; exact .inl hbm
      · rw [hbb] at hbm
        rcases mem_of_mem_insertByKey batchKey hbm with h1 | h1
        · subst h1
          refine .inr fun s hs => ?_
          rw [htx] at hs
          rw [hext]; exact (selectForBatch_sub hs).2
        · exact .inl h1
    · rw [buildBatch_only h chain tok n c hc] at hbm; exact .inl hbm
  · intro c
    by_cases hc : chain = c
    · subst hc
      rcases buildBatch_eff h chain tok n with ⟨_, he⟩ | ⟨b0, _, _, _, _, _, _, _, hl, _⟩
      · rw [he]
      · exact hl
    · rw [buildBatch_only h chain tok n c hc]

/-- B3: cancelling a batch moves its transfers back into the pool. -/
theorem cancelBatch_veq {h h' : Hub} {chain tok : String} {n : Nat} (hok : h.cancelBatch chain tok n = .ok h') :
    VEq h h' := by
  obtain ⟨_, b, hfb, _, e2, e3, _, _, e6⟩ := cancelBatch_eff hok
  have hf : h'.tokens = h.tokens ∧ h'.supply = h.supply ∧ h'.bal = h.bal := by
    obtain ⟨_, _, _, rfl⟩ := cancelBatch_ok hok; exact ⟨rfl, rfl, rfl⟩
  apply VEq.of_keeps (cancelBatch_keeps hok) ?_ hf.1 hf.2.1 hf.2.2
  · intro c b' hbm
    by_cases hc : chain = c
    · subst hc
      rw [e2] at hbm
      exact .inl ((eraseByKey_sublist _ _ _).subset hbm)
    · rw [e6 c hc] at hbm; exact .inl hbm
  · intro c
    by_cases hc : chain = c
    · subst hc; exact e3
    · rw [e6 c hc]

theorem requestBatch_veq {h h' : Hub} {chain denom : String} {ob : Option Batch}
    (hok : h.requestBatch chain denom = .ok (h', ob)) : VEq h h' := by
  unfold Hub.requestBatch at hok
  split at hok
  · simp [failM] at hok
  · split at hok
    · simp [failM] at hok
    · rename_i t _
      simp only [Except.ok.injEq] at hok
      have e : h' = (h.buildBatch chain t.extId 100).1 := by rw [hok]
      subst e
      exact buildBatch_veq _ _ _ _

theorem createBatches_veq (h : Hub) (chain : String) : VEq h (h.createBatches chain) := by
  unfold Hub.createBatches
  split
  · simp only []
    exact foldl_rel VEq VEq.refl VEq.trans _ (fun a tok _ => buildBatch_veq a chain tok 100) h
  · exact VEq.refl _

theorem cleanup_veq {h h' : Hub} {chain : String} (hok : h.cleanupTimedOutBatches chain = .ok h') : VEq h h' := by
  unfold Hub.cleanupTimedOutBatches at hok
  simp only [] at hok
  refine foldlM_rel VEq VEq.refl VEq.trans _ ?_ hok
  intro a o a' _ hf
  split at hf
  · exact cancelBatch_veq hf
  · simp [pure, Except.pure] at hf; subst hf; exact VEq.refl _

theorem createSignerSet_fields {h h' : Hub} {chain : String} (hok : h.createSignerSet chain = .ok h') :
    h'.tokens = h.tokens ∧ h'.supply = h.supply ∧ h'.bal = h.bal := by
  unfold Hub.createSignerSet at hok
  simp only [bind, Except.bind] at hok
  split at hok
  · simp at hok
  · simp only [pure, Except.pure, Except.ok.injEq] at hok
    subst hok; exact ⟨rfl, rfl, rfl⟩

theorem createSignerSetTxs_veq {h h' : Hub} {chain : String} (hok : h.createSignerSetTxs chain = .ok h') :
    VEq h h' := by
  have hs := (createSignerSetTxs_same hok).1
  have hf : h'.tokens = h.tokens ∧ h'.supply = h.supply ∧ h'.bal = h.bal := by
    unfold Hub.createSignerSetTxs at hok
    split at hok
    · exact createSignerSet_fields hok
    · simp only [bind, Except.bind] at hok
      split at hok
      · simp at hok
      · split at hok
        · exact createSignerSet_fields hok
        · simp only [pure, Except.pure, Except.ok.injEq] at hok
          subst hok; exact ⟨rfl, rfl, rfl⟩
  exact VEq.of_same hs hf.1 hf.2.1 hf.2.2

theorem pruneSignerSets_veq (h : Hub) (chain : String) : VEq h (h.pruneSignerSets chain) := by
  have hs := (pruneSignerSets_same h chain).1
  have hf : (h.pruneSignerSets chain).tokens = h.tokens ∧ (h.pruneSignerSets chain).supply = h.supply ∧
      (h.pruneSignerSets chain).bal = h.bal := by
    unfold Hub.pruneSignerSets
    simp only []
    split
    · exact ⟨rfl, rfl, rfl⟩
    · split <;> exact ⟨rfl, rfl, rfl⟩
  exact VEq.of_same hs hf.1 hf.2.1 hf.2.2

/-- B3: begin block only moves transfers and touches signer sets. -/
theorem beginBlock_veq {h h' : Hub} (hok : h.beginBlock = .ok h') : VEq h h' := by
  unfold Hub.beginBlock at hok
  refine foldlM_rel VEq VEq.refl VEq.trans _ ?_ hok
  intro a chain a' _ hf
  simp only [bind, Except.bind] at hf
  split at hf
  · simp [pure, Except.pure] at hf; subst hf; exact VEq.refl _
  · split at hf
    · simp at hf
    · rename_i a1 hc1
      split at hf
      · simp at hf
      · rename_i a2 hc2
        simp only [pure, Except.pure, Except.ok.injEq] at hf
        subst hf
        have h1 : VEq a a1 := by
          split at hc1
          · exact cleanup_veq hc1
          · simp [pure, Except.pure] at hc1; subst hc1; exact VEq.refl _
        exact ((h1.trans (createSignerSetTxs_veq hc2)).trans (createBatches_veq a2 chain)).trans
          (pruneSignerSets_veq _ chain)

/-! ### Removing a pool entry or a batch -/

theorem cancelFinish_fields (h : Hub) (chain : String) (s : Ste) :
    (h.cancelFinish chain s).tokens = h.tokens ∧ (h.cancelFinish chain s).supply = h.supply := ⟨rfl, rfl⟩

/-- Removing the pool entry `s` writes off its value. -/
theorem cancelFinish_vrel (hm : Hub) (chain : String) (s : Ste) (denom : String)
    (hs : hm.VInv → (hm.cancelFinish chain s).Bounded → s ∈ (hm.chain chain).pool) :
    VRel denom (-(hm.steValue chain denom s)) hm (hm.cancelFinish chain s) := by
  obtain ⟨f1, f2, f3, f4, f5⟩ := cancelFinish_chain hm chain s
  have hsub : ∀ c, ∀ x ∈ ((hm.cancelFinish chain s).chain c).entries, x ∈ (hm.chain c).entries := by
    intro c x hx
    by_cases hc : chain = c
    · subst hc
      rcases ChainSt.mem_entries.mp hx with hx | hx
      · rw [f1] at hx
        exact ChainSt.mem_entries.mpr (.inl ((eraseByKey_sublist _ _ _).subset hx))
      · rw [f2] at hx
        exact ChainSt.mem_entries.mpr (.inr hx)
    · rw [f5 c hc] at hx; exact hx
  refine ⟨cancelFinish_step hm chain s, rfl, fun hi hb => hi.ent.of_sub rfl rfl hsub (fun c b hbm => ?_), fun hi hb => ?_⟩
  · by_cases hc : chain = c
    · subst hc; rw [f2] at hbm; exact .inl hbm
    · rw [f5 c hc] at hbm; exact .inl hbm
  · have hsm := hs hi hb
    have hbd : (hm.chain chain).lastSteId < 2 ^ 64 := by rw [← f3]; exact (hb chain).1
    have hp := (ChainSt.erasePool_perm (c := hm.chain chain) (c' := (hm.cancelFinish chain s).chain chain)
      hsm f1 f2 (Hub.ledgerInv_iff.mp hi.led chain) hbd).2
    obtain ⟨⟨t, ht, htc, hte, _, _⟩, _⟩ := hi.ent.good chain s (ChainSt.mem_entries.mpr (.inl hsm))
    have hinf := inflight_add (h := hm.cancelFinish chain s) (h' := hm) (add := [s]) rfl
      (tokensOK_of_eq (h := hm) (h' := hm.cancelFinish chain s) rfl hi.tok) hi.nodup ht htc
      (fun x hx => by rw [List.mem_singleton.mp hx]; exact hte.symm) (by simpa using hp)
      (fun c hc => by rw [f5 c hc]) denom
    have hsv := steValue_of_tok hi.tok ht hte denom
    rw [htc] at hsv
    rw [value_def, value_def, hinf, hsv, supplyOf_of_supply (cancelFinish_fields hm chain s).2]
    simp only [List.map_cons, List.map_nil, sumInts_cons, sumInts_nil, Int.add_zero]
    omega

/-- Removing the batch `b` (whose token is `t`) writes off the value of its transfers. -/
theorem eraseBatch_vrel (v : Hub) (chain : String) (b : Batch) (t : TokenInfo) (denom : String)
    (ht : v.tokenByExt chain b.extToken = some t) (hbm : v.VInv → b ∈ (v.chain chain).batches) :
    VRel denom (-(if t.denom = denom then sumInts (b.txs.map Ste.total) * unitOf t.dec else 0)) v
      (v.setChain chain { (v.chain chain) with
        batches := eraseByKey batchKey (batchKey b) (v.chain chain).batches }) := by
  generalize hv2 : (v.setChain chain { (v.chain chain) with
        batches := eraseByKey batchKey (batchKey b) (v.chain chain).batches }) = v2
  have e2b : (v2.chain chain).batches = eraseByKey batchKey (batchKey b) (v.chain chain).batches := by
    subst hv2; rw [chain_setChain]
  have e2p : (v2.chain chain).pool = (v.chain chain).pool := by subst hv2; rw [chain_setChain]
  have e2l : (v2.chain chain).lastSteId = (v.chain chain).lastSteId := by subst hv2; rw [chain_setChain]
  have e2n : (v2.chain chain).lastBatchNonce = (v.chain chain).lastBatchNonce := by subst hv2; rw [chain_setChain]
  have e2o : ∀ c, chain ≠ c → v2.chain c = v.chain c := by
    intro c hc; subst hv2; exact chain_setChain_ne _ _ hc
  have etk : v2.tokens = v.tokens := by subst hv2; rfl
  have esup : v2.supply = v.supply := by subst hv2; rfl
  have ebal : v2.bal = v.bal := by subst hv2; rfl
  have hstep : Hub.Step v v2 := by
    subst hv2
    exact Hub.Step.setChain (ChainSt.Step.of_sublist rfl rfl (List.Sublist.refl _) (eraseByKey_sublist _ _ _))
  have hbsub : (v2.chain chain).batches.Sublist (v.chain chain).batches := by
    rw [e2b]; exact eraseByKey_sublist _ _ _
  have hsub : ∀ c, ∀ x ∈ (v2.chain c).entries, x ∈ (v.chain c).entries := by
    intro c x hx
    by_cases hc : chain = c
    · subst hc
      rcases ChainSt.mem_entries.mp hx with hx | ⟨b', hb', hx⟩
      · rw [e2p] at hx; exact ChainSt.mem_entries.mpr (.inl hx)
      · exact ChainSt.mem_entries.mpr (.inr ⟨b', hbsub.subset hb', hx⟩)
    · rw [e2o c hc] at hx; exact hx
  refine ⟨hstep, etk, fun hi hb => hi.ent.of_sub etk ebal hsub (fun c b' hb' => ?_), fun hi hb => ?_⟩
  · by_cases hc : chain = c
    · subst hc; exact .inl (hbsub.subset hb')
    · rw [e2o c hc] at hb'; exact .inl hb'
  · have hbd : (v.chain chain).Bounded := ⟨by rw [← e2l]; exact (hb chain).1, by rw [← e2n]; exact (hb chain).2⟩
    have hbp := (ChainSt.eraseBatch_perm (hbm hi) e2b e2p (Hub.ledgerInv_iff.mp hi.led chain) hbd).1
    have hp : (v.chain chain).entries.Perm (b.txs ++ (v2.chain chain).entries) := by
      unfold ChainSt.entries
      rw [e2p]
      have h1 : ((v.chain chain).batches.flatMap (·.txs)).Perm (b.txs ++ (v2.chain chain).batches.flatMap (·.txs)) := by
        simpa using hbp.flatMap_right (·.txs)
      refine (List.Perm.append_left _ h1).trans ?_
      rw [← List.append_assoc, ← List.append_assoc]
      exact List.perm_append_comm.append_right _
    obtain ⟨htm, htc, hte⟩ := tokenByExt_some ht
    have hinf := inflight_add (h := v2) (h' := v) (add := b.txs) etk.symm
      (tokensOK_of_eq etk hi.tok) (by rw [etk]; exact hi.nodup) (by rw [etk]; exact htm) htc
      (fun x hx => by rw [hi.ent.coh chain b (hbm hi) x hx, hte]) hp
      (fun c hc => by rw [e2o c hc]) denom
    rw [value_def, value_def, hinf, supplyOf_of_supply esup]
    omega

/-! ### `cancelSendToExternal` -/

/-- Decomposition of `cancelSte` with the bank writes made explicit. -/
theorem cancelSte_split (h : Hub) (chain : String) (id : Nat) (sender : String) :
    ((h.cancelSte chain id sender).1 = h ∧ (h.cancelSte chain id sender).2 ≠ none) ∨
    ∃ s h1, s ∈ (h.chain chain).pool ∧ s.id = id ∧ s.sender = sender ∧
      0 ≤ h.refundValue chain s ∧ h1.cs = h.cs ∧ h1.tokens = h.tokens ∧ (h.BalOK → h1.BalOK) ∧
      (∀ d, h1.supplyOf d = h.supplyOf d +
        (if h.denomOfTokenId s.tokenId = d then h.refundValue chain s else 0)) ∧
      (((s.refundChain = "" ∨ s.refundChain = "hub") ∧
          h.cancelSte chain id sender = (h1.cancelFinish chain s, none)) ∨
       (s.refundChain ≠ "" ∧ s.refundChain ≠ "hub" ∧
         h1.balance tempAddr (h.denomOfTokenId s.tokenId) =
           h.balance tempAddr (h.denomOfTokenId s.tokenId) + h.refundValue chain s ∧
         ((∃ e, h1.createSte s.refundChain tempAddr s.refundAddr (h.denomOfTokenId s.tokenId)
              (h.refundValue chain s) 0 0 "#" "" "" = .error e ∧ h.cancelSte chain id sender = (h1, some e)) ∨
          (∃ h2 nid, h1.createSte s.refundChain tempAddr s.refundAddr (h.denomOfTokenId s.tokenId)
              (h.refundValue chain s) 0 0 "#" "" "" = .ok (h2, nid) ∧
              h.cancelSte chain id sender = (h2.cancelFinish chain s, none))))) := by
  have hsupply : ∀ (dn : String) (total : Int) (acc : String) (d : String),
      (if (total == 0) = true then
          (if (total == 0) = true then h else { h with supply := alSet h.supply dn (h.supplyOf dn + total) })
        else (if (total == 0) = true then h else
          { h with supply := alSet h.supply dn (h.supplyOf dn + total) }).credit acc dn total).supplyOf d
        = h.supplyOf d + (if dn = d then total else 0) := by
    intro dn total acc d
    by_cases ht : (total == 0) = true
    · have : total = 0 := by simpa using ht
      simp [ht, this]
    · simp only [ht, if_false]
      rw [supplyOf_alSet (h := h) (d := dn) (v := h.supplyOf dn + total) rfl d]
      by_cases hx : dn = d
      · subst hx; simp
      · simp [hx]
  have hcs : ∀ (dn : String) (total : Int) (acc : String),
      (if (total == 0) = true then
          (if (total == 0) = true then h else { h with supply := alSet h.supply dn (h.supplyOf dn + total) })
        else (if (total == 0) = true then h else
          { h with supply := alSet h.supply dn (h.supplyOf dn + total) }).credit acc dn total).cs = h.cs ∧
      (if (total == 0) = true then
          (if (total == 0) = true then h else { h with supply := alSet h.supply dn (h.supplyOf dn + total) })
        else (if (total == 0) = true then h else
          { h with supply := alSet h.supply dn (h.supplyOf dn + total) }).credit acc dn total).tokens = h.tokens := by
    intro dn total acc
    by_cases ht : (total == 0) = true <;> simp [ht, Hub.credit]
  have hbalance : ∀ (dn : String) (total : Int) (acc : String) (a d : String),
      (if (total == 0) = true then
          (if (total == 0) = true then h else { h with supply := alSet h.supply dn (h.supplyOf dn + total) })
        else (if (total == 0) = true then h else
          { h with supply := alSet h.supply dn (h.supplyOf dn + total) }).credit acc dn total).balance a d
        = h.balance a d + (if (acc, dn) = (a, d) then total else 0) := by
    intro dn total acc a d
    by_cases ht : (total == 0) = true
    · have : total = 0 := by simpa using ht
      simp [ht, this]
    · simp only [ht, if_false]
      rw [balance_alSet (h := { h with supply := alSet h.supply dn (h.supplyOf dn + total) }) (acc := acc) (dn := dn)
        (v := h.balance acc dn + total) rfl a d]
      by_cases hx : (acc, dn) = (a, d)
      · simp only [hx, if_true]
        injection hx with h1 h2
        subst h1; subst h2; rfl
      · simp only [hx, if_false, Int.add_zero]; rfl
  have hbok : ∀ (dn : String) (total : Int) (acc : String), 0 ≤ total → h.BalOK →
      (if (total == 0) = true then
          (if (total == 0) = true then h else { h with supply := alSet h.supply dn (h.supplyOf dn + total) })
        else (if (total == 0) = true then h else
          { h with supply := alSet h.supply dn (h.supplyOf dn + total) }).credit acc dn total).BalOK := by
    intro dn total acc h0 hb a d
    rw [hbalance]
    have := hb a d
    split <;> omega
  generalize hr : h.cancelSte chain id sender = r
  unfold Hub.cancelSte at hr
  simp only [] at hr
  split at hr
  · subst hr; exact .inl ⟨rfl, by simp⟩
  · rename_i s hs
    obtain ⟨hsm, hsid⟩ := getLast?_filter_reverse hs
    have hsid : s.id = id := by simpa using hsid
    split at hr
    · subst hr; exact .inl ⟨rfl, by simp⟩
    · rename_i hsender
      have hsender : s.sender = sender := by
        simp only [bne_iff_ne, ne_eq, Decidable.not_not] at hsender; exact hsender.symm
      split at hr
      · subst hr; exact .inl ⟨rfl, by simp⟩
      · rename_i hneg
        have hnn : 0 ≤ h.refundValue chain s := by omega
        split at hr
        · rename_i hrc
          exact .inr ⟨s, _, hsm, hsid, hsender, hnn, (hcs _ _ _).1, (hcs _ _ _).2, hbok _ _ _ hnn, hsupply _ _ _,
            .inl ⟨.inl (by simpa using hrc), hr.symm⟩⟩
        · split at hr
          · rename_i hrc
            exact .inr ⟨s, _, hsm, hsid, hsender, hnn, (hcs _ _ _).1, (hcs _ _ _).2, hbok _ _ _ hnn, hsupply _ _ _,
              .inl ⟨.inr (by simpa using hrc), hr.symm⟩⟩
          · rename_i hrc1 hrc2
            split at hr
            · rename_i e he
              exact .inr ⟨s, _, hsm, hsid, hsender, hnn, (hcs _ _ _).1, (hcs _ _ _).2, hbok _ _ _ hnn, hsupply _ _ _,
                .inr ⟨by simpa using hrc1, by simpa using hrc2, by rw [hbalance]; simp,
                  .inl ⟨e, he, hr.symm⟩⟩⟩
            · rename_i h2 nid hc
              exact .inr ⟨s, _, hsm, hsid, hsender, hnn, (hcs _ _ _).1, (hcs _ _ _).2, hbok _ _ _ hnn, hsupply _ _ _,
                .inr ⟨by simpa using hrc1, by simpa using hrc2, by rw [hbalance]; simp,
                  .inr ⟨h2, nid, hc, hr.symm⟩⟩⟩

theorem VRel.of_imp {denom : String} {δ : Int} {h h' : Hub} (hstep : Hub.Step h h') (htok : h'.tokens = h.tokens)
    (H : h.VInv → h'.Bounded → VRel denom δ h h') : VRel denom δ h h' :=
  ⟨hstep, htok, fun hi hb => (H hi hb).ent hi hb, fun hi hb => (H hi hb).le hi hb⟩

/-- The refund of a well-formed pool entry is the conversion of its total, in its token's denom. -/
theorem refund_of_good {h : Hub} (hi : h.VInv) {chain : String} {s : Ste} (hs : s ∈ (h.chain chain).entries) :
    ∃ t ∈ h.tokens, t.chain = chain ∧ t.extId = s.extToken ∧ h.denomOfTokenId s.tokenId = t.denom ∧
      h.refundValue chain s = fromExt t.dec s.total ∧
      ∀ denom, h.steValue chain denom s = if t.denom = denom then s.total * unitOf t.dec else 0 := by
  obtain ⟨⟨t, ht, htc, hte, hti, _⟩, _⟩ := hi.ent.good chain s hs
  refine ⟨t, ht, htc, hte, ?_, ?_, fun denom => ?_⟩
  · unfold Hub.denomOfTokenId
    rw [← hti, tokenById_mem hi.tok ht]
  · unfold Hub.refundValue Hub.fromExternal
    rw [← hte, ← htc, tokenByExt_mem hi.tok ht]
    rfl
  · rw [← htc]; exact steValue_of_tok hi.tok ht hte denom

/-- The refund minted for an entry is worth at most the entry. -/
theorem refund_le_steValue {h : Hub} (hi : h.VInv) {chain : String} {s : Ste} (hs : s ∈ (h.chain chain).entries)
    (denom : String) :
    hubCredit (h.denomOfTokenId s.tokenId) denom (h.refundValue chain s) ≤ h.steValue chain denom s := by
  obtain ⟨t, ht, _, _, hdn, hrv, hsv⟩ := refund_of_good hi hs
  rw [hdn, hrv, hsv denom]
  unfold hubCredit
  split
  · exact fromExt_value_le (hi.tok.dec_le t ht) _
  · omega

/-- B2: a completed cancel never increases the value of any denom. -/
theorem cancelSte_none_vrel {h h' : Hub} {chain sender : String} {id : Nat}
    (hok : h.cancelSte chain id sender = (h', none)) (denom : String) : VRel denom 0 h h' := by
  have hstep : Hub.Step h h' := by have := cancelSte_step h chain id sender; rw [hok] at this; exact this
  rcases cancelSte_split h chain id sender with ⟨_, hne⟩ | ⟨s, h1, hsm, _, _, hnn, hcs, htk, hbal, hsup, hcase⟩
  · rw [hok] at hne; exact absurd rfl hne
  · have r1 : VRel denom (hubCredit (h.denomOfTokenId s.tokenId) denom (h.refundValue chain s)) h h1 := by
      have := VRel.of_cs (denom := denom) hcs htk hbal (hsup denom)
      unfold hubCredit
      by_cases hx : h.denomOfTokenId s.tokenId = denom
      · simpa [hx] using this
      · simpa [hx] using this
    have hsm1 : s ∈ (h1.chain chain).pool := by rw [chain_of_cs hcs]; exact hsm
    rcases hcase with ⟨_, heq⟩ | ⟨_, _, _, ⟨e, _, heq⟩ | ⟨h2, nid, hc, heq⟩⟩
    · rw [hok] at heq
      injection heq with heq _
      subst heq
      refine VRel.of_imp hstep htk fun hi hb => ?_
      have r2 := cancelFinish_vrel h1 chain s denom (fun _ _ => hsm1)
      refine (r1.trans r2).mono ?_
      have := refund_le_steValue hi (ChainSt.mem_entries.mpr (.inl hsm)) denom
      rw [steValue_of_tokens htk]
      omega
    · rw [hok] at heq; injection heq with _ heq; cases heq
    · rw [hok] at heq
      injection heq with heq _
      subst heq
      have r2 := createSte_vrel hc hnn (Int.le_refl 0) (Int.le_refl 0) (.inl rfl) denom
      refine VRel.of_imp hstep (r2.tokens.trans htk) fun hi hb => ?_
      have hb2 : h2.Bounded := hb.mono (cancelFinish_step h2 chain s)
      have hi1 := r1.inv hi (hb2.mono r2.step)
      have hsm2 : s ∈ (h2.chain chain).pool := createSte_pool_keep hc hi1.led hb2 hsm1
      have r3 := cancelFinish_vrel h2 chain s denom (fun _ _ => hsm2)
      refine ((r1.trans r2).trans r3).mono ?_
      have := refund_le_steValue hi (ChainSt.mem_entries.mpr (.inl hsm)) denom
      rw [steValue_of_tokens (r2.tokens.trans htk)]
      omega

theorem cancelMsg_vrel {h h' : Hub} {sender chain : String} {id : Nat} (hok : h.cancelMsg sender chain id = .ok h')
    (denom : String) : VRel denom 0 h h' :=
  cancelSte_none_vrel (cancelMsg_ok hok) denom

/-- A failing cancel returns the state unchanged, except for the partial failure on the path to a
    foreign refund chain, which keeps the freshly minted refund AND the pool entry. -/
theorem cancelSte_fail_cases {h h' : Hub} {chain sender : String} {id : Nat} {e : Err}
    (hok : h.cancelSte chain id sender = (h', some e)) :
    h' = h ∨ ∃ s, s ∈ (h.chain chain).pool ∧ s.id = id ∧ s.refundChain ≠ "" ∧ s.refundChain ≠ "hub" ∧
      h'.cs = h.cs ∧ h'.tokens = h.tokens ∧ 0 ≤ h.refundValue chain s ∧ (h.BalOK → h'.BalOK) ∧
      h'.balance tempAddr (h.denomOfTokenId s.tokenId) =
           h.balance tempAddr (h.denomOfTokenId s.tokenId) + h.refundValue chain s ∧
      (∀ d, h'.supplyOf d = h.supplyOf d +
        (if h.denomOfTokenId s.tokenId = d then h.refundValue chain s else 0)) ∧
      h'.createSte s.refundChain tempAddr s.refundAddr (h.denomOfTokenId s.tokenId)
        (h.refundValue chain s) 0 0 "#" "" "" = .error e := by
  rcases cancelSte_split h chain id sender with ⟨heq, _⟩ | ⟨s, h1, hsm, hid, _, hnn, hcs, htk, hbal, hsup, hcase⟩
  · rw [hok] at heq; exact .inl heq
  · rcases hcase with ⟨_, heq⟩ | ⟨hr1, hr2, hb1, ⟨e', he, heq⟩ | ⟨h2, nid, hc, heq⟩⟩
    · rw [hok] at heq; injection heq with _ heq; cases heq
    · rw [hok] at heq
      injection heq with h1e h2e
      injection h2e with h2e
      subst h1e; subst h2e
      exact .inr ⟨s, hsm, hid, hr1, hr2, hcs, htk, hnn, hbal, hb1, hsup, he⟩
    · rw [hok] at heq; injection heq with _ heq; cases heq

/-- Value after a failing cancel: unchanged, or increased by exactly the refund that was minted. -/
theorem cancelSte_fail_value {h h' : Hub} {chain sender : String} {id : Nat} {e : Err}
    (hok : h.cancelSte chain id sender = (h', some e)) (denom : String) :
    h'.value denom = h.value denom ∨ ∃ s, s ∈ (h.chain chain).pool ∧ s.id = id ∧
      s.refundChain ≠ "" ∧ s.refundChain ≠ "hub" ∧
      h'.value denom = h.value denom + hubCredit (h.denomOfTokenId s.tokenId) denom (h.refundValue chain s) := by
  rcases cancelSte_fail_cases hok with rfl | ⟨s, hsm, hid, hr1, hr2, hcs, htk, _, _, _, hsup, _⟩
  · exact .inl rfl
  · refine .inr ⟨s, hsm, hid, hr1, hr2, ?_⟩
    rw [value_of_cs hcs htk, hsup denom]
    unfold hubCredit
    by_cases hx : h.denomOfTokenId s.tokenId = denom
    · simp only [hx, if_true]
      have : h.supplyOf denom + h.refundValue chain s - h.supplyOf denom = h.refundValue chain s := by omega
      rw [this]
    · simp [hx]

/-! ### `MsgSendToExternal` -/

theorem sendToExternal_vrel {h h' : Hub} {sender chain rcp dn tx : String} {amount fee : Int} {id : Nat}
    (hok : h.sendToExternal sender chain rcp dn amount fee tx = .ok (h', id)) (denom : String) :
    VRel denom 0 h h' := by
  unfold Hub.sendToExternal at hok
  simp only [bind, Except.bind] at hok
  split at hok <;> try (cases hok)
  split at hok <;> try (cases hok)
  split at hok <;> try (cases hok)
  split at hok
  · split at hok <;> try (cases hok)
    split at hok <;> try (cases hok)
    rename_i hfee _ _ _ _ h1 h2
    exact createSte_vrel hok (by omega) (by omega) (by omega) (.inr (.inl rfl)) denom
  · cases hok

/-! ### Deposits -/

/-- The value locked externally by `a` external units of token `t`, as seen by `denom`. -/
def extCredit (t : TokenInfo) (denom : String) (a : Int) : Int := if t.denom = denom then extValue t a else 0

theorem hubCredit_fromExt_le {t : TokenInfo} (hd : t.dec ≤ 36) (denom : String) (a : Int) :
    hubCredit t.denom denom (fromExt t.dec a) ≤ extCredit t denom a := by
  unfold hubCredit extCredit extValue
  split
  · exact fromExt_value_le hd a
  · omega

theorem handleSendToHub_parts {h h' : Hub} {chain coin receiver tx : String} {amount : Int}
    (hok : h.handleSendToHub chain coin amount receiver tx = .ok h') :
    ∃ tok, h.tokenByExt chain coin = some tok ∧ h'.cs = h.cs ∧ h'.tokens = h.tokens ∧ (h.BalOK → h'.BalOK) ∧
      0 < fromExt tok.dec amount ∧
      ∀ d, h'.supplyOf d = h.supplyOf d + (if tok.denom = d then fromExt tok.dec amount else 0) := by
  unfold Hub.handleSendToHub at hok
  simp only [bind, Except.bind] at hok
  split at hok
  · rename_i tok htok
    have hfe : h.fromExternal chain coin amount = fromExt tok.dec amount := by
      unfold Hub.fromExternal; rw [htok]
    rw [hfe] at hok
    split at hok
    · simp [panicM] at hok
    · split at hok
      · simp [failM] at hok
      · split at hok
        · simp at hok
        · rename_i v hv
          simp only [pure, Except.pure, Except.ok.injEq] at hok
          subst hok
          obtain ⟨hpos, hcs, htk, hbal, hsup⟩ := mintTo_parts hv
          exact ⟨tok, htok, hcs, htk, fun hb => (hbal hb).of_bal rfl, hpos, fun d => by rw [← hsup d]; rfl⟩
  · simp [failM] at hok

theorem handleSendToHub_vrel {h h' : Hub} {chain coin receiver tx : String} {amount : Int}
    (hok : h.handleSendToHub chain coin amount receiver tx = .ok h') {t : TokenInfo}
    (ht : h.tokenByExt chain coin = some t) (denom : String) : VRel denom (extCredit t denom amount) h h' := by
  obtain ⟨tok, htok, hcs, htk, hbal, _, hsup⟩ := handleSendToHub_parts hok
  rw [ht] at htok
  injection htok with htok
  subst htok
  have r := VRel.of_cs (denom := denom) hcs htk hbal (hsup denom)
  refine VRel.of_imp r.step htk fun hi _ => r.mono ?_
  have := hubCredit_fromExt_le (hi.tok.dec_le t (tokenByExt_some ht).1) denom amount
  unfold hubCredit at this
  by_cases hx : t.denom = denom
  · simpa [hx] using this
  · simpa [hx] using this

/-- Exact value after a deposit. -/
theorem handleSendToHub_value_eq {h h' : Hub} {chain coin receiver tx : String} {amount : Int}
    (hok : h.handleSendToHub chain coin amount receiver tx = .ok h') {t : TokenInfo}
    (ht : h.tokenByExt chain coin = some t) (denom : String) :
    h'.value denom = h.value denom + hubCredit t.denom denom (fromExt t.dec amount) := by
  obtain ⟨tok, htok, hcs, htk, _, _, hsup⟩ := handleSendToHub_parts hok
  rw [ht] at htok
  injection htok with htok
  subst htok
  rw [value_of_cs hcs htk, hsup denom]
  unfold hubCredit
  by_cases hx : t.denom = denom
  · simp only [hx, if_true]
    have : h.supplyOf denom + fromExt t.dec amount - h.supplyOf denom = fromExt t.dec amount := by omega
    rw [this]
  · simp [hx]

/-- B5: an observed `TransferToChain` event adds at most the value locked (the amount the handler
    mints, `ttcMintAmount`). -/
theorem handle_transfer_vrel {h h' : Hub} {mf : Bool} {chain coin sender rchain receiver tx : String}
    {n ht : Nat} {amount fee : Int}
    (hok : h.handle mf chain (.transfer n coin amount fee sender rchain receiver ht tx) = .ok h')
    {t : TokenInfo} (htk : h.tokenByExt chain coin = some t) (denom : String) :
    VRel denom (extCredit t denom (ttcMintAmount mf amount fee)) h h' := by
  simp only [Hub.handle] at hok
  simp (config := { maxSteps := 2000000 }) only [bind, Except.bind, failM, panicM] at hok
  split at hok
  · cases hok
  · split at hok
    · split at hok
      · cases hok
      · exact handleSendToHub_vrel hok htk denom
    · split at hok
      · cases hok
      · rename_i v hv
        have r1 := handleSendToHub_vrel hv htk denom
        split at hok
        · rename_i stok hstok
          split at hok
          · rename_i rtok hrtok
            split at hok
            · cases hok
            · split at hok
              · cases hok
              · split at hok
                · cases hok
                · split at hok
                  · cases hok
                  · split at hok
                    · cases hok
                    · split at hok
                      · cases hok
                      · rename_i hcf hcm hca hcc hlt r hr
                        simp only [pure, Except.pure, Except.ok.injEq] at hok
                        subst hok
                        have hrc : chain = "" ∨ chain = "hub" ∨
                            ∃ t' ∈ v.tokens, t'.chain = chain ∧ t'.denom = rtok.denom := by
                          obtain ⟨q1, q2, _⟩ := tokenByExt_some hstok
                          exact .inr (.inr ⟨stok, q1, q2, (tokenByDenom_some hrtok).2.2.symm⟩)
                        have r2 := createSte_vrel (id := r.2) hr (by omega) (by omega) (by omega) hrc denom
                        exact (r1.trans r2).mono (by omega)
          · cases hok
        · cases hok

/-! ### `batchTxExecuted` -/

theorem createSte_wrap_vrel {h h' : Hub} {chain sender rcp dn tx rc ra : String} {a f cm : Int}
    (hok : (match h.createSte chain sender rcp dn a f cm tx rc ra with
      | .ok (h, _) => pure h
      | .error (.fail m) => panicM m
      | .error e => .error e : M Hub) = .ok h') (ha : 0 ≤ a) (hf : 0 ≤ f) (hc : 0 ≤ cm)
    (hrc : rc = "" ∨ rc = "hub" ∨ ∃ t' ∈ h.tokens, t'.chain = rc ∧ t'.denom = dn) (denom : String) :
    VRel denom 0 h h' := by
  split at hok
  · rename_i h1 id he
    simp [pure, Except.pure] at hok; subst hok
    exact createSte_vrel he ha hf hc hrc denom
  · simp [panicM] at hok
  · simp at hok

/-- The cancellation phase of `batchTxExecuted` only moves transfers and keeps the executed batch. -/
theorem executed_phase_veq {h v : Hub} {chain : String} {b : Batch}
    (hv : (if chain != "minter" then
        ((h.chain chain).batches.reverse.filter fun o => o.nonce < b.nonce && o.extToken == b.extToken).foldlM
          (fun (h : Hub) o => h.cancelBatch chain o.extToken o.nonce) h
        else pure h) = .ok v) :
    VEq h v ∧ (h.LedgerInv → v.Bounded → b ∈ (h.chain chain).batches → b ∈ (v.chain chain).batches) := by
  constructor
  · split at hv
    · exact foldlM_rel VEq VEq.refl VEq.trans _ (fun _ _ _ _ hf => cancelBatch_veq hf) hv
    · simp only [pure, Except.pure, Except.ok.injEq] at hv; subst hv; exact VEq.refl _
  · intro hi hbv hbm
    have hstep := (executed_cancel_phase hv).1.step
    have hbh : h.Bounded := hbv.mono hstep
    split at hv
    · obtain ⟨hev, _, _⟩ := CancelEvo.fold (chain := chain)
        (P := fun o => o.nonce < b.nonce ∧ o.extToken = b.extToken)
        (Q := fun _ => True) (h0 := h) _
        (fun o ho => List.mem_reverse.mp (List.mem_filter.mp ho).1)
        (fun h2 o h2' ho hf => by
          have := (List.mem_filter.mp ho).2
          simp only [Bool.and_eq_true, decide_eq_true_eq, beq_iff_eq] at this
          exact .inr ⟨this, hf⟩)
        (fun _ _ _ _ => rfl) (CancelEvo.refl chain _ hi hbh) hv
      apply Classical.byContradiction
      intro hn
      have := (hev.removed b hbm hn).1.1
      omega
    · simp only [pure, Except.pure, Except.ok.injEq] at hv
      subst hv; exact hbm

theorem tokenByExt_of_tokens {h h' : Hub} (e : h'.tokens = h.tokens) (chain ext : String) :
    h'.tokenByExt chain ext = h.tokenByExt chain ext := by
  simp [Hub.tokenByExt, e]

theorem mul_unit_nonneg {x : Int} (hx : 0 ≤ x) (d : Nat) : 0 ≤ x * unitOf d :=
  Int.mul_nonneg hx (Int.le_of_lt (unitOf_pos d))

/-- From `a` to `c`, at most `B` hub units of `d` were minted and everything else only moved or
    lost value. -/
def MintLe (d denom : String) (B : Int) (a c : Hub) : Prop :=
  ∃ m, m ≤ B ∧ VRel denom (hubCredit d denom m) a c

theorem MintLe.refl {d denom : String} {B : Int} (hB : 0 ≤ B) (a : Hub) : MintLe d denom B a a :=
  ⟨0, hB, by simpa using VRel.refl denom a⟩

theorem MintLe.step {d denom : String} {B : Int} {a b c : Hub} (r : VRel denom 0 a b)
    (m : MintLe d denom B b c) : MintLe d denom B a c := by
  obtain ⟨m, hm, r2⟩ := m
  exact ⟨m, hm, (r.trans r2).mono (by omega)⟩

theorem MintLe.mint {d denom acc : String} {B x : Int} {a b c : Hub} (hm : a.mintTo acc d x = .ok b)
    (m : MintLe d denom (B - x) b c) : MintLe d denom B a c := by
  obtain ⟨m, hm', r2⟩ := m
  exact ⟨x + m, by omega, ((mintTo_vrel hm denom).trans r2).mono (by rw [hubCredit_add]; omega)⟩

theorem MintLe.weaken {d denom : String} {B B' : Int} {a c : Hub} (m : MintLe d denom B a c) (h : B ≤ B') :
    MintLe d denom B' a c := by
  obtain ⟨m, hm, r⟩ := m
  exact ⟨m, by omega, r⟩

theorem MintLe.trans0 {d denom : String} {a b c : Hub} (m1 : MintLe d denom 0 a b) (m2 : MintLe d denom 0 b c) :
    MintLe d denom 0 a c := by
  obtain ⟨x, hx, r1⟩ := m1
  obtain ⟨y, hy, r2⟩ := m2
  exact ⟨x + y, by omega, (r1.trans r2).mono (by rw [hubCredit_add]; omega)⟩

theorem MintLe.toVRel {d denom : String} {B : Int} {a c : Hub} (m : MintLe d denom B a c) :
    VRel denom (hubCredit d denom B) a c := by
  obtain ⟨m, hm, r⟩ := m
  exact r.mono (hubCredit_mono d denom hm)

/-- B6: an observed batch execution writes off at least what the batch paid out externally. -/
theorem batchExecuted_vrel {h h' : Hub} {chain tok tx payer : String} {n : Nat} {fp : Int}
    (hok : h.batchExecuted chain tok n tx fp payer = .ok h') {b : Batch}
    (hfb : h.findBatch chain tok n = some b) {t : TokenInfo} (ht : h.tokenByExt chain b.extToken = some t)
    (denom : String) :
    VRel denom (-(extCredit t denom (sumInts (b.txs.map (·.amount))))) h h' := by
  have hstep0 := (batchExecuted_step hok).1
  obtain ⟨hbm0, _⟩ := findBatch_some hfb
  unfold Hub.batchExecuted at hok
  simp only [bind, Except.bind, pure, Except.pure, panicM] at hok
  split at hok
  · rename_i b' hb'
    rw [hfb] at hb'; injection hb' with hb'; subst hb'
    split at hok
    · cases hok
    · rename_i v hv
      obtain ⟨rv, hbv⟩ := executed_phase_veq hv
      have htv : v.tokenByExt chain b.extToken = some t := by rw [tokenByExt_of_tokens rv.tokens]; exact ht
      have re := eraseBatch_vrel v chain b t denom htv
      generalize hv2 : (v.setChain chain _) = v2 at hok re
      have e2tk : v2.tokens = v.tokens := by subst hv2; rfl
      split at hok
      · rename_i tk htk
        have htkt : tk = t := by
          rw [tokenByExt_of_tokens e2tk, htv] at htk
          injection htk with htk; exact htk.symm
        subst htkt
        generalize hv3 : List.foldl _ v2 b.txs = v3 at hok
        have r3 : VEq v2 v3 := by
          subst hv3
          refine foldl_rel VEq VEq.refl VEq.trans _ ?_ v2
          intro a t _
          exact VEq.of_cs rfl rfl rfl rfl
        have hfx : ∀ X, v3.fromExternal chain tk.extId X = fromExt tk.dec X := by
          intro X
          unfold Hub.fromExternal
          rw [(tokenByExt_some ht).2.2, tokenByExt_of_tokens (r3.tokens.trans (e2tk.trans rv.tokens)), ht]
        rw [hfx, hfx] at hok
        generalize hTF : fromExt tk.dec (sumInts (List.map (fun x => x.fee) b.txs)) = totalFee at hok
        generalize hTC : fromExt tk.dec (sumInts (List.map (fun x => x.comm) b.txs)) = totalComm at hok
        split at hok
        · cases hok
        · rename_i v4 hv4
          have m4 : MintLe tk.denom denom (if totalComm > 0 then totalComm else 0) v3 v4 := by
            split at hv4
            · rename_i hc0
              rw [if_pos hc0]
              split at hv4
              · cases hv4
              · rename_i vs hvs
                split at hv4
                · cases hv4
                · rename_i v5 hv5
                  refine MintLe.mint hv5 (MintLe.weaken ?_ (by omega : (0:Int) ≤ totalComm - totalComm))
                  refine foldlM_rel (MintLe tk.denom denom 0) (MintLe.refl (Int.le_refl 0)) MintLe.trans0 _ ?_ hv4
                  intro a x a' _ hf
                  split at hf
                  · cases hf
                  · split at hf
                    · injection hf with hf; subst hf; exact MintLe.refl (Int.le_refl 0) _
                    · exact MintLe.step (createSte_wrap_vrel hf (by omega) (Int.le_refl 0) (Int.le_refl 0) (.inl rfl) denom)
                        (MintLe.refl (Int.le_refl 0) _)
            · rename_i hc0
              rw [if_neg hc0]
              injection hv4 with hv4; subst hv4; exact MintLe.refl (Int.le_refl 0) _
          have m5 : MintLe tk.denom denom (if totalFee > 0 then totalFee else 0) v4 h' := by
            clear hv4 m4
            by_cases htf : totalFee ≤ 0
            · rw [if_pos htf] at hok
              injection hok with hok; subst hok
              have : ¬ totalFee > 0 := by omega
              rw [if_neg this]
              exact MintLe.refl (Int.le_refl 0) _
            · rw [if_neg htf] at hok
              have : totalFee > 0 := by omega
              rw [if_pos this]
              split at hok
              · cases hok
              · split at hok
                · rename_i baseCoin
                  split at hok
                  · rename_i pBase _
                    split at hok
                    · rename_i pTok _
                      generalize gasCostInToken fp pBase pTok = gas at hok
                      have hfle : reimbursement gas totalFee ≤ totalFee := by
                        unfold reimbursement; split <;> omega
                      generalize reimbursement gas totalFee = fee at hok hfle
                      by_cases h1 : (pTok == 0) = true
                      · rw [if_pos h1] at hok; cases hok
                      rw [if_neg h1] at hok
                      by_cases h2 : gas < 0
                      · rw [if_pos h2] at hok; cases hok
                      rw [if_neg h2] at hok
                      by_cases h3 : fee ≤ 0
                      · rw [if_pos h3] at hok; injection hok with hok; subst hok
                        exact MintLe.refl (by omega) _
                      rw [if_neg h3] at hok
                      split at hok
                      · cases hok
                      rename_i v6 hv6
                      refine MintLe.mint hv6 ?_
                      split at hok
                      · cases hok
                      rename_i v7 hv7
                      refine MintLe.step (createSte_wrap_vrel hv7 (by omega) (Int.le_refl 0) (Int.le_refl 0) (.inl rfl) denom) ?_
                      by_cases h4 : totalFee - fee ≤ 0
                      · rw [if_pos h4] at hok; injection hok with hok; subst hok
                        exact MintLe.refl (by omega) _
                      rw [if_neg h4] at hok
                      split at hok
                      · cases hok
                      rename_i v8 hv8
                      refine MintLe.mint hv8 (MintLe.weaken ?_ (by omega : (0:Int) ≤ totalFee - fee - (totalFee - fee)))
                      by_cases h5 : ((b.txs.length : Int) == 0) = true
                      · rw [if_pos h5] at hok; cases hok
                      rw [if_neg h5] at hok
                      refine foldlM_rel (MintLe tk.denom denom 0) (MintLe.refl (Int.le_refl 0)) MintLe.trans0 _ ?_ hok
                      intro a x a' _ hf
                      split at hf
                      · injection hf with hf; subst hf; exact MintLe.refl (Int.le_refl 0) _
                      · split at hf
                        · cases hf
                        · split at hf
                          · injection hf with hf; subst hf; exact MintLe.refl (Int.le_refl 0) _
                          · split at hf
                            · injection hf with hf; subst hf; exact MintLe.refl (Int.le_refl 0) _
                            · split at hf
                              · cases hf
                              · rename_i v9 hv9
                                refine MintLe.step (createSte_wrap_vrel hv9 (by omega) (Int.le_refl 0) (Int.le_refl 0) (.inl rfl) denom) ?_
                                split at hf
                                · cases hf
                                · injection hf with hf; subst hf
                                  refine MintLe.step ?_ (MintLe.refl (Int.le_refl 0) _)
                                  apply VEq.toVRel
                                  apply VEq.of_cs <;> rfl
                    · cases hok
                  · cases hok
                · injection hok with hok; subst hok; exact MintLe.refl (by omega) _
          have htokens : h'.tokens = h.tokens :=
            m5.toVRel.tokens.trans (m4.toVRel.tokens.trans (r3.tokens.trans (e2tk.trans rv.tokens)))
          refine VRel.of_imp hstep0 htokens fun hi hb => ?_
          have hb4 : v4.Bounded := hb.mono m5.toVRel.step
          have hb3 : v3.Bounded := hb4.mono m4.toVRel.step
          have hb2 : v2.Bounded := hb3.mono r3.step
          have hbvv : v.Bounded := by
            have := re (fun _ => hbv hi.led (by
              -- `v2` has the counters of `v`
              subst hv2
              intro c
              by_cases hc : chain = c
              · subst hc; have := hb2 chain; rw [chain_setChain] at this; exact this
              · have := hb2 c; rw [chain_setChain_ne _ _ hc] at this; exact this) hbm0)
            exact hb2.mono this.step
          have re' := re (fun _ => hbv hi.led hbvv hbm0)
          refine (((((rv.toVRel denom).trans re').trans (r3.toVRel denom)).trans m4.toVRel).trans m5.toVRel).mono ?_
          -- the arithmetic: what is re-minted is covered by the commissions and fees written off
          have hgood : ∀ s ∈ b.txs, 0 ≤ s.fee ∧ 0 ≤ s.comm := fun s hs =>
            let g := hi.ent.good chain s (ChainSt.mem_entries.mpr (.inr ⟨b, hbm0, hs⟩))
            ⟨g.2.2.1, g.2.2.2⟩
          have hSf : 0 ≤ sumInts (List.map (fun x => x.fee) b.txs) :=
            sumInts_nonneg (fun x hx => by obtain ⟨s, hs, rfl⟩ := List.mem_map.mp hx; exact (hgood s hs).1)
          have hSc : 0 ≤ sumInts (List.map (fun x => x.comm) b.txs) :=
            sumInts_nonneg (fun x hx => by obtain ⟨s, hs, rfl⟩ := List.mem_map.mp hx; exact (hgood s hs).2)
          have hdec := hi.tok.dec_le tk (tokenByExt_some ht).1
          have hcle : (if totalComm > 0 then totalComm else 0) * unitOf 18 ≤
              sumInts (List.map (fun x => x.comm) b.txs) * unitOf tk.dec := by
            split
            · rw [← hTC]; exact fromExt_value_le hdec _
            · have := mul_unit_nonneg hSc tk.dec; omega
          have hfle : (if totalFee > 0 then totalFee else 0) * unitOf 18 ≤
              sumInts (List.map (fun x => x.fee) b.txs) * unitOf tk.dec := by
            split
            · rw [← hTF]; exact fromExt_value_le hdec _
            · have := mul_unit_nonneg hSf tk.dec; omega
          unfold hubCredit extCredit extValue
          by_cases hd : tk.denom = denom
          · simp only [hd, if_true]
            rw [sumInts_total, Int.add_mul, Int.add_mul]
            omega
          · simp only [hd, if_false]
            omega
      · cases hok
  · rename_i hnone
    exact absurd hfb (by intro hq; exact hnone b hq)

/-! ### Cancels with any outcome, expiry -/

theorem tokenByDenom_isSome {h : Hub} {chain dn : String} {t : TokenInfo} (ht : t ∈ h.tokens)
    (hc : t.chain = chain) (hd : t.denom = dn) : (h.tokenByDenom chain dn).isSome = true := by
  unfold Hub.tokenByDenom
  rw [List.find?_isSome]
  exact ⟨t, ht, by simp [hc, hd]⟩

/-- `createSte` cannot fail when the token exists and the sender holds the (positive) total. -/
theorem createSte_ok_of {h : Hub} {chain sender rcp dn tx rc ra : String} {a f cm : Int}
    (htok : (h.tokenByDenom chain dn).isSome = true) (hpos : 0 < a + f + cm)
    (hbal : a + f + cm ≤ h.balance sender dn) :
    ∃ r, h.createSte chain sender rcp dn a f cm tx rc ra = .ok r := by
  unfold Hub.createSte
  cases hq : h.tokenByDenom chain dn with
  | none => rw [hq] at htok; cases htok
  | some tok =>
    have h1 : ¬ (a + f + cm ≤ 0) := by omega
    have h2 : ¬ (h.balance sender dn < a + f + cm) := by omega
    simp [bind, Except.bind, Hub.burnFrom, h1, h2, pure, Except.pure]

/-- B2/B7: under the standing invariants a cancel never increases value, whatever its outcome: the
    partial failure of `cancelSte_fail_cases` needs a missing refund token or a negative balance. -/
theorem cancelSte_any_vrel {h h' : Hub} {chain sender : String} {id : Nat} {oe : Option Err}
    (hok : h.cancelSte chain id sender = (h', oe)) (denom : String) : VRel denom 0 h h' := by
  cases oe with
  | none => exact cancelSte_none_vrel hok denom
  | some e =>
    have hstep : Hub.Step h h' := by have := cancelSte_step h chain id sender; rw [hok] at this; exact this
    rcases cancelSte_fail_cases hok with rfl | ⟨s, hsm, _, hr1, hr2, hcs, htk, hnn, hbal, hb1, hsup, he⟩
    · exact VRel.refl denom _
    · refine VRel.of_imp hstep htk fun hi hb => ?_
      have hse : s ∈ (h.chain chain).entries := ChainSt.mem_entries.mpr (.inl hsm)
      obtain ⟨⟨t, ht, htc, hte, hti, hrf⟩, _⟩ := hi.ent.good chain s hse
      have hdn : h.denomOfTokenId s.tokenId = t.denom := by
        unfold Hub.denomOfTokenId
        rw [← hti, tokenById_mem hi.tok ht]
      by_cases h0 : h.refundValue chain s = 0
      · have r := VRel.of_cs (denom := denom) hcs htk hbal (hsup denom)
        refine r.mono ?_
        rw [h0]; simp
      · exfalso
        rcases hrf with hrf | hrf | ⟨t', ht', hc', hd'⟩
        · exact hr1 hrf
        · exact hr2 hrf
        · have hsome : (h'.tokenByDenom s.refundChain (h.denomOfTokenId s.tokenId)).isSome = true :=
            tokenByDenom_isSome (by rw [htk]; exact ht') hc' (by rw [hdn]; exact hd')
          have hb0 := hi.ent.bal tempAddr (h.denomOfTokenId s.tokenId)
          obtain ⟨r, hr⟩ := createSte_ok_of (sender := tempAddr) (rcp := s.refundAddr) (tx := "#") (rc := "")
            (ra := "") (a := h.refundValue chain s) (f := 0) (cm := 0) hsome (by omega) (by omega)
          rw [hr] at he
          cases he

theorem refundExpired_vrel {h h' : Hub} {chain : String} (hok : h.refundExpired chain = .ok h') (denom : String) :
    VRel denom 0 h h' := by
  unfold Hub.refundExpired at hok
  refine foldlM_rel (VRel denom 0) (VRel.refl denom) VRel.trans0 _ ?_ hok
  intro a s a' _ hf
  split at hf
  · split at hf
    · rename_i heq; injection hf with hf; subst hf; exact cancelSte_any_vrel heq denom
    · rename_i heq; injection hf with hf; subst hf; exact cancelSte_any_vrel heq denom
    · cases hf
  · injection hf with hf; subst hf; exact VRel.refl denom _

/-! ### Event handler, tally, end block -/

/-- Upper bound of the value an observed event may add to `denom`: the collateral locked externally
    by a deposit (`sendToHub`) or a chain-to-chain transfer; nothing for the other events. -/
def Hub.depositCredit (h : Hub) (mf : Bool) (chain denom : String) : Event → Int
  | .sendToHub _ coin amount _ _ _ _ =>
    match h.tokenByExt chain coin with
    | some t => extCredit t denom amount
    | none => 0
  | .transfer _ coin amount fee _ _ _ _ _ =>
    match h.tokenByExt chain coin with
    | some t => extCredit t denom (ttcMintAmount mf amount fee)
    | none => 0
  | _ => 0

theorem depositCredit_of_tokens {h h' : Hub} (e : h'.tokens = h.tokens) (mf : Bool) (chain denom : String)
    (ev : Event) : h'.depositCredit mf chain denom ev = h.depositCredit mf chain denom ev := by
  cases ev <;> simp [Hub.depositCredit, tokenByExt_of_tokens e]

theorem handle_transfer_token {h h' : Hub} {mf : Bool} {chain coin sender rchain receiver tx : String}
    {n ht : Nat} {amount fee : Int}
    (hok : h.handle mf chain (.transfer n coin amount fee sender rchain receiver ht tx) = .ok h') :
    ∃ t, h.tokenByExt chain coin = some t := by
  simp only [Hub.handle] at hok
  simp (config := { maxSteps := 2000000 }) only [bind, Except.bind, failM, panicM] at hok
  split at hok
  · cases hok
  · split at hok
    · split at hok
      · cases hok
      · obtain ⟨t, ht, _⟩ := handleSendToHub_parts hok; exact ⟨t, ht⟩
    · split at hok
      · cases hok
      · rename_i v hv
        obtain ⟨t, ht, _⟩ := handleSendToHub_parts hv; exact ⟨t, ht⟩

theorem batchExecuted_token {h h' : Hub} {chain tok tx payer : String} {n : Nat} {fp : Int}
    (hok : h.batchExecuted chain tok n tx fp payer = .ok h') {b : Batch}
    (hfb : h.findBatch chain tok n = some b) : ∃ t, h.tokenByExt chain b.extToken = some t := by
  unfold Hub.batchExecuted at hok
  simp only [bind, Except.bind, pure, Except.pure, panicM] at hok
  split at hok
  · rename_i b' hb'
    rw [hfb] at hb'; injection hb' with hb'; subst hb'
    split at hok
    · cases hok
    · rename_i v hv
      have rv := (executed_phase_veq hv).1
      generalize hv2 : (v.setChain chain _) = v2 at hok
      have e2tk : v2.tokens = v.tokens := by subst hv2; rfl
      split at hok
      · rename_i tk htk
        rw [tokenByExt_of_tokens (e2tk.trans rv.tokens)] at htk
        exact ⟨tk, htk⟩
      · cases hok
  · rename_i hnone
    exact absurd hfb (by intro hq; exact hnone b hq)

theorem batchExecuted_none {h h' : Hub} {chain tok tx payer : String} {n : Nat} {fp : Int}
    (hok : h.batchExecuted chain tok n tx fp payer = .ok h') (hfb : h.findBatch chain tok n = none) : h' = h := by
  rcases batchExecuted_decomp hok with ⟨_, e⟩ | ⟨b, _, hb, _⟩
  · exact e
  · rw [hfb] at hb; cases hb

/-- B7: every event kind. -/
theorem handle_vrel {h h' : Hub} {mf : Bool} {chain : String} {ev : Event}
    (hok : h.handle mf chain ev = .ok h') (denom : String) :
    VRel denom (h.depositCredit mf chain denom ev) h h' := by
  cases ev with
  | sendToHub n coin amount sender receiver height txHash =>
    simp only [Hub.handle] at hok
    obtain ⟨t, ht, _⟩ := handleSendToHub_parts hok
    have := handleSendToHub_vrel hok ht denom
    simpa [Hub.depositCredit, ht] using this
  | transfer n coin amount fee sender rchain receiver height txHash =>
    obtain ⟨t, ht⟩ := handle_transfer_token hok
    have := handle_transfer_vrel hok ht denom
    simpa [Hub.depositCredit, ht] using this
  | batchExecuted coin n bn height txHash feePaid feePayer =>
    simp only [Hub.handle] at hok
    show VRel denom 0 h h'
    cases hfb : h.findBatch chain coin bn with
    | none => rw [batchExecuted_none hok hfb]; exact VRel.refl denom _
    | some b =>
      obtain ⟨t, ht⟩ := batchExecuted_token hok hfb
      have r := batchExecuted_vrel hok hfb ht denom
      refine VRel.of_imp r.step r.tokens fun hi _ => r.mono ?_
      have hbm := (findBatch_some hfb).1
      have hS : 0 ≤ sumInts (List.map (fun x => x.amount) b.txs) :=
        sumInts_nonneg (fun x hx => by
          obtain ⟨s, hs, rfl⟩ := List.mem_map.mp hx
          exact (hi.ent.good chain s (ChainSt.mem_entries.mpr (.inr ⟨b, hbm, hs⟩))).2.1)
      have := mul_unit_nonneg hS t.dec
      unfold extCredit extValue
      split <;> omega
  | contractCall n scope inv height =>
    simp only [Hub.handle, Except.ok.injEq] at hok
    subst hok; exact VRel.refl denom _
  | signerSet n sn height members txHash =>
    simp only [Hub.handle, Except.ok.injEq] at hok
    subst hok
    show VRel denom 0 h _
    apply VEq.toVRel
    exact VEq.of_same (Hub.SameLedger.setChain rfl rfl rfl rfl) rfl rfl rfl

/-- B7: one vote record: nothing happens to value unless the record is accepted and its handler
    succeeds (a failing handler leaves only the vote bookkeeping). -/
theorem tryRecord_vrel {h h' : Hub} {mf : Bool} {chain : String} {r : VoteRec}
    (hok : h.tryRecord mf chain r = .ok h') (denom : String) :
    VRel denom 0 h h' ∨ VRel denom (h.depositCredit mf chain denom r.ev) h h' := by
  unfold Hub.tryRecord at hok
  simp only [bind, Except.bind, pure, Except.pure, panicM] at hok
  split at hok
  · cases hok
  · split at hok
    · injection hok with hok; subst hok; exact .inl (VRel.refl denom _)
    · have h1 : VEq h (h.setChain chain ((h.chain chain).markObserved r h.height)) :=
        VEq.of_same (Hub.SameLedger.setChain rfl rfl rfl rfl) rfl rfl rfl
      split at hok
      · rename_i v hv
        injection hok with hok; subst hok
        have r2 := handle_vrel hv denom
        rw [depositCredit_of_tokens h1.tokens] at r2
        exact .inr (((h1.toVRel denom).trans r2).mono (by omega))
      · injection hok with hok; subst hok; exact .inl (h1.toVRel denom)

theorem tally_fold {denom : String} {mf : Bool} {chain : String} (L : List VoteRec) {h h' : Hub}
    (hok : L.foldlM (fun (h : Hub) r => h.tryRecord mf chain r) h = .ok h') :
    ∃ applied : List VoteRec, applied.Sublist L ∧
      VRel denom (sumInts (applied.map fun r => h.depositCredit mf chain denom r.ev)) h h' := by
  induction L generalizing h with
  | nil =>
    simp [pure, Except.pure] at hok; subst hok
    exact ⟨[], List.Sublist.refl _, VRel.refl denom _⟩
  | cons r rs ih =>
    obtain ⟨h1, hs1, hs2⟩ := foldlM_cons_ok hok
    obtain ⟨ap, hsub, rr⟩ := ih hs2
    rcases tryRecord_vrel hs1 denom with r1 | r1
    · refine ⟨ap, hsub.cons r, ?_⟩
      have e : (ap.map fun r => h1.depositCredit mf chain denom r.ev) =
          (ap.map fun r => h.depositCredit mf chain denom r.ev) :=
        List.map_congr_left (fun x _ => depositCredit_of_tokens r1.tokens mf chain denom x.ev)
      rw [e] at rr
      exact (r1.trans rr).mono (by omega)
    · refine ⟨r :: ap, hsub.cons_cons r, ?_⟩
      have e : (ap.map fun r => h1.depositCredit mf chain denom r.ev) =
          (ap.map fun r => h.depositCredit mf chain denom r.ev) :=
        List.map_congr_left (fun x _ => depositCredit_of_tokens r1.tokens mf chain denom x.ev)
      rw [e] at rr
      simp only [List.map_cons, sumInts_cons]
      exact r1.trans rr

/-- B7: a tally adds at most the collateral locked by the events it applied. -/
theorem tally_vrel {h h' : Hub} {mf : Bool} {chain : String} (hok : h.tally mf chain = .ok h') (denom : String) :
    ∃ applied : List VoteRec, applied.Sublist (h.chain chain).records ∧
      VRel denom (sumInts (applied.map fun r => h.depositCredit mf chain denom r.ev)) h h' := by
  unfold Hub.tally at hok
  exact tally_fold _ hok

theorem endBlock_fold {denom : String} {mf : Bool} (L : List String) {h h' : Hub}
    (hok : L.foldlM (fun (h : Hub) chain => do
      let h ← h.tally mf chain
      h.refundExpired chain) h = .ok h') :
    ∃ applied : List (String × VoteRec), (∀ p ∈ applied, p.1 ∈ L) ∧
      VRel denom (sumInts (applied.map fun p => h.depositCredit mf p.1 denom p.2.ev)) h h' := by
  induction L generalizing h with
  | nil =>
    simp [pure, Except.pure] at hok; subst hok
    exact ⟨[], fun _ hp => (by cases hp), VRel.refl denom _⟩
  | cons c cs ih =>
    obtain ⟨h1, hs1, hs2⟩ := foldlM_cons_ok hok
    simp only [bind, Except.bind] at hs1
    split at hs1
    · cases hs1
    · rename_i v hv
      obtain ⟨ap1, _, r1⟩ := tally_vrel hv denom
      have r2 := refundExpired_vrel hs1 denom
      obtain ⟨ap2, hsub2, r3⟩ := ih hs2
      have r12 := r1.trans r2
      refine ⟨ap1.map (fun r => (c, r)) ++ ap2, fun p hp => ?_, ?_⟩
      · rcases List.mem_append.mp hp with hp | hp
        · obtain ⟨r, _, rfl⟩ := List.mem_map.mp hp; exact List.mem_cons_self
        · exact List.mem_cons_of_mem _ (hsub2 p hp)
      · have e : (ap2.map fun p => h1.depositCredit mf p.1 denom p.2.ev) =
            (ap2.map fun p => h.depositCredit mf p.1 denom p.2.ev) :=
          List.map_congr_left (fun x _ => depositCredit_of_tokens r12.tokens mf x.1 denom x.2.ev)
        rw [e] at r3
        rw [List.map_append, sumInts_append, List.map_map]
        exact (r12.trans r3).mono (by simp [Function.comp_def])

/-- B7: an end block adds at most the collateral locked by the events its tallies applied. -/
theorem endBlock_vrel {h h' : Hub} {mf : Bool} (hok : h.endBlock mf = .ok h') (denom : String) :
    ∃ applied : List (String × VoteRec), (∀ p ∈ applied, p.1 ∈ h.chains) ∧
      VRel denom (sumInts (applied.map fun p => h.depositCredit mf p.1 denom p.2.ev)) h h' := by
  unfold Hub.endBlock at hok
  exact endBlock_fold _ hok

/-! ### The operations of a history -/

theorem submitEvent_veq {h h' : Hub} {chain signer : String} {ev : Event}
    (hok : h.submitEvent chain signer ev = .ok h') : VEq h h' := by
  unfold Hub.submitEvent at hok
  simp only [bind, Except.bind] at hok
  split at hok
  · simp [failM] at hok
  · split at hok
    · simp at hok
    · split at hok
      · simp at hok
      · rename_i c hc
        simp only [pure, Except.pure, Except.ok.injEq] at hok
        subst hok
        unfold ChainSt.recordVote at hc
        simp only [] at hc
        split at hc
        · simp [failM] at hc
        · simp only [Except.ok.injEq] at hc
          subst hc
          exact VEq.of_same (Hub.SameLedger.setChain rfl rfl rfl rfl) rfl rfl rfl

theorem confirm_veq {h h' : Hub} {chain signer ext sig : String} {k : ConfKind}
    (hok : h.confirm chain signer k ext sig = .ok h') : VEq h h' := by
  unfold Hub.confirm at hok
  simp only [bind, Except.bind, failM] at hok
  repeat' (split at hok)
  all_goals first
    | (simp only [pure, Except.pure, Except.ok.injEq] at hok
       subst hok
       exact VEq.of_same (Hub.SameLedger.setChain rfl rfl rfl rfl) rfl rfl rfl)
    | cases hok

theorem setDelegateKeys_veq {h h' : Hub} {chain val orch eth sb sv : String} {sn acc : Nat}
    (hok : h.setDelegateKeys chain val orch eth sb sv sn acc = .ok h') : VEq h h' := by
  unfold Hub.setDelegateKeys at hok
  simp only [bind, Except.bind, failM] at hok
  repeat' (split at hok)
  all_goals first
    | (simp only [pure, Except.pure, Except.ok.injEq] at hok
       subst hok
       exact VEq.of_same (Hub.SameLedger.setChain rfl rfl rfl rfl) rfl rfl rfl)
    | cases hok

theorem VRel.of_fields {denom : String} {h h' : Hub} (hcs : h'.cs = h.cs) (htok : h'.tokens = h.tokens)
    (hsup : h'.supply = h.supply) (hbal : h'.bal = h.bal) : VRel denom 0 h h' :=
  (VEq.of_cs hcs htok hsup hbal).toVRel denom

/-- C: every operation other than `reset`, `token`, `fund` and `endBlock` keeps the invariants and
    never increases the value of any denom. -/
theorem apply_vrel (h : Hub) (op : Op) (hr : op ≠ .reset) (ht : ∀ t, op ≠ .token t)
    (hf : ∀ a d x, op ≠ .fund a d x) (he : op ≠ .endBlock) (denom : String) :
    VRel denom 0 h (apply h op).1 := by
  cases op with
  | reset => exact absurd rfl hr
  | endBlock => exact absurd rfl he
  | token t => exact absurd rfl (ht t)
  | fund a d x => exact absurd rfl (hf a d x)
  | init => exact VRel.refl denom _
  | chains cs => exact VRel.of_fields rfl rfl rfl rfl
  | param name n =>
    simp only [apply]
    split
    · exact VRel.of_fields rfl rfl rfl rfl
    · exact VRel.refl denom _
  | gravityId v => exact VRel.of_fields rfl rfl rfl rfl
  | price name x => exact VRel.of_fields rfl rfl rfl rfl
  | holder addr x => exact VRel.of_fields rfl rfl rfl rfl
  | staking vs => exact VRel.of_fields rfl rfl rfl rfl
  | block ht t => exact VRel.of_fields rfl rfl rfl rfl
  | beginBlock =>
    simp only [apply]
    rcases outM_cases h.beginBlock h "ok" with e | ⟨h', e1, e2⟩
    · rw [e]; exact VRel.refl denom _
    · rw [e2]; exact (beginBlock_veq e1).toVRel denom
  | send sender chain rcp dn a f tx =>
    simp only [apply]
    split
    · rename_i h' id e
      exact sendToExternal_vrel e denom
    · exact VRel.refl denom _
    · exact VRel.refl denom _
  | cancel s c i =>
    simp only [apply]
    rcases outM_cases (h.cancelMsg s c i) h "ok" with e | ⟨h', e1, e2⟩
    · rw [e]; exact VRel.refl denom _
    · rw [e2]; exact cancelMsg_vrel e1 denom
  | reqBatch chain dn =>
    simp only [apply]
    split
    · rename_i h' b e
      exact (requestBatch_veq e).toVRel denom
    · rename_i h' e
      exact (requestBatch_veq e).toVRel denom
    · exact VRel.refl denom _
    · exact VRel.refl denom _
  | vote chain signer e =>
    simp only [apply]
    split
    · rcases outM_cases (h.submitEvent chain signer e) h "ok" with e0 | ⟨h', e1, e2⟩
      · rw [e0]; exact VRel.refl denom _
      · rw [e2]; exact (submitEvent_veq e1).toVRel denom
    · exact VRel.refl denom _
  | hashOf e => exact VRel.refl denom _
  | confirm chain signer k ext sig =>
    simp only [apply]
    rcases outM_cases (h.confirm chain signer k ext sig) h "ok" with e0 | ⟨h', e1, e2⟩
    · rw [e0]; exact VRel.refl denom _
    · rw [e2]; exact (confirm_veq e1).toVRel denom
  | delegate chain val orch eth sb sv n s =>
    simp only [apply]
    rcases outM_cases (h.setDelegateKeys chain val orch eth sb sv n s) h "ok" with e0 | ⟨h', e1, e2⟩
    · rw [e0]; exact VRel.refl denom _
    · rw [e2]; exact (setDelegateKeys_veq e1).toVRel denom
  | qConfs chain k => exact VRel.refl denom _
  | qUnsignedSets chain signer => simp only [apply]; split <;> exact VRel.refl denom _
  | qUnsignedBatches chain signer => simp only [apply]; split <;> exact VRel.refl denom _
  | qLastNonce chain signer => simp only [apply]; split <;> exact VRel.refl denom _
  | dump what => exact VRel.refl denom _
  | nop => exact VRel.refl denom _
  | bad => exact VRel.refl denom _
  | oprice v e l => exact VRel.refl denom _
  | oholders v e l => exact VRel.refl denom _
  | oend => exact VRel.refl denom _

/-- C: a successful `fund` mints: the value of its denom grows by exactly the amount, in common
    units; a failing one changes nothing. -/
theorem apply_fund_ok {h h' : Hub} {acc d : String} {x : Int} (hm : h.mintTo acc d x = .ok h') (denom : String) :
    (apply h (.fund acc d x)).1 = h' ∧ VRel denom (hubCredit d denom x) h h' ∧
    h'.value denom = h.value denom + hubCredit d denom x := by
  simp only [apply]
  rw [hm]
  exact ⟨rfl, mintTo_vrel hm denom, mintTo_value hm denom⟩

theorem apply_fund_err {h : Hub} {acc d : String} {x : Int} {e : Err} (hm : h.mintTo acc d x = .error e) :
    (apply h (.fund acc d x)).1 = h := by
  simp only [apply]
  rw [hm]
  cases e <;> rfl

/-- The handler mints the locked amount only (generated from the source). -/
theorem mintsFee_false : mintsFee = false := by decide

/-- C: `endBlock` adds at most the collateral locked by the events its tallies applied. -/
theorem apply_endBlock_vrel (h : Hub) (denom : String) :
    ∃ applied : List (String × VoteRec), (∀ p ∈ applied, p.1 ∈ h.chains) ∧
      VRel denom (sumInts (applied.map fun p => h.depositCredit false p.1 denom p.2.ev)) h (apply h .endBlock).1 := by
  simp only [apply]
  rw [mintsFee_false]
  cases e1 : h.endBlock false with
  | error e =>
    have : (outM (Except.error e) h).1 = h := by cases e <;> rfl
    rw [this]
    exact ⟨[], fun _ hp => (by cases hp), VRel.refl denom _⟩
  | ok h' =>
    exact endBlock_vrel e1 denom

/-- Every operation other than `reset` and `token` keeps the invariants (for some change of value). -/
theorem apply_vrel_any (h : Hub) (op : Op) (hr : op ≠ .reset) (ht : ∀ t, op ≠ .token t) (denom : String) :
    ∃ δ, VRel denom δ h (apply h op).1 := by
  by_cases he : op = .endBlock
  · subst he
    obtain ⟨ap, _, r⟩ := apply_endBlock_vrel h denom
    exact ⟨_, r⟩
  · by_cases hf : ∃ a d x, op = .fund a d x
    · obtain ⟨a, d, x, rfl⟩ := hf
      cases hm : h.mintTo a d x with
      | ok h' =>
        obtain ⟨e, r, _⟩ := apply_fund_ok hm denom
        rw [e]; exact ⟨_, r⟩
      | error e =>
        rw [apply_fund_err hm]; exact ⟨0, VRel.refl denom _⟩
    · exact ⟨0, apply_vrel h op hr ht (fun a d x e => hf ⟨a, d, x, e⟩) he denom⟩

theorem initialHub_vinv : initialHub.VInv := by
  refine ⟨⟨?_, ?_, ?_, ?_⟩, List.nodup_nil, initialHub_inv, ⟨?_, ?_, ?_⟩⟩
  · intro t ht; cases ht
  · intro t ht; cases ht
  · intro t ht; cases ht
  · intro t ht; cases ht
  · intro c s hs; rw [initialHub_chain] at hs; cases hs
  · intro a d; exact Int.le_refl 0
  · intro c b hb; rw [initialHub_chain] at hb; cases hb

theorem tokensOK_of_sublist {l l' : List TokenInfo} (hs : l.Sublist l')
    (h1 : ∀ t ∈ l', t.dec ≤ commonDec)
    (h2 : ∀ t1 ∈ l', ∀ t2 ∈ l', t1.chain = t2.chain → t1.extId = t2.extId → t1 = t2)
    (h3 : ∀ t1 ∈ l', ∀ t2 ∈ l', t1.chain = t2.chain → t1.denom = t2.denom → t1 = t2)
    (h4 : ∀ t1 ∈ l', ∀ t2 ∈ l', t1.id = t2.id → t1 = t2) :
    (∀ t ∈ l, t.dec ≤ commonDec) ∧
    (∀ t1 ∈ l, ∀ t2 ∈ l, t1.chain = t2.chain → t1.extId = t2.extId → t1 = t2) ∧
    (∀ t1 ∈ l, ∀ t2 ∈ l, t1.chain = t2.chain → t1.denom = t2.denom → t1 = t2) ∧
    (∀ t1 ∈ l, ∀ t2 ∈ l, t1.id = t2.id → t1 = t2) :=
  ⟨fun t ht => h1 t (hs.subset ht), fun a ha b hb => h2 a (hs.subset ha) b (hs.subset hb),
   fun a ha b hb => h3 a (hs.subset ha) b (hs.subset hb), fun a ha b hb => h4 a (hs.subset ha) b (hs.subset hb)⟩

/-- The standing hypotheses hold in every reachable state whose counters are below `2^64` and whose
    token table is well formed and duplicate free. -/
theorem apply_preserves_vinv (h : Hub) (op : Op)
    (hq : h.Bounded → h.TokensOK → h.tokens.Nodup → h.VInv) :
    (apply h op).1.Bounded → (apply h op).1.TokensOK → (apply h op).1.tokens.Nodup → (apply h op).1.VInv := by
  intro hb htk hnd
  by_cases hr : op = .reset
  · subst hr; exact initialHub_vinv
  · by_cases ht : ∃ t, op = .token t
    · obtain ⟨t, rfl⟩ := ht
      simp only [apply] at hb htk hnd ⊢
      have hsl : h.tokens.Sublist (h.tokens ++ [t]) := List.sublist_append_left _ _
      obtain ⟨q1, q2, q3, q4⟩ := tokensOK_of_sublist hsl htk.dec_le htk.ext_unique htk.denom_unique htk.id_unique
      have hi := hq (fun c => hb c) ⟨q1, q2, q3, q4⟩ (hnd.sublist hsl)
      refine ⟨htk, hnd, fun c => hi.led c, ⟨fun c s hs => ?_, fun a d => hi.ent.bal a d, fun c b hbm => hi.ent.coh c b hbm⟩⟩
      obtain ⟨⟨t0, ht0, g1, g2, g3, g4⟩, g5⟩ := hi.ent.good c s hs
      refine ⟨⟨t0, List.mem_append_left _ ht0, g1, g2, g3, ?_⟩, g5⟩
      rcases g4 with g4 | g4 | ⟨t', ht', g6⟩
      · exact .inl g4
      · exact .inr (.inl g4)
      · exact .inr (.inr ⟨t', List.mem_append_left _ ht', g6⟩)
    · obtain ⟨δ, r⟩ := apply_vrel_any h op hr (fun t e => ht ⟨t, e⟩) ""
      have hi := hq (hb.mono r.step) (tokensOK_of_eq r.tokens.symm htk) (by rw [← r.tokens]; exact hnd)
      exact r.inv hi hb

theorem vinv_reachable (ops : List Op) :
    (runOps ops).Bounded → (runOps ops).TokensOK → (runOps ops).tokens.Nodup → (runOps ops).VInv := by
  unfold runOps
  have hgen : ∀ (ops : List Op) (h : Hub), (h.Bounded → h.TokensOK → h.tokens.Nodup → h.VInv) →
      ((ops.foldl (fun h op => (apply h op).1) h).Bounded →
       (ops.foldl (fun h op => (apply h op).1) h).TokensOK →
       (ops.foldl (fun h op => (apply h op).1) h).tokens.Nodup →
       (ops.foldl (fun h op => (apply h op).1) h).VInv) := by
    intro ops
    induction ops with
    | nil => intro h hq; exact hq
    | cons op rest ih => intro h hq; exact ih _ (apply_preserves_vinv h op hq)
  exact hgen ops initialHub (fun _ _ _ => initialHub_vinv)

/-- Any sequence of operations without `reset`, `token`, `fund` and `endBlock`. -/
theorem apply_list_vrel (ops : List Op)
    (hall : ∀ op ∈ ops, op ≠ .reset ∧ (∀ t, op ≠ .token t) ∧ (∀ a d x, op ≠ .fund a d x) ∧ op ≠ .endBlock)
    (denom : String) (h : Hub) : VRel denom 0 h (ops.foldl (fun h op => (apply h op).1) h) :=
  foldl_rel (VRel denom 0) (VRel.refl denom) VRel.trans0 ops
    (fun a op hop => apply_vrel a op (hall op hop).1 (hall op hop).2.1 (hall op hop).2.2.1 (hall op hop).2.2.2 denom) h

/-! ### Adding a token; histories without deposits -/

/-- Registering a token that keeps the table well formed does not change any value: no in-flight
    transfer can already carry its external id. -/
theorem apply_token_value {h : Hub} {t : TokenInfo} (hi : h.VInv) (htk : (apply h (.token t)).1.TokensOK)
    (hnd : (apply h (.token t)).1.tokens.Nodup) (denom : String) :
    (apply h (.token t)).1.value denom = h.value denom := by
  simp only [apply] at htk hnd ⊢
  have hnot : t ∉ h.tokens := by
    have := (List.nodup_append.mp hnd).2.2
    exact fun hm => this t hm t (List.mem_singleton.mpr rfl) rfl
  have hzero : ({ h with tokens := h.tokens ++ [t] } : Hub).inflightOf t = 0 := by
    rw [inflightOf_eq]
    have : tokSum (({ h with tokens := h.tokens ++ [t] } : Hub).chain t.chain).entries t.extId = 0 := by
      apply tokSum_of_none
      intro s hs he
      obtain ⟨⟨t0, ht0, g1, g2, _⟩, _⟩ := hi.ent.good t.chain s hs
      have := htk.ext_unique t0 (List.mem_append_left _ ht0) t (List.mem_append_right _ (List.mem_singleton.mpr rfl))
        g1 (g2.trans he)
      exact hnot (this ▸ ht0)
    rw [this]; simp
  have hsame : ∀ t' ∈ h.tokens, ({ h with tokens := h.tokens ++ [t] } : Hub).inflightOf t' = h.inflightOf t' :=
    fun _ _ => rfl
  show ({ h with tokens := h.tokens ++ [t] } : Hub).supplyOf denom * unitOf 18 +
    ({ h with tokens := h.tokens ++ [t] } : Hub).inflight denom = _
  rw [value_def]
  have hs : ({ h with tokens := h.tokens ++ [t] } : Hub).supplyOf denom = h.supplyOf denom := rfl
  rw [hs]
  unfold Hub.inflight
  show _ + sumInts (((h.tokens ++ [t]).filter fun x => x.denom == denom).map
    ({ h with tokens := h.tokens ++ [t] } : Hub).inflightOf) = _
  rw [List.filter_append, List.map_append, sumInts_append, sumInts_map_congr (fun x hx => hsame x (List.mem_filter.mp hx).1)]
  have : sumInts (([t].filter fun x => x.denom == denom).map
      ({ h with tokens := h.tokens ++ [t] } : Hub).inflightOf) = 0 := by
    by_cases hd : (t.denom == denom) = true
    · simp [List.filter_cons, hd, sumInts_cons, hzero]
    · simp [List.filter_cons, hd]
  rw [this]
  omega

theorem mintTo_ok_iff (h : Hub) (acc d : String) (x : Int) :
    (∃ h', h.mintTo acc d x = .ok h') ↔ 0 < x := by
  unfold Hub.mintTo
  constructor
  · rintro ⟨h', hm⟩
    split at hm
    · simp [failM] at hm
    · omega
  · intro hx
    have : ¬ x ≤ 0 := by omega
    simp [this]

/-- What the test-harness `fund` operations of a history minted of `denom` since the last `reset`,
    in common units. -/
def fundsOf (denom : String) : List Op → Int → Int
  | [], c => c
  | .reset :: r, _ => fundsOf denom r 0
  | .fund _ d x :: r, c => fundsOf denom r (c + if 0 < x then hubCredit d denom x else 0)
  | _ :: r, c => fundsOf denom r c

theorem initialHub_value (denom : String) : initialHub.value denom = 0 := by
  simp [Hub.value, Hub.supplyOf, Hub.inflight, initialHub, alGet]

theorem hubCredit_nonneg (d denom : String) {x : Int} (hx : 0 ≤ x) : 0 ≤ hubCredit d denom x := by
  unfold hubCredit
  split
  · exact mul_unit_nonneg hx 18
  · omega

/-- Without deposits nothing is ever created: in a history without `endBlock` (so without observed
    external events) the value of a denom never exceeds what `fund` minted. -/
theorem value_le_funds (denom : String) (ops : List Op) (hne : ∀ op ∈ ops, op ≠ .endBlock) :
    (runOps ops).Bounded → (runOps ops).TokensOK → (runOps ops).tokens.Nodup →
    (runOps ops).value denom ≤ fundsOf denom ops 0 := by
  unfold runOps
  have hgen : ∀ (ops : List Op) (h : Hub) (c : Int), (∀ op ∈ ops, op ≠ .endBlock) → 0 ≤ c →
      (h.Bounded → h.TokensOK → h.tokens.Nodup → h.VInv ∧ h.value denom ≤ c) →
      ((ops.foldl (fun h op => (apply h op).1) h).Bounded →
       (ops.foldl (fun h op => (apply h op).1) h).TokensOK →
       (ops.foldl (fun h op => (apply h op).1) h).tokens.Nodup →
       (ops.foldl (fun h op => (apply h op).1) h).VInv ∧
       (ops.foldl (fun h op => (apply h op).1) h).value denom ≤ fundsOf denom ops c) := by
    intro ops
    induction ops with
    | nil => intro h c _ _ hq; exact hq
    | cons op rest ih =>
      intro h c hne hc hq
      have hne' : ∀ o ∈ rest, o ≠ .endBlock := fun o ho => hne o (List.mem_cons_of_mem _ ho)
      have hop : op ≠ .endBlock := hne op List.mem_cons_self
      simp only [List.foldl_cons]
      by_cases hr : op = .reset
      · subst hr
        exact ih _ 0 hne' (Int.le_refl 0) (fun _ _ _ => ⟨initialHub_vinv, by rw [show (apply h .reset).1 = initialHub from rfl, initialHub_value]; omega⟩)
      · by_cases ht : ∃ t, op = .token t
        · obtain ⟨t, rfl⟩ := ht
          refine ih _ c hne' hc (fun hb htk hnd => ?_)
          have hvi := apply_preserves_vinv h (.token t) (fun a b c => (hq a b c).1) hb htk hnd
          have hsl : h.tokens.Sublist (h.tokens ++ [t]) := List.sublist_append_left _ _
          have htk' : (apply h (.token t)).1.TokensOK := htk
          simp only [apply] at htk hnd hb
          obtain ⟨q1, q2, q3, q4⟩ := tokensOK_of_sublist hsl htk.dec_le htk.ext_unique htk.denom_unique htk.id_unique
          obtain ⟨hi, hv⟩ := hq (fun c => hb c) ⟨q1, q2, q3, q4⟩ (hnd.sublist hsl)
          refine ⟨hvi, ?_⟩
          rw [apply_token_value hi htk' (by simpa [apply] using hnd)]
          exact hv
        · have ht' : ∀ t, op ≠ .token t := fun t e => ht ⟨t, e⟩
          by_cases hf : ∃ a d x, op = .fund a d x
          · obtain ⟨a, d, x, rfl⟩ := hf
            by_cases hx : 0 < x
            · obtain ⟨h', hm⟩ := (mintTo_ok_iff h a d x).mpr hx
              obtain ⟨e, r, _⟩ := apply_fund_ok hm denom
              have hnn := hubCredit_nonneg d denom (Int.le_of_lt hx)
              refine ih _ (c + if 0 < x then hubCredit d denom x else 0) hne' (by simp [hx]; omega)
                (fun hb htk hnd => ?_)
              rw [e] at hb htk hnd ⊢
              obtain ⟨hi, hv⟩ := hq (hb.mono r.step) (tokensOK_of_eq r.tokens.symm htk) (by rw [← r.tokens]; exact hnd)
              have := r.le hi hb
              exact ⟨r.inv hi hb, by simp only [hx, if_true]; omega⟩
            · have hnone : ∀ h', h.mintTo a d x ≠ .ok h' := fun h' hm => hx ((mintTo_ok_iff h a d x).mp ⟨h', hm⟩)
              have he : (apply h (.fund a d x)).1 = h := by
                cases hm : h.mintTo a d x with
                | ok h' => exact absurd hm (hnone h')
                | error e => exact apply_fund_err hm
              refine ih _ (c + if 0 < x then hubCredit d denom x else 0) hne' (by simp [hx]; omega) ?_
              rw [he]
              intro hb htk hnd
              obtain ⟨hi, hv⟩ := hq hb htk hnd
              exact ⟨hi, by simp only [hx, if_false]; omega⟩
          · have hf' : ∀ a d x, op ≠ .fund a d x := fun a d x e => hf ⟨a, d, x, e⟩
            have r := apply_vrel h op hr ht' hf' hop denom
            have hfo : fundsOf denom (op :: rest) c = fundsOf denom rest c := by
              cases op <;> first | rfl | exact absurd rfl hr | exact absurd rfl (hf' _ _ _)
            rw [hfo]
            refine ih _ c hne' hc (fun hb htk hnd => ?_)
            obtain ⟨hi, hv⟩ := hq (hb.mono r.step) (tokensOK_of_eq r.tokens.symm htk) (by rw [← r.tokens]; exact hnd)
            have := r.le hi hb
            exact ⟨r.inv hi hb, by omega⟩
  intro hb htk hnd
  exact (hgen ops initialHub 0 hne (Int.le_refl 0)
    (fun _ _ _ => ⟨initialHub_vinv, by rw [initialHub_value]; omega⟩) hb htk hnd).2

end Mhub2
