/-
  Bank, outgoing pool and batches (keeper/pool.go, keeper/batch.go, parts of keeper/keeper.go
  and keeper/msg_server.go).
-/
import Mhub2.Types
namespace Mhub2

/-! ### Bank -/

def Hub.balance (h : Hub) (acc denom : String) : Int := (alGet h.bal (acc, denom)).getD 0
def Hub.supplyOf (h : Hub) (denom : String) : Int := (alGet h.supply denom).getD 0

def Hub.credit (h : Hub) (acc denom : String) (amt : Int) : Hub :=
  { h with bal := alSet h.bal (acc, denom) (h.balance acc denom + amt) }

/-- `MintCoins` of one coin into the module account followed by
    `SendCoinsFromModuleToAccount`; the bank rejects non-positive coins. -/
def Hub.mintTo (h : Hub) (acc denom : String) (amt : Int) : M Hub :=
  if amt ≤ 0 then failM "invalid coins"
  else .ok { (h.credit acc denom amt) with supply := alSet h.supply denom (h.supplyOf denom + amt) }

/-- `SendCoinsFromAccountToModule` + `BurnCoins` of one coin. -/
def Hub.burnFrom (h : Hub) (acc denom : String) (amt : Int) : M Hub :=
  if amt ≤ 0 then failM "invalid coins"
  else if h.balance acc denom < amt then failM "insufficient funds"
  else .ok { (h.credit acc denom (-amt)) with supply := alSet h.supply denom (h.supplyOf denom - amt) }

/-! ### Token table -/

def Hub.tokenByDenom (h : Hub) (chain denom : String) : Option TokenInfo :=
  h.tokens.find? fun t => t.denom == denom && t.chain == chain
def Hub.tokenById (h : Hub) (id : Nat) : Option TokenInfo :=
  h.tokens.find? fun t => t.id == id
def Hub.tokenByExt (h : Hub) (chain ext : String) : Option TokenInfo :=
  h.tokens.find? fun t => t.chain == chain && t.extId == ext

def Hub.fromExternal (h : Hub) (chain ext : String) (a : Int) : Int :=
  match h.tokenByExt chain ext with
  | none => a
  | some t => fromExt t.dec a
def Hub.toExternal (h : Hub) (chain ext : String) (a : Int) : Int :=
  match h.tokenByExt chain ext with
  | none => a
  | some t => toExt t.dec a

def strip0x (s : String) : String :=
  if s.length > 2 && (s.take 2).toString == "0x" then (s.drop 2).toString else s

def Hub.holderValue (h : Hub) (addr : String) : Int :=
  (alGet h.holders (strip0x addr).toLower).getD 0

def Hub.commissionRateFor (h : Hub) (addrs : List String) (rate : Int) : Int :=
  let mx := addrs.foldl (fun m a => max (h.holderValue a) m) 0
  commissionRate rate mx

/-! ### Tx status -/

def stNotFound : Nat := 0
def stDeposit : Nat := 1
def stBatchCreated : Nat := 2
def stBatchExecuted : Nat := 3
def stRefunded : Nat := 4

def Hub.statusOf (h : Hub) (tx : String) : Nat := ((alGet h.status tx).map (·.1)).getD stNotFound

def Hub.setStatus (h : Hub) (tx : String) (st : Nat) (out : String) : Hub :=
  let st' := if h.statusOf tx == stRefunded then stRefunded else st
  { h with status := alSet h.status tx (st', out) }

/-! ### Pool -/

/-- `createSendToExternal`; amounts in hub units of `denom`.  Returns the new id. -/
def Hub.createSte (h : Hub) (chain sender recipient denom : String) (amount fee comm : Int)
    (txHash refundChain refundAddr : String) : M (Hub × Nat) := do
  let total := amount + fee + comm
  let some tok := h.tokenByDenom chain denom | failM "token not found"
  let h ← h.burnFrom sender denom total
  let c := h.chain chain
  let id := c.lastSteId + 1
  let ste : Ste := {
    id := id, sender := sender, recipient := recipient, tokenId := tok.id, extToken := tok.extId,
    amount := h.toExternal chain tok.extId amount,
    fee := h.toExternal chain tok.extId fee,
    comm := h.toExternal chain tok.extId comm,
    chain := chain, txHash := txHash, createdAt := h.time,
    refundAddr := refundAddr, refundChain := refundChain }
  let c := { c with lastSteId := id, pool := insertByKey poolKey ste c.pool }
  return (h.setChain chain c, id)

/-- `MsgSendToExternal` after `ValidateBasic`. -/
def Hub.sendToExternal (h : Hub) (sender chain recipient denom : String) (amount fee : Int)
    (txHash : String) : M (Hub × Nat) := do
  if amount ≤ 0 then failM "invalid amount"
  if fee < 0 then failM "invalid fee"
  if !h.hasChain chain then failM "invalid chain id"
  let some tok := h.tokenByDenom chain denom | failM "token not found"
  let rate := h.commissionRateFor ["<bech32>", recipient] tok.commission
  let comm := commissionOf rate (amount + fee)
  if amount - comm < 0 then panicM "negative coin amount"
  if comm < 0 then panicM "negative coin amount"
  h.createSte chain sender recipient denom (amount - comm) fee comm txHash "hub" sender

/-- The value re-minted for a pool entry. -/
def Hub.refundValue (h : Hub) (chain : String) (s : Ste) : Int :=
  h.fromExternal chain s.extToken (s.amount + s.fee + s.comm)

def Hub.denomOfTokenId (h : Hub) (id : Nat) : String :=
  match h.tokenById id with
  | some t => t.denom
  | none => s!"token/{id}"

/-- `cancelSendToExternal`.  Returns the state reached and whether it completed; on failure the
    state holds the writes made before the failing step (the expiry path keeps them, the message
    path is rolled back by the caller). -/
def Hub.cancelSte (h : Hub) (chain : String) (id : Nat) (sender : String) : Hub × Option Err :=
  let c := h.chain chain
  -- reverse iteration, last match wins
  match (c.pool.reverse.filter (fun s => s.id == id)).getLast? with
  | none => (h, some (.fail "id not found in send to external pool"))
  | some s =>
    if sender != s.sender then (h, some (.fail "can't cancel a message you didn't send"))
    else
      let denom := h.denomOfTokenId s.tokenId
      let total := h.refundValue chain s
      if total < 0 then (h, some (.panic "negative coin amount")) else
      -- `sdk.NewCoins` drops a zero coin; minting / sending the empty set succeeds
      let hMint : Hub :=
        if total == 0 then h
        else { h with supply := alSet h.supply denom (h.supplyOf denom + total) }
      let finish (h' : Hub) : Hub × Option Err :=
        let h' := h'.setStatus s.txHash stRefunded ""
        let c' := h'.chain chain
        (h'.setChain chain { c' with pool := eraseByKey poolKey (poolKey s) c'.pool }, none)
      if s.refundChain == "" then
        -- the minted coins stay in the module account
        finish (if total == 0 then hMint else hMint.credit moduleAcc denom total)
      else if s.refundChain == "hub" then
        finish (if total == 0 then hMint else hMint.credit sender denom total)
      else
        let h1 := if total == 0 then hMint else hMint.credit tempAddr denom total
        match h1.createSte s.refundChain tempAddr s.refundAddr denom total 0 0 "#" "" "" with
        | .error e => (h1, some e)
        | .ok (h2, _) => finish h2

/-- `MsgCancelSendToExternal`: transactional. -/
def Hub.cancelMsg (h : Hub) (sender chain : String) (id : Nat) : M Hub :=
  if id == 0 then failM "id cannot be 0"
  else if !h.hasChain chain then failM "invalid chain id"
  else match h.cancelSte chain id sender with
    | (h', none) => .ok h'
    | (_, some e) => .error e

/-! ### Batches -/

def Hub.batchTimeoutHeight (h : Hub) (chain : String) : Nat :=
  let p := h.params
  let avg : Nat :=
    if chain == "ethereum" then p.avgEth
    else if chain == "bsc" then p.avgBsc
    else if chain == "minter" then 5000
    else if chain == "hub" then p.avgBlock
    else 0
  let c := h.chain chain
  if c.obsCosmosHeight == 0 || c.obsExtHeight == 0 then 0
  else
    let projectedMillis := (h.height - c.obsCosmosHeight) * p.avgBlock
    (projectedMillis / avg) + c.obsExtHeight + p.targetTimeout / avg

/-- Entries selected by `iterateUnbatchedSendToExternalsByCoin`: the pool entries whose key has
    the token-id bytes as a byte prefix *and* whose token id is the requested one, highest key
    first, at most `maxN`. -/
def selectForBatch (pool : List Ste) (extToken : String) (maxN : Nat) : List Ste :=
  ((pool.filter fun s => isPrefix (strBytes extToken) (poolKey s) && s.extToken == extToken).reverse).take maxN

/-- `BuildBatchTx`: nothing is stored when nothing was selected. -/
def Hub.buildBatch (h : Hub) (chain extToken : String) (maxN : Nat) : Hub × Option Batch :=
  let c := h.chain chain
  let sel := selectForBatch c.pool extToken maxN
  if sel.isEmpty then (h, none) else
  let pool' := sel.foldl (fun p s => eraseByKey poolKey (poolKey s) p) c.pool
  let h := sel.foldl (fun h s => h.setStatus s.txHash stBatchCreated "") h
  let nonce := c.lastBatchNonce + 1
  let seq := c.outSeq + 1
  let b : Batch := { nonce := nonce, timeout := h.batchTimeoutHeight chain, height := h.height,
                     seq := seq, extToken := extToken, txs := sel }
  let c := { c with pool := pool', lastBatchNonce := nonce, outSeq := seq,
                    batches := insertByKey batchKey b c.batches }
  (h.setChain chain c, some b)

/-- `MsgRequestBatchTx`. -/
def Hub.requestBatch (h : Hub) (chain denom : String) : M (Hub × Option Batch) :=
  if !h.hasChain chain then failM "invalid chain id"
  else match h.tokenByDenom chain denom with
    | none => failM "token not found"
    | some t => .ok (h.buildBatch chain t.extId 100)

def Hub.findBatch (h : Hub) (chain extToken : String) (nonce : Nat) : Option Batch :=
  (h.chain chain).batches.find? fun b => batchKey b == batchKeyOf extToken nonce

/-- `CancelBatchTx`. -/
def Hub.cancelBatch (h : Hub) (chain extToken : String) (nonce : Nat) : M Hub :=
  if chain == "minter" then panicM "CANNOT CANCEL MINTER BATCH"
  else match h.findBatch chain extToken nonce with
    | none => panicM "nil batch"
    | some b =>
      let c := h.chain chain
      let pool' := b.txs.foldl (fun p s => insertByKey poolKey s p) c.pool
      .ok (h.setChain chain { c with pool := pool',
                                      batches := eraseByKey batchKey (batchKey b) c.batches })

/-- Bonded validators in the staking keeper's order (power descending, address ascending). -/
def Hub.bondedByPower (h : Hub) : List Validator :=
  isort (fun a b => a.power > b.power || (a.power == b.power && bytesLt (hexToBytes a.addr) (hexToBytes b.addr)))
    (h.staking.filter (·.bonded))

def Hub.lastPower (h : Hub) (v : String) : Nat :=
  match h.staking.find? (fun x => x.addr == v) with
  | some x => if x.bonded then x.power else 0
  | none => 0

def Hub.totalPower (h : Hub) : Nat := sumNats ((h.staking.filter (·.bonded)).map (·.power))

def zeroEth : String := "0x0000000000000000000000000000000000000000"
def maxU32 : Nat := 4294967295

/-- `CurrentSignerSet` (unsorted, in staking order). -/
def Hub.currentSigners (h : Hub) (chain : String) : M (List Signer) :=
  let c := h.chain chain
  let raw := (h.bondedByPower.filterMap fun v =>
    match alGet c.valExt v.addr with
    | none => none
    | some e => if e == zeroEth then none else some (Signer.mk v.power e))
  let total := sumNats (raw.map (·.power))
  if raw.isEmpty then .ok []
  else if total == 0 then panicM "division by zero"
  else .ok (raw.map fun s => { s with power := s.power * maxU32 / total })

/-! ### Fee and commission distribution of an executed batch (pure parts) -/

/-- Share of validator commission paid to a signer of normalised power `p` out of `totalPower`. -/
def commissionShare (totalComm : Int) (p totalPower : Nat) : Int := Int.tdiv (totalComm * p) totalPower

/-- `feePaid·price(base)/price(token)·150/100`, truncated: the relayer's gas cost in the token, plus 50 %. -/
def gasCostInToken (feePaid pBase pTok : Int) : Int :=
  decTruncateInt (decQuoInt64 (decMulInt64 (decQuo (decMul (toDec feePaid) pBase) pTok) 150) 100)

/-- The relayer reimbursement: the gas cost, capped by the fees collected in the batch. -/
def reimbursement (cost totalFee : Int) : Int := if cost ≥ totalFee then totalFee else cost

/-- Fees of the transfers that paid at least the average reimbursement share. -/
def goodFees (fees : List Int) (avg : Int) : Int := sumInts (fees.filter fun f => f ≥ avg)

/-- Pro-rata refund of what is left of the fees to a transfer that paid `cf`. -/
def refundShare (feeLeft cf good : Int) : Int := Int.tdiv (feeLeft * cf) good

/-- The fee kept for a transfer, in external units, after a refund given in hub units. -/
def feeKept (paidExt refundExt : Int) : Int := paidExt - refundExt

/-- `batchTxExecuted`. -/
def Hub.batchExecuted (h : Hub) (chain extToken : String) (nonce : Nat) (txHash : String)
    (feePaid : Int) (feePayer : String) : M Hub := do
  let some b := h.findBatch chain extToken nonce | return h
  -- cancel older batches of the same token (reverse key order), not on minter
  let h ← (if chain != "minter" then
      ((h.chain chain).batches.reverse.filter fun o => o.nonce < b.nonce && o.extToken == b.extToken).foldlM
        (fun (h : Hub) o => h.cancelBatch chain o.extToken o.nonce) h
    else pure h)
  let c := h.chain chain
  let h := h.setChain chain { c with batches := eraseByKey batchKey (batchKey b) c.batches }
  let some tok := h.tokenByExt chain b.extToken | panicM "token not found"
  let h := b.txs.foldl (fun (h : Hub) t =>
      let h := h.setStatus t.txHash stBatchExecuted txHash
      { h with feeRec := alSet h.feeRec t.txHash (t.comm, t.fee) }) h
  let totalComm := h.fromExternal chain tok.extId (sumInts (b.txs.map (·.comm)))
  let totalFee := h.fromExternal chain tok.extId (sumInts (b.txs.map (·.fee)))
  -- validators' commission
  let h ← (if totalComm > 0 then do
      let valset ← h.currentSigners "minter"
      let totalPower := sumNats (valset.map (·.power))
      let h ← h.mintTo tempAddr tok.denom totalComm
      valset.foldlM (fun (h : Hub) v => do
        if totalPower == 0 then panicM "division by zero"
        let amount := commissionShare totalComm v.power totalPower
        if amount ≤ 0 then return h
        match h.createSte "minter" tempAddr v.addr tok.denom amount 0 0 "#commission" "" "" with
        | .ok (h, _) => pure h
        | .error (.fail m) => panicM m
        | .error e => .error e) h
    else pure h)
  if totalFee ≤ 0 then return h
  let base ← (if chain == "ethereum" then pure (some "eth")
              else if chain == "bsc" then pure (some "bnb") else pure none : M (Option String))
  let some baseCoin := base | return h
  let some pBase := alGet h.prices baseCoin | panicM "price not found"
  let some pTok := alGet h.prices tok.denom | panicM "price not found"
  if pTok == 0 then panicM "division by zero"
  let amount := gasCostInToken feePaid pBase pTok
  if amount < 0 then panicM "negative coin amount"
  let fee := reimbursement amount totalFee
  if fee ≤ 0 then return h
  let h ← h.mintTo tempAddr tok.denom fee
  let h ← (match h.createSte "minter" tempAddr feePayer tok.denom fee 0 0 "#fee" "" "" with
    | .ok (h, _) => pure h
    | .error (.fail m) => panicM m
    | .error e => .error e : M Hub)
  let feeLeft := totalFee - fee
  if feeLeft ≤ 0 then return h
  let h ← h.mintTo tempAddr tok.denom feeLeft
  let n : Int := b.txs.length
  if n == 0 then panicM "division by zero"
  let avg := Int.tdiv fee n
  let conv (t : Ste) : Int := h.fromExternal chain tok.extId t.fee
  let good := goodFees (b.txs.map conv) avg
  b.txs.foldlM (fun (h : Hub) t => do
    let cf := conv t
    if cf < avg then return h
    if good == 0 then panicM "division by zero"
    let toRefund := refundShare feeLeft cf good
    if t.refundChain != "minter" then return h
    if toRefund ≤ 0 then return h
    let h ← (match h.createSte "minter" tempAddr t.refundAddr tok.denom toRefund 0 0 "#fee" "" "" with
      | .ok (h, _) => pure h
      | .error (.fail m) => panicM m
      | .error e => .error e : M Hub)
    match alGet h.feeRec t.txHash with
    | none => panicM "nil fee record"
    | some (vc, ef) =>
      return { h with feeRec := alSet h.feeRec t.txHash (vc, feeKept ef (h.toExternal chain tok.extId toRefund)) }) h

end Mhub2
