/-
  Arithmetic of `sdk.Int` / `sdk.Dec` as used by the bridge, over unbounded `Int`.
  `Dec` values are integers scaled by 10^18.
-/
import Mhub2.Basic
namespace Mhub2

def pow10 (n : Nat) : Int := (10 : Int) ^ n
def decOne : Int := pow10 18

/-- `keeper.convertDecimals`: `amount * 10^to / 10^from` with `big.Int.Div` (Euclidean). -/
def convertDecimals (fromD toD : Nat) (amount : Int) : Int :=
  if fromD = toD then amount else (amount * pow10 toD) / pow10 fromD

def hubDecimals : Nat := 18
def fromExt (d : Nat) (a : Int) : Int := convertDecimals d hubDecimals a
def toExt (d : Nat) (a : Int) : Int := convertDecimals hubDecimals d a

/-- `chopPrecisionAndRound`: divide by 10^18 rounding half to even, sign-symmetric. -/
def chopRound (x : Int) : Int :=
  let a : Nat := x.natAbs
  let q : Nat := a / 10^18
  let r : Nat := a % 10^18
  let q' : Nat := if r = 0 then q
            else if r < 5 * 10^17 then q
            else if r > 5 * 10^17 then q + 1
            else if q % 2 = 0 then q else q + 1
  if x < 0 then - (q' : Int) else (q' : Int)

/-- `chopPrecisionAndTruncate`: truncated division by 10^18. -/
def chopTrunc (x : Int) : Int := Int.tdiv x decOne

def decMul (a b : Int) : Int := chopRound (a * b)
def decQuo (a b : Int) : Int := chopRound (Int.tdiv (a * decOne * decOne) b)
def decMulInt64 (a : Int) (n : Int) : Int := a * n
def decQuoInt64 (a : Int) (n : Int) : Int := Int.tdiv a n
def toDec (i : Int) : Int := i * decOne
def decTruncateInt (a : Int) : Int := chopTrunc a

/-- Holder-discount tiers of `GetCommissionForHolder`: the commission *rate* (scaled). -/
def discountPct (holderValue : Int) : Int :=
  if holderValue ≥ 32 * decOne then 60
  else if holderValue ≥ 16 * decOne then 50
  else if holderValue ≥ 8 * decOne then 40
  else if holderValue ≥ 4 * decOne then 30
  else if holderValue ≥ 2 * decOne then 20
  else if holderValue ≥ 1 * decOne then 10
  else 0

def commissionRate (rate : Int) (holderValue : Int) : Int :=
  if holderValue ≤ 0 then rate
  else
    let p := discountPct holderValue
    if p = 0 then rate else rate - decQuoInt64 (decMulInt64 rate p) 100

/-- `rate.Mul(x.ToDec()).TruncateInt()`. -/
def commissionOf (rate : Int) (x : Int) : Int :=
  decTruncateInt (decMul rate (toDec x))

/-- `EventVoteRecordPowerThreshold`: `(66 * total + 99) / 100` with `sdk.Int.Quo` (truncated). -/
def voteThreshold (num add den : Int) (total : Int) : Int := Int.tdiv (num * total + add) den

def fits256 (x : Int) : Bool := x.natAbs < 2^256

end Mhub2
