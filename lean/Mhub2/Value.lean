/-
  Value accounting for the solvency property (C01): circulating supply and in-flight transfers
  of one bridged asset (denom), expressed in a common unit of 10^-36.
-/
import Mhub2.Step
namespace Mhub2

/-- Common decimals: every token's external decimals and the hub's 18 must not exceed it. -/
def commonDec : Nat := 36
def unitOf (d : Nat) : Int := pow10 (commonDec - d)

def Ste.total (s : Ste) : Int := s.amount + s.fee + s.comm

/-- All transfers of a chain that are still in flight: the pool and every stored batch. -/
def ChainSt.entries (c : ChainSt) : List Ste := c.pool ++ c.batches.flatMap (·.txs)

/-- In-flight value (amount + fee + commission, external units) of one token, in common units. -/
def Hub.inflightOf (h : Hub) (t : TokenInfo) : Int :=
  sumInts (((h.chain t.chain).entries.filter fun s => s.extToken == t.extId).map Ste.total) * unitOf t.dec

/-- In-flight value of a denom over all the chains that carry it. -/
def Hub.inflight (h : Hub) (denom : String) : Int :=
  sumInts ((h.tokens.filter fun t => t.denom == denom).map h.inflightOf)

/-- Vouchers in circulation plus everything still owed to external recipients, in common units. -/
def Hub.value (h : Hub) (denom : String) : Int :=
  h.supplyOf denom * unitOf hubDecimals + h.inflight denom

/-- Value of an external amount of token `t` in common units. -/
def extValue (t : TokenInfo) (a : Int) : Int := a * unitOf t.dec

/-- Configuration sanity assumed by the value lemmas: decimals within the common unit, one token
    per (chain, external id), one token per (chain, denom), one token per id. -/
structure Hub.TokensOK (h : Hub) : Prop where
  dec_le : ∀ t ∈ h.tokens, t.dec ≤ commonDec
  ext_unique : ∀ t1 ∈ h.tokens, ∀ t2 ∈ h.tokens, t1.chain = t2.chain → t1.extId = t2.extId → t1 = t2
  denom_unique : ∀ t1 ∈ h.tokens, ∀ t2 ∈ h.tokens, t1.chain = t2.chain → t1.denom = t2.denom → t1 = t2
  id_unique : ∀ t1 ∈ h.tokens, ∀ t2 ∈ h.tokens, t1.id = t2.id → t1 = t2

/-- Every in-flight transfer names a token of its chain (its token id and external id agree with
    the token table). -/
def Hub.EntriesOK (h : Hub) : Prop :=
  ∀ c, ∀ s ∈ (h.chain c).entries, ∃ t ∈ h.tokens, t.chain = c ∧ t.extId = s.extToken ∧ t.id = s.tokenId

end Mhub2
