/-
  Basic helpers shared by every model file.  Core Lean only (no Mathlib) so that the
  driver can be built as a `lean_exe`.
-/
namespace Mhub2

/-- Byte strings are lists of naturals `< 256` (the bound is not enforced by the type). -/
abbrev Bytes := List Nat

/-- Big-endian encoding of `n` into exactly `w` bytes (truncating high bytes, like
    `binary.BigEndian.PutUint64` for `w = 8` and `big.Int.FillBytes` for `w = 32`
    when the value fits). -/
def beBytes : Nat → Nat → Bytes
  | 0, _ => []
  | w+1, n => beBytes w (n / 256) ++ [n % 256]

/-- Minimal big-endian encoding (`big.Int.Bytes()`): no leading zero, `0 ↦ []`. -/
def minBytes (n : Nat) : Bytes :=
  if _h : n = 0 then [] else minBytes (n / 256) ++ [n % 256]
decreasing_by omega

def be8 (n : Nat) : Bytes := beBytes 8 n
def fill32 (n : Nat) : Bytes := beBytes 32 n

/-- Lexicographic comparison of byte strings (`bytes.Compare`): a proper prefix is smaller. -/
def bytesLt : Bytes → Bytes → Bool
  | [], [] => false
  | [], _ :: _ => true
  | _ :: _, [] => false
  | a :: as, b :: bs => if a < b then true else if b < a then false else bytesLt as bs

def bytesLe (a b : Bytes) : Bool := !bytesLt b a

def strBytes (s : String) : Bytes := s.toUTF8.toList.map (·.toNat)

/-- Is `p` a prefix of `l`? -/
def isPrefix : Bytes → Bytes → Bool
  | [], _ => true
  | _ :: _, [] => false
  | a :: as, b :: bs => a == b && isPrefix as bs

/-- Insert into a list kept sorted ascending by `key`, replacing an entry with an equal key
    (the semantics of `KVStore.Set`). -/
def insertByKey {α : Type} (key : α → Bytes) (x : α) : List α → List α
  | [] => [x]
  | y :: ys =>
    if bytesLt (key x) (key y) then x :: y :: ys
    else if bytesLt (key y) (key x) then y :: insertByKey key x ys
    else x :: ys

def eraseByKey {α : Type} (key : α → Bytes) (k : Bytes) : List α → List α
  | [] => []
  | y :: ys => if key y == k then ys else y :: eraseByKey key k ys

/-- Association lists. -/
def alGet {κ ν : Type} [BEq κ] (l : List (κ × ν)) (k : κ) : Option ν :=
  match l with
  | [] => none
  | (k', v) :: t => if k' == k then some v else alGet t k

def alSet {κ ν : Type} [BEq κ] (l : List (κ × ν)) (k : κ) (v : ν) : List (κ × ν) :=
  match l with
  | [] => [(k, v)]
  | (k', v') :: t => if k' == k then (k, v) :: t else (k', v') :: alSet t k v

def alErase {κ ν : Type} [BEq κ] (l : List (κ × ν)) (k : κ) : List (κ × ν) :=
  l.filter (fun p => !(p.1 == k))

def sumInts (l : List Int) : Int := l.foldl (· + ·) 0
def sumNats (l : List Nat) : Nat := l.foldl (· + ·) 0

/-- Insertion sort by a boolean "less than" (stable). -/
def insSorted {α : Type} (lt : α → α → Bool) (x : α) : List α → List α
  | [] => [x]
  | y :: ys => if lt x y then x :: y :: ys else y :: insSorted lt x ys

def isort {α : Type} (lt : α → α → Bool) (l : List α) : List α :=
  l.foldr (insSorted lt) []

def hexDigit (n : Nat) : Char :=
  if n < 10 then Char.ofNat (48 + n) else Char.ofNat (87 + n)

def hexOfBytes (b : Bytes) : String :=
  String.ofList (b.flatMap fun x => [hexDigit (x / 16), hexDigit (x % 16)])

def hexVal (c : Char) : Option Nat :=
  if '0' ≤ c ∧ c ≤ '9' then some (c.toNat - 48)
  else if 'a' ≤ c ∧ c ≤ 'f' then some (c.toNat - 87)
  else if 'A' ≤ c ∧ c ≤ 'F' then some (c.toNat - 55)
  else none

/-- `hex.DecodeString` as used through `common.Hex2Bytes`: decodes pairs until the first
    invalid one and returns what was decoded so far (errors are discarded by the caller). -/
def hex2bytesLoose : List Char → Bytes
  | a :: b :: rest =>
    match hexVal a, hexVal b with
    | some x, some y => (x * 16 + y) :: hex2bytesLoose rest
    | _, _ => []
  | _ => []

/-- Strict hex decoding: `none` on odd length or invalid digit. -/
def hex2bytes? : List Char → Option Bytes
  | [] => some []
  | a :: b :: rest =>
    match hexVal a, hexVal b, hex2bytes? rest with
    | some x, some y, some t => some ((x * 16 + y) :: t)
    | _, _, _ => none
  | [_] => none

end Mhub2
