/-
  The iterator/lock protocol of `store/cachekv` over `tm-db` MemDB (v0.6.6), as far as block
  processing can dead-lock on it.

  * A cachekv store keeps written keys in an unsorted dirty set until an iterator is created;
    `Iterator()` then moves the dirty keys of the range into the sorted MemDB, which needs the
    MemDB write lock whenever there is something to move.
  * An open MemDB iterator is fed by a producer goroutine that holds the MemDB read lock until it has
    pushed every item of the range into a channel with 64 slots (one more item is held by the
    iterator): the read lock is still held iff more than 65 items of the range are unconsumed.
  * So `Iterator()` blocks forever iff some open iterator still has more than 65 unconsumed
    items and a dirty key has to be moved.
-/
import Mhub2.Basic
namespace Mhub2.Lock

inductive SOp where
  | write                 -- Set/Delete of a key in the range: one more dirty key
  | openIter              -- store.Iterator()/ReverseIterator()
  | next (i : Nat)        -- consume one item of open iterator i
  | close (i : Nat)
  deriving Repr, DecidableEq

structure St where
  dirty : Nat := 0              -- unsorted dirty keys
  sorted : Nat := 0             -- keys in the sorted MemDB
  iters : List (Nat × Nat) := []  -- open iterators: (id, unconsumed items)
  nextId : Nat := 0
  deriving Repr, DecidableEq

def chanSlack : Nat := 65

/-- Does some open iterator's producer still hold the read lock? -/
def St.readLocked (s : St) : Bool := s.iters.any fun it => it.2 > chanSlack

/-- One store operation; `none` = the calling goroutine blocks forever. -/
def stepS (s : St) : SOp → Option St
  | .write => some { s with dirty := s.dirty + 1 }
  | .openIter =>
    if s.dirty > 0 && s.readLocked then none
    else
      let sorted := s.sorted + s.dirty
      some { dirty := 0, sorted := sorted, iters := s.iters ++ [(s.nextId, sorted)], nextId := s.nextId + 1 }
  | .next i => some { s with iters := s.iters.map fun it => if it.1 == i then (it.1, it.2 - 1) else it }
  | .close i => some { s with iters := s.iters.filter fun it => it.1 != i }

def run : St → List SOp → Option St
  | s, [] => some s
  | s, op :: ops => match stepS s op with
    | none => none
    | some s' => run s' ops

/-- The static discipline extracted from the sources: an iterator is never created while another
    one on the same store is open. -/
def Disciplined : St → List SOp → Prop
  | _, [] => True
  | s, op :: ops =>
    (op = .openIter → s.iters = []) ∧
    match stepS s op with
    | none => True
    | some s' => Disciplined s' ops

end Mhub2.Lock
