/-
  Ethereum-style addresses as strings: go-ethereum's `common.IsHexAddress`, and the canonical
  EIP-55 rendering `common.HexToAddress(s).Hex()` of a valid address.  Core Lean only.
-/
import Mhub2.Sha256
namespace Mhub2

def has0xPrefix : Bytes → Bool
  | 48 :: c :: _ => c == 120 || c == 88
  | _ => false

def isHexCharacter (c : Nat) : Bool :=
  (48 ≤ c && c ≤ 57) || (97 ≤ c && c ≤ 102) || (65 ≤ c && c ≤ 70)

def strip0xBytes (b : Bytes) : Bytes := if has0xPrefix b then b.drop 2 else b

/-- `common.IsHexAddress`: an optional `0x`/`0X`, then exactly 40 hex characters. -/
def isHexAddress (b : Bytes) : Bool :=
  (strip0xBytes b).length == 40 && (strip0xBytes b).all isHexCharacter

def lowerHexChar (c : Nat) : Nat := if 65 ≤ c && c ≤ 70 then c + 32 else c

def nibbles (b : Bytes) : List Nat := b.flatMap fun x => [x / 16, x % 16]

/-- EIP-55 rendering of 40 hex characters: `0x` and the lower-case digits, a letter in upper case
    where the corresponding nibble of keccak256(lower-case ascii) is at least 8. -/
def checksumHex (digits : Bytes) : Bytes :=
  let low := digits.map lowerHexChar
  [48, 120] ++ (low.zip (nibbles (keccak256 low))).map fun (c, n) => if 97 ≤ c && 8 ≤ n then c - 32 else c

/-- `common.HexToAddress(s).Hex()` for a valid hex address: the spelling (case, `0x`) is forgotten.
    Anything that is not a valid hex address is left as it is. -/
def canonAddr (s : String) : String :=
  let b := strBytes s
  if isHexAddress b then String.ofList ((checksumHex (strip0xBytes b)).map Char.ofNat) else s

end Mhub2
