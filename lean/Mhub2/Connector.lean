/-
  minter-connector: command validation, the resynchronisation scan on start-up
  (minter/minter.go GetLatestMinterBlockAndNonce) and the persisted cursor.
-/
import Mhub2.Basic
import Mhub2.Sha256
import Mhub2.Address
namespace Mhub2

/-- A Minter transaction as far as the connector looks at it. -/
inductive MTx where
  | send (toMultisig : Bool) (jsonOk : Bool) (cmdValid : Bool)   -- TypeSend
  | multisend (fromMultisig : Bool)
  | editMultisig (fromMultisig : Bool) (payloadNumeric : Option Nat)
  | other
  deriving Repr, BEq, DecidableEq

structure MBlock where
  height : Nat
  txs : List MTx
  deriving Repr

structure Cursor where
  lastChecked : Nat
  nextEvent : Nat
  nextBatch : Nat
  lastValset : Nat
  deriving Repr, BEq, DecidableEq

/-- `Command.ValidateAndComplete`. `recipientOk` stands for the address check of the command's
    type (hex address for ethereum/bsc, bech32 for hub). -/
def commandValid (typeKnown recipientOk : Bool) (fee : Option Int) (amount : Int) : Bool :=
  typeKnown && recipientOk &&
  match fee with
  | none => false
  | some f => !(f < 0) && !(amount - Int.tdiv amount 100 ≤ f)

/-! ### Command validation at byte level (`command.ValidateAndComplete`, go-ethereum `common.IsHexAddress`,
    `common.HexToAddress(..).Hex()`, `sdk.NewIntFromString`) -/

def isAsciiDigit (c : Nat) : Bool := 48 ≤ c && c ≤ 57

def digitsVal (b : Bytes) : Nat := b.foldl (fun acc c => acc * 10 + (c - 48)) 0

/-- Optional sign of a number literal. -/
def splitSign : Bytes → Bool × Bytes
  | 45 :: r => (true, r)
  | 43 :: r => (false, r)
  | r => (false, r)

/-- Value of a digit character as `math/big` reads it for bases up to 36 (`none`: not a digit). -/
def goDigitVal (c : Nat) : Option Nat :=
  if 48 ≤ c && c ≤ 57 then some (c - 48)
  else if 97 ≤ c && c ≤ 122 then some (c - 97 + 10)
  else if 65 ≤ c && c ≤ 90 then some (c - 65 + 10)
  else none

/-- State of `nat.scan`'s digit loop: value so far, digits counted, previous character was an
    underscore, an underscore in a wrong place was seen. -/
structure ScanAcc where
  val : Nat
  count : Nat
  prevUnderscore : Bool
  prevDigit : Bool       -- `prev == '0'` in the Go source: a digit (or the base prefix) precedes
  invalSep : Bool

/-- The digit loop of `nat.scan` (base 0 call: underscores allowed): consumes digits of base `b` and
    underscores; returns the accumulator and the unread rest. -/
def goScanDigits (b : Nat) : ScanAcc → Bytes → ScanAcc × Bytes
  | a, [] => (a, [])
  | a, c :: rest =>
    if c == 95 then
      goScanDigits b { a with invalSep := a.invalSep || !a.prevDigit, prevUnderscore := true, prevDigit := false } rest
    else
      match goDigitVal c with
      | some d =>
        if d < b then goScanDigits b { a with val := a.val * b + d, count := a.count + 1, prevUnderscore := false, prevDigit := true } rest
        else (a, c :: rest)
      | none => (a, c :: rest)

/-- `new(big.Int).SetString(s, 0)`: optional sign; base prefix `0x`/`0X`, `0b`/`0B`, `0o`/`0O` or a
    leading `0` (octal), else decimal; underscores between digits or after the prefix; the whole string
    must be consumed and contain at least one digit. -/
def goScanNat (r : Bytes) : Option (ScanAcc × Bytes) :=
  match r with
  | 48 :: [] => some ({ val := 0, count := 1, prevUnderscore := false, prevDigit := true, invalSep := false }, [])
  | 48 :: c :: rest =>
    let start : ScanAcc := { val := 0, count := 0, prevUnderscore := false, prevDigit := true, invalSep := false }
    if c == 98 || c == 66 then
      let (a, u) := goScanDigits 2 start rest
      if a.count == 0 then none else some (a, u)
    else if c == 111 || c == 79 then
      let (a, u) := goScanDigits 8 start rest
      if a.count == 0 then none else some (a, u)
    else if c == 120 || c == 88 then
      let (a, u) := goScanDigits 16 start rest
      if a.count == 0 then none else some (a, u)
    else
      -- legacy octal: the leading 0 is the prefix; no further digit still reads as 0
      some (goScanDigits 8 start (c :: rest))
  | _ =>
    let (a, u) := goScanDigits 10 { val := 0, count := 0, prevUnderscore := false, prevDigit := false, invalSep := false } r
    if a.count == 0 then none else some (a, u)

def goSetString0 (s : Bytes) : Option Int :=
  match goScanNat (splitSign s).2 with
  | none => none
  | some (a, u) =>
    if a.invalSep || a.prevUnderscore || !u.isEmpty then none
    else some (if (splitSign s).1 then -(a.val : Int) else (a.val : Int))

/-- `sdk.NewIntFromString`: `big.Int.SetString(s, 0)` and at most 256 bits. -/
def parseSdkInt (b : Bytes) : Option Int :=
  match goSetString0 b with
  | none => none
  | some v => if v.natAbs ≥ 2 ^ 256 then none else some v

/-- `ValidateAndComplete` on the raw strings: `some r` = accepted, with the completed recipient `r`.
    `hubRecipientOk` stands for `sdk.AccAddressFromBech32` (not modelled). -/
def commandCheck (type : String) (recipient : Bytes) (hubRecipientOk : Bool) (fee : Bytes) (amount : Int) : Option Bytes :=
  let r : Option Bytes :=
    if type == "send_to_ethereum" || type == "send_to_bsc" then
      if isHexAddress recipient then some (checksumHex (strip0xBytes recipient)) else none
    else if type == "send_to_hub" then
      if hubRecipientOk then some recipient else none
    else none
  match r, parseSdkInt fee with
  | some r, some f => if !(f < 0) && !(amount - Int.tdiv amount 100 ≤ f) then some r else none
  | _, _ => none

/-- Does the resync scan count this transaction as a bridge event? -/
def countsInResync : MTx → Bool
  | .send toM jsonOk valid => toM && jsonOk && valid
  | .multisend fromM => fromM
  | .editMultisig fromM p => fromM && p.isSome
  | .other => false

/-- Does the relay scan (`relayMinterEvents`) turn this transaction into a claim? -/
def countsInRelay : MTx → Bool
  | .send toM jsonOk valid => toM && jsonOk && valid
  | .multisend fromM => fromM
  | .editMultisig fromM p => fromM && p.isSome
  | .other => false

structure ScanSt where
  cur : Cursor
  commits : List Cursor      -- every persisted cursor, oldest first
  stopped : Bool             -- early return taken

/-- One transaction of the resync scan in block `height`. -/
def resyncTx (ack : Nat) (height : Nat) (s : ScanSt) (tx : MTx) : ScanSt :=
  if s.stopped then s
  else if !countsInResync tx then s
  else if ack > 0 && ack < s.cur.nextEvent then
    let c := { s.cur with lastChecked := height - 1 }
    { cur := c, commits := s.commits ++ [c], stopped := true }
  else
    match tx with
    | .send .. => { s with cur := { s.cur with nextEvent := s.cur.nextEvent + 1 } }
    | .multisend _ => { s with cur := { s.cur with nextEvent := s.cur.nextEvent + 1, nextBatch := s.cur.nextBatch + 1 } }
    | .editMultisig _ (some n) => { s with cur := { s.cur with nextEvent := s.cur.nextEvent + 1, lastValset := n } }
    | _ => s

def resyncBlock (ack : Nat) (s : ScanSt) (b : MBlock) : ScanSt :=
  if s.stopped then s
  else
    let s' := b.txs.foldl (resyncTx ack b.height) s
    if s'.stopped then s'
    else
      let c := { s'.cur with lastChecked := b.height }
      { s' with cur := c, commits := s'.commits ++ [c] }

/-- `GetLatestMinterBlockAndNonce`: scan the blocks above the persisted cursor, in order. -/
def resync (start : Cursor) (ack : Nat) (chain : List MBlock) : ScanSt :=
  (chain.filter fun b => b.height > start.lastChecked).foldl (resyncBlock ack) { cur := start, commits := [], stopped := false }

/-- Number of bridge events in blocks with `lo < height ≤ hi`. -/
def eventsBetween (chain : List MBlock) (lo hi : Nat) : Nat :=
  sumNats ((chain.filter fun b => lo < b.height && b.height ≤ hi).map fun b => (b.txs.filter countsInResync).length)

/-- A persisted cursor is consistent with the history relative to a consistent start. -/
def consistent (chain : List MBlock) (start c : Cursor) : Bool :=
  c.lastChecked ≥ start.lastChecked && c.nextEvent == start.nextEvent + eventsBetween chain start.lastChecked c.lastChecked

/-! ### The live loop: `relayMinterEvents` (cmd/mhub-minter-connector/main.go) -/

/-- A claim handed to the tx committer. -/
inductive Claim where
  | deposit (eventNonce height : Nat)
  | batch (eventNonce batchNonce height : Nat)
  | valset (eventNonce valsetNonce height : Nat)
  deriving Repr, BEq, DecidableEq

def Claim.nonce : Claim → Nat
  | .deposit n _ => n
  | .batch n _ _ => n
  | .valset n _ _ => n

def Claim.height : Claim → Nat
  | .deposit _ h => h
  | .batch _ _ h => h
  | .valset _ _ h => h

structure RelaySt where
  cur : Cursor
  claims : List Claim        -- in the order they are found (= event-nonce order)
  commits : List Cursor

/-- One transaction of the relay loop in block `height`. -/
def relayTx (height : Nat) (s : RelaySt) : MTx → RelaySt
  | .send toM jsonOk valid =>
    if toM && jsonOk && valid then
      { s with claims := s.claims ++ [.deposit s.cur.nextEvent height],
               cur := { s.cur with nextEvent := s.cur.nextEvent + 1 } }
    else s
  | .multisend fromM =>
    if fromM then
      { s with claims := s.claims ++ [.batch s.cur.nextEvent s.cur.nextBatch height],
               cur := { s.cur with nextEvent := s.cur.nextEvent + 1, nextBatch := s.cur.nextBatch + 1 } }
    else s
  | .editMultisig fromM (some n) =>
    if fromM then
      { s with claims := s.claims ++ [.valset s.cur.nextEvent n height],
               cur := { s.cur with nextEvent := s.cur.nextEvent + 1, lastValset := n } }
    else s
  | _ => s

/-- One block: the cursor moves to the block, its transactions are examined, and the status file is
    written only while no claim of this round is waiting to be sent. -/
def relayBlock (s : RelaySt) (b : MBlock) : RelaySt :=
  let s1 := { s with cur := { s.cur with lastChecked := b.height } }
  let s2 := b.txs.foldl (relayTx b.height) s1
  if s2.claims.isEmpty then { s2 with commits := s2.commits ++ [s2.cur] } else s2

/-- The highest block one round looks at: at most 100 above the cursor. -/
def relayLimit (start : Cursor) (latest : Nat) : Nat :=
  if latest - start.lastChecked > 100 then start.lastChecked + 100 else latest

/-- `relayMinterEvents`: one round from the cursor `start` with the node at height `latest`. -/
def relay (start : Cursor) (chain : List MBlock) (latest : Nat) : RelaySt :=
  let hi := relayLimit start latest
  let s := (chain.filter fun b => start.lastChecked < b.height && b.height ≤ hi).foldl relayBlock
    { cur := start, claims := [], commits := [] }
  if s.claims.isEmpty then s else { s with commits := s.commits ++ [s.cur] }

end Mhub2
