/-
  minter-connector: command validation, the resynchronisation scan on start-up
  (minter/minter.go GetLatestMinterBlockAndNonce) and the persisted cursor.
-/
import Mhub2.Basic
namespace Mhub2

/-- A Minter transaction as far as the connector looks at it. -/
inductive MTx where
  | send (toMultisig : Bool) (jsonOk : Bool) (cmdValid : Bool)   -- TypeSend
  | multisend (fromMultisig : Bool)
  | editMultisig (fromMultisig : Bool) (payloadNumeric : Option Nat)
  | other
  deriving Repr, BEq, DecidableEq

structure MBlock where
  height : Nat
  txs : List MTx
  deriving Repr

structure Cursor where
  lastChecked : Nat
  nextEvent : Nat
  nextBatch : Nat
  lastValset : Nat
  deriving Repr, BEq, DecidableEq

/-- `Command.ValidateAndComplete`. `recipientOk` stands for the address check of the command's
    type (hex address for ethereum/bsc, bech32 for hub). -/
def commandValid (typeKnown recipientOk : Bool) (fee : Option Int) (amount : Int) : Bool :=
  typeKnown && recipientOk &&
  match fee with
  | none => false
  | some f => !(f < 0) && !(amount - Int.tdiv amount 100 ≤ f)

/-- Does the resync scan count this transaction as a bridge event? -/
def countsInResync : MTx → Bool
  | .send toM jsonOk valid => toM && jsonOk && valid
  | .multisend fromM => fromM
  | .editMultisig fromM p => fromM && p.isSome
  | .other => false

/-- Does the relay scan (`relayMinterEvents`) turn this transaction into a claim? -/
def countsInRelay : MTx → Bool
  | .send toM jsonOk valid => toM && jsonOk && valid
  | .multisend fromM => fromM
  | .editMultisig fromM p => fromM && p.isSome
  | .other => false

structure ScanSt where
  cur : Cursor
  commits : List Cursor      -- every persisted cursor, oldest first
  stopped : Bool             -- early return taken

/-- One transaction of the resync scan in block `height`. -/
def resyncTx (ack : Nat) (height : Nat) (s : ScanSt) (tx : MTx) : ScanSt :=
  if s.stopped then s
  else if !countsInResync tx then s
  else if ack > 0 && ack < s.cur.nextEvent then
    let c := { s.cur with lastChecked := height - 1 }
    { cur := c, commits := s.commits ++ [c], stopped := true }
  else
    match tx with
    | .send .. => { s with cur := { s.cur with nextEvent := s.cur.nextEvent + 1 } }
    | .multisend _ => { s with cur := { s.cur with nextEvent := s.cur.nextEvent + 1, nextBatch := s.cur.nextBatch + 1 } }
    | .editMultisig _ (some n) => { s with cur := { s.cur with nextEvent := s.cur.nextEvent + 1, lastValset := n } }
    | _ => s

def resyncBlock (ack : Nat) (s : ScanSt) (b : MBlock) : ScanSt :=
  if s.stopped then s
  else
    let s' := b.txs.foldl (resyncTx ack b.height) s
    if s'.stopped then s'
    else
      let c := { s'.cur with lastChecked := b.height }
      { s' with cur := c, commits := s'.commits ++ [c] }

/-- `GetLatestMinterBlockAndNonce`: scan the blocks above the persisted cursor, in order. -/
def resync (start : Cursor) (ack : Nat) (chain : List MBlock) : ScanSt :=
  (chain.filter fun b => b.height > start.lastChecked).foldl (resyncBlock ack) { cur := start, commits := [], stopped := false }

/-- Number of bridge events in blocks with `lo < height ≤ hi`. -/
def eventsBetween (chain : List MBlock) (lo hi : Nat) : Nat :=
  sumNats ((chain.filter fun b => lo < b.height && b.height ≤ hi).map fun b => (b.txs.filter countsInResync).length)

/-- A persisted cursor is consistent with the history relative to a consistent start. -/
def consistent (chain : List MBlock) (start c : Cursor) : Bool :=
  c.lastChecked ≥ start.lastChecked && c.nextEvent == start.nextEvent + eventsBetween chain start.lastChecked c.lastChecked

/-! ### The live loop: `relayMinterEvents` (cmd/mhub-minter-connector/main.go) -/

/-- A claim handed to the tx committer. -/
inductive Claim where
  | deposit (eventNonce height : Nat)
  | batch (eventNonce batchNonce height : Nat)
  | valset (eventNonce valsetNonce height : Nat)
  deriving Repr, BEq, DecidableEq

def Claim.nonce : Claim → Nat
  | .deposit n _ => n
  | .batch n _ _ => n
  | .valset n _ _ => n

def Claim.height : Claim → Nat
  | .deposit _ h => h
  | .batch _ _ h => h
  | .valset _ _ h => h

structure RelaySt where
  cur : Cursor
  claims : List Claim        -- in the order they are found (= event-nonce order)
  commits : List Cursor

/-- One transaction of the relay loop in block `height`. -/
def relayTx (height : Nat) (s : RelaySt) : MTx → RelaySt
  | .send toM jsonOk valid =>
    if toM && jsonOk && valid then
      { s with claims := s.claims ++ [.deposit s.cur.nextEvent height],
               cur := { s.cur with nextEvent := s.cur.nextEvent + 1 } }
    else s
  | .multisend fromM =>
    if fromM then
      { s with claims := s.claims ++ [.batch s.cur.nextEvent s.cur.nextBatch height],
               cur := { s.cur with nextEvent := s.cur.nextEvent + 1, nextBatch := s.cur.nextBatch + 1 } }
    else s
  | .editMultisig fromM (some n) =>
    if fromM then
      { s with claims := s.claims ++ [.valset s.cur.nextEvent n height],
               cur := { s.cur with nextEvent := s.cur.nextEvent + 1, lastValset := n } }
    else s
  | _ => s

/-- One block: the cursor moves to the block, its transactions are examined, and the status file is
    written only while no claim of this round is waiting to be sent. -/
def relayBlock (s : RelaySt) (b : MBlock) : RelaySt :=
  let s1 := { s with cur := { s.cur with lastChecked := b.height } }
  let s2 := b.txs.foldl (relayTx b.height) s1
  if s2.claims.isEmpty then { s2 with commits := s2.commits ++ [s2.cur] } else s2

/-- The highest block one round looks at: at most 100 above the cursor. -/
def relayLimit (start : Cursor) (latest : Nat) : Nat :=
  if latest - start.lastChecked > 100 then start.lastChecked + 100 else latest

/-- `relayMinterEvents`: one round from the cursor `start` with the node at height `latest`. -/
def relay (start : Cursor) (chain : List MBlock) (latest : Nat) : RelaySt :=
  let hi := relayLimit start latest
  let s := (chain.filter fun b => start.lastChecked < b.height && b.height ≤ hi).foldl relayBlock
    { cur := start, claims := [], commits := [] }
  if s.claims.isEmpty then s else { s with commits := s.commits ++ [s.cur] }

end Mhub2
