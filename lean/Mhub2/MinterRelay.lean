/-
  minter-connector, Minter side (cmd/mhub-minter-connector/main.go: relayBatches, relayValsets):
  which of the hub's outgoing transactions a connector submits to the Minter multisig, with which
  weights and which signatures.  Core Lean only.
-/
import Mhub2.Contract
namespace Mhub2

/-- What the connector learns about one outgoing hub transaction from the hub's queries. -/
structure HubTx where
  seq : Nat        -- outgoing sequence number = nonce of the multisig transaction
  nonce : Nat      -- batch nonce / signer-set nonce
  nsigs : Nat      -- confirmations the hub returns for it
  deriving Repr, BEq, DecidableEq

/-- `relayBatches`: the batches are sorted by sequence, highest first (`sort.Slice`), the loop keeps
    the last one that has a confirmation — the signed batch with the lowest sequence — and gives up
    if its batch nonce is below the connector's own count of executed batches. -/
def pickBatch (lastBatchNonce : Nat) (bs : List HubTx) : Option HubTx :=
  match ((isort (fun a b => decide (a.seq > b.seq)) bs).filter fun b => decide (b.nsigs > 0)).getLast? with
  | none => none
  | some b => if b.nonce < lastBatchNonce then none else some b

/-- The loop of `relayValsets` over the sets in query order: remember every set that has a
    confirmation, stop at the first one whose nonce is above the last set the connector saw executed. -/
def pickValsetLoop (last : Nat) : Option HubTx → List HubTx → Option HubTx
  | cur, [] => cur
  | cur, v :: rest =>
    if v.nsigs > 0 then
      if v.nonce > last then some v else pickValsetLoop last (some v) rest
    else pickValsetLoop last cur rest

/-- `relayValsets`: the set chosen by the loop, unless it is not newer than the last executed one. -/
def pickValset (last : Nat) (vs : List HubTx) : Option HubTx :=
  match pickValsetLoop last none vs with
  | none => none
  | some v => if v.nonce ≤ last then none else some v

/-- The whole call: it starts with the validator's own "unsigned transactions" query and returns when
    the hub refuses it (the signer does not resolve to a bonded validator). -/
def relayBatchesPick (unsignedQueryOk : Bool) (lastBatchNonce : Nat) (bs : List HubTx) : Option HubTx :=
  if unsignedQueryOk then pickBatch lastBatchNonce bs else none

def relayValsetsPick (unsignedQueryOk : Bool) (last : Nat) (vs : List HubTx) : Option HubTx :=
  if unsignedQueryOk then pickValset last vs else none

/-- Signatures a batch submission carries: for every confirmation, once per multisig member with
    the same address (case-insensitive comparison is done by the caller: addresses are lower-cased). -/
def batchSignatures (members confirmers : List String) : List String :=
  confirmers.flatMap fun c => (members.filter fun m => m == c).map fun _ => c

/-- Signatures a signer-set submission carries: the confirmations of current members; all of them
    if the account is not a multisig yet. -/
def valsetSignatures (isMultisig : Bool) (members confirmers : List String) : List String :=
  confirmers.filter fun c => !isMultisig || members.contains c

end Mhub2
