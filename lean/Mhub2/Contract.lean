/-
  Hub2.sol as a state machine (updateValset, submitBatch, transferToChain with an ERC-20 whose
  whole supply starts in the contract), and the Minter multisig acceptance rule.
  Signatures are idealised: a supplied signature is the pair (address that signed, digest signed);
  the EVM side of the correspondence uses real secp256k1 signatures and `ecrecover`.
-/
import Mhub2.Abi
namespace Mhub2

structure ValsetArgs where
  validators : List Bytes
  powers : List Nat
  nonce : Nat
  deriving Repr, BEq

/-- One slot of the (v, r, s) arrays: absent (`v = 0`) or a signature by `signer` over `digest`. -/
inductive SigSlot where
  | absent
  | sig (signer : Bytes) (digest : Bytes)
  deriving Repr, BEq

structure Hub2St where
  gravityId : Bytes := []
  threshold : Nat := 0
  checkpoint : Bytes := []
  valsetNonce : Nat := 0
  eventNonce : Nat := 1
  batchNonces : List (Bytes × Nat) := []
  blockNumber : Nat := 1
  erc20 : List ((Bytes × Bytes) × Nat) := []     -- (token, holder) ↦ balance
  allowance : List ((Bytes × Bytes) × Nat) := [] -- (token, owner) ↦ allowance to the contract
  self : Bytes := []
  deriving Repr

def methodCheckpoint : Bytes := padRight (strBytes "checkpoint") 32
def methodBatch : Bytes := padRight (strBytes "transactionBatch") 32

def makeCheckpoint (gravityId : Bytes) (v : ValsetArgs) : Bytes :=
  keccak256 (abiEncode (solArgsSignerSet gravityId methodCheckpoint v.nonce v.validators v.powers))

/-- `checkValidatorSignatures`: `none` = revert. -/
def checkSigs (vals : List Bytes) (powers : List Nat) (sigs : List SigSlot) (theHash : Bytes) (threshold : Nat) : Bool :=
  let rec go : List Bytes → List Nat → List SigSlot → Nat → Option Nat
    | v :: vs, p :: ps, s :: ss, cum =>
      match s with
      | .absent => go vs ps ss cum
      | .sig signer digest =>
        if signer == v && digest == theHash then
          let cum' := cum + p
          if cum' > threshold then some cum' else go vs ps ss cum'
        else none
    | _, _, _, cum => some cum
  match go vals powers sigs 0 with
  | some cum => cum > threshold
  | none => false

inductive EvmLog where
  | valsetUpdated (nonce eventNonce : Nat)
  | batchExecuted (batchNonce : Nat) (token : Bytes) (eventNonce : Nat)
  | transferToChain (token sender : Bytes) (amount fee eventNonce : Nat)
  deriving Repr, BEq

def Hub2St.bal (s : Hub2St) (token holder : Bytes) : Nat := (alGet s.erc20 (token, holder)).getD 0
def Hub2St.lastBatchNonce (s : Hub2St) (token : Bytes) : Nat := (alGet s.batchNonces token).getD 0

/-- `updateValset`; `none` = revert. -/
def Hub2St.updateValset (s : Hub2St) (newV cur : ValsetArgs) (sigs : List SigSlot) : Option (Hub2St × EvmLog) :=
  if !(newV.nonce > cur.nonce) then none
  else if newV.validators.length != newV.powers.length then none
  else if !(cur.validators.length == cur.powers.length && cur.validators.length == sigs.length) then none
  else if makeCheckpoint s.gravityId cur != s.checkpoint then none
  else
    let newCp := makeCheckpoint s.gravityId newV
    if !checkSigs cur.validators cur.powers sigs newCp s.threshold then none
    else
      let s' := { s with checkpoint := newCp, valsetNonce := newV.nonce, eventNonce := s.eventNonce + 1 }
      some (s', .valsetUpdated newV.nonce s'.eventNonce)

def batchDigest (gravityId : Bytes) (b : BatchView) : Bytes :=
  keccak256 (abiEncode (solArgsBatch gravityId methodBatch b.amounts b.destinations b.fees b.nonce b.token b.timeout))

/-- ERC-20 transfers out of the contract, in order; `none` when a balance is insufficient. -/
def payOut (s : Hub2St) (token : Bytes) : List (Bytes × Nat) → Option Hub2St
  | [] => some s
  | (dest, amt) :: rest =>
    if s.bal token s.self < amt then none
    else
      let e1 := alSet s.erc20 (token, s.self) (s.bal token s.self - amt)
      let s1 := { s with erc20 := e1 }
      let s2 := { s1 with erc20 := alSet s1.erc20 (token, dest) (s1.bal token dest + amt) }
      payOut s2 token rest

/-- `submitBatch`; `none` = revert. -/
def Hub2St.submitBatch (s : Hub2St) (cur : ValsetArgs) (sigs : List SigSlot) (b : BatchView) : Option (Hub2St × EvmLog) :=
  if !(s.lastBatchNonce b.token < b.nonce) then none
  else if !(s.blockNumber < b.timeout) then none
  else if !(cur.validators.length == cur.powers.length && cur.validators.length == sigs.length) then none
  else if makeCheckpoint s.gravityId cur != s.checkpoint then none
  else if !(b.amounts.length == b.destinations.length && b.amounts.length == b.fees.length) then none
  else if !checkSigs cur.validators cur.powers sigs (batchDigest s.gravityId b) s.threshold then none
  else
    let s1 := { s with batchNonces := alSet s.batchNonces b.token b.nonce }
    match payOut s1 b.token (b.destinations.zip b.amounts) with
    | none => none
    | some s2 =>
      let s3 := { s2 with eventNonce := s2.eventNonce + 1 }
      some (s3, .batchExecuted b.nonce b.token s3.eventNonce)

/-- `transferToChain`: locks exactly `amount` (safeTransferFrom sender → contract). -/
def Hub2St.transferToChain (s : Hub2St) (token sender : Bytes) (amount fee : Nat) : Option (Hub2St × EvmLog) :=
  let al := (alGet s.allowance (token, sender)).getD 0
  if s.bal token sender < amount || al < amount then none
  else
    let s1 := { s with erc20 := alSet s.erc20 (token, sender) (s.bal token sender - amount),
                       allowance := alSet s.allowance (token, sender) (al - amount) }
    let s2 := { s1 with erc20 := alSet s1.erc20 (token, s1.self) (s1.bal token s1.self + amount),
                        eventNonce := s1.eventNonce + 1 }
    some (s2, .transferToChain token sender amount fee s2.eventNonce)

/-! ### Minter multisig -/

/-- Weights the connector installs for a signer set: `⌊p·1000/Σp⌋`; threshold 667. -/
def minterWeights (powers : List Nat) : List Nat :=
  let total := sumNats powers
  powers.map fun p => p * 1000 / total

def minterThreshold : Nat := 667

/-- A multisig transaction with nonce `n` is accepted iff `n` is the next nonce and the weights of
    the distinct signing members reach the threshold. -/
def minterAccepts (nextNonce n : Nat) (weights : List Nat) (signed : List Bool) : Bool :=
  n == nextNonce && sumNats ((weights.zip signed).filterMap fun (w, b) => if b then some w else none) ≥ minterThreshold

end Mhub2
