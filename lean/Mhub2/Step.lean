/-
  Line protocol: one operation per line in, one canonical line out.
-/
import Mhub2.Votes
import Mhub2.Generated.Facts
namespace Mhub2

def joinWith (sep : String) (l : List String) : String := sep.intercalate l

def showSte (s : Ste) : String :=
  joinWith "|" [toString s.id, s.sender, s.recipient, toString s.tokenId, s.extToken,
    toString s.amount, toString s.fee, toString s.comm, s.txHash, toString s.createdAt,
    s.refundAddr, s.refundChain]

def showSigners (l : List Signer) : String :=
  joinWith "," (l.map fun s => s!"{s.addr}:{s.power}")

def showBatch (b : Batch) : String :=
  joinWith "|" [toString b.nonce, toString b.timeout, toString b.height, toString b.seq, b.extToken,
    "[" ++ joinWith "," (b.txs.map fun t => toString t.id) ++ "]"]

def showSet (s : SignerSet) : String :=
  joinWith "|" [toString s.nonce, toString s.height, toString s.seq, showSigners s.signers]

def strLt (a b : String) : Bool := bytesLt (strBytes a) (strBytes b)

def Hub.dump (h : Hub) (what : List String) : String :=
  match what with
  | ["bank"] =>
    let bs := (h.bal.filter fun p => p.2 != 0).map fun p => s!"{p.1.1}/{p.1.2}={p.2}"
    let ss := (h.supply.filter fun p => p.2 != 0).map fun p => s!"{p.1}={p.2}"
    "bal " ++ joinWith ";" (isort strLt bs) ++ " supply " ++ joinWith ";" (isort strLt ss)
  | ["pool", c] => "pool " ++ joinWith ";" ((h.chain c).pool.map showSte)
  | ["batches", c] => "batches " ++ joinWith ";" ((h.chain c).batches.map showBatch)
  | ["sets", c] => "sets " ++ joinWith ";" ((h.chain c).sets.map showSet)
  | ["votes", c] =>
    let cs := h.chain c
    "votes " ++ joinWith ";" (cs.records.map fun r =>
        joinWith "|" [toString r.nonce, hexOfBytes r.hash, toString r.accepted, joinWith "," r.votes])
      ++ " last " ++ joinWith ";" (isort strLt (cs.lastNonceBy.map fun p => s!"{p.1}={p.2}"))
  | ["keys", c] =>
    let cs := h.chain c
    let f (l : List (String × String)) := joinWith ";" (isort strLt (l.map fun p => s!"{p.1}={p.2}"))
    "valext " ++ f cs.valExt ++ " orchval " ++ f cs.orchVal ++ " extorch " ++ f cs.extOrch
  | ["sigs", c] =>
    "sigs " ++ joinWith ";" ((h.chain c).sigs.map fun r => s!"{hexOfBytes r.index}|{r.val}|{r.sig}")
  | ["counters", c] =>
    let cs := h.chain c
    let los := match cs.lastObservedSet with
      | none => "none"
      | some (n, m) => s!"{n}|{showSigners m}"
    s!"counters ste={cs.lastSteId} batch={cs.lastBatchNonce} seq={cs.outSeq} set={cs.latestSetNonce} obs={cs.lastObserved} ch={cs.obsCosmosHeight} eh={cs.obsExtHeight} los={los}"
  | ["status"] =>
    "status " ++ joinWith ";" (isort strLt (h.status.map fun p => s!"{p.1}={p.2.1}/{p.2.2}"))
      ++ " feerec " ++ joinWith ";" (isort strLt (h.feeRec.map fun p => s!"{p.1}={p.2.1}/{p.2.2}"))
  | _ => "bad-dump"

def parseSigners (s : String) : Option (List Signer) :=
  if s == "-" then some []
  else (s.splitOn ",").mapM fun item =>
    match item.splitOn ":" with
    | [a, p] => p.toNat?.map fun pw => Signer.mk pw a
    | _ => none

def parseValidators (ws : List String) : Option (List Validator) :=
  ws.mapM fun item =>
    match item.splitOn ":" with
    | [a, p, b] => p.toNat?.map fun pw => Validator.mk a pw (b == "b")
    | _ => none

def parseEvent : List String → Option Event
  | ["sth", n, coin, amount, sender, receiver, height, tx] => do
    some (.sendToHub (← n.toNat?) coin (← amount.toInt?) sender receiver (← height.toNat?) tx)
  | ["ttc", n, coin, amount, fee, sender, rchain, receiver, height, tx] => do
    some (.transfer (← n.toNat?) coin (← amount.toInt?) (← fee.toInt?) sender rchain receiver (← height.toNat?) tx)
  | ["bex", coin, n, bn, height, tx, feePaid, feePayer] => do
    some (.batchExecuted coin (← n.toNat?) (← bn.toNat?) (← height.toNat?) tx (← feePaid.toInt?) feePayer)
  | ["sse", n, sn, height, tx, members] => do
    some (.signerSet (← n.toNat?) (← sn.toNat?) (← height.toNat?) (← parseSigners members) tx)
  | _ => none

def outM (r : M Hub) (old : Hub) (okMsg : String := "ok") : Hub × String :=
  match r with
  | .ok h => (h, okMsg)
  | .error (.fail _) => (old, "err")
  | .error (.panic _) => (old, "panic")

def mintsFee : Bool := Generated.ttcMintsAmountPlusFee

def step (h : Hub) (line : String) : Hub × String :=
  match (line.trimAscii.toString.splitOn " ").filter (· != "") with
  | ["reset"] => ({ params := { voteNum := Generated.voteThresholdNum, voteAdd := Generated.voteThresholdAdd, voteDen := Generated.voteThresholdDen } }, "ok")
  | ["init"] => (h, "ok")
  | ["chains", cs] => ({ h with chains := cs.splitOn "," }, "ok")
  | ["token", id, denom, chain, ext, dec, comm] =>
    match id.toNat?, dec.toNat?, comm.toInt? with
    | some i, some d, some c => ({ h with tokens := h.tokens ++ [TokenInfo.mk i denom chain ext d c] }, "ok")
    | _, _, _ => (h, "bad-op")
  | ["param", name, v] =>
    match v.toNat? with
    | none => if name == "gravity_id" then ({ h with params := { h.params with gravityId := v } }, "ok") else (h, "bad-op")
    | some n =>
      let p := h.params
      let p' := match name with
        | "outgoing_timeout_ms" => some { p with outgoingTimeoutMs := n }
        | "target_timeout" => some { p with targetTimeout := n }
        | "avg_block" => some { p with avgBlock := n }
        | "avg_eth" => some { p with avgEth := n }
        | "avg_bsc" => some { p with avgBsc := n }
        | "window" => some { p with window := n }
        | _ => none
      match p' with
      | some p' => ({ h with params := p' }, "ok")
      | none => (h, "bad-op")
  | ["price", name, v] =>
    match v.toInt? with
    | some x => ({ h with prices := alSet h.prices name x }, "ok")
    | none => (h, "bad-op")
  | ["holder", addr, v] =>
    match v.toInt? with
    | some x => ({ h with holders := alSet h.holders addr.toLower x }, "ok")
    | none => (h, "bad-op")
  | "staking" :: ws =>
    match parseValidators ws with
    | some vs => ({ h with staking := vs }, "ok")
    | none => (h, "bad-op")
  | ["fund", acc, denom, amt] =>
    match amt.toInt? with
    | some a => outM (h.mintTo acc denom a) h
    | none => (h, "bad-op")
  | ["block", height, time] =>
    match height.toNat?, time.toNat? with
    | some ht, some t => ({ h with height := ht, time := t }, "ok")
    | _, _ => (h, "bad-op")
  | ["begin"] => outM h.beginBlock h
  | ["end"] => outM (h.endBlock mintsFee) h
  | ["send", sender, chain, recipient, denom, amount, fee, tx] =>
    match amount.toInt?, fee.toInt? with
    | some a, some f =>
      match h.sendToExternal sender chain recipient denom a f (hexOfBytes (sha256 (strBytes ("tx:" ++ tx)))) with
      | .ok (h', id) => (h', s!"ok id={id}")
      | .error (.fail _) => (h, "err")
      | .error (.panic _) => (h, "panic")
    | _, _ => (h, "bad-op")
  | ["cancel", sender, chain, id] =>
    match id.toNat? with
    | some i => outM (h.cancelMsg sender chain i) h
    | none => (h, "bad-op")
  | ["reqbatch", chain, denom] =>
    match h.requestBatch chain denom with
    | .ok (h', some b) => (h', s!"ok nonce={b.nonce}")
    | .ok (h', none) => (h', "ok nonce=none")
    | .error (.fail _) => (h, "err")
    | .error (.panic _) => (h, "panic")
  | "vote" :: chain :: signer :: ev =>
    match parseEvent ev with
    | some e => if e.validBasic then outM (h.submitEvent chain signer e) h else (h, "err")
    | none => (h, "bad-op")
  | "hash" :: ev =>
    match parseEvent ev with
    | some e => (h, hexOfBytes e.hash)
    | none => (h, "bad-op")
  | ["confirm", chain, signer, "set", nonce, ext, sig] =>
    match nonce.toNat? with
    | some n => outM (h.confirm chain signer (.set n) ext sig) h
    | none => (h, "bad-op")
  | ["confirm", chain, signer, "batch", tok, nonce, ext, sig] =>
    match nonce.toNat? with
    | some n => outM (h.confirm chain signer (.batch tok n) ext sig) h
    | none => (h, "bad-op")
  | ["delegate", chain, val, orch, eth, signedBy, signedVal, signedNonce, accSeq] =>
    match signedNonce.toNat?, accSeq.toNat? with
    | some n, some s => outM (h.setDelegateKeys chain val orch eth signedBy signedVal n s) h
    | _, _ => (h, "bad-op")
  | ["q_confs", chain, "set", nonce] =>
    match nonce.toNat? with
    | some n => (h, "confs " ++ joinWith ";" ((h.confirmations chain (.set n)).map fun p => s!"{p.1}={p.2}"))
    | none => (h, "bad-op")
  | ["q_confs", chain, "batch", tok, nonce] =>
    match nonce.toNat? with
    | some n => (h, "confs " ++ joinWith ";" ((h.confirmations chain (.batch tok n)).map fun p => s!"{p.1}={p.2}"))
    | none => (h, "bad-op")
  | ["q_unsigned_sets", chain, signer] =>
    match h.unsignedSets chain signer with
    | .ok l => (h, "unsigned " ++ joinWith "," (l.map toString))
    | .error _ => (h, "err")
  | ["q_unsigned_batches", chain, signer] =>
    match h.unsignedBatches chain signer with
    | .ok l => (h, "unsigned " ++ joinWith "," (l.map fun p => s!"{p.1}/{p.2}"))
    | .error _ => (h, "err")
  | ["q_lastnonce", chain, signer] =>
    match h.signerValidator chain signer with
    | .ok v => (h, s!"lastnonce {(h.chain chain).lastNonceOf v}")
    | .error _ => (h, "err")
  | "dump" :: what => (h, h.dump what)
  | [] => (h, "")
  | _ => (h, "bad-op")

end Mhub2
