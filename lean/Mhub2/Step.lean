/-
  Line protocol: one operation per line in, one canonical line out.
-/
import Mhub2.Votes
import Mhub2.Oracle
import Mhub2.Abi
import Mhub2.Address
import Mhub2.Generated.Facts
namespace Mhub2

def joinWith (sep : String) (l : List String) : String := sep.intercalate l

def showSte (s : Ste) : String :=
  joinWith "|" [toString s.id, s.sender, s.recipient, toString s.tokenId, s.extToken,
    toString s.amount, toString s.fee, toString s.comm, s.txHash, toString s.createdAt,
    s.refundAddr, s.refundChain]

def showSigners (l : List Signer) : String :=
  joinWith "," (l.map fun s => s!"{s.addr}:{s.power}")

def showBatch (b : Batch) : String :=
  joinWith "|" [toString b.nonce, toString b.timeout, toString b.height, toString b.seq, b.extToken,
    "[" ++ joinWith "," (b.txs.map fun t => toString t.id) ++ "]"]

def showSet (s : SignerSet) : String :=
  joinWith "|" [toString s.nonce, toString s.height, toString s.seq, showSigners s.signers]

def strLt (a b : String) : Bool := bytesLt (strBytes a) (strBytes b)

def Hub.dump (h : Hub) (what : List String) : String :=
  match what with
  | ["bank"] =>
    let bs := (h.bal.filter fun p => p.2 != 0).map fun p => s!"{p.1.1}/{p.1.2}={p.2}"
    let ss := (h.supply.filter fun p => p.2 != 0).map fun p => s!"{p.1}={p.2}"
    "bal " ++ joinWith ";" (isort strLt bs) ++ " supply " ++ joinWith ";" (isort strLt ss)
  | ["pool", c] => "pool " ++ joinWith ";" ((h.chain c).pool.map showSte)
  | ["batches", c] => "batches " ++ joinWith ";" ((h.chain c).batches.map showBatch)
  | ["sets", c] => "sets " ++ joinWith ";" ((h.chain c).sets.map showSet)
  | ["votes", c] =>
    let cs := h.chain c
    "votes " ++ joinWith ";" (cs.records.map fun r =>
        joinWith "|" [toString r.nonce, hexOfBytes r.hash, toString r.accepted, joinWith "," r.votes])
      ++ " last " ++ joinWith ";" (isort strLt (cs.lastNonceBy.map fun p => s!"{p.1}={p.2}"))
  | ["keys", c] =>
    let cs := h.chain c
    let f (l : List (String × String)) := joinWith ";" (isort strLt (l.map fun p => s!"{p.1}={p.2}"))
    "valext " ++ f cs.valExt ++ " orchval " ++ f cs.orchVal ++ " extorch " ++ f cs.extOrch
  | ["sigs", c] =>
    "sigs " ++ joinWith ";" ((h.chain c).sigs.map fun r => s!"{hexOfBytes r.index}|{r.val}|{r.sig}")
  | ["counters", c] =>
    let cs := h.chain c
    let los := match cs.lastObservedSet with
      | none => "none"
      | some (n, m) => s!"{n}|{showSigners m}"
    s!"counters ste={cs.lastSteId} batch={cs.lastBatchNonce} seq={cs.outSeq} set={cs.latestSetNonce} obs={cs.lastObserved} ch={cs.obsCosmosHeight} eh={cs.obsExtHeight} los={los}"
  | ["tokens"] =>
    -- the token list in its stored order: lookups take the first matching entry
    "tokens " ++ joinWith ";" (h.tokens.map fun t => s!"{t.id}|{t.denom}|{t.chain}|{t.extId}|{t.dec}|{t.commission}")
  | ["status"] =>
    "status " ++ joinWith ";" (isort strLt (h.status.map fun p => s!"{p.1}={p.2.1}/{p.2.2}"))
      ++ " feerec " ++ joinWith ";" (isort strLt (h.feeRec.map fun p => s!"{p.1}={p.2.1}/{p.2.2}"))
  | _ => "bad-dump"

def parseSigners (s : String) : Option (List Signer) :=
  if s == "-" then some []
  else (s.splitOn ",").mapM fun item =>
    match item.splitOn ":" with
    | [a, p] => p.toNat?.map fun pw => Signer.mk pw a
    | _ => none

def parseItems (s : String) : Option (List (String × Int)) :=
  if s == "-" then some []
  else (s.splitOn ",").mapM fun item =>
    match item.splitOn "=" with
    | [a, v] => v.toInt?.map fun x => (a, x)
    | _ => none

def parseValidators (ws : List String) : Option (List Validator) :=
  ws.mapM fun item =>
    match item.splitOn ":" with
    | [a, p, b] => p.toNat?.map fun pw => Validator.mk a pw (b == "b")
    | _ => none

def parseEvent : List String → Option Event
  | ["sth", n, coin, amount, sender, receiver, height, tx] => do
    some (.sendToHub (← n.toNat?) coin (← amount.toInt?) sender receiver (← height.toNat?) tx)
  | ["ttc", n, coin, amount, fee, sender, rchain, receiver, height, tx] => do
    some (.transfer (← n.toNat?) coin (← amount.toInt?) (← fee.toInt?) sender rchain receiver (← height.toNat?) tx)
  | ["bex", coin, n, bn, height, tx, feePaid, feePayer] => do
    some (.batchExecuted coin (← n.toNat?) (← bn.toNat?) (← height.toNat?) tx (← feePaid.toInt?) feePayer)
  | ["sse", n, sn, height, tx, members] => do
    some (.signerSet (← n.toNat?) (← sn.toNat?) (← height.toNat?) (← parseSigners members) tx)
  | _ => none

/-- Operations of a history (what a line of the protocol parses to). -/
inductive Op where
  | reset
  | init
  | chains (cs : List String)
  | token (t : TokenInfo)
  | param (name : String) (v : Nat)
  | gravityId (v : String)
  | price (name : String) (v : Int)
  | holder (addr : String) (v : Int)
  | staking (vs : List Validator)
  | fund (acc denom : String) (amt : Int)
  | block (height time : Nat)
  | beginBlock
  | endBlock
  | send (sender chain recipient denom : String) (amount fee : Int) (txTag : String)
  | cancel (sender chain : String) (id : Nat)
  | reqBatch (chain denom : String)
  | vote (chain signer : String) (ev : Event)
  | hashOf (ev : Event)
  | confirm (chain signer : String) (k : ConfKind) (extSigner sig : String)
  | delegate (chain val orch eth signedBy signedVal : String) (signedNonce accSeq : Nat)
  | qConfs (chain : String) (k : ConfKind)
  | qUnsignedSets (chain signer : String)
  | qUnsignedBatches (chain signer : String)
  | qLastNonce (chain signer : String)
  | oprice (val : String) (epoch : Nat) (items : List (String × Int))
  | oholders (val : String) (epoch : Nat) (items : List (String × Int))
  | oend
  | dump (what : List String)
  | nop
  | bad

def parseOp (line : String) : Op :=
  match (line.trimAscii.toString.splitOn " ").filter (· != "") with
  | ["reset"] => .reset
  | ["init"] => .init
  | ["chains", cs] => .chains (cs.splitOn ",")
  | ["govchains", cs] => .chains (cs.splitOn ",")   -- a passed parameter-change proposal on mhub2/Chains
  | ["token", id, denom, chain, ext, dec, comm] =>
    match id.toNat?, dec.toNat?, comm.toInt? with
    | some i, some d, some c => .token (TokenInfo.mk i denom chain ext d c)
    | _, _, _ => .bad
  | ["param", name, v] =>
    match v.toNat? with
    | none => if name == "gravity_id" then .gravityId v else .bad
    | some n => .param name n
  | ["price", name, v] => match v.toInt? with | some x => .price name x | none => .bad
  | ["holder", addr, v] => match v.toInt? with | some x => .holder addr x | none => .bad
  | "staking" :: ws => match parseValidators ws with | some vs => .staking vs | none => .bad
  | ["fund", acc, denom, amt] => match amt.toInt? with | some a => .fund acc denom a | none => .bad
  | ["block", height, time] =>
    match height.toNat?, time.toNat? with
    | some ht, some t => .block ht t
    | _, _ => .bad
  | ["begin"] => .beginBlock
  | ["end"] => .endBlock
  | ["send", sender, chain, recipient, denom, amount, fee, tx] =>
    match amount.toInt?, fee.toInt? with
    | some a, some f => .send sender chain recipient denom a f tx
    | _, _ => .bad
  | ["cancel", sender, chain, id] => match id.toNat? with | some i => .cancel sender chain i | none => .bad
  | ["reqbatch", chain, denom] => .reqBatch chain denom
  | "vote" :: chain :: signer :: ev => match parseEvent ev with | some e => .vote chain signer e | none => .bad
  | "hash" :: ev => match parseEvent ev with | some e => .hashOf e | none => .bad
  | ["confirm", chain, signer, "set", nonce, ext, sig] =>
    -- the claimed signer is parsed (`common.HexToAddress`): its spelling does not matter
    match nonce.toNat? with | some n => .confirm chain signer (.set n) (canonAddr ext) sig | none => .bad
  | ["confirm", chain, signer, "batch", tok, nonce, ext, sig] =>
    match nonce.toNat? with | some n => .confirm chain signer (.batch tok n) (canonAddr ext) sig | none => .bad
  | ["delegatek", chain, val, orch, eth, signedBy, signedVal, signedNonce, accSeq] =>
    -- the same registration, its signature made by the repository's keys generator for (signedBy, signedVal, signedNonce)
    match signedNonce.toNat?, accSeq.toNat? with
    | some n, some s => .delegate chain val orch (canonAddr eth) (canonAddr signedBy) signedVal n s
    | _, _ => .bad
  | ["delegate", chain, val, orch, eth, signedBy, signedVal, signedNonce, accSeq] =>
    match signedNonce.toNat?, accSeq.toNat? with
    | some n, some s => .delegate chain val orch (canonAddr eth) (canonAddr signedBy) signedVal n s
    | _, _ => .bad
  | ["q_confs", chain, "set", nonce] => match nonce.toNat? with | some n => .qConfs chain (.set n) | none => .bad
  | ["q_confs", chain, "batch", tok, nonce] => match nonce.toNat? with | some n => .qConfs chain (.batch tok n) | none => .bad
  | ["q_unsigned_sets", chain, signer] => .qUnsignedSets chain signer
  | ["q_unsigned_batches", chain, signer] => .qUnsignedBatches chain signer
  | ["q_lastnonce", chain, signer] => .qLastNonce chain signer
  | ["oprice", val, epoch, items] =>
    match epoch.toNat?, parseItems items with | some e, some l => .oprice val e l | _, _ => .bad
  | ["oholders", val, epoch, items] =>
    -- a claim without a holders list fails stateless validation (modelled as the epoch-0 rejection)
    if items == "nil" then .oholders val 0 [] else
    match epoch.toNat?, parseItems items with | some e, some l => .oholders val e l | _, _ => .bad
  | ["oend"] => .oend
  | "dump" :: what => .dump what
  | [] => .nop
  | _ => .bad

def outM (r : M Hub) (old : Hub) (okMsg : String := "ok") : Hub × String :=
  match r with
  | .ok h => (h, okMsg)
  | .error (.fail _) => (old, "err")
  | .error (.panic _) => (old, "panic")

def mintsFee : Bool := Generated.ttcMintsAmountPlusFee

def initialHub : Hub :=
  { params := { voteNum := Generated.voteThresholdNum, voteAdd := Generated.voteThresholdAdd,
                voteDen := Generated.voteThresholdDen } }

def txHashOfTag (tag : String) : String := hexOfBytes (sha256 (strBytes ("tx:" ++ tag)))

/-- One operation on the model: new state and the canonical output line. -/
def apply (h : Hub) : Op → Hub × String
  | .reset => (initialHub, "ok")
  | .init => (h, "ok")
  | .chains cs => ({ h with chains := cs }, "ok")
  | .token t => ({ h with tokens := h.tokens ++ [t] }, "ok")
  | .param name n =>
    let p := h.params
    let p' := match name with
      | "outgoing_timeout_ms" => some { p with outgoingTimeoutMs := n }
      | "target_timeout" => some { p with targetTimeout := n }
      | "avg_block" => some { p with avgBlock := n }
      | "avg_eth" => some { p with avgEth := n }
      | "avg_bsc" => some { p with avgBsc := n }
      | "window" => some { p with window := n }
      | _ => none
    match p' with
    | some p' => ({ h with params := p' }, "ok")
    | none => (h, "bad-op")
  | .gravityId v => ({ h with params := { h.params with gravityId := v } }, "ok")
  | .price name x => ({ h with prices := alSet h.prices name x }, "ok")
  | .holder addr x => ({ h with holders := alSet h.holders addr.toLower x }, "ok")
  | .staking vs => ({ h with staking := vs }, "ok")
  | .fund acc denom a => outM (h.mintTo acc denom a) h
  | .block ht t => ({ h with height := ht, time := t }, "ok")
  | .beginBlock => outM h.beginBlock h
  | .endBlock => outM (h.endBlock mintsFee) h
  | .send sender chain recipient denom a f tx =>
    match h.sendToExternal sender chain recipient denom a f (txHashOfTag tx) with
    | .ok (h', id) => (h', s!"ok id={id}")
    | .error (.fail _) => (h, "err")
    | .error (.panic _) => (h, "panic")
  | .cancel sender chain i => outM (h.cancelMsg sender chain i) h
  | .reqBatch chain denom =>
    match h.requestBatch chain denom with
    | .ok (h', some b) => (h', s!"ok nonce={b.nonce}")
    | .ok (h', none) => (h', "ok nonce=none")
    | .error (.fail _) => (h, "err")
    | .error (.panic _) => (h, "panic")
  | .vote chain signer e => if e.validBasic then outM (h.submitEvent chain signer e) h else (h, "err")
  | .hashOf e => (h, hexOfBytes e.hash)
  | .confirm chain signer k ext sig => outM (h.confirm chain signer k ext sig) h
  | .delegate chain val orch eth signedBy signedVal n s =>
    outM (h.setDelegateKeys chain val orch eth signedBy signedVal n s) h
  | .qConfs chain k => (h, "confs " ++ joinWith ";" ((h.confirmations chain k).map fun p => s!"{p.1}={p.2}"))
  | .qUnsignedSets chain signer =>
    match h.unsignedSets chain signer with
    | .ok l => (h, "unsigned " ++ joinWith "," (l.map toString))
    | .error _ => (h, "err")
  | .qUnsignedBatches chain signer =>
    match h.unsignedBatches chain signer with
    | .ok l => (h, "unsigned " ++ joinWith "," (l.map fun p => s!"{p.1}/{p.2}"))
    | .error _ => (h, "err")
  | .qLastNonce chain signer =>
    match h.signerValidator chain signer with
    | .ok v => (h, s!"lastnonce {(h.chain chain).lastNonceOf v}")
    | .error _ => (h, "err")
  | .dump what => (h, h.dump what)
  | .oprice .. => (h, "oracle-op")
  | .oholders .. => (h, "oracle-op")
  | .oend => (h, "oracle-op")
  | .nop => (h, "")
  | .bad => (h, "bad-op")

/-- Hub plus the oracle module's own state. -/
structure World where
  hub : Hub := {}
  oracle : OracleSt := {}

def showItems (l : List (String × Int)) : String := joinWith "," (l.map fun p => s!"{p.1}={p.2}")

def outO (r : M OracleSt) (w : World) : World × String :=
  match r with
  | .ok o => ({ w with oracle := o }, "ok")
  | .error (.fail _) => (w, "err")
  | .error (.panic _) => (w, "panic")

def applyW (w : World) : Op → World × String
  | .reset => ({ hub := initialHub, oracle := {} }, "ok")
  | .oprice val epoch items => outO (oraclePriceClaim w.hub w.oracle val epoch items) w
  | .oholders val epoch items => outO (oracleHoldersClaim w.hub w.oracle val epoch items) w
  | .oend => outO (oracleEndBlock w.hub w.oracle Generated.oracleThresholdNum Generated.oracleThresholdAdd
      Generated.oracleThresholdDen) w
  | .dump ["oracle"] =>
    (w, s!"oracle epoch={w.oracle.epoch} prices={showItems w.oracle.prices} holders={showItems w.oracle.holders} pvotes={joinWith "," w.oracle.priceVotes} hvotes={joinWith "," w.oracle.holderVotes}")
  | op => let (h, o) := apply w.hub op; ({ w with hub := h }, o)

/-- `InitGenesis` with a hand-written genesis that carries outgoing transactions: the chain's sequence counter is set to the
    exported value `s` first, then `SetOutgoingTx` stamps every listed transaction with the next number.  Returns the stamped
    list and the final counter. -/
def importStamps : Nat → List α → List (α × Nat) × Nat
  | s, [] => ([], s)
  | s, x :: xs => let r := importStamps (s + 1) xs; ((x, s + 1) :: r.1, r.2)

/-- Pure queries that do not touch the state (checkpoint digests, ABI encodings). -/
def pureQuery : List String → Option String
  | ["ckpt_set", gid, nonce, members] => do
    let n ← nonce.toNat?
    let ms ← parseSigners members
    match checkpointSignerSet gid n ms with
    | some d => some (hexOfBytes d)
    | none => some "panic"
  | ["import_stamped", seq, n] => do
    let r := importStamps (← seq.toNat?) (List.range (← n.toNat?))
    some s!"stamps {joinWith "," (r.1.map fun p => toString p.2)} counter {r.2}"
  | ["ckpt_batch", gid, nonce, timeout, token, txs] => do
    let n ← nonce.toNat?
    let t ← timeout.toNat?
    let items ← (if txs == "-" then some [] else (txs.splitOn ";").mapM fun it =>
      match it.splitOn ":" with
      | [a, d, f] => do some ((← a.toNat?), hexToBytes (strip0x d), (← f.toNat?))
      | _ => none)
    let b : BatchView := { amounts := items.map (·.1), destinations := items.map (·.2.1), fees := items.map (·.2.2),
                           nonce := n, token := hexToBytes (strip0x token), timeout := t }
    match checkpointBatch gid b with
    | some d => some (hexOfBytes d)
    | none => some "panic"
  | ["ckpt_call", gid, amounts, tokens, feeAmounts, feeTokens, addr, payload, timeout, scope, nonce] => do
    let nats := fun (x : String) => if x == "-" then some [] else (x.splitOn ",").mapM (·.toNat?)
    let addrs := fun (x : String) => if x == "-" then ([] : List Bytes) else (x.splitOn ",").map fun a => hexToBytes (strip0x a)
    let hx := fun (x : String) => if x == "-" then ([] : Bytes) else hexToBytes x
    let c : CallView := { transferAmounts := (← nats amounts), transferTokens := addrs tokens,
                          feeAmounts := (← nats feeAmounts), feeTokens := addrs feeTokens,
                          logicContract := hexToBytes (strip0x addr), payload := hx payload,
                          timeout := (← timeout.toNat?), invalidationScope := hx scope,
                          invalidationNonce := (← nonce.toNat?) }
    match checkpointCall gid c with
    | some d => some (hexOfBytes d)
    | none => some "panic"
  | ["ethmsg", digest] => some (hexOfBytes (ethSignedMessage (hexToBytes digest)))
  | ["world", _] => some "ok"   -- a note to the monitors (how the external chains behave); no state
  | _ => none

/-- `ExportGenesis` followed by `InitGenesis` on a fresh instance (x/mhub2/keeper/genesis.go,
    x/oracle/keeper/genesis.go): what survives a genesis round trip at cosmos height `h.height`. -/
def ChainSt.exportImport (c : ChainSt) (height : Nat) : ChainSt :=
  -- delegate keys are exported from the validator→address index, the orchestrator looked up per address
  let keys := c.valExt.filterMap fun (v, e) => (alGet c.extOrch e).map fun o => (v, e, o)
  { lastObserved := c.lastObserved
    outSeq := c.outSeq
    lastBatchNonce := c.lastBatchNonce
    lastObservedSet := c.lastObservedSet
    obsExtHeight := c.obsExtHeight
    obsCosmosHeight := height
    lastNonceBy := c.lastNonceBy
    valExt := keys.foldl (fun l k => alSet l k.1 k.2.1) []
    orchVal := keys.foldl (fun l k => alSet l k.2.2 k.1) []
    extOrch := keys.foldl (fun l k => alSet l k.2.1 k.2.2) [] }

def Hub.exportImport (h : Hub) : Hub :=
  { chains := h.chains, tokens := h.tokens, params := h.params, staking := h.staking, prices := h.prices,
    holders := h.holders, bal := h.bal, supply := h.supply, height := h.height, time := h.time,
    cs := h.chains.map fun c => (c, (h.chain c).exportImport h.height) }

def OracleSt.exportImport (o : OracleSt) : OracleSt := { epoch := 1, prices := o.prices, holders := o.holders }

def step (w : World) (line : String) : World × String :=
  if line.trimAscii.toString == "export_import" then
    ({ hub := w.hub.exportImport, oracle := w.oracle.exportImport }, "ok")
  else
  match pureQuery ((line.trimAscii.toString.splitOn " ").filter (· != "")) with
  | some o => (w, o)
  | none => applyW w (parseOp line)

/-- The state reached by a history of operations from genesis. -/
def runOps (ops : List Op) : Hub := ops.foldl (fun h op => (apply h op).1) initialHub

end Mhub2
