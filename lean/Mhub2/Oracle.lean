/-
  x/oracle: price and holder claims, epoch processing, weighted median (keeper/attestation.go,
  keeper/attestation_handler.go, keeper/keeper.go, keeper/msg_server.go, abci.go).
-/
import Mhub2.Votes
namespace Mhub2

def maxU16 : Nat := 65535

/-- Index `k` (0-based) of the list obtained by repeating each value `weight` times, for pairs
    already sorted by value. -/
def weightedNth : List (Int × Nat) → Nat → Option Int
  | [], _ => none
  | (v, w) :: rest, k => if k < w then some v else weightedNth rest (k - w)

def totalWeight (l : List (Int × Nat)) : Nat := sumNats (l.map (·.2))

/-- The list the implementation builds: every value repeated `weight` times. -/
def expandWeighted (l : List (Int × Nat)) : List Int := l.flatMap fun p => List.replicate p.2 p.1

def sortByValue (l : List (Int × Nat)) : List (Int × Nat) := l.mergeSort fun a b => a.1 ≤ b.1

/-- The stored price for one name: the middle element of the sorted expanded list, or the
    truncated mean of the two middle elements when its length is even. -/
def weightedMedian (l : List (Int × Nat)) : Option Int :=
  let s := sortByValue l
  let W := totalWeight s
  if W == 0 then none
  else if W % 2 == 0 then
    match weightedNth s (W / 2), weightedNth s (W / 2 - 1) with
    | some a, some b => some (Int.tdiv (a + b) 2)
    | _, _ => none
  else weightedNth s (W / 2)

structure OracleSt where
  epoch : Nat := 1
  prices : List (String × Int) := []
  holders : List (String × Int) := []
  priceClaims : List (String × List (String × Int)) := []
  priceVotes : List String := []
  holderClaims : List (String × List (String × Int)) := []
  holderVotes : List String := []
  deriving Repr

/-- `GetNormalizedValPowers`: bonded validators, `p * 65535 / total`. -/
def Hub.normalizedPowers (h : Hub) : M (List (String × Nat)) :=
  let bonded := h.staking.filter (·.bonded)
  let total := sumNats (bonded.map (·.power))
  if bonded.isEmpty then .ok []
  else if total == 0 then panicM "division by zero"
  else .ok (bonded.map fun v => (v.addr, v.power * maxU16 / total))

def oracleThreshold (num add den : Int) (total : Int) : Int := Int.tdiv (num * total + add) den

/-- Add a vote once (the fixed `voteForAttestation`). -/
def addVoteOnce (votes : List String) (v : String) : List String :=
  if votes.contains v then votes else votes ++ [v]

def requiredPriceNames (h : Hub) : List String :=
  ["eth", "ethereum/gas", "bnb", "bsc/gas"] ++ h.tokens.map (·.denom)

/-- `MsgPriceClaim` (after `ValidateBasic`: epoch ≠ 0). -/
def oraclePriceClaim (h : Hub) (o : OracleSt) (val : String) (epoch : Nat) (prices : List (String × Int)) : M OracleSt := do
  if epoch == 0 then failM "nonce == 0"
  if (prices.map (·.1)).eraseDups.length != prices.length then failM "duplicated price"
  if (h.validator? val).isNone then failM "unknown validator"
  if o.epoch != epoch then return o
  if !(requiredPriceNames h).all (fun n => prices.any fun p => p.1 == n && p.2 > 0) then
    failM "required price not found or malformed"
  return { o with priceClaims := alSet o.priceClaims val prices, priceVotes := addVoteOnce o.priceVotes val }

def lowerNoDup (l : List String) : Bool :=
  let ls := l.map (·.toLower)
  ls.eraseDups.length == ls.length

/-- `MsgHoldersClaim` (after `ValidateBasic`: epoch ≠ 0, no duplicated address). -/
def oracleHoldersClaim (h : Hub) (o : OracleSt) (val : String) (epoch : Nat) (holders : List (String × Int)) : M OracleSt := do
  if epoch == 0 then failM "nonce == 0"
  if !lowerNoDup (holders.map (·.1)) then failM "duplicated address"
  if (h.validator? val).isNone then failM "unknown validator"
  if o.epoch != epoch then return o
  return { o with holderClaims := alSet o.holderClaims val holders, holderVotes := addVoteOnce o.holderVotes val }

/-- Prices computed by the handler from the votes' latest claims. -/
def computePrices (powers : List (String × Nat)) (votes : List String)
    (claims : List (String × List (String × Int))) : List (String × Int) :=
  let contributions : List (String × Int × Nat) := votes.flatMap fun v =>
    let p := (alGet powers v).getD 0
    if p == 0 then [] else ((alGet claims v).getD []).map fun item => (item.1, item.2, p)
  let names := isort (fun a b => bytesLt (strBytes a) (strBytes b)) (contributions.map (·.1)).eraseDups
  names.filterMap fun n =>
    (weightedMedian ((contributions.filter (·.1 == n)).map fun c => (c.2.1, c.2.2))).map fun m => (n, m)

/-- Canonical form of a holders list (`StabilizedClaimHash` pre-image): sorted "addr:value". -/
def holdersCanon (l : List (String × Int)) : List String :=
  isort (fun a b => bytesLt (strBytes a) (strBytes b)) (l.map fun p => s!"{p.1}:{p.2}")

/-- The adopted holders list, if some identical list gathered more than 2/3 of 65535. -/
def computeHolders (powers : List (String × Nat)) (votes : List String)
    (claims : List (String × List (String × Int))) : Option (List (String × Int)) :=
  let lists := votes.map fun v => (v, (alGet claims v).getD [])
  let canons := (lists.map fun p => holdersCanon p.2).eraseDups
  let winners := canons.filter fun c =>
    sumNats ((lists.filter fun p => holdersCanon p.2 == c).map fun p => (alGet powers p.1).getD 0) > maxU16 * 2 / 3
  match winners with
  | [] => none
  | c :: _ => ((lists.filter fun p => holdersCanon p.2 == c).getLast?).map (·.2)

/-- Does the vote list reach the threshold (powers added in vote order)? -/
def oracleReached (h : Hub) (num add den : Int) (votes : List String) : Bool :=
  reachesThreshold h.lastPower (oracleThreshold num add den h.totalPower) votes 0

/-- `ProcessCurrentEpoch`. -/
def oracleProcessEpoch (h : Hub) (o : OracleSt) (num add den : Int) : M OracleSt := do
  let o := { o with epoch := o.epoch + 1 }
  let o ← (if o.priceVotes.isEmpty then pure o else do
      let o' ← (if oracleReached h num add den o.priceVotes then do
          let powers ← h.normalizedPowers
          pure { o with prices := computePrices powers o.priceVotes o.priceClaims }
        else pure o)
      pure { o' with priceClaims := [], priceVotes := [] })
  if o.holderVotes.isEmpty then return o
  let o' ← (if oracleReached h num add den o.holderVotes then do
      let powers ← h.normalizedPowers
      match computeHolders powers o.holderVotes o.holderClaims with
      | some l => pure { o with holders := l }
      | none => pure o
    else pure o)
  return { o' with holderClaims := [], holderVotes := [] }

/-- `oracle.EndBlocker`. -/
def oracleEndBlock (h : Hub) (o : OracleSt) (num add den : Int) : M OracleSt :=
  if h.height % 5 == 0 then oracleProcessEpoch h o num add den else .ok o

end Mhub2
