/-
  Executable SHA-256 and Keccak-256 (used only by the driver, so that the model can compute the
  very identifiers the implementation computes; theorems treat the hash as an abstract function).
-/
import Mhub2.Basic
namespace Mhub2

namespace Sha256

def K : Array UInt32 := #[
  0x428a2f98,0x71374491,0xb5c0fbcf,0xe9b5dba5,0x3956c25b,0x59f111f1,0x923f82a4,0xab1c5ed5,
  0xd807aa98,0x12835b01,0x243185be,0x550c7dc3,0x72be5d74,0x80deb1fe,0x9bdc06a7,0xc19bf174,
  0xe49b69c1,0xefbe4786,0x0fc19dc6,0x240ca1cc,0x2de92c6f,0x4a7484aa,0x5cb0a9dc,0x76f988da,
  0x983e5152,0xa831c66d,0xb00327c8,0xbf597fc7,0xc6e00bf3,0xd5a79147,0x06ca6351,0x14292967,
  0x27b70a85,0x2e1b2138,0x4d2c6dfc,0x53380d13,0x650a7354,0x766a0abb,0x81c2c92e,0x92722c85,
  0xa2bfe8a1,0xa81a664b,0xc24b8b70,0xc76c51a3,0xd192e819,0xd6990624,0xf40e3585,0x106aa070,
  0x19a4c116,0x1e376c08,0x2748774c,0x34b0bcb5,0x391c0cb3,0x4ed8aa4a,0x5b9cca4f,0x682e6ff3,
  0x748f82ee,0x78a5636f,0x84c87814,0x8cc70208,0x90befffa,0xa4506ceb,0xbef9a3f7,0xc67178f2]

def H0 : Array UInt32 := #[
  0x6a09e667,0xbb67ae85,0x3c6ef372,0xa54ff53a,0x510e527f,0x9b05688c,0x1f83d9ab,0x5be0cd19]

@[inline] def rotr (x : UInt32) (n : UInt32) : UInt32 := (x >>> n) ||| (x <<< (32 - n))

def pad (msg : Bytes) : Bytes :=
  let l := msg.length
  let padLen := (119 - (l % 64)) % 64   -- zeros after 0x80 so that total ≡ 56 mod 64
  msg ++ [0x80] ++ List.replicate padLen 0 ++ beBytes 8 (l * 8)

def word (b : Array Nat) (i : Nat) : UInt32 :=
  UInt32.ofNat (b[i]! * 16777216 + b[i+1]! * 65536 + b[i+2]! * 256 + b[i+3]!)

def compress (h : Array UInt32) (blk : Array Nat) (off : Nat) : Array UInt32 := Id.run do
  let mut w : Array UInt32 := Array.mkEmpty 64
  for i in [0:16] do
    w := w.push (word blk (off + 4*i))
  for i in [16:64] do
    let w15 := w[i-15]!
    let w2 := w[i-2]!
    let s0 := rotr w15 7 ^^^ rotr w15 18 ^^^ (w15 >>> 3)
    let s1 := rotr w2 17 ^^^ rotr w2 19 ^^^ (w2 >>> 10)
    w := w.push (w[i-16]! + s0 + w[i-7]! + s1)
  let mut a := h[0]!; let mut b := h[1]!; let mut c := h[2]!; let mut d := h[3]!
  let mut e := h[4]!; let mut f := h[5]!; let mut g := h[6]!; let mut hh := h[7]!
  for i in [0:64] do
    let S1 := rotr e 6 ^^^ rotr e 11 ^^^ rotr e 25
    let ch := (e &&& f) ^^^ ((~~~ e) &&& g)
    let t1 := hh + S1 + ch + K[i]! + w[i]!
    let S0 := rotr a 2 ^^^ rotr a 13 ^^^ rotr a 22
    let maj := (a &&& b) ^^^ (a &&& c) ^^^ (b &&& c)
    let t2 := S0 + maj
    hh := g; g := f; f := e; e := d + t1; d := c; c := b; b := a; a := t1 + t2
  return #[h[0]! + a, h[1]! + b, h[2]! + c, h[3]! + d, h[4]! + e, h[5]! + f, h[6]! + g, h[7]! + hh]

def hash (msg : Bytes) : Bytes := Id.run do
  let p := (pad msg).toArray
  let mut h := H0
  for i in [0:p.size / 64] do
    h := compress h p (64 * i)
  return h.toList.flatMap fun x => beBytes 4 x.toNat

end Sha256

namespace Keccak

def RC : Array UInt64 := #[
  0x0000000000000001,0x0000000000008082,0x800000000000808A,0x8000000080008000,
  0x000000000000808B,0x0000000080000001,0x8000000080008081,0x8000000000008009,
  0x000000000000008A,0x0000000000000088,0x0000000080008009,0x000000008000000A,
  0x000000008000808B,0x800000000000008B,0x8000000000008089,0x8000000000008003,
  0x8000000000008002,0x8000000000000080,0x000000000000800A,0x800000008000000A,
  0x8000000080008081,0x8000000000008080,0x0000000080000001,0x8000000080008008]

def ROT : Array UInt64 := #[
  0, 1, 62, 28, 27,
  36, 44, 6, 55, 20,
  3, 10, 43, 25, 39,
  41, 45, 15, 21, 8,
  18, 2, 61, 56, 14]

@[inline] def rotl (x : UInt64) (n : UInt64) : UInt64 :=
  if n == 0 then x else (x <<< n) ||| (x >>> (64 - n))

/-- state index: A[x + 5*y] -/
def f1600 (st : Array UInt64) : Array UInt64 := Id.run do
  let mut a := st
  for r in [0:24] do
    -- theta
    let mut c : Array UInt64 := Array.mkEmpty 5
    for x in [0:5] do
      c := c.push (a[x]! ^^^ a[x+5]! ^^^ a[x+10]! ^^^ a[x+15]! ^^^ a[x+20]!)
    let mut a2 := a
    for x in [0:5] do
      let d := c[(x+4)%5]! ^^^ rotl c[(x+1)%5]! 1
      for y in [0:5] do
        a2 := a2.set! (x+5*y) (a[x+5*y]! ^^^ d)
    -- rho + pi
    let mut b : Array UInt64 := Array.replicate 25 0
    for x in [0:5] do
      for y in [0:5] do
        b := b.set! (y + 5*((2*x+3*y)%5)) (rotl a2[x+5*y]! ROT[x+5*y]!)
    -- chi
    let mut a3 : Array UInt64 := Array.replicate 25 0
    for x in [0:5] do
      for y in [0:5] do
        a3 := a3.set! (x+5*y) (b[x+5*y]! ^^^ ((~~~ b[(x+1)%5+5*y]!) &&& b[(x+2)%5+5*y]!))
    -- iota
    a := a3.set! 0 (a3[0]! ^^^ RC[r]!)
  return a

def lane (b : Array Nat) (off : Nat) : UInt64 := Id.run do
  let mut v : Nat := 0
  for i in [0:8] do
    v := v + b[off + i]! * 256 ^ i
  return UInt64.ofNat v

/-- Keccak-256 (original padding 0x01, as Ethereum uses). -/
def hash256 (msg : Bytes) : Bytes := Id.run do
  let rate := 136
  let l := msg.length
  let padLen := rate - (l % rate)
  let padding : Bytes :=
    if padLen == 1 then [0x81]
    else [0x01] ++ List.replicate (padLen - 2) 0 ++ [0x80]
  let p := (msg ++ padding).toArray
  let mut st : Array UInt64 := Array.replicate 25 0
  for blk in [0:p.size / rate] do
    for i in [0:17] do
      st := st.set! i (st[i]! ^^^ lane p (blk * rate + 8 * i))
    st := f1600 st
  let mut out : Bytes := []
  for i in [0:4] do
    let v := st[i]!.toNat
    out := out ++ (beBytes 8 v).reverse
  return out

end Keccak

def sha256 (b : Bytes) : Bytes := Sha256.hash b
def keccak256 (b : Bytes) : Bytes := Keccak.hash256 b

end Mhub2
