/-
  External event hashes, vote records, tally, event handler, signer sets, confirmations,
  delegate keys, begin/end block.
-/
import Mhub2.Ledger
import Mhub2.Sha256
namespace Mhub2

/-! ### Claim identifiers (types/external_event.go `Hash()`) -/

def ethAddrBytes (s : String) : Bytes :=
  -- `common.HexToAddress(s).Bytes()` for a canonical 0x + 40 hex string
  hexToBytes (strip0x s)

def signerLt (a b : Signer) : Bool :=
  if a.power == b.power then bytesLt (strBytes a.addr) (strBytes b.addr) else a.power > b.power

def sortSigners (l : List Signer) : List Signer := isort signerLt l

def signersHashPre (l : List Signer) : Bytes :=
  (sortSigners l).flatMap fun s => ethAddrBytes s.addr ++ be8 s.power

/-- The byte string fed to SHA-256 by each `Hash()`. -/
def Event.preimage : Event → Bytes
  | .sendToHub n coin amount sender receiver height _ =>
    be8 n ++ strBytes coin ++ minBytes amount.natAbs ++ hex2bytesLoose sender.toList
      ++ hexToBytes receiver ++ be8 height
  | .transfer n coin amount _ sender rchain receiver height _ =>
    be8 n ++ strBytes coin ++ minBytes amount.natAbs ++ hex2bytesLoose sender.toList
      ++ strBytes receiver ++ strBytes rchain ++ be8 height
  | .batchExecuted coin n bn height _ _ _ =>
    strBytes coin ++ be8 n ++ be8 bn ++ be8 height
  | .contractCall n scope inv height =>
    be8 n ++ scope ++ be8 inv ++ be8 height
  | .signerSet n sn height members _ =>
    be8 n ++ be8 sn ++ be8 height ++ sha256 (signersHashPre members)

def Event.hash (e : Event) : Bytes := sha256 e.preimage

/-- The part of `Validate` the generators can violate: nonce ≠ 0, amount ≥ 0. -/
def Event.validBasic : Event → Bool
  | .sendToHub n _ amount .. => n != 0 && amount ≥ 0
  | .transfer n _ amount .. => n != 0 && amount ≥ 0
  | .batchExecuted _ n .. => n != 0
  | .contractCall n .. => n != 0
  | .signerSet n .. => n != 0

/-! ### Staking view and signer resolution -/

def Hub.validator? (h : Hub) (v : String) : Option Validator := h.staking.find? (·.addr == v)

/-- `getSignerValidator`. -/
def Hub.signerValidator (h : Hub) (chain signer : String) : M String :=
  let target := match alGet (h.chain chain).orchVal signer with
    | none => signer
    | some v => v
  match h.validator? target with
  | none => failM "not orchestrator or validator"
  | some v => if v.bonded then .ok v.addr else failM "validator is not bonded"

/-! ### Vote records -/

/-- `getLastEventNonceByValidator`. -/
def ChainSt.lastNonceOf (c : ChainSt) (v : String) : Nat :=
  match alGet c.lastNonceBy v with
  | some n => n
  | none =>
    if c.records.isEmpty then c.lastObserved
    else
      let lowest := c.records.foldl (fun lo r => if r.accepted && r.nonce < lo then r.nonce else lo) c.lastObserved
      if lowest > 0 then lowest - 1 else 0

/-- `recordEventVote`. -/
def ChainSt.recordVote (c : ChainSt) (ev : Event) (hash : Bytes) (v : String) : M ChainSt :=
  let last := c.lastNonceOf v
  if ev.nonce != last + 1 && last != 0 then failM "non contiguous event nonce"
  else
    let key := be8 ev.nonce ++ hash
    let rec0 : VoteRec := match c.records.find? (fun r => recKey r == key) with
      | some r => r
      | none => { nonce := ev.nonce, hash := hash, ev := ev, votes := [], accepted := false }
    let r := { rec0 with votes := rec0.votes ++ [v] }
    .ok { c with records := insertByKey recKey r c.records,
                 lastNonceBy := alSet c.lastNonceBy v ev.nonce }

/-- Does the vote list reach the threshold, adding powers in vote order? -/
def reachesThreshold (power : String → Nat) (required : Int) : List String → Int → Bool
  | [], _ => false
  | v :: vs, acc =>
    let acc' := acc + (power v : Int)
    if acc' ≥ required then true else reachesThreshold power required vs acc'

/-! ### Event handler -/

def Hub.detectMaliciousSupply (h : Hub) (denom : String) (amount : Int) : Bool :=
  (h.supplyOf denom + amount).natAbs ≥ 2^256

def validAccHex (s : String) : Bool := s.length == 40 && (hex2bytes? s.toList).isSome

/-- `ExternalEventProcessor.Handle` for a deposit to a hub account. -/
def Hub.handleSendToHub (h : Hub) (chain coin : String) (amount : Int) (receiver txHash : String) : M Hub := do
  let some tok := h.tokenByExt chain coin | failM "token not found"
  let converted := h.fromExternal chain coin amount
  if converted < 0 then panicM "negative coin amount"
  if h.detectMaliciousSupply tok.denom converted then failM "malicious supply"
  let h ← h.mintTo receiver tok.denom converted
  return h.setStatus txHash stDeposit ""

/-- The amount minted for a `TransferToChainEvent`.  (Generated fact: `Amount.Add(Fee)`.) -/
def ttcMintAmount (amountPlusFee : Bool) (amount fee : Int) : Int :=
  if amountPlusFee then amount + fee else amount

def Hub.handle (h : Hub) (mintsFee : Bool) (chain : String) : Event → M Hub
  | .sendToHub _ coin amount _ receiver _ txHash => h.handleSendToHub chain coin amount receiver txHash
  | .transfer _ coin amount fee sender rchain receiver _ txHash => do
    if !h.hasChain rchain then failM "invalid chain id"
    if rchain == "hub" then
      let acc := ((strip0x receiver)).toLower
      if !validAccHex acc then failM "bad receiver"
      h.handleSendToHub chain coin (ttcMintAmount mintsFee amount fee) acc txHash
    else
      let h ← h.handleSendToHub chain coin (ttcMintAmount mintsFee amount fee) tempAddr txHash
      let some stok := h.tokenByExt chain coin | failM "token not found"
      let some rtok := h.tokenByDenom rchain stok.denom | failM "token not found"
      let cAmount := h.fromExternal chain coin amount
      let cFee := h.fromExternal chain coin fee
      let rate := h.commissionRateFor [sender, receiver] rtok.commission
      let comm := commissionOf rate cAmount
      if cFee < 0 then panicM "negative coin amount"
      if comm < 0 then panicM "negative coin amount"
      if cAmount < 0 then panicM "negative coin amount"
      if cAmount - comm < 0 then panicM "negative coin amount"
      let a1 := cAmount - comm
      if a1 < cFee then failM "amount is less than fee"
      let a2 := a1 - cFee
      let (h, _) ← h.createSte rchain tempAddr receiver rtok.denom a2 cFee comm txHash chain sender
      return h
  | .batchExecuted coin _ bn _ txHash feePaid feePayer =>
    h.batchExecuted chain coin bn txHash feePaid feePayer
  | .contractCall .. => .ok h
  | .signerSet _ sn _ members _ =>
    let c := h.chain chain
    .ok (h.setChain chain { c with lastObservedSet := some (sn, members) })

/-- Decision of `eventVoteRecordTally` + `TryEventVoteRecord` for one record of the snapshot read at
    the start of the tally: it is at `lastObserved + 1`, was not accepted when read, and its votes
    reach the required power (powers added in vote order). -/
def ChainSt.accepts (c : ChainSt) (power : String → Nat) (required : Int) (r : VoteRec) : Bool :=
  r.nonce == c.lastObserved + 1 && !r.accepted && reachesThreshold power required r.votes 0

/-- The bookkeeping writes made before the handler runs. -/
def ChainSt.markObserved (c : ChainSt) (r : VoteRec) (cosmosHeight : Nat) : ChainSt :=
  { c with lastObserved := r.nonce, obsExtHeight := r.ev.height, obsCosmosHeight := cosmosHeight,
           records := insertByKey recKey { r with accepted := true } c.records }

def Hub.requiredPower (h : Hub) : Int :=
  voteThreshold h.params.voteNum h.params.voteAdd h.params.voteDen h.totalPower

/-- `TryEventVoteRecord` for one record of the snapshot. -/
def Hub.tryRecord (h : Hub) (mintsFee : Bool) (chain : String) (r : VoteRec) : M Hub := do
  if r.nonce == (h.chain chain).lastObserved + 1 && r.accepted then
    panicM "attempting to process observed external event"
  if !(h.chain chain).accepts h.lastPower h.requiredPower r then return h
  let h := h.setChain chain ((h.chain chain).markObserved r h.height)
  -- processExternalEvent: cache context, commit only on nil error; a panic of the handler is
  -- recovered and treated like an error
  match h.handle mintsFee chain r.ev with
  | .ok h' => return h'
  | .error _ => return h

/-- `eventVoteRecordTally`: records are read once, in key order (nonce, then hash). -/
def Hub.tally (h : Hub) (mintsFee : Bool) (chain : String) : M Hub :=
  (h.chain chain).records.foldlM (fun (h : Hub) r => h.tryRecord mintsFee chain r) h

/-- The same tally on the vote bookkeeping alone (what `Hub.tally` does to `lastObserved` and
    `records`, the handler left out), returning the records it applied in order. -/
def ChainSt.tallyPure (c : ChainSt) (power : String → Nat) (required : Int) (height : Nat) :
    ChainSt × List VoteRec :=
  c.records.foldl (fun (acc : ChainSt × List VoteRec) r =>
    if acc.1.accepts power required r then (acc.1.markObserved r height, acc.2 ++ [r]) else acc) (c, [])

/-- `MsgSubmitExternalEvent` (after `ValidateBasic`). -/
def Hub.submitEvent (h : Hub) (chain signer : String) (ev : Event) : M Hub := do
  if !h.hasChain chain then failM "invalid chain id"
  let v ← h.signerValidator chain signer
  let c ← (h.chain chain).recordVote ev ev.hash v
  return h.setChain chain c

/-! ### Signer sets -/

def powerDiffNum (a b : List Signer) : Nat :=
  -- Σ over the union of addresses of |p_a − p_b|
  let addrs := (a.map (·.addr) ++ b.map (·.addr)).eraseDups
  sumNats (addrs.map fun x =>
    let pa := ((a.filter (·.addr == x)).getLast?.map (·.power)).getD 0
    let pb := sumNats ((b.filter (·.addr == x)).map (·.power))
    if pa ≥ pb then pa - pb else pb - pa)

def Hub.createSignerSet (h : Hub) (chain : String) : M Hub := do
  let c := h.chain chain
  let nonce := c.latestSetNonce + 1
  let cur ← h.currentSigners chain
  let seq := c.outSeq + 1
  let s : SignerSet := { nonce := nonce, height := h.height, seq := seq, signers := sortSigners cur }
  return h.setChain chain { c with latestSetNonce := nonce, outSeq := seq,
                                   sets := insertByKey setKey s c.sets }

def Hub.latestSignerSet (h : Hub) (chain : String) : Option SignerSet :=
  let c := h.chain chain
  c.sets.find? fun s => s.nonce == c.latestSetNonce

def Hub.createSignerSetTxs (h : Hub) (chain : String) : M Hub := do
  match h.latestSignerSet chain with
  | none => h.createSignerSet chain
  | some latest =>
    let cur ← h.currentSigners chain
    if 20 * powerDiffNum cur latest.signers > maxU32 then h.createSignerSet chain else return h

def Hub.pruneSignerSets (h : Hub) (chain : String) : Hub :=
  let c := h.chain chain
  match c.lastObservedSet with
  | none => h
  | some (obsNonce, _) =>
    if h.height < h.params.window then h
    else
      let earliest := h.height - h.params.window
      h.setChain chain { c with sets := c.sets.filter fun s => !(s.nonce < obsNonce && s.height < earliest) }

/-! ### Block processing -/

def Hub.cleanupTimedOutBatches (h : Hub) (chain : String) : M Hub :=
  let ext := (h.chain chain).obsExtHeight
  (h.chain chain).batches.reverse.foldlM (fun (h : Hub) b =>
    if b.timeout < ext then h.cancelBatch chain b.extToken b.nonce else pure h) h

def Hub.createBatches (h : Hub) (chain : String) : Hub :=
  if h.height % 2 == 0 then
    let ids := (h.chain chain).pool.map (·.extToken)
    let ids := isort (fun a b => bytesLt (strBytes a) (strBytes b)) ids.eraseDups
    ids.foldl (fun h id => (h.buildBatch chain id 100).1) h
  else h

def Hub.beginBlock (h : Hub) : M Hub :=
  h.chains.foldlM (fun (h : Hub) chain => do
    if chain == "hub" then return h
    let h ← (if chain != "minter" then h.cleanupTimedOutBatches chain else pure h)
    let h ← h.createSignerSetTxs chain
    let h := h.createBatches chain
    return h.pruneSignerSets chain) h

def Hub.refundExpired (h : Hub) (chain : String) : M Hub :=
  (h.chain chain).pool.reverse.foldlM (fun (h : Hub) s =>
    if s.createdAt * 1000 + h.params.outgoingTimeoutMs < h.time * 1000 then
      match h.cancelSte chain s.id s.sender with
      | (h', none) => pure h'
      | (h', some (.fail _)) => pure h'
      | (_, some e) => .error e
    else pure h) h

def Hub.endBlock (h : Hub) (mintsFee : Bool) : M Hub :=
  h.chains.foldlM (fun (h : Hub) chain => do
    let h ← h.tally mintsFee chain
    h.refundExpired chain) h

/-! ### Confirmations -/

inductive ConfKind where
  | set (nonce : Nat)
  | batch (extToken : String) (nonce : Nat)
  deriving Repr, BEq

def ConfKind.index (k : ConfKind) (chain : String) : Bytes :=
  match k with
  | .set n => setIndex chain n
  | .batch t n => batchIndex chain t n

def Hub.outgoingExists (h : Hub) (chain : String) (k : ConfKind) : Bool :=
  match k with
  | .set n => (h.chain chain).sets.any (·.nonce == n)
  | .batch t n => (h.findBatch chain t n).isSome

/-- `SubmitTxConfirmation` (after `ValidateBasic`: nonce ≠ 0, signer is a hex address). -/
def Hub.confirm (h : Hub) (chain signer : String) (k : ConfKind) (extSigner sig : String) : M Hub := do
  let n := match k with | .set n => n | .batch _ n => n
  if n == 0 then failM "nonce must be set"
  if !h.hasChain chain then failM "invalid chain id"
  let v ← h.signerValidator chain signer
  if !h.outgoingExists chain k then failM "couldn't find outgoing tx"
  let c := h.chain chain
  let eth := (alGet c.valExt v).getD zeroEth
  if eth == zeroEth then failM "validator has no external address registered"
  if eth != extSigner then failM "eth address does not match signer eth address"
  let r : SigRec := { index := k.index chain, val := v, sig := sig }
  if c.sigs.any (fun x => sigKey x == sigKey r) then failM "signature duplicate"
  return h.setChain chain { c with sigs := insertByKey sigKey r c.sigs }

/-- `SignerSetTxConfirmations` / `BatchTxConfirmations`: (external signer, signature) pairs. -/
def Hub.confirmations (h : Hub) (chain : String) (k : ConfKind) : List (String × String) :=
  let c := h.chain chain
  let idx := k.index chain
  (c.sigs.filter fun r => isPrefix idx (sigKey r)).map fun r =>
    -- the key suffix after the index is interpreted as the validator address
    let valBytes := (sigKey r).drop idx.length
    ((alGet c.valExt (hexOfBytes valBytes)).getD zeroEth, r.sig)

def Hub.unsignedSets (h : Hub) (chain signer : String) : M (List Nat) := do
  let v ← h.signerValidator chain signer
  let c := h.chain chain
  return (c.sets.reverse.filter fun s =>
    !(c.sigs.any fun r => sigKey r == setIndex chain s.nonce ++ hexToBytes v && r.sig != "")).map (·.nonce)

def Hub.unsignedBatches (h : Hub) (chain signer : String) : M (List (String × Nat)) := do
  let v ← h.signerValidator chain signer
  let c := h.chain chain
  let l := c.batches.reverse.filter fun b =>
    !(c.sigs.any fun r => sigKey r == batchIndex chain b.extToken b.nonce ++ hexToBytes v && r.sig != "")
  return (isort (fun (a b : Batch) => a.nonce < b.nonce) l).map fun b => (b.extToken, b.nonce)

/-! ### Delegate keys -/

/-- `SetDelegateKeys`.  The signature is abstracted to the triple the signer actually signed:
    the key that signed (`signedBy`), the validator string and the nonce in the signed message. -/
def Hub.setDelegateKeys (h : Hub) (chain val orch eth : String)
    (signedBy signedVal : String) (signedNonce accSeq : Nat) : M Hub := do
  if (h.validator? val).isNone then failM "validator not found"
  let c := h.chain chain
  if c.valExt.any (fun p => p.2 == eth) then failM "external address in use"
  if c.extOrch.any (fun p => p.2 == orch) then failM "orchestrator address in use"
  let nonce := if accSeq > 0 then accSeq - 1 else 0
  if !(signedBy == eth && signedVal == val && signedNonce == nonce) then failM "bad signature"
  return h.setChain chain { c with
    orchVal := alSet c.orchVal orch val,
    valExt := alSet c.valExt val eth,
    extOrch := alSet c.extOrch eth orch }

end Mhub2
