/-
  Solidity ABI encoding (head/tail) for the value kinds the bridge uses, and the checkpoint
  pre-images of signer sets and batches (types/outgoing_tx.go GetCheckpoint; Hub2.sol
  makeCheckpoint / submitBatch).
-/
import Mhub2.Ledger
import Mhub2.Sha256
namespace Mhub2

inductive AbiVal where
  | bytes32 (b : Bytes)            -- exactly 32 bytes
  | uint (n : Nat)                 -- uint256
  | address (b : Bytes)            -- 20 bytes
  | uintArr (l : List Nat)         -- uint256[]
  | addrArr (l : List Bytes)       -- address[]
  | dynBytes (b : Bytes)           -- bytes
  deriving Repr, BEq, DecidableEq

def word (n : Nat) : Bytes := beBytes 32 n
def padLeft32 (b : Bytes) : Bytes := List.replicate (32 - b.length) 0 ++ b
def padRight (b : Bytes) (n : Nat) : Bytes := b ++ List.replicate (n - b.length) 0
def roundUp32 (n : Nat) : Nat := (n + 31) / 32 * 32

def AbiVal.isDynamic : AbiVal → Bool
  | .uintArr _ => true
  | .addrArr _ => true
  | .dynBytes _ => true
  | _ => false

/-- Encoding of a value on its own: the head word for static values, the tail for dynamic ones. -/
def AbiVal.body : AbiVal → Bytes
  | .bytes32 b => padRight b 32
  | .uint n => word n
  | .address b => padLeft32 b
  | .uintArr l => word l.length ++ l.flatMap word
  | .addrArr l => word l.length ++ l.flatMap padLeft32
  | .dynBytes b => word b.length ++ padRight b (roundUp32 b.length)

/-- `abi.encode(args…)`: heads (static value or offset of the tail) followed by the tails. -/
def abiEncodeAux (headLen : Nat) : List AbiVal → Nat → Bytes × Bytes
  | [], _ => ([], [])
  | v :: vs, tailOff =>
    if v.isDynamic then
      let t := v.body
      let (hs, ts) := abiEncodeAux headLen vs (tailOff + t.length)
      (word (headLen + tailOff) ++ hs, t ++ ts)
    else
      let (hs, ts) := abiEncodeAux headLen vs tailOff
      (v.body ++ hs, ts)

def abiEncode (args : List AbiVal) : Bytes :=
  let (hs, ts) := abiEncodeAux (32 * args.length) args 0
  hs ++ ts

/-- A string as a fixed bytes32 (right padded with zeros), as `byteArrayToFixByteArray` /
    the `copy(x[:], []byte(name))` idiom do; `none` when longer than 32 bytes. -/
def fixed32 (s : String) : Option Bytes :=
  let b := strBytes s
  if b.length ≤ 32 then some (padRight b 32) else none

/-- Arguments the hub packs for a signer-set checkpoint (Go side). -/
def goArgsSignerSet (gravityId : Bytes) (nonce : Nat) (members : List Signer) : List AbiVal :=
  [.bytes32 gravityId, .bytes32 (padRight (strBytes "checkpoint") 32), .uint nonce,
   .addrArr (members.map fun m => hexToBytes (strip0x m.addr)), .uintArr (members.map (·.power))]

/-- Arguments `makeCheckpoint` encodes in Hub2.sol: `(gravityId, methodName, valsetNonce, validators, powers)`. -/
def solArgsSignerSet (gravityId : Bytes) (methodName : Bytes) (valsetNonce : Nat)
    (validators : List Bytes) (powers : List Nat) : List AbiVal :=
  [.bytes32 gravityId, .bytes32 methodName, .uint valsetNonce, .addrArr validators, .uintArr powers]

structure BatchView where
  amounts : List Nat
  destinations : List Bytes
  fees : List Nat
  nonce : Nat
  token : Bytes
  timeout : Nat
  deriving Repr, BEq

def goArgsBatch (gravityId : Bytes) (b : BatchView) : List AbiVal :=
  [.bytes32 gravityId, .bytes32 (padRight (strBytes "transactionBatch") 32), .uintArr b.amounts,
   .addrArr b.destinations, .uintArr b.fees, .uint b.nonce, .address b.token, .uint b.timeout]

/-- Arguments `submitBatch` encodes in Hub2.sol. -/
def solArgsBatch (gravityId methodName : Bytes) (amounts : List Nat) (destinations : List Bytes)
    (fees : List Nat) (batchNonce : Nat) (tokenContract : Bytes) (batchTimeout : Nat) : List AbiVal :=
  [.bytes32 gravityId, .bytes32 methodName, .uintArr amounts, .addrArr destinations, .uintArr fees,
   .uint batchNonce, .address tokenContract, .uint batchTimeout]

/-- A contract (logic) call as `ContractCallTx.GetCheckpoint` sees it. -/
structure CallView where
  transferAmounts : List Nat
  transferTokens : List Bytes
  feeAmounts : List Nat
  feeTokens : List Bytes
  logicContract : Bytes
  payload : Bytes
  timeout : Nat
  invalidationScope : Bytes
  invalidationNonce : Nat
  deriving Repr, BEq

/-- `var invalidationId [32]byte; copy(invalidationId[:], c.InvalidationScope[:])`: the first 32 bytes,
    right padded with zeros (what Solidity's `bytes32("…")` and the orchestrator produce). -/
def scope32 (s : Bytes) : Bytes := padRight (s.take 32) 32

def goArgsCall (gravityId : Bytes) (c : CallView) : List AbiVal :=
  [.bytes32 gravityId, .bytes32 (padRight (strBytes "logicCall") 32), .uintArr c.transferAmounts,
   .addrArr c.transferTokens, .uintArr c.feeAmounts, .addrArr c.feeTokens, .address c.logicContract,
   .dynBytes c.payload, .uint c.timeout, .bytes32 (scope32 c.invalidationScope), .uint c.invalidationNonce]

/-- Arguments `submitLogicCall` encodes in Hub2.sol. -/
def solArgsCall (gravityId methodName : Bytes) (transferAmounts : List Nat) (transferTokenContracts : List Bytes)
    (feeAmounts : List Nat) (feeTokenContracts : List Bytes) (logicContractAddress payload : Bytes)
    (timeOut : Nat) (invalidationId : Bytes) (invalidationNonce : Nat) : List AbiVal :=
  [.bytes32 gravityId, .bytes32 methodName, .uintArr transferAmounts, .addrArr transferTokenContracts,
   .uintArr feeAmounts, .addrArr feeTokenContracts, .address logicContractAddress, .dynBytes payload,
   .uint timeOut, .bytes32 invalidationId, .uint invalidationNonce]

def checkpointCall (gravityId : String) (c : CallView) : Option Bytes :=
  (fixed32 gravityId).map fun g => keccak256 (abiEncode (goArgsCall g c))

def checkpointSignerSet (gravityId : String) (nonce : Nat) (members : List Signer) : Option Bytes :=
  (fixed32 gravityId).map fun g => keccak256 (abiEncode (goArgsSignerSet g nonce members))

def checkpointBatch (gravityId : String) (b : BatchView) : Option Bytes :=
  (fixed32 gravityId).map fun g => keccak256 (abiEncode (goArgsBatch g b))

/-- The message an Ethereum signer signs: keccak256("\x19Ethereum Signed Message:\n32" ‖ digest). -/
def ethSignedMessage (digest : Bytes) : Bytes :=
  keccak256 ([0x19] ++ strBytes "Ethereum Signed Message:\n32" ++ digest)

end Mhub2
