/-
  The governance `ColdStorageTransferProposal` handler (`Keeper.ColdStorageTransfer`, keeper.go):
  per coin, mint the vouchers into the module's temporary account and immediately turn them into an
  outgoing transfer (fee 0, commission 0, refund chain "hub", refund address the temporary account)
  to the chain's hard-wired cold-storage address.  Not an operation of the line protocol (there is
  no governance module in the harness); the handler's shape is tied by regenerated facts
  (`Props/C01Cold.lean`).
-/
import Mhub2.Ledger
namespace Mhub2

/-- `GetColdStorageAddr`: three hard-wired chains, a panic otherwise. -/
def coldStorageAddr (chain : String) : Option String :=
  if chain == "minter" then some "0x7072558b2b91e62dbed78e9a3453e5c9e01fec5e"
  else if chain == "ethereum" then some "0x58BD8047F441B9D511aEE9c581aEb1caB4FE0b6d"
  else if chain == "bsc" then some "0xbCc2Fa395c6198096855c932f4087cF1377d28EE"
  else none

/-- One coin of the proposal. -/
def Hub.coldStorageCoin (h : Hub) (chain denom : String) (amt : Int) (txHash : String) : M (Hub × Nat) :=
  match coldStorageAddr chain with
  | none => panicM "unknown network"
  | some addr => do
    let h1 ← h.mintTo tempAddr denom amt
    h1.createSte chain tempAddr addr denom amt 0 0 txHash "hub" tempAddr

end Mhub2
