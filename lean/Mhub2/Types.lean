/-
  State of the hub model.  Stores are lists kept sorted by their byte key (see `Keys`), so that
  iteration order is the implementation's iteration order.
-/
import Mhub2.Arith
namespace Mhub2

inductive Err where
  | fail (msg : String)
  | panic (msg : String)
  deriving Repr, BEq

abbrev M := Except Err

def failM {α : Type} (m : String) : M α := .error (.fail m)
def panicM {α : Type} (m : String) : M α := .error (.panic m)

structure TokenInfo where
  id : Nat
  denom : String
  chain : String
  extId : String
  dec : Nat
  commission : Int        -- sdk.Dec scaled by 10^18
  deriving Repr, BEq

/-- `types.SendToExternal`; amounts in external units. Accounts are lower-case hex of the 20
    address bytes; external addresses are the strings the implementation stores. -/
structure Ste where
  id : Nat
  sender : String
  recipient : String
  tokenId : Nat
  extToken : String
  amount : Int
  fee : Int
  comm : Int
  chain : String
  txHash : String
  createdAt : Nat
  refundAddr : String
  refundChain : String
  deriving Repr, BEq

structure Batch where
  nonce : Nat
  timeout : Nat
  height : Nat
  seq : Nat
  extToken : String
  txs : List Ste
  deriving Repr, BEq

structure Signer where
  power : Nat
  addr : String
  deriving Repr, BEq

structure SignerSet where
  nonce : Nat
  height : Nat
  seq : Nat
  signers : List Signer
  deriving Repr, BEq

inductive Event where
  | sendToHub (nonce : Nat) (coin : String) (amount : Int) (sender : String)
      (receiver : String) (height : Nat) (txHash : String)
  | transfer (nonce : Nat) (coin : String) (amount fee : Int) (sender : String)
      (rchain : String) (receiver : String) (height : Nat) (txHash : String)
  | batchExecuted (coin : String) (nonce batchNonce height : Nat) (txHash : String)
      (feePaid : Int) (feePayer : String)
  | contractCall (nonce : Nat) (scope : Bytes) (invNonce height : Nat)
  | signerSet (nonce setNonce height : Nat) (members : List Signer) (txHash : String)
  deriving Repr, BEq

def Event.nonce : Event → Nat
  | .sendToHub n .. => n
  | .transfer n .. => n
  | .batchExecuted _ n .. => n
  | .contractCall n .. => n
  | .signerSet n .. => n

def Event.height : Event → Nat
  | .sendToHub _ _ _ _ _ h _ => h
  | .transfer _ _ _ _ _ _ _ h _ => h
  | .batchExecuted _ _ _ h _ _ _ => h
  | .contractCall _ _ _ h => h
  | .signerSet _ _ h _ _ => h

structure VoteRec where
  nonce : Nat
  hash : Bytes
  ev : Event
  votes : List String
  accepted : Bool
  deriving Repr, BEq

structure SigRec where
  index : Bytes          -- store index of the outgoing tx (without the chain prefix byte run)
  val : String           -- validator (hex)
  sig : String           -- signature (hex)
  deriving Repr, BEq

structure ChainSt where
  pool : List Ste := []
  batches : List Batch := []
  sets : List SignerSet := []
  lastSteId : Nat := 0
  lastBatchNonce : Nat := 0
  outSeq : Nat := 0
  latestSetNonce : Nat := 0
  lastObserved : Nat := 0
  obsCosmosHeight : Nat := 0
  obsExtHeight : Nat := 0
  lastObservedSet : Option (Nat × List Signer) := none
  records : List VoteRec := []
  lastNonceBy : List (String × Nat) := []
  sigs : List SigRec := []
  valExt : List (String × String) := []
  orchVal : List (String × String) := []
  extOrch : List (String × String) := []
  deriving Repr

structure Validator where
  addr : String
  power : Nat
  bonded : Bool
  deriving Repr, BEq

structure Params where
  outgoingTimeoutMs : Nat := 86399999
  targetTimeout : Nat := 86400000
  avgBlock : Nat := 5000
  avgEth : Nat := 15000
  avgBsc : Nat := 5000
  window : Nat := 10000
  gravityId : String := "defaultgravityid"
  voteNum : Int := 66
  voteAdd : Int := 99
  voteDen : Int := 100
  deriving Repr

structure Hub where
  chains : List String := []
  cs : List (String × ChainSt) := []
  tokens : List TokenInfo := []
  bal : List ((String × String) × Int) := []
  supply : List (String × Int) := []
  status : List (String × (Nat × String)) := []
  feeRec : List (String × (Int × Int)) := []
  prices : List (String × Int) := []
  holders : List (String × Int) := []
  height : Nat := 1
  time : Nat := 0
  params : Params := {}
  staking : List Validator := []
  deriving Repr

def tempAddr : String := "0101010101010101010101010101010101010101"
def moduleAcc : String := "module"

def Hub.chain (h : Hub) (c : String) : ChainSt := (alGet h.cs c).getD {}
def Hub.setChain (h : Hub) (c : String) (s : ChainSt) : Hub := { h with cs := alSet h.cs c s }
def Hub.hasChain (h : Hub) (c : String) : Bool := h.chains.contains c

/- Keys (without the constant prefix byte and chain id, which are the same for all entries of
   one per-chain list). -/
def poolKey (s : Ste) : Bytes := strBytes s.extToken ++ fill32 s.fee.natAbs ++ be8 s.id
def batchKey (b : Batch) : Bytes := strBytes b.extToken ++ be8 b.nonce
def batchKeyOf (extToken : String) (nonce : Nat) : Bytes := strBytes extToken ++ be8 nonce
def setKey (s : SignerSet) : Bytes := be8 s.nonce
def recKey (r : VoteRec) : Bytes := be8 r.nonce ++ r.hash
def hexToBytes (s : String) : Bytes := (hex2bytes? s.toList).getD []
def sigKey (r : SigRec) : Bytes := r.index ++ hexToBytes r.val

/-- Store index of an outgoing tx: `[type byte] ++ chain ++ rest`. -/
def setIndex (chain : String) (nonce : Nat) : Bytes := [1] ++ strBytes chain ++ be8 nonce
def batchIndex (chain : String) (extToken : String) (nonce : Nat) : Bytes :=
  [2] ++ strBytes chain ++ strBytes extToken ++ be8 nonce

end Mhub2
