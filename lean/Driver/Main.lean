import Mhub2.Step
import Mhub2.MinterRelay
open Mhub2

/-- `a:b:c,a:b:c` (or `-`) → hub transactions. -/
def parseHubTxs (s : String) : Option (List HubTx) :=
  if s == "-" then some []
  else (s.splitOn ",").mapM fun item =>
    match item.splitOn ":" with
    | [a, b, c] => match a.toNat?, b.toNat?, c.toNat? with
      | some a, some b, some c => some ⟨a, b, c⟩
      | _, _, _ => none
    | _ => none

def parseList (s : String) : List String := if s == "-" then [] else s.splitOn ","

def showList (l : List String) : String := if l.isEmpty then "-" else ",".intercalate l

def showPick : Option HubTx → String
  | none => "pick none"
  | some t => s!"pick {t.seq}/{t.nonce}"

/-- The connector's Minter-side decisions as pure functions of what it read from the hub and the node
    (`mxq ...` lines of the mloop profile; they do not touch the hub state). -/
def mxq (w : List String) : String :=
  match w with
  | ["pickb", qok, last, txs] =>
    match last.toNat?, parseHubTxs txs with
    | some l, some t => showPick (relayBatchesPick (qok == "1") l t)
    | _, _ => "bad-op"
  | ["pickv", qok, last, txs] =>
    match last.toNat?, parseHubTxs txs with
    | some l, some t => showPick (relayValsetsPick (qok == "1") l t)
    | _, _ => "bad-op"
  | ["weights", ps] =>
    match (parseList ps).mapM String.toNat? with
    | some l => "weights " ++ showList ((minterWeights l).map toString)
    | none => "bad-op"
  | ["accept", next, n, ws, bits] =>
    match next.toNat?, n.toNat?, (parseList ws).mapM String.toNat? with
    | some a, some b, some l => s!"accept {minterAccepts a b l (bits.toList.map (· == '1'))}"
    | _, _, _ => "bad-op"
  | ["sigsb", members, confirmers] => "sigs " ++ showList (batchSignatures (parseList members) (parseList confirmers))
  | ["sigsv", isMs, members, confirmers] =>
    "sigs " ++ showList (valsetSignatures (isMs == "1") (parseList members) (parseList confirmers))
  | _ => "bad-op"

partial def loop (inp : IO.FS.Stream) (out : IO.FS.Stream) (h : World) : IO Unit := do
  let line ← inp.getLine
  if line.isEmpty then return ()
  match (line.trimAscii.toString.splitOn " ").filter (· != "") with
  | "mxq" :: w =>
    out.putStrLn (mxq w)
    loop inp out h
  | _ =>
    let (h', o) := step h line
    out.putStrLn o
    loop inp out h'

def main : IO Unit := do
  let stdin ← IO.getStdin
  let stdout ← IO.getStdout
  loop stdin stdout {}
  stdout.flush
