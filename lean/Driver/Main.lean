import Mhub2.Step
open Mhub2

partial def loop (inp : IO.FS.Stream) (out : IO.FS.Stream) (h : World) : IO Unit := do
  let line ← inp.getLine
  if line.isEmpty then return ()
  let (h', o) := step h line
  out.putStrLn o
  loop inp out h'

def main : IO Unit := do
  let stdin ← IO.getStdin
  let stdout ← IO.getStdout
  loop stdin stdout {}
  stdout.flush
