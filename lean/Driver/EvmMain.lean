import Mhub2.Contract
open Mhub2

def parseMembers (s : String) : Option ValsetArgs :=
  if s == "-" then some ⟨[], [], 0⟩
  else do
    let items ← (s.splitOn ",").mapM fun it =>
      match it.splitOn ":" with
      | [a, p] => p.toNat?.map fun pw => (hexToBytes (strip0x a), pw)
      | _ => none
    some ⟨items.map (·.1), items.map (·.2), 0⟩

def parseSigs (s : String) : Option (List SigSlot) :=
  if s == "none" then some []
  else (s.splitOn ",").mapM fun it =>
    if it == "-" then some SigSlot.absent
    else match it.splitOn "/" with
      | [a, d] => some (SigSlot.sig (hexToBytes (strip0x a)) (hexToBytes d))
      | _ => none

def parseBatch (nonce timeout token txs : String) : Option BatchView := do
  let n ← nonce.toNat?
  let t ← timeout.toNat?
  let items ← (if txs == "-" then some [] else (txs.splitOn ";").mapM fun it =>
    match it.splitOn ":" with
    | [a, d, f] => do some ((← a.toNat?), hexToBytes (strip0x d), (← f.toNat?))
    | _ => none)
  some { amounts := items.map (·.1), destinations := items.map (·.2.1), fees := items.map (·.2.2),
         nonce := n, token := hexToBytes (strip0x token), timeout := t }

def estep (s : Hub2St) (line : String) : Hub2St × String :=
  match (line.trimAscii.toString.splitOn " ").filter (· != "") with
  | ["e_reset"] => ({}, "ok")
  | ["e_deploy", gid, threshold, members, self] =>
    match fixed32 gid, threshold.toNat?, parseMembers members with
    | some g, some th, some vs =>
      -- the constructor requires the cumulative power to exceed the threshold
      let rec cum : List Nat → Nat → Nat
        | [], c => c
        | p :: ps, c => if c + p > th then c + p else cum ps (c + p)
      if vs.validators.length != vs.powers.length || !(cum vs.powers 0 > th) then (s, "revert")
      else ({ gravityId := g, threshold := th, checkpoint := makeCheckpoint g { vs with nonce := 0 },
              self := hexToBytes (strip0x self) }, "ok")
    | _, _, _ => (s, "bad-op")
  | ["e_token", token, supply] =>
    match supply.toNat? with
    | some n => ({ s with erc20 := alSet s.erc20 (hexToBytes (strip0x token), s.self) n }, "ok")
    | none => (s, "bad-op")
  | ["e_update", bn, newNonce, newMembers, curNonce, curMembers, sigs] =>
    match bn.toNat?, newNonce.toNat?, parseMembers newMembers, curNonce.toNat?, parseMembers curMembers, parseSigs sigs with
    | some b, some nn, some nv, some cn, some cv, some sg =>
      let s := { s with blockNumber := b }
      match s.updateValset { nv with nonce := nn } { cv with nonce := cn } sg with
      | some (s', _) => (s', "ok")
      | none => (s, "revert")
    | _, _, _, _, _, _ => (s, "bad-op")
  | ["e_batch", bn, curNonce, curMembers, sigs, nonce, timeout, token, txs] =>
    match bn.toNat?, curNonce.toNat?, parseMembers curMembers, parseSigs sigs, parseBatch nonce timeout token txs with
    | some b, some cn, some cv, some sg, some bv =>
      let s := { s with blockNumber := b }
      match s.submitBatch { cv with nonce := cn } sg bv with
      | some (s', _) => (s', "ok")
      | none => (s, "revert")
    | _, _, _, _, _ => (s, "bad-op")
  | ["e_approve", user, token, amount] =>
    match amount.toNat? with
    | some a => ({ s with allowance := alSet s.allowance (hexToBytes (strip0x token), hexToBytes (strip0x user)) a }, "ok")
    | none => (s, "bad-op")
  | ["e_deposit", user, token, amount, fee] =>
    match amount.toNat?, fee.toNat? with
    | some a, some f =>
      match s.transferToChain (hexToBytes (strip0x token)) (hexToBytes (strip0x user)) a f with
      | some (s', _) => (s', "ok")
      | none => (s, "revert")
    | _, _ => (s, "bad-op")
  | "e_dump" :: token :: holders =>
    let t := hexToBytes (strip0x token)
    (s, s!"valset={s.valsetNonce} event={s.eventNonce} batch={s.lastBatchNonce t} cp={hexOfBytes s.checkpoint} bal=" ++
      ",".intercalate (holders.map fun h => toString (s.bal t (if h == "self" then s.self else hexToBytes (strip0x h)))))
  | ["e_digest_set", nonce, members] =>
    match nonce.toNat?, parseMembers members with
    | some n, some vs => (s, hexOfBytes (makeCheckpoint s.gravityId { vs with nonce := n }))
    | _, _ => (s, "bad-op")
  | [] => (s, "")
  | _ => (s, "bad-op")

partial def loop (inp out : IO.FS.Stream) (st : Hub2St) : IO Unit := do
  let line ← inp.getLine
  if line.isEmpty then return ()
  let (st', o) := estep st line
  out.putStrLn o
  loop inp out st'

def main : IO Unit := do
  let stdin ← IO.getStdin
  let stdout ← IO.getStdout
  loop stdin stdout {}
  stdout.flush
