import Mhub2.Connector
open Mhub2

structure CSt where
  chain : List MBlock := []
  persisted : Cursor := ⟨0, 1, 1, 0⟩
  lastLog : List Cursor := []

def parseBool (s : String) : Bool := s == "1"

def parseTx (s : String) : Option MTx :=
  match s.splitOn ":" with
  | ["send", a, b, c] => some (.send (parseBool a) (parseBool b) (parseBool c))
  | ["ms", a] => some (.multisend (parseBool a))
  | ["em", a, p] => some (.editMultisig (parseBool a) p.toNat?)
  | ["other"] => some .other
  | _ => none

def showClaim : Claim → String
  | .deposit n h => s!"dep:{n}:{h}"
  | .batch n b h => s!"bat:{n}:{b}:{h}"
  | .valset n v h => s!"val:{n}:{v}:{h}"

def showCursor (c : Cursor) : String := s!"({c.lastChecked},{c.nextEvent},{c.nextBatch},{c.lastValset})"

def cstep (st : CSt) (line : String) : CSt × String :=
  match (line.trimAscii.toString.splitOn " ").filter (· != "") with
  | ["m_reset"] => ({}, "ok")
  | ["m_start", a, b, c, d] =>
    match a.toNat?, b.toNat?, c.toNat?, d.toNat? with
    | some a, some b, some c, some d => ({ st with persisted := ⟨a, b, c, d⟩ }, "ok")
    | _, _, _, _ => (st, "bad-op")
  | ["m_block", h, txs] =>
    match h.toNat? with
    | none => (st, "bad-op")
    | some ht =>
      let l := if txs == "-" then some [] else (txs.splitOn ";").mapM parseTx
      match l with
      | some l => ({ st with chain := st.chain ++ [⟨ht, l⟩] }, "ok")
      | none => (st, "bad-op")
  | ["m_resync", ack] =>
    match ack.toNat? with
    | none => (st, "bad-op")
    | some a =>
      let r := resync st.persisted a st.chain
      let persisted := (r.commits.getLast?).getD st.persisted
      ({ st with persisted := persisted, lastLog := r.commits },
        "commits " ++ ";".intercalate (r.commits.map showCursor) ++ " final " ++ showCursor r.cur)
  | ["m_relay"] =>
    let latest := (st.chain.map (·.height)).foldl max 0
    let r := relay st.persisted st.chain latest
    let persisted := (r.commits.getLast?).getD st.persisted
    ({ st with persisted := persisted, lastLog := r.commits },
      "relay claims " ++ ",".intercalate (r.claims.map showClaim) ++ " commits " ++ ";".intercalate (r.commits.map showCursor)
        ++ " final " ++ showCursor r.cur)
  | ["m_restart", k] =>
    match k.toNat? with
    | none => (st, "bad-op")
    | some k =>
      match st.lastLog[k]? with
      | some c => ({ st with persisted := c }, "ok " ++ showCursor c)
      | none => (st, "ok " ++ showCursor st.persisted)
  | ["m_cmd", known, rok, fee, amount] =>
    match amount.toInt? with
    | none => (st, "bad-op")
    | some a => (st, if commandValid (parseBool known) (parseBool rok) fee.toInt? a then "valid" else "invalid")
  | ["m_cmd2", type, rhex, rok, feehex, amount] =>
    let dec (h : String) : Option Bytes := if h == "-" then some [] else hex2bytes? h.toList
    match dec rhex, dec feehex, amount.toInt? with
    | some r, some f, some a =>
      (st, match commandCheck type r (parseBool rok) f a with
        | some r' => "valid " ++ hexOfBytes r'
        | none => "invalid")
    | _, _, _ => (st, "bad-op")
  | [] => (st, "")
  | _ => (st, "bad-op")

partial def loop (inp out : IO.FS.Stream) (st : CSt) : IO Unit := do
  let line ← inp.getLine
  if line.isEmpty then return ()
  let (st', o) := cstep st line
  out.putStrLn o
  loop inp out st'

def main : IO Unit := do
  let stdin ← IO.getStdin
  let stdout ← IO.getStdout
  loop stdin stdout {}
  stdout.flush
