import Lemmas.Assoc
import Lemmas.Arith
import Lemmas.Bank
import Lemmas.Votes
