/-
  C01 — the governance cold-storage transfer (`Keeper.ColdStorageTransfer`).

  The proposal moves collateral from the bridge contract / multisig to the cold-storage address of
  the same custody.  On the hub it mints `amt` vouchers and burns them again inside the same call,
  leaving ONE pool entry addressed to the hard-wired cold-storage address.  The theorems say that
  nothing else happens: circulating supply and every balance are as before, the only new liability
  is that entry, its external amount is the floor conversion of `amt` (never more than `amt`), it
  pays no fee and no commission, and its recipient is the cold-storage address of that chain — so
  the vouchers minted without a deposit can never reach an account, only custody.
  (If the entry is cancelled or expires, the refund goes to the module's temporary account with
  refund chain "hub": `refundChain`/`sender` below.)
-/
import Lemmas.Value
import Mhub2.Cold
import Mhub2.Generated.Facts
namespace Mhub2.C01Cold
open Mhub2

theorem cold_unknown_chain_panics (h : Hub) {chain : String} (hc : coldStorageAddr chain = none)
    (denom : String) (amt : Int) (tx : String) :
    h.coldStorageCoin chain denom amt tx = panicM "unknown network" := by
  unfold Hub.coldStorageCoin; rw [hc]

/-- Supply is unchanged, the value of the denom grows by exactly the converted amount (which is at
    most the minted amount), other denoms do not move. -/
theorem cold_value {h h' : Hub} {chain dn tx : String} {amt : Int} {id : Nat}
    (hok : h.coldStorageCoin chain dn amt tx = .ok (h', id))
    (htk : h.TokensOK) (hnd : h.tokens.Nodup) (hi : h.LedgerInv) (hb : h'.Bounded) (denom : String) :
    h'.supplyOf denom = h.supplyOf denom ∧
    ∃ tok, h.tokenByDenom chain dn = some tok ∧
      h'.value denom = h.value denom + (if dn = denom then toExt tok.dec amt * unitOf tok.dec else 0) ∧
      h'.value denom ≤ h.value denom + hubCredit dn denom amt := by
  unfold Hub.coldStorageCoin at hok
  split at hok
  · simp [panicM] at hok
  · rename_i addr _
    simp only [bind, Except.bind] at hok
    split at hok
    · simp at hok
    · rename_i h1 hm
      obtain ⟨hpos, hcs, htok, _, hsup1⟩ := mintTo_parts hm
      have htk1 : h1.TokensOK := by
        constructor <;> (rw [htok]; first | exact htk.dec_le | exact htk.ext_unique | exact htk.denom_unique | exact htk.id_unique)
      have hnd1 : h1.tokens.Nodup := by rw [htok]; exact hnd
      have hi1 : h1.LedgerInv := by
        intro c; rw [chain_of_cs hcs c]; exact hi c
      obtain ⟨tok, htd, hv⟩ := createSte_value_eq hok htk1 hnd1 hi1 hb denom
      obtain ⟨_, _, _, _, _, _, _, _, _, _, _, _, _, _, _, _, _, _, hsup2'⟩ := createSte_parts hok
      have hsup2 := hsup2' denom
      have htd' : h.tokenByDenom chain dn = some tok := by
        unfold Hub.tokenByDenom at htd ⊢; rw [htok] at htd; exact htd
      have hv1 := mintTo_value hm denom
      have hz : toExt tok.dec 0 = 0 := by unfold toExt convertDecimals; split <;> simp
      have hd := htk.dec_le tok (tokenByDenom_some htd').1
      have hle := toExt3_value_le hd amt 0 0
      refine ⟨?_, tok, htd', ?_, ?_⟩
      · rw [hsup2, hsup1 denom]; unfold hubCredit at *; split <;> simp_all <;> omega
      · rw [hv, hv1]; simp only [Int.add_zero, hz]; unfold hubCredit; split <;> omega
      · rw [hv, hv1]; simp only [Int.add_zero, hz] at hle ⊢; unfold hubCredit at *; split <;> omega

/-- The one entry the proposal leaves behind: addressed to the chain's cold-storage address, sent by
    the temporary account, no fee, no commission, refundable only to the temporary account on the
    hub; nothing else in the pool changes and no stored batch changes. -/
theorem cold_entry {h h' : Hub} {chain dn tx : String} {amt : Int} {id : Nat}
    (hok : h.coldStorageCoin chain dn amt tx = .ok (h', id)) :
    ∃ (addr : String) (tok : TokenInfo) (ste : Ste),
      coldStorageAddr chain = some addr ∧ h.tokenByDenom chain dn = some tok ∧
      ste.recipient = addr ∧ ste.sender = tempAddr ∧ ste.fee = 0 ∧ ste.comm = 0 ∧
      ste.refundChain = "hub" ∧ ste.refundAddr = tempAddr ∧ ste.id = id ∧
      ste.amount = h.toExternal chain tok.extId amt ∧ 0 < amt ∧
      (h'.chain chain).pool = insertByKey poolKey ste (h.chain chain).pool ∧
      (h'.chain chain).batches = (h.chain chain).batches := by
  unfold Hub.coldStorageCoin at hok
  split at hok
  · simp [panicM] at hok
  · rename_i addr haddr
    simp only [bind, Except.bind] at hok
    split at hok
    · simp at hok
    · rename_i h1 hm
      obtain ⟨hpos, hcs, htok, _, _⟩ := mintTo_parts hm
      unfold Hub.createSte at hok
      simp only [bind, Except.bind] at hok
      split at hok
      · rename_i tok htd
        split at hok
        · simp at hok
        · rename_i v hv
          simp only [pure, Except.pure, Except.ok.injEq, Prod.mk.injEq] at hok
          obtain ⟨hh, hid⟩ := hok
          obtain ⟨hcs2, _⟩ := burnFrom_cs hv
          have hc : v.chain chain = h.chain chain := by rw [chain_of_cs hcs2, chain_of_cs hcs]
          have htd' : h.tokenByDenom chain dn = some tok := by
            unfold Hub.tokenByDenom at htd ⊢; rw [htok] at htd; exact htd
          have hz : ∀ e, v.toExternal chain e 0 = 0 := by
            intro e; unfold Hub.toExternal; split <;> (try rfl) <;> (unfold toExt convertDecimals; split <;> simp)
          refine ⟨addr, tok,
            { id := (v.chain chain).lastSteId + 1, sender := tempAddr, recipient := addr, tokenId := tok.id,
              extToken := tok.extId, amount := v.toExternal chain tok.extId amt,
              fee := v.toExternal chain tok.extId 0, comm := v.toExternal chain tok.extId 0, chain := chain,
              txHash := tx, createdAt := v.time, refundAddr := tempAddr, refundChain := "hub" }, haddr, htd', rfl, rfl, hz _, hz _, rfl, rfl, ?_, ?_, hpos, ?_, ?_⟩
          · rw [← hid, hc]
          · have e1 := (burnFrom_parts hv).2.2.1
            unfold Hub.toExternal Hub.tokenByExt; rw [e1, htok]
          · rw [← hh, hc]; simp [chain_setChain]
          · rw [← hh, hc]; simp [chain_setChain]
      · simp [failM] at hok

/-! ### Bridge to the source (regenerated on every run) -/

theorem fact_cold_mint : Generated.cold_mint =
    "k.bankKeeper.MintCoins(ctx, types.ModuleName, vouchers) | k.bankKeeper.SendCoinsFromModuleToAccount(ctx, types.ModuleName, types.TempAddress, vouchers) | vouchers := sdk.Coins{coin}" := rfl
theorem fact_cold_create_args : Generated.cold_create_args =
    "ctx | chainId | types.TempAddress | coldStorageAddr | coin | sdk.NewCoin(coin.Denom, sdk.NewInt(0)) | sdk.NewCoin(coin.Denom, sdk.NewInt(0)) | \"hub\" | types.TempAddress.String()" := rfl
theorem fact_cold_calls : Generated.cold_calls =
    "k.bankKeeper.MintCoins | k.bankKeeper.SendCoinsFromModuleToAccount | k.createSendToExternal" := rfl
theorem fact_cold_addrs : Generated.cold_addrs =
    "\"minter\" => return \"0x7072558b2b91e62dbed78e9a3453e5c9e01fec5e\" | \"ethereum\" => return \"0x58BD8047F441B9D511aEE9c581aEb1caB4FE0b6d\" | \"bsc\" => return \"0xbCc2Fa395c6198096855c932f4087cF1377d28EE\"" := rfl

/-! ### Non-vacuity: a 6-decimal token on "ethereum", 1.5 units + dust sent to cold storage -/

def exOps : List Op := [.chains ["ethereum", "minter"], .token ⟨1, "hub", "ethereum", "T", 6, 0⟩,
  .fund "a" "hub" 5000000000000000000]

example : (match (runOps exOps).coldStorageCoin "ethereum" "hub" 1500000000000000007 "p" with
    | .ok (h', id) => id == 1 && h'.supplyOf "hub" == 5000000000000000000 && h'.balance tempAddr "hub" == 0 &&
        ((h'.chain "ethereum").pool.map fun s => (s.recipient, s.amount, s.fee, s.comm, s.refundChain)) ==
          [("0x58BD8047F441B9D511aEE9c581aEb1caB4FE0b6d", 1500000, 0, 0, "hub")] &&
        h'.value "hub" == (runOps exOps).value "hub" + 1500000 * unitOf 6
    | .error _ => false) = true := by decide +kernel
example : (match (runOps exOps).coldStorageCoin "hub" "hub" 5 "p" with
    | .error (.panic m) => m == "unknown network" | _ => false) = true := by decide +kernel
example : (match (runOps exOps).coldStorageCoin "ethereum" "hub" 0 "p" with
    | .error (.fail _) => true | _ => false) = true := by decide +kernel

end Mhub2.C01Cold
